import ZvbiModel.Search.LemmasCacheR
/-!
# Specification side of C17 and the full-strength statements that are NOT proved

`Matches`: what "the page contains the pattern" means (the matcher parameter applied to the whole page text).
`passRank`: the order in which a forward pass from (P, S) has to report pages (ascending from the start position,
wrapping once).  `walk_complete_full`, `search_exact_full`: the property at full strength over ALL store histories.
What is proved (Props/C17.lean) is the same under the explicit exclusion of finding C17-D2 (`NoWrap`: the 16 bit
counter `n_subpages` has not wrapped, fewer than 65536 cached pages per page number) - `walk_complete_cached` - and,
for `search_exact`, per call instead of per pass (`search_exact_first_call`, `search_exact_not_found`,
`search_success_sound`).  They are kept here as `def ... : Prop` so that the gap stays visible.

Both are stated per source shape `fix` of `_vbi_cache_put_page` (`buildF fix`, LemmasCacheR.lean): `fix = false` the
source with finding F17 / C17-D2, `fix = true` with fixes/C10-put-replaces-all-versions.diff.  `walk_complete_full true`
is PROVED (Props/C17.lean `walk_complete_repaired`: `NoWrap` is a theorem there); `walk_complete_full false` stays open.
-/
namespace Zvbi.Search

/-- page (p, s) is cached as a level one page and its text (rows 1..23) contains the pattern (`lookupX`: of several
    cached pages with the same number the look-ups only ever see the first of the chain) -/
def Matches (exec : Exec) (c : Cache) (p s : Nat) : Prop :=
  ∃ e, lookupX c p s = some e ∧ e.func = FUNC_LOP ∧ (exec {} (hayFwd e.text (-1) 0).1).isSome

/-- distance of page (q, t) from the start position (P, S) of a forward pass: ascending page / sub-page numbers,
    wrapping behind 8FF.3F7F to 100.0 -/
def passRank (P S q t : Int) : Int :=
  if key q t ≥ key P S then key q t - key P S else key q t - key P S + 0x900 * 65536

/-- successive `vbi_search_next` calls: (status, page formatted last) -/
def runNexts (sh : Shape) (exec : Exec) : Cache → SearchSt → List Int → List (Res × Nat × Nat)
  | _, _, [] => []
  | c, s, d :: ds =>
    let o := searchNext sh exec walkFuel c s d
    (o.res, o.st.pgPgno, o.st.pgSubno) :: runNexts sh exec o.cache o.st ds

/-- The whole-pass statement as recorded in round 2.  A fresh forward search on any reachable cache: the calls up to
    the first NOT_FOUND return exactly the matching pages (each at least once: one call per occurrence), never a page
    that does not match, and NOT_FOUND comes after at most one call per occurrence.
    Round 5: PROVED for forward passes as `Zvbi.Props.C17Pass.search_exact_pass` (+ order of the reports) under the
    hypotheses this `def` should have carried: `NoWrap` for `fix = false` (C17-D2; a theorem for `fix = true`),
    `0 <= S <= 0xFFFF`, the exclusion of C17-D7 for `sh.startExact = false`, and `PgOk p` in the second conjunct - the
    model's store takes any page number, the walk visits 0x100..0x8FF only, so the conjunct as written here fails for a
    matching page stored under number 5 (never stored by the decoder).  The hypothesis on `exec` is not needed.
    OPEN: the same for backward passes and for passes with direction changes. -/
def search_exact_full (fix : Bool) : Prop :=
  ∀ (sh : Shape) (exec : Exec) (ops : List PutOp) (P S : Int) (s0 : SearchSt) (n : Nat), (∀ o ∈ ops, o.subno ≤ 0x3F7F) →
    PgOk P → searchNew P S 1 = some s0 →
    (∀ f t ms me, exec f t = some (ms, me) → ms < me) →
    let c := buildF fix ops
    let rs := runNexts sh exec c s0 (List.replicate n 1)
    let pass := rs.takeWhile (fun r => r.1 = .ret SEARCH_SUCCESS)
    (∀ r ∈ pass, Matches exec c r.2.1 r.2.2) ∧
    (pass.length < n → ∀ p s, Matches exec c p s → ∃ r ∈ pass, r.2 = (p, s))

/-- OPEN for `fix = false`, PROVED for `fix = true` (`walk_complete_repaired`).  Every cached page is handed to the
    callback in every sweep, after EVERY history of page stores.  Shape as found: proved with the additional hypothesis
    `NoWrap (buildF false ops)` (`walk_complete_cached`); without it the statement fails at 65536 cached pages of one
    page number (C17-D2, 16 bit `n_subpages`). -/
def walk_complete_full (fix : Bool) : Prop :=
  ∀ (sh : Shape) (ops : List PutOp) (pgno subno dir : Int), (∀ o ∈ ops, o.subno ≤ 0x3F7F) → PgOk pgno → dir = 1 ∨ dir = -1 →
    ∀ (q : Nat) (e : Entry), PgOk q → e ∈ ((buildF fix ops).slots q).chain →
      ((q : Int), (e.subno : Int), true) ∈ walkPositions sh (buildF fix ops) pgno subno dir

end Zvbi.Search
