import ZvbiModel.Search.LemmasFactor
/-!
# Specification side of C17 and the full-strength statements that are NOT proved

`Matches`: what "the page contains the pattern" means (the matcher parameter applied to the whole page text).
`search_exact_full`, `walk_complete_full`: the property at full strength.  Both are FALSE on the current code
(Props/C17.lean: `start_page_skipped_counterexample`, `stats_min_counterexample`, `stats_count_counterexample`,
`walk_order_counterexample_any`; and, for the real matcher, `matcher_quirk_counterexample`); they are kept here as
`def ... : Prop` so that the gap between what is proved and what the property demands stays visible.
-/
namespace Zvbi.Search

/-- page (p, s) is cached as a level one page and its text (rows 1..23) contains the pattern -/
def Matches (exec : Exec) (c : Cache) (p s : Nat) : Prop :=
  ∃ e, lookup c p s = some e ∧ e.func = FUNC_LOP ∧ (exec {} (hayFwd e.text (-1) 0).1).isSome

/-- successive `vbi_search_next` calls: (status, page formatted last) -/
def runNexts (exec : Exec) : Cache → SearchSt → List Int → List (Res × Nat × Nat)
  | _, _, [] => []
  | c, s, d :: ds =>
    let o := searchNext exec walkFuel c s d
    (o.res, o.st.pgPgno, o.st.pgSubno) :: runNexts exec o.cache o.st ds

/-- OPEN, false on the current code.  A fresh forward search: the calls up to the first NOT_FOUND return exactly the
    matching pages (each at least once: one call per occurrence), never a page that does not match, and NOT_FOUND
    comes after at most one call per occurrence. -/
def search_exact_full : Prop :=
  ∀ (exec : Exec) (c : Cache) (P S : Int) (s0 : SearchSt) (n : Nat), PgOk P → searchNew P S 1 = some s0 →
    (∀ f t ms me, exec f t = some (ms, me) → ms < me) →
    let rs := runNexts exec c s0 (List.replicate n 1)
    let pass := rs.takeWhile (fun r => r.1 = .ret SEARCH_SUCCESS)
    (∀ r ∈ pass, Matches exec c r.2.1 r.2.2) ∧
    (pass.length < n → ∀ p s, Matches exec c p s → ∃ r ∈ pass, r.2 = (p, s))

/-- OPEN, false on the current code.  Every cached page is handed to the callback exactly once per sweep. -/
def walk_complete_full : Prop :=
  ∀ (c : Cache) (pgno subno dir : Int), PgOk pgno → dir = 1 ∨ dir = -1 →
    ∀ (q : Nat) (e : Entry), PgOk q → e ∈ (c.slots q).chain →
      ((q : Int), (e.subno : Int), true) ∈ walkPositions c pgno subno dir

end Zvbi.Search
