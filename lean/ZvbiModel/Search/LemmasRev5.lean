import ZvbiModel.Search.LemmasRev4
/-!
# Lemmas towards the BACKWARD whole-pass statement (C17), part 5: a turn from forward to backward

`vbi_search_next (.., -1)` on a context whose direction is +1: `prepare` installs the start position (= the page the
last forward call returned) as both stop positions and keeps the cursor.  The context it leaves satisfies `PassInvR` /
`PassCtxR` with the turn position as the beginning of the backward pass, so the induction lemmas of LemmasRev4 apply.
-/
namespace Zvbi.Search

theorem prepare_turn_rev (sh : Shape) {s : SearchSt} (h : s.dir = 1) :
    (prepare sh s (-1)).startPgno = s.startPgno ∧ (prepare sh s (-1)).startSubno = s.startSubno ∧
    (prepare sh s (-1)).stopPgno1 = s.startPgno ∧ (prepare sh s (-1)).stopSubno1 = s.startSubno ∧
    (prepare sh s (-1)).row1 = s.row1 ∧ (prepare sh s (-1)).dir = -1 := by
  unfold prepare dirOf
  simp [h]

theorem runNexts_prepared_turn (sh : Shape) (exec : Exec) (c : Cache) (s : SearchSt) (h : s.dir = 1) (n : Nat) :
    runNexts sh exec c s (List.replicate n (-1)) = runNexts sh exec c (prepare sh s (-1)) (List.replicate n (-1)) := by
  cases n with
  | zero => rfl
  | succ n =>
    rw [List.replicate_succ]
    simp only [runNexts]
    have hpp : prepare sh (prepare sh s (-1)) (-1) = prepare sh s (-1) := by
      unfold prepare dirOf
      simp [h]
    have : searchNext sh exec walkFuel c s (-1) = searchNext sh exec walkFuel c (prepare sh s (-1)) (-1) := by
      unfold searchNext
      rw [hpp]
    rw [this]

/-- the context after the turn: a backward pass that begins at the turn position -/
theorem turn_rev_setup (sh : Shape) (exec : Exec) (c : Cache) (s : SearchSt) (hdir : s.dir = 1) (hpg : PgOk s.startPgno)
    (hsub : 0 ≤ s.startSubno ∧ s.startSubno < 65536) (hnoany : sh.startExact = true ∨ s.startSubno ≠ ANY_SUBNO)
    (hcur : 24 ≤ s.row1 ∨ MatchesIR exec c s.startPgno s.startSubno) :
    PassInvR exec c (prepare sh s (-1)) ∧ PassCtxR sh s.startPgno s.startSubno (prepare sh s (-1)) ∧
    (prepare sh s (-1)).startPgno = s.startPgno ∧ (prepare sh s (-1)).startSubno = s.startSubno := by
  obtain ⟨f1, f2, f3, f4, f5, f6⟩ := prepare_turn_rev sh hdir
  refine ⟨⟨f6, by rw [f1]; exact hpg, ?_⟩, ⟨f3, f4, by rw [f2]; exact ⟨by omega, hsub.2⟩, by rw [f2]; exact hnoany⟩, f1, f2⟩
  rw [f1, f2, f5]; exact hcur

theorem rkR_pos {B y : Int} (hB : 0 ≤ B ∧ B < 0x900 * 65536) (hy : 0 ≤ y ∧ y < 0x900 * 65536) (hne : y ≠ B) :
    0 < rkR B y := by
  unfold rkR; split <;> omega

end Zvbi.Search
