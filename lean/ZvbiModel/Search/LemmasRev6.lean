import ZvbiModel.Search.LemmasRev5
import ZvbiModel.Search.LemmasPass3
/-!
# Lemmas towards the whole-pass statement with a direction change (C17): a turn from backward to forward

`vbi_search_next (.., +1)` on a context whose direction is -1: `prepare` installs the start position (= the page the
last backward call returned) as both stop positions and keeps the cursor.  The context it leaves satisfies `PassInv` /
`PassCtx` (LemmasPass, LemmasPass2) with the turn position as the beginning of the forward pass.
-/
namespace Zvbi.Search

theorem prepare_turn_fwd (sh : Shape) {s : SearchSt} (h : s.dir = -1)
    (hkeep : sh.turnKeeps = true ∨ s.startSubno ≠ ANY_SUBNO) :
    (prepare sh s 1).startPgno = s.startPgno ∧ (prepare sh s 1).startSubno = s.startSubno ∧
    (prepare sh s 1).stopPgno0 = s.startPgno ∧ (prepare sh s 1).stopSubno0 = s.startSubno ∧
    (prepare sh s 1).row0 = s.row0 ∧ (prepare sh s 1).col0 = s.col0 ∧ (prepare sh s 1).dir = 1 := by
  unfold prepare dirOf
  rcases hkeep with hk | hk
  · simp [h, hk]
  · simp [h, hk]

theorem runNexts_prepared_turn_fwd (sh : Shape) (exec : Exec) (c : Cache) (s : SearchSt) (h : s.dir = -1) (n : Nat) :
    runNexts sh exec c s (List.replicate n 1) = runNexts sh exec c (prepare sh s 1) (List.replicate n 1) := by
  cases n with
  | zero => rfl
  | succ n =>
    rw [List.replicate_succ]
    simp only [runNexts]
    have hpp : prepare sh (prepare sh s 1) 1 = prepare sh s 1 := by
      unfold prepare dirOf
      simp [h]
    have : searchNext sh exec walkFuel c s 1 = searchNext sh exec walkFuel c (prepare sh s 1) 1 := by
      unfold searchNext
      rw [hpp]
    rw [this]

/-- the context after the turn: a forward pass that begins at the turn position -/
theorem turn_fwd_setup (sh : Shape) (exec : Exec) (c : Cache) (s : SearchSt) (hdir : s.dir = -1) (hpg : PgOk s.startPgno)
    (hsub : 0 ≤ s.startSubno ∧ s.startSubno < 65536) (hnoany : sh.startExact = true ∨ s.startSubno ≠ ANY_SUBNO)
    (hkeep : sh.turnKeeps = true ∨ s.startSubno ≠ ANY_SUBNO)
    (hcur : (s.row0 = 1 ∧ s.col0 = 0) ∨ MatchesI exec c s.startPgno s.startSubno) :
    PassInv exec c (prepare sh s 1) ∧ PassCtx sh s.startPgno s.startSubno (prepare sh s 1) ∧
    (prepare sh s 1).startPgno = s.startPgno ∧ (prepare sh s 1).startSubno = s.startSubno := by
  obtain ⟨f1, f2, f3, f4, f5, f6, f7⟩ := prepare_turn_fwd sh hdir hkeep
  refine ⟨⟨f7, by rw [f1]; exact hpg, ?_⟩, ⟨f3, f4, by rw [f2]; exact hsub, by rw [f2]; exact hnoany⟩, f1, f2⟩
  rw [f1, f2, f5, f6]; exact hcur

theorem rk_pos {B y : Int} (hB : 0 ≤ B ∧ B < 0x900 * 65536) (hy : 0 ≤ y ∧ y < 0x900 * 65536) (hne : y ≠ B) :
    0 < rk B y := by
  unfold rk; split <;> omega

theorem rk_self (B : Int) : rk B B = 0 := by unfold rk; simp

/-- the start look-up precondition survives the reordering of the hash chains -/
theorem startOk_of_equiv (sh : Shape) {c c' : Cache} (heq : Equiv c c') (hnoff : NoFF c) {p : Int} (hpg : PgOk p) :
    StartOk sh c' p := by
  rcases hsh : sh.startExact with _ | _
  · right
    by_cases hv : validPgno p = true
    · exact Or.inl hv
    · right
      have hff : p.toNat % 256 = 255 := by
        unfold validPgno at hv; unfold PgOk at hpg
        have h1 : (0x100 : Int) ≤ p := hpg.1
        have h2 : p ≤ (0x8FF : Int) := hpg.2
        simp [h1, h2] at hv
        omega
      have hempty := hnoff _ hff
      cases hch : (c'.slots p.toNat).chain with
      | nil => rfl
      | cons a l =>
        exfalso
        have hlk := heq.look p.toNat (a.subno : Int)
        rw [hempty, hch] at hlk
        simp [predX] at hlk
  · exact Or.inl hsh

end Zvbi.Search
