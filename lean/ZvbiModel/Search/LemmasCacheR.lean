import ZvbiModel.Search.LemmasCache
/-!
# The page statistics under BOTH source shapes of `_vbi_cache_put_page` (C17 follows `putReplacesAllVersions`)

`put` (shape as found, finding F17 / C17-D2) and `putR` (fixes/C10-put-replaces-all-versions.diff: a store under a
single-version key deletes every other cached page of the page number) are the two values of `putF fix`.  Everything
LemmasCache.lean proves about histories of `put` is proved here about histories of `putF fix` for an arbitrary `fix`
(`buildF fix`).  New for the repaired shape: the cached pages of one page number have pairwise different keys
(`subno % 256` for BCD page numbers, `subno % 16` for the others), hence there are at most 256 of them and the 16 bit
counter `n_subpages` cannot wrap: `NoWrap`, a hypothesis (C17-D2) for the shape as found, is a theorem
(`noWrap_repaired`).
-/
namespace Zvbi.Search

/-! ## `Stat.removeN` -/

theorem removeN_fields (st : Stat) (n : Nat) :
    (st.removeN n).subMin = st.subMin ∧ (st.removeN n).subMax = st.subMax := by
  induction n generalizing st with
  | zero => exact ⟨rfl, rfl⟩
  | succ n ih =>
    show (st.remove.removeN n).subMin = st.subMin ∧ (st.remove.removeN n).subMax = st.subMax
    exact ih st.remove

theorem remove_count (st : Stat) (L : Nat) (h : st.nSub.toNat = L % 65536) (hL : 1 ≤ L) :
    st.remove.nSub.toNat = (L - 1) % 65536 := by
  have hnlt := st.nSub.toNat_lt
  show (st.nSub - 1).toNat = (L - 1) % 65536
  rw [UInt16.toNat_sub]; simp; omega

theorem removeN_count (st : Stat) (n L : Nat) (h : st.nSub.toNat = L % 65536) (hn : n ≤ L) :
    (st.removeN n).nSub.toNat = (L - n) % 65536 := by
  induction n generalizing st L with
  | zero => exact h
  | succ n ih =>
    show (st.remove.removeN n).nSub.toNat = (L - (n + 1)) % 65536
    have := ih st.remove (L - 1) (remove_count st L h (by omega)) (by omega)
    rw [this]; congr 1; omega

/-! ## a look-up under modulus 1 finds the head of the chain -/

theorem removeFirst_mod_one {s : Nat} {l : List Entry} {old : Entry} {rest : List Entry}
    (h : removeFirst (fun e => e.subno % 1 = s % 1) l = some (old, rest)) : l = old :: rest := by
  cases l with
  | nil => simp [removeFirst] at h
  | cons a t =>
    unfold removeFirst at h
    simp only [Nat.mod_one, decide_true, if_true, Option.some.injEq, Prod.mk.injEq] at h
    rw [h.1, h.2]

theorem removeFirst_mod_one_none {s : Nat} {l : List Entry}
    (h : removeFirst (fun e => e.subno % 1 = s % 1) l = none) : l = [] := by
  cases l with
  | nil => rfl
  | cons a t =>
    unfold removeFirst at h
    simp [Nat.mod_one] at h

/-! ## the invariants of LemmasCache.lean through the repaired store -/

theorem putR_inv {c : Cache} (h : Inv c) (pgno subno : Nat) (func : Int) (text : Text) (tag : Nat)
    (hs : subno ≤ 0x3F7F) : Inv (putR c pgno subno func text tag) := by
  unfold putR
  by_cases hff : pgno % 256 = 255
  · simp [hff]; exact h
  · simp only [hff, if_false]
    have hk := putKey_le pgno subno
    generalize putKey pgno subno = k at hk
    obtain ⟨s, m⟩ := k
    simp only at hk ⊢
    have hs' : s ≤ 0x3F7F := by omega
    have hsl := h pgno
    cases hr : removeFirst (fun e => e.subno % m = s % m) (c.slots pgno).chain with
    | none =>
      simp only
      intro p
      unfold Cache.setSlot; simp only
      by_cases hp : p = pgno
      · subst hp
        simp only [if_true]
        exact add_slot_inv func text tag hs' hsl.count hsl.minmax hsl.small (fun hl => hsl.cover (by omega))
      · simp [hp]; exact h p
    | some t =>
      obtain ⟨old, rest⟩ := t
      simp only
      obtain ⟨hlen, hsub⟩ := removeFirst_length _ _ _ _ hr
      by_cases hm : m = 1
      · simp only [hm, if_true]
        intro p
        unfold Cache.setSlot; simp only
        by_cases hp : p = pgno
        · subst hp
          simp only [if_true]
          obtain ⟨f1, f2⟩ := removeN_fields (c.slots p).stat rest.length
          have hc1 := removeN_count (c.slots p).stat rest.length (c.slots p).chain.length hsl.count (by omega)
          have hc2 := remove_count ((c.slots p).stat.removeN rest.length) ((c.slots p).chain.length - rest.length) hc1
            (by omega)
          refine add_slot_inv (st := ((c.slots p).stat.removeN rest.length).remove) (rest := []) func text tag hs' ?_ ?_ ?_ ?_
          · rw [hc2]; simp; omega
          · show ((c.slots p).stat.removeN rest.length).subMin.toNat ≤ ((c.slots p).stat.removeN rest.length).subMax.toNat
            rw [f1, f2]; exact hsl.minmax
          · show ((c.slots p).stat.removeN rest.length).subMax.toNat ≤ 0x3F7F
            rw [f2]; exact hsl.small
          · intro _ e he; exact absurd he List.not_mem_nil
        · simp [hp]; exact h p
      · simp only [hm, if_false]
        intro p
        unfold Cache.setSlot; simp only
        by_cases hp : p = pgno
        · subst hp
          simp only [if_true]
          have hnlt := (c.slots p).stat.nSub.toNat_lt
          refine add_slot_inv (st := (c.slots p).stat.remove) func text tag hs' ?_ hsl.minmax hsl.small ?_
          · rw [remove_count _ _ hsl.count (by omega)]; congr 1; omega
          · intro hl e he
            exact hsl.cover (by omega) e (hsub e he)
        · simp [hp]; exact h p

theorem putR_noFF {c : Cache} (h : NoFF c) (pgno subno : Nat) (func : Int) (text : Text) (tag : Nat) :
    NoFF (putR c pgno subno func text tag) := by
  unfold putR
  by_cases hff : pgno % 256 = 255
  · simp [hff]; exact h
  · simp only [hff, if_false]
    generalize putKey pgno subno = k
    obtain ⟨s, m⟩ := k
    simp only
    intro p hp
    have hne : p ≠ pgno := fun e => hff (e ▸ hp)
    cases removeFirst (fun e => e.subno % m = s % m) (c.slots pgno).chain with
    | none => simp [Cache.setSlot, hne]; exact h p hp
    | some t =>
      obtain ⟨old, rest⟩ := t
      by_cases hm : m = 1
      · simp [Cache.setSlot, hne, hm]; exact h p hp
      · simp [Cache.setSlot, hne, hm]; exact h p hp

theorem putR_length_le (c : Cache) (pgno subno : Nat) (func : Int) (text : Text) (tag : Nat) (p : Nat) :
    ((putR c pgno subno func text tag).slots p).chain.length ≤ (c.slots p).chain.length + 1 := by
  unfold putR
  by_cases hff : pgno % 256 = 255
  · simp [hff]
  · simp only [hff, if_false]
    generalize putKey pgno subno = k
    obtain ⟨s, m⟩ := k
    simp only
    cases hr : removeFirst (fun e => e.subno % m = s % m) (c.slots pgno).chain with
    | none =>
      simp only [Cache.setSlot]
      by_cases hp : p = pgno
      · subst hp; simp
      · simp [hp]
    | some t =>
      obtain ⟨old, rest⟩ := t
      obtain ⟨hlen, _⟩ := removeFirst_length _ _ _ _ hr
      by_cases hm : m = 1
      · simp only [Cache.setSlot, hm, if_true]
        by_cases hp : p = pgno
        · subst hp; simp
        · simp [hp]
      · simp only [Cache.setSlot, hm, if_false]
        by_cases hp : p = pgno
        · subst hp; simp; omega
        · simp [hp]

theorem putR_counted {c : Cache} (h : Counted c) (pgno subno : Nat) (func : Int) (text : Text) (tag : Nat) :
    Counted (putR c pgno subno func text tag) := by
  intro ⟨p, hp⟩
  by_cases hn : (putR c pgno subno func text tag).nCached = 0
  · exfalso
    have hsame : putR c pgno subno func text tag = c ∨ (putR c pgno subno func text tag).nCached ≠ 0 := by
      unfold putR
      by_cases hff : pgno % 256 = 255
      · left; simp [hff]
      · right
        simp only [hff, if_false]
        generalize putKey pgno subno = k
        obtain ⟨s, m⟩ := k
        simp only
        cases removeFirst (fun e => e.subno % m = s % m) (c.slots pgno).chain with
        | none => simp [Cache.setSlot]
        | some t =>
          obtain ⟨old, rest⟩ := t
          by_cases hm : m = 1
          · simp [Cache.setSlot, hm]
          · simp [Cache.setSlot, hm]
    rcases hsame with h1 | h1
    · rw [h1] at hp hn; exact h ⟨p, hp⟩ hn
    · exact h1 hn
  · exact hn

/-! ## both shapes at once: `putF fix` -/

theorem putF_false (c : Cache) (pgno subno : Nat) (func : Int) (text : Text) (tag : Nat) :
    putF false c pgno subno func text tag = put c pgno subno func text tag := rfl

theorem putF_true (c : Cache) (pgno subno : Nat) (func : Int) (text : Text) (tag : Nat) :
    putF true c pgno subno func text tag = putR c pgno subno func text tag := rfl

theorem putF_inv (fix : Bool) {c : Cache} (h : Inv c) (pgno subno : Nat) (func : Int) (text : Text) (tag : Nat)
    (hs : subno ≤ 0x3F7F) : Inv (putF fix c pgno subno func text tag) := by
  cases fix
  · exact put_inv h pgno subno func text tag hs
  · exact putR_inv h pgno subno func text tag hs

theorem putF_noFF (fix : Bool) {c : Cache} (h : NoFF c) (pgno subno : Nat) (func : Int) (text : Text) (tag : Nat) :
    NoFF (putF fix c pgno subno func text tag) := by
  cases fix
  · exact put_noFF h pgno subno func text tag
  · exact putR_noFF h pgno subno func text tag

theorem putF_length_le (fix : Bool) (c : Cache) (pgno subno : Nat) (func : Int) (text : Text) (tag : Nat) (p : Nat) :
    ((putF fix c pgno subno func text tag).slots p).chain.length ≤ (c.slots p).chain.length + 1 := by
  cases fix
  · exact put_length_le c pgno subno func text tag p
  · exact putR_length_le c pgno subno func text tag p

theorem putF_counted (fix : Bool) {c : Cache} (h : Counted c) (pgno subno : Nat) (func : Int) (text : Text) (tag : Nat) :
    Counted (putF fix c pgno subno func text tag) := by
  cases fix
  · exact put_counted h pgno subno func text tag
  · exact putR_counted h pgno subno func text tag

/-- the cache after a history of stores on source shape `fix` -/
def buildF (fix : Bool) (ops : List PutOp) : Cache :=
  ops.foldl (fun c o => putF fix c o.pgno o.subno o.func o.text) Cache.empty

/-- `build` (LemmasCache.lean, used by the witnesses) is the history on the shape as found -/
theorem build_eq (ops : List PutOp) : build ops = buildF false ops := rfl

theorem foldlF_inv (fix : Bool) (ops : List PutOp) (h : ∀ o ∈ ops, o.subno ≤ 0x3F7F) : ∀ c, Inv c →
    Inv (ops.foldl (fun c o => putF fix c o.pgno o.subno o.func o.text) c) := by
  induction ops with
  | nil => intro c hc; exact hc
  | cons o ops ih =>
    intro c hc
    simp only [List.foldl_cons]
    exact ih (fun o' ho' => h o' (List.mem_cons_of_mem _ ho')) _ (putF_inv fix hc _ _ _ _ _ (h o (List.mem_cons_self)))

theorem buildF_inv (fix : Bool) (ops : List PutOp) (h : ∀ o ∈ ops, o.subno ≤ 0x3F7F) : Inv (buildF fix ops) :=
  foldlF_inv fix ops h Cache.empty empty_inv

theorem buildF_noFF (fix : Bool) (ops : List PutOp) : NoFF (buildF fix ops) := by
  unfold buildF
  suffices h : ∀ c, NoFF c → NoFF (ops.foldl (fun c o => putF fix c o.pgno o.subno o.func o.text) c) from
    h _ (fun _ _ => rfl)
  induction ops with
  | nil => intro c hc; exact hc
  | cons o ops ih => intro c hc; simp only [List.foldl_cons]; exact ih _ (putF_noFF fix hc _ _ _ _ _)

theorem foldlF_length_le (fix : Bool) (ops : List PutOp) : ∀ (c : Cache) (p : Nat),
    ((ops.foldl (fun c o => putF fix c o.pgno o.subno o.func o.text) c).slots p).chain.length ≤
      (c.slots p).chain.length + ops.length := by
  induction ops with
  | nil => intro c p; simp
  | cons o ops ih =>
    intro c p
    simp only [List.foldl_cons, List.length_cons]
    have h1 := ih (putF fix c o.pgno o.subno o.func o.text) p
    have h2 := putF_length_le fix c o.pgno o.subno o.func o.text 0 p
    omega

/-- a history of fewer than 65536 stores cannot wrap `n_subpages` (either shape) -/
theorem noWrapF_of_few (fix : Bool) (ops : List PutOp) (h : ops.length < 65536) : NoWrap (buildF fix ops) := by
  intro p
  have := foldlF_length_le fix ops Cache.empty p
  unfold buildF
  have h0 : (Cache.empty.slots p).chain.length = 0 := rfl
  omega

theorem buildF_counted (fix : Bool) (ops : List PutOp) : Counted (buildF fix ops) := by
  unfold buildF
  suffices h : ∀ c, Counted c → Counted (ops.foldl (fun c o => putF fix c o.pgno o.subno o.func o.text) c) from
    h _ (fun ⟨p, hp⟩ => absurd rfl hp)
  induction ops with
  | nil => intro c hc; exact hc
  | cons o ops ih => intro c hc; simp only [List.foldl_cons]; exact ih _ (putF_counted fix hc _ _ _ _ _)

/-- the facts about a reachable cache that the exactness theorems need, from the store history (either shape) -/
theorem reachableF (fix : Bool) (sh : Shape) (ops : List PutOp) (h : ∀ o ∈ ops, o.subno ≤ 0x3F7F)
    (hnw : NoWrap (buildF fix ops)) (P : Int) (hp : 0x100 ≤ P ∧ P ≤ 0x8FF) :
    Covered (buildF fix ops) ∧ StartOk sh (buildF fix ops) P :=
  ⟨covered_of_inv (buildF_inv fix ops h) hnw, startOk_of_noFF sh (buildF_noFF fix ops) P hp⟩

/-! ## repaired shape: the keys of the cached pages of one page number are pairwise different -/

/-- modulus of the key of a cached page inside its page number: the low byte of the sub-page number for BCD page
    numbers (mask 0xFF), the low nibble for the others (mask 0xF) -/
def keyMod (pgno : Nat) : Nat := if isBcdPgno pgno then 256 else 16

theorem keyMod_pos (pgno : Nat) : 0 < keyMod pgno := by unfold keyMod; split <;> omega
theorem keyMod_le (pgno : Nat) : keyMod pgno ≤ 256 := by unfold keyMod; split <;> omega
theorem keyMod_ne_one (pgno : Nat) : keyMod pgno ≠ 1 := by unfold keyMod; split <;> omega

/-- the look-up modulus `putKey` chooses is the key modulus of the page number or 1 (single-version key) -/
theorem putKey_mod (pgno subno : Nat) : (putKey pgno subno).2 = keyMod pgno ∨ (putKey pgno subno).2 = 1 := by
  unfold putKey keyMod
  by_cases hb : isBcdPgno pgno = true
  · simp only [hb, if_true]
    by_cases h0 : subno = 0
    · right; simp [h0]
    · simp only [h0, if_false]
      by_cases h1 : subno ≥ 0x100
      · right; simp [h1]
      · simp only [h1, if_false]
        by_cases h2 : digitsGreater subno 0x79 = true
        · right; simp [h2]
        · left; simp [h2]
  · left; simp [hb]

/-- cached pages of one page number have pairwise different keys -/
def Distinct (c : Cache) : Prop := ∀ p, ((c.slots p).chain.map (fun e => e.subno % keyMod p)).Nodup

theorem empty_distinct : Distinct Cache.empty := fun _ => List.nodup_nil

theorem putR_distinct {c : Cache} (h : Distinct c) (pgno subno : Nat) (func : Int) (text : Text) (tag : Nat) :
    Distinct (putR c pgno subno func text tag) := by
  unfold putR
  by_cases hff : pgno % 256 = 255
  · simp [hff]; exact h
  · simp only [hff, if_false]
    have hk := putKey_mod pgno subno
    generalize putKey pgno subno = k at hk
    obtain ⟨s, m⟩ := k
    simp only at hk ⊢
    have hd := h pgno
    cases hr : removeFirst (fun e => e.subno % m = s % m) (c.slots pgno).chain with
    | none =>
      simp only
      intro p
      unfold Cache.setSlot; simp only
      by_cases hp : p = pgno
      · subst hp
        simp only [if_true, List.map_cons, List.nodup_cons]
        rcases hk with hk | hk
        · subst hk
          refine ⟨?_, hd⟩
          intro hmem
          obtain ⟨x, hx, hxe⟩ := List.mem_map.1 hmem
          have hnone := removeFirst_none _ _ hr
          have := List.find?_eq_none.1 hnone x hx
          simp only [decide_eq_true_eq] at this
          exact this hxe
        · subst hk
          rw [removeFirst_mod_one_none hr]
          simp
      · simp [hp]; exact h p
    | some t =>
      obtain ⟨old, rest⟩ := t
      simp only
      by_cases hm : m = 1
      · simp only [hm, if_true]
        intro p
        unfold Cache.setSlot; simp only
        by_cases hp : p = pgno
        · subst hp; simp
        · simp [hp]; exact h p
      · simp only [hm, if_false]
        have hk' : m = keyMod pgno := by rcases hk with hk | hk; exact hk; exact absurd hk hm
        subst hk'
        intro p
        unfold Cache.setSlot; simp only
        by_cases hp : p = pgno
        · subst hp
          simp only [if_true, List.map_cons]
          obtain ⟨pre, post, hl, hrest, _, hq⟩ := removeFirst_split _ _ _ _ hr
          simp only [decide_eq_true_eq] at hq
          have hperm : ((c.slots p).chain.map (fun e => e.subno % keyMod p)).Perm
              ((old :: rest).map (fun e => e.subno % keyMod p)) := by
            rw [hl, hrest]; exact (List.perm_middle).map _
          have hnd := hperm.nodup_iff.1 hd
          simp only [List.map_cons] at hnd
          rw [hq] at hnd
          exact hnd
        · simp [hp]; exact h p

/-- pigeonhole: a list of different numbers below `n` has at most `n` elements -/
theorem nodup_bounded_length : ∀ (n : Nat) (l : List Nat), l.Nodup → (∀ x ∈ l, x < n) → l.length ≤ n := by
  intro n
  induction n with
  | zero =>
    intro l _ hb
    cases l with
    | nil => exact Nat.le_refl _
    | cons a t => exact absurd (hb a List.mem_cons_self) (Nat.not_lt_zero _)
  | succ n ih =>
    intro l hn hb
    by_cases hm : n ∈ l
    · have h1 : (l.erase n).length ≤ n := by
        refine ih _ (hn.erase n) (fun x hx => ?_)
        have hx' := (List.Nodup.mem_erase_iff hn).1 hx
        have := hb x hx'.2
        omega
      have h2 := List.length_erase_of_mem hm
      omega
    · have : l.length ≤ n := ih l hn (fun x hx => by
        have := hb x hx
        have : x ≠ n := fun e => hm (e ▸ hx)
        omega)
      omega

/-- at most 256 cached pages under one page number when the keys are pairwise different -/
theorem distinct_length_le {c : Cache} (h : Distinct c) (p : Nat) : (c.slots p).chain.length ≤ 256 := by
  have := nodup_bounded_length (keyMod p) _ (h p) (by
    intro x hx
    obtain ⟨e, _, rfl⟩ := List.mem_map.1 hx
    exact Nat.mod_lt _ (keyMod_pos p))
  rw [List.length_map] at this
  have := keyMod_le p
  omega

theorem buildR_distinct (ops : List PutOp) : Distinct (buildF true ops) := by
  unfold buildF
  suffices h : ∀ c, Distinct c → Distinct (ops.foldl (fun c o => putF true c o.pgno o.subno o.func o.text) c) from
    h _ empty_distinct
  induction ops with
  | nil => intro c hc; exact hc
  | cons o ops ih => intro c hc; simp only [List.foldl_cons]; exact ih _ (putR_distinct hc _ _ _ _ _)

/-- REPAIRED shape: at most 256 pages are cached under one page number after ANY history of stores (80 with the
    sub-codes the decoder delivers) -/
theorem version_bound_repaired (ops : List PutOp) (p : Nat) : ((buildF true ops).slots p).chain.length ≤ 256 :=
  distinct_length_le (buildR_distinct ops) p

/-- REPAIRED shape: `NoWrap` - the exclusion of C17-D2, a hypothesis for the shape as found - holds after EVERY history
    of stores -/
theorem noWrap_repaired (ops : List PutOp) : NoWrap (buildF true ops) := by
  intro p
  have := version_bound_repaired ops p
  omega

end Zvbi.Search
