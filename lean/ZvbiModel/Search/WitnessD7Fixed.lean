import ZvbiModel.Search.WitnessD7FixedA
import ZvbiModel.Search.WitnessD7FixedB
import ZvbiModel.Search.LemmasFirst
/-! # D7 witness (a), REPAIRED shape, at search level: turning forward on 11F.3F7F, `vbi_search_next` finds nothing more
on that page, wraps, and returns 11F.0.  Composed from the refinement (`searchNext_factors`: the call is the fold of
`search_page_fwd` over the walk positions) and the two page evaluations of WitnessD7FixedA/B. -/
namespace Zvbi.Search
set_option maxRecDepth 100000

/-- a fold whose first found page returns 0 and whose second returns 1 (both judged in the initial context) -/
theorem runPos_zero_one (sh : Shape) (exec : Exec) (c : Cache) (x1 x2 : Pos) (rest : List Pos) (s : SearchSt) (e1 e2 : Entry)
    (h1 : lookupX c x1.1 x1.2.1 = some e1) (hc1 : codeFwd sh exec s x1.1.toNat e1 x1.2.2 = 0)
    (h2 : lookupX c x2.1 x2.2.1 = some e2) (hc2 : codeFwd sh exec s x2.1.toNat e2 x2.2.2 = 1) :
    ∃ sf, runPos (pageFwd sh exec) c (x1 :: x2 :: rest) s = (1, sf) ∧ sf.pgPgno = x2.1.toNat ∧ sf.pgSubno = e2.subno := by
  obtain ⟨p1, sub1, w1⟩ := x1
  obtain ⟨p2, sub2, w2⟩ := x2
  simp only at h1 hc1 h2 hc2
  rw [runPos_cons, h1]
  simp only
  cases hcb1 : pageFwd sh exec s p1.toNat e1 w1 with
  | mk r1 s1 =>
    have hr1 : r1 = 0 := by rw [← hc1, ← pageFwd_fst, hcb1]
    subst hr1
    have hfz : Frozen s s1 := pageFwd_zero_frozen hcb1
    simp only [ne_eq, not_true_eq_false, ite_false]
    rw [runPos_cons, h2]
    simp only
    cases hcb2 : pageFwd sh exec s1 p2.toNat e2 w2 with
    | mk r2 s2 =>
      have hr2 : r2 = 1 := by rw [← hc2, ← codeFwd_frozen sh exec hfz, ← pageFwd_fst, hcb2]
      subst hr2
      obtain ⟨_, ms, me, _, hs2⟩ := pageFwd_one hcb2
      refine ⟨s2, by simp, ?_, ?_⟩
      · rw [hs2]; exact (highlight_pg _ _ _ _ _ _).1
      · rw [hs2]; exact (highlight_pg _ _ _ _ _ _).2

/-- a forward `vbi_search_next` whose first two walk positions hold pages returning 0 and 1 -/
theorem searchNext_zero_one (sh : Shape) (exec : Exec) (c : Cache) (s : SearchSt) (d : Int) (hd : d > 0)
    (hne : c.nCached ≠ 0) (hp : PgOk (prepare sh s d).startPgno) (hok : StartOk sh c (prepare sh s d).startPgno)
    (x1 x2 : Pos) (rest : List Pos) (e1 e2 : Entry)
    (hL : walkPositions sh c (prepare sh s d).startPgno (prepare sh s d).startSubno 1 = x1 :: x2 :: rest)
    (h1 : lookupX c x1.1 x1.2.1 = some e1) (hc1 : codeFwd sh exec (prepare sh s d) x1.1.toNat e1 x1.2.2 = 0)
    (h2 : lookupX c x2.1 x2.2.1 = some e2) (hc2 : codeFwd sh exec (prepare sh s d) x2.1.toNat e2 x2.2.2 = 1) :
    (searchNext sh exec walkFuel c s d).res = .ret SEARCH_SUCCESS ∧
    (searchNext sh exec walkFuel c s d).st.pgPgno = x2.1.toNat ∧
    (searchNext sh exec walkFuel c s d).st.pgSubno = e2.subno := by
  have hres := searchNext_factors sh exec c s d hne hp hok
  have hst := searchNext_st sh exec c s d hne hp hok
  have hcb : callbackOf sh exec d = pageFwd sh exec := by unfold callbackOf; simp [hd]
  have hdir : dirOf d = 1 := by unfold dirOf; simp [hd]
  obtain ⟨sf, hrun, hpg, hsub⟩ := runPos_zero_one sh exec c x1 x2 rest (prepare sh s d) e1 e2 h1 hc1 h2 hc2
  rw [hcb, hdir, hL, hrun] at hres hst
  simp only at hst
  rw [if_neg (by decide)] at hst
  refine ⟨by rw [hres]; rfl, by rw [hst]; exact hpg, by rw [hst]; exact hsub⟩

theorem cexD7_repaired_search :
    (searchNext Shape.repaired exAb walkFuel cexD7 cexD7Turn 1).res = .ret SEARCH_SUCCESS ∧
    (searchNext Shape.repaired exAb walkFuel cexD7 cexD7Turn 1).st.pgPgno = 0x11F ∧
    (searchNext Shape.repaired exAb walkFuel cexD7 cexD7Turn 1).st.pgSubno = 0 := by
  have hne : cexD7.nCached ≠ 0 := by decide +kernel
  have hp : PgOk (prepare Shape.repaired cexD7Turn 1).startPgno := by
    unfold PgOk; exact ⟨by decide +kernel, by decide +kernel⟩
  have hok : StartOk Shape.repaired cexD7 (prepare Shape.repaired cexD7Turn 1).startPgno := Or.inl rfl
  have hpos : (walkPositions Shape.repaired cexD7 (prepare Shape.repaired cexD7Turn 1).startPgno
      (prepare Shape.repaired cexD7Turn 1).startSubno 1).take 2 = [cexD7x1, cexD7x2] := by decide +kernel
  have hL := (List.take_append_drop 2 (walkPositions Shape.repaired cexD7 (prepare Shape.repaired cexD7Turn 1).startPgno
      (prepare Shape.repaired cexD7Turn 1).startSubno 1)).symm
  rw [hpos] at hL
  have hl1 : lookupX cexD7 cexD7x1.1 cexD7x1.2.1 = some cexD7e1 := by decide +kernel
  have hl0 : lookupX cexD7 cexD7x2.1 cexD7x2.2.1 = some cexD7e0 := by decide +kernel
  have hx2 : cexD7x2.1.toNat = 0x11F := by decide +kernel
  have he0 : cexD7e0.subno = 0 := rfl
  have := searchNext_zero_one Shape.repaired exAb cexD7 cexD7Turn 1 (by decide) hne hp hok cexD7x1 cexD7x2 _ cexD7e1 cexD7e0
    hL hl1 cexD7_fixed_code1 hl0 cexD7_fixed_code2
  rw [hx2, he0] at this
  exact this

end Zvbi.Search
