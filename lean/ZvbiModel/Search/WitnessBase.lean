import ZvbiModel.Search.LemmasCache
import ZvbiModel.Search.LemmasSearch
import ZvbiModel.Search.Matcher
/-! Shared pieces of the kernel-evaluated witnesses (C17): a page text, the literal matcher for "ab", a recording
callback.  Does not depend on the source shape of /repo (so the D7 witnesses, which fix the shape explicitly, are not
rebuilt when Generated/SearchFlags.lean flips). -/
namespace Zvbi.Search

def textRow (s : String) : List Cell := s.toList.map (fun ch => ⟨ch.toNat, 0⟩)

/-- rows 1..3, "xx ab yy" in row 3 -/
def abPage : Text := [[], [], textRow "xx ab yy"]

def exAb : Exec := exactLit false [0x61, 0x62]

/-- callback that records what it is given and stops the walk at its second call -/
def logTwo : Callback (List (Nat × Nat × Bool)) := fun log p e w =>
  (if log.length ≥ 1 then 1 else 0, log ++ [(p, e.subno, w)])

end Zvbi.Search
