import ZvbiModel.Search.Matcher
/-!
# The literal matcher of the correspondence (`exactLit`) is a leftmost substring search (C17)
-/
namespace Zvbi.Search

/-- `pat` occurs in `text` at offset `k` -/
def OccursAt (pat text : List Nat) (k : Nat) : Prop := isPrefix pat (text.drop k) = true

theorem exactGo_spec (pat : List Nat) : ∀ (text : List Nat) (idx : Nat),
    match exactGo pat text idx with
    | some (ms, me) => ∃ k, k < text.length ∧ ms = idx + k ∧ me = ms + pat.length ∧ OccursAt pat text k ∧
        ∀ j, j < k → ¬ OccursAt pat text j
    | none => ∀ j, j < text.length → ¬ OccursAt pat text j := by
  intro text
  induction text with
  | nil => intro idx; simp [exactGo]
  | cons ch rest ih =>
    intro idx
    unfold exactGo
    by_cases hp : isPrefix pat (ch :: rest) = true
    · simp only [hp, if_true]
      exact ⟨0, by simp, by omega, trivial, by simpa [OccursAt] using hp, fun j hj => by omega⟩
    · simp only [hp, if_false]
      have := ih (idx + 1)
      cases hr : exactGo pat rest (idx + 1) with
      | none =>
        rw [hr] at this
        intro j hj
        cases j with
        | zero => simpa [OccursAt] using hp
        | succ j => simpa [OccursAt] using this j (by simpa using hj)
      | some mm =>
        obtain ⟨ms, me⟩ := mm
        rw [hr] at this
        obtain ⟨k, hk, h1, h2, h3, h4⟩ := this
        refine ⟨k + 1, by simpa using hk, by omega, h2, by simpa [OccursAt] using h3, ?_⟩
        intro j hj
        cases j with
        | zero => simpa [OccursAt] using hp
        | succ j => simpa [OccursAt] using h4 j (by omega)

/-- `exactLit`: the leftmost occurrence of the (case folded) pattern in the (case folded) text, or `none` when it
    does not occur at all -/
theorem exactLit_spec (cf : Bool) (pat : List Nat) (hne : pat ≠ []) (f : Flags) (text : List Nat) :
    match exactLit cf pat f text with
    | some (ms, me) => ms < text.length ∧ me = ms + pat.length ∧
        OccursAt (pat.map (foldc cf)) (text.map (foldc cf)) ms ∧
        ∀ j, j < ms → ¬ OccursAt (pat.map (foldc cf)) (text.map (foldc cf)) j
    | none => ∀ j, j < text.length → ¬ OccursAt (pat.map (foldc cf)) (text.map (foldc cf)) j := by
  unfold exactLit
  have he : pat.isEmpty = false := by cases pat <;> simp_all
  simp only [he, Bool.false_eq_true, if_false]
  have := exactGo_spec (pat.map (foldc cf)) (text.map (foldc cf)) 0
  cases hr : exactGo (pat.map (foldc cf)) (text.map (foldc cf)) 0 with
  | none => rw [hr] at this; simpa using this
  | some mm =>
    obtain ⟨ms, me⟩ := mm
    rw [hr] at this
    obtain ⟨k, hk, h1, h2, h3, h4⟩ := this
    have : ms = k := by omega
    subst this
    exact ⟨by simpa using hk, by simpa using h2, h3, h4⟩

end Zvbi.Search
