import ZvbiModel.Search.Model
/-!
# The progress callback of a search and its cancel path (seeded bug C17-g)

`vbi_search_new (.., progress)`: `search_page_fwd` / `search_page_rev` call `progress (&s->pg)` for every level one page
that passes the stop test, after formatting it and before searching it; when it returns FALSE

    if (_this != start) { s->start_pgno = vtp->pgno; s->start_subno = vtp->subno;
                          s->row[0] = FIRST_ROW; s->row[1] = LAST_ROW + 1; s->col[0] = s->col[1] = 0; }
    return -2;   /* canceled */

and `vbi_search_next` returns VBI_SEARCH_CANCELED; the next call resumes at the page the callback was asked about.  The
guard matters: when that page IS the start position (the page returned last, first callback of the next call) the cursor
`row[] / col[]` behind the occurrence delivered last must stay, or the resumed search delivers that occurrence again.
The callback of the harness aborts at every k-th invocation (`progress <k>`, 0 = never): `PSt.n` counts the invocations.
`Model.lean` (callback NULL) is untouched; `searchNextP 0` takes the same path as `searchNext` except for the counter.
-/
namespace Zvbi.Search

/-- search context + number of invocations of the progress callback so far -/
structure PSt where
  s : SearchSt
  n : Nat

/-- the stop test at the head of `search_page_rev` (as a Bool; `pageRev` has it inline) -/
def stopRev (s : SearchSt) (pgno : Nat) (e : Entry) (wrapped : Bool) : Bool :=
  let this := key pgno e.subno
  let start := key s.startPgno s.startSubno
  let stop := key s.stopPgno1 s.stopSubno1
  if start ≤ stop then wrapped && decide (this ≤ stop) else decide (this > start) || decide (this ≤ stop)

/-- what the cancel block leaves in the search context -/
def cancelAt (s : SearchSt) (pgno : Nat) (e : Entry) : SearchSt :=
  if key pgno e.subno ≠ key s.startPgno s.startSubno then
    { s with startPgno := pgno, startSubno := e.subno, row0 := FIRST_ROW, row1 := LAST_ROW + 1, col0 := 0, col1 := 0 }
  else s

/-- `search_page_fwd` / `search_page_rev` with a progress callback that returns FALSE at every k-th invocation -/
def pageP (k : Nat) (sh : Shape) (exec : Exec) (dirArg : Int) : Callback PSt := fun ps pgno e wrapped =>
  let stopped := if dirArg > 0 then stopFwd ps.s pgno e wrapped else stopRev ps.s pgno e wrapped
  if stopped || decide (e.func ≠ FUNC_LOP) then
    -- the callback is not reached
    let r := callbackOf sh exec dirArg ps.s pgno e wrapped
    (r.1, { ps with s := r.2 })
  else
    let n := ps.n + 1
    if k ≠ 0 ∧ n % k = 0 then
      (-2, ⟨cancelAt { ps.s with pgPgno := pgno, pgSubno := e.subno, hl := [] } pgno e, n⟩)
    else
      let r := callbackOf sh exec dirArg ps.s pgno e wrapped
      (r.1, ⟨r.2, n⟩)

/-- `vbi_search_next` of a search created with that callback; second component: the invocation counter afterwards -/
def searchNextP (k : Nat) (sh : Shape) (exec : Exec) (fuel : Nat) (c : Cache) (ps : PSt) (dirArg : Int) : NextOut × Nat :=
  let s1 := prepare sh ps.s dirArg
  let w := walk sh (pageP k sh exec dirArg) fuel c ⟨s1, ps.n⟩ s1.startPgno s1.startSubno (dirOf dirArg)
  match w.res with
  | .ret r => (⟨statusOf r, if r = -1 then { w.st.s with dir := 0 } else w.st.s, w.cache⟩, w.st.n)
  | other => (⟨other, w.st.s, w.cache⟩, w.st.n)

end Zvbi.Search
