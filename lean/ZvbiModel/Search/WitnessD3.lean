import ZvbiModel.Search.Witnesses
/-! # D3 witness at search level: with 899.0 ("ab") and 899.5 cached, a forward search from (8FF, ANY) returns 899.0
(one kernel evaluation of `search_page_fwd` on a whole page text, ~45 s) -/
namespace Zvbi.Search
set_option maxRecDepth 100000

/-- status, page returned -/
def cexD3Out : Res × Nat × Nat :=
  match searchNext Shape.current exAb walkFuel cexD3 ((searchNew 0x8FF ANY_SUBNO 2).getD {}) 1 with
  | o => (o.res, o.st.pgPgno, o.st.pgSubno)

theorem cexD3_search : cexD3Out = (.ret SEARCH_SUCCESS, 0x899, 0) := by decide +kernel

end Zvbi.Search
