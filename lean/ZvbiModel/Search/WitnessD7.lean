import ZvbiModel.Search.Witnesses
/-! # D7 witness (open finding): direction change on a page with sub-code 0x3F7F.  Hex page 11F is cached with
sub-codes 0 and 0x3F7F, both contain "ab".  A backward search created at (120, ANY) has just returned 11F.3F7F
(`cexD7Turn` is the search context the C code prints at that point: corpus/C17/D7-turn-on-3f7f.ops).  Turning forward,
`vbi_search_next` takes `start_subno == 0x3F7F` for the wildcard and puts the forward stop position at (11F, 0): the
pass answers NOT_FOUND although 11F.0 contains the pattern.  (One kernel evaluation of a page text, ~45 s.) -/
namespace Zvbi.Search
set_option maxRecDepth 100000

def abPage4 : Text := [[], [], [], textRow "yy ab xx"]

def cexD7 : Cache := build [⟨0x11F, 0, 0, abPage⟩, ⟨0x11F, 0x3F7F, 0, abPage4⟩]

/-- the search context after `vbi_search_next (-1)` returned 11F.3F7F ("ab" at row 4, columns 3..4) -/
def cexD7Turn : SearchSt :=
  { startPgno := 0x11F, startSubno := 0x3F7F, stopPgno0 := 0x120, stopSubno0 := 0, stopPgno1 := 0x120,
    stopSubno1 := 0x3F7E, row0 := 4, col0 := 5, row1 := 4, col1 := 3, dir := -1, pgPgno := 0x11F, pgSubno := 0x3F7F }

theorem cexD7_facts :
    ((prepare cexD7Turn 1).stopPgno0, (prepare cexD7Turn 1).stopSubno0) = (0x11F, 0) ∧
    ((lookupX cexD7 0x11F 0).map (·.text)) = some abPage ∧
    exAb {} (hayFwd abPage (-1) 0).1 = some (85, 87) ∧
    (searchNext exAb walkFuel cexD7 cexD7Turn 1).res = .ret SEARCH_NOT_FOUND := by
  refine ⟨by decide +kernel, by decide +kernel, by decide +kernel, by decide +kernel⟩

end Zvbi.Search
