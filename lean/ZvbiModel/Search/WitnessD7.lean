import ZvbiModel.Search.WitnessD7Defs
/-! # D7 witnesses: a pass that starts at a page with sub-code 0x3F7F, in BOTH source shapes.

(a) Hex page 11F is cached with sub-codes 0 and 0x3F7F, both contain "ab".  A backward search created at (120, ANY) has
just returned 11F.3F7F (`cexD7Turn` is the search context the C code prints at that point:
corpus/C17/D7-turn-on-3f7f.ops).  Turning forward, the UNREPAIRED `vbi_search_next` takes `start_subno == 0x3F7F` for
the wildcard and puts the forward stop position at (11F, 0): the pass answers NOT_FOUND although 11F.0 contains the
pattern (one kernel evaluation of a page text, ~45 s).  REPAIRED: the stop position is (11F, 0x3F7F), the walk hands
11F.3F7F and then (wrapped) 11F.0 to the callback, and 11F.0 does not stop the pass (the whole search is evaluated in
WitnessD7Fixed.lean).
(b) Page 80A cached with sub-codes 0x3F7F and 2, the latter most recently used: a backward walk from (80A, 0x3F7F) is
handed 80A.2 first by the UNREPAIRED start look-up (wildcard), 80A.3F7F by the REPAIRED one
(corpus/C17/D7b-start-lookup-3f7f.ops). -/
namespace Zvbi.Search
set_option maxRecDepth 100000

theorem cexD7_unrepaired :
    ((prepare Shape.unrepaired cexD7Turn 1).stopPgno0, (prepare Shape.unrepaired cexD7Turn 1).stopSubno0) = (0x11F, 0) ∧
    ((lookupX cexD7 0x11F 0).map (·.text)) = some abPage ∧
    exAb {} (hayFwd abPage (-1) 0).1 = some (85, 87) ∧
    (searchNext Shape.unrepaired exAb walkFuel cexD7 cexD7Turn 1).res = .ret SEARCH_NOT_FOUND ∧
    (cexD7b.slots 0x80A).chain.map (·.subno) = [2, 0x3F7F] ∧
    (walk Shape.unrepaired logTwo walkFuel cexD7b [] 0x80A 0x3F7F (-1)).st.take 1 = [(0x80A, 2, false)] := by
  refine ⟨by decide +kernel, by decide +kernel, by decide +kernel, by decide +kernel, by decide +kernel,
    by decide +kernel⟩

theorem cexD7_repaired :
    ((prepare Shape.repaired cexD7Turn 1).stopPgno0, (prepare Shape.repaired cexD7Turn 1).stopSubno0) = (0x11F, 0x3F7F) ∧
    (walk Shape.repaired logTwo walkFuel cexD7 [] 0x11F 0x3F7F 1).st = [(0x11F, 0x3F7F, false), (0x11F, 0, true)] ∧
    ((lookupX cexD7 0x11F 0).map (fun e => stopFwd (prepare Shape.repaired cexD7Turn 1) 0x11F e true)) = some false ∧
    ((lookupX cexD7 0x11F 0).map (fun e => stopFwd (prepare Shape.unrepaired cexD7Turn 1) 0x11F e true)) = some true ∧
    (walk Shape.repaired logTwo walkFuel cexD7b [] 0x80A 0x3F7F (-1)).st = [(0x80A, 0x3F7F, false), (0x80A, 2, false)] := by
  refine ⟨by decide +kernel, by decide +kernel, by decide +kernel, by decide +kernel, by decide +kernel⟩

end Zvbi.Search
