import ZvbiModel.Search.LemmasExact
import ZvbiModel.Search.Spec
/-!
# Direction-independent helpers for the backward whole-pass proof (C17)

Copies, under names ending in `R`, of the small direction-independent lemmas of LemmasPass / LemmasPass2 / LemmasFirst
(cache between calls, `highlight` fields, key bounds), so that the backward chain (LemmasRev*.lean) depends on
LemmasExact only and can be imported together with the forward chain.
-/
namespace Zvbi.Search

theorem loop_cache_equivR {σ : Type} (cb : Callback σ) (c : Cache) (dir : Int) :
    ∀ (n : Nat) (c0 : Cache) (s : σ) (p sub : Int) (w : Bool) (cp : Option Entry), Equiv c c0 →
      Equiv c (loop cb dir n c0 s p sub w cp).cache := by
  intro n
  induction n with
  | zero => intro c0 s p sub w cp h; simpa [loop] using h
  | succ n ih =>
    intro c0 s p sub w cp h
    rw [loop_succ]
    generalize firstCall cb s p w cp = rs
    obtain ⟨r, s1⟩ := rs
    simp only
    by_cases hr0 : r ≠ 0
    · rw [if_pos hr0]; exact h
    · rw [if_neg hr0]
      cases hsk : skip c0 dir skipFuel p (sub + dir) w with
      | none => exact h
      | some t =>
        cases t with
        | none => exact h
        | some t =>
          obtain ⟨p', s', w'⟩ := t
          simp only
          have heq' := getExact_equiv h p' s'
          generalize getExact c0 p' s' = g at heq'
          obtain ⟨cp', c'⟩ := g
          exact ih c' s1 p' s' w' cp' heq'

theorem walk_cache_equivR {σ : Type} (sh : Shape) (cb : Callback σ) (c c0 : Cache) (fuel : Nat) (s : σ) (p sub dir : Int)
    (h : Equiv c c0) : Equiv c (walk sh cb fuel c0 s p sub dir).cache := by
  unfold walk
  by_cases h0 : c0.nCached = 0
  · simp only [h0, if_true]; exact h
  · simp only [h0, if_false]
    have heq := getStart_equiv h sh p sub
    generalize getStart sh c0 p sub = g at heq
    obtain ⟨cp, c1⟩ := g
    simp only at heq ⊢
    by_cases hp : p < 0x100 ∨ p > 0x8FF
    · simp only [hp, if_true]; exact heq
    · simp only [hp, if_false]; exact loop_cache_equivR cb c dir fuel c1 s p _ false cp heq

/-- the cache a `vbi_search_next` leaves behind answers every exact look-up as the one it got -/
theorem searchNext_cache_equivR (sh : Shape) (exec : Exec) (fuel : Nat) (c c0 : Cache) (s : SearchSt) (d : Int)
    (h : Equiv c c0) : Equiv c (searchNext sh exec fuel c0 s d).cache := by
  unfold searchNext
  have hw := walk_cache_equivR sh (callbackOf sh exec d) c c0 fuel (prepare sh s d) (prepare sh s d).startPgno
    (prepare sh s d).startSubno (dirOf d) h
  simp only
  split <;> exact hw

theorem highlight_startR (s : SearchSt) (pgno : Nat) (e : Entry) (first ms me : Nat) :
    (highlight s pgno e first ms me).startPgno = pgno ∧ (highlight s pgno e first ms me).startSubno = e.subno := by
  unfold highlight; exact ⟨rfl, rfl⟩

theorem highlight_pgR (s : SearchSt) (pgno : Nat) (e : Entry) (first ms me : Nat) :
    (highlight s pgno e first ms me).pgPgno = pgno ∧ (highlight s pgno e first ms me).pgSubno = e.subno := by
  unfold highlight; exact ⟨rfl, rfl⟩

/-- "page (p, s) is a cached level one page whose whole text contains the pattern", positions as the walk has them
    (`Matches` for integer positions) -/
def MatchesIR (exec : Exec) (c : Cache) (p s : Int) : Prop :=
  ∃ e, lookupX c p s = some e ∧ e.func = FUNC_LOP ∧ (exec {} (hayFwd e.text (-1) 0).1).isSome

theorem matches_iffR (exec : Exec) (c : Cache) (p s : Nat) : Matches exec c p s ↔ MatchesIR exec c p s := Iff.rfl

theorem lookupX_smallR {c : Cache} (hcov : Covered c) {p sub : Int} {e : Entry} (h : lookupX c p sub = some e) :
    0 ≤ sub ∧ sub < 65536 := by
  have hs := lookupX_subno h
  have hm := lookupX_mem h
  have := (hcov p.toNat e hm).2.2
  have := (c.slots p.toNat).stat.subMax.toNat_lt
  omega

theorem startOk_of_validR (sh : Shape) (c : Cache) (p : Int) (h : validPgno p = true) : StartOk sh c p := Or.inr (Or.inl h)

theorem key_boundsR {p s : Int} (hp : PgOk p) (hs : 0 ≤ s ∧ s < 65536) : 0 ≤ key p s ∧ key p s < 0x900 * 65536 := by
  unfold key PgOk at *; omega

theorem page_factsR {c c' : Cache} (heq : Equiv c c') (hcov : Covered c) {q t : Int} {e : Entry}
    (hl : lookupX c q t = some e) :
    (0 ≤ t ∧ t < 65536) ∧ inRange (c'.stat q) t = true ∧ (e.subno : Int) = t := by
  have hs := lookupX_subno hl
  have hm := lookupX_mem hl
  obtain ⟨c1, c2, c3⟩ := hcov q.toNat e hm
  have hlt := (c.slots q.toNat).stat.subMax.toNat_lt
  refine ⟨by omega, ?_, hs⟩
  rw [stat_of_equiv heq, inRange_iff]; unfold Cache.stat
  exact ⟨c1, by omega, by omega⟩

end Zvbi.Search
