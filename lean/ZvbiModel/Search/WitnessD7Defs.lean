import ZvbiModel.Search.WitnessBase
/-! Caches, search context, entries and positions of the D7 witnesses (definitions only, see WitnessD7.lean). -/
namespace Zvbi.Search

def abPage4 : Text := [[], [], [], textRow "yy ab xx"]

def cexD7 : Cache := build [⟨0x11F, 0, 0, abPage⟩, ⟨0x11F, 0x3F7F, 0, abPage4⟩]

/-- the search context after `vbi_search_next (-1)` returned 11F.3F7F ("ab" at row 4, columns 3..4) -/
def cexD7Turn : SearchSt :=
  { startPgno := 0x11F, startSubno := 0x3F7F, stopPgno0 := 0x120, stopSubno0 := 0, stopPgno1 := 0x120,
    stopSubno1 := 0x3F7E, row0 := 4, col0 := 5, row1 := 4, col1 := 3, dir := -1, pgPgno := 0x11F, pgSubno := 0x3F7F }

def cexD7b : Cache := build [⟨0x80A, 0x3F7F, 0, []⟩, ⟨0x80A, 2, 0, []⟩]

def cexD7e1 : Entry := ⟨0x3F7F, 0, abPage4, 0⟩
def cexD7e0 : Entry := ⟨0, 0, abPage, 0⟩

def cexD7x1 : Int × Int × Bool := (0x11F, 0x3F7F, false)
def cexD7x2 : Int × Int × Bool := (0x11F, 0, true)

end Zvbi.Search
