import ZvbiModel.Search.LemmasFactor
/-!
# Lemmas towards the BACKWARD whole-pass statement (C17), part 1: one call of `search_page_rev`

* `revFlags_first`: the first `ure_exec` of `search_page_rev` on a page searched as a whole gets the flags 0.
* `revMatches_ends`: the repeated `ure_exec` loop ends (fuel `hay.length + 2` suffices, unconditionally), its counter
  `i` is 0 iff the FIRST exec found nothing.
* `hayRev_whole`: with no cursor on the page (row 100, or row[1] = LAST_ROW + 1 as `vbi_search_next` sets it for a fresh
  pass) the haystack of `search_page_rev` is the whole page text, the same list `search_page_fwd` builds, flags 0.
* `pageRev_cases`: the four ways `search_page_rev` returns; `codeRev`, `FrozenR`, `runPos_hit_rev`, `runPos_minus1_rev`:
  the fold over the walk positions (mirror of LemmasExact / LemmasFirst).
-/
namespace Zvbi.Search

/-! ## the flags of the first exec -/

theorem revFlags_first (sh : Shape) (hay : List Nat) : revFlags sh hay false 0 = {} := by
  unfold revFlags insideRow
  cases sh.anchors <;> simp

/-! ## the exec loop -/

theorem revMatches_succR (sh : Shape) (exec : Exec) (hay : List Nat) (ne : Bool) (f i ms me pos : Nat) :
    revMatches sh exec hay ne (f + 1) i ms me pos =
      if pos < hay.length then
        match exec (revFlags sh hay ne pos) (hay.drop pos) with
        | none => some (i, ms, me)
        | some (ms1, me1) =>
          revMatches sh exec hay ne f (i + 1) (pos + ms1) (pos + me1) (if pos + me1 > pos then pos + me1 else pos + 1)
      else some (i, ms, me) := rfl

/-- the loop ends within `hay.length - pos + 1` rounds, and the counter never decreases -/
theorem revMatches_ends_aux (sh : Shape) (exec : Exec) (hay : List Nat) (ne : Bool) :
    ∀ (f i ms me pos : Nat), hay.length - pos + 1 ≤ f →
      ∃ i' ms' me', revMatches sh exec hay ne f i ms me pos = some (i', ms', me') ∧ i ≤ i' := by
  intro f
  induction f with
  | zero => intro i ms me pos h; omega
  | succ f ih =>
    intro i ms me pos h
    rw [revMatches_succR]
    by_cases hp : pos < hay.length
    · rw [if_pos hp]
      cases hx : exec (revFlags sh hay ne pos) (hay.drop pos) with
      | none => exact ⟨i, ms, me, rfl, Nat.le_refl _⟩
      | some mm =>
        obtain ⟨ms1, me1⟩ := mm
        simp only
        have hpos : pos + 1 ≤ (if pos + me1 > pos then pos + me1 else pos + 1) := by split <;> omega
        obtain ⟨i', ms', me', h1, h2⟩ := ih (i + 1) (pos + ms1) (pos + me1)
          (if pos + me1 > pos then pos + me1 else pos + 1) (by omega)
        exact ⟨i', ms', me', h1, by omega⟩
    · rw [if_neg hp]; exact ⟨i, ms, me, rfl, Nat.le_refl _⟩

/-- **the repeated `ure_exec` of `search_page_rev` ends** (no hypothesis on the matcher), and it reports "no occurrence"
    (`i = 0`) exactly when the first exec, on the whole haystack, found nothing -/
theorem revMatches_ends (sh : Shape) (exec : Exec) (hay : List Nat) (ne : Bool) (hlen : hay.length ≠ 0) :
    ∃ i ms me, revMatches sh exec hay ne (hay.length + 2) 0 0 0 0 = some (i, ms, me) ∧
      (i = 0 ↔ exec (revFlags sh hay ne 0) hay = none) := by
  rw [show hay.length + 2 = (hay.length + 1) + 1 from rfl, revMatches_succR]
  have hp : 0 < hay.length := Nat.pos_of_ne_zero hlen
  rw [if_pos hp, List.drop_zero]
  cases hx : exec (revFlags sh hay ne 0) hay with
  | none => exact ⟨0, 0, 0, rfl, by simp⟩
  | some mm =>
    obtain ⟨ms1, me1⟩ := mm
    simp only
    obtain ⟨i', ms', me', h1, h2⟩ := revMatches_ends_aux sh exec hay ne (hay.length + 1) (0 + 1) (0 + ms1) (0 + me1)
      (if 0 + me1 > 0 then 0 + me1 else 0 + 1) (by omega)
    exact ⟨i', ms', me', h1, by constructor <;> intro h <;> first | omega | cases h⟩

/-! ## the haystack of a page without cursor -/

/-- characters one row contributes -/
def rowCharsR : List Iter → List Nat
  | [] => []
  | it :: rest => (match it.emit with | some u => [u] | none => []) ++ rowCharsR rest

/-- the whole page text: every row followed by the separator -/
def hayAll (t : Text) (rows : List Nat) (hay : List Nat) : List Nat :=
  rows.foldl (fun h i => h ++ rowCharsR (rowIters t i 40 0) ++ [SEPARATOR]) hay

theorem hayFwdRow_fstR (row col0 : Int) (i : Nat) : ∀ (its : List Iter) (acc : List Nat × Nat),
    (hayFwdRow row col0 i its acc).1 = acc.1 ++ rowCharsR its := by
  intro its
  induction its with
  | nil => intro acc; simp [hayFwdRow, rowCharsR]
  | cons it rest ih =>
    intro acc
    obtain ⟨hay, first⟩ := acc
    unfold hayFwdRow rowCharsR
    cases it.emit with
    | none => simp only; rw [ih]; simp
    | some u => simp only; rw [ih]; simp

theorem hayFwd_fold_all (t : Text) (row col0 : Int) : ∀ (rows : List Nat) (acc : List Nat × Nat),
    (rows.foldl (hayFwdStep t row col0) acc).1 = hayAll t rows acc.1 := by
  intro rows
  induction rows with
  | nil => intro acc; rfl
  | cons i rows ih =>
    intro acc
    simp only [List.foldl_cons, hayAll]
    rw [ih]
    unfold hayFwdStep hayAll
    simp only [hayFwdRow_fstR]

theorem hayFwd_all (t : Text) (row col0 : Int) : (hayFwd t row col0).1 = hayAll t rowsList [] := by
  unfold hayFwd; exact hayFwd_fold_all t row col0 rowsList _

/-- a row that is not the cursor row is taken completely -/
theorem hayRevRow_nocursor (row col1 : Int) (i : Nat) (hne : (i : Int) ≠ row) : ∀ (its : List Iter) (acc : List Nat × Bool),
    ∃ ne, hayRevRow row col1 i its acc = (acc.1 ++ rowCharsR its, ne, false) := by
  intro its
  induction its with
  | nil => intro acc; obtain ⟨hay, ne⟩ := acc; exact ⟨ne, by simp [hayRevRow, rowCharsR]⟩
  | cons it rest ih =>
    intro acc
    obtain ⟨hay, ne⟩ := acc
    unfold hayRevRow rowCharsR
    have : ¬ ((i : Int) = row ∧ (it.col : Int) ≥ col1) := fun h => hne h.1
    rw [if_neg this]
    cases it.emit with
    | none =>
      simp only
      obtain ⟨ne', h⟩ := ih (hay, ne)
      exact ⟨ne', by rw [h]; simp⟩
    | some u =>
      simp only
      obtain ⟨ne', h⟩ := ih (hay ++ [u], true)
      exact ⟨ne', by rw [h]; simp⟩

theorem hayRevRows_nocursor (t : Text) (row col1 : Int) : ∀ (rows : List Nat) (hay : List Nat),
    (∀ i ∈ rows, (i : Int) ≠ row) → hayRevRows t row col1 rows hay = (hayAll t rows hay, false) := by
  intro rows
  induction rows with
  | nil => intro hay _; rfl
  | cons i rows ih =>
    intro hay h
    unfold hayRevRows
    obtain ⟨ne, hr⟩ := hayRevRow_nocursor row col1 i (h i List.mem_cons_self) (rowIters t i 40 0) (hay, false)
    rw [hr]
    simp only [Bool.false_eq_true, if_false]
    rw [ih _ (fun j hj => h j (List.mem_cons_of_mem _ hj))]
    simp [hayAll]

/-- **no cursor on the page** (`row` = 100 for a page that is not the start position, LAST_ROW + 1 = 25 at the start
    position of a fresh pass): `search_page_rev` searches the whole text, the very list `search_page_fwd` builds, and
    its flags variable ends as 0 (behind the last separator) -/
theorem hayRev_whole (t : Text) (row col1 : Int) (hrow : 24 ≤ row) :
    hayRev t row col1 = ((hayFwd t (-1) 0).1, false) := by
  unfold hayRev
  have h1 : ¬ row < FIRST_ROW := by unfold FIRST_ROW; omega
  rw [if_neg h1, hayRevRows_nocursor, hayFwd_all]
  intro i hi
  have : i ≤ 23 := by
    unfold rowsList at hi
    simp only [List.mem_map, List.mem_range] at hi
    obtain ⟨k, hk, rfl⟩ := hi
    omega
  omega

theorem hayFwd_nonemptyR (t : Text) : (hayFwd t (-1) 0).1.length ≠ 0 := by
  unfold hayFwd
  have hrows : rowsList = (List.range 22).map (· + 1) ++ [23] := by decide
  rw [hrows, List.foldl_append]
  simp only [List.foldl_cons, List.foldl_nil]
  unfold hayFwdStep
  simp

/-! ## `search_page_rev`, case by case -/

/-- the stop test at the head of `search_page_rev` -/
def StopsRevP (s : SearchSt) (p : Nat) (e : Entry) (w : Bool) : Prop :=
  if key s.startPgno s.startSubno ≤ key s.stopPgno1 s.stopSubno1 then
    w = true ∧ key p e.subno ≤ key s.stopPgno1 s.stopSubno1
  else key p e.subno > key s.startPgno s.startSubno ∨ key p e.subno ≤ key s.stopPgno1 s.stopSubno1

/-- `row = (this == start) ? s->row[1] : 100` -/
def cursorRowR (s : SearchSt) (p : Nat) (e : Entry) : Int :=
  if key p e.subno = key s.startPgno s.startSubno then s.row1 else 100

/-- the ways `search_page_rev` returns -/
theorem pageRev_cases (sh : Shape) (exec : Exec) (s : SearchSt) (p : Nat) (e : Entry) (w : Bool) :
    (StopsRevP s p e w ∧ pageRev sh exec s p e w = (-1, s)) ∨
    (¬ StopsRevP s p e w ∧ e.func ≠ FUNC_LOP ∧ pageRev sh exec s p e w = (0, s)) ∨
    (¬ StopsRevP s p e w ∧ e.func = FUNC_LOP ∧
      ∃ hay ne, hayRev e.text (cursorRowR s p e) s.col1 = (hay, ne) ∧
        ((hay.length = 0 ∧ pageRev sh exec s p e w = (0, { s with pgPgno := p, pgSubno := e.subno, hl := [] })) ∨
         (hay.length ≠ 0 ∧ ∃ i ms me, revMatches sh exec hay ne (hay.length + 2) 0 0 0 0 = some (i, ms, me) ∧
            (i = 0 ↔ exec (revFlags sh hay ne 0) hay = none) ∧
            ((i = 0 ∧ pageRev sh exec s p e w = (0, { s with pgPgno := p, pgSubno := e.subno, hl := [] })) ∨
             (i ≠ 0 ∧ pageRev sh exec s p e w =
                (1, highlight { s with pgPgno := p, pgSubno := e.subno, hl := [] } p e 0 ms me)))))) := by
  by_cases h1 : StopsRevP s p e w
  · left
    refine ⟨h1, ?_⟩
    unfold pageRev
    unfold StopsRevP at h1
    simp only [if_pos h1]
  · right
    have h1' := h1
    unfold StopsRevP at h1'
    by_cases h2 : e.func ≠ FUNC_LOP
    · left
      refine ⟨h1, h2, ?_⟩
      unfold pageRev
      simp only [if_neg h1', if_pos h2]
    · right
      refine ⟨h1, by simpa using h2, ?_⟩
      cases hh : hayRev e.text (cursorRowR s p e) s.col1 with
      | mk hay ne =>
        refine ⟨hay, ne, rfl, ?_⟩
        unfold cursorRowR at hh
        by_cases h3 : hay.length = 0
        · left
          refine ⟨h3, ?_⟩
          unfold pageRev
          simp only [if_neg h1', if_neg h2, hh, if_pos h3]
        · right
          obtain ⟨i, ms, me, hrm, hi⟩ := revMatches_ends sh exec hay ne h3
          refine ⟨h3, i, ms, me, hrm, hi, ?_⟩
          by_cases h4 : i = 0
          · left
            refine ⟨h4, ?_⟩
            unfold pageRev
            simp only [if_neg h1', if_neg h2, hh, if_neg h3, hrm, if_pos h4]
          · right
            refine ⟨h4, ?_⟩
            unfold pageRev
            simp only [if_neg h1', if_neg h2, hh, if_neg h3, hrm, if_neg h4]

end Zvbi.Search
