import ZvbiModel.Search.LemmasPos
/-!
# Lemmas about the page walk, part 4: the walk with ANY callback is the fold of that callback over the
pages found at the probed positions (`runPos`).  The start position is looked up as the caller gave it
(`lookup`: wildcard 0x3F7F, page number check), every later position exactly (`lookupX`, since ce86777 - before,
a statistics window reaching 0x3F7F broke this refinement).  The most-recently-used reordering done by every
look-up is shown not to matter.
-/
namespace Zvbi.Search

/-- the test `_vbi_cache_get_page (.., subno, -1)` applies to the pages of the chain -/
def pred (s : Int) : Entry → Bool := fun e => s = ANY_SUBNO || (e.subno : Int) = s

/-- the page `_vbi_cache_get_page` returns (start position of the walk) -/
def lookup (c : Cache) (p s : Int) : Option Entry :=
  if validPgno p then (c.slots p.toNat).chain.find? (pred s) else none

/-- the test of the exact look-up `page_by_pgno (.., subno, -1)` -/
def predX (s : Int) : Entry → Bool := fun e => decide ((e.subno : Int) = s)

/-- the page the exact look-up inside the walk returns: the first page of the chain with that sub-page number -/
def lookupX (c : Cache) (p s : Int) : Option Entry := (c.slots p.toNat).chain.find? (predX s)

theorem removeFirst_split (q : Entry → Bool) : ∀ (l : List Entry) (e : Entry) (rest : List Entry),
    removeFirst q l = some (e, rest) →
    ∃ pre post, l = pre ++ e :: post ∧ rest = pre ++ post ∧ (∀ x ∈ pre, q x = false) ∧ q e = true := by
  intro l
  induction l with
  | nil => intro e rest h; simp [removeFirst] at h
  | cons a l ih =>
    intro e rest h
    unfold removeFirst at h
    by_cases hq : q a = true
    · simp only [hq, if_true] at h
      injection h with h; injection h with h1 h2
      subst h1 h2
      exact ⟨[], l, rfl, rfl, by simp, hq⟩
    · simp only [hq] at h
      cases hr : removeFirst q l with
      | none => simp [hr] at h
      | some t =>
        obtain ⟨x, r⟩ := t
        simp only [hr] at h
        injection h with h; injection h with h1 h2
        subst h1 h2
        obtain ⟨pre, post, hl, hrr, hpre, hqe⟩ := ih x r hr
        refine ⟨a :: pre, post, by simp [hl], by simp [hrr], ?_, hqe⟩
        intro y hy
        rcases List.mem_cons.mp hy with rfl | hy
        · simpa using hq
        · exact hpre y hy

theorem removeFirst_none (q : Entry → Bool) : ∀ (l : List Entry), removeFirst q l = none → l.find? q = none := by
  intro l
  induction l with
  | nil => intro _; rfl
  | cons a l ih =>
    intro h
    unfold removeFirst at h
    by_cases hq : q a = true
    · simp [hq] at h
    · simp only [hq, if_false] at h
      cases hr : removeFirst q l with
      | none => simp [List.find?_cons, hq, ih hr]
      | some t => simp [hr] at h

theorem find_of_split {q : Entry → Bool} {pre post : List Entry} {e : Entry}
    (hpre : ∀ x ∈ pre, q x = false) (hq : q e = true) : (pre ++ e :: post).find? q = some e := by
  rw [List.find?_append]
  have : pre.find? q = none := by
    rw [List.find?_eq_none]; intro x hx; simp [hpre x hx]
  simp [this, List.find?_cons, hq]

theorem getPage_fst (c : Cache) (p s : Int) : (getPage c p s).1 = lookup c p s := by
  unfold getPage lookup pred
  by_cases hv : validPgno p = true
  · simp only [hv, Bool.not_true, Bool.false_eq_true, if_false, if_true]
    cases hr : removeFirst (fun e => s = ANY_SUBNO || (e.subno : Int) = s) (c.slots p.toNat).chain with
    | none => simp only; exact (removeFirst_none _ _ hr).symm
    | some t =>
      obtain ⟨e, rest⟩ := t
      simp only
      obtain ⟨pre, post, hl, _, hpre, hq⟩ := removeFirst_split _ _ _ _ hr
      rw [hl]; exact (find_of_split hpre hq).symm
  · simp [hv]

theorem getExact_fst (c : Cache) (p s : Int) : (getExact c p s).1 = lookupX c p s := by
  unfold getExact lookupX predX
  simp only
  cases hr : removeFirst (fun e => decide ((e.subno : Int) = s)) (c.slots p.toNat).chain with
  | none => simp only; exact (removeFirst_none _ _ hr).symm
  | some t =>
    obtain ⟨e, rest⟩ := t
    simp only
    obtain ⟨pre, post, hl, _, hpre, hq⟩ := removeFirst_split _ _ _ _ hr
    rw [hl]; exact (find_of_split hpre hq).symm

/-- `c'` is `c` up to the order of the hash chains: same statistics, same answer to every exact look-up -/
structure Equiv (c c' : Cache) : Prop where
  stat : ∀ q : Nat, (c'.slots q).stat = (c.slots q).stat
  ncached : c'.nCached = c.nCached
  look : ∀ (q : Nat) (s : Int), (c'.slots q).chain.find? (predX s) = (c.slots q).chain.find? (predX s)

theorem Equiv.refl (c : Cache) : Equiv c c := ⟨fun _ => rfl, rfl, fun _ _ => rfl⟩

/-- moving the page a look-up found to the head of its chain does not change the answer to any exact look-up:
    the pages it overtakes have another sub-page number -/
theorem find_move_front (q : Entry → Bool) (s' : Int) (pre post : List Entry) (e : Entry)
    (hpre : ∀ x ∈ pre, q x = false) (hov : predX s' e = true → ∀ x ∈ pre, predX s' x = false) :
    (e :: (pre ++ post)).find? (predX s') = (pre ++ e :: post).find? (predX s') := by
  by_cases hpe : predX s' e = true
  · rw [find_of_split (hov hpe) hpe]
    simp [List.find?_cons, hpe]
  · have hpe' : predX s' e = false := by simpa using hpe
    simp [List.find?_cons, List.find?_append, hpe']

theorem setSlot_equiv {c c' : Cache} (h : Equiv c c') (p : Nat) (q : Entry → Bool) (pre post : List Entry) (e : Entry)
    (hl : (c'.slots p).chain = pre ++ e :: post) (hpre : ∀ x ∈ pre, q x = false)
    (hov : ∀ s', predX s' e = true → ∀ x ∈ pre, predX s' x = false) :
    Equiv c (c'.setSlot p ⟨(c'.slots p).stat, e :: (pre ++ post)⟩ c'.nCached) := by
  refine ⟨?_, ?_, ?_⟩
  · intro q'; unfold Cache.setSlot; simp only
    by_cases hqp : q' = p
    · subst hqp; simp [h.stat]
    · simp [hqp, h.stat]
  · simp [Cache.setSlot, h.ncached]
  · intro q' s'
    unfold Cache.setSlot; simp only
    by_cases hqp : q' = p
    · subst hqp
      simp only [if_true]
      rw [← h.look _ s', hl]
      exact find_move_front q s' pre post e hpre (hov s')
    · simp [hqp, h.look q' s']

theorem getPage_equiv {c c' : Cache} (h : Equiv c c') (p s : Int) : Equiv c (getPage c' p s).2 := by
  unfold getPage
  by_cases hv : validPgno p = true
  · simp only [hv, Bool.not_true, Bool.false_eq_true, if_false]
    cases hr : removeFirst (fun e => s = ANY_SUBNO || (e.subno : Int) = s) (c'.slots p.toNat).chain with
    | none => simpa using h
    | some t =>
      obtain ⟨e, rest⟩ := t
      simp only
      obtain ⟨pre, post, hl, hrest, hpre, hq⟩ := removeFirst_split _ _ _ _ hr
      rw [hrest]
      refine setSlot_equiv h _ _ pre post e hl hpre ?_
      intro s' hpe x hx
      have hx' := hpre x hx
      simp only [Bool.or_eq_false_iff, decide_eq_false_iff_not] at hx'
      simp only [Bool.or_eq_true, decide_eq_true_eq] at hq
      simp only [predX, decide_eq_true_eq] at hpe
      simp only [predX, decide_eq_false_iff_not]
      intro hxs
      rcases hq with hq | hq
      · exact hx'.1 hq
      · exact hx'.2 (by omega)
  · simpa [hv] using h

theorem getExact_equiv {c c' : Cache} (h : Equiv c c') (p s : Int) : Equiv c (getExact c' p s).2 := by
  unfold getExact
  simp only
  cases hr : removeFirst (fun e => decide ((e.subno : Int) = s)) (c'.slots p.toNat).chain with
  | none => simpa using h
  | some t =>
    obtain ⟨e, rest⟩ := t
    simp only
    obtain ⟨pre, post, hl, hrest, hpre, hq⟩ := removeFirst_split _ _ _ _ hr
    rw [hrest]
    refine setSlot_equiv h _ _ pre post e hl hpre ?_
    intro s' hpe x hx
    have hx' := hpre x hx
    simp only [decide_eq_false_iff_not] at hx'
    simp only [decide_eq_true_eq] at hq
    simp only [predX, decide_eq_true_eq] at hpe
    simp only [predX, decide_eq_false_iff_not]
    omega

theorem stat_of_equiv {c c' : Cache} (h : Equiv c c') (q : Int) : c'.stat q = c.stat q := by
  unfold Cache.stat; exact h.stat _

theorem skip_congr {c c' : Cache} (h : ∀ q : Int, c'.stat q = c.stat q) (dir : Int) :
    ∀ (n : Nat) (p s : Int) (w : Bool), skip c' dir n p s w = skip c dir n p s w := by
  intro n
  induction n with
  | zero => intro p s w; rfl
  | succ n ih =>
    intro p s w
    unfold skip
    simp only [h, ih]

/-- the callbacks a walk makes when it probes the positions `ps` (exact look-ups) on cache `c` -/
def runPos {σ : Type} (cb : Callback σ) (c : Cache) : List Pos → σ → Int × σ
  | [], s => (-1, s)
  | (p, sub, w) :: rest, s =>
    match lookupX c p sub with
    | none => runPos cb c rest s
    | some e =>
      match cb s p.toNat e w with
      | (r, s') => if r ≠ 0 then (r, s') else runPos cb c rest s'

theorem runPos_cons {σ : Type} (cb : Callback σ) (c : Cache) (p sub : Int) (w : Bool) (rest : List Pos) (s : σ) :
    runPos cb c ((p, sub, w) :: rest) s =
      match lookupX c p sub with
      | none => runPos cb c rest s
      | some e =>
        match cb s p.toNat e w with
        | (r, s') => if r ≠ 0 then (r, s') else runPos cb c rest s' := rfl

theorem lookupX_equiv {c c' : Cache} (h : Equiv c c') (p s : Int) : lookupX c' p s = lookupX c p s := by
  unfold lookupX; exact h.look _ s

theorem loop_factors {σ : Type} (cb : Callback σ) (c : Cache) (dir : Int) :
    ∀ (n : Nat) (c0 : Cache) (s : σ) (p sub : Int) (w : Bool) (cp : Option Entry), Equiv c c0 →
    (loop cb dir n c0 s p sub w cp).res = .outOfFuel ∨
    ((loop cb dir n c0 s p sub w cp).res =
        .ret (match firstCall cb s p w cp with
              | (r, s1) => if r ≠ 0 then r else (runPos cb c (positions c dir n p sub w) s1).1) ∧
     (loop cb dir n c0 s p sub w cp).st =
        (match firstCall cb s p w cp with
         | (r, s1) => if r ≠ 0 then s1 else (runPos cb c (positions c dir n p sub w) s1).2)) := by
  intro n
  induction n with
  | zero => intro c0 s p sub w cp _; left; simp [loop]
  | succ n ih =>
    intro c0 s p sub w cp heq
    rw [loop_succ, positions_succ]
    generalize firstCall cb s p w cp = rs
    obtain ⟨r, s1⟩ := rs
    simp only
    by_cases hr0 : r ≠ 0
    · right; simp [hr0]
    · simp only [hr0, if_false]
      rw [skip_congr (stat_of_equiv heq)]
      cases hsk : skip c dir skipFuel p (sub + dir) w with
      | none => left; rfl
      | some t =>
        cases t with
        | none => right; simp [runPos]
        | some t =>
          obtain ⟨p', s', w'⟩ := t
          simp only
          have heq' := getExact_equiv heq p' s'
          have hfst : (getExact c0 p' s').1 = lookupX c p' s' := by
            rw [getExact_fst, lookupX_equiv heq p' s']
          generalize getExact c0 p' s' = g at heq' hfst
          obtain ⟨cp', c'⟩ := g
          simp only at heq' hfst ⊢
          rcases ih c' s1 p' s' w' cp' heq' with ih0 | ⟨ih1, ih2⟩
          · left; exact ih0
          · right
            rw [ih1, ih2, runPos_cons, ← hfst]
            cases cp' with
            | none => simp [firstCall]
            | some e =>
              simp only [firstCall]
              by_cases hr2 : (cb s1 p'.toNat e w').1 = 0 <;> simp [hr2]

/-! ## the whole walk -/

/-- the page the look-up of the START position returns, in either source shape -/
def lookupS (sh : Shape) (c : Cache) (p s : Int) : Option Entry :=
  if sh.startExact then (if 0x100 ≤ p ∧ p ≤ 0x8FF then lookupX c p s else none) else lookup c p s

theorem getStart_fst (sh : Shape) (c : Cache) (p s : Int) : (getStart sh c p s).1 = lookupS sh c p s := by
  unfold getStart lookupS
  cases sh.startExact with
  | false => simp only [Bool.false_eq_true, if_false]; exact getPage_fst c p s
  | true =>
    simp only [if_true]
    by_cases hp : 0x100 ≤ p ∧ p ≤ 0x8FF
    · rw [if_pos hp, if_pos hp]; exact getExact_fst c p s
    · rw [if_neg hp, if_neg hp]

theorem getStart_equiv {c c' : Cache} (h : Equiv c c') (sh : Shape) (p s : Int) : Equiv c (getStart sh c' p s).2 := by
  unfold getStart
  cases sh.startExact with
  | false => simp only [Bool.false_eq_true, if_false]; exact getPage_equiv h p s
  | true =>
    simp only [if_true]
    by_cases hp : 0x100 ≤ p ∧ p ≤ 0x8FF
    · rw [if_pos hp]; exact getExact_equiv h p s
    · rw [if_neg hp]; exact h

/-- sub-page number the walk starts from: unrepaired shape - that of the page found at the start position (or 0
    for the wildcard without a page); repaired shape - the caller's -/
def startSub (sh : Shape) (c : Cache) (p sub : Int) : Int := startSubS sh (lookupS sh c p sub) sub

theorem startSub_repaired (sh : Shape) (h : sh.startExact = true) (c : Cache) (p sub : Int) : startSub sh c p sub = sub := by
  unfold startSub startSubS; simp [h]

/-- all positions a walk probes when its callback never stops it: the start position, then one per iteration -/
def walkPositions (sh : Shape) (c : Cache) (p sub dir : Int) : List Pos :=
  (p, startSub sh c p sub, false) :: positions c dir walkFuel p (startSub sh c p sub) false

/-- the walk as a fold: the callback on the page the start look-up finds (unrepaired shape: wildcard sub-page number
    honoured; repaired shape: exact), then on the pages the exact look-up finds at the later positions -/
def walkRun {σ : Type} (sh : Shape) (cb : Callback σ) (c : Cache) (p sub dir : Int) (s : σ) : Int × σ :=
  match firstCall cb s p false (lookupS sh c p sub) with
  | (r, s1) => if r ≠ 0 then (r, s1) else runPos cb c (positions c dir walkFuel p (startSub sh c p sub) false) s1

theorem walk_factors {σ : Type} (sh : Shape) (cb : Callback σ) (c : Cache) (s : σ) (p sub dir : Int)
    (hne : c.nCached ≠ 0) (hp : PgOk p) (hdir : dir = 1 ∨ dir = -1) :
    (walk sh cb walkFuel c s p sub dir).res = .ret (walkRun sh cb c p sub dir s).1 ∧
    (walk sh cb walkFuel c s p sub dir).st = (walkRun sh cb c p sub dir s).2 := by
  unfold walk walkRun
  simp only [hne, if_false]
  have hfst := getStart_fst sh c p sub
  have heq := getStart_equiv (Equiv.refl c) sh p sub
  generalize getStart sh c p sub = g at hfst heq
  obtain ⟨cp, c1⟩ := g
  simp only at hfst heq ⊢
  have hpo : ¬ (p < 0x100 ∨ p > 0x8FF) := by unfold PgOk at hp; omega
  simp only [hpo, if_false]
  have hsub : startSubS sh cp sub = startSub sh c p sub := by
    unfold startSub; rw [← hfst]
  rw [hsub]
  have hterm : (loop cb dir walkFuel c1 s p (startSub sh c p sub) false cp).res ≠ .outOfFuel := by
    rcases hdir with rfl | rfl
    · exact loop_fwd_terminates cb _ _ _ _ _ _ _ hp (rankF_lt_fuel hp _ _)
    · exact loop_bwd_terminates cb _ _ _ _ _ _ _ hp (rankB_lt_fuel hp _ _)
  rcases loop_factors cb c dir walkFuel c1 s p (startSub sh c p sub) false cp heq with h0 | ⟨h1, h2⟩
  · exact absurd h0 hterm
  · rw [h1, h2, ← hfst]
    generalize firstCall cb s p false cp = rs
    obtain ⟨r, s1⟩ := rs
    simp only
    by_cases hr : r ≠ 0 <;> simp [hr]

/-- unrepaired shape: the exact look-up at the start position finds the page `_vbi_cache_get_page` returned -/
theorem lookupX_startSubW (c : Cache) (p sub : Int) (hok : validPgno p = true ∨ (c.slots p.toNat).chain = []) :
    lookupX c p (startSubOf (lookup c p sub) sub) = lookup c p sub := by
  unfold startSubOf lookupX
  by_cases hv : validPgno p = true
  · cases hl : lookup c p sub with
    | none =>
      simp only
      unfold lookup at hl
      simp only [hv, if_true] at hl
      rw [List.find?_eq_none] at hl ⊢
      intro x hx
      have := hl x hx
      by_cases hs : sub = ANY_SUBNO
      · simp [pred, hs] at this
      · simp only [hs, if_false]
        simp only [pred, hs, decide_false, Bool.false_or] at this
        simpa [predX] using this
    | some e =>
      simp only
      unfold lookup at hl
      simp only [hv, if_true] at hl
      by_cases hs : sub = ANY_SUBNO
      · subst hs
        cases hc : (c.slots p.toNat).chain with
        | nil => rw [hc] at hl; simp at hl
        | cons a l =>
          rw [hc] at hl
          simp [pred] at hl
          subst hl
          simp [predX]
      · have hpe := List.find?_some hl
        simp only [pred, hs, decide_false, Bool.false_or, decide_eq_true_eq] at hpe
        rw [hpe]
        have : pred sub = predX sub := by
          funext x; simp [pred, predX, hs]
        rw [← this]; exact hl
  · have hc : (c.slots p.toNat).chain = [] := by
      rcases hok with h | h
      · exact absurd h hv
      · exact h
    have hl : lookup c p sub = none := by unfold lookup; simp [hv]
    rw [hl, hc]; simp

/-- what the uniform statement needs about the start page number: nothing in the repaired shape; in the unrepaired
    shape it passes the check of `_vbi_cache_get_page` (not xFF), or nothing is cached under it
    (`_vbi_cache_put_page` stores no page xFF: `build_noFF`) -/
def StartOk (sh : Shape) (c : Cache) (p : Int) : Prop :=
  sh.startExact = true ∨ validPgno p = true ∨ (c.slots p.toNat).chain = []

/-- the exact look-up at the start position finds the page the walk started with -/
theorem lookupX_startSub (sh : Shape) (c : Cache) (p sub : Int) (hp : PgOk p) (hok : StartOk sh c p) :
    lookupX c p (startSub sh c p sub) = lookupS sh c p sub := by
  unfold startSub startSubS lookupS
  cases hse : sh.startExact with
  | true =>
    unfold PgOk at hp
    simp only [if_true, if_pos hp]
  | false =>
    simp only [Bool.false_eq_true, if_false]
    apply lookupX_startSubW
    rcases hok with h | h
    · rw [hse] at h; cases h
    · exact h

/-- with `StartOk` the walk is the uniform fold over `walkPositions` -/
theorem walkRun_eq_runPos {σ : Type} (sh : Shape) (cb : Callback σ) (c : Cache) (p sub dir : Int) (s : σ) (hp : PgOk p)
    (hok : StartOk sh c p) :
    walkRun sh cb c p sub dir s = runPos cb c (walkPositions sh c p sub dir) s := by
  unfold walkRun walkPositions
  rw [runPos_cons, lookupX_startSub sh c p sub hp hok]
  cases lookupS sh c p sub with
  | none => simp [firstCall]
  | some e => rfl

end Zvbi.Search
