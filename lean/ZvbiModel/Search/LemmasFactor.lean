import ZvbiModel.Search.LemmasPos
/-!
# Lemmas about the page walk, part 4: the walk with ANY callback is the fold of that callback over the
pages found at the probed positions (`runPos`), provided no statistics window reaches the wildcard
sub-page number 0x3F7F.  The most-recently-used reordering done by every look-up is shown not to matter.
-/
namespace Zvbi.Search

/-- the test `_vbi_cache_get_page (.., subno, -1)` applies to the pages of the chain -/
def pred (s : Int) : Entry → Bool := fun e => s = ANY_SUBNO || (e.subno : Int) = s

/-- the page a look-up returns -/
def lookup (c : Cache) (p s : Int) : Option Entry :=
  if validPgno p then (c.slots p.toNat).chain.find? (pred s) else none

theorem removeFirst_split (q : Entry → Bool) : ∀ (l : List Entry) (e : Entry) (rest : List Entry),
    removeFirst q l = some (e, rest) →
    ∃ pre post, l = pre ++ e :: post ∧ rest = pre ++ post ∧ (∀ x ∈ pre, q x = false) ∧ q e = true := by
  intro l
  induction l with
  | nil => intro e rest h; simp [removeFirst] at h
  | cons a l ih =>
    intro e rest h
    unfold removeFirst at h
    by_cases hq : q a = true
    · simp only [hq, if_true] at h
      injection h with h; injection h with h1 h2
      subst h1 h2
      exact ⟨[], l, rfl, rfl, by simp, hq⟩
    · simp only [hq] at h
      cases hr : removeFirst q l with
      | none => simp [hr] at h
      | some t =>
        obtain ⟨x, r⟩ := t
        simp only [hr] at h
        injection h with h; injection h with h1 h2
        subst h1 h2
        obtain ⟨pre, post, hl, hrr, hpre, hqe⟩ := ih x r hr
        refine ⟨a :: pre, post, by simp [hl], by simp [hrr], ?_, hqe⟩
        intro y hy
        rcases List.mem_cons.mp hy with rfl | hy
        · simpa using hq
        · exact hpre y hy

theorem removeFirst_none (q : Entry → Bool) : ∀ (l : List Entry), removeFirst q l = none → l.find? q = none := by
  intro l
  induction l with
  | nil => intro _; rfl
  | cons a l ih =>
    intro h
    unfold removeFirst at h
    by_cases hq : q a = true
    · simp [hq] at h
    · simp only [hq, if_false] at h
      cases hr : removeFirst q l with
      | none => simp [List.find?_cons, hq, ih hr]
      | some t => simp [hr] at h

theorem find_of_split {q : Entry → Bool} {pre post : List Entry} {e : Entry}
    (hpre : ∀ x ∈ pre, q x = false) (hq : q e = true) : (pre ++ e :: post).find? q = some e := by
  rw [List.find?_append]
  have : pre.find? q = none := by
    rw [List.find?_eq_none]; intro x hx; simp [hpre x hx]
  simp [this, List.find?_cons, hq]

theorem getPage_fst (c : Cache) (p s : Int) : (getPage c p s).1 = lookup c p s := by
  unfold getPage lookup pred
  by_cases hv : validPgno p = true
  · simp only [hv, Bool.not_true, Bool.false_eq_true, if_false, if_true]
    cases hr : removeFirst (fun e => s = ANY_SUBNO || (e.subno : Int) = s) (c.slots p.toNat).chain with
    | none => simp only; exact (removeFirst_none _ _ hr).symm
    | some t =>
      obtain ⟨e, rest⟩ := t
      simp only
      obtain ⟨pre, post, hl, _, hpre, hq⟩ := removeFirst_split _ _ _ _ hr
      rw [hl]; exact (find_of_split hpre hq).symm
  · simp [hv]

/-- `c'` is `c` up to the order of the hash chains: same statistics, same answer to every exact look-up -/
structure Equiv (c c' : Cache) : Prop where
  stat : ∀ q : Nat, (c'.slots q).stat = (c.slots q).stat
  ncached : c'.nCached = c.nCached
  look : ∀ (q : Nat) (s : Int), s ≠ ANY_SUBNO → (c'.slots q).chain.find? (pred s) = (c.slots q).chain.find? (pred s)

theorem Equiv.refl (c : Cache) : Equiv c c := ⟨fun _ => rfl, rfl, fun _ _ _ => rfl⟩

theorem pred_exact {s : Int} (hs : s ≠ ANY_SUBNO) (e : Entry) : pred s e = decide ((e.subno : Int) = s) := by
  simp [pred, hs]

theorem getPage_equiv {c c' : Cache} (h : Equiv c c') (p s : Int) : Equiv c (getPage c' p s).2 := by
  unfold getPage
  by_cases hv : validPgno p = true
  · simp only [hv, Bool.not_true, Bool.false_eq_true, if_false]
    cases hr : removeFirst (fun e => s = ANY_SUBNO || (e.subno : Int) = s) (c'.slots p.toNat).chain with
    | none => simpa using h
    | some t =>
      obtain ⟨e, rest⟩ := t
      simp only
      obtain ⟨pre, post, hl, hrest, hpre, hq⟩ := removeFirst_split _ _ _ _ hr
      refine ⟨?_, ?_, ?_⟩
      · intro q; unfold Cache.setSlot; simp only
        by_cases hqp : q = p.toNat
        · subst hqp; simp [h.stat]
        · simp [hqp, h.stat]
      · simp [Cache.setSlot, h.ncached]
      · intro q s' hs'
        unfold Cache.setSlot; simp only
        by_cases hqp : q = p.toNat
        · subst hqp
          simp only [if_true]
          rw [← h.look _ s' hs', hl, hrest]
          by_cases hpe : pred s' e = true
          · have hnone : ∀ x ∈ pre, pred s' x = false := by
              intro x hx
              have hx' := hpre x hx
              rw [pred_exact hs'] at hpe ⊢
              simp only [Bool.or_eq_false_iff, decide_eq_false_iff_not] at hx'
              simp only [Bool.or_eq_true, decide_eq_true_eq] at hq
              simp only [decide_eq_true_eq] at hpe
              simp only [decide_eq_false_iff_not]
              intro hxs
              rcases hq with hq | hq
              · exact hx'.1 hq
              · exact hx'.2 (by omega)
            rw [find_of_split hnone hpe]
            simp [List.find?_cons, hpe]
          · have hpe' : pred s' e = false := by simpa using hpe
            simp [List.find?_cons, List.find?_append, hpe']
        · simp [hqp, h.look q s' hs']
  · simpa [hv] using h

theorem stat_of_equiv {c c' : Cache} (h : Equiv c c') (q : Int) : c'.stat q = c.stat q := by
  unfold Cache.stat; exact h.stat _

theorem skip_congr {c c' : Cache} (h : ∀ q : Int, c'.stat q = c.stat q) (dir : Int) :
    ∀ (n : Nat) (p s : Int) (w : Bool), skip c' dir n p s w = skip c dir n p s w := by
  intro n
  induction n with
  | zero => intro p s w; rfl
  | succ n ih =>
    intro p s w
    unfold skip
    simp only [h, ih]

theorem skip_some_inRange (c : Cache) (dir : Int) : ∀ (n : Nat) (p s : Int) (w : Bool) (p' s' : Int) (w' : Bool),
    skip c dir n p s w = some (some (p', s', w')) → inRange (c.stat p') s' = true := by
  intro n
  induction n with
  | zero => intro p s w p' s' w' h; simp [skip] at h
  | succ n ih =>
    intro p s w p' s' w' h
    unfold skip at h
    by_cases hin : inRange (c.stat p) s = true
    · simp only [hin, if_true] at h
      injection h with h; injection h with h; injection h with h1 h; injection h with h2 h3
      subst h1 h2 h3; exact hin
    · simp only [hin, if_false] at h
      by_cases hd : dir < 0
      · simp only [hd, if_true] at h
        by_cases hl : p - 1 < 0x100
        · simp only [hl, if_true] at h
          cases w with
          | true => simp at h
          | false => simp only [Bool.false_eq_true, if_false] at h; exact ih _ _ _ _ _ _ h
        · simp only [hl, if_false] at h; exact ih _ _ _ _ _ _ h
      · simp only [hd, if_false] at h
        by_cases hl : p + 1 > 0x8FF
        · simp only [hl, if_true] at h
          cases w with
          | true => simp at h
          | false => simp only [Bool.false_eq_true, if_false] at h; exact ih _ _ _ _ _ _ h
        · simp only [hl, if_false] at h; exact ih _ _ _ _ _ _ h

/-- no statistics window reaches the wildcard sub-page number -/
def NoAny (c : Cache) : Prop := ∀ q : Int, (c.stat q).subMax.toNat < 0x3F7F

/-- the callbacks a walk makes when it probes the positions `ps` on cache `c` -/
def runPos {σ : Type} (cb : Callback σ) (c : Cache) : List Pos → σ → Int × σ
  | [], s => (-1, s)
  | (p, sub, w) :: rest, s =>
    match lookup c p sub with
    | none => runPos cb c rest s
    | some e =>
      match cb s p.toNat e w with
      | (r, s') => if r ≠ 0 then (r, s') else runPos cb c rest s'

theorem runPos_cons {σ : Type} (cb : Callback σ) (c : Cache) (p sub : Int) (w : Bool) (rest : List Pos) (s : σ) :
    runPos cb c ((p, sub, w) :: rest) s =
      match lookup c p sub with
      | none => runPos cb c rest s
      | some e =>
        match cb s p.toNat e w with
        | (r, s') => if r ≠ 0 then (r, s') else runPos cb c rest s' := rfl

theorem lookup_equiv {c c' : Cache} (h : Equiv c c') (p s : Int) (hs : s ≠ ANY_SUBNO) : lookup c' p s = lookup c p s := by
  unfold lookup
  by_cases hv : validPgno p = true
  · simp [hv, h.look _ s hs]
  · simp [hv]

theorem loop_factors {σ : Type} (cb : Callback σ) (c : Cache) (hno : NoAny c) (dir : Int) :
    ∀ (n : Nat) (c0 : Cache) (s : σ) (p sub : Int) (w : Bool) (cp : Option Entry), Equiv c c0 →
    (loop cb dir n c0 s p sub w cp).res = .outOfFuel ∨
    ((loop cb dir n c0 s p sub w cp).res =
        .ret (match firstCall cb s p w cp with
              | (r, s1) => if r ≠ 0 then r else (runPos cb c (positions c dir n p sub w) s1).1) ∧
     (loop cb dir n c0 s p sub w cp).st =
        (match firstCall cb s p w cp with
         | (r, s1) => if r ≠ 0 then s1 else (runPos cb c (positions c dir n p sub w) s1).2)) := by
  intro n
  induction n with
  | zero => intro c0 s p sub w cp _; left; simp [loop]
  | succ n ih =>
    intro c0 s p sub w cp heq
    rw [loop_succ, positions_succ]
    generalize firstCall cb s p w cp = rs
    obtain ⟨r, s1⟩ := rs
    simp only
    by_cases hr0 : r ≠ 0
    · right; simp [hr0]
    · simp only [hr0, if_false]
      rw [skip_congr (stat_of_equiv heq)]
      cases hsk : skip c dir skipFuel p (sub + dir) w with
      | none => left; rfl
      | some t =>
        cases t with
        | none => right; simp [runPos]
        | some t =>
          obtain ⟨p', s', w'⟩ := t
          simp only
          have hin := skip_some_inRange c dir _ _ _ _ _ _ _ hsk
          have hs' : s' ≠ ANY_SUBNO := by
            have h1 := ((inRange_iff _ _).mp hin).2.2
            have h2 := hno p'
            unfold ANY_SUBNO; omega
          have heq' := getPage_equiv heq p' s'
          have hfst : (getPage c0 p' s').1 = lookup c p' s' := by
            rw [getPage_fst, lookup_equiv heq p' s' hs']
          generalize getPage c0 p' s' = g at heq' hfst
          obtain ⟨cp', c'⟩ := g
          simp only at heq' hfst ⊢
          rcases ih c' s1 p' s' w' cp' heq' with ih0 | ⟨ih1, ih2⟩
          · left; exact ih0
          · right
            rw [ih1, ih2, runPos_cons, ← hfst]
            cases cp' with
            | none => simp [firstCall]
            | some e =>
              simp only [firstCall]
              by_cases hr2 : (cb s1 p'.toNat e w').1 = 0 <;> simp [hr2]

/-! ## the whole walk -/

/-- sub-page number the walk starts from: that of the page found at the start position -/
def startSub (c : Cache) (p sub : Int) : Int := startSubOf (lookup c p sub) sub

/-- all positions a walk probes when its callback never stops it: the start position, then one per iteration -/
def walkPositions (c : Cache) (p sub dir : Int) : List Pos :=
  (p, startSub c p sub, false) :: positions c dir walkFuel p (startSub c p sub) false

theorem lookup_startSub (c : Cache) (p sub : Int) : lookup c p (startSub c p sub) = lookup c p sub := by
  unfold startSub startSubOf
  cases hl : lookup c p sub with
  | none =>
    simp only
    by_cases hs : sub = ANY_SUBNO
    · simp only [hs, if_true]
      subst hs
      unfold lookup at hl ⊢
      by_cases hv : validPgno p = true
      · simp only [hv, if_true] at hl ⊢
        have : (c.slots p.toNat).chain = [] := by
          cases hc : (c.slots p.toNat).chain with
          | nil => rfl
          | cons a l => rw [hc] at hl; simp [pred] at hl
        simp [this]
      · simp [hv]
    · simp [hs, hl]
  | some e =>
    simp only
    unfold lookup at hl ⊢
    by_cases hv : validPgno p = true
    · simp only [hv, if_true] at hl ⊢
      by_cases hs : sub = ANY_SUBNO
      · subst hs
        cases hc : (c.slots p.toNat).chain with
        | nil => rw [hc] at hl; simp at hl
        | cons a l =>
          rw [hc] at hl
          simp [pred] at hl
          subst hl
          simp [pred]
      · have hpe := List.find?_some hl
        simp only [pred, hs, decide_false, Bool.false_or, decide_eq_true_eq] at hpe
        rw [hpe]; exact hl
    · simp [hv] at hl

theorem walk_factors {σ : Type} (cb : Callback σ) (c : Cache) (s : σ) (p sub dir : Int) (hno : NoAny c)
    (hne : c.nCached ≠ 0) (hp : PgOk p) (hdir : dir = 1 ∨ dir = -1) :
    (walk cb walkFuel c s p sub dir).res = .ret (runPos cb c (walkPositions c p sub dir) s).1 ∧
    (walk cb walkFuel c s p sub dir).st = (runPos cb c (walkPositions c p sub dir) s).2 := by
  unfold walk
  simp only [hne, if_false]
  have hfst := getPage_fst c p sub
  have heq := getPage_equiv (Equiv.refl c) p sub
  generalize getPage c p sub = g at hfst heq
  obtain ⟨cp, c1⟩ := g
  simp only at hfst heq ⊢
  have hpo : ¬ (p < 0x100 ∨ p > 0x8FF) := by unfold PgOk at hp; omega
  simp only [hpo, if_false]
  have hsub : startSubOf cp sub = startSub c p sub := by
    unfold startSub; rw [← hfst]
  rw [hsub]
  have hterm : (loop cb dir walkFuel c1 s p (startSub c p sub) false cp).res ≠ .outOfFuel := by
    rcases hdir with rfl | rfl
    · exact loop_fwd_terminates cb _ _ _ _ _ _ _ hp (rankF_lt_fuel hp _ _)
    · exact loop_bwd_terminates cb _ _ _ _ _ _ _ hp (rankB_lt_fuel hp _ _)
  rcases loop_factors cb c hno dir walkFuel c1 s p (startSub c p sub) false cp heq with h0 | ⟨h1, h2⟩
  · exact absurd h0 hterm
  · rw [h1, h2]
    unfold walkPositions
    rw [runPos_cons, lookup_startSub, ← hfst]
    cases cp with
    | none => simp [firstCall]
    | some e =>
      simp only [firstCall]
      by_cases hr2 : (cb s p.toNat e false).1 = 0 <;> simp [hr2]

end Zvbi.Search
