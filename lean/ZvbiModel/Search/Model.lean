/-!
# Model of the Teletext page search (C17)

Follows, statement by statement,

* `src/cache.c`  `cache_network_add_page` / `cache_network_remove_page` (page statistics),
  `_vbi_cache_put_page` (key rule, replacement), `_vbi_cache_get_page` (look-up with MRU move),
  `_vbi_cache_foreach_page` (the page walk),
* `src/search.c` `search_page_fwd`, `search_page_rev`, `highlight`, `vbi_search_new` (stop page
  computation), `vbi_search_next`.

Not modelled, taken as parameters: the Level 1..2.5 page formatter (`Entry.text` is what
`vbi_format_vt_page (max_level, 25 rows, navigation)` shows for the cached page) and the regular
expression engine `ure.c` (`Exec`: flags and text to a match interval).

Abstract cache state: for every page number the list of cached pages in hash-chain order (most
recently used first; all pages of one number share a bucket, so their relative order is exactly the
order in the bucket) and the `ttx_page_stat` fields `n_subpages` (uint16_t since 5e41e82), `subno_min`,
`subno_max` (uint16_t since F5a) as cache.c maintains them.

Two statements of the C code exist in two shapes (finding C17-D7 and its repair fixes/C17-turn-3f7f.diff); the model
follows both, selected by `Shape`.  Which shape /repo has is read from the source text on every run by
translate/gen_search.py (-> Generated/SearchFlags.lean -> `Shape.current` in Search/Current.lean, used by the driver).

State of the C code modelled: after the repairs a500ea8 (F5a), e6cbe38 (F5b), 5e41e82 (C17-D3: "first page of
this number" is `1 == n_subpages`, counter 16 bits wide), ed2772e (C17-D4: the walk clamps to the first
sub-page in walking direction instead of leaving the page), ce86777 (C17-D5: exact look-up inside the walk).
-/
namespace Zvbi.Search

def ANY_SUBNO : Int := 0x3F7F

/-- the two source shapes of the statements that read sub-page number 0x3F7F as VBI_ANY_SUBNO (C17-D7) -/
structure Shape where
  /-- `_vbi_cache_foreach_page`: the START position is looked up exactly (`page_by_pgno` behind the page number
      range test) and `subno` stays what the caller gave; `false`: through `_vbi_cache_get_page` (0x3F7F = wildcard),
      `subno = cp->subno`, and `VBI_ANY_SUBNO` without a page becomes 0 -/
  startExact : Bool
  /-- `vbi_search_next`, direction change: `stop_subno[0] = start_subno`; `false`:
      `stop_subno[0] = (start_subno == VBI_ANY_SUBNO) ? 0 : start_subno` -/
  turnKeeps : Bool
  /-- line anchors (finding C17-D8 and its repair fixes/C17-line-anchors.diff): the URE_NOTBOL flag `search_page_fwd` /
      `search_page_rev` hand to ure_exec says whether the text handed over begins INSIDE a row
      (`first[-1] != SEPARATOR` resp. `haystack[pos - 1] != SEPARATOR`); `false`: search_page_fwd always hands 0,
      search_page_rev URE_NOTBOL for every `pos > 0` -/
  anchors : Bool
deriving DecidableEq, Repr

/-- the code with finding C17-D7 (and C17-D8) -/
def Shape.unrepaired : Shape := ⟨false, false, false⟩
/-- the code after fixes/C17-turn-3f7f.diff (finding C17-D8 still in) -/
def Shape.repaired : Shape := ⟨true, true, false⟩
/-- the code after fixes/C17-turn-3f7f.diff and fixes/C17-line-anchors.diff -/
def Shape.anchored : Shape := ⟨true, true, true⟩
def FIRST_ROW : Int := 1
def LAST_ROW : Int := 24
def SEPARATOR : Nat := 0x0A
def FUNC_LOP : Int := 0

/-! ## cached pages -/

structure Cell where
  unicode : Nat
  size : Nat          -- vbi_size: 0 normal, 1 double width, 2 double height, 3 double size, 4.. continuation cells
deriving DecidableEq, Repr, Inhabited

def blank : Cell := ⟨0x20, 0⟩

/-- rows 1..23 of the formatted page (list index 0 = row 1), 41 cells each (`pg.columns = 41`);
    missing rows / cells read as blank (the driver stores only non-blank rows) -/
abbrev Text := List (List Cell)

def cellAt (t : Text) (row col : Nat) : Cell :=
  if row = 0 then blank else (t.getD (row - 1) []).getD col blank

structure Entry where
  subno : Nat
  func : Int
  text : Text
  tag : Nat := 0      -- ghost: hash of the text as the driver received it (printed by `dump`)
deriving Repr, Inhabited, DecidableEq

/-- `struct ttx_page_stat` fields used by the walk -/
structure Stat where
  nSub : UInt16 := 0     -- uint16_t n_subpages (uint8_t before 5e41e82)
  subMin : UInt16 := 0   -- uint16_t subno_min  (uint8_t before F5a)
  subMax : UInt16 := 0   -- uint16_t subno_max
deriving DecidableEq, Repr, Inhabited

structure Slot where
  stat : Stat := {}
  chain : List Entry := []
deriving Inhabited

structure Cache where
  nCached : Nat := 0            -- cn->n_cached_pages
  slots : Nat → Slot := fun _ => {}

def Cache.empty : Cache := {}

def Cache.stat (c : Cache) (pgno : Int) : Stat := (c.slots pgno.toNat).stat

def Cache.setSlot (c : Cache) (pgno : Nat) (sl : Slot) (n : Nat) : Cache :=
  { nCached := n, slots := fun p => if p = pgno then sl else c.slots p }

/-! ## `_vbi_cache_put_page` (as reached from the Teletext decoder, page type not "clock page",
memory limit never reached: 1 GiB in libzvbi 0.2) -/

def nib (x i : Nat) : Nat := (x / 16 ^ i) % 16

/-- `vbi_is_bcd` for a page number (three digits) -/
def isBcdPgno (pgno : Nat) : Bool := nib pgno 0 ≤ 9 && nib pgno 1 ≤ 9 && nib pgno 2 ≤ 9

/-- `vbi_bcd_digits_greater`: some digit of `x` exceeds the corresponding digit of `m` -/
def digitsGreater (x m : Nat) : Bool := (List.range 7).any (fun i => nib x i > nib m i)

/-- the key rule of `_vbi_cache_put_page`: (sub-page number stored, modulus of the look-up mask:
    1 = mask 0, 256 = mask 0xFF, 16 = mask 0xF) -/
def putKey (pgno subno : Nat) : Nat × Nat :=
  if isBcdPgno pgno then
    if subno = 0 then (0, 1)
    else if subno ≥ 0x100 then
      (if digitsGreater subno 0x2959 || subno > 0x2300 then 0 else subno, 1)
    else if digitsGreater subno 0x79 then (0, 1)
    else (subno, 256)
  else (subno, 16)

/-- remove the first element satisfying `p` (the page `page_by_pgno` finds) -/
def removeFirst (p : Entry → Bool) : List Entry → Option (Entry × List Entry)
  | [] => none
  | e :: rest =>
    if p e then some (e, rest) else
    match removeFirst p rest with
    | some (x, r) => some (x, e :: r)
    | none => none

/-- `cache_network_add_page` on the statistics -/
def Stat.add (st : Stat) (s : Nat) : Stat :=
  let n := st.nSub + 1                                     -- ++ps->n_subpages (uint16_t: 65535 + 1 = 0)
  { nSub := n,
    subMin := if n = 1 /- none before -/ ∨ s < st.subMin.toNat then s.toUInt16 else st.subMin,
    subMax := if n = 1 ∨ s > st.subMax.toNat then s.toUInt16 else st.subMax }

/-- `cache_network_remove_page` on the statistics (uint16_t decrement) -/
def Stat.remove (st : Stat) : Stat := { st with nSub := st.nSub - 1 }

def put (c : Cache) (pgno subno : Nat) (func : Int) (text : Text) (tag : Nat := 0) : Cache :=
  if pgno % 256 = 255 then c else
  let (s, m) := putKey pgno subno
  let sl := c.slots pgno
  match removeFirst (fun e => e.subno % m = s % m) sl.chain with
  | some (_, rest) =>
    c.setSlot pgno ⟨sl.stat.remove.add s, ⟨s, func, text, tag⟩ :: rest⟩ (c.nCached - 1 + 1)
  | none =>
    c.setSlot pgno ⟨sl.stat.add s, ⟨s, func, text, tag⟩ :: sl.chain⟩ (c.nCached + 1)

/-! ### the two source shapes of `_vbi_cache_put_page` (finding F17 / C17-D2 and its repair)

`put` above follows the source as it was when F17 was found: the look-up under the key finds ONE page (the most recently
used one that matches) and only that one is replaced.  fixes/C10-put-replaces-all-versions.diff adds, for the
single-version key classes (`0 == subno_mask`, modulus 1 here), a walk over the hash chain that `delete_page`s every OTHER
cached page of the page number (one `cache_network_remove_page` each) before the page found is replaced.
translate/gen_cache.py reads which text the source has (`Zvbi.Gen.Cache.putReplacesAllVersions`); `putF fix` is the store of
shape `fix`, `putCur` (Search/Current.lean) the one of the current source - what the driver runs. -/

/-- `n` times `cache_network_remove_page` on the statistics of one page number -/
def Stat.removeN (st : Stat) : Nat → Stat
  | 0 => st
  | n + 1 => st.remove.removeN n

/-- repaired shape of `_vbi_cache_put_page`: a store under a single-version key that finds a cached page deletes all
    the others first (`FOR_ALL_NODES ... if (cp2 != old_cp && cp2->pgno == cp->pgno && cp2->network == cn)
    delete_page (ca, cp2)`), then replaces the page found -/
def putR (c : Cache) (pgno subno : Nat) (func : Int) (text : Text) (tag : Nat := 0) : Cache :=
  if pgno % 256 = 255 then c else
  let (s, m) := putKey pgno subno
  let sl := c.slots pgno
  match removeFirst (fun e => e.subno % m = s % m) sl.chain with
  | some (_, rest) =>
    if m = 1 then
      c.setSlot pgno ⟨(sl.stat.removeN rest.length).remove.add s, [⟨s, func, text, tag⟩]⟩ (c.nCached - rest.length - 1 + 1)
    else
      c.setSlot pgno ⟨sl.stat.remove.add s, ⟨s, func, text, tag⟩ :: rest⟩ (c.nCached - 1 + 1)
  | none =>
    c.setSlot pgno ⟨sl.stat.add s, ⟨s, func, text, tag⟩ :: sl.chain⟩ (c.nCached + 1)

/-- `_vbi_cache_put_page` of source shape `fix` (`false`: as found, `true`: repaired) -/
def putF (fix : Bool) (c : Cache) (pgno subno : Nat) (func : Int) (text : Text) (tag : Nat := 0) : Cache :=
  if fix then putR c pgno subno func text tag else put c pgno subno func text tag

/-! ## `_vbi_cache_get_page (ca, cn, pgno, subno, -1)` -/

def validPgno (pgno : Int) : Bool := 0x100 ≤ pgno && pgno ≤ 0x8FF && pgno % 256 != 255

def getPage (c : Cache) (pgno subno : Int) : Option Entry × Cache :=
  if !validPgno pgno then (none, c) else
  let p := pgno.toNat
  let sl := c.slots p
  -- VBI_ANY_SUBNO == subno -> subno_mask = 0: the first page of the chain
  match removeFirst (fun e => subno = ANY_SUBNO || (e.subno : Int) = subno) sl.chain with
  | none => (none, c)
  | some (e, rest) => (some e, c.setSlot p ⟨sl.stat, e :: rest⟩ c.nCached)

/-- `page_by_pgno (ca, cn, pgno, subno, -1)` + `cache_page_ref` as the walk calls it since ce86777: exact
    sub-page number, no wildcard, no page number check; the page found moves to the head of its chain -/
def getExact (c : Cache) (pgno subno : Int) : Option Entry × Cache :=
  let p := pgno.toNat
  let sl := c.slots p
  match removeFirst (fun e => (e.subno : Int) = subno) sl.chain with
  | none => (none, c)
  | some (e, rest) => (some e, c.setSlot p ⟨sl.stat, e :: rest⟩ c.nCached)

/-! ## `_vbi_cache_foreach_page` -/

inductive Res where
  | ret (r : Int)
  | assertFail        -- assert (pgno >= 0x100 && pgno <= 0x8FF) in cache_network_page_stat
  | outOfFuel
deriving DecidableEq, Repr

structure WalkOut (σ : Type) where
  res : Res
  st : σ
  cache : Cache

/-- the loop condition `0 == ps->n_subpages || subno < ps->subno_min || subno > ps->subno_max`, negated -/
def inRange (st : Stat) (subno : Int) : Bool :=
  st.nSub != 0 && (st.subMin.toNat : Int) ≤ subno && subno ≤ (st.subMax.toNat : Int)

/-- inner `while` loop of the walk. `none`: out of fuel; `some none`: `return -1`;
    `some (some (pgno, subno, wrapped))`: loop left at that position (by its condition, or by one of the two
    `break`s added in ed2772e: still on a page number with cached subpages but before their range in walking
    direction -> continue with the first subpage) -/
def skip (c : Cache) (dir : Int) : Nat → Int → Int → Bool → Option (Option (Int × Int × Bool))
  | 0, _, _, _ => none
  | n + 1, pgno, subno, wrapped =>
    if inRange (c.stat pgno) subno then some (some (pgno, subno, wrapped))
    else if (c.stat pgno).nSub ≠ 0 ∧ dir > 0 ∧ subno < ((c.stat pgno).subMin.toNat : Int) then
      some (some (pgno, ((c.stat pgno).subMin.toNat : Int), wrapped))
    else if (c.stat pgno).nSub ≠ 0 ∧ dir < 0 ∧ subno > ((c.stat pgno).subMax.toNat : Int) then
      some (some (pgno, ((c.stat pgno).subMax.toNat : Int), wrapped))
    else if dir < 0 then
      if pgno - 1 < 0x100 then
        if wrapped then some none
        else skip c dir n 0x8FF (c.stat 0x8FF).subMax.toNat true
      else skip c dir n (pgno - 1) (c.stat (pgno - 1)).subMax.toNat wrapped
    else
      if pgno + 1 > 0x8FF then
        if wrapped then some none
        else skip c dir n 0x100 (c.stat 0x100).subMin.toNat true
      else skip c dir n (pgno + 1) (c.stat (pgno + 1)).subMin.toNat wrapped

/-- fuel that always suffices for `skip` (two sweeps over the 0x800 page numbers) -/
def skipFuel : Nat := 2 * 0x800 + 2

/-- callback: state, page number, page, wrapped -> (return value, state) -/
abbrev Callback (σ : Type) := σ → Nat → Entry → Bool → Int × σ

/-- the `for (;;)` loop -/
def loop {σ : Type} (cb : Callback σ) (dir : Int) :
    Nat → Cache → σ → Int → Int → Bool → Option Entry → WalkOut σ
  | 0, c, s, _, _, _, _ => ⟨.outOfFuel, s, c⟩
  | n + 1, c, s, pgno, subno, wrapped, cp =>
    let (r, s) := match cp with
      | some e => cb s pgno.toNat e wrapped
      | none => (0, s)
    if r ≠ 0 then ⟨.ret r, s, c⟩ else
    match skip c dir skipFuel pgno (subno + dir) wrapped with
    | none => ⟨.outOfFuel, s, c⟩
    | some none => ⟨.ret (-1), s, c⟩
    | some (some (pgno', subno', wrapped')) =>
      let (cp', c') := getExact c pgno' subno'
      loop cb dir n c' s pgno' subno' wrapped' cp'

/-- `if ((cp = get (pgno, subno))) subno = cp->subno; else if (VBI_ANY_SUBNO == subno) subno = 0;` -/
def startSubOf (cp : Option Entry) (subno : Int) : Int :=
  match cp with
  | some e => (e.subno : Int)
  | none => if subno = ANY_SUBNO then 0 else subno

/-- the look-up of the start position: `_vbi_cache_get_page (ca, cn, pgno, subno, -1)`, or (repaired shape)
    `if (pgno >= 0x100 && pgno <= 0x8FF) { cp = page_by_pgno (.., subno, -1); if (cp) cp = cache_page_ref (cp); }` -/
def getStart (sh : Shape) (c : Cache) (pgno subno : Int) : Option Entry × Cache :=
  if sh.startExact then
    (if 0x100 ≤ pgno ∧ pgno ≤ 0x8FF then getExact c pgno subno else (none, c))
  else getPage c pgno subno

/-- sub-page number the walk continues from -/
def startSubS (sh : Shape) (cp : Option Entry) (subno : Int) : Int :=
  if sh.startExact then subno else startSubOf cp subno

def walk {σ : Type} (sh : Shape) (cb : Callback σ) (fuel : Nat) (c : Cache) (s : σ) (pgno subno dir : Int) : WalkOut σ :=
  if c.nCached = 0 then ⟨.ret 0, s, c⟩ else
  let (cp, c1) := getStart sh c pgno subno
  if pgno < 0x100 ∨ pgno > 0x8FF then ⟨.assertFail, s, c1⟩ else
  loop cb dir fuel c1 s pgno (startSubS sh cp subno) false cp

/-- fuel that always suffices for the walk (theorem `walk_terminates`): every iteration of the outer
    loop moves strictly forward in (wrapped, page number, sub-page number) with sub-page numbers < 2^16 -/
def walkFuel : Nat := 2 * 0x800 * 0x10001 + 4

/-! ## search.c -/

structure Flags where
  notBol : Bool := false
  notEol : Bool := false
deriving DecidableEq, Repr

/-- `ure_exec (dfa, flags, text, len, &ms, &me)` for the compiled pattern: `none` = no match -/
abbrev Exec := Flags → List Nat → Option (Nat × Nat)

structure SearchSt where
  startPgno : Int := 0
  startSubno : Int := 0
  stopPgno0 : Int := 0
  stopSubno0 : Int := 0
  stopPgno1 : Int := 0
  stopSubno1 : Int := 0
  row0 : Int := 0
  row1 : Int := 0
  col0 : Int := 0
  col1 : Int := 0
  dir : Int := 0
  /-- `s->pg`: the page formatted last (number, sub-number) and the cells `highlight` painted -/
  pgPgno : Nat := 0
  pgSubno : Nat := 0
  hl : List (Nat × Nat) := []
deriving Repr

/-- `vbi_search_new`: stop positions (the compiled pattern lives in `Exec`). `none`: returns NULL
    for an empty pattern -/
def searchNew (pgno subno : Int) (patLen : Nat) : Option SearchSt :=
  if patLen = 0 then none else
  let stop0 := if subno = ANY_SUBNO then 0 else subno
  let (p1, s1) :=
    if subno ≤ 0 then ((if pgno ≤ 0x100 then 0x8FF else pgno - 1), (0x3F7E : Int))
    else if subno % 128 = 0 then (pgno, subno - 0x100 + 0x7E)   -- (subno - 0x100) | 0x7E, low 7 bits are 0
    else (pgno, subno - 1)
  some { stopPgno0 := pgno, stopSubno0 := stop0, stopPgno1 := p1, stopSubno1 := s1 }

def key (pgno subno : Int) : Int := pgno * 65536 + subno

/-- one iteration of the inner `for (j ...)` loops of search_page_fwd / search_page_rev / highlight:
    column at the top of the body, size of the cell there, character appended to the haystack (if any) -/
structure Iter where
  col : Nat
  size : Nat
  emit : Option Nat
deriving Repr, DecidableEq

def rowIters (t : Text) (row : Nat) : Nat → Nat → List Iter
  | 0, _ => []
  | f + 1, j =>
    if j ≥ 40 then [] else
    let c := cellAt t row j
    if c.size = 1 ∨ c.size = 3 then
      -- "ZZAAPPZILLA" -> "ZAPZILLA": skip left half, take the right half's character
      ⟨j, c.size, some (cellAt t row (j + 1)).unicode⟩ :: rowIters t row f (j + 2)
    else if c.size > 3 then ⟨j, c.size, none⟩ :: rowIters t row f (j + 1)
    else ⟨j, c.size, some c.unicode⟩ :: rowIters t row f (j + 1)

def rowsList : List Nat := (List.range 23).map (· + 1)      -- FIRST_ROW .. LAST_ROW - 1

/-- forward haystack: all rows 1..23; `first` = offset of the cell (row, <= col) -/
def hayFwdRow (row col0 : Int) (i : Nat) : List Iter → List Nat × Nat → List Nat × Nat
  | [], acc => acc
  | it :: rest, (hay, first) =>
    let first := if (i : Int) = row ∧ (it.col : Int) ≤ col0 then hay.length else first
    match it.emit with
    | some u => hayFwdRow row col0 i rest (hay ++ [u], first)
    | none => hayFwdRow row col0 i rest (hay, first)

def hayFwdStep (t : Text) (row col0 : Int) (acc : List Nat × Nat) (i : Nat) : List Nat × Nat :=
  let r := hayFwdRow row col0 i (rowIters t i 40 0) acc
  (r.1 ++ [SEPARATOR], r.2)

def hayFwd (t : Text) (row col0 : Int) : List Nat × Nat :=
  rowsList.foldl (hayFwdStep t row col0) ([], 0)

/-- reverse haystack: rows up to the cell (row, >= col1), exclusive. Result: haystack, flags, stopped -/
def hayRevRow (row col1 : Int) (i : Nat) : List Iter → List Nat × Bool → List Nat × Bool × Bool
  | [], (hay, ne) => (hay, ne, false)
  | it :: rest, (hay, ne) =>
    if (i : Int) = row ∧ (it.col : Int) ≥ col1 then (hay, ne, true) else
    match it.emit with
    | some u => hayRevRow row col1 i rest (hay ++ [u], true)
    | none => hayRevRow row col1 i rest (hay, ne)

def hayRevRows (t : Text) (row col1 : Int) : List Nat → List Nat → List Nat × Bool
  | [], hay => (hay, false)
  | i :: is, hay =>
    let (hay, ne, stopped) := hayRevRow row col1 i (rowIters t i 40 0) (hay, false)
    if stopped then (hay, ne) else hayRevRows t row col1 is (hay ++ [SEPARATOR])

def hayRev (t : Text) (row col1 : Int) : List Nat × Bool :=
  if row < FIRST_ROW then ([], false) else hayRevRows t row col1 rowsList []

/-- `highlight`. `off` = hp - first at the current cell -/
structure HlAcc where
  off : Int
  row0 : Int
  col0 : Int
  row1 : Int
  col1 : Int
  cells : List (Nat × Nat)
  done : Bool

def hlCells (i j size : Nat) : List (Nat × Nat) :=
  if size = 3 then [(i + 1, j), (i + 1, j + 1), (i, j), (i, j + 1)]
  else if size = 1 then [(i, j), (i, j + 1)]
  else if size = 2 then [(i + 1, j), (i, j)]
  else if size = 0 then [(i, j)]
  else []

/-- `if (offset < ms) { row[1], col[1] = the next cell }` -/
def hlMark (ms : Int) (i : Nat) (it : Iter) (a : HlAcc) : HlAcc :=
  if a.off < ms then
    (if it.col = 39 then { a with row1 := (i : Int) + 1, col1 := 0 } else { a with row1 := i, col1 := (it.col : Int) + 1 })
  else a

/-- the `switch (acp->size)`: paint when `offset >= ms` -/
def hlPaint (ms : Int) (i : Nat) (it : Iter) (a : HlAcc) : HlAcc :=
  if a.off ≥ ms then { a with cells := a.cells ++ hlCells i it.col it.size } else a

/-- `hp++` for the sizes that contributed a character -/
def hlAdvance (it : Iter) (a : HlAcc) : HlAcc :=
  if it.size ≤ 3 then { a with off := a.off + 1 } else a

def hlRow (ms me : Int) (i : Nat) : List Iter → HlAcc → HlAcc
  | [], a => a
  | it :: rest, a =>
    if a.done then a else
    if a.off ≥ me then { a with row0 := i, col0 := it.col, done := true } else
    hlRow ms me i rest (hlAdvance it (hlPaint ms i it (hlMark ms i it a)))

def hlStep (t : Text) (ms me : Int) (a : HlAcc) (i : Nat) : HlAcc :=
  if a.done then a else
  let a := hlRow ms me i (rowIters t i 40 0) a
  if a.done then a else { a with off := a.off + 1 }

def highlight (s : SearchSt) (pgno : Nat) (e : Entry) (first : Nat) (ms me : Nat) : SearchSt :=
  let a0 : HlAcc := ⟨-(first : Int), LAST_ROW + 1, 0, s.row1, s.col1, [], false⟩
  let a := rowsList.foldl (hlStep e.text ms me) a0
  { s with startPgno := pgno, startSubno := e.subno, row0 := a.row0, col0 := a.col0,
           row1 := a.row1, col1 := a.col1, pgPgno := pgno, pgSubno := e.subno, hl := a.cells }

/-- the stop test at the head of `search_page_fwd` -/
def stopFwd (s : SearchSt) (pgno : Nat) (e : Entry) (wrapped : Bool) : Bool :=
  let this := key pgno e.subno
  let start := key s.startPgno s.startSubno
  let stop := key s.stopPgno0 s.stopSubno0
  if start ≥ stop then wrapped && decide (this ≥ stop) else decide (this < start) || decide (this ≥ stop)

/-- `row = (_this == start) ? s->row[0] : -1` -/
def cursorRow (s : SearchSt) (pgno : Nat) (e : Entry) : Int :=
  if key pgno e.subno = key s.startPgno s.startSubno then s.row0 else -1

/-- the haystack position `pos` lies inside a row: `pos > 0 && haystack[pos - 1] != SEPARATOR` -/
def insideRow (hay : List Nat) (pos : Nat) : Bool :=
  decide (pos > 0) && (hay.getD (pos - 1) SEPARATOR != SEPARATOR)

/-- flags `search_page_fwd` hands to ure_exec.  As found (C17-D8): the variable `flags` is URE_NOTBOL behind a character
    and 0 behind a row separator while the haystack is built - at the call it describes the END of the haystack, always
    behind a separator: 0.  Repaired: `flags = (first > s->haystack && first[-1] != SEPARATOR) ? URE_NOTBOL : 0` -/
def fwdFlags (sh : Shape) (hay : List Nat) (first : Nat) : Flags :=
  if sh.anchors then { notBol := insideRow hay first } else {}

/-- flags of the repeated ure_exec in `search_page_rev` at offset `pos`.  As found: `(pos > 0) ? (flags | URE_NOTBOL) :
    flags`; repaired: `(pos > 0 && s->haystack[pos - 1] != SEPARATOR) ? (flags | URE_NOTBOL) : flags` -/
def revFlags (sh : Shape) (hay : List Nat) (ne : Bool) (pos : Nat) : Flags :=
  { notBol := if sh.anchors then insideRow hay pos else decide (pos > 0), notEol := ne }

/-- `search_page_fwd` (progress callback NULL, formatting succeeds) -/
def pageFwd (sh : Shape) (exec : Exec) : Callback SearchSt := fun s pgno e wrapped =>
  if stopFwd s pgno e wrapped then (-1, s) else
  if e.func ≠ FUNC_LOP then (0, s) else
  let s1 := { s with pgPgno := pgno, pgSubno := e.subno, hl := [] }
  if cursorRow s pgno e > LAST_ROW then (0, s1) else
  let hf := hayFwd e.text (cursorRow s pgno e) s.col0
  if hf.2 ≥ hf.1.length then (0, s1) else
  match exec (fwdFlags sh hf.1 hf.2) (hf.1.drop hf.2) with
  | none => (0, s1)
  | some (ms, me) => (1, highlight s1 pgno e hf.2 ms me)

/-- the repeated `ure_exec` of search_page_rev: last match in the haystack.  `pos` = where the next exec begins:
    `pos = (me > pos) ? me : pos + 1` (b5116c9: an empty match must not keep the loop at the same place), so the
    loop ends after at most `hay.length` rounds; `none` = out of fuel (never with fuel `hay.length + 2`:
    `revMatches_total`) -/
def revMatches (sh : Shape) (exec : Exec) (hay : List Nat) (ne : Bool) : Nat → Nat → Nat → Nat → Nat → Option (Nat × Nat × Nat)
  | 0, _, _, _, _ => none
  | f + 1, i, ms, me, pos =>
    if pos < hay.length then
      match exec (revFlags sh hay ne pos) (hay.drop pos) with
      | none => some (i, ms, me)
      | some (ms1, me1) =>
        revMatches sh exec hay ne f (i + 1) (pos + ms1) (pos + me1) (if pos + me1 > pos then pos + me1 else pos + 1)
    else some (i, ms, me)

/-- `search_page_rev`; return value 2 stands for "did not return" (fuel of `revMatches` exhausted) -/
def pageRev (sh : Shape) (exec : Exec) : Callback SearchSt := fun s pgno e wrapped =>
  let this := key pgno e.subno
  let start := key s.startPgno s.startSubno
  let stop := key s.stopPgno1 s.stopSubno1
  if (if start ≤ stop then wrapped ∧ this ≤ stop else this > start ∨ this ≤ stop) then (-1, s) else
  if e.func ≠ FUNC_LOP then (0, s) else
  let s := { s with pgPgno := pgno, pgSubno := e.subno, hl := [] }
  let row : Int := if this = start then s.row1 else 100
  let (hay, ne) := hayRev e.text row s.col1
  if hay.length = 0 then (0, s) else
  match revMatches sh exec hay ne (hay.length + 2) 0 0 0 0 with
  | none => (2, s)
  | some (i, ms, me) =>
    if i = 0 then (0, s) else (1, highlight s pgno e 0 ms me)

def SEARCH_SUCCESS : Int := 1
def SEARCH_NOT_FOUND : Int := 0
def SEARCH_CANCELED : Int := -1
def SEARCH_CACHE_EMPTY : Int := -2
def SEARCH_ERROR : Int := -3

structure NextOut where
  res : Res            -- `.ret status`
  st : SearchSt
  cache : Cache

def dirOf (dirArg : Int) : Int := if dirArg > 0 then 1 else -1

/-- the first part of `vbi_search_next`: start of a pass / change of direction -/
def prepare (sh : Shape) (s : SearchSt) (dirArg : Int) : SearchSt :=
  let dir := dirOf dirArg
  if s.dir = 0 then
    let s := { s with dir := dir, row0 := FIRST_ROW, row1 := LAST_ROW + 1, col0 := 0, col1 := 0 }
    if dir > 0 then { s with startPgno := s.stopPgno0, startSubno := s.stopSubno0 }
    else { s with startPgno := s.stopPgno1, startSubno := s.stopSubno1 }
  else if dir ≠ s.dir then
    { s with dir := dir, stopPgno0 := s.startPgno,
             stopSubno0 := if sh.turnKeeps then s.startSubno
                           else (if s.startSubno = ANY_SUBNO then 0 else s.startSubno),
             stopPgno1 := s.startPgno, stopSubno1 := s.startSubno }
  else s

def callbackOf (sh : Shape) (exec : Exec) (dirArg : Int) : Callback SearchSt :=
  if dirArg > 0 then pageFwd sh exec else pageRev sh exec

/-- the `switch` on the return value of `_vbi_cache_foreach_page` -/
def statusOf (r : Int) : Res :=
  if r = 1 then .ret SEARCH_SUCCESS
  else if r = 0 then .ret SEARCH_CACHE_EMPTY
  else if r = -1 then .ret SEARCH_NOT_FOUND
  else if r = -2 then .ret SEARCH_CANCELED
  else if r = 2 then .outOfFuel          -- search_page_rev did not return (model fuel)
  else .ret SEARCH_ERROR

/-- `vbi_search_next` -/
def searchNext (sh : Shape) (exec : Exec) (fuel : Nat) (c : Cache) (s : SearchSt) (dirArg : Int) : NextOut :=
  let s1 := prepare sh s dirArg
  let w := walk sh (callbackOf sh exec dirArg) fuel c s1 s1.startPgno s1.startSubno (dirOf dirArg)
  match w.res with
  | .ret r => ⟨statusOf r, if r = -1 then { w.st with dir := 0 } else w.st, w.cache⟩
  | other => ⟨other, w.st, w.cache⟩

end Zvbi.Search
