import ZvbiModel.Search.LemmasCache
import ZvbiModel.Search.LemmasSearch
import ZvbiModel.Search.Matcher
/-!
# Concrete witnesses (C17): states and call sequences on which the full-strength statements fail.
Closed terms are evaluated by the kernel (`decide +kernel`); facts about whole walks are derived from the
lemmas (`positions_sorted_*`) where a brute-force evaluation would be slow.  Each witness is replayed on
the C code (corpus/C17/D*.ops).
-/
namespace Zvbi.Search
set_option maxRecDepth 100000

def textRow (s : String) : List Cell := s.toList.map (fun ch => ⟨ch.toNat, 0⟩)

/-- rows 1..3, "xx ab yy" in row 3 -/
def abPage : Text := [[], [], textRow "xx ab yy"]

def exAb : Exec := exactLit false [0x61, 0x62]

/-! ## D4: the start page of a backward search is never visited -/

/-- page 102 (sub-page 0) contains "ab"; nothing else is cached -/
def cexD4 : Cache := build [⟨0x102, 0, 0, abPage⟩]

/-- `vbi_search_new (0x102, VBI_ANY_SUBNO, "ab")` -/
def cexD4Search : SearchSt := (searchNew 0x102 ANY_SUBNO 2).getD {}

theorem cexD4_facts :
    (lookup cexD4 0x102 0).isSome ∧
    exAb {} (hayFwd abPage (-1) 0).1 = some (85, 87) ∧
    (cexD4Search.stopPgno1, cexD4Search.stopSubno1) = (0x102, 0x3F7E) ∧
    ((0x102, 0, false) ∉ walkPositions cexD4 0x102 0x3F7E (-1)) ∧
    (searchNext exAb walkFuel cexD4 cexD4Search (-1)).res = .ret SEARCH_NOT_FOUND := by
  refine ⟨by decide +kernel, by decide +kernel, by decide +kernel, ?_, by decide +kernel⟩
  -- the walk leaves page 102 at once: 0x3F7D is outside the window [0, 0]
  have hs : startSub cexD4 0x102 0x3F7E = 0x3F7E := by decide +kernel
  unfold walkPositions
  rw [hs]
  intro hm
  rcases List.mem_cons.mp hm with h | h
  · revert h; decide
  · have hsucc : positions cexD4 (-1) walkFuel 0x102 0x3F7E false =
        (match skip cexD4 (-1) skipFuel 0x102 (0x3F7E + -1) false with
         | some (some (p', s', w')) => (p', s', w') :: positions cexD4 (-1) (walkFuel - 1) p' s' w'
         | _ => []) := by
      show positions cexD4 (-1) ((walkFuel - 1) + 1) 0x102 0x3F7E false = _
      rw [positions_succ]
      rfl
    rw [hsucc] at h
    obtain ⟨r, hr, hspec⟩ := skip_bwd_spec cexD4 skipFuel 0x102 (0x3F7E + -1) false ⟨by decide, by decide⟩
      (skipMeasB_lt ⟨by decide, by decide⟩ false)
    rw [hr] at h
    have hout : inRange (cexD4.stat 0x102) (0x3F7E + -1) = false := by decide +kernel
    cases r with
    | none => simp at h
    | some t =>
      obtain ⟨p', s', w'⟩ := t
      simp only at h
      obtain ⟨hp', hin0, hd⟩ := hspec
      have hsorted := (positions_sorted_bwd cexD4 (walkFuel - 1) p' s' w' hp').1
      rcases hd with ⟨_, hpp, hss⟩ | ⟨_, hw, hlt, _, _⟩ | ⟨_, _, hw', _, _, _⟩
      · subst hpp hss
        rw [hout] at hin0; cases hin0
      · subst hw
        rcases List.mem_cons.mp h with h | h
        · injection h with h1 _; omega
        · have := (hsorted _ h).1
          unfold LtB at this; simp at this; omega
      · subst hw'
        rcases List.mem_cons.mp h with h | h
        · injection h with _ h2; injection h2 with _ h3; cases h3
        · have := (hsorted _ h).1
          unfold LtB at this; simp at this

/-! ## D3: `0 == subno_min` read as "none yet" -/

/-- page 899 stored with sub-code 0 (contains "ab"), then with sub-code 5 -/
def cexD3 : Cache := build [⟨0x899, 0, 0, abPage⟩, ⟨0x899, 5, 0, []⟩]

theorem cexD3_facts :
    ¬ Covered cexD3 ∧ (lookup cexD3 0x899 0).isSome ∧ (cexD3.slots 0x899).stat = ⟨2, 5, 5⟩ ∧
    (∀ pgno subno dir w, PgOk pgno → dir = 1 ∨ dir = -1 → (0x899, 0, w) ∉ (walkPositions cexD3 pgno subno dir).tail) ∧
    (searchNext exAb walkFuel cexD3 ((searchNew 0x8FF ANY_SUBNO 2).getD {}) 1).res = .ret SEARCH_NOT_FOUND := by
  refine ⟨?_, by decide +kernel, by decide +kernel, ?_, by decide +kernel⟩
  · intro h
    have h1 := h 0x899 ⟨0, 0, abPage, 0⟩ (by decide +kernel)
    revert h1; decide +kernel
  · intro pgno subno dir w hp hdir hm
    unfold walkPositions at hm
    simp only [List.tail_cons] at hm
    have hin : inRange (cexD3.stat 0x899) 0 = true := by
      rcases hdir with rfl | rfl
      · exact ((positions_sorted_fwd cexD3 walkFuel pgno _ false hp).1 _ hm).2.2
      · exact ((positions_sorted_bwd cexD3 walkFuel pgno _ false hp).1 _ hm).2.2
    revert hin; decide +kernel

/-! ## D2: `n_subpages` is 8 bits wide -/

/-- 256 times: page 100 with sub-code 1, then with sub-code 0x100 (which replaces the most recently used page of
    that number, whatever its sub-code) -/
def cexD2 : Cache :=
  (List.range 256).foldl (fun c _ => put (put c 0x100 1 0 []) 0x100 0x100 0 []) Cache.empty

theorem cexD2_facts :
    (cexD2.slots 0x100).chain.length = 256 ∧ (cexD2.slots 0x100).stat.nSub = 0 ∧ ¬ Covered cexD2 ∧
    (∀ pgno subno dir t w, PgOk pgno → dir = 1 ∨ dir = -1 → (0x100, t, w) ∉ (walkPositions cexD2 pgno subno dir).tail) := by
  have hn : (cexD2.slots 0x100).stat.nSub = 0 := by decide +kernel
  refine ⟨by decide +kernel, hn, ?_, ?_⟩
  · intro h
    have h1 := h 0x100 ⟨0x100, 0, [], 0⟩ (by decide +kernel)
    exact h1.1 hn
  · intro pgno subno dir t w hp hdir hm
    unfold walkPositions at hm
    simp only [List.tail_cons] at hm
    have hin : inRange (cexD2.stat 0x100) t = true := by
      rcases hdir with rfl | rfl
      · exact ((positions_sorted_fwd cexD2 walkFuel pgno _ false hp).1 _ hm).2.2
      · exact ((positions_sorted_bwd cexD2 walkFuel pgno _ false hp).1 _ hm).2.2
    rw [inRange_iff] at hin
    exact hin.1 hn

/-! ## D5: sub-page number 0x3F7F is the wildcard of the look-up -/

/-- hex page 1A2 with sub-codes 0x3F7E and 0x3F7F -/
def cexD5 : Cache := build [⟨0x1A2, 0x3F7E, 0, []⟩, ⟨0x1A2, 0x3F7F, 0, []⟩]

/-- callback that records what it is given and stops the walk at its second call -/
def logTwo : Callback (List (Nat × Nat × Bool)) := fun log p e w =>
  (if log.length ≥ 1 then 1 else 0, log ++ [(p, e.subno, w)])

def cexD5Visits : List (Nat × Nat × Bool) := (walk logTwo walkFuel cexD5 [] 0x1A2 0x3F7D 1).st

theorem cexD5_facts :
    ¬ NoAny cexD5 ∧ (cexD5.slots 0x1A2).chain.map (·.subno) = [0x3F7F, 0x3F7E] ∧
    cexD5Visits = [(0x1A2, 0x3F7E, false), (0x1A2, 0x3F7E, false)] := by
  refine ⟨?_, by decide +kernel, by decide +kernel⟩
  intro h
  have h1 := h 0x1A2
  revert h1; decide +kernel

end Zvbi.Search
