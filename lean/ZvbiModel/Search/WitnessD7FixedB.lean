import ZvbiModel.Search.WitnessD7Defs
import ZvbiModel.Search.LemmasExact
/-! # D7 witness (a), REPAIRED shape, second half: 11F.0, met in the wrapped sweep, does not stop the pass and contains
the pattern (one kernel evaluation of a page text, ~45 s). -/
namespace Zvbi.Search
set_option maxRecDepth 100000

theorem cexD7_fixed_code2 :
    codeFwd Shape.repaired exAb (prepare Shape.repaired cexD7Turn 1) cexD7x2.1.toNat cexD7e0 cexD7x2.2.2 = 1 := by
  decide +kernel

end Zvbi.Search
