import ZvbiModel.Search.Witnesses
/-! # D4 witness at search level: the backward search created at (102, ANY) finds "ab" on page 102.0 (one kernel
evaluation of `search_page_rev` on a whole page text, ~45 s) -/
namespace Zvbi.Search
set_option maxRecDepth 100000

/-- status, page returned -/
def cexD4Out : Res × Nat × Nat :=
  match searchNext Shape.current exAb walkFuel cexD4 cexD4Search (-1) with
  | o => (o.res, o.st.pgPgno, o.st.pgSubno)

theorem cexD4_search : cexD4Out = (.ret SEARCH_SUCCESS, 0x102, 0) := by decide +kernel

end Zvbi.Search
