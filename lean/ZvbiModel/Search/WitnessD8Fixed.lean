import ZvbiModel.Search.WitnessD8
/-!
# The witness of finding C17-D8 in the repaired source shape (fixes/C17-line-anchors.diff), kernel evaluated

Same page, same search context, same matcher as Search/WitnessD8.lean: with `Shape.anchored` search_page_fwd hands the
matcher URE_NOTBOL (the text begins at column 2 of row 1, behind "ab"), the matcher refuses, the page is not reported again.
-/
namespace Zvbi.Search
set_option maxRecDepth 100000

theorem cexD8_fixed_facts :
    (pageFwd Shape.anchored bolSpy bolCtx 0x100 bolPage false).1 = 0 ∧
    fwdFlags Shape.anchored (hayFwd bolPage.text 1 2).1 (hayFwd bolPage.text 1 2).2 = { notBol := true } := by
  refine ⟨by decide +kernel, by decide +kernel⟩

end Zvbi.Search
