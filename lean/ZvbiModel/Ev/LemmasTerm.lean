import ZvbiModel.Ev.LemmasRun
/-!
# Termination of a delivery for behaviours that stop adding handlers (C11)
-/
namespace Zvbi.Ev

/-- number of linked records at or after id `c` -/
def todoFrom (c : Nat) (l : List Rec) : Nat := (l.filter (fun r => decide (c ≤ r.id))).length

/-- records the loop still has to visit -/
def todo (s : State) : Nat :=
  match s.cursor with
  | none => 0
  | some c => todoFrom c s.handlers

theorem filter_length_mono {p q : Rec → Bool} (h : ∀ r, p r = true → q r = true) (l : List Rec) :
    (l.filter p).length ≤ (l.filter q).length := by
  induction l with
  | nil => simp
  | cons a l ih =>
    simp only [List.filter_cons]
    cases hp : p a <;> cases hq : q a
    · simpa using ih
    · simp only [Bool.false_eq_true, if_false, if_true, List.length_cons]; omega
    · have := h a hp; rw [hq] at this; cases this
    · simp only [if_true, List.length_cons]; omega

theorem todoFrom_le {c c' : Nat} {l l' : List Rec} (hc : c ≤ c') (hl : l'.Sublist l) :
    todoFrom c' l' ≤ todoFrom c l := by
  unfold todoFrom
  have h1 : (l'.filter (fun r => decide (c' ≤ r.id))).length ≤ (l.filter (fun r => decide (c' ≤ r.id))).length :=
    (hl.filter _).length_le
  have h2 := filter_length_mono (p := fun r => decide (c' ≤ r.id)) (q := fun r => decide (c ≤ r.id))
    (by intro r hr; simp only [decide_eq_true_eq] at hr ⊢; omega) l
  omega

theorem todoFrom_map_upd (c0 : Nat) (c : Call) (l : List Rec) :
    todoFrom c0 (l.map c.upd) = todoFrom c0 l := by
  unfold todoFrom
  rw [List.filter_map, List.length_map]
  congr 1
  apply List.filter_congr
  intro r _
  simp [Function.comp, upd_id]

theorem todoFrom_append_one (c0 : Nat) (l : List Rec) (r : Rec) :
    todoFrom c0 (l ++ [r]) ≤ todoFrom c0 l + 1 := by
  unfold todoFrom
  rw [List.filter_append, List.length_append]
  have := List.length_filter_le (fun r => decide (c0 ≤ r.id)) [r]
  simp only [List.length_cons, List.length_nil] at this
  omega

theorem todoFrom_next {c : Nat} {l : List Rec} (hc : c ∈ ids l) :
    (l.filter (fun r => decide (c < r.id))).length + 1 ≤ todoFrom c l := by
  unfold todoFrom
  induction l with
  | nil => simp [ids] at hc
  | cons a l ih =>
    simp only [List.filter_cons]
    by_cases ha : a.id = c
    · have h1 : ¬ (c < a.id) := by omega
      have h2 : c ≤ a.id := by omega
      simp only [h1, h2, decide_false, decide_true, if_true, if_false, List.length_cons, Bool.false_eq_true]
      have := filter_length_mono (p := fun r => decide (c < r.id)) (q := fun r => decide (c ≤ r.id))
        (by intro r hr; simp only [decide_eq_true_eq] at hr ⊢; omega) l
      omega
    · have hc' : c ∈ ids l := by
        simp only [ids, List.map_cons, List.mem_cons] at hc
        rcases hc with h1 | h1
        · exact absurd h1.symm ha
        · exact h1
      have := ih hc'
      by_cases hlt : c < a.id
      · have h2 : c ≤ a.id := by omega
        simp only [hlt, h2, decide_true, if_true, List.length_cons]; omega
      · have h2 : ¬ c ≤ a.id := by omega
        simp only [hlt, h2, decide_false, if_false, Bool.false_eq_true]; exact this

theorem apiCall_todo (c : Call) (s : State) (h : Inv s) : todo (apiCall c s) ≤ todo s + 1 := by
  have hext := apiCall_ext c s h
  rcases apiCall_spec c s with
    ⟨_, _, _, hH, hC, _⟩ | ⟨_, _, _, hH, hC, _⟩ | ⟨_, _, hH, hC, _⟩ | ⟨_, hH, _, _⟩
  · unfold todo; rw [hH, hC]; omega
  · unfold todo; rw [hH, hC]
    cases s.cursor with
    | none => simp
    | some c0 => exact todoFrom_append_one c0 _ _
  · unfold todo; rw [hH, hC]
    cases s.cursor with
    | none => simp
    | some c0 => simp only; rw [todoFrom_map_upd]; omega
  · unfold todo
    cases hc' : (apiCall c s).cursor with
    | none => simp
    | some c' =>
      cases hc0 : s.cursor with
      | none => rw [hext.curNone hc0] at hc'; cases hc'
      | some c0 =>
        simp only
        rw [hH]
        have := todoFrom_le (hext.curMono c0 c' hc0 hc') (List.filter_sublist (l := s.handlers) (p := fun r => !c.hits r))
        omega

theorem runScript_todo (cs : List Call) (s : State) (h : Inv s) :
    todo (runScript s cs) ≤ todo s + cs.length := by
  induction cs generalizing s with
  | nil => simp [runScript]
  | cons c cs ih =>
    have h1 := apiCall_todo c s h
    have h2 := ih (apiCall c s) (apiCall_inv c s h)
    simp only [List.length_cons]
    show todo (runScript (apiCall c s) cs) ≤ _
    omega

/-- invocations made since trace position `base` -/
def ncalls (base : Nat) (s : State) : Nat := (callIds (s.trace.drop base)).length

theorem todo_after_next (eh : Rec) (s : State) (h : Inv s) (hm : eh ∈ s.handlers) :
    todo { s with cursor := nextOf eh.id s.handlers } + 1 ≤ todoFrom eh.id s.handlers := by
  have hn := todoFrom_next (mem_ids.mpr ⟨eh, hm, rfl⟩)
  unfold todo
  cases hc : nextOf eh.id s.handlers with
  | none => simp only; omega
  | some c1 =>
    simp only
    obtain ⟨_, hlt, _⟩ := nextOf_some h.sorted hc
    have := filter_length_mono (p := fun r => decide (c1 ≤ r.id)) (q := fun r => decide (eh.id < r.id))
      (by intro r hr; simp only [decide_eq_true_eq] at hr ⊢; omega) s.handlers
    unfold todoFrom at hn ⊢
    omega

theorem sendLoop_no_fuel (beh : Behav) (ev base K L : Nat) (hb : BoundedBeh beh base K L) :
    ∀ (fuel : Nat) (eh : Option Nat) (s : State), Inv s → (∀ c, eh = some c → c ∈ ids s.handlers) →
    base ≤ s.trace.length →
    (match eh with | none => 0 | some c => todoFrom c s.handlers) + L * (K - ncalls base s) + 1 ≤ fuel →
    sendLoop beh ev fuel eh s ≠ .error .fuel := by
  intro fuel
  induction fuel with
  | zero => intro eh s _ _ _ hf; omega
  | succ fuel ih =>
    intro eh s h hl hbase hf
    cases eh with
    | none => simp [sendLoop]
    | some c =>
      rw [sendLoop_succ]
      obtain ⟨r, hfind⟩ := find_some_of_mem (hl c rfl)
      rw [hfind]
      simp only
      obtain ⟨hrm, hrid⟩ := find_spec hfind
      subst hrid
      obtain ⟨h2, _, _, _, _, d, htr, hd⟩ := deliverTo_facts beh ev r s h hrm
      have hnext := todo_after_next r s h hrm
      apply ih _ _ h2 h2.cursorLive (by rw [htr, List.length_append]; omega)
      have hdrop : (deliverTo beh ev r s).trace.drop base = s.trace.drop base ++ d := by
        rw [htr, List.drop_append_of_le_length hbase]
      -- the measure of the next iteration
      have hmeasure : todo (deliverTo beh ev r s) + L * (K - ncalls base (deliverTo beh ev r s)) + 1
          ≤ todoFrom r.id s.handlers + L * (K - ncalls base s) := by
        rcases hd with ⟨hmask, d', rfl, hd'⟩ | ⟨hmask, rfl⟩
        · have hn2 : ncalls base (deliverTo beh ev r s) = ncalls base s + 1 := by
            unfold ncalls
            rw [hdrop]
            have hd0 : List.filterMap Entry.callId d' = [] := by
              rw [List.filterMap_eq_nil_iff]; exact hd'
            simp [callIds, List.filterMap_append, Entry.callId, hd0]
          rw [hn2, deliverTo_pos beh ev r s hmask]
          have h1' : Inv { s with cursor := nextOf r.id s.handlers,
                                  trace := s.trace ++ [Entry.call r.id r.fn r.user ev] } :=
            inv_append_call (inv_set_cursor h _ (fun c hc => (nextOf_some h.sorted hc).1)) (eh := r) hrm ev
          have hrs := runScript_todo (beh s.trace r.fn r.user ev) _ h1'
          have htodo1 : todo { s with cursor := nextOf r.id s.handlers,
                                      trace := s.trace ++ [Entry.call r.id r.fn r.user ev] }
              = todo { s with cursor := nextOf r.id s.handlers } := rfl
          rw [htodo1] at hrs
          by_cases hk : K ≤ ncalls base s
          · have : beh s.trace r.fn r.user ev = [] := hb.2 s.trace r.fn r.user ev hk
            rw [this] at hrs ⊢
            simp only [List.length_nil, Nat.add_zero] at hrs
            have e1 : K - (ncalls base s + 1) = 0 := by omega
            have e2 : K - ncalls base s = 0 := by omega
            rw [e1, e2]
            simp only [Nat.mul_zero, Nat.add_zero]
            simp only [runScript, List.foldl_nil] at hrs ⊢
            omega
          · have hlen := hb.1 s.trace r.fn r.user ev
            obtain ⟨m, hm⟩ : ∃ m, K - ncalls base s = m + 1 := ⟨K - ncalls base s - 1, by omega⟩
            have e1 : K - (ncalls base s + 1) = m := by omega
            rw [e1, hm, Nat.mul_succ]
            omega
        · have hn2 : ncalls base (deliverTo beh ev r s) = ncalls base s := by
            unfold ncalls
            rw [hdrop]; simp
          rw [hn2, deliverTo_neg beh ev r s hmask]
          omega
      have : (match (deliverTo beh ev r s).cursor with
              | none => 0 | some c => todoFrom c (deliverTo beh ev r s).handlers) = todo (deliverTo beh ev r s) := rfl
      rw [this]
      simp only at hf
      omega

theorem send_no_fuel (beh : Behav) (ev K L : Nat) (s : State) (fuel : Nat) (h : Inv s)
    (hb : BoundedBeh beh s.trace.length K L) (hf : s.handlers.length + K * L + 1 ≤ fuel) :
    send beh fuel ev s ≠ .error .fuel := by
  unfold send
  by_cases hl : s.locked = true
  · simp [hl]
  · have hl' : s.locked = false := by cases hh : s.locked <;> simp_all
    simp only [hl', Bool.false_eq_true, if_false]
    have h0 : Inv { s with locked := true } := inv_congr h rfl rfl rfl rfl rfl
    have hlive : ∀ c, Option.map (fun x => x.id) s.handlers.head? = some c → c ∈ ids s.handlers := by
      intro c hcc
      cases hh : s.handlers.head? with
      | none => rw [hh] at hcc; cases hcc
      | some r =>
        rw [hh] at hcc
        simp only [Option.map_some, Option.some.injEq] at hcc
        exact mem_ids.mpr ⟨r, List.mem_of_mem_head? hh, hcc⟩
    have hnc : ncalls s.trace.length { s with locked := true } = 0 := by
      simp [ncalls, callIds]
    have hloop := sendLoop_no_fuel beh ev s.trace.length K L hb fuel
      (Option.map (fun x => x.id) s.handlers.head?) { s with locked := true } h0 hlive (Nat.le_refl _) (by
        rw [hnc]
        have : (match Option.map (fun x => x.id) s.handlers.head? with
                | none => 0 | some c => todoFrom c s.handlers) ≤ s.handlers.length := by
          cases Option.map (fun x => x.id) s.handlers.head? with
          | none => simp
          | some c => exact List.length_filter_le _ _
        simp only [Nat.sub_zero]
        rw [Nat.mul_comm L K]
        omega)
    cases hres : sendLoop beh ev fuel (Option.map (fun x => x.id) s.handlers.head?) { s with locked := true } with
    | ok s1 => simp
    | error e =>
      simp only [ne_eq, Except.error.injEq]
      intro he; subst he
      exact hloop hres

end Zvbi.Ev
