import ZvbiModel.Ev.LemmasLoop
/-!
# vbi_send_event: the loop invariant and what a terminated delivery looks like (C11)
-/
namespace Zvbi.Ev

theorem find_spec {l : List Rec} {c : Nat} {eh : Rec}
    (h : l.find? (fun r => r.id == c) = some eh) : eh ∈ l ∧ eh.id = c := by
  refine ⟨List.mem_of_find?_eq_some h, ?_⟩
  have := List.find?_some h
  simpa using this

theorem find_some_of_mem {l : List Rec} {c : Nat} (hc : c ∈ ids l) :
    ∃ eh, l.find? (fun r => r.id == c) = some eh := by
  cases hf : l.find? (fun r => r.id == c) with
  | some eh => exact ⟨eh, rfl⟩
  | none =>
    rw [List.find?_eq_none] at hf
    obtain ⟨r, hr, hid⟩ := mem_ids.mp hc
    exact absurd (by simp [hid]) (hf r hr)

theorem inv_set_cursor {s : State} (h : Inv s) (cur : Option Nat)
    (hc : ∀ c, cur = some c → c ∈ ids s.handlers) : Inv { s with cursor := cur } :=
  ⟨h.sorted, h.bound, hc, h.maskUnion, h.freedDead, h.ncaf, h.allocd, h.allocBound, h.allocUniq,
   h.calledAllocd⟩

theorem inv_append_call {s : State} (h : Inv s) {eh : Rec} (hm : eh ∈ s.handlers) (ev : Nat) :
    Inv { s with trace := s.trace ++ [Entry.call eh.id eh.fn eh.user ev] } := by
  refine ⟨h.sorted, h.bound, h.cursorLive, h.maskUnion, ?_, ?_, ?_, ?_, ?_, ?_⟩
  · intro x hx
    simp only [List.mem_append, List.mem_singleton, reduceCtorEq, or_false] at hx
    exact h.freedDead x hx
  · apply ncaf_append_call h.ncaf
    intro hf
    exact (h.freedDead eh.id hf).1 (mem_ids.mpr ⟨eh, hm, rfl⟩)
  · intro r hr
    obtain ⟨m, hmm⟩ := h.allocd r hr
    exact ⟨m, by simp [hmm]⟩
  · intro id f u m hmm
    simp only [List.mem_append, List.mem_singleton, reduceCtorEq, or_false] at hmm
    exact h.allocBound id f u m hmm
  · intro id f u m f' u' m' h1 h2
    simp only [List.mem_append, List.mem_singleton, reduceCtorEq, or_false] at h1 h2
    exact h.allocUniq id f u m f' u' m' h1 h2
  · intro id f u e h1
    simp only [List.mem_append, List.mem_singleton, Entry.call.injEq] at h1
    rcases h1 with h1 | ⟨rfl, rfl, rfl, rfl⟩
    · obtain ⟨m, hmm⟩ := h.calledAllocd id f u e h1
      exact ⟨m, by simp [hmm]⟩
    · obtain ⟨m, hmm⟩ := h.allocd eh hm
      exact ⟨m, by simp [hmm]⟩

theorem deliverTo_pos (beh : Behav) (ev : Nat) (eh : Rec) (s : State) (h : eh.mask &&& ev ≠ 0) :
    deliverTo beh ev eh s =
      runScript { s with cursor := nextOf eh.id s.handlers,
                         trace := s.trace ++ [Entry.call eh.id eh.fn eh.user ev] }
        (beh s.trace eh.fn eh.user ev) := by
  unfold deliverTo
  simp only [h, ne_eq, not_false_eq_true, if_true]

theorem deliverTo_neg (beh : Behav) (ev : Nat) (eh : Rec) (s : State) (h : eh.mask &&& ev = 0) :
    deliverTo beh ev eh s = { s with cursor := nextOf eh.id s.handlers } := by
  unfold deliverTo
  simp only [h, ne_eq, not_true_eq_false, if_false]

theorem sendLoop_none (beh : Behav) (ev fuel : Nat) (s : State) :
    sendLoop beh ev fuel none s = .ok s := by
  cases fuel <;> rfl

/-- what one loop iteration does -/
theorem deliverTo_facts (beh : Behav) (ev : Nat) (eh : Rec) (s : State) (h : Inv s)
    (hm : eh ∈ s.handlers) :
    Inv (deliverTo beh ev eh s) ∧ (s.locked = true → (deliverTo beh ev eh s).locked = true) ∧
    s.nextId ≤ (deliverTo beh ev eh s).nextId ∧ (deliverTo beh ev eh s).cached = s.cached ∧
    (∀ c2, (deliverTo beh ev eh s).cursor = some c2 → eh.id < c2) ∧
    ∃ d, (deliverTo beh ev eh s).trace = s.trace ++ d ∧
      ((eh.mask &&& ev ≠ 0 ∧ ∃ d', d = Entry.call eh.id eh.fn eh.user ev :: d' ∧ ∀ e ∈ d', e.callId = none)
       ∨ (eh.mask &&& ev = 0 ∧ d = [])) := by
  have hnx : ∀ c, nextOf eh.id s.handlers = some c → c ∈ ids s.handlers ∧ eh.id < c := by
    intro c hc
    obtain ⟨h1, h2, _⟩ := nextOf_some h.sorted hc
    exact ⟨h1, h2⟩
  have h1 : Inv { s with cursor := nextOf eh.id s.handlers } :=
    inv_set_cursor h _ (fun c hc => (hnx c hc).1)
  by_cases hmask : eh.mask &&& ev ≠ 0
  · rw [deliverTo_pos beh ev eh s hmask]
    have h1' := inv_append_call h1 (eh := eh) hm ev
    obtain ⟨h2, e2⟩ := runScript_inv_ext (beh s.trace eh.fn eh.user ev) _ h1'
    obtain ⟨d', ht, hd'⟩ := e2.trace
    refine ⟨h2, e2.locked, e2.nextId, e2.cached, ?_, ?_⟩
    · intro c2 hc2
      cases hn : nextOf eh.id s.handlers with
      | none => rw [e2.curNone hn] at hc2; cases hc2
      | some c1 => have := e2.curMono c1 c2 hn hc2; have := (hnx c1 hn).2; omega
    · refine ⟨Entry.call eh.id eh.fn eh.user ev :: d', ?_, Or.inl ⟨hmask, d', rfl, hd'⟩⟩
      rw [ht]; simp
  · have hmask' : eh.mask &&& ev = 0 := by
      cases hh : eh.mask &&& ev with
      | zero => rfl
      | succ n => exact absurd (by rw [hh]; exact Nat.succ_ne_zero n) hmask
    rw [deliverTo_neg beh ev eh s hmask']
    exact ⟨h1, id, Nat.le_refl _, rfl, fun c2 hc2 => (hnx c2 hc2).2, [], by simp, Or.inr ⟨hmask', rfl⟩⟩

/-- a handler ahead of the current one stays pending unless the current callback disables it -/
theorem deliverTo_pending (beh : Behav) (ev : Nat) (r0 eh : Rec) (s : State) (h : Inv s)
    (hm : eh ∈ s.handlers) (hlt : eh.id < r0.id)
    (hr : ∃ r ∈ s.handlers, r.id = r0.id ∧ r.fn = r0.fn ∧ r.user = r0.user ∧ r.mask &&& ev ≠ 0)
    (hnd : eh.mask &&& ev ≠ 0 → ∀ k ∈ beh s.trace eh.fn eh.user ev, ¬ disables ev r0 k) :
    Pending ev r0 (deliverTo beh ev eh s) := by
  obtain ⟨r, hrm, hid, hrest⟩ := hr
  have hnx : ∃ c1, nextOf eh.id s.handlers = some c1 ∧ c1 ≤ r0.id := by
    cases hn : nextOf eh.id s.handlers with
    | none =>
      have := nextOf_none h.sorted (mem_ids.mpr ⟨eh, hm, rfl⟩) hn r hrm
      omega
    | some c1 =>
      obtain ⟨_, _, h3⟩ := nextOf_some h.sorted hn
      exact ⟨c1, rfl, by have := h3 r hrm (by omega); omega⟩
  obtain ⟨c1, hc1, hle1⟩ := hnx
  have h1 : Inv { s with cursor := nextOf eh.id s.handlers } :=
    inv_set_cursor h _ (fun c hc => (nextOf_some h.sorted hc).1)
  by_cases hmask : eh.mask &&& ev ≠ 0
  · rw [deliverTo_pos beh ev eh s hmask]
    apply runScript_pending ev r0 _ _ (inv_append_call h1 (eh := eh) hm ev) _ (hnd hmask)
    exact ⟨⟨r, hrm, hid, hrest⟩, c1, hc1, hle1⟩
  · have hmask' : eh.mask &&& ev = 0 := by
      cases hh : eh.mask &&& ev with
      | zero => rfl
      | succ n => exact absurd (by rw [hh]; exact Nat.succ_ne_zero n) hmask
    rw [deliverTo_neg beh ev eh s hmask']
    exact ⟨⟨r, hrm, hid, hrest⟩, c1, hc1, hle1⟩

theorem sendLoop_succ (beh : Behav) (ev fuel c : Nat) (s : State) :
    sendLoop beh ev (fuel + 1) (some c) s =
      match s.handlers.find? (fun r => r.id == c) with
      | none => .error (.deadDeref c)
      | some eh => sendLoop beh ev fuel (deliverTo beh ev eh s).cursor (deliverTo beh ev eh s) := by
  rfl

/-- The loop never dereferences a freed record and never self-deadlocks. -/
theorem sendLoop_safe (beh : Behav) (ev : Nat) : ∀ (fuel : Nat) (eh : Option Nat) (s : State),
    Inv s → (∀ c, eh = some c → c ∈ ids s.handlers) →
    ∀ e, sendLoop beh ev fuel eh s = .error e → e = .fuel := by
  intro fuel
  induction fuel with
  | zero =>
    intro eh s _ _ e he
    cases eh with
    | none => simp [sendLoop] at he
    | some c => simp [sendLoop] at he; exact he.symm
  | succ fuel ih =>
    intro eh s h hl e he
    cases eh with
    | none => simp [sendLoop] at he
    | some c =>
      rw [sendLoop_succ] at he
      obtain ⟨r, hf⟩ := find_some_of_mem (hl c rfl)
      rw [hf] at he
      simp only at he
      obtain ⟨hrm, _⟩ := find_spec hf
      obtain ⟨h2, _⟩ := deliverTo_facts beh ev r s h hrm
      exact ih _ _ h2 h2.cursorLive e he

/-- A terminated loop: invariant kept, cursor NULL again, and the invocations it made are in
strictly increasing id order, all at or after the record it started from. -/
theorem sendLoop_main (beh : Behav) (ev : Nat) : ∀ (fuel : Nat) (eh : Option Nat) (s s' : State),
    Inv s → (∀ c, eh = some c → c ∈ ids s.handlers) → (eh = none → s.cursor = none) →
    sendLoop beh ev fuel eh s = .ok s' →
    Inv s' ∧ s'.cursor = none ∧ (s.locked = true → s'.locked = true) ∧ s.nextId ≤ s'.nextId ∧
    s'.cached = s.cached ∧
    ∃ X, s'.trace = s.trace ++ X ∧ (callIds X).Pairwise (· < ·) ∧
      (∀ c, eh = some c → ∀ x ∈ callIds X, c ≤ x) ∧ (eh = none → X = []) ∧
      (∀ id f u e, Entry.call id f u e ∈ X → e = ev) := by
  intro fuel
  induction fuel with
  | zero =>
    intro eh s s' h _ hn hs
    cases eh with
    | none =>
      simp only [sendLoop, Except.ok.injEq] at hs
      subst hs
      exact ⟨h, hn rfl, id, Nat.le_refl _, rfl, [], by simp, by simp [callIds], by simp [callIds],
        fun _ => rfl, by simp⟩
    | some c => simp [sendLoop] at hs
  | succ fuel ih =>
    intro eh s s' h hl hn hs
    cases eh with
    | none =>
      simp only [sendLoop, Except.ok.injEq] at hs
      subst hs
      exact ⟨h, hn rfl, id, Nat.le_refl _, rfl, [], by simp, by simp [callIds], by simp [callIds],
        fun _ => rfl, by simp⟩
    | some c =>
      rw [sendLoop_succ] at hs
      obtain ⟨r, hf⟩ := find_some_of_mem (hl c rfl)
      rw [hf] at hs
      simp only at hs
      obtain ⟨hrm, hrid⟩ := find_spec hf
      obtain ⟨h2, hlk, hnid, hca, hcur, d, htr, hd⟩ := deliverTo_facts beh ev r s h hrm
      obtain ⟨h3, hc3, hlk3, hnid3, hca3, X, htr3, hpw, hlo, hnil, hev⟩ :=
        ih _ _ s' h2 h2.cursorLive (fun hnone => hnone) hs
      refine ⟨h3, hc3, fun hl => hlk3 (hlk hl), Nat.le_trans hnid hnid3, by rw [hca3, hca],
        d ++ X, by rw [htr3, htr, List.append_assoc], ?_, ?_, (fun hh => by cases hh), ?_⟩
      · -- ordering
        have hXlo : ∀ x ∈ callIds X, c < x := by
          intro x hx
          cases hcc : (deliverTo beh ev r s).cursor with
          | none =>
            -- the loop ended at once: X has no calls
            rw [hnil hcc] at hx; simp [callIds] at hx
          | some c2 =>
            have := hlo c2 hcc x hx
            have := hcur c2 hcc
            omega
        simp only [callIds, List.filterMap_append] at hXlo hpw ⊢
        rcases hd with ⟨_, d', rfl, hd'⟩ | ⟨_, rfl⟩
        · have hd0 : List.filterMap Entry.callId d' = [] := by
            rw [List.filterMap_eq_nil_iff]; exact hd'
          simp only [List.filterMap_cons, Entry.callId, hd0, List.append_nil, List.cons_append,
            List.nil_append]
          rw [List.pairwise_cons]
          exact ⟨fun x hx => by have := hXlo x hx; omega, hpw⟩
        · simpa using hpw
      · intro c' hc' x hx
        cases hc'
        simp only [callIds, List.filterMap_append, List.mem_append] at hx
        rcases hx with hx | hx
        · rcases hd with ⟨_, d', rfl, hd'⟩ | ⟨_, rfl⟩
          · have hd0 : List.filterMap Entry.callId d' = [] := by
              rw [List.filterMap_eq_nil_iff]; exact hd'
            simp only [List.filterMap_cons, Entry.callId, hd0, List.mem_singleton] at hx
            omega
          · simp at hx
        · cases hcc : (deliverTo beh ev r s).cursor with
          | none => rw [hnil hcc] at hx; simp at hx
          | some c2 =>
            have := hlo c2 hcc x (by simpa [callIds] using hx)
            have := hcur c2 hcc
            omega
      · intro id f u e he
        rcases List.mem_append.mp he with he | he
        · rcases hd with ⟨_, d', rfl, hd'⟩ | ⟨_, rfl⟩
          · rcases List.mem_cons.mp he with he | he
            · cases he; rfl
            · have := hd' _ he; simp [Entry.callId] at this
          · cases he
        · exact hev id f u e he

end Zvbi.Ev

namespace Zvbi.Ev

/-- Completeness of a delivery: a handler that is linked, wants the event, lies at or after the
cursor and is not disabled by any callback running before its turn, is invoked. -/
theorem sendLoop_complete (beh : Behav) (ev : Nat) (r0 : Rec) :
    ∀ (fuel c : Nat) (s s' : State), Inv s → c ∈ ids s.handlers → c ≤ r0.id →
    (∃ r ∈ s.handlers, r.id = r0.id ∧ r.fn = r0.fn ∧ r.user = r0.user ∧ r.mask &&& ev ≠ 0) →
    sendLoop beh ev fuel (some c) s = .ok s' →
    UndisturbedBefore beh ev r0 s.trace.length s'.trace →
    ∃ X, s'.trace = s.trace ++ X ∧ r0.id ∈ callIds X := by
  intro fuel
  induction fuel with
  | zero => intro c s s' _ _ _ _ hs; simp [sendLoop] at hs
  | succ fuel ih =>
    intro c s s' h hc hle hr hs hU
    rw [sendLoop_succ] at hs
    obtain ⟨eh, hf⟩ := find_some_of_mem hc
    rw [hf] at hs
    simp only at hs
    obtain ⟨hem, heid⟩ := find_spec hf
    obtain ⟨h2, _, _, _, _, d, htr, hd⟩ := deliverTo_facts beh ev eh s h hem
    obtain ⟨_, _, _, _, _, X2, htr2, _⟩ :=
      sendLoop_main beh ev fuel _ _ s' h2 h2.cursorLive (fun hn => hn) hs
    obtain ⟨r, hrm, hrid, hrfn, hruser, hrmask⟩ := hr
    by_cases heq : c = r0.id
    · -- its turn
      have : eh = r := sorted_inj h.sorted hem hrm (by omega)
      subst this
      rcases hd with ⟨_, d', rfl, _⟩ | ⟨hz, _⟩
      · refine ⟨Entry.call eh.id eh.fn eh.user ev :: d' ++ X2, by rw [htr2, htr, List.append_assoc], ?_⟩
        simp [callIds, Entry.callId, hrid]
      · exact absurd hz hrmask
    · have hlt : eh.id < r0.id := by omega
      have hnd : eh.mask &&& ev ≠ 0 → ∀ k ∈ beh s.trace eh.fn eh.user ev, ¬ disables ev r0 k := by
        intro hmask
        rcases hd with ⟨_, d', rfl, _⟩ | ⟨hz, _⟩
        · apply hU s.trace (d' ++ X2) eh.id eh.fn eh.user
          · rw [htr2, htr]; simp
          · exact Nat.le_refl _
          · exact hlt
        · exact absurd hz hmask
      obtain ⟨⟨r', hr'm, hr'⟩, c2, hc2, hle2⟩ :=
        deliverTo_pending beh ev r0 eh s h hem hlt ⟨r, hrm, hrid, hrfn, hruser, hrmask⟩ hnd
      rw [hc2] at hs
      have hU2 : UndisturbedBefore beh ev r0 (deliverTo beh ev eh s).trace.length s'.trace := by
        intro t1 t2 id fn user hfull hbase hid
        apply hU t1 t2 id fn user hfull _ hid
        rw [htr] at hbase
        simp only [List.length_append] at hbase
        omega
      obtain ⟨X, hX, hin⟩ :=
        ih c2 _ s' h2 (h2.cursorLive c2 hc2) hle2 ⟨r', hr'm, hr'⟩ hs hU2
      refine ⟨d ++ X, by rw [hX, htr, List.append_assoc], ?_⟩
      simp only [callIds, List.filterMap_append, List.mem_append] at hin ⊢
      exact Or.inr hin

end Zvbi.Ev
