import ZvbiModel.Generated.EvConsts
import ZvbiModel.Generated.EvEnable
/-!
# Model of the side effects of `vbi_event_enable` (src/vbi.c 143-172, property C11)

`vbi_event_enable (vbi, mask)` is called at the end of every registration call with the union of the
handler masks.  Besides storing the union it resets the state of the data services whose events are
requested *now* and were not requested before.  The statements of the function are regenerated from the
source (`translate/gen_evenable.py` -> `Generated/EvEnable.lean`, one `Stmt` per C statement); this file
gives them a meaning over the decoder state the function can touch.

The decoder state is cut into *locations*: one per object a statement writes (the Teletext state
`vbi_teletext_channel_switched` resets, the caption state `vbi_caption_channel_switched` resets,
`vbi->network`, `cni_cycle`, `cni_announced`, the trigger list, `prog_info[0]`, `prog_info[1]` (what
`vbi_reset_prog_info` writes - not `future`), the two `future` flags, `aspect_source`, `vps_pid`) plus
`rest` = every other byte of `struct vbi_decoder`.  A location holds an abstract value; `0` is "in its
reset state" (`1` = TRUE for a `future` flag).  The bodies of the called reset functions are not modelled;
the harness observes each location through planted sentinels (value 7 = untouched).
-/
namespace Zvbi.Ev.Enable
open Zvbi.Gen.EvEnable

inductive Loc
  | ttx | caption | network | cniCycle | cniAnnounced | triggers
  | progInfo0 | progInfo1 | future0 | future1 | aspectSource | vpsPid | rest
deriving Repr, DecidableEq

def Loc.all : List Loc :=
  [.ttx, .caption, .network, .cniCycle, .cniAnnounced, .triggers,
   .progInfo0, .progInfo1, .future0, .future1, .aspectSource, .vpsPid, .rest]

/-- the part of `struct vbi_decoder` vbi_event_enable is allowed to look at -/
abbrev Dec := Loc → Nat

def put (d : Dec) (l : Loc) (v : Nat) : Dec := fun l' => if l' = l then v else d l'

/-- one C statement -/
def exec1 (d : Dec) : Stmt → Dec
  | .ttxSwitched => put d .ttx 0
  | .ccSwitched => put d .caption 0
  | .clearNetwork => put d .network 0
  | .clearCniCycle => put d .cniCycle 0
  | .clearCniAnnounced => put d .cniAnnounced 0
  | .triggerFlush => put d .triggers 0
  | .resetProgInfo i => if i = 0 then put d .progInfo0 0 else put d .progInfo1 0
  | .setFuture i v => if i = 0 then put d .future0 (if v then 1 else 0) else put d .future1 (if v then 1 else 0)
  | .setAspectSource v => put d .aspectSource v
  | .clearVpsPid => put d .vpsPid 0

def M32 : Nat := 4294967295

/-- `if (activate & act) [if (!(vbi->event_mask & guard))] { body }` -/
def runBranch (old activate : Nat) (d : Dec) (b : Branch) : Dec :=
  if activate &&& b.act ≠ 0 ∧ old &&& b.guard = 0 then b.body.foldl exec1 d else d

/-- `vbi_event_enable (vbi, new)` with `vbi->event_mask = old`: the decoder state afterwards and the
new `vbi->event_mask` -/
def enable (d : Dec) (old new : Nat) : Dec × Nat :=
  let activate := new &&& (M32 ^^^ old)            -- mask & ~vbi->event_mask
  (program.foldl (runBranch old activate) d, new)

/-- the state the harness plants before the call: every location holds the sentinel 7 -/
def planted : Dec := fun _ => 7

end Zvbi.Ev.Enable
