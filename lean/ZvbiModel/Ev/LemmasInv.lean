import ZvbiModel.Ev.LemmasCall
/-!
# `Inv` is preserved by every API call, wherever it is issued (C11)
-/
namespace Zvbi.Ev

theorem walk_cursor_live (hit : Rec → Bool) (l : List Rec) (cur : Option Nat)
    (hs : (ids l).Pairwise (· < ·)) (hcur : ∀ c, cur = some c → c ∈ ids l) :
    ∀ c', (walk hit 0 l cur).cursor = some c' → c' ∈ ids (l.filter (fun r => !hit r)) := by
  intro c' h
  cases cur with
  | none => rw [walk_cursor_none] at h; cases h
  | some c =>
    rw [walk_cursor_zero hit l c hs (hcur c rfl)] at h
    cases hh : (l.filter (fun r => decide (c ≤ r.id) && !hit r)).head? with
    | none => rw [hh] at h; cases h
    | some r =>
      rw [hh] at h
      simp only [Option.map_some, Option.some.injEq] at h
      have hm : r ∈ l.filter (fun r => decide (c ≤ r.id) && !hit r) := List.mem_of_mem_head? hh
      rw [List.mem_filter] at hm
      simp only [Bool.and_eq_true, decide_eq_true_eq] at hm
      rw [mem_ids]
      exact ⟨r, List.mem_filter.mpr ⟨hm.1, hm.2.2⟩, h⟩

theorem apiCall_inv (c : Call) (s : State) (h : Inv s) : Inv (apiCall c s) := by
  rcases apiCall_spec c s with
    ⟨_, _, _, hH, hC, hM, hN, _, hT, _⟩ | ⟨hno, hz, _, hH, hC, hM, hN, _, ⟨m, f, hT⟩, _⟩ |
    ⟨hz, hf, hH, hC, hM, hN, _, ⟨m, f, hT⟩, _⟩ | ⟨hz, hH, hC, hM, hN, _, ⟨m, f, hT⟩, _⟩
  · -- A: nothing but the lock and an `oom` entry
    refine ⟨?_, ?_, ?_, ?_, ?_, ?_, ?_, ?_, ?_, ?_⟩
    · rw [hH]; exact h.sorted
    · rw [hH, hN]; exact h.bound
    · rw [hH, hC]; exact h.cursorLive
    · rw [hH, hM]; exact h.maskUnion
    · intro x hx
      rw [hT] at hx; rw [hH, hN]
      simp only [List.mem_append, List.mem_singleton, reduceCtorEq, or_false] at hx
      exact h.freedDead x hx
    · rw [hT]; exact ncaf_append_nocall h.ncaf (by intro e he; simp at he; subst he; rfl)
    · intro r hr; rw [hH] at hr; rw [hT]
      obtain ⟨m, hm⟩ := h.allocd r hr
      exact ⟨m, by simp [hm]⟩
    · intro id f u m hm; rw [hT] at hm; rw [hN]
      simp only [List.mem_append, List.mem_singleton, reduceCtorEq, or_false] at hm
      exact h.allocBound id f u m hm
    · intro id f u m f' u' m' h1 h2; rw [hT] at h1 h2
      simp only [List.mem_append, List.mem_singleton, reduceCtorEq, or_false] at h1 h2
      exact h.allocUniq id f u m f' u' m' h1 h2
    · intro id f u e h1; rw [hT] at h1 ⊢
      simp only [List.mem_append, List.mem_singleton, reduceCtorEq, or_false] at h1
      obtain ⟨m, hm⟩ := h.calledAllocd id f u e h1
      exact ⟨m, by simp [hm]⟩
  · -- B: append a fresh record
    refine ⟨?_, ?_, ?_, ?_, ?_, ?_, ?_, ?_, ?_, ?_⟩
    · rw [hH]
      simp only [ids, List.map_append, List.map_cons, List.map_nil]
      rw [List.pairwise_append]
      refine ⟨h.sorted, List.pairwise_singleton _ _, ?_⟩
      intro a ha b hb
      simp only [List.mem_singleton] at hb
      subst hb
      obtain ⟨r, hr, rfl⟩ := mem_ids.mp ha
      exact h.bound r hr
    · rw [hH, hN]
      intro r hr
      rcases List.mem_append.mp hr with hr | hr
      · exact Nat.lt_succ_of_lt (h.bound r hr)
      · simp only [List.mem_singleton] at hr; subst hr; exact Nat.lt_succ_self _
    · rw [hH, hC]
      intro c' hc'
      have := h.cursorLive c' hc'
      simp only [ids, List.map_append, List.mem_append] at this ⊢
      exact Or.inl this
    · rw [hH, hM, orMasks_append]
    · intro x hx
      rw [hT] at hx; rw [hH, hN]
      simp only [List.mem_append, List.mem_cons, reduceCtorEq, List.not_mem_nil, or_false] at hx
      obtain ⟨h1, h2⟩ := h.freedDead x hx
      refine ⟨?_, Nat.lt_succ_of_lt h2⟩
      simp only [ids, List.map_append, List.map_cons, List.map_nil, List.mem_append, List.mem_singleton]
      intro h3
      rcases h3 with h3 | h3
      · exact h1 h3
      · omega
    · rw [hT]; exact ncaf_append_nocall h.ncaf (by
        intro e he
        simp only [List.mem_cons, List.not_mem_nil, or_false] at he
        rcases he with rfl | rfl <;> rfl)
    · intro r hr; rw [hH] at hr; rw [hT]
      rcases List.mem_append.mp hr with hr | hr
      · obtain ⟨m, hm⟩ := h.allocd r hr
        exact ⟨m, by simp [hm]⟩
      · simp only [List.mem_singleton] at hr; subst hr
        exact ⟨c.mask, by simp⟩
    · intro id f' u m' hm; rw [hT] at hm; rw [hN]
      simp only [List.mem_append, List.mem_cons, Entry.alloc.injEq, reduceCtorEq, List.not_mem_nil,
        or_false] at hm
      rcases hm with hm | hm
      · exact Nat.lt_succ_of_lt (h.allocBound id f' u m' hm)
      · omega
    · intro id f1 u1 m1 f2 u2 m2 h1 h2; rw [hT] at h1 h2
      simp only [List.mem_append, List.mem_cons, Entry.alloc.injEq, reduceCtorEq, List.not_mem_nil,
        or_false] at h1 h2
      rcases h1 with h1 | h1 <;> rcases h2 with h2 | h2
      · exact h.allocUniq id f1 u1 m1 f2 u2 m2 h1 h2
      · have := h.allocBound id f1 u1 m1 h1; omega
      · have := h.allocBound id f2 u2 m2 h2; omega
      · exact ⟨h1.2.1.trans h2.2.1.symm, h1.2.2.1.trans h2.2.2.1.symm⟩
    · intro id f' u e h1; rw [hT] at h1 ⊢
      simp only [List.mem_append, List.mem_cons, reduceCtorEq, List.not_mem_nil, or_false] at h1
      obtain ⟨m, hm⟩ := h.calledAllocd id f' u e h1
      exact ⟨m, by simp [hm]⟩
  · -- C: masks change in place
    refine ⟨?_, ?_, ?_, ?_, ?_, ?_, ?_, ?_, ?_, ?_⟩
    · rw [hH, ids_map_upd]; exact h.sorted
    · rw [hH, hN]
      intro r hr
      obtain ⟨r0, hr0, rfl⟩ := List.mem_map.mp hr
      rw [upd_id]; exact h.bound r0 hr0
    · rw [hH, hC, ids_map_upd]; exact h.cursorLive
    · rw [hH, hM]
    · intro x hx
      rw [hT] at hx; rw [hH, hN, ids_map_upd]
      simp only [List.mem_append, List.mem_singleton, reduceCtorEq, or_false] at hx
      exact h.freedDead x hx
    · rw [hT]; exact ncaf_append_nocall h.ncaf (by intro e he; simp at he; subst he; rfl)
    · intro r hr; rw [hH] at hr; rw [hT]
      obtain ⟨r0, hr0, rfl⟩ := List.mem_map.mp hr
      rw [upd_id, upd_fn, upd_user]
      obtain ⟨m, hm⟩ := h.allocd r0 hr0
      exact ⟨m, by simp [hm]⟩
    · intro id f' u m' hm; rw [hT] at hm; rw [hN]
      simp only [List.mem_append, List.mem_singleton, reduceCtorEq, or_false] at hm
      exact h.allocBound id f' u m' hm
    · intro id f1 u1 m1 f2 u2 m2 h1 h2; rw [hT] at h1 h2
      simp only [List.mem_append, List.mem_singleton, reduceCtorEq, or_false] at h1 h2
      exact h.allocUniq id f1 u1 m1 f2 u2 m2 h1 h2
    · intro id f' u e h1; rw [hT] at h1 ⊢
      simp only [List.mem_append, List.mem_singleton, reduceCtorEq, or_false] at h1
      obtain ⟨m, hm⟩ := h.calledAllocd id f' u e h1
      exact ⟨m, by simp [hm]⟩
  · -- D: removal with cursor fix-up
    have hsub : (ids (s.handlers.filter (fun r => !c.hits r))).Sublist (ids s.handlers) :=
      List.Sublist.map _ List.filter_sublist
    refine ⟨?_, ?_, ?_, ?_, ?_, ?_, ?_, ?_, ?_, ?_⟩
    · rw [hH]; exact List.Pairwise.sublist hsub h.sorted
    · rw [hH, hN]
      intro r hr
      exact h.bound r (List.mem_filter.mp hr).1
    · rw [hH, hC]
      exact walk_cursor_live c.hits s.handlers s.cursor h.sorted h.cursorLive
    · rw [hH, hM]
    · intro x hx
      rw [hT] at hx; rw [hH, hN]
      simp only [List.mem_append, List.mem_map, List.mem_filter, Entry.free.injEq, List.mem_singleton,
        reduceCtorEq, or_false] at hx
      rcases hx with hx | ⟨r, ⟨hr, hhit⟩, rfl⟩
      · obtain ⟨h1, h2⟩ := h.freedDead x hx
        exact ⟨fun h3 => h1 (hsub.subset h3), h2⟩
      · refine ⟨?_, h.bound r hr⟩
        intro h3
        obtain ⟨r', hr', hid⟩ := mem_ids.mp h3
        rw [List.mem_filter] at hr'
        have := sorted_inj h.sorted hr'.1 hr hid
        subst this
        simp [hhit] at hr'
    · rw [hT, List.append_assoc]; exact ncaf_append_nocall h.ncaf (by
        intro e he
        simp only [List.mem_append, List.mem_map, List.mem_singleton] at he
        rcases he with ⟨r, _, rfl⟩ | rfl <;> rfl)
    · intro r hr; rw [hH] at hr; rw [hT]
      obtain ⟨m, hm⟩ := h.allocd r (List.mem_filter.mp hr).1
      exact ⟨m, by simp [hm]⟩
    · intro id f' u m' hm; rw [hT] at hm; rw [hN]
      simp only [List.mem_append, List.mem_map, reduceCtorEq, and_false, exists_false, List.mem_singleton,
        or_false] at hm
      exact h.allocBound id f' u m' hm
    · intro id f1 u1 m1 f2 u2 m2 h1 h2; rw [hT] at h1 h2
      simp only [List.mem_append, List.mem_map, reduceCtorEq, and_false, exists_false, List.mem_singleton,
        or_false] at h1 h2
      exact h.allocUniq id f1 u1 m1 f2 u2 m2 h1 h2
    · intro id f' u e h1; rw [hT] at h1 ⊢
      simp only [List.mem_append, List.mem_map, reduceCtorEq, and_false, exists_false, List.mem_singleton,
        or_false] at h1
      obtain ⟨m, hm⟩ := h.calledAllocd id f' u e h1
      exact ⟨m, by simp [hm]⟩

end Zvbi.Ev
