import ZvbiModel.Generated.EvConsts
/-!
# Model of the event handler list of `src/vbi.c` (property C11)

Follows `vbi_event_enable` (vbi.c:143-172), `vbi_event_handler_add` (188-239),
`vbi_event_handler_remove` (250), `vbi_event_handler_register` (278-330),
`vbi_event_handler_unregister` (350) and `vbi_send_event` (367-381).

* A `struct event_handler` is a `Rec` with a fresh `id` per `calloc`; the singly linked list
  `vbi->handlers` is the list `State.handlers` in link order; a pointer to a record is its id.
  `vbi->next_handler` is `State.cursor : Option Nat`.  A freed record is no longer in
  `handlers`; dereferencing an id that is not in `handlers` is the explicit error `deadDeref`.
  (Addresses can be reused by `calloc`, ids cannot; the only pointer comparison in the code,
  `vbi->next_handler == eh`, compares with a live record, and `cursor_live` in `Spec.lean` shows the
  cursor is never dangling, so reuse cannot be observed.)
* `pthread_mutex_trylock (&vbi->event_mutex)` is `State.locked` (single thread: the mutex is a
  default, non-recursive mutex, trylock fails iff we are inside a callback or the lock leaked).
* A callback is an arbitrary *behaviour*: a function from everything that happened so far
  (the trace), the handler function, its user pointer and the event type to a list of API
  calls issued from inside the callback.  `vbi_send_event`/`vbi_decode` from inside a callback
  would self-deadlock on the non-recursive mutex and is not part of a behaviour.
* `calloc` failure is a flag on the call.
-/
namespace Zvbi.Ev
open Zvbi.Gen.Ev

/-- `struct event_handler` (vbi.h:41-46); `next` is the list order -/
structure Rec where
  id : Nat
  fn : Nat
  user : Nat
  mask : Nat
deriving Repr, DecidableEq

inductive Kind
  | reg   -- vbi_event_handler_register / _unregister (mask 0)
  | add   -- vbi_event_handler_add / _remove (mask 0, user NULL)
deriving Repr, DecidableEq

/-- one API call; `oom` = the `calloc` inside the call (if reached) returns NULL -/
structure Call where
  kind : Kind
  fn : Nat
  user : Nat
  mask : Nat
  oom : Bool := false
deriving Repr, DecidableEq

/-- the `if (eh->handler == handler [&& eh->user_data == user_data])` test -/
def Call.hits (c : Call) (r : Rec) : Bool :=
  match c.kind with
  | .reg => r.fn == c.fn && r.user == c.user
  | .add => r.fn == c.fn

/-- what happened, in order (calls of handlers plus ghost entries for free/calloc/enable) -/
inductive Entry
  | call (id fn user ev : Nat)        -- eh->handler (ev, eh->user_data)
  | free (id : Nat)                   -- free (eh)
  | alloc (id fn user mask : Nat)     -- calloc + link
  | enable (mask flags : Nat)         -- vbi_event_enable (vbi, mask): new event_mask, reset flags
  | oom                               -- return FALSE
deriving Repr, DecidableEq

inductive Err
  | deadDeref (id : Nat)   -- vbi_send_event dereferenced a freed record
  | deadlock               -- pthread_mutex_lock on the mutex this thread already holds
  | fuel                   -- delivery did not end within the given number of iterations
deriving Repr, DecidableEq

structure State where
  handlers : List Rec := []
  cursor : Option Nat := none
  eventMask : Nat := 0
  nextId : Nat := 0
  locked : Bool := false
  trace : List Entry := []
  /-- Teletext pages in the cache (only what the `ttx` op of the harness observes) -/
  cached : List Nat := []
deriving Repr, DecidableEq

def init : State := {}

abbrev Behav := List Entry → (fn user ev : Nat) → List Call

/-! ## vbi_event_enable -/

def M32 : Nat := 4294967295

/-- which resets `vbi_event_enable (vbi, new)` performs when `vbi->event_mask = old`,
as a bit set: 1 Teletext, 2 caption, 4 network, 8 trigger flush, 16 prog_info, 32 vps_pid -/
def enableFlags (old new : Nat) : Nat :=
  let activate := new &&& (M32 ^^^ old)            -- mask & ~vbi->event_mask
  (if activate &&& actTtx ≠ 0 then 1 else 0)
  + (if activate &&& actCaption ≠ 0 then 2 else 0)
  + (if activate &&& actNetwork ≠ 0 then 4 else 0)
  + (if activate &&& actTrigger ≠ 0 then 8 else 0)
  + (if activate &&& actProgInfo ≠ 0 ∧ old &&& progInfoGuard = 0 then 16 else 0)
  + (if activate &&& actProgId ≠ 0 then 32 else 0)

/-! ## the list walk of vbi_event_handler_register / _add -/

structure WalkOut where
  chain : List Rec       -- the list after the `*ehp = eh->next` unlinks
  found : Bool
  mask : Nat             -- `mask |= eh->event_mask` over the records kept
  cursor : Option Nat    -- vbi->next_handler after the fix-ups
  freed : List Nat       -- ids passed to free (), in order
deriving Repr

/-- `while ((eh = *ehp)) { ... }` (vbi.c:199-218 and 289-309), `hit` is the match test and
`evm` the `event_mask` argument -/
def walk (hit : Rec → Bool) (evm : Nat) : List Rec → Option Nat → WalkOut
  | [], cur => ⟨[], false, 0, cur, []⟩
  | eh :: rest, cur =>
    if hit eh then
      if evm = 0 then
        -- *ehp = eh->next; if (vbi->next_handler == eh) vbi->next_handler = eh->next; free (eh); continue;
        let cur' := if cur = some eh.id then rest.head?.map (·.id) else cur
        let o := walk hit evm rest cur'
        { o with found := true, freed := eh.id :: o.freed }
      else
        -- eh->event_mask = event_mask; mask |= eh->event_mask; ehp = &eh->next;
        let o := walk hit evm rest cur
        { o with chain := { eh with mask := evm } :: o.chain, found := true, mask := evm ||| o.mask }
    else
      -- mask |= eh->event_mask; ehp = &eh->next;
      let o := walk hit evm rest cur
      { o with chain := eh :: o.chain, mask := eh.mask ||| o.mask }

/-- `vbi_event_handler_register` / `vbi_event_handler_add` (the two bodies differ only in the
match test `Call.hits`).  Masks are C `int`s: 32 bit values. -/
def apiCall (c : Call) (s : State) : State :=
  -- was_locked = pthread_mutex_trylock (&vbi->event_mutex);
  let wasLocked := s.locked
  let o := walk c.hits c.mask s.handlers s.cursor
  let tr := s.trace ++ o.freed.map Entry.free
  if !o.found && c.mask ≠ 0 && c.oom then
    -- calloc failed: `return FALSE;`  (Nothing was unlinked: not found.)  Whether the mutex is
    -- released first is read off the source by translate/gen_ev.py (`oomUnlocks`); in the
    -- original code it is not, and the lock this call took stays held.
    { s with locked := if oomUnlocks then wasLocked else true, trace := tr ++ [Entry.oom] }
  else
    let (chain, mask, nid, tr) :=
      if !o.found && c.mask ≠ 0 then
        (o.chain ++ [{ id := s.nextId, fn := c.fn, user := c.user, mask := c.mask : Rec }],
         o.mask ||| c.mask, s.nextId + 1, tr ++ [Entry.alloc s.nextId c.fn c.user c.mask])
      else (o.chain, o.mask, s.nextId, tr)
    -- vbi_event_enable (vbi, mask); if (!was_locked) pthread_mutex_unlock (...)
    { s with handlers := chain, cursor := o.cursor, eventMask := mask, nextId := nid,
             locked := wasLocked,
             trace := tr ++ [Entry.enable mask (enableFlags s.eventMask mask)] }

/-- the body of a callback: the calls it issues, in order (the mutex is held) -/
def runScript (s : State) (cs : List Call) : State :=
  cs.foldl (fun s c => apiCall c s) s

/-! ## vbi_send_event -/

/-- `eh->next` for the record with id `c` -/
def nextOf (c : Nat) : List Rec → Option Nat
  | [] => none
  | r :: rest => if r.id = c then rest.head?.map (·.id) else nextOf c rest

/-- one iteration of the loop of `vbi_send_event` on the (live) record `eh`:
`vbi->next_handler = eh->next; if (eh->event_mask & ev->type) eh->handler (ev, eh->user_data);` -/
def deliverTo (beh : Behav) (ev : Nat) (eh : Rec) (s : State) : State :=
  let s1 := { s with cursor := nextOf eh.id s.handlers }
  if eh.mask &&& ev ≠ 0 then
    runScript { s1 with trace := s1.trace ++ [Entry.call eh.id eh.fn eh.user ev] }
      (beh s1.trace eh.fn eh.user ev)
  else s1

/-- `for (eh = vbi->handlers; eh; eh = vbi->next_handler) { ... }`; dereferencing `eh` is the
look-up of its id among the linked records -/
def sendLoop (beh : Behav) (ev : Nat) : Nat → Option Nat → State → Except Err State
  | _, none, s => .ok s
  | 0, some _, _ => .error .fuel
  | fuel + 1, some c, s =>
    match s.handlers.find? (fun r => r.id == c) with
    | none => .error (.deadDeref c)
    | some eh =>
      let s2 := deliverTo beh ev eh s
      sendLoop beh ev fuel s2.cursor s2

def send (beh : Behav) (fuel : Nat) (ev : Nat) (s : State) : Except Err State :=
  -- pthread_mutex_lock (&vbi->event_mutex);
  if s.locked then .error .deadlock else
  let s0 := { s with locked := true }
  match sendLoop beh ev fuel (s0.handlers.head?.map (·.id)) s0 with
  | .ok s1 => .ok { s1 with locked := false }   -- pthread_mutex_unlock
  | .error e => .error e

/-! ## Teletext acquisition (packet.c:2209-2211, 1668) -/

/-- `vbi->event_mask & TTX_EVENTS`: packets 0..29 are looked at -/
def ttxAcquiring (s : State) : Bool := s.eventMask &&& TTX_EVENTS ≠ 0

/-- one complete Teletext page (header, a row, the next header of the magazine) through
`vbi_decode_teletext`: ignored unless acquiring, else stored and VBI_EVENT_TTX_PAGE sent -/
def ttxPage (beh : Behav) (fuel : Nat) (pgno : Nat) (s : State) : Except Err State :=
  if ttxAcquiring s then
    send beh fuel VBI_EVENT_TTX_PAGE { s with cached := if s.cached.contains pgno then s.cached else pgno :: s.cached }
  else .ok s

/-! ## histories -/

inductive Op
  | call (c : Call)
  | send (ev : Nat)
  | ttx (pgno : Nat)
deriving Repr

def step (beh : Behav) (fuel : Nat) (s : State) : Op → Except Err State
  | .call c => .ok (apiCall c s)
  | .send ev => send beh fuel ev s
  | .ttx p => ttxPage beh fuel p s

def run (beh : Behav) (fuel : Nat) : State → List Op → Except Err State
  | s, [] => .ok s
  | s, op :: ops =>
    match step beh fuel s op with
    | .ok s' => run beh fuel s' ops
    | .error e => .error e

end Zvbi.Ev
