import ZvbiModel.Ev.Model
/-!
# Abstract vocabulary of property C11 (what the theorems in `Props/C11.lean` mention)

* `ids`, `orMasks`      - the ids / the union of the masks of a handler list
* `callIds`             - the record ids called in a trace, in order of the calls
* `NoCallAfterFree`     - trace property: a freed record is never called afterwards
* `disables`            - an API call that removes a handler or takes the event out of its mask
* `UndisturbedBefore`   - no callback that ran before a handler's turn disabled it
* `Inv`                 - the invariant of every state a history can reach (also mid-delivery)
* `Reach`               - states reachable by a history of top-level operations
-/
namespace Zvbi.Ev

def ids (l : List Rec) : List Nat := l.map (·.id)

/-- union of the event masks of the registered handlers -/
def orMasks (l : List Rec) : Nat := l.foldr (fun r a => r.mask ||| a) 0

def Entry.callId : Entry → Option Nat
  | .call id _ _ _ => some id
  | _ => none

/-- ids of the records whose handler was invoked, in invocation order -/
def callIds (t : List Entry) : List Nat := t.filterMap Entry.callId

/-- for any two entries `a` before `b` of the trace: if `a` frees record `x` then `b` is not an
invocation of record `x` - a freed record is never called afterwards -/
def NoCallAfterFree (t : List Entry) : Prop :=
  t.Pairwise (fun a b => ∀ x, a = Entry.free x → b.callId ≠ some x)

/-- the call removes handler `r` or changes its mask so that event `ev` is no longer wanted -/
def disables (ev : Nat) (r : Rec) (c : Call) : Prop :=
  c.hits r = true ∧ c.mask &&& ev = 0

/-- In the delivery whose trace is `full` (the first `base` entries are older history): every
callback invoked on a record registered before `r` issued no call that disables `r`.
(`t1` is exactly what the behaviour saw when that callback started.) -/
def UndisturbedBefore (beh : Behav) (ev : Nat) (r : Rec) (base : Nat) (full : List Entry) : Prop :=
  ∀ t1 t2 id fn user, full = t1 ++ Entry.call id fn user ev :: t2 → base ≤ t1.length → id < r.id →
    ∀ k ∈ beh t1 fn user ev, ¬ disables ev r k

/-- Invariant of all reachable states, including the states callbacks see in mid-delivery. -/
structure Inv (s : State) : Prop where
  /-- the list is ordered by record id = by time of registration (calloc order) -/
  sorted : (ids s.handlers).Pairwise (· < ·)
  bound : ∀ r ∈ s.handlers, r.id < s.nextId
  /-- `vbi->next_handler` is NULL or points to a linked (live) record -/
  cursorLive : ∀ c, s.cursor = some c → c ∈ ids s.handlers
  /-- `vbi->event_mask` is the union of the masks -/
  maskUnion : s.eventMask = orMasks s.handlers
  /-- freed records are unlinked for good -/
  freedDead : ∀ x, Entry.free x ∈ s.trace → x ∉ ids s.handlers ∧ x < s.nextId
  ncaf : NoCallAfterFree s.trace
  /-- every linked record was created by a calloc entry with its handler and user pointer -/
  allocd : ∀ r ∈ s.handlers, ∃ m, Entry.alloc r.id r.fn r.user m ∈ s.trace
  allocBound : ∀ id f u m, Entry.alloc id f u m ∈ s.trace → id < s.nextId
  /-- a record id is allocated once -/
  allocUniq : ∀ id f u m f' u' m', Entry.alloc id f u m ∈ s.trace → Entry.alloc id f' u' m' ∈ s.trace →
    f = f' ∧ u = u'
  /-- handlers are only invoked on records that were created before -/
  calledAllocd : ∀ id f u e, Entry.call id f u e ∈ s.trace → ∃ m, Entry.alloc id f u m ∈ s.trace

/-- every callback issues at most `L` calls, and none at all once `K` handler invocations were made
after trace position `base` (the start of the delivery) -/
def BoundedBeh (beh : Behav) (base K L : Nat) : Prop :=
  (∀ tr fn user ev, (beh tr fn user ev).length ≤ L) ∧
  (∀ tr fn user ev, K ≤ (callIds (tr.drop base)).length → beh tr fn user ev = [])

/-- states reachable from `init` by a history of top-level operations (every delivery ended) -/
def Reach (beh : Behav) (fuel : Nat) (s : State) : Prop :=
  ∃ ops, run beh fuel init ops = .ok s

/-- no top-level registration fails for lack of memory -/
def NoTopOom (ops : List Op) : Prop := ∀ c, Op.call c ∈ ops → c.oom = false

end Zvbi.Ev
