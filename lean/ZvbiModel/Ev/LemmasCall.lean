import ZvbiModel.Ev.LemmasWalk
/-!
# One API call (register / add) preserves the invariant (C11)
-/
namespace Zvbi.Ev

theorem walk_nohit (hit : Rec → Bool) (evm : Nat) (l : List Rec) (cur : Option Nat)
    (h : ∀ r ∈ l, hit r = false) :
    walk hit evm l cur = ⟨l, false, orMasks l, cur, []⟩ := by
  induction l generalizing cur with
  | nil => rfl
  | cons eh rest ih =>
    have h1 : hit eh = false := h eh (by simp)
    have h2 := ih cur (fun r hr => h r (by simp [hr]))
    unfold walk
    simp [h1, h2, orMasks]

/-- `eh->event_mask = event_mask` on the records the call names -/
def Call.upd (c : Call) (r : Rec) : Rec := if c.hits r then { r with mask := c.mask } else r

/-- The four things an API call can do. -/
theorem apiCall_spec (c : Call) (s : State) :
    -- A: the handler is new and calloc fails: nothing changes, but (unfixed code) the mutex stays locked
    ((∀ r ∈ s.handlers, c.hits r = false) ∧ c.mask ≠ 0 ∧ c.oom = true ∧
      (apiCall c s).handlers = s.handlers ∧ (apiCall c s).cursor = s.cursor ∧
      (apiCall c s).eventMask = s.eventMask ∧ (apiCall c s).nextId = s.nextId ∧
      (apiCall c s).locked = (if Zvbi.Gen.Ev.oomUnlocks then s.locked else true) ∧
      (apiCall c s).trace = s.trace ++ [Entry.oom] ∧
      (apiCall c s).cached = s.cached)
    ∨ -- B: the handler is new: a fresh record is appended
    ((∀ r ∈ s.handlers, c.hits r = false) ∧ c.mask ≠ 0 ∧ c.oom = false ∧
      (apiCall c s).handlers = s.handlers ++ [⟨s.nextId, c.fn, c.user, c.mask⟩] ∧
      (apiCall c s).cursor = s.cursor ∧
      (apiCall c s).eventMask = orMasks s.handlers ||| c.mask ∧ (apiCall c s).nextId = s.nextId + 1 ∧
      (apiCall c s).locked = s.locked ∧
      (∃ m f, (apiCall c s).trace = s.trace ++ [Entry.alloc s.nextId c.fn c.user c.mask, Entry.enable m f]) ∧
      (apiCall c s).cached = s.cached)
    ∨ -- C: the handler is registered: its mask changes in place
    (c.mask ≠ 0 ∧ (∃ r ∈ s.handlers, c.hits r = true) ∧
      (apiCall c s).handlers = s.handlers.map c.upd ∧ (apiCall c s).cursor = s.cursor ∧
      (apiCall c s).eventMask = orMasks (s.handlers.map c.upd) ∧ (apiCall c s).nextId = s.nextId ∧
      (apiCall c s).locked = s.locked ∧
      (∃ m f, (apiCall c s).trace = s.trace ++ [Entry.enable m f]) ∧
      (apiCall c s).cached = s.cached)
    ∨ -- D: mask 0: the named records are unlinked and freed, the cursor is patched
    (c.mask = 0 ∧
      (apiCall c s).handlers = s.handlers.filter (fun r => !c.hits r) ∧
      (apiCall c s).cursor = (walk c.hits 0 s.handlers s.cursor).cursor ∧
      (apiCall c s).eventMask = orMasks (s.handlers.filter (fun r => !c.hits r)) ∧
      (apiCall c s).nextId = s.nextId ∧ (apiCall c s).locked = s.locked ∧
      (∃ m f, (apiCall c s).trace
        = s.trace ++ ((s.handlers.filter c.hits).map (fun r => Entry.free r.id)) ++ [Entry.enable m f]) ∧
      (apiCall c s).cached = s.cached) := by
  by_cases hz : c.mask = 0
  · -- D
    right; right; right
    refine ⟨hz, ?_⟩
    unfold apiCall
    simp only [hz, ne_eq, not_true_eq_false, decide_false, Bool.and_false, Bool.false_and,
      Bool.false_eq_true, if_false]
    rw [walk_mask, walk_chain_zero, walk_freed_zero]
    refine ⟨?_, ?_, ?_, ?_, ?_, ?_, ?_⟩ <;> first | rfl | trivial | skip
    refine ⟨orMasks (List.filter (fun r => !c.hits r) s.handlers),
      enableFlags s.eventMask (orMasks (List.filter (fun r => !c.hits r) s.handlers)), ?_⟩
    simp only [List.map_map, Function.comp_def]
  · by_cases hf : ∃ r ∈ s.handlers, c.hits r = true
    · -- C
      right; right; left
      refine ⟨hz, hf, ?_⟩
      have hfound : (walk c.hits c.mask s.handlers s.cursor).found = true := by
        rw [walk_found]; exact List.any_eq_true.mpr hf
      unfold apiCall
      simp only [hfound, Bool.not_true, Bool.false_and, Bool.false_eq_true, if_false]
      rw [walk_mask, walk_chain_nz _ _ hz, walk_freed_nz _ _ hz, walk_cursor_nz _ _ hz]
      refine ⟨?_, ?_, ?_, ?_, ?_, ?_, ?_⟩ <;> first | rfl | trivial | skip
      simp only [List.map_nil, List.append_nil]
      exact ⟨_, _, rfl⟩
    · have hno : ∀ r ∈ s.handlers, c.hits r = false := by
        intro r hr
        cases h : c.hits r with
        | false => rfl
        | true => exact absurd ⟨r, hr, h⟩ hf
      have hw := walk_nohit c.hits c.mask s.handlers s.cursor hno
      by_cases ho : c.oom = true
      · left
        refine ⟨hno, hz, ho, ?_⟩
        unfold apiCall
        simp [hw, hz, ho]
      · right; left
        have ho' : c.oom = false := by cases h : c.oom <;> simp_all
        refine ⟨hno, hz, ho', ?_⟩
        unfold apiCall
        simp only [hw, hz, ho', Bool.not_false, ne_eq, not_false_eq_true, decide_true, Bool.and_true,
          Bool.and_false, Bool.false_eq_true, if_false, if_true, List.map_nil, List.append_nil]
        refine ⟨?_, ?_, ?_, ?_, ?_, ?_, ?_⟩ <;> first | rfl | trivial | skip
        simp only [List.append_assoc, List.cons_append, List.nil_append]
        exact ⟨_, _, rfl⟩

end Zvbi.Ev

namespace Zvbi.Ev

theorem upd_id (c : Call) (r : Rec) : (c.upd r).id = r.id := by
  unfold Call.upd; split <;> rfl
theorem upd_fn (c : Call) (r : Rec) : (c.upd r).fn = r.fn := by
  unfold Call.upd; split <;> rfl
theorem upd_user (c : Call) (r : Rec) : (c.upd r).user = r.user := by
  unfold Call.upd; split <;> rfl

theorem ids_map_upd (c : Call) (l : List Rec) : ids (l.map c.upd) = ids l := by
  simp [ids, List.map_map, Function.comp_def, upd_id]

theorem orMasks_append (l : List Rec) (r : Rec) : orMasks (l ++ [r]) = orMasks l ||| r.mask := by
  induction l with
  | nil => simp [orMasks]
  | cons a l ih =>
    simp only [orMasks, List.cons_append, List.foldr_cons] at ih ⊢
    rw [ih, Nat.or_assoc]

theorem mem_ids {l : List Rec} {x : Nat} : x ∈ ids l ↔ ∃ r ∈ l, r.id = x := by
  simp [ids]

theorem sorted_inj {l : List Rec} (hs : (ids l).Pairwise (· < ·)) {r r' : Rec}
    (hr : r ∈ l) (hr' : r' ∈ l) (h : r.id = r'.id) : r = r' := by
  induction l with
  | nil => cases hr
  | cons a l ih =>
    obtain ⟨hlt, hs'⟩ := sorted_cons hs
    rcases List.mem_cons.mp hr with rfl | hr1 <;> rcases List.mem_cons.mp hr' with rfl | hr1'
    · rfl
    · have := hlt r' hr1'; omega
    · have := hlt r hr1; omega
    · exact ih hs' hr1 hr1'

theorem ncaf_append_nocall {t d : List Entry} (h : NoCallAfterFree t) (hd : ∀ e ∈ d, e.callId = none) :
    NoCallAfterFree (t ++ d) := by
  unfold NoCallAfterFree at *
  rw [List.pairwise_append]
  refine ⟨h, ?_, ?_⟩
  · induction d with
    | nil => exact List.Pairwise.nil
    | cons e d ih =>
      rw [List.pairwise_cons]
      refine ⟨?_, ih (fun e he => hd e (by simp [he]))⟩
      intro b hb x _
      rw [hd b (by simp [hb])]
      simp
  · intro a _ b hb x _
    rw [hd b hb]
    simp

theorem ncaf_append_call {t : List Entry} (h : NoCallAfterFree t) (id fn user ev : Nat)
    (hf : Entry.free id ∉ t) : NoCallAfterFree (t ++ [Entry.call id fn user ev]) := by
  unfold NoCallAfterFree at *
  rw [List.pairwise_append]
  refine ⟨h, List.pairwise_singleton _ _, ?_⟩
  intro a ha b hb x hax
  simp only [List.mem_singleton] at hb
  subst hb hax
  simp only [Entry.callId, ne_eq, Option.some.injEq]
  intro h1; subst h1; exact hf ha

end Zvbi.Ev
