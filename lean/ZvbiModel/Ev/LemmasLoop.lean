import ZvbiModel.Ev.LemmasInv
/-!
# The delivery loop of vbi_send_event (C11): helper lemmas
-/
namespace Zvbi.Ev

/-! ## how a state evolves while callbacks run -/

/-- `s'` is a later state of the same delivery: the trace only grows (by entries that are not
invocations), the cursor only moves forward, the mutex stays held -/
structure Ext (s s' : State) : Prop where
  trace : ∃ d, s'.trace = s.trace ++ d ∧ ∀ e ∈ d, e.callId = none
  curNone : s.cursor = none → s'.cursor = none
  curMono : ∀ c c', s.cursor = some c → s'.cursor = some c' → c ≤ c'
  locked : s.locked = true → s'.locked = true
  nextId : s.nextId ≤ s'.nextId
  cached : s'.cached = s.cached

theorem Ext.refl (s : State) : Ext s s :=
  ⟨⟨[], by simp⟩, id, by intro c c' h1 h2; rw [h1] at h2; cases h2; exact Nat.le_refl _, id,
   Nat.le_refl _, rfl⟩

theorem Ext.trans {s s' s'' : State} (h1 : Ext s s') (h2 : Ext s' s'') : Ext s s'' := by
  obtain ⟨d1, ht1, hd1⟩ := h1.trace
  obtain ⟨d2, ht2, hd2⟩ := h2.trace
  refine ⟨⟨d1 ++ d2, by rw [ht2, ht1, List.append_assoc], ?_⟩, ?_, ?_, ?_, ?_, ?_⟩
  · intro e he
    rcases List.mem_append.mp he with he | he
    · exact hd1 e he
    · exact hd2 e he
  · intro h; exact h2.curNone (h1.curNone h)
  · intro c c'' hc hc''
    cases hm : s'.cursor with
    | none => rw [h2.curNone hm] at hc''; cases hc''
    | some c' => exact Nat.le_trans (h1.curMono c c' hc hm) (h2.curMono c' c'' hm hc'')
  · intro h; exact h2.locked (h1.locked h)
  · exact Nat.le_trans h1.nextId h2.nextId
  · rw [h2.cached, h1.cached]

theorem head_le_of_sorted {l : List Rec} (hs : (ids l).Pairwise (· < ·)) {r : Rec} (hr : r ∈ l) :
    ∃ r1, l.head? = some r1 ∧ r1.id ≤ r.id := by
  cases l with
  | nil => cases hr
  | cons a l =>
    refine ⟨a, rfl, ?_⟩
    rcases List.mem_cons.mp hr with rfl | hr
    · exact Nat.le_refl _
    · exact Nat.le_of_lt ((sorted_cons hs).1 r hr)

theorem apiCall_ext (c : Call) (s : State) (h : Inv s) : Ext s (apiCall c s) := by
  rcases apiCall_spec c s with
    ⟨_, _, _, _, hC, _, hN, hL, hT, hK⟩ | ⟨_, _, _, _, hC, _, hN, hL, ⟨m, f, hT⟩, hK⟩ |
    ⟨_, _, _, hC, _, hN, hL, ⟨m, f, hT⟩, hK⟩ | ⟨hz, _, hC, _, hN, hL, ⟨m, f, hT⟩, hK⟩
  · refine ⟨⟨_, hT, ?_⟩, ?_, ?_, ?_, ?_, hK⟩
    · intro e he; simp at he; subst he; rfl
    · intro h1; rw [hC, h1]
    · intro c0 c' h1 h2; rw [hC, h1] at h2; cases h2; exact Nat.le_refl _
    · intro hl; rw [hL, hl]; simp
    · rw [hN]; exact Nat.le_refl _
  · refine ⟨⟨_, hT, ?_⟩, ?_, ?_, ?_, ?_, hK⟩
    · intro e he
      simp only [List.mem_cons, List.not_mem_nil, or_false] at he
      rcases he with rfl | rfl <;> rfl
    · intro h1; rw [hC, h1]
    · intro c0 c' h1 h2; rw [hC, h1] at h2; cases h2; exact Nat.le_refl _
    · intro h1; rw [hL, h1]
    · rw [hN]; exact Nat.le_succ _
  · refine ⟨⟨_, hT, ?_⟩, ?_, ?_, ?_, ?_, hK⟩
    · intro e he; simp at he; subst he; rfl
    · intro h1; rw [hC, h1]
    · intro c0 c' h1 h2; rw [hC, h1] at h2; cases h2; exact Nat.le_refl _
    · intro h1; rw [hL, h1]
    · rw [hN]; exact Nat.le_refl _
  · refine ⟨⟨_, by rw [hT, List.append_assoc], ?_⟩, ?_, ?_, ?_, ?_, hK⟩
    · intro e he
      simp only [List.mem_append, List.mem_map, List.mem_singleton] at he
      rcases he with ⟨r, _, rfl⟩ | rfl <;> rfl
    · intro h1; rw [hC, h1, walk_cursor_none]
    · intro c0 c' h1 h2
      rw [hC, h1, walk_cursor_zero c.hits s.handlers c0 h.sorted (h.cursorLive c0 h1)] at h2
      cases hh : (s.handlers.filter (fun r => decide (c0 ≤ r.id) && !c.hits r)).head? with
      | none => rw [hh] at h2; cases h2
      | some r =>
        rw [hh] at h2
        simp only [Option.map_some, Option.some.injEq] at h2
        have hm := List.mem_of_mem_head? hh
        rw [List.mem_filter] at hm
        simp only [Bool.and_eq_true, decide_eq_true_eq] at hm
        omega
    · intro h1; rw [hL, h1]
    · rw [hN]; exact Nat.le_refl _

theorem runScript_inv_ext (cs : List Call) (s : State) (h : Inv s) :
    Inv (runScript s cs) ∧ Ext s (runScript s cs) := by
  induction cs generalizing s with
  | nil => exact ⟨h, Ext.refl s⟩
  | cons c cs ih =>
    have h1 := apiCall_inv c s h
    have e1 := apiCall_ext c s h
    obtain ⟨h2, e2⟩ := ih (apiCall c s) h1
    exact ⟨h2, e1.trans e2⟩

/-! ## a handler waiting for its turn -/

/-- record `r0` is still linked with a mask that wants `ev`, and the cursor has not passed it -/
def Pending (ev : Nat) (r0 : Rec) (s : State) : Prop :=
  (∃ r ∈ s.handlers, r.id = r0.id ∧ r.fn = r0.fn ∧ r.user = r0.user ∧ r.mask &&& ev ≠ 0) ∧
  ∃ c, s.cursor = some c ∧ c ≤ r0.id

theorem hits_congr (c : Call) {r r0 : Rec} (hf : r.fn = r0.fn) (hu : r.user = r0.user) :
    c.hits r = c.hits r0 := by
  unfold Call.hits; rw [hf, hu]

theorem apiCall_pending (ev : Nat) (r0 : Rec) (c : Call) (s : State) (h : Inv s)
    (hp : Pending ev r0 s) (hnd : ¬ disables ev r0 c) : Pending ev r0 (apiCall c s) := by
  obtain ⟨⟨r, hr, hid, hfn, huser, hmask⟩, c0, hc0, hle⟩ := hp
  have hhits : c.hits r = c.hits r0 := hits_congr c hfn huser
  rcases apiCall_spec c s with
    ⟨_, _, _, hH, hC, _⟩ | ⟨_, _, _, hH, hC, _⟩ | ⟨hz, _, hH, hC, _⟩ | ⟨hz, hH, hC, _⟩
  · exact ⟨⟨r, by rw [hH]; exact hr, hid, hfn, huser, hmask⟩, c0, by rw [hC]; exact hc0, hle⟩
  · exact ⟨⟨r, by rw [hH]; exact List.mem_append_left _ hr, hid, hfn, huser, hmask⟩, c0,
      by rw [hC]; exact hc0, hle⟩
  · refine ⟨⟨c.upd r, by rw [hH]; exact List.mem_map_of_mem hr, by rw [upd_id]; exact hid,
      by rw [upd_fn]; exact hfn, by rw [upd_user]; exact huser, ?_⟩, c0, by rw [hC]; exact hc0, hle⟩
    unfold Call.upd
    by_cases hh : c.hits r = true
    · rw [if_pos hh]
      simp only
      intro hm
      exact hnd ⟨by rw [← hhits]; exact hh, hm⟩
    · rw [if_neg hh]; exact hmask
  · have hnh : c.hits r = false := by
      cases hh : c.hits r with
      | false => rfl
      | true => exact absurd ⟨by rw [← hhits]; exact hh, by rw [hz]; exact Nat.zero_and ev⟩ hnd
    have hrf : r ∈ s.handlers.filter (fun r => decide (c0 ≤ r.id) && !c.hits r) := by
      rw [List.mem_filter]
      refine ⟨hr, ?_⟩
      simp only [Bool.and_eq_true, decide_eq_true_eq, hnh, Bool.not_false, and_true]
      omega
    refine ⟨⟨r, by rw [hH, List.mem_filter]; exact ⟨hr, by simp [hnh]⟩, hid, hfn, huser, hmask⟩, ?_⟩
    have hs' : (ids (s.handlers.filter (fun r => decide (c0 ≤ r.id) && !c.hits r))).Pairwise (· < ·) :=
      List.Pairwise.sublist (List.Sublist.map _ List.filter_sublist) h.sorted
    obtain ⟨r1, hh1, hle1⟩ := head_le_of_sorted hs' hrf
    refine ⟨r1.id, ?_, by omega⟩
    rw [hC, hc0, walk_cursor_zero c.hits s.handlers c0 h.sorted (h.cursorLive c0 hc0), hh1]
    rfl

theorem runScript_pending (ev : Nat) (r0 : Rec) (cs : List Call) (s : State) (h : Inv s)
    (hp : Pending ev r0 s) (hnd : ∀ k ∈ cs, ¬ disables ev r0 k) : Pending ev r0 (runScript s cs) := by
  induction cs generalizing s with
  | nil => exact hp
  | cons c cs ih =>
    exact ih (apiCall c s) (apiCall_inv c s h) (apiCall_pending ev r0 c s h hp (hnd c (by simp)))
      (fun k hk => hnd k (by simp [hk]))

/-! ## `eh->next` -/

theorem nextOf_notin (c : Nat) (l : List Rec) (h : c ∉ ids l) : nextOf c l = none := by
  induction l with
  | nil => rfl
  | cons a l ih =>
    have h1 : a.id ≠ c := by intro h2; apply h; simp [ids, h2]
    have h2 : c ∉ ids l := by intro h3; apply h; simp [ids] at h3 ⊢; right; exact h3
    simp [nextOf, h1, ih h2]

theorem nextOf_some {c c1 : Nat} {l : List Rec} (hs : (ids l).Pairwise (· < ·))
    (h : nextOf c l = some c1) :
    c1 ∈ ids l ∧ c < c1 ∧ ∀ r ∈ l, c < r.id → c1 ≤ r.id := by
  induction l with
  | nil => cases h
  | cons a l ih =>
    obtain ⟨hlt, hs'⟩ := sorted_cons hs
    unfold nextOf at h
    by_cases ha : a.id = c
    · rw [if_pos ha] at h
      cases l with
      | nil => cases h
      | cons b l =>
        simp only [List.head?_cons, Option.map_some, Option.some.injEq] at h
        subst h
        refine ⟨by simp [ids], by have := hlt b (by simp); omega, ?_⟩
        intro r hr hcr
        rcases List.mem_cons.mp hr with rfl | hr
        · omega
        · obtain ⟨r1, hh, hle⟩ := head_le_of_sorted hs' hr
          simp only [List.head?_cons, Option.some.injEq] at hh
          subst hh; exact hle
    · rw [if_neg ha] at h
      obtain ⟨h1, h2, h3⟩ := ih hs' h
      refine ⟨by simp only [ids, List.map_cons, List.mem_cons]; right; exact h1, h2, ?_⟩
      intro r hr hcr
      rcases List.mem_cons.mp hr with rfl | hr
      · -- c is in l (else nextOf = none), so r.id < c
        have hc : c ∈ ids l := by
          apply Classical.byContradiction
          intro hn; rw [nextOf_notin c l hn] at h; cases h
        obtain ⟨rc, hrc, hidc⟩ := mem_ids.mp hc
        have := hlt rc hrc
        omega
      · exact h3 r hr hcr

theorem nextOf_none {c : Nat} {l : List Rec} (hs : (ids l).Pairwise (· < ·)) (hc : c ∈ ids l)
    (h : nextOf c l = none) : ∀ r ∈ l, r.id ≤ c := by
  induction l with
  | nil => intro r hr; cases hr
  | cons a l ih =>
    obtain ⟨hlt, hs'⟩ := sorted_cons hs
    unfold nextOf at h
    by_cases ha : a.id = c
    · rw [if_pos ha] at h
      cases l with
      | nil => intro r hr; simp at hr; subst hr; omega
      | cons b l => simp at h
    · rw [if_neg ha] at h
      have hc' : c ∈ ids l := by
        simp only [ids, List.map_cons, List.mem_cons] at hc
        rcases hc with h1 | h1
        · exact absurd h1.symm ha
        · exact h1
      intro r hr
      rcases List.mem_cons.mp hr with rfl | hr
      · obtain ⟨rc, hrc, hidc⟩ := mem_ids.mp hc'
        have := hlt rc hrc
        omega
      · exact ih hs' hc' h r hr

end Zvbi.Ev
