import ZvbiModel.Ev.Spec
/-!
# Lemmas about the list walk of vbi_event_handler_register/_add (C11)
-/
namespace Zvbi.Ev

theorem walk_chain_zero (hit : Rec → Bool) (l : List Rec) (cur : Option Nat) :
    (walk hit 0 l cur).chain = l.filter (fun r => !hit r) := by
  induction l generalizing cur with
  | nil => rfl
  | cons eh rest ih =>
    unfold walk
    by_cases h : hit eh <;> simp [h, ih]

theorem walk_chain_nz (hit : Rec → Bool) (evm : Nat) (hz : evm ≠ 0) (l : List Rec) (cur : Option Nat) :
    (walk hit evm l cur).chain = l.map (fun r => if hit r then { r with mask := evm } else r) := by
  induction l generalizing cur with
  | nil => rfl
  | cons eh rest ih =>
    unfold walk
    by_cases h : hit eh <;> simp [h, hz, ih]

theorem walk_mask (hit : Rec → Bool) (evm : Nat) (l : List Rec) (cur : Option Nat) :
    (walk hit evm l cur).mask = orMasks (walk hit evm l cur).chain := by
  induction l generalizing cur with
  | nil => rfl
  | cons eh rest ih =>
    unfold walk
    simp only [orMasks] at ih
    by_cases h : hit eh
    · by_cases hz : evm = 0
      · subst hz; simp [h, orMasks, ih]
      · simp [h, hz, orMasks, ih]
    · simp [h, orMasks, ih]

theorem walk_found (hit : Rec → Bool) (evm : Nat) (l : List Rec) (cur : Option Nat) :
    (walk hit evm l cur).found = l.any hit := by
  induction l generalizing cur with
  | nil => rfl
  | cons eh rest ih =>
    unfold walk
    by_cases h : hit eh
    · by_cases hz : evm = 0
      · subst hz; simp [h, ih]
      · simp [h, hz, ih]
    · simp [h, ih]

theorem walk_freed_zero (hit : Rec → Bool) (l : List Rec) (cur : Option Nat) :
    (walk hit 0 l cur).freed = (l.filter hit).map (·.id) := by
  induction l generalizing cur with
  | nil => rfl
  | cons eh rest ih =>
    unfold walk
    by_cases h : hit eh <;> simp [h, ih]

theorem walk_freed_nz (hit : Rec → Bool) (evm : Nat) (hz : evm ≠ 0) (l : List Rec) (cur : Option Nat) :
    (walk hit evm l cur).freed = [] := by
  induction l generalizing cur with
  | nil => rfl
  | cons eh rest ih =>
    unfold walk
    by_cases h : hit eh <;> simp [h, hz, ih]

theorem walk_cursor_nz (hit : Rec → Bool) (evm : Nat) (hz : evm ≠ 0) (l : List Rec) (cur : Option Nat) :
    (walk hit evm l cur).cursor = cur := by
  induction l generalizing cur with
  | nil => rfl
  | cons eh rest ih =>
    unfold walk
    by_cases h : hit eh <;> simp [h, hz, ih]

theorem walk_cursor_none (hit : Rec → Bool) (evm : Nat) (l : List Rec) :
    (walk hit evm l none).cursor = none := by
  induction l with
  | nil => rfl
  | cons eh rest ih =>
    unfold walk
    by_cases h : hit eh
    · by_cases hz : evm = 0
      · subst hz; simp [h, ih]
      · simp [h, hz, ih]
    · simp [h, ih]

theorem walk_cursor_notin (hit : Rec → Bool) (evm : Nat) (l : List Rec) (c : Nat) (hc : c ∉ ids l) :
    (walk hit evm l (some c)).cursor = some c := by
  induction l with
  | nil => rfl
  | cons eh rest ih =>
    have h1 : eh.id ≠ c := by intro h; apply hc; simp [ids, h]
    have h2 : c ∉ ids rest := by intro h; apply hc; simp [ids] at h ⊢; right; exact h
    unfold walk
    have h3 : c ≠ eh.id := fun h => h1 h.symm
    by_cases h : hit eh
    · by_cases hz : evm = 0
      · subst hz; simp [h, h3]; exact ih h2
      · simp [h, hz, ih h2]
    · simp [h, ih h2]

end Zvbi.Ev

namespace Zvbi.Ev

theorem filter_ge_irrelevant (p : Rec → Bool) (c : Nat) (l : List Rec) (h : ∀ r ∈ l, c ≤ r.id) :
    l.filter (fun r => decide (c ≤ r.id) && p r) = l.filter p := by
  apply List.filter_congr
  intro r hr
  simp [h r hr]

theorem sorted_cons {eh : Rec} {rest : List Rec} (hs : (ids (eh :: rest)).Pairwise (· < ·)) :
    (∀ r ∈ rest, eh.id < r.id) ∧ (ids rest).Pairwise (· < ·) := by
  simp only [ids, List.map_cons, List.pairwise_cons] at hs
  refine ⟨?_, hs.2⟩
  intro r hr
  exact hs.1 r.id (List.mem_map.mpr ⟨r, hr, rfl⟩)

/-- The cursor fix-up: after a removing walk, `next_handler` points to the first record at or after
its old target that was not removed (NULL if there is none). -/
theorem walk_cursor_zero (hit : Rec → Bool) (l : List Rec) (c : Nat)
    (hs : (ids l).Pairwise (· < ·)) (hc : c ∈ ids l) :
    (walk hit 0 l (some c)).cursor
      = ((l.filter (fun r => decide (c ≤ r.id) && !hit r)).head?).map (·.id) := by
  induction l generalizing c with
  | nil => simp [ids] at hc
  | cons eh rest ih =>
    obtain ⟨hlt, hs'⟩ := sorted_cons hs
    unfold walk
    by_cases h : hit eh
    · simp only [h, if_true]
      by_cases he : c = eh.id
      · subst he
        simp only [if_true]
        have hge : ∀ r ∈ rest, eh.id ≤ r.id := fun r hr => Nat.le_of_lt (hlt r hr)
        rw [List.filter_cons]
        simp only [h, Bool.not_true, Bool.and_false]
        rw [filter_ge_irrelevant (fun r => !hit r) eh.id rest hge]
        cases rest with
        | nil => simp [walk]
        | cons r2 rest2 =>
          simp only [List.head?_cons, Option.map_some]
          have := ih r2.id hs' (by simp [ids])
          rw [this]
          have hge2 : ∀ r ∈ r2 :: rest2, r2.id ≤ r.id := by
            intro r hr
            rcases List.mem_cons.mp hr with rfl | hr
            · exact Nat.le_refl _
            · exact Nat.le_of_lt ((sorted_cons hs').1 r hr)
          rw [filter_ge_irrelevant (fun r => !hit r) r2.id (r2 :: rest2) hge2]
          simp
      · have hc' : c ∈ ids rest := by
          simp only [ids, List.map_cons, List.mem_cons] at hc
          rcases hc with h1 | h1
          · exact absurd h1 he
          · exact h1
        have hne : ¬ (some c = some eh.id) := by intro h1; exact he (Option.some.inj h1)
        simp only [hne, if_false]
        have := ih c hs' hc'
        rw [this, List.filter_cons]
        simp [h]
    · simp only [h]
      by_cases he : c = eh.id
      · subst he
        have hnot : eh.id ∉ ids rest := by
          intro hm
          simp only [ids, List.mem_map] at hm
          obtain ⟨r, hr, hid⟩ := hm
          have := hlt r hr
          omega
        have := walk_cursor_notin hit 0 rest eh.id hnot
        simp only [Bool.false_eq_true, if_false] at this ⊢
        rw [this, List.filter_cons]
        simp [h]
      · have hc' : c ∈ ids rest := by
          simp only [ids, List.map_cons, List.mem_cons] at hc
          rcases hc with h1 | h1
          · exact absurd h1 he
          · exact h1
        have hlt' : eh.id < c := by
          simp only [ids, List.mem_map] at hc'
          obtain ⟨r, hr, hid⟩ := hc'
          have := hlt r hr
          omega
        have := ih c hs' hc'
        simp only [Bool.false_eq_true, if_false] at this ⊢
        rw [this, List.filter_cons]
        have : ¬ (c ≤ eh.id) := by omega
        simp [this]

end Zvbi.Ev
