import ZvbiModel.Ev.LemmasSend
/-!
# Whole histories (C11): `send`, the Teletext page op, `run`
-/
namespace Zvbi.Ev

theorem inv_init : Inv init := by
  refine ⟨?_, ?_, ?_, ?_, ?_, ?_, ?_, ?_, ?_, ?_⟩ <;> simp [init, ids, orMasks, NoCallAfterFree]

theorem inv_congr {s t : State} (h : Inv s) (hH : t.handlers = s.handlers) (hC : t.cursor = s.cursor)
    (hM : t.eventMask = s.eventMask) (hN : t.nextId = s.nextId) (hT : t.trace = s.trace) : Inv t := by
  refine ⟨?_, ?_, ?_, ?_, ?_, ?_, ?_, ?_, ?_, ?_⟩
  · rw [hH]; exact h.sorted
  · rw [hH, hN]; exact h.bound
  · rw [hH, hC]; exact h.cursorLive
  · rw [hH, hM]; exact h.maskUnion
  · rw [hH, hN, hT]; exact h.freedDead
  · rw [hT]; exact h.ncaf
  · rw [hH, hT]; exact h.allocd
  · rw [hN, hT]; exact h.allocBound
  · rw [hT]; exact h.allocUniq
  · rw [hT]; exact h.calledAllocd

/-- what a terminated `vbi_send_event` looks like from outside -/
theorem send_ok (beh : Behav) (fuel ev : Nat) (s s' : State) (h : Inv s) (hc : s.cursor = none)
    (hs : send beh fuel ev s = .ok s') :
    Inv s' ∧ s'.cursor = none ∧ s.locked = false ∧ s'.locked = false ∧ s.nextId ≤ s'.nextId ∧
    s'.cached = s.cached ∧
    ∃ X, s'.trace = s.trace ++ X ∧ (callIds X).Pairwise (· < ·) ∧
      (∀ id f u e, Entry.call id f u e ∈ X → e = ev) := by
  unfold send at hs
  by_cases hl : s.locked = true
  · simp [hl] at hs
  · have hl' : s.locked = false := by cases hh : s.locked <;> simp_all
    simp only [hl', Bool.false_eq_true, if_false] at hs
    cases hloop : sendLoop beh ev fuel (Option.map (fun x => x.id) s.handlers.head?) { s with locked := true } with
    | error e => rw [hloop] at hs; simp at hs
    | ok s1 =>
      rw [hloop] at hs
      simp only [Except.ok.injEq] at hs
      subst hs
      have h0 : Inv { s with locked := true } := inv_congr h rfl rfl rfl rfl rfl
      have hlive : ∀ c, Option.map (fun x => x.id) s.handlers.head? = some c → c ∈ ids s.handlers := by
        intro c hcc
        cases hh : s.handlers.head? with
        | none => rw [hh] at hcc; cases hcc
        | some r =>
          rw [hh] at hcc
          simp only [Option.map_some, Option.some.injEq] at hcc
          exact mem_ids.mpr ⟨r, List.mem_of_mem_head? hh, hcc⟩
      obtain ⟨h1, hc1, _, hn1, hca1, X, htr, hpw, _, _, hev⟩ :=
        sendLoop_main beh ev fuel _ _ s1 h0 hlive (fun _ => hc) hloop
      exact ⟨inv_congr h1 rfl rfl rfl rfl rfl, hc1, hl', rfl, hn1, hca1, X, htr, hpw, hev⟩

theorem send_error (beh : Behav) (fuel ev : Nat) (s : State) (h : Inv s) (e : Err)
    (hs : send beh fuel ev s = .error e) : e = .fuel ∨ (e = .deadlock ∧ s.locked = true) := by
  unfold send at hs
  by_cases hl : s.locked = true
  · simp [hl] at hs; exact Or.inr ⟨hs.symm, hl⟩
  · have hl' : s.locked = false := by cases hh : s.locked <;> simp_all
    simp only [hl', Bool.false_eq_true, if_false] at hs
    cases hloop : sendLoop beh ev fuel (Option.map (fun x => x.id) s.handlers.head?) { s with locked := true } with
    | ok s1 => rw [hloop] at hs; simp at hs
    | error e1 =>
      rw [hloop] at hs
      simp only [Except.error.injEq] at hs
      subst hs
      have h0 : Inv { s with locked := true } := inv_congr h rfl rfl rfl rfl rfl
      have hlive : ∀ c, Option.map (fun x => x.id) s.handlers.head? = some c → c ∈ ids s.handlers := by
        intro c hcc
        cases hh : s.handlers.head? with
        | none => rw [hh] at hcc; cases hcc
        | some r =>
          rw [hh] at hcc
          simp only [Option.map_some, Option.some.injEq] at hcc
          exact mem_ids.mpr ⟨r, List.mem_of_mem_head? hh, hcc⟩
      exact Or.inl (sendLoop_safe beh ev fuel _ _ h0 hlive e1 hloop)

/-- every top-level operation keeps the invariant and leaves `next_handler` NULL -/
theorem step_ok (beh : Behav) (fuel : Nat) (s s' : State) (op : Op) (h : Inv s) (hc : s.cursor = none)
    (hs : step beh fuel s op = .ok s') :
    Inv s' ∧ s'.cursor = none ∧
    ∃ X, s'.trace = s.trace ++ X := by
  cases op with
  | call c =>
    simp only [step, Except.ok.injEq] at hs
    subst hs
    obtain ⟨d, hd, _⟩ := (apiCall_ext c s h).trace
    exact ⟨apiCall_inv c s h, (apiCall_ext c s h).curNone hc, d, hd⟩
  | send ev =>
    obtain ⟨h1, hc1, _, _, _, _, X, hX, _⟩ := send_ok beh fuel ev s s' h hc hs
    exact ⟨h1, hc1, X, hX⟩
  | ttx p =>
    simp only [step, ttxPage] at hs
    by_cases ha : ttxAcquiring s = true
    · simp only [ha, if_true] at hs
      have h0 : Inv { s with cached := if s.cached.contains p = true then s.cached else p :: s.cached } :=
        inv_congr h rfl rfl rfl rfl rfl
      obtain ⟨h1, hc1, _, _, _, _, X, hX, _⟩ := send_ok beh fuel _ _ s' h0 hc hs
      exact ⟨h1, hc1, X, hX⟩
    · simp only [ha, if_false, Except.ok.injEq, Bool.false_eq_true] at hs
      subst hs
      exact ⟨h, hc, [], by simp⟩

theorem step_error (beh : Behav) (fuel : Nat) (s : State) (op : Op) (h : Inv s) (e : Err)
    (hs : step beh fuel s op = .error e) : e = .fuel ∨ (e = .deadlock ∧ s.locked = true) := by
  cases op with
  | call c => simp [step] at hs
  | send ev => exact send_error beh fuel ev s h e hs
  | ttx p =>
    simp only [step, ttxPage] at hs
    by_cases ha : ttxAcquiring s = true
    · simp only [ha, if_true] at hs
      have h0 : Inv { s with cached := if s.cached.contains p = true then s.cached else p :: s.cached } :=
        inv_congr h rfl rfl rfl rfl rfl
      exact send_error beh fuel _ _ h0 e hs
    · simp [ha] at hs

theorem run_ok (beh : Behav) (fuel : Nat) : ∀ (ops : List Op) (s s' : State), Inv s → s.cursor = none →
    run beh fuel s ops = .ok s' → Inv s' ∧ s'.cursor = none ∧ ∃ X, s'.trace = s.trace ++ X := by
  intro ops
  induction ops with
  | nil =>
    intro s s' h hc hs
    simp only [run, Except.ok.injEq] at hs
    subst hs
    exact ⟨h, hc, [], by simp⟩
  | cons op ops ih =>
    intro s s' h hc hs
    simp only [run] at hs
    cases hst : step beh fuel s op with
    | error e => rw [hst] at hs; simp at hs
    | ok s1 =>
      rw [hst] at hs
      obtain ⟨h1, hc1, X1, hX1⟩ := step_ok beh fuel s s1 op h hc hst
      obtain ⟨h2, hc2, X2, hX2⟩ := ih s1 s' h1 hc1 hs
      exact ⟨h2, hc2, X1 ++ X2, by rw [hX2, hX1, List.append_assoc]⟩

theorem run_error (beh : Behav) (fuel : Nat) : ∀ (ops : List Op) (s : State) (e : Err), Inv s →
    s.cursor = none → run beh fuel s ops = .error e → e = .fuel ∨ e = .deadlock := by
  intro ops
  induction ops with
  | nil => intro s e _ _ hs; simp [run] at hs
  | cons op ops ih =>
    intro s e h hc hs
    simp only [run] at hs
    cases hst : step beh fuel s op with
    | error e1 =>
      rw [hst] at hs
      simp only [Except.error.injEq] at hs
      subst hs
      rcases step_error beh fuel s op h e1 hst with h1 | h1
      · exact Or.inl h1
      · exact Or.inr h1.1
    | ok s1 =>
      rw [hst] at hs
      obtain ⟨h1, hc1, _⟩ := step_ok beh fuel s s1 op h hc hst
      exact ih s1 e h1 hc1 hs

/-! ## the mutex: it is only ever left locked by a failed allocation -/

theorem apiCall_unlocked (c : Call) (s : State) (hl : s.locked = false)
    (ho : Zvbi.Gen.Ev.oomUnlocks = true ∨ c.oom = false) :
    (apiCall c s).locked = false := by
  rcases apiCall_spec c s with
    ⟨_, _, ho', _, _, _, _, hL, _⟩ | ⟨_, _, _, _, _, _, _, hL, _⟩ | ⟨_, _, _, _, _, _, hL, _⟩ |
    ⟨_, _, _, _, _, hL, _⟩
  · rcases ho with ho | ho
    · rw [hL, ho, hl]; rfl
    · rw [ho] at ho'; cases ho'
  · rw [hL, hl]
  · rw [hL, hl]
  · rw [hL, hl]

theorem run_unlocked (beh : Behav) (fuel : Nat) : ∀ (ops : List Op) (s : State), Inv s →
    s.cursor = none → s.locked = false → (Zvbi.Gen.Ev.oomUnlocks = true ∨ NoTopOom ops) →
    (∀ s', run beh fuel s ops = .ok s' → s'.locked = false) ∧
    run beh fuel s ops ≠ .error .deadlock := by
  intro ops
  induction ops with
  | nil =>
    intro s _ _ hl _
    refine ⟨?_, by simp [run]⟩
    intro s' hs
    simp only [run, Except.ok.injEq] at hs
    subst hs; exact hl
  | cons op ops ih =>
    intro s h hc hl hno
    have hno' : Zvbi.Gen.Ev.oomUnlocks = true ∨ NoTopOom ops :=
      hno.imp id (fun hno c hcm => hno c (List.mem_cons_of_mem _ hcm))
    simp only [run]
    cases hst : step beh fuel s op with
    | error e1 =>
      refine ⟨by intro s' hs; simp at hs, ?_⟩
      simp only [ne_eq, Except.error.injEq]
      intro he; subst he
      rcases step_error beh fuel s op h _ hst with h1 | h1
      · cases h1
      · rw [hl] at h1; cases h1.2
    | ok s1 =>
      obtain ⟨h1, hc1, _⟩ := step_ok beh fuel s s1 op h hc hst
      have hl1 : s1.locked = false := by
        cases op with
        | call c =>
          simp only [step, Except.ok.injEq] at hst
          subst hst
          exact apiCall_unlocked c s hl (hno.imp id (fun hno => hno c (by simp)))
        | send ev => exact (send_ok beh fuel ev s s1 h hc hst).2.2.2.1
        | ttx p =>
          simp only [step, ttxPage] at hst
          by_cases ha : ttxAcquiring s = true
          · simp only [ha, if_true] at hst
            have h0 : Inv { s with cached := if s.cached.contains p = true then s.cached else p :: s.cached } :=
              inv_congr h rfl rfl rfl rfl rfl
            exact (send_ok beh fuel _ _ s1 h0 hc hst).2.2.2.1
          · simp only [ha, if_false, Except.ok.injEq, Bool.false_eq_true] at hst
            subst hst; exact hl
      exact ih s1 h1 hc1 hl1 hno'

/-! ## masks -/

theorem orMasks_and_ne_zero (l : List Rec) (b : Nat) :
    orMasks l &&& b ≠ 0 ↔ ∃ r ∈ l, r.mask &&& b ≠ 0 := by
  induction l with
  | nil => simp [orMasks]
  | cons a l ih =>
    have : orMasks (a :: l) = a.mask ||| orMasks l := rfl
    rw [this, Nat.and_or_distrib_right, ne_eq, Nat.or_eq_zero_iff, Classical.not_and_iff_not_or_not]
    constructor
    · rintro (h | h)
      · exact ⟨a, by simp, h⟩
      · obtain ⟨r, hr, hm⟩ := ih.mp h
        exact ⟨r, by simp [hr], hm⟩
    · rintro ⟨r, hr, hm⟩
      rcases List.mem_cons.mp hr with rfl | hr
      · exact Or.inl hm
      · exact Or.inr (ih.mpr ⟨r, hr, hm⟩)

end Zvbi.Ev

namespace Zvbi.Ev

theorem send_complete (beh : Behav) (fuel ev : Nat) (s s' : State) (h : Inv s)
    (hs : send beh fuel ev s = .ok s') (r : Rec) (hr : r ∈ s.handlers) (hm : r.mask &&& ev ≠ 0)
    (hU : UndisturbedBefore beh ev r s.trace.length s'.trace) :
    ∃ X, s'.trace = s.trace ++ X ∧ r.id ∈ callIds X := by
  unfold send at hs
  by_cases hl : s.locked = true
  · simp [hl] at hs
  · have hl' : s.locked = false := by cases hh : s.locked <;> simp_all
    simp only [hl', Bool.false_eq_true, if_false] at hs
    cases hloop : sendLoop beh ev fuel (Option.map (fun x => x.id) s.handlers.head?) { s with locked := true } with
    | error e => rw [hloop] at hs; simp at hs
    | ok s1 =>
      rw [hloop] at hs
      simp only [Except.ok.injEq] at hs
      subst hs
      have h0 : Inv { s with locked := true } := inv_congr h rfl rfl rfl rfl rfl
      obtain ⟨r1, hh1, hle1⟩ := head_le_of_sorted h.sorted hr
      rw [hh1] at hloop
      simp only [Option.map_some] at hloop
      exact sendLoop_complete beh ev r fuel r1.id { s with locked := true } s1 h0
        (mem_ids.mpr ⟨r1, List.mem_of_mem_head? hh1, rfl⟩) hle1 ⟨r, hr, rfl, rfl, rfl, hm⟩ hloop hU

theorem count_le_one_of_pairwise_lt (l : List Nat) (h : l.Pairwise (· < ·)) (a : Nat) :
    l.count a ≤ 1 := by
  induction l with
  | nil => simp
  | cons b l ih =>
    rw [List.pairwise_cons] at h
    rw [List.count_cons]
    by_cases hb : b = a
    · subst hb
      have : l.count b = 0 := by
        rw [List.count_eq_zero]
        intro hm
        have := h.1 b hm
        omega
      simp [this]
    · have := ih h.2
      simp [hb]; exact this

end Zvbi.Ev
