import ZvbiModel.Gfx.Model
/-!
# Lemmas for the font side of draw_char (Props/C01Gfx.lean): the range of unicode_wstfont2 for every unsigned argument
-/
namespace Zvbi.Gfx
open Zvbi.Gen.C01Gfx

/-- the search loop returns `invalid` or a glyph of the two rows of specials -/
theorem uwSpecial_lt (c : Nat) (italic : Bool) : ∀ f i, uwSpecial c italic f i < tcpl := by
  intro f
  induction f with
  | zero => intro i; simp [uwSpecial, uwInvalid, tcpl]
  | succ f ih =>
    intro i
    unfold uwSpecial
    split
    · next hi =>
      split
      · have : uwSpecials.length = 41 := by decide
        split <;> simp only [uwN93, uwN94, uwN95, uwN96, tcpl] <;> omega
      · exact ih (i + 1)
    · simp [uwInvalid, tcpl]

/-- G1 graphics: `c ^ 0x20` stays in the block -/
theorem xor_block : ∀ k : Fin 256, uwN80 ≤ (uwN80 + k.val) ^^^ uwN79 ∧ (uwN80 + k.val) ^^^ uwN79 < uwN78 := by decide +kernel

theorem uwTail_lt (c : Nat) (italic : Bool) (h : c < uwN87 * uwN88 ∨ c < tcpl) (h2 : c < 4294967296) : uwTail c italic < tcpl := by
  unfold uwTail
  split
  · next hc => simp only [add32, uwN87, uwN88, uwN89, uwN90, tcpl] at *; omega
  · next hc =>
    rcases h with h | h
    · simp only [uwN87, uwN88, tcpl] at *; omega
    · exact h

set_option linter.unusedSimpArgs false in
/-- **range of unicode_wstfont2**: for every unsigned argument and both values of `italic` the glyph number is below TCPL -/
theorem unicodeWstfont2_lt (c : Nat) (italic : Bool) (hc : c < 4294967296) : unicodeWstfont2 c italic < tcpl := by
  unfold unicodeWstfont2
  have hs := uwSpecial_lt c italic (uwSpecials.length + 1) uwN91
  simp only []
  split
  · next hA =>
    split
    · split
      · simp only [uwInvalid, tcpl]; omega
      · apply uwTail_lt
        · simp only [add32, sub32, tcpl, uwN43, uwN44, uwN45, uwN46, uwN47, uwN87, uwN88] at *; omega
        · simp only [add32]; omega
    · split
      · simp only [uwInvalid, tcpl]; omega
      · apply uwTail_lt
        · simp only [add32, sub32, tcpl, uwN42, uwN43, uwN48, uwN49, uwN50, uwN51, uwN87, uwN88] at *; omega
        · simp only [add32]; omega
  · split
    · split
      · split
        · split
          · exact hs
          · next h1 h2 h3 h4 =>
            apply uwTail_lt
            · simp only [add32, sub32, tcpl, uwN54, uwN55, uwN56, uwN57, uwN58, uwN87, uwN88] at h3 h4 ⊢; omega
            · simp only [add32]; omega
        · split
          · simp only [uwInvalid, tcpl]; omega
          · next h1 h2 h3 h4 =>
            apply uwTail_lt
            · simp only [add32, sub32, tcpl, uwN53, uwN59, uwN60, uwN61, uwN62, uwN87, uwN88] at h2 h4 ⊢; omega
            · simp only [add32]; omega
      · split
        · split
          · split
            · simp only [uwInvalid, tcpl]; omega
            · next h1 h2 h3 h4 h5 =>
              simp only [add32, sub32, tcpl, uwN64, uwN65, uwN66, uwN67, uwN68] at h4 h5 ⊢; omega
          · split
            · simp only [uwInvalid, tcpl]; omega
            · next h1 h2 h3 h4 h5 =>
              simp only [add32, sub32, tcpl, uwN63, uwN69, uwN70, uwN71, uwN72] at h3 h5 ⊢; omega
        · split
          · next h1 h2 h3 h4 =>
            simp only [add32, sub32, tcpl, uwN73, uwN74, uwN75, uwN76, uwN77] at h4 ⊢; omega
          · exact hs
    · split
      · next h1 h2 h3 =>
        have hk : c - uwN80 < 256 := by simp only [uwN52, uwN78, uwN80] at *; omega
        have hx := xor_block ⟨c - uwN80, hk⟩
        have he : uwN80 + (c - uwN80) = c := by simp only [uwN52, uwN80] at *; omega
        simp only [he] at hx
        generalize c ^^^ uwN79 = x at hx
        simp only [add32, sub32, tcpl, uwN78, uwN80, uwN81, uwN82] at hx ⊢; omega
      · split
        · next h1 h2 h3 h4 =>
          simp only [add32, sub32, tcpl, uwN78, uwN83, uwN84, uwN85, uwN86] at h3 h4 ⊢; omega
        · simp only [uwInvalid, tcpl]; omega

theorem lower_sub_half : ∀ s ∈ dcLowerSizes, s ∈ dcHalfSizes := by decide

/-- draw_char with the Teletext font: with a glyph number below TCPL every byte read (`src[0]`, `src[1]` of every line, upper
and lower halves) lies inside wstfont2_bits -/
theorem drawCharReads_ok (glyph size cb : Nat) (hg : glyph < tcpl) : ∀ a ∈ drawCharReads tcpl tcw tch glyph size, okAcc cb a := by
  intro a ha
  unfold drawCharReads at ha
  simp only [] at ha
  obtain ⟨y, hy, ha⟩ := List.mem_flatMap.mp ha
  obtain ⟨k, hk, rfl⟩ := List.mem_map.mp ha
  rw [List.mem_range] at hy
  have hk' : k ≤ 1 := by simp [dcSrcIdx] at hk; omega
  show _ < wstBytes
  have hsub := lower_sub_half size
  by_cases h1 : size ∈ dcLowerSizes <;> by_cases h2 : size ∈ dcHalfSizes
  · simp only [h1, h2, if_true] at hy ⊢
    simp only [tcpl, tcw, tch, dcShift, dcDiv, dcHalf, dcChShift, dcDiv2, wstBytes, Nat.shiftRight_eq_div_pow, Nat.reducePow] at *; omega
  · exact absurd (hsub h1) h2
  · simp only [h1, h2, if_true, if_false] at hy ⊢
    simp only [tcpl, tcw, tch, dcShift, dcDiv, dcHalf, dcChShift, dcDiv2, wstBytes, Nat.shiftRight_eq_div_pow, Nat.reducePow] at *; omega
  · simp only [h1, h2, if_false] at hy ⊢
    simp only [tcpl, tcw, tch, dcShift, dcDiv, dcHalf, dcChShift, dcDiv2, wstBytes, Nat.shiftRight_eq_div_pow, Nat.reducePow] at *; omega

end Zvbi.Gfx
