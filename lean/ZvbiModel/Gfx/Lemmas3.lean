import ZvbiModel.Gfx.Lemmas
import ZvbiModel.Gfx.Lemmas2
/-!
# The whole cell of vbi_draw_vt_page_region: DRCS, blank, draw_char (lemmas for Props/C01Gfx.lean)
-/
namespace Zvbi.Gfx
open Zvbi.Gen.C01Gfx

theorem charPokes_lt : ∀ l ∈ charLoops, ∀ p ∈ loopPokes l, p.1 + p.2.1 < tch ∧ p.2.2 < cellW l.1 * tcw := by decide +kernel
theorem blankPokes_lt : ∀ p ∈ loopPokes blankLoop, p.1 + p.2.1 < tch ∧ p.2.2 < 1 * tcw := by decide +kernel

theorem cellW_cases (s : Nat) : cellW s = 1 ∨ cellW s = 2 := by unfold cellW; split <;> simp

/-- pokes of a loop whose pixels stay in `w` cells, drawn in cell (r, c) with `w` cells left in the region row -/
theorem pokeBytes_ok (l : Loop) {w ct rs width height r c : Nat} (hw : w = 1 ∨ w = 2)
    (hl : ∀ p ∈ loopPokes l, p.1 + p.2.1 < tch ∧ p.2.2 < w * tcw) (hct : 0 < ct)
    (hrs : width * tcw * ct ≤ rs) (hr : r < height) (hc : c + w ≤ width) :
    ∀ a ∈ pokeBytes l ct rs (r * (rs * 10) + c * (12 * ct)), okAcc (rs * (height * tch)) a := by
  intro a ha
  obtain ⟨p, hp, rfl⟩ := List.mem_map.mp ha
  obtain ⟨h1, h2⟩ := hl p hp
  show _ < rs * (height * tch)
  simp only [tcw, tch] at *
  exact canvas_bound hct hrs hr h1 (by rcases hw with rfl | rfl <;> omega)

theorem size_fits (s c width : Nat) (hc : c < width) : c + cellW (clipSize s (decide (c + 1 = width))) ≤ width := by
  by_cases hl : c + 1 = width
  · have : cellW (clipSize s (decide (c + 1 = width))) = 1 := by rw [decide_eq_true hl]; exact cellW_clip_last _
    omega
  · have h2 := cellW_le (clipSize s (decide (c + 1 = width)))
    omega

theorem regionAccFull_ok (font : Nat → Nat → Nat) (planeSet : Nat → Bool) (ct rs width height : Nat) (cells : Nat → Nat → Cell)
    (italic : Nat → Nat → Bool) (hct : 0 < ct) (hrs : width * tcw * ct ≤ rs)
    (hu : ∀ r c, r < height → c < width → (cells r c).unicode < 2 ^ 32)
    (hcells : ∀ r c, r < height → c < width → isDrcs (cells r c).unicode = true → planeSet (planeOf (cells r c).unicode) = true →
      glyphOf (cells r c).unicode < charsGlyphs ∧ (cells r c).color + penNibbleMax < penLen) :
    ∀ a ∈ regionAccFull font planeSet ct rs width height cells italic, okAcc (rs * (height * tch)) a := by
  intro a ha
  unfold regionAccFull at ha
  have hb : width * 12 * ct + (rs * 10 - width * 12 * ct) = rs * 10 := by simp only [tcw] at hrs; omega
  rcases List.mem_cons.mp ha with rfl | ha
  · show _ = 0
    simp only [tcw, advW, advH] at *; omega
  · obtain ⟨r, hr, ha⟩ := List.mem_flatMap.mp ha
    obtain ⟨c, hc, ha⟩ := List.mem_flatMap.mp ha
    rw [List.mem_range] at hr hc
    have hbase : r * (width * tcw * ct + (rs * advH - width * advW * ct)) + c * (tcw * ct) = r * (rs * 10) + c * (12 * ct) := by
      simp only [tcw, advW, advH]; rw [hb]
    rw [hbase] at ha
    have hfit := size_fits (cells r c).size c width hc
    unfold cellAccFull at ha
    split at ha
    · next hd =>
      rcases List.mem_cons.mp ha with rfl | ha
      · show planeOf _ < pageDrcsLen
        have : planeOf (cells r c).unicode ≤ planeMask := Nat.and_le_right
        simp only [planeMask, pageDrcsLen] at *; omega
      · split at ha
        · next hps =>
          obtain ⟨hg, hcol⟩ := hcells r c hr hc hd hps
          exact drawDrcs_ok _ hct hrs hr hfit hg hcol a ha
        · exact pokeBytes_ok blankLoop (Or.inl rfl) blankPokes_lt hct hrs hr (by omega) a ha
    · rcases List.mem_append.mp ha with ha | ha
      · rcases List.mem_append.mp ha with ha | ha
        · exact drawCharReads_ok _ _ _ (unicodeWstfont2_lt _ _ (hu r c hr hc)) a ha
        · simp only [List.mem_cons, List.mem_nil_iff, or_false] at ha
          rcases ha with rfl | rfl <;> (show _ < penLen; decide)
      · unfold drawCharPokes at ha
        split at ha
        · simp at ha
        · next l hl =>
          have hmem : l ∈ charLoops := List.mem_of_find?_eq_some hl
          have hsz : l.1 = clipSize (cells r c).size (decide (c + 1 = width)) := by simpa using List.find?_some hl
          have hfacts := charPokes_lt l hmem
          rw [hsz] at hfacts
          exact pokeBytes_ok l (cellW_cases _) hfacts hct hrs hr hfit a ha

end Zvbi.Gfx
