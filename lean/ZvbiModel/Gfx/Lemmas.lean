import ZvbiModel.Gfx.Model
/-!
# Lemmas for Props/C01Gfx.lean

The facts about the loops of draw_drcs are decided over the COMPLETE iteration space of each loop (bounds are regenerated
constants, independent of any input); everything that depends on an input (glyph, colour, font bytes, cell position, row
stride, canvas type, region size, unicode) is proved structurally.
-/
namespace Zvbi.Gfx
open Zvbi.Gen.C01Gfx

/-- every byte a loop of draw_drcs reads lies in the 60 bytes of ITS glyph (also with the `src += 30` of the lower halves) -/
theorem loopReads_lt : ∀ l ∈ drcsLoops, ∀ r ∈ loopReads l, r < glyphStride := by decide +kernel

/-- every pixel a loop writes lies in the 10 lines of the cell row and in the 12 (24 for the sizes clip_size replaces) pixel
columns of the character -/
theorem loopPokes_lt : ∀ l ∈ drcsLoops, ∀ p ∈ loopPokes l, p.1 + p.2.1 < tch ∧ p.2.2 < cellW l.1 * tcw := by decide +kernel

theorem clipPairs_narrow : ∀ p ∈ clipPairs, cellW p.2 = 1 := by decide +kernel

theorem consts_agree : glyphStride = charsBytes ∧ advW = tcw ∧ advH = tch ∧ composedLen = composed.length := by decide +kernel

theorem findLoop_mem {size : Nat} {l : Loop} (h : findLoop size = some l) : l ∈ drcsLoops ∧ l.1 = size := by
  unfold findLoop at h
  exact ⟨List.mem_of_find?_eq_some h, by simpa using List.find?_some h⟩

theorem cellW_le (s : Nat) : cellW s ≤ 2 := by
  unfold cellW; split <;> omega

/-- in the last column clip_size leaves only sizes one cell wide -/
theorem cellW_clip_last (s : Nat) : cellW (clipSize s true) = 1 := by
  unfold clipSize
  simp only [if_true]
  split
  · next p hp => exact clipPairs_narrow p (List.mem_of_find?_eq_some hp)
  · next hn => unfold cellW; rw [hn]

theorem nibble_lo (b : Nat) : b % 256 &&& 15 ≤ 15 := Nat.and_le_right
theorem nibble_hi (b : Nat) : b % 256 >>> 4 ≤ 15 := by
  rw [Nat.shiftRight_eq_div_pow]; have := Nat.mod_lt b (by decide : 256 > 0); omega

set_option linter.unusedSimpArgs false in
/-- the arithmetic of one poke: cell (r, c) of a region `width` cells wide in a canvas of `height * 10` lines of `rs` bytes -/
theorem canvas_bound {r c ln rm px ct rs width height : Nat} (hct : 0 < ct) (hrs : width * 12 * ct ≤ rs) (hr : r < height)
    (hl : ln + rm < 10) (hp : c * 12 + px < width * 12) :
    r * (rs * 10) + c * (12 * ct) + ln * rs + (rm * (rs / ct) + px) * ct + (ct - 1) < rs * (height * 10) := by
  have h1 : rs / ct * ct ≤ rs := Nat.div_mul_le_self rs ct
  have h2 : rm * (rs / ct * ct) ≤ rm * rs := Nat.mul_le_mul_left rm h1
  have h3 : (c * 12 + px + 1) * ct ≤ width * 12 * ct := Nat.mul_le_mul_right ct hp
  have h4 : (r * 10 + ln + rm + 1) * rs ≤ height * 10 * rs := Nat.mul_le_mul_right rs (by omega)
  simp only [Nat.add_mul, Nat.mul_add, Nat.mul_assoc, Nat.mul_comm, Nat.mul_left_comm, Nat.one_mul, Nat.mul_one] at h2 h3 h4 hrs ⊢
  omega

/-- draw_drcs with a glyph below 48 and a colour offset that leaves room for a 4 bit pixel value, in cell (r, c) of the
region, with a size that fits the cells left in the row -/
theorem drawDrcs_ok (font : Nat → Nat) {ct rs width height r c color glyph size : Nat} (hct : 0 < ct)
    (hrs : width * tcw * ct ≤ rs) (hr : r < height) (hc : c + cellW size ≤ width) (hg : glyph < charsGlyphs)
    (hcol : color + penNibbleMax < penLen) :
    ∀ a ∈ drawDrcs font ct rs (r * (rs * 10) + c * (12 * ct)) color glyph size, okAcc (rs * (height * tch)) a := by
  intro a ha
  unfold drawDrcs at ha
  split at ha
  · simp at ha
  · next l hl =>
    obtain ⟨hmem, hsz⟩ := findLoop_mem hl
    rcases List.mem_append.mp ha with ha | ha
    · obtain ⟨rd, hrd, ha⟩ := List.mem_flatMap.mp ha
      have hlt := loopReads_lt l hmem rd hrd
      simp only [List.mem_cons, List.mem_nil_iff, or_false] at ha
      rcases ha with rfl | rfl | rfl
      · show _ < charsGlyphs * charsBytes
        simp only [glyphStride, charsGlyphs, charsBytes] at *; omega
      · show _ < penLen
        have := nibble_lo (font (glyph * glyphStride + rd)); simp only [penNibbleMax, penLen] at *; omega
      · show _ < penLen
        have := nibble_hi (font (glyph * glyphStride + rd)); simp only [penNibbleMax, penLen] at *; omega
    · obtain ⟨p, hp, rfl⟩ := List.mem_map.mp ha
      obtain ⟨h1, h2⟩ := loopPokes_lt l hmem p hp
      rw [hsz] at h2
      show _ < rs * (height * tch)
      have hw := cellW_le size
      simp only [tcw, tch] at *
      exact canvas_bound hct hrs hr h1 (by
        have : cellW size * 12 = 12 ∨ cellW size * 12 = 24 := by
          have : cellW size = 1 ∨ cellW size = 2 := by unfold cellW; split <;> simp
          omega
        omega)

/-- the search loop: indexes below the extent only, result 0 or 0xC0 + (an index of the table) -/
theorem cuLoop_ok (c : Nat) (cb : Nat) : ∀ (f i : Nat),
    (∀ a ∈ (cuLoop c f i).1, okAcc cb a) ∧ ((cuLoop c f i).2 = 0 ∨ (cuBase ≤ (cuLoop c f i).2 ∧ (cuLoop c f i).2 < cuBase + composedLen)) := by
  intro f
  induction f with
  | zero => intro i; simp [cuLoop]
  | succ f ih =>
    intro i
    unfold cuLoop
    split
    · next hi =>
      have hlen : i < composed.length := by rw [← consts_agree.2.2.2]; exact hi
      split
      · next v hv =>
        split
        · refine ⟨?_, Or.inr ⟨by omega, by omega⟩⟩
          intro a ha; simp only [List.mem_cons, List.mem_nil_iff, or_false] at ha; subst ha; exact hlen
        · refine ⟨?_, (ih (i + 1)).2⟩
          intro a ha
          rcases List.mem_cons.mp ha with rfl | ha
          · exact hlen
          · exact (ih (i + 1)).1 a ha
      · refine ⟨?_, Or.inl rfl⟩
        intro a ha; simp only [List.mem_cons, List.mem_nil_iff, or_false] at ha; subst ha; exact hlen
    · simp

end Zvbi.Gfx
