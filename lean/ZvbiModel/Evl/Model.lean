import ZvbiModel.Generated.EvConsts
/-!
# Model of the second event handler list, `src/event.c` (property C11, sub-component `evl`)

`_vbi_event_handler_list_{init,add,remove,remove_by_callback,remove_by_event}` and
`__vbi_event_handler_list_send`, used by cache.c and cc608_decoder.c.  Removal during a delivery is
deferred: while `ref_count > 0` a record is only marked `remove`; the outermost delivery unlinks
and frees the marked records when it ends.  Deliveries may nest (a callback may send).

A record is a `Rec` with a fresh id per `vbi_malloc`; the list is `State.list` in link order; a
pointer is an id, and dereferencing an id that is no longer linked is the explicit error
`deadDeref`.  The parameter `rv` of the functions says whether `_add` clears the `remove` mark of a record it
finds again (it does not in the original code; `Zvbi.Gen.Ev.readdRevives` is read off event.c by
translate/gen_ev.py and is what the driver passes).  Callbacks are arbitrary behaviours: functions from the whole trace so far to the list
of API calls (including nested `send`s) they issue.
-/
namespace Zvbi.Evl
open Zvbi.Gen.Ev

structure Rec where
  id : Nat
  fn : Nat
  user : Nat
  mask : Nat
  remove : Bool
deriving Repr, DecidableEq

inductive Call
  | add (fn user mask : Nat) (oom : Bool)   -- _add; mask 0 = _remove_by_callback
  | removeRec (id : Nat)                    -- _remove (el, eh), eh given by its id
  | removeByEvent (mask : Nat)              -- _remove_by_event
  | send (ev : Nat)                         -- __vbi_event_handler_list_send
deriving Repr, DecidableEq

inductive Entry
  | call (did id fn user ev : Nat)     -- delivery number, record, callback, user_data, type
  | unreg (id : Nat)                   -- record removed by an API call (unlinked, or newly marked)
  | free (id : Nat)                    -- vbi_free (eh)
  | alloc (id fn user mask : Nat)
  | api (c : Call)                     -- ghost: this API call was executed (at any depth)
  | begin (did ev : Nat)               -- ghost: send number `did` of type `ev` entered
  | done (did : Nat)                   -- ghost: send number `did` returned
  | oom
deriving Repr, DecidableEq

inductive Err
  | deadDeref (id : Nat)
  | fuel
deriving Repr, DecidableEq

structure State where
  list : List Rec := []
  eventMask : Nat := 0
  refCount : Nat := 0
  nextId : Nat := 0
  nextDid : Nat := 0
  trace : List Entry := []
deriving Repr, DecidableEq

def init : State := {}

abbrev Behav := List Entry → (fn user ev : Nat) → List Call

def M32 : Nat := 4294967295

structure WalkOut where
  chain : List Rec
  found : Bool
  union : Nat
  unreg : List Nat
  freed : List Nat
deriving Repr

/-- the `while (NULL != (eh = *ehp))` loop of `_vbi_event_handler_list_add` (event.c:211-231);
`idle` is `0 == el->ref_count` -/
def walkAdd (rv : Bool) (fn user evm : Nat) (idle : Bool) : List Rec → WalkOut
  | [] => ⟨[], false, 0, [], []⟩
  | eh :: rest =>
    let o := walkAdd rv fn user evm idle rest
    if eh.fn == fn && eh.user == user then
      if evm = 0 then
        if idle then
          -- *ehp = eh->next; vbi_free (eh); continue;
          { o with unreg := eh.id :: o.unreg, freed := eh.id :: o.freed }
        else
          -- eh->remove = TRUE; ehp = &eh->next; continue;   (not added to the union)
          { o with chain := { eh with remove := true } :: o.chain,
                   unreg := if eh.remove then o.unreg else eh.id :: o.unreg }
      else
        -- found = eh; eh->event_mask = event_mask;  and, if `rv`, eh->remove = FALSE;
        { o with chain := { eh with mask := evm, remove := if rv then false else eh.remove } :: o.chain,
                 found := true, union := evm ||| o.union }
    else
      { o with chain := eh :: o.chain, union := eh.mask ||| o.union }

def apiAdd (rv : Bool) (fn user evm : Nat) (oom : Bool) (s : State) : State :=
  let o := walkAdd rv fn user evm (s.refCount == 0) s.list
  let tr := s.trace ++ o.unreg.map Entry.unreg ++ o.freed.map Entry.free
  if !o.found && evm ≠ 0 then
    if oom then
      -- vbi_malloc failed: nothing appended, el->event_mask = event_union
      { s with list := o.chain, eventMask := o.union, trace := tr ++ [Entry.oom] }
    else
      { s with list := o.chain ++ [{ id := s.nextId, fn := fn, user := user, mask := evm, remove := false }],
               eventMask := o.union ||| evm, nextId := s.nextId + 1,
               trace := tr ++ [Entry.alloc s.nextId fn user evm] }
  else
    { s with list := o.chain, eventMask := o.union, trace := tr }

/-- `_vbi_event_handler_list_remove` (event.c:145-173) -/
def walkRemove (id : Nat) (idle : Bool) : List Rec → WalkOut
  | [] => ⟨[], false, 0, [], []⟩
  | eh :: rest =>
    let o := walkRemove id idle rest
    if eh.id == id then
      if idle then { o with unreg := eh.id :: o.unreg, freed := eh.id :: o.freed }
      else { o with chain := { eh with remove := true } :: o.chain,
                    unreg := if eh.remove then o.unreg else eh.id :: o.unreg }
    else { o with chain := eh :: o.chain, union := eh.mask ||| o.union }

def apiRemove (id : Nat) (s : State) : State :=
  let o := walkRemove id (s.refCount == 0) s.list
  { s with list := o.chain, eventMask := o.union,
           trace := s.trace ++ o.unreg.map Entry.unreg ++ o.freed.map Entry.free }

/-- `_vbi_event_handler_list_remove_by_event` (event.c:88-116) -/
def walkByEvent (clear : Nat) (idle : Bool) : List Rec → WalkOut
  | [] => ⟨[], false, 0, [], []⟩
  | eh :: rest =>
    let o := walkByEvent clear idle rest
    let m := eh.mask &&& clear          -- eh->event_mask &= clear_mask
    if m = 0 then
      if idle then { o with unreg := eh.id :: o.unreg, freed := eh.id :: o.freed }
      else { o with chain := { eh with mask := m, remove := true } :: o.chain,
                    unreg := if eh.remove then o.unreg else eh.id :: o.unreg }
    else { o with chain := { eh with mask := m } :: o.chain }

def apiRemoveByEvent (evm : Nat) (s : State) : State :=
  let clear := M32 ^^^ evm              -- ~event_mask (32 bit)
  let o := walkByEvent clear (s.refCount == 0) s.list
  { s with list := o.chain, eventMask := s.eventMask &&& clear,
           trace := s.trace ++ o.unreg.map Entry.unreg ++ o.freed.map Entry.free }

/-- the sweep at the end of the outermost delivery (event.c:67-76) -/
def sweep (s : State) : State :=
  { s with list := s.list.filter (fun r => !r.remove),
           trace := s.trace ++ (s.list.filter (·.remove)).map (fun r => Entry.free r.id) }

/-- `eh->next` of the record with id `c`: `none` if `c` is not linked (dangling pointer) -/
def nextOf (c : Nat) : List Rec → Option (Option Nat)
  | [] => none
  | r :: rest => if r.id = c then some (rest.head?.map (·.id)) else nextOf c rest

mutual
/-- one API call; `send` consumes fuel (nesting depth plus loop iterations) -/
def exec (rv : Bool) (beh : Behav) : Nat → State → Call → Except Err State
  | _, s, .add fn user m oom => .ok (apiAdd rv fn user m oom { s with trace := s.trace ++ [Entry.api (.add fn user m oom)] })
  | _, s, .removeRec id => .ok (apiRemove id { s with trace := s.trace ++ [Entry.api (.removeRec id)] })
  | _, s, .removeByEvent m => .ok (apiRemoveByEvent m { s with trace := s.trace ++ [Entry.api (.removeByEvent m)] })
  | 0, _, .send _ => .error .fuel
  | fuel + 1, s, .send ev =>
    -- every call of send gets a serial number `d` (ghost), also when it returns at once
    let d := s.nextDid
    let s := { s with trace := s.trace ++ [Entry.api (.send ev), Entry.begin d ev], nextDid := d + 1 }
    -- if (0 == (el->event_mask & ev->type)) return;
    if s.eventMask &&& ev = 0 then .ok { s with trace := s.trace ++ [Entry.done d] } else
    -- el->ref_count = ref_count + 1   (the overflow guard needs 2^32 nested deliveries)
    let s0 := { s with refCount := s.refCount + 1 }
    match loop rv beh d ev fuel (s0.list.head?.map (·.id)) s0 with
    | .error e => .error e
    | .ok s1 =>
      -- el->ref_count = --ref_count; if (ref_count > 0) return; sweep
      let s2 := { s1 with refCount := s1.refCount - 1 }
      let s3 := if s2.refCount > 0 then s2 else sweep s2
      .ok { s3 with trace := s3.trace ++ [Entry.done d] }

/-- `for (eh = el->first; NULL != eh; eh = eh->next) if (0 != (eh->event_mask & ev->type) && !eh->remove)
       eh->callback (ev, eh->user_data);` -/
def loop (rv : Bool) (beh : Behav) (d ev : Nat) : Nat → Option Nat → State → Except Err State
  | _, none, s => .ok s
  | 0, some _, _ => .error .fuel
  | fuel + 1, some c, s =>
    match s.list.find? (fun r => r.id == c) with
    | none => .error (.deadDeref c)
    | some eh =>
      let r : Except Err State :=
        if eh.mask &&& ev ≠ 0 && !eh.remove then
          (beh s.trace eh.fn eh.user ev).foldlM (fun s c => exec rv beh fuel s c)
            { s with trace := s.trace ++ [Entry.call d eh.id eh.fn eh.user ev] }
        else .ok s
      match r with
      | .error e => .error e
      | .ok s2 =>
        match nextOf c s2.list with         -- eh = eh->next
        | none => .error (.deadDeref c)
        | some nx => loop rv beh d ev fuel nx s2
end

/-- a history of top-level calls -/
def run (rv : Bool) (beh : Behav) (fuel : Nat) : State → List Call → Except Err State
  | s, [] => .ok s
  | s, c :: cs =>
    match exec rv beh fuel s c with
    | .ok s' => run rv beh fuel s' cs
    | .error e => .error e

end Zvbi.Evl
