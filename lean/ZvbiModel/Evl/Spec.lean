import ZvbiModel.Evl.Model
/-!
# Vocabulary of the C11 theorems about the second handler list (`src/event.c`)
-/
namespace Zvbi.Evl

def ids (l : List Rec) : List Nat := l.map (·.id)

def Entry.callId : Entry → Option Nat
  | .call _ id _ _ _ => some id
  | _ => none

/-- ids of the records invoked by delivery number `d`, in order -/
def callsOf (d : Nat) (t : List Entry) : List Nat :=
  t.filterMap (fun e => match e with | .call d' id _ _ _ => if d' = d then some id else none | _ => none)

/-- for entries `a` before `b`: if `a` frees record `x`, `b` is not an invocation of `x` -/
def NoCallAfterFree (t : List Entry) : Prop :=
  t.Pairwise (fun a b => ∀ x, a = Entry.free x → b.callId ≠ some x)

/-- for entries `a` before `b`: if `a` removes record `x` (unlinks it or marks it), `b` is not an
invocation of `x` -/
def NoCallAfterUnreg (t : List Entry) : Prop :=
  t.Pairwise (fun a b => ∀ x, a = Entry.unreg x → b.callId ≠ some x)

/-- Invariant of every state a history can reach, also inside (nested) deliveries. -/
structure Inv (rv : Bool) (s : State) : Prop where
  /-- the list is ordered by record id = by time of registration -/
  sorted : (ids s.list).Pairwise (· < ·)
  bound : ∀ r ∈ s.list, r.id < s.nextId
  /-- outside deliveries no record is marked for removal -/
  idleClean : s.refCount = 0 → ∀ r ∈ s.list, r.remove = false
  /-- `el->event_mask` contains every bit a registered (unmarked) handler asks for, so the early
  return of `send` never drops an event somebody wants -/
  maskSup : ∀ r ∈ s.list, r.remove = false → ∀ b, r.mask &&& b ≠ 0 → s.eventMask &&& b ≠ 0
  freedDead : ∀ x, Entry.free x ∈ s.trace → x ∉ ids s.list ∧ x < s.nextId
  ncaf : NoCallAfterFree s.trace
  callDid : ∀ d id f u e, Entry.call d id f u e ∈ s.trace → d < s.nextDid
  /-- each delivery invokes records in strictly increasing id order (at most once, in order) -/
  ordered : ∀ d, (callsOf d s.trace).Pairwise (· < ·)
  /-- original code: a removed record that is still linked is marked -/
  unregMarked : rv = false → ∀ x, Entry.unreg x ∈ s.trace → ∀ r ∈ s.list, r.id = x → r.remove = true
  ncau : rv = false → NoCallAfterUnreg s.trace
  unregBound : ∀ x, Entry.unreg x ∈ s.trace → x < s.nextId

/-- API call `c` may take event `ev` away from record `r`: it removes the record, gives it a mask
that does not want `ev`, or is a remove_by_event -/
def disturbs (ev : Nat) (r : Rec) : Call → Prop
  | .add fn user m _ => fn = r.fn ∧ user = r.user ∧ m &&& ev = 0
  | .removeRec id => id = r.id
  | .removeByEvent _ => True
  | .send _ => False

/-- record `r0` is linked, not marked for removal, and wants `ev` -/
def Kept (ev : Nat) (r0 : Rec) (s : State) : Prop :=
  ∃ r ∈ s.list, r.id = r0.id ∧ r.fn = r0.fn ∧ r.user = r0.user ∧ r.remove = false ∧ r.mask &&& ev ≠ 0

/-- the entries logged between two states -/
def newPart (s s' : State) : List Entry := s'.trace.drop s.trace.length

/-- no API call logged in `t` disturbs record `r0` with respect to event `ev` -/
def Quiet (ev : Nat) (r0 : Rec) (t : List Entry) : Prop := ∀ c, Entry.api c ∈ t → ¬ disturbs ev r0 c

/-- the part of a delivery's log that precedes the turn of record `rid` in delivery `d`: everything
before the first invocation, by delivery `d`, of a record with id `rid` or larger -/
def beforeTurn (d rid : Nat) (t : List Entry) : List Entry :=
  t.takeWhile (fun e => match e with | .call d' id _ _ _ => !(d' == d && decide (rid ≤ id)) | _ => true)

/-- states reachable by a history of top-level calls (each of which returned) -/
def Reach (rv : Bool) (beh : Behav) (fuel : Nat) (s : State) : Prop :=
  ∃ cs, run rv beh fuel init cs = .ok s

end Zvbi.Evl
