import ZvbiModel.Evl.LemmasState
/-!
# exec / loop of the second list: the invariant through nested deliveries (C11, evl)
-/
namespace Zvbi.Evl

theorem exec_send_succ (rv : Bool) (beh : Behav) (fuel : Nat) (s : State) (ev : Nat) :
    exec rv beh (fuel + 1) s (.send ev) =
      (let d := s.nextDid
       let s := { s with trace := s.trace ++ [Entry.api (.send ev), Entry.begin d ev], nextDid := d + 1 }
       if s.eventMask &&& ev = 0 then .ok { s with trace := s.trace ++ [Entry.done d] } else
       let s0 := { s with refCount := s.refCount + 1 }
       match loop rv beh d ev fuel (s0.list.head?.map (·.id)) s0 with
       | .error e => .error e
       | .ok s1 =>
         let s2 := { s1 with refCount := s1.refCount - 1 }
         let s3 := if s2.refCount > 0 then s2 else sweep s2
         .ok { s3 with trace := s3.trace ++ [Entry.done d] }) := by
  rw [exec]; rfl

/-- the callback of record `eh` (if it wants the event and is not marked) with all the calls it issues -/
def callbackRun (rv : Bool) (beh : Behav) (d ev fuel : Nat) (eh : Rec) (s : State) : Except Err State :=
  if eh.mask &&& ev ≠ 0 && !eh.remove then
    (beh s.trace eh.fn eh.user ev).foldlM (fun s c => exec rv beh fuel s c)
      { s with trace := s.trace ++ [Entry.call d eh.id eh.fn eh.user ev] }
  else .ok s

theorem loop_succ (rv : Bool) (beh : Behav) (d ev fuel c : Nat) (s : State) :
    loop rv beh d ev (fuel + 1) (some c) s =
      (match s.list.find? (fun r => r.id == c) with
       | none => .error (.deadDeref c)
       | some eh =>
         match callbackRun rv beh d ev fuel eh s with
         | .error e => .error e
         | .ok s2 =>
           match nextOf c s2.list with
           | none => .error (.deadDeref c)
           | some nx => loop rv beh d ev fuel nx s2) := by
  rw [loop]; rfl

theorem find_spec {l : List Rec} {c : Nat} {eh : Rec}
    (h : l.find? (fun r => r.id == c) = some eh) : eh ∈ l ∧ eh.id = c := by
  refine ⟨List.mem_of_find?_eq_some h, ?_⟩
  have := List.find?_some h
  simpa using this

theorem find_some_of_mem {l : List Rec} {c : Nat} (hc : c ∈ ids l) :
    ∃ eh, l.find? (fun r => r.id == c) = some eh := by
  cases hf : l.find? (fun r => r.id == c) with
  | some eh => exact ⟨eh, rfl⟩
  | none =>
    rw [List.find?_eq_none] at hf
    obtain ⟨r, hr, hid⟩ := mem_ids.mp hc
    exact absurd (by simp [hid]) (hf r hr)

theorem nextOf_of_mem {l : List Rec} {c : Nat} (hs : (ids l).Pairwise (· < ·)) (hc : c ∈ ids l) :
    ∃ nx, nextOf c l = some nx ∧ ∀ c', nx = some c' → c' ∈ ids l ∧ c < c' := by
  induction l with
  | nil => simp [ids] at hc
  | cons a l ih =>
    obtain ⟨hlt, hs'⟩ := sorted_cons hs
    unfold nextOf
    by_cases ha : a.id = c
    · rw [if_pos ha]
      refine ⟨_, rfl, ?_⟩
      intro c' hc'
      cases l with
      | nil => simp at hc'
      | cons b l =>
        simp only [List.head?_cons, Option.map_some, Option.some.injEq] at hc'
        subst hc'
        exact ⟨by simp [ids], by have := hlt b (by simp); omega⟩
    · rw [if_neg ha]
      have hc' : c ∈ ids l := by
        simp only [ids, List.map_cons, List.mem_cons] at hc
        rcases hc with h1 | h1
        · exact absurd h1.symm ha
        · exact h1
      obtain ⟨nx, h1, h2⟩ := ih hs' hc'
      refine ⟨nx, h1, ?_⟩
      intro c' hcc
      obtain ⟨h3, h4⟩ := h2 c' hcc
      exact ⟨by simp only [ids, List.map_cons, List.mem_cons]; right; exact h3, h4⟩

theorem callsOf_single_same (d id f u e : Nat) : callsOf d [Entry.call d id f u e] = [id] := by
  simp [callsOf]

theorem callsOf_single_other {d d' : Nat} (h : d' ≠ d) (id f u e : Nat) :
    callsOf d [Entry.call d' id f u e] = [] := by
  simp [callsOf, h]

/-- logging the invocation of a linked, unmarked record that is ahead of everything delivery `d`
called so far -/
theorem inv_append_call {rv : Bool} {s : State} (h : Inv rv s) {eh : Rec} (hm : eh ∈ s.list)
    (hrm : eh.remove = false) (d ev : Nat) (hd : d < s.nextDid) (hlt : ∀ x ∈ callsOf d s.trace, x < eh.id) :
    Inv rv { s with trace := s.trace ++ [Entry.call d eh.id eh.fn eh.user ev] } := by
  refine ⟨h.sorted, h.bound, h.idleClean, h.maskSup, ?_, ?_, ?_, ?_, ?_, ?_, ?_⟩
  · intro x hx
    simp only [List.mem_append, List.mem_singleton, reduceCtorEq, or_false] at hx
    exact h.freedDead x hx
  · show NoCallAfterFree (s.trace ++ [Entry.call d eh.id eh.fn eh.user ev])
    unfold NoCallAfterFree
    rw [List.pairwise_append]
    refine ⟨h.ncaf, List.pairwise_singleton _ _, ?_⟩
    intro a ha b hb x hax
    simp only [List.mem_singleton] at hb
    subst hb hax
    simp only [Entry.callId, ne_eq, Option.some.injEq]
    intro h1; subst h1
    exact (h.freedDead eh.id ha).1 (mem_ids.mpr ⟨eh, hm, rfl⟩)
  · intro d' id f u e hin
    simp only [List.mem_append, List.mem_singleton, Entry.call.injEq] at hin
    rcases hin with hin | ⟨rfl, _⟩
    · exact h.callDid d' id f u e hin
    · exact hd
  · intro d'
    show (callsOf d' (s.trace ++ [Entry.call d eh.id eh.fn eh.user ev])).Pairwise (· < ·)
    rw [callsOf_append]
    by_cases hdd : d = d'
    · subst hdd
      rw [callsOf_single_same, List.pairwise_append]
      refine ⟨h.ordered d, List.pairwise_singleton _ _, ?_⟩
      intro a ha b hb
      simp only [List.mem_singleton] at hb
      subst hb
      exact hlt a ha
    · rw [callsOf_single_other hdd, List.append_nil]
      exact h.ordered d'
  · intro hrv x hx
    simp only [List.mem_append, List.mem_singleton, reduceCtorEq, or_false] at hx
    exact h.unregMarked hrv x hx
  · intro hrv
    show NoCallAfterUnreg (s.trace ++ [Entry.call d eh.id eh.fn eh.user ev])
    unfold NoCallAfterUnreg
    rw [List.pairwise_append]
    refine ⟨h.ncau hrv, List.pairwise_singleton _ _, ?_⟩
    intro a ha b hb x hax
    simp only [List.mem_singleton] at hb
    subst hb hax
    simp only [Entry.callId, ne_eq, Option.some.injEq]
    intro h1; subst h1
    have := h.unregMarked hrv eh.id ha eh hm rfl
    rw [hrm] at this; cases this
  · intro x hx
    simp only [List.mem_append, List.mem_singleton, reduceCtorEq, or_false] at hx
    exact h.unregBound x hx

/-- what we prove about `exec` with a given amount of fuel -/
def ExecOK (rv : Bool) (beh : Behav) (fuel : Nat) : Prop :=
  ∀ s c, Inv rv s →
    (∀ s', exec rv beh fuel s c = .ok s' → Inv rv s' ∧ Ext s.nextDid s s') ∧
    (∀ e, exec rv beh fuel s c = .error e → e = .fuel)

/-- ... and about the delivery loop -/
def LoopOK (rv : Bool) (beh : Behav) (fuel : Nat) : Prop :=
  ∀ d ev cur s, Inv rv s → 0 < s.refCount → d < s.nextDid →
    (∀ c, cur = some c → c ∈ ids s.list) → (∀ c, cur = some c → ∀ x ∈ callsOf d s.trace, x < c) →
    (∀ s', loop rv beh d ev fuel cur s = .ok s' → Inv rv s' ∧ Ext d s s') ∧
    (∀ e, loop rv beh d ev fuel cur s = .error e → e = .fuel)

theorem script_ok {rv : Bool} {beh : Behav} {fuel : Nat} (hx : ExecOK rv beh fuel) :
    ∀ (cs : List Call) (s : State), Inv rv s →
      (∀ s', cs.foldlM (fun s c => exec rv beh fuel s c) s = .ok s' → Inv rv s' ∧ Ext s.nextDid s s') ∧
      (∀ e, cs.foldlM (fun s c => exec rv beh fuel s c) s = .error e → e = .fuel) := by
  intro cs
  induction cs with
  | nil =>
    intro s h
    refine ⟨?_, ?_⟩
    · intro s' hs
      simp only [List.foldlM_nil, pure, Except.pure, Except.ok.injEq] at hs
      subst hs; exact ⟨h, Ext.refl _ _⟩
    · intro e hs
      simp [List.foldlM_nil, pure, Except.pure] at hs
  | cons c cs ih =>
    intro s h
    obtain ⟨hok, herr⟩ := hx s c h
    simp only [List.foldlM_cons, bind, Except.bind]
    cases hc : exec rv beh fuel s c with
    | error e1 =>
      refine ⟨by intro s' hs; simp at hs, ?_⟩
      intro e hs
      simp only [Except.error.injEq] at hs
      subst hs; exact herr e1 hc
    | ok s1 =>
      obtain ⟨h1, e1⟩ := hok s1 hc
      obtain ⟨hok2, herr2⟩ := ih s1 h1
      refine ⟨?_, ?_⟩
      · intro s' hs
        obtain ⟨h2, e2⟩ := hok2 s' hs
        exact ⟨h2, e1.trans (e2.mono e1.nextDid)⟩
      · intro e hs; exact herr2 e hs

theorem exec_loop_ok (rv : Bool) (beh : Behav) : ∀ fuel, ExecOK rv beh fuel ∧ LoopOK rv beh fuel := by
  intro fuel
  induction fuel with
  | zero =>
    refine ⟨?_, ?_⟩
    · intro s c h
      cases c with
      | add fn user m oom =>
        refine ⟨?_, by intro e hs; simp [exec] at hs⟩
        intro s' hs
        simp only [exec, Except.ok.injEq] at hs
        subst hs
        have h0 := inv_ghost h [Entry.api (.add fn user m oom)] s.nextDid (Nat.le_refl _) (by
          intro e he
          have : e = Entry.api (.add fn user m oom) := by simpa using he
          subst this; simp [Entry.callId])
        have e0 : Ext s.nextDid s { s with trace := s.trace ++ [Entry.api (.add fn user m oom)], nextDid := s.nextDid } :=
          ⟨rfl, Nat.le_refl _, Nat.le_refl _, fun _ => ⟨[], by simp⟩, _, rfl, by intro d id f u e hin; simp at hin⟩
        exact ⟨apiAdd_inv rv fn user m oom _ h0, e0.trans (apiAdd_ext rv fn user m oom _ h0 _)⟩
      | removeRec id =>
        refine ⟨?_, by intro e hs; simp [exec] at hs⟩
        intro s' hs
        simp only [exec, Except.ok.injEq] at hs
        subst hs
        have h0 := inv_ghost h [Entry.api (.removeRec id)] s.nextDid (Nat.le_refl _) (by
          intro e he
          have : e = Entry.api (.removeRec id) := by simpa using he
          subst this; simp [Entry.callId])
        have e0 : Ext s.nextDid s { s with trace := s.trace ++ [Entry.api (.removeRec id)], nextDid := s.nextDid } :=
          ⟨rfl, Nat.le_refl _, Nat.le_refl _, fun _ => ⟨[], by simp⟩, _, rfl, by intro d id f u e hin; simp at hin⟩
        exact ⟨apiRemove_inv rv id _ h0, e0.trans (apiRemove_ext rv id _ h0 _)⟩
      | removeByEvent m =>
        refine ⟨?_, by intro e hs; simp [exec] at hs⟩
        intro s' hs
        simp only [exec, Except.ok.injEq] at hs
        subst hs
        have h0 := inv_ghost h [Entry.api (.removeByEvent m)] s.nextDid (Nat.le_refl _) (by
          intro e he
          have : e = Entry.api (.removeByEvent m) := by simpa using he
          subst this; simp [Entry.callId])
        have e0 : Ext s.nextDid s { s with trace := s.trace ++ [Entry.api (.removeByEvent m)], nextDid := s.nextDid } :=
          ⟨rfl, Nat.le_refl _, Nat.le_refl _, fun _ => ⟨[], by simp⟩, _, rfl, by intro d id f u e hin; simp at hin⟩
        exact ⟨apiRemoveByEvent_inv rv m _ h0, e0.trans (apiRemoveByEvent_ext rv m _ h0 _)⟩
      | send ev =>
        refine ⟨by intro s' hs; simp [exec] at hs, ?_⟩
        intro e hs
        simp only [exec, Except.error.injEq] at hs
        exact hs.symm
    · intro d ev cur s h _ _ _ _
      cases cur with
      | none =>
        refine ⟨?_, by intro e hs; simp [loop] at hs⟩
        intro s' hs
        simp only [loop, Except.ok.injEq] at hs
        subst hs; exact ⟨h, Ext.refl _ _⟩
      | some c =>
        refine ⟨by intro s' hs; simp [loop] at hs, ?_⟩
        intro e hs
        simp only [loop, Except.error.injEq] at hs
        exact hs.symm
  | succ fuel ih =>
    obtain ⟨ihx, ihl⟩ := ih
    refine ⟨?_, ?_⟩
    · intro s c h
      cases c with
      | add fn user m oom =>
        refine ⟨?_, by intro e hs; simp [exec] at hs⟩
        intro s' hs
        simp only [exec, Except.ok.injEq] at hs
        subst hs
        have h0 := inv_ghost h [Entry.api (.add fn user m oom)] s.nextDid (Nat.le_refl _) (by
          intro e he
          have : e = Entry.api (.add fn user m oom) := by simpa using he
          subst this; simp [Entry.callId])
        have e0 : Ext s.nextDid s { s with trace := s.trace ++ [Entry.api (.add fn user m oom)], nextDid := s.nextDid } :=
          ⟨rfl, Nat.le_refl _, Nat.le_refl _, fun _ => ⟨[], by simp⟩, _, rfl, by intro d id f u e hin; simp at hin⟩
        exact ⟨apiAdd_inv rv fn user m oom _ h0, e0.trans (apiAdd_ext rv fn user m oom _ h0 _)⟩
      | removeRec id =>
        refine ⟨?_, by intro e hs; simp [exec] at hs⟩
        intro s' hs
        simp only [exec, Except.ok.injEq] at hs
        subst hs
        have h0 := inv_ghost h [Entry.api (.removeRec id)] s.nextDid (Nat.le_refl _) (by
          intro e he
          have : e = Entry.api (.removeRec id) := by simpa using he
          subst this; simp [Entry.callId])
        have e0 : Ext s.nextDid s { s with trace := s.trace ++ [Entry.api (.removeRec id)], nextDid := s.nextDid } :=
          ⟨rfl, Nat.le_refl _, Nat.le_refl _, fun _ => ⟨[], by simp⟩, _, rfl, by intro d id f u e hin; simp at hin⟩
        exact ⟨apiRemove_inv rv id _ h0, e0.trans (apiRemove_ext rv id _ h0 _)⟩
      | removeByEvent m =>
        refine ⟨?_, by intro e hs; simp [exec] at hs⟩
        intro s' hs
        simp only [exec, Except.ok.injEq] at hs
        subst hs
        have h0 := inv_ghost h [Entry.api (.removeByEvent m)] s.nextDid (Nat.le_refl _) (by
          intro e he
          have : e = Entry.api (.removeByEvent m) := by simpa using he
          subst this; simp [Entry.callId])
        have e0 : Ext s.nextDid s { s with trace := s.trace ++ [Entry.api (.removeByEvent m)], nextDid := s.nextDid } :=
          ⟨rfl, Nat.le_refl _, Nat.le_refl _, fun _ => ⟨[], by simp⟩, _, rfl, by intro d id f u e hin; simp at hin⟩
        exact ⟨apiRemoveByEvent_inv rv m _ h0, e0.trans (apiRemoveByEvent_ext rv m _ h0 _)⟩
      | send ev =>
        rw [exec_send_succ]
        -- the state after the ghost entries
        have ha := inv_ghost h [Entry.api (.send ev), Entry.begin s.nextDid ev] (s.nextDid + 1) (Nat.le_succ _) (by
          intro e he
          have : e = Entry.api (.send ev) ∨ e = Entry.begin s.nextDid ev := by simpa using he
          rcases this with rfl | rfl <;> simp [Entry.callId])
        have ea : Ext s.nextDid s { s with trace := s.trace ++ [Entry.api (.send ev), Entry.begin s.nextDid ev], nextDid := s.nextDid + 1 } :=
          ⟨rfl, Nat.le_refl _, Nat.le_succ _, fun _ => ⟨[], by simp⟩, _, rfl, by intro d id f u e hin; simp at hin⟩
        simp only
        by_cases hz : s.eventMask &&& ev = 0
        · simp only [hz, if_true]
          refine ⟨?_, by intro e hs; simp at hs⟩
          intro s' hs
          simp only [Except.ok.injEq] at hs
          subst hs
          have hb := inv_ghost ha [Entry.done s.nextDid] (s.nextDid + 1) (Nat.le_refl _) (by
            intro e he
            have : e = Entry.done s.nextDid := by simpa using he
            subst this; simp [Entry.callId])
          have eb : Ext s.nextDid { s with trace := s.trace ++ [Entry.api (.send ev), Entry.begin s.nextDid ev], nextDid := s.nextDid + 1 }
              { s with trace := s.trace ++ [Entry.api (.send ev), Entry.begin s.nextDid ev] ++ [Entry.done s.nextDid], nextDid := s.nextDid + 1 } :=
            ⟨rfl, Nat.le_refl _, Nat.le_refl _, fun _ => ⟨[], by simp⟩, _, rfl, by intro d id f u e hin; simp at hin⟩
          exact ⟨hb, ea.trans eb⟩
        · simp only [hz, if_false]
          -- entering the delivery
          have h0 : Inv rv { s with trace := s.trace ++ [Entry.api (.send ev), Entry.begin s.nextDid ev], nextDid := s.nextDid + 1, refCount := s.refCount + 1 } :=
            inv_refCount_pos ha (s.refCount + 1) (Nat.succ_pos _)
          have hlive : ∀ c, Option.map (fun x => x.id) s.list.head? = some c → c ∈ ids s.list := by
            intro c hcc
            cases hh : s.list.head? with
            | none => rw [hh] at hcc; cases hcc
            | some r =>
              rw [hh] at hcc
              simp only [Option.map_some, Option.some.injEq] at hcc
              exact mem_ids.mpr ⟨r, List.mem_of_mem_head? hh, hcc⟩
          have hnone : callsOf s.nextDid (s.trace ++ [Entry.api (.send ev), Entry.begin s.nextDid ev]) = [] := by
            rw [callsOf_append, callsOf_nocall s.nextDid (t := [Entry.api (.send ev), Entry.begin s.nextDid ev]) (by
              intro e he
              have : e = Entry.api (.send ev) ∨ e = Entry.begin s.nextDid ev := by simpa using he
              rcases this with rfl | rfl <;> rfl), List.append_nil]
            unfold callsOf
            rw [List.filterMap_eq_nil_iff]
            intro e he
            cases e with
            | call d' id f u e' =>
              have := h.callDid d' id f u e' he
              have hne : d' ≠ s.nextDid := by omega
              simp [hne]
            | _ => rfl
          obtain ⟨hlok, hlerr⟩ := ihl s.nextDid ev (Option.map (fun x => x.id) s.list.head?) _ h0
            (Nat.succ_pos _) (Nat.lt_succ_self _) hlive (by
              intro c _ x hx
              have hx' : x ∈ callsOf s.nextDid (s.trace ++ [Entry.api (.send ev), Entry.begin s.nextDid ev]) := hx
              rw [hnone] at hx'; cases hx')
          cases hloop : loop rv beh s.nextDid ev fuel (Option.map (fun x => x.id) s.list.head?)
              { s with trace := s.trace ++ [Entry.api (.send ev), Entry.begin s.nextDid ev], nextDid := s.nextDid + 1, refCount := s.refCount + 1 } with
          | error e1 =>
            refine ⟨by intro s' hs; simp at hs, ?_⟩
            intro e hs
            simp only [Except.error.injEq] at hs
            subst hs; exact hlerr e1 hloop
          | ok s1 =>
            obtain ⟨h1, e1⟩ := hlok s1 hloop
            refine ⟨?_, by intro e hs; simp at hs⟩
            intro s' hs
            simp only [Except.ok.injEq] at hs
            subst hs
            have hrc : s1.refCount = s.refCount + 1 := e1.refCount
            obtain ⟨δ1, hδ1, hc1⟩ := e1.trace
            by_cases hpos : 0 < s.refCount
            · -- nested: no sweep
              have hgt : s1.refCount - 1 > 0 := by omega
              simp only [hgt, if_true]
              have h2 := inv_refCount_pos h1 (s1.refCount - 1) hgt
              have h3 := inv_ghost h2 [Entry.done s.nextDid] s1.nextDid (Nat.le_refl _) (by
                intro e he
                have : e = Entry.done s.nextDid := by simpa using he
                subst this; simp [Entry.callId])
              refine ⟨h3, ?_⟩
              refine ⟨by simp only; omega, Nat.le_trans ea.nextId e1.nextId, Nat.le_trans ea.nextDid e1.nextDid, ?_,
                [Entry.api (.send ev), Entry.begin s.nextDid ev] ++ δ1 ++ [Entry.done s.nextDid], ?_, ?_⟩
              · intro _
                obtain ⟨t, ht⟩ := e1.pre (Nat.succ_pos _)
                exact ⟨t, ht⟩
              · simp only [hδ1, List.append_assoc]
              · intro d id f u e hin
                rcases List.mem_append.mp hin with hin | hin
                · rcases List.mem_append.mp hin with hin | hin
                  · simp at hin
                  · exact hc1 d id f u e hin
                · simp at hin
            · -- outermost: sweep
              have hzero : s.refCount = 0 := by omega
              have hle : ¬ (s1.refCount - 1 > 0) := by omega
              simp only [hle, if_false]
              have hs1 : ({ s1 with refCount := s1.refCount - 1 } : State) = { s1 with refCount := 0 } := by
                have : s1.refCount - 1 = 0 := by omega
                rw [this]
              rw [hs1]
              have h2 := sweep_inv h1
              have h3 := inv_ghost h2 [Entry.done s.nextDid] (sweep { s1 with refCount := 0 }).nextDid (Nat.le_refl _) (by
                intro e he
                have : e = Entry.done s.nextDid := by simpa using he
                subst this; simp [Entry.callId])
              refine ⟨h3, ?_⟩
              refine ⟨by simp only [sweep]; omega, Nat.le_trans ea.nextId e1.nextId,
                Nat.le_trans ea.nextDid e1.nextDid, fun hp => by omega,
                [Entry.api (.send ev), Entry.begin s.nextDid ev] ++ δ1 ++
                  ((s1.list.filter (·.remove)).map (fun r => Entry.free r.id)) ++ [Entry.done s.nextDid], ?_, ?_⟩
              · simp only [sweep, hδ1, List.append_assoc]
              · intro d id f u e hin
                rcases List.mem_append.mp hin with hin | hin
                · rcases List.mem_append.mp hin with hin | hin
                  · rcases List.mem_append.mp hin with hin | hin
                    · simp at hin
                    · exact hc1 d id f u e hin
                  · simp at hin
                · simp at hin
    · intro d ev cur s h hrc hd hlive hlt
      cases cur with
      | none =>
        refine ⟨?_, by intro e hs; simp [loop] at hs⟩
        intro s' hs
        simp only [loop, Except.ok.injEq] at hs
        subst hs; exact ⟨h, Ext.refl _ _⟩
      | some c =>
        rw [loop_succ]
        obtain ⟨eh, hf⟩ := find_some_of_mem (hlive c rfl)
        rw [hf]
        simp only
        obtain ⟨hem, heid⟩ := find_spec hf
        subst heid
        -- the callback
        have hcb : (∀ s2, callbackRun rv beh d ev fuel eh s = .ok s2 → Inv rv s2 ∧ Ext d s s2 ∧
              ∀ x ∈ callsOf d s2.trace, x ≤ eh.id) ∧
            (∀ e, callbackRun rv beh d ev fuel eh s = .error e → e = .fuel) := by
          unfold callbackRun
          by_cases hcall : (decide (eh.mask &&& ev ≠ 0) && !eh.remove) = true
          · simp only [hcall, if_true]
            have hrm : eh.remove = false := by
              simp only [Bool.and_eq_true, Bool.not_eq_eq_eq_not, Bool.not_true] at hcall
              exact hcall.2
            have h1 := inv_append_call h hem hrm d ev hd (hlt eh.id rfl)
            obtain ⟨hok, herr⟩ := script_ok ihx (beh s.trace eh.fn eh.user ev) _ h1
            refine ⟨?_, herr⟩
            intro s2 hs2
            obtain ⟨h2, e2⟩ := hok s2 hs2
            have e1 : Ext d s { s with trace := s.trace ++ [Entry.call d eh.id eh.fn eh.user ev] } :=
              ⟨rfl, Nat.le_refl _, Nat.le_refl _, fun _ => ⟨[], by simp⟩, _, rfl, by
                intro d' id f u e hin
                simp only [List.mem_singleton, Entry.call.injEq] at hin
                omega⟩
            have e2' : Ext d { s with trace := s.trace ++ [Entry.call d eh.id eh.fn eh.user ev] } s2 :=
              e2.mono (Nat.le_of_lt hd)
            refine ⟨h2, e1.trans e2', ?_⟩
            obtain ⟨δ, hδ, hcδ⟩ := e2.trace
            intro x hx
            rw [hδ, callsOf_append, callsOf_append, callsOf_single_same] at hx
            have hδ0 : callsOf d δ = [] := by
              unfold callsOf
              rw [List.filterMap_eq_nil_iff]
              intro e he
              cases e with
              | call d' id f u e' =>
                have := hcδ d' id f u e' he
                have hne : d' ≠ d := by simp only at this; omega
                simp [hne]
              | _ => rfl
            rw [hδ0, List.append_nil] at hx
            rcases List.mem_append.mp hx with hx | hx
            · exact Nat.le_of_lt (hlt eh.id rfl x hx)
            · simp only [List.mem_singleton] at hx; omega
          · simp only [hcall, if_false, Bool.false_eq_true]
            refine ⟨?_, by intro e hs; simp at hs⟩
            intro s2 hs2
            simp only [Except.ok.injEq] at hs2
            subst hs2
            exact ⟨h, Ext.refl _ _, fun x hx => Nat.le_of_lt (hlt eh.id rfl x hx)⟩
        obtain ⟨hcbok, hcberr⟩ := hcb
        cases hrun : callbackRun rv beh d ev fuel eh s with
        | error e1 =>
          refine ⟨by intro s' hs; simp at hs, ?_⟩
          intro e hs
          simp only [Except.error.injEq] at hs
          subst hs; exact hcberr e1 hrun
        | ok s2 =>
          obtain ⟨h2, e2, hle2⟩ := hcbok s2 hrun
          simp only
          -- eh is still linked: the list only grew
          obtain ⟨t, ht⟩ := e2.pre hrc
          have hin2 : eh.id ∈ ids s2.list := by
            rw [ht]; exact List.mem_append_left _ (mem_ids.mpr ⟨eh, hem, rfl⟩)
          obtain ⟨nx, hnx, hnx2⟩ := nextOf_of_mem h2.sorted hin2
          rw [hnx]
          simp only
          have hrc2 : 0 < s2.refCount := by rw [e2.refCount]; exact hrc
          have hd2 : d < s2.nextDid := Nat.lt_of_lt_of_le hd e2.nextDid
          obtain ⟨hlok, hlerr⟩ := ihl d ev nx s2 h2 hrc2 hd2 (fun c' hc' => (hnx2 c' hc').1) (by
            intro c' hc' x hx
            have := hle2 x hx
            have := (hnx2 c' hc').2
            omega)
          refine ⟨?_, hlerr⟩
          intro s' hs
          obtain ⟨h3, e3⟩ := hlok s' hs
          exact ⟨h3, e2.trans e3⟩

end Zvbi.Evl
