import ZvbiModel.Evl.LemmasRun
/-!
# At-least-once for the second list: a handler nobody touches during a delivery is called (C11, evl)
-/
namespace Zvbi.Evl

theorem walkAdd_kept (rv : Bool) (fn user evm : Nat) (idle : Bool) (ev : Nat) (r0 : Rec)
    (hnd : ¬ (fn = r0.fn ∧ user = r0.user ∧ evm &&& ev = 0)) (l : List Rec)
    (hk : ∃ r ∈ l, r.id = r0.id ∧ r.fn = r0.fn ∧ r.user = r0.user ∧ r.remove = false ∧ r.mask &&& ev ≠ 0) :
    ∃ r ∈ (walkAdd rv fn user evm idle l).chain,
      r.id = r0.id ∧ r.fn = r0.fn ∧ r.user = r0.user ∧ r.remove = false ∧ r.mask &&& ev ≠ 0 := by
  induction l with
  | nil => obtain ⟨r, hr, _⟩ := hk; cases hr
  | cons eh rest ih =>
    obtain ⟨r, hr, hid, hfn, huser, hrm, hmask⟩ := hk
    unfold walkAdd
    rcases List.mem_cons.mp hr with rfl | hr
    · -- the head is the record
      by_cases hhit : (r.fn == fn && r.user == user) = true
      · have hfu : fn = r0.fn ∧ user = r0.user := by
          simp only [Bool.and_eq_true, beq_iff_eq] at hhit
          exact ⟨by rw [← hhit.1, hfn], by rw [← hhit.2, huser]⟩
        have hm : evm &&& ev ≠ 0 := fun h0 => hnd ⟨hfu.1, hfu.2, h0⟩
        have hz : evm ≠ 0 := by intro h0; rw [h0, Nat.zero_and] at hm; exact hm rfl
        simp only [hhit, if_true, hz, if_false]
        refine ⟨{ r with mask := evm, remove := if rv then false else r.remove }, by simp, hid, hfn, huser, ?_, hm⟩
        cases rv <;> simp [hrm]
      · simp only [hhit, if_false, Bool.false_eq_true]
        exact ⟨r, by simp, hid, hfn, huser, hrm, hmask⟩
    · obtain ⟨r', hr', h'⟩ := ih ⟨r, hr, hid, hfn, huser, hrm, hmask⟩
      by_cases hhit : (eh.fn == fn && eh.user == user) = true
      · simp only [hhit, if_true]
        by_cases hz : evm = 0
        · subst hz
          simp only [if_true]
          cases idle with
          | true => simp only [if_true]; exact ⟨r', hr', h'⟩
          | false => simp only [Bool.false_eq_true, if_false]; exact ⟨r', by simp [hr'], h'⟩
        · simp only [hz, if_false]; exact ⟨r', by simp [hr'], h'⟩
      · simp only [hhit, if_false, Bool.false_eq_true]; exact ⟨r', by simp [hr'], h'⟩

theorem walkRemove_kept (id : Nat) (idle : Bool) (ev : Nat) (r0 : Rec) (hnd : id ≠ r0.id) (l : List Rec)
    (hk : ∃ r ∈ l, r.id = r0.id ∧ r.fn = r0.fn ∧ r.user = r0.user ∧ r.remove = false ∧ r.mask &&& ev ≠ 0) :
    ∃ r ∈ (walkRemove id idle l).chain,
      r.id = r0.id ∧ r.fn = r0.fn ∧ r.user = r0.user ∧ r.remove = false ∧ r.mask &&& ev ≠ 0 := by
  induction l with
  | nil => obtain ⟨r, hr, _⟩ := hk; cases hr
  | cons eh rest ih =>
    obtain ⟨r, hr, hid, hrest⟩ := hk
    unfold walkRemove
    rcases List.mem_cons.mp hr with rfl | hr
    · have hhit : ¬ ((r.id == id) = true) := by simp only [beq_iff_eq]; omega
      simp only [hhit, if_false, Bool.false_eq_true]
      exact ⟨r, by simp, hid, hrest⟩
    · obtain ⟨r', hr', h'⟩ := ih ⟨r, hr, hid, hrest⟩
      by_cases hhit : (eh.id == id) = true
      · simp only [hhit, if_true]
        cases idle with
        | true => simp only [if_true]; exact ⟨r', hr', h'⟩
        | false => simp only [Bool.false_eq_true, if_false]; exact ⟨r', by simp [hr'], h'⟩
      · simp only [hhit, if_false, Bool.false_eq_true]; exact ⟨r', by simp [hr'], h'⟩

theorem apiAdd_kept (rv : Bool) (fn user evm : Nat) (oom : Bool) (ev : Nat) (r0 : Rec) (s : State)
    (hnd : ¬ (fn = r0.fn ∧ user = r0.user ∧ evm &&& ev = 0)) (hk : Kept ev r0 s) :
    Kept ev r0 (apiAdd rv fn user evm oom s) := by
  obtain ⟨r', hr', h'⟩ := walkAdd_kept rv fn user evm (s.refCount == 0) ev r0 hnd s.list hk
  unfold apiAdd
  by_cases hc : (!(walkAdd rv fn user evm (s.refCount == 0) s.list).found && decide (evm ≠ 0)) = true
  · simp only [hc, if_true]
    cases oom with
    | true => simp only [if_true]; exact ⟨r', hr', h'⟩
    | false => simp only [Bool.false_eq_true, if_false]; exact ⟨r', List.mem_append_left _ hr', h'⟩
  · simp only [hc, if_false, Bool.false_eq_true]; exact ⟨r', hr', h'⟩

theorem kept_trace {ev : Nat} {r0 : Rec} {s : State} (hk : Kept ev r0 s) (t : List Entry) (n m : Nat) :
    Kept ev r0 { s with trace := t, nextDid := n, refCount := m } := hk

theorem newPart_of_append {s s' : State} {δ : List Entry} (h : s'.trace = s.trace ++ δ) : newPart s s' = δ := by
  unfold newPart; rw [h, List.drop_left]

theorem newPart_trans {s s1 s' : State} {δ1 δ2 : List Entry} (h1 : s1.trace = s.trace ++ δ1)
    (h2 : s'.trace = s1.trace ++ δ2) : newPart s s' = δ1 ++ δ2 := by
  unfold newPart; rw [h2, h1, List.append_assoc, List.drop_left]

def KExec (rv : Bool) (beh : Behav) (ev : Nat) (r0 : Rec) (fuel : Nat) : Prop :=
  ∀ s c s', Inv rv s → Kept ev r0 s → exec rv beh fuel s c = .ok s' → Quiet ev r0 (newPart s s') →
    Kept ev r0 s'

def KLoop (rv : Bool) (beh : Behav) (ev : Nat) (r0 : Rec) (fuel : Nat) : Prop :=
  ∀ d ev' cur s s', Inv rv s → 0 < s.refCount → d < s.nextDid →
    (∀ c, cur = some c → c ∈ ids s.list) → (∀ c, cur = some c → ∀ x ∈ callsOf d s.trace, x < c) →
    Kept ev r0 s → loop rv beh d ev' fuel cur s = .ok s' → Quiet ev r0 (newPart s s') →
    Kept ev r0 s' ∧
    (ev' = ev → ∀ c, cur = some c → c ≤ r0.id → Entry.call d r0.id r0.fn r0.user ev ∈ newPart s s')

theorem kscript {rv : Bool} {beh : Behav} {ev : Nat} {r0 : Rec} {fuel : Nat} (hx : KExec rv beh ev r0 fuel) :
    ∀ (cs : List Call) (s s' : State), Inv rv s → Kept ev r0 s →
      cs.foldlM (fun s c => exec rv beh fuel s c) s = .ok s' → Quiet ev r0 (newPart s s') → Kept ev r0 s' := by
  intro cs
  induction cs with
  | nil =>
    intro s s' _ hk hs _
    simp only [List.foldlM_nil, pure, Except.pure, Except.ok.injEq] at hs
    subst hs; exact hk
  | cons c cs ih =>
    intro s s' h hk hs hq
    simp only [List.foldlM_cons, bind, Except.bind] at hs
    cases hc : exec rv beh fuel s c with
    | error e1 => rw [hc] at hs; simp at hs
    | ok s1 =>
      rw [hc] at hs
      obtain ⟨h1, e1⟩ := ((exec_loop_ok rv beh fuel).1 s c h).1 s1 hc
      obtain ⟨h2, e2⟩ := (script_ok (exec_loop_ok rv beh fuel).1 cs s1 h1).1 s' hs
      obtain ⟨δ1, hδ1, _⟩ := e1.trace
      obtain ⟨δ2, hδ2, _⟩ := e2.trace
      have hnp := newPart_trans hδ1 hδ2
      have hk1 : Kept ev r0 s1 := hx s c s1 h hk hc (by
        intro c' hc'; rw [newPart_of_append hδ1] at hc'
        exact hq c' (by rw [hnp]; exact List.mem_append_left _ hc'))
      exact ih s1 s' h1 hk1 hs (by
        intro c' hc'; rw [newPart_of_append hδ2] at hc'
        exact hq c' (by rw [hnp]; exact List.mem_append_right _ hc'))

/-- what the callback of one record does to the state (extracted from the proof of `exec_loop_ok`) -/
theorem callbackRun_ok (rv : Bool) (beh : Behav) (d ev fuel : Nat) (eh : Rec) (s s2 : State) (h : Inv rv s)
    (hd : d < s.nextDid) (hem : eh ∈ s.list) (hlt : ∀ x ∈ callsOf d s.trace, x < eh.id)
    (hrun : callbackRun rv beh d ev fuel eh s = .ok s2) :
    Inv rv s2 ∧ Ext d s s2 ∧ (∀ x ∈ callsOf d s2.trace, x ≤ eh.id) := by
  unfold callbackRun at hrun
  by_cases hcall : (decide (eh.mask &&& ev ≠ 0) && !eh.remove) = true
  · simp only [hcall, if_true] at hrun
    have hrm : eh.remove = false := by
      simp only [Bool.and_eq_true, Bool.not_eq_eq_eq_not, Bool.not_true] at hcall
      exact hcall.2
    have h1 := inv_append_call h hem hrm d ev hd hlt
    obtain ⟨h2, e2⟩ := (script_ok (exec_loop_ok rv beh fuel).1 (beh s.trace eh.fn eh.user ev) _ h1).1 s2 hrun
    have e1 : Ext d s { s with trace := s.trace ++ [Entry.call d eh.id eh.fn eh.user ev] } :=
      ⟨rfl, Nat.le_refl _, Nat.le_refl _, fun _ => ⟨[], by simp⟩, _, rfl, by
        intro d' id f u e hin
        simp only [List.mem_singleton, Entry.call.injEq] at hin
        omega⟩
    have e2' : Ext d { s with trace := s.trace ++ [Entry.call d eh.id eh.fn eh.user ev] } s2 :=
      e2.mono (Nat.le_of_lt hd)
    refine ⟨h2, e1.trans e2', ?_⟩
    obtain ⟨δ, hδ, hcδ⟩ := e2.trace
    intro x hx
    rw [hδ, callsOf_append, callsOf_append, callsOf_single_same] at hx
    have hδ0 : callsOf d δ = [] := by
      unfold callsOf
      rw [List.filterMap_eq_nil_iff]
      intro e he
      cases e with
      | call d' id f u e' =>
        have := hcδ d' id f u e' he
        have hne : d' ≠ d := by simp only at this; omega
        simp [hne]
      | _ => rfl
    rw [hδ0, List.append_nil] at hx
    rcases List.mem_append.mp hx with hx | hx
    · exact Nat.le_of_lt (hlt x hx)
    · simp only [List.mem_singleton] at hx; omega
  · simp only [hcall, if_false, Bool.false_eq_true, Except.ok.injEq] at hrun
    subst hrun
    exact ⟨h, Ext.refl _ _, fun x hx => Nat.le_of_lt (hlt x hx)⟩

theorem nextOf_le {l : List Rec} {c : Nat} (hs : (ids l).Pairwise (· < ·)) (hc : c ∈ ids l)
    {r : Rec} (hr : r ∈ l) (hlt : c < r.id) : ∃ c', nextOf c l = some (some c') ∧ c' ≤ r.id := by
  induction l with
  | nil => cases hr
  | cons a l ih =>
    obtain ⟨hlt', hs'⟩ := sorted_cons hs
    unfold nextOf
    by_cases ha : a.id = c
    · rw [if_pos ha]
      have hr' : r ∈ l := by
        rcases List.mem_cons.mp hr with rfl | hr'
        · omega
        · exact hr'
      cases l with
      | nil => cases hr'
      | cons b l =>
        refine ⟨b.id, rfl, ?_⟩
        rcases List.mem_cons.mp hr' with rfl | hr''
        · exact Nat.le_refl _
        · exact Nat.le_of_lt ((sorted_cons hs').1 r hr'')
    · rw [if_neg ha]
      have hc' : c ∈ ids l := by
        simp only [ids, List.map_cons, List.mem_cons] at hc
        rcases hc with h1 | h1
        · exact absurd h1.symm ha
        · exact h1
      have hr' : r ∈ l := by
        rcases List.mem_cons.mp hr with rfl | hr'
        · obtain ⟨rc, hrc, hidc⟩ := mem_ids.mp hc'
          have := hlt' rc hrc
          omega
        · exact hr'
      exact ih hs' hc' hr'

theorem sweep_kept {ev : Nat} {r0 : Rec} {s : State} (hk : Kept ev r0 s) : Kept ev r0 (sweep s) := by
  obtain ⟨r, hr, hid, hfn, huser, hrm, hmask⟩ := hk
  exact ⟨r, by simp [sweep, hr, hrm], hid, hfn, huser, hrm, hmask⟩

theorem kexec_kloop (rv : Bool) (beh : Behav) (ev : Nat) (r0 : Rec) :
    ∀ fuel, KExec rv beh ev r0 fuel ∧ KLoop rv beh ev r0 fuel := by
  intro fuel
  induction fuel with
  | zero =>
    refine ⟨?_, ?_⟩
    · intro s c s' h hk hs hq
      have hext := (((exec_loop_ok rv beh 0).1 s c h).1 s' hs).2
      cases c with
      | add fn user m oom =>
        simp only [exec, Except.ok.injEq] at hs
        subst hs
        obtain ⟨δ, hδ, _⟩ := (apiAdd_ext rv fn user m oom { s with trace := s.trace ++ [Entry.api (.add fn user m oom)] }
          (inv_ghost h [Entry.api (.add fn user m oom)] s.nextDid (Nat.le_refl _) (by
            intro e he
            have : e = Entry.api (.add fn user m oom) := by simpa using he
            subst this; simp [Entry.callId])) 0).trace
        have hnp : newPart s (apiAdd rv fn user m oom { s with trace := s.trace ++ [Entry.api (.add fn user m oom)] })
            = [Entry.api (.add fn user m oom)] ++ δ := newPart_trans (s1 := { s with trace := s.trace ++ [Entry.api (.add fn user m oom)] }) rfl hδ
        exact apiAdd_kept rv fn user m oom ev r0 _ (hq (.add fn user m oom) (by rw [hnp]; simp)) hk
      | removeRec id =>
        simp only [exec, Except.ok.injEq] at hs
        subst hs
        have hnd : id ≠ r0.id := hq (.removeRec id) (by
          unfold newPart apiRemove
          simp [List.append_assoc])
        obtain ⟨r', hr', h'⟩ := walkRemove_kept id (s.refCount == 0) ev r0 hnd s.list hk
        exact ⟨r', hr', h'⟩
      | removeByEvent m =>
        simp only [exec, Except.ok.injEq] at hs
        subst hs
        exact absurd trivial (hq (.removeByEvent m) (by
          unfold newPart apiRemoveByEvent
          simp [List.append_assoc]))
      | send ev' => simp [exec] at hs
    · intro d ev' cur s s' h _ _ _ _ hk hs _
      cases cur with
      | none =>
        simp only [loop, Except.ok.injEq] at hs
        subst hs
        exact ⟨hk, fun _ c hc => by cases hc⟩
      | some c => simp [loop] at hs
  | succ fuel ih =>
    obtain ⟨ihx, ihl⟩ := ih
    refine ⟨?_, ?_⟩
    · intro s c s' h hk hs hq
      cases c with
      | add fn user m oom =>
        simp only [exec, Except.ok.injEq] at hs
        subst hs
        obtain ⟨δ, hδ, _⟩ := (apiAdd_ext rv fn user m oom { s with trace := s.trace ++ [Entry.api (.add fn user m oom)] }
          (inv_ghost h [Entry.api (.add fn user m oom)] s.nextDid (Nat.le_refl _) (by
            intro e he
            have : e = Entry.api (.add fn user m oom) := by simpa using he
            subst this; simp [Entry.callId])) 0).trace
        have hnp : newPart s (apiAdd rv fn user m oom { s with trace := s.trace ++ [Entry.api (.add fn user m oom)] })
            = [Entry.api (.add fn user m oom)] ++ δ := newPart_trans (s1 := { s with trace := s.trace ++ [Entry.api (.add fn user m oom)] }) rfl hδ
        exact apiAdd_kept rv fn user m oom ev r0 _ (hq (.add fn user m oom) (by rw [hnp]; simp)) hk
      | removeRec id =>
        simp only [exec, Except.ok.injEq] at hs
        subst hs
        have hnd : id ≠ r0.id := hq (.removeRec id) (by
          unfold newPart apiRemove
          simp [List.append_assoc])
        obtain ⟨r', hr', h'⟩ := walkRemove_kept id (s.refCount == 0) ev r0 hnd s.list hk
        exact ⟨r', hr', h'⟩
      | removeByEvent m =>
        simp only [exec, Except.ok.injEq] at hs
        subst hs
        exact absurd trivial (hq (.removeByEvent m) (by
          unfold newPart apiRemoveByEvent
          simp [List.append_assoc]))
      | send ev' =>
        rw [exec_send_succ] at hs
        simp only at hs
        by_cases hz : s.eventMask &&& ev' = 0
        · simp only [hz, if_true, Except.ok.injEq] at hs
          subst hs; exact hk
        · simp only [hz, if_false] at hs
          have ha := inv_ghost h [Entry.api (.send ev'), Entry.begin s.nextDid ev'] (s.nextDid + 1) (Nat.le_succ _) (by
            intro e he
            have : e = Entry.api (.send ev') ∨ e = Entry.begin s.nextDid ev' := by simpa using he
            rcases this with rfl | rfl <;> simp [Entry.callId])
          have h0 : Inv rv { s with trace := s.trace ++ [Entry.api (.send ev'), Entry.begin s.nextDid ev'], nextDid := s.nextDid + 1, refCount := s.refCount + 1 } :=
            inv_refCount_pos ha (s.refCount + 1) (Nat.succ_pos _)
          have hlive : ∀ c, Option.map (fun x => x.id) s.list.head? = some c → c ∈ ids s.list := by
            intro c hcc
            cases hh : s.list.head? with
            | none => rw [hh] at hcc; cases hcc
            | some r =>
              rw [hh] at hcc
              simp only [Option.map_some, Option.some.injEq] at hcc
              exact mem_ids.mpr ⟨r, List.mem_of_mem_head? hh, hcc⟩
          have hnone : callsOf s.nextDid (s.trace ++ [Entry.api (.send ev'), Entry.begin s.nextDid ev']) = [] := by
            rw [callsOf_append, callsOf_nocall s.nextDid (t := [Entry.api (.send ev'), Entry.begin s.nextDid ev']) (by
              intro e he
              have : e = Entry.api (.send ev') ∨ e = Entry.begin s.nextDid ev' := by simpa using he
              rcases this with rfl | rfl <;> rfl), List.append_nil]
            unfold callsOf
            rw [List.filterMap_eq_nil_iff]
            intro e he
            cases e with
            | call d' id f u e' =>
              have := h.callDid d' id f u e' he
              have hne : d' ≠ s.nextDid := by omega
              simp [hne]
            | _ => rfl
          have hlt0 : ∀ c, Option.map (fun x => x.id) s.list.head? = some c →
              ∀ x ∈ callsOf s.nextDid (s.trace ++ [Entry.api (.send ev'), Entry.begin s.nextDid ev']), x < c := by
            intro c _ x hx; rw [hnone] at hx; cases hx
          cases hloop : loop rv beh s.nextDid ev' fuel (Option.map (fun x => x.id) s.list.head?)
              { s with trace := s.trace ++ [Entry.api (.send ev'), Entry.begin s.nextDid ev'], nextDid := s.nextDid + 1, refCount := s.refCount + 1 } with
          | error e1 => rw [hloop] at hs; simp at hs
          | ok s1 =>
            rw [hloop] at hs
            simp only [Except.ok.injEq] at hs
            obtain ⟨h1, e1⟩ := ((exec_loop_ok rv beh fuel).2 s.nextDid ev' _ _ h0 (Nat.succ_pos _) (Nat.lt_succ_self _)
              hlive hlt0).1 s1 hloop
            obtain ⟨δ1, hδ1, _⟩ := e1.trace
            have hk1 : Kept ev r0 s1 := (ihl s.nextDid ev' _ _ s1 h0 (Nat.succ_pos _) (Nat.lt_succ_self _) hlive hlt0
              hk hloop (by
                intro c' hc'
                rw [newPart_of_append hδ1] at hc'
                apply hq c'
                subst hs
                unfold newPart
                by_cases hgt : s1.refCount - 1 > 0
                · simp only [hgt, if_true, hδ1, List.append_assoc, List.drop_left]
                  simp [hc']
                · simp only [hgt, if_false, sweep, hδ1, List.append_assoc, List.drop_left]
                  simp [hc'])).1
            subst hs
            by_cases hgt : s1.refCount - 1 > 0
            · simp only [hgt, if_true]; exact hk1
            · simp only [hgt, if_false]
              exact sweep_kept (s := { s1 with refCount := s1.refCount - 1 }) hk1
    · intro d ev' cur s s' h hrc hd hlive hlt hk hs hq
      cases cur with
      | none =>
        simp only [loop, Except.ok.injEq] at hs
        subst hs
        exact ⟨hk, fun _ c hc => by cases hc⟩
      | some c =>
        rw [loop_succ] at hs
        obtain ⟨eh, hf⟩ := find_some_of_mem (hlive c rfl)
        rw [hf] at hs
        simp only at hs
        obtain ⟨hem, heid⟩ := find_spec hf
        subst heid
        cases hrun : callbackRun rv beh d ev' fuel eh s with
        | error e1 => rw [hrun] at hs; simp at hs
        | ok s2 =>
          rw [hrun] at hs
          simp only at hs
          obtain ⟨h2, e2, hle2⟩ := callbackRun_ok rv beh d ev' fuel eh s s2 h hd hem (hlt eh.id rfl) hrun
          obtain ⟨t, ht⟩ := e2.pre hrc
          have hin2 : eh.id ∈ ids s2.list := by
            rw [ht]; exact List.mem_append_left _ (mem_ids.mpr ⟨eh, hem, rfl⟩)
          obtain ⟨nx, hnx, hnx2⟩ := nextOf_of_mem h2.sorted hin2
          rw [hnx] at hs
          simp only at hs
          have hrc2 : 0 < s2.refCount := by rw [e2.refCount]; exact hrc
          have hd2 : d < s2.nextDid := Nat.lt_of_lt_of_le hd e2.nextDid
          have hlt2 : ∀ c', nx = some c' → ∀ x ∈ callsOf d s2.trace, x < c' := by
            intro c' hc' x hx
            have := hle2 x hx
            have := (hnx2 c' hc').2
            omega
          obtain ⟨h3, e3⟩ := ((exec_loop_ok rv beh fuel).2 d ev' nx s2 h2 hrc2 hd2 (fun c' hc' => (hnx2 c' hc').1) hlt2).1 s' hs
          obtain ⟨δ2, hδ2, _⟩ := e2.trace
          obtain ⟨δ3, hδ3, _⟩ := e3.trace
          have hnp := newPart_trans hδ2 hδ3
          -- the callback keeps the record
          have hk2 : Kept ev r0 s2 := by
            unfold callbackRun at hrun
            by_cases hcall : (decide (eh.mask &&& ev' ≠ 0) && !eh.remove) = true
            · simp only [hcall, if_true] at hrun
              have hrm : eh.remove = false := by
                simp only [Bool.and_eq_true, Bool.not_eq_eq_eq_not, Bool.not_true] at hcall
                exact hcall.2
              have h1 := inv_append_call h hem hrm d ev' hd (hlt eh.id rfl)
              obtain ⟨_, e12⟩ := (script_ok (exec_loop_ok rv beh fuel).1 (beh s.trace eh.fn eh.user ev') _ h1).1 s2 hrun
              obtain ⟨δ12, hδ12, _⟩ := e12.trace
              apply kscript ihx _ _ s2 h1 hk hrun
              intro c' hc'
              rw [newPart_of_append hδ12] at hc'
              apply hq c'
              rw [hnp]
              apply List.mem_append_left
              have : s.trace ++ δ2 = s.trace ++ ([Entry.call d eh.id eh.fn eh.user ev'] ++ δ12) := by
                rw [← hδ2, hδ12]; simp
              rw [List.append_cancel_left this]
              simp [hc']
            · simp only [hcall, if_false, Bool.false_eq_true, Except.ok.injEq] at hrun
              subst hrun; exact hk
          obtain ⟨hk3, hcall3⟩ := ihl d ev' nx s2 s' h2 hrc2 hd2 (fun c' hc' => (hnx2 c' hc').1) hlt2 hk2 hs (by
            intro c' hc'
            rw [newPart_of_append hδ3] at hc'
            exact hq c' (by rw [hnp]; exact List.mem_append_right _ hc'))
          refine ⟨hk3, ?_⟩
          intro hev c0 hc0 hle0
          cases hc0
          subst hev
          obtain ⟨r, hr, hid, hfn, huser, hrm, hmask⟩ := hk
          by_cases heq : eh.id = r0.id
          · -- its turn
            have : eh = r := sorted_inj h.sorted hem hr (by omega)
            subst this
            have hcallc : (decide (eh.mask &&& ev' ≠ 0) && !eh.remove) = true := by simp [hmask, hrm]
            unfold callbackRun at hrun
            simp only [hcallc, if_true] at hrun
            have h1 := inv_append_call h hem hrm d ev' hd (hlt eh.id rfl)
            obtain ⟨_, e12⟩ := (script_ok (exec_loop_ok rv beh fuel).1 (beh s.trace eh.fn eh.user ev') _ h1).1 s2 hrun
            obtain ⟨δ12, hδ12, _⟩ := e12.trace
            rw [hnp]
            apply List.mem_append_left
            have : s.trace ++ δ2 = s.trace ++ ([Entry.call d eh.id eh.fn eh.user ev'] ++ δ12) := by
              rw [← hδ2, hδ12]; simp
            rw [List.append_cancel_left this, ← hid, ← hfn, ← huser]
            simp
          · -- ahead: the next record is at or before it
            obtain ⟨r2, hr2, hid2, _⟩ := hk2
            obtain ⟨c', hc', hle'⟩ := nextOf_le h2.sorted hin2 hr2 (by omega)
            rw [hnx] at hc'
            cases hc'
            have := hcall3 rfl c' rfl (by omega)
            rw [newPart_of_append hδ3] at this
            rw [hnp]; exact List.mem_append_right _ this

/-- A top-level delivery of `ev` invokes every registered handler that wants `ev` and that no API
call executed during the delivery (by any callback, at any nesting depth) disturbs. -/
theorem send_complete (rv : Bool) (beh : Behav) (fuel ev : Nat) (s s' : State) (h : Inv rv s)
    (hidle : s.refCount = 0) (hs : exec rv beh fuel s (.send ev) = .ok s')
    (r : Rec) (hr : r ∈ s.list) (hmask : r.mask &&& ev ≠ 0) (hq : Quiet ev r (newPart s s')) :
    Entry.call s.nextDid r.id r.fn r.user ev ∈ newPart s s' := by
  cases fuel with
  | zero => simp [exec] at hs
  | succ fuel =>
    have hrm : r.remove = false := h.idleClean hidle r hr
    have hem : s.eventMask &&& ev ≠ 0 := h.maskSup r hr hrm ev hmask
    rw [exec_send_succ] at hs
    simp only [hem, if_false] at hs
    have ha := inv_ghost h [Entry.api (.send ev), Entry.begin s.nextDid ev] (s.nextDid + 1) (Nat.le_succ _) (by
      intro e he
      have : e = Entry.api (.send ev) ∨ e = Entry.begin s.nextDid ev := by simpa using he
      rcases this with rfl | rfl <;> simp [Entry.callId])
    have h0 : Inv rv { s with trace := s.trace ++ [Entry.api (.send ev), Entry.begin s.nextDid ev], nextDid := s.nextDid + 1, refCount := s.refCount + 1 } :=
      inv_refCount_pos ha (s.refCount + 1) (Nat.succ_pos _)
    have hlive : ∀ c, Option.map (fun x => x.id) s.list.head? = some c → c ∈ ids s.list := by
      intro c hcc
      cases hh : s.list.head? with
      | none => rw [hh] at hcc; cases hcc
      | some r =>
        rw [hh] at hcc
        simp only [Option.map_some, Option.some.injEq] at hcc
        exact mem_ids.mpr ⟨r, List.mem_of_mem_head? hh, hcc⟩
    have hnone : callsOf s.nextDid (s.trace ++ [Entry.api (.send ev), Entry.begin s.nextDid ev]) = [] := by
      rw [callsOf_append, callsOf_nocall s.nextDid (t := [Entry.api (.send ev), Entry.begin s.nextDid ev]) (by
        intro e he
        have : e = Entry.api (.send ev) ∨ e = Entry.begin s.nextDid ev := by simpa using he
        rcases this with rfl | rfl <;> rfl), List.append_nil]
      unfold callsOf
      rw [List.filterMap_eq_nil_iff]
      intro e he
      cases e with
      | call d' id f u e' =>
        have := h.callDid d' id f u e' he
        have hne : d' ≠ s.nextDid := by omega
        simp [hne]
      | _ => rfl
    have hlt0 : ∀ c, Option.map (fun x => x.id) s.list.head? = some c →
        ∀ x ∈ callsOf s.nextDid (s.trace ++ [Entry.api (.send ev), Entry.begin s.nextDid ev]), x < c := by
      intro c _ x hx; rw [hnone] at hx; cases hx
    cases hloop : loop rv beh s.nextDid ev fuel (Option.map (fun x => x.id) s.list.head?)
        { s with trace := s.trace ++ [Entry.api (.send ev), Entry.begin s.nextDid ev], nextDid := s.nextDid + 1, refCount := s.refCount + 1 } with
    | error e1 => rw [hloop] at hs; simp at hs
    | ok s1 =>
      rw [hloop] at hs
      simp only [Except.ok.injEq] at hs
      obtain ⟨h1, e1⟩ := ((exec_loop_ok rv beh fuel).2 s.nextDid ev _ _ h0 (Nat.succ_pos _) (Nat.lt_succ_self _)
        hlive hlt0).1 s1 hloop
      obtain ⟨δ1, hδ1, _⟩ := e1.trace
      have hsub : ∀ e, e ∈ δ1 → e ∈ newPart s s' := by
        intro e he
        subst hs
        unfold newPart
        by_cases hgt : s1.refCount - 1 > 0
        · simp only [hgt, if_true, hδ1, List.append_assoc, List.drop_left]
          simp [he]
        · simp only [hgt, if_false, sweep, hδ1, List.append_assoc, List.drop_left]
          simp [he]
      obtain ⟨r1, hh1, hle1⟩ : ∃ r1, s.list.head? = some r1 ∧ r1.id ≤ r.id := by
        cases hl : s.list with
        | nil => rw [hl] at hr; cases hr
        | cons a l =>
          refine ⟨a, rfl, ?_⟩
          rw [hl] at hr
          rcases List.mem_cons.mp hr with rfl | hr'
          · exact Nat.le_refl _
          · have := h.sorted; rw [hl] at this
            exact Nat.le_of_lt ((sorted_cons this).1 r hr')
      have hkl := ((kexec_kloop rv beh ev r fuel).2 s.nextDid ev _ _ s1 h0 (Nat.succ_pos _) (Nat.lt_succ_self _)
        hlive hlt0 ⟨r, hr, rfl, rfl, rfl, hrm, hmask⟩ hloop (by
          intro c' hc'
          rw [newPart_of_append hδ1] at hc'
          exact hq c' (hsub _ hc'))).2 rfl r1.id (by rw [hh1]; rfl) hle1
      rw [newPart_of_append hδ1] at hkl
      exact hsub _ hkl


/-! ## full strength: only calls made before the handler's turn matter -/

/-- the test of `beforeTurn` -/
def turnP (d rid : Nat) : Entry → Bool := fun e =>
  match e with
  | .call d' id _ _ _ => !(d' == d && decide (rid ≤ id))
  | _ => true

theorem beforeTurn_eq (d rid : Nat) (t : List Entry) : beforeTurn d rid t = t.takeWhile (turnP d rid) := rfl

theorem takeWhile_append_all {p : Entry → Bool} {a : List Entry} (b : List Entry) (h : ∀ e ∈ a, p e = true) :
    (a ++ b).takeWhile p = a ++ b.takeWhile p := by
  induction a with
  | nil => rfl
  | cons x a ih =>
    have hx : p x = true := h x (by simp)
    simp only [List.cons_append, List.takeWhile_cons, hx, if_true]
    rw [ih (fun e he => h e (by simp [he]))]

theorem mem_takeWhile_append_left {p : Entry → Bool} {a : List Entry} (b : List Entry) {e : Entry}
    (h : e ∈ a.takeWhile p) : e ∈ (a ++ b).takeWhile p := by
  induction a with
  | nil => simp at h
  | cons x a ih =>
    simp only [List.cons_append, List.takeWhile_cons] at h ⊢
    by_cases hx : p x = true
    · simp only [hx, if_true] at h ⊢
      rcases List.mem_cons.mp h with rfl | h
      · simp
      · exact List.mem_cons_of_mem _ (ih h)
    · simp [hx] at h

def KLoopT (rv : Bool) (beh : Behav) (ev : Nat) (r0 : Rec) (fuel : Nat) : Prop :=
  ∀ d cur s s', Inv rv s → 0 < s.refCount → d < s.nextDid →
    (∀ c, cur = some c → c ∈ ids s.list) → (∀ c, cur = some c → ∀ x ∈ callsOf d s.trace, x < c) →
    Kept ev r0 s → loop rv beh d ev fuel cur s = .ok s' →
    Quiet ev r0 (beforeTurn d r0.id (newPart s s')) →
    ∀ c, cur = some c → c ≤ r0.id → Entry.call d r0.id r0.fn r0.user ev ∈ newPart s s'

theorem kloopT (rv : Bool) (beh : Behav) (ev : Nat) (r0 : Rec) : ∀ fuel, KLoopT rv beh ev r0 fuel := by
  intro fuel
  induction fuel with
  | zero =>
    intro d cur s s' _ _ _ _ _ _ hs _ c hc _
    subst hc
    simp [loop] at hs
  | succ fuel ih =>
    intro d cur s s' h hrc hd hlive hlt hk hs hq c0 hc0 hle0
    subst hc0
    rw [loop_succ] at hs
    obtain ⟨eh, hf⟩ := find_some_of_mem (hlive c0 rfl)
    rw [hf] at hs
    simp only at hs
    obtain ⟨hem, heid⟩ := find_spec hf
    subst heid
    cases hrun : callbackRun rv beh d ev fuel eh s with
    | error e1 => rw [hrun] at hs; simp at hs
    | ok s2 =>
      rw [hrun] at hs
      simp only at hs
      obtain ⟨h2, e2, hle2⟩ := callbackRun_ok rv beh d ev fuel eh s s2 h hd hem (hlt eh.id rfl) hrun
      obtain ⟨t, ht⟩ := e2.pre hrc
      have hin2 : eh.id ∈ ids s2.list := by
        rw [ht]; exact List.mem_append_left _ (mem_ids.mpr ⟨eh, hem, rfl⟩)
      obtain ⟨nx, hnx, hnx2⟩ := nextOf_of_mem h2.sorted hin2
      rw [hnx] at hs
      simp only at hs
      have hrc2 : 0 < s2.refCount := by rw [e2.refCount]; exact hrc
      have hd2 : d < s2.nextDid := Nat.lt_of_lt_of_le hd e2.nextDid
      have hlt2 : ∀ c', nx = some c' → ∀ x ∈ callsOf d s2.trace, x < c' := by
        intro c' hc' x hx
        have := hle2 x hx
        have := (hnx2 c' hc').2
        omega
      obtain ⟨h3, e3⟩ := ((exec_loop_ok rv beh fuel).2 d ev nx s2 h2 hrc2 hd2 (fun c' hc' => (hnx2 c' hc').1) hlt2).1 s' hs
      obtain ⟨δ2, hδ2, _⟩ := e2.trace
      obtain ⟨δ3, hδ3, _⟩ := e3.trace
      have hnp := newPart_trans hδ2 hδ3
      obtain ⟨r, hr, hid, hfn, huser, hrm, hmask⟩ := hk
      by_cases heq : eh.id = r0.id
      · -- its turn: it is called whatever happens later
        have : eh = r := sorted_inj h.sorted hem hr (by omega)
        subst this
        have hcallc : (decide (eh.mask &&& ev ≠ 0) && !eh.remove) = true := by simp [hmask, hrm]
        unfold callbackRun at hrun
        simp only [hcallc, if_true] at hrun
        have h1 := inv_append_call h hem hrm d ev hd (hlt eh.id rfl)
        obtain ⟨_, e12⟩ := (script_ok (exec_loop_ok rv beh fuel).1 (beh s.trace eh.fn eh.user ev) _ h1).1 s2 hrun
        obtain ⟨δ12, hδ12, _⟩ := e12.trace
        rw [hnp]
        apply List.mem_append_left
        have : s.trace ++ δ2 = s.trace ++ ([Entry.call d eh.id eh.fn eh.user ev] ++ δ12) := by
          rw [← hδ2, hδ12]; simp
        rw [List.append_cancel_left this, ← hid, ← hfn, ← huser]
        simp
      · -- ahead: everything this callback logged lies before the record's turn
        have hlt0 : eh.id < r0.id := by omega
        have hδ2P : (∀ e ∈ δ2, turnP d r0.id e = true) ∧ Kept ev r0 s2 := by
          unfold callbackRun at hrun
          by_cases hcall : (decide (eh.mask &&& ev ≠ 0) && !eh.remove) = true
          · simp only [hcall, if_true] at hrun
            have hrm' : eh.remove = false := by
              simp only [Bool.and_eq_true, Bool.not_eq_eq_eq_not, Bool.not_true] at hcall
              exact hcall.2
            have h1 := inv_append_call h hem hrm' d ev hd (hlt eh.id rfl)
            obtain ⟨_, e12⟩ := (script_ok (exec_loop_ok rv beh fuel).1 (beh s.trace eh.fn eh.user ev) _ h1).1 s2 hrun
            obtain ⟨δ12, hδ12, hc12⟩ := e12.trace
            have hδ2eq : δ2 = [Entry.call d eh.id eh.fn eh.user ev] ++ δ12 := by
              have : s.trace ++ δ2 = s.trace ++ ([Entry.call d eh.id eh.fn eh.user ev] ++ δ12) := by
                rw [← hδ2, hδ12]; simp
              exact List.append_cancel_left this
            have hall : ∀ e ∈ δ2, turnP d r0.id e = true := by
              intro e he
              rw [hδ2eq] at he
              rcases List.mem_append.mp he with he | he
              · simp only [List.mem_singleton] at he
                subst he
                have : ¬ (r0.id ≤ eh.id) := by omega
                simp [turnP, this]
              · cases e with
                | call d' id f u e' =>
                  have := hc12 d' id f u e' he
                  have hne : ¬ (d' = d) := by simp only at this; omega
                  simp [turnP, hne]
                | _ => rfl
            refine ⟨hall, ?_⟩
            apply kscript (kexec_kloop rv beh ev r0 fuel).1 _ _ s2 h1 ⟨r, hr, hid, hfn, huser, hrm, hmask⟩ hrun
            intro c' hc'
            rw [newPart_of_append hδ12] at hc'
            apply hq c'
            rw [hnp, beforeTurn_eq, takeWhile_append_all δ3 hall]
            apply List.mem_append_left
            rw [hδ2eq]; simp [hc']
          · simp only [hcall, if_false, Bool.false_eq_true, Except.ok.injEq] at hrun
            subst hrun
            have : δ2 = [] := by
              have : s.trace ++ δ2 = s.trace ++ [] := by rw [← hδ2]; simp
              exact List.append_cancel_left this
            subst this
            exact ⟨(fun e he => by cases he), ⟨r, hr, hid, hfn, huser, hrm, hmask⟩⟩
        obtain ⟨hall, hk2⟩ := hδ2P
        obtain ⟨r2, hr2, hid2, _⟩ := hk2
        obtain ⟨c', hc', hle'⟩ := nextOf_le h2.sorted hin2 hr2 (by omega)
        rw [hnx] at hc'
        cases hc'
        have := ih d (some c') s2 s' h2 hrc2 hd2 (fun c'' hc'' => (hnx2 c'' hc'').1) hlt2
          ⟨r2, hr2, hid2, ‹_›⟩ hs (by
            intro c'' hc''
            rw [newPart_of_append hδ3] at hc''
            apply hq c''
            rw [hnp, beforeTurn_eq, takeWhile_append_all δ3 hall]
            exact List.mem_append_right _ (by rw [← beforeTurn_eq]; exact hc'')) c' rfl (by omega)
        rw [newPart_of_append hδ3] at this
        rw [hnp]; exact List.mem_append_right _ this

/-- Full-strength at-least-once for a top-level delivery: only API calls executed before the
handler's turn can excuse a missing invocation. -/
theorem send_complete_full (rv : Bool) (beh : Behav) (fuel ev : Nat) (s s' : State) (h : Inv rv s)
    (hidle : s.refCount = 0) (hs : exec rv beh fuel s (.send ev) = .ok s')
    (r : Rec) (hr : r ∈ s.list) (hmask : r.mask &&& ev ≠ 0)
    (hq : Quiet ev r (beforeTurn s.nextDid r.id (newPart s s'))) :
    Entry.call s.nextDid r.id r.fn r.user ev ∈ newPart s s' := by
  cases fuel with
  | zero => simp [exec] at hs
  | succ fuel =>
    have hrm : r.remove = false := h.idleClean hidle r hr
    have hem : s.eventMask &&& ev ≠ 0 := h.maskSup r hr hrm ev hmask
    rw [exec_send_succ] at hs
    simp only [hem, if_false] at hs
    have ha := inv_ghost h [Entry.api (.send ev), Entry.begin s.nextDid ev] (s.nextDid + 1) (Nat.le_succ _) (by
      intro e he
      have : e = Entry.api (.send ev) ∨ e = Entry.begin s.nextDid ev := by simpa using he
      rcases this with rfl | rfl <;> simp [Entry.callId])
    have h0 : Inv rv { s with trace := s.trace ++ [Entry.api (.send ev), Entry.begin s.nextDid ev], nextDid := s.nextDid + 1, refCount := s.refCount + 1 } :=
      inv_refCount_pos ha (s.refCount + 1) (Nat.succ_pos _)
    have hlive : ∀ c, Option.map (fun x => x.id) s.list.head? = some c → c ∈ ids s.list := by
      intro c hcc
      cases hh : s.list.head? with
      | none => rw [hh] at hcc; cases hcc
      | some r =>
        rw [hh] at hcc
        simp only [Option.map_some, Option.some.injEq] at hcc
        exact mem_ids.mpr ⟨r, List.mem_of_mem_head? hh, hcc⟩
    have hnone : callsOf s.nextDid (s.trace ++ [Entry.api (.send ev), Entry.begin s.nextDid ev]) = [] := by
      rw [callsOf_append, callsOf_nocall s.nextDid (t := [Entry.api (.send ev), Entry.begin s.nextDid ev]) (by
        intro e he
        have : e = Entry.api (.send ev) ∨ e = Entry.begin s.nextDid ev := by simpa using he
        rcases this with rfl | rfl <;> rfl), List.append_nil]
      unfold callsOf
      rw [List.filterMap_eq_nil_iff]
      intro e he
      cases e with
      | call d' id f u e' =>
        have := h.callDid d' id f u e' he
        have hne : d' ≠ s.nextDid := by omega
        simp [hne]
      | _ => rfl
    have hlt0 : ∀ c, Option.map (fun x => x.id) s.list.head? = some c →
        ∀ x ∈ callsOf s.nextDid (s.trace ++ [Entry.api (.send ev), Entry.begin s.nextDid ev]), x < c := by
      intro c _ x hx; rw [hnone] at hx; cases hx
    cases hloop : loop rv beh s.nextDid ev fuel (Option.map (fun x => x.id) s.list.head?)
        { s with trace := s.trace ++ [Entry.api (.send ev), Entry.begin s.nextDid ev], nextDid := s.nextDid + 1, refCount := s.refCount + 1 } with
    | error e1 => rw [hloop] at hs; simp at hs
    | ok s1 =>
      rw [hloop] at hs
      simp only [Except.ok.injEq] at hs
      obtain ⟨h1, e1⟩ := ((exec_loop_ok rv beh fuel).2 s.nextDid ev _ _ h0 (Nat.succ_pos _) (Nat.lt_succ_self _)
        hlive hlt0).1 s1 hloop
      obtain ⟨δ1, hδ1, _⟩ := e1.trace
      -- the shape of the whole new part
      have hshape : ∃ tail, newPart s s' = [Entry.api (.send ev), Entry.begin s.nextDid ev] ++ (δ1 ++ tail) := by
        subst hs
        unfold newPart
        by_cases hgt : s1.refCount - 1 > 0
        · exact ⟨[Entry.done s.nextDid], by simp only [hgt, if_true, hδ1, List.append_assoc, List.drop_left]⟩
        · exact ⟨(s1.list.filter (·.remove)).map (fun r => Entry.free r.id) ++ [Entry.done s.nextDid], by
            simp only [hgt, if_false, sweep, hδ1, List.append_assoc, List.drop_left]⟩
      obtain ⟨tail, hsh⟩ := hshape
      have hpre : ∀ e ∈ [Entry.api (.send ev), Entry.begin s.nextDid ev], turnP s.nextDid r.id e = true := by
        intro e he
        have : e = Entry.api (.send ev) ∨ e = Entry.begin s.nextDid ev := by simpa using he
        rcases this with rfl | rfl <;> rfl
      obtain ⟨r1, hh1, hle1⟩ : ∃ r1, s.list.head? = some r1 ∧ r1.id ≤ r.id := by
        cases hl : s.list with
        | nil => rw [hl] at hr; cases hr
        | cons a l =>
          refine ⟨a, rfl, ?_⟩
          rw [hl] at hr
          rcases List.mem_cons.mp hr with rfl | hr'
          · exact Nat.le_refl _
          · have := h.sorted; rw [hl] at this
            exact Nat.le_of_lt ((sorted_cons this).1 r hr')
      have hkl := kloopT rv beh ev r fuel s.nextDid _ _ s1 h0 (Nat.succ_pos _) (Nat.lt_succ_self _)
        hlive hlt0 ⟨r, hr, rfl, rfl, rfl, hrm, hmask⟩ hloop (by
          intro c' hc'
          rw [newPart_of_append hδ1] at hc'
          apply hq c'
          rw [hsh, beforeTurn_eq, takeWhile_append_all _ hpre]
          apply List.mem_append_right
          exact mem_takeWhile_append_left tail (by rw [← beforeTurn_eq]; exact hc')) r1.id (by rw [hh1]; rfl) hle1
      rw [newPart_of_append hδ1] at hkl
      rw [hsh]
      exact List.mem_append_right _ (List.mem_append_left _ hkl)


/-! ## with the repaired `_add` (rv = true) a successful registration always leaves a live record -/

theorem walkAdd_registers (fn user evm : Nat) (idle : Bool) (hz : evm ≠ 0) (l : List Rec)
    (hf : (walkAdd true fn user evm idle l).found = true) :
    ∃ r ∈ (walkAdd true fn user evm idle l).chain, r.fn = fn ∧ r.user = user ∧ r.mask = evm ∧ r.remove = false := by
  induction l with
  | nil => simp [walkAdd] at hf
  | cons eh rest ih =>
    unfold walkAdd at hf ⊢
    by_cases hhit : (eh.fn == fn && eh.user == user) = true
    · simp only [hhit, if_true, hz, if_false] at hf ⊢
      have hfu : eh.fn = fn ∧ eh.user = user := by simpa using hhit
      exact ⟨{ eh with mask := evm, remove := false }, by simp, hfu.1, hfu.2, rfl, rfl⟩
    · simp only [hhit, if_false, Bool.false_eq_true] at hf ⊢
      obtain ⟨r, hr, h'⟩ := ih hf
      exact ⟨r, by simp [hr], h'⟩

/-- `_vbi_event_handler_list_add` with a non-zero mask and no allocation failure, on any state
(idle or inside a delivery, handler unknown, registered or marked for removal): afterwards the
handler is linked, unmarked, with the new mask. -/
theorem apiAdd_registers (fn user evm : Nat) (hz : evm ≠ 0) (s : State) :
    ∃ r ∈ (apiAdd true fn user evm false s).list, r.fn = fn ∧ r.user = user ∧ r.mask = evm ∧ r.remove = false := by
  unfold apiAdd
  by_cases hf : (walkAdd true fn user evm (s.refCount == 0) s.list).found = true
  · obtain ⟨r, hr, h'⟩ := walkAdd_registers fn user evm (s.refCount == 0) hz s.list hf
    simp only [hf, Bool.not_true, Bool.false_and, Bool.false_eq_true, if_false]
    exact ⟨r, hr, h'⟩
  · have hf' : (walkAdd true fn user evm (s.refCount == 0) s.list).found = false := by
      cases h : (walkAdd true fn user evm (s.refCount == 0) s.list).found <;> simp_all
    simp only [hf', Bool.not_false, Bool.true_and, decide_eq_true_eq, ne_eq, hz, not_false_eq_true, if_true,
      Bool.false_eq_true, if_false]
    exact ⟨_, List.mem_append_right _ (List.mem_singleton.mpr rfl), rfl, rfl, rfl, rfl⟩

end Zvbi.Evl
