import ZvbiModel.Evl.Spec
/-!
# The three list walks of src/event.c (add / remove / remove_by_event): what they keep (C11, evl)
-/
namespace Zvbi.Evl

theorem mem_ids {l : List Rec} {x : Nat} : x ∈ ids l ↔ ∃ r ∈ l, r.id = x := by
  simp [ids]

theorem sorted_cons {eh : Rec} {rest : List Rec} (hs : (ids (eh :: rest)).Pairwise (· < ·)) :
    (∀ r ∈ rest, eh.id < r.id) ∧ (ids rest).Pairwise (· < ·) := by
  simp only [ids, List.map_cons, List.pairwise_cons] at hs
  refine ⟨?_, hs.2⟩
  intro r hr
  exact hs.1 r.id (List.mem_map.mpr ⟨r, hr, rfl⟩)

theorem sorted_inj {l : List Rec} (hs : (ids l).Pairwise (· < ·)) {r r' : Rec}
    (hr : r ∈ l) (hr' : r' ∈ l) (h : r.id = r'.id) : r = r' := by
  induction l with
  | nil => cases hr
  | cons a l ih =>
    obtain ⟨hlt, hs'⟩ := sorted_cons hs
    rcases List.mem_cons.mp hr with rfl | hr1 <;> rcases List.mem_cons.mp hr' with rfl | hr1'
    · rfl
    · have := hlt r' hr1'; omega
    · have := hlt r hr1; omega
    · exact ih hs' hr1 hr1'

/-- what every walk guarantees about the list it leaves -/
structure WalkOK (rv idle : Bool) (l : List Rec) (o : WalkOut) : Prop where
  sub : (ids o.chain).Sublist (ids l)
  same : idle = false → ids o.chain = ids l
  clean : idle = true → (∀ r ∈ l, r.remove = false) → ∀ r' ∈ o.chain, r'.remove = false
  keep : ∀ r' ∈ o.chain, ∃ r ∈ l, r.id = r'.id ∧ r.fn = r'.fn ∧ r.user = r'.user ∧
    (rv = false → r.remove = true → r'.remove = true)
  unregOK : ∀ r' ∈ o.chain, r'.id ∈ o.unreg → r'.remove = true
  unregIds : ∀ x ∈ o.unreg, x ∈ ids l
  freedOK : ∀ x ∈ o.freed, x ∈ ids l ∧ x ∉ ids o.chain
  freedIdle : idle = false → o.freed = []

theorem WalkOK.nil (rv idle : Bool) : WalkOK rv idle [] ⟨[], false, 0, [], []⟩ := by
  refine ⟨List.Sublist.slnil, fun _ => rfl, ?_, ?_, ?_, ?_, ?_, fun _ => rfl⟩
  · intro _ _ r hr; cases hr
  · intro r hr; cases hr
  · intro r hr; cases hr
  · intro x hx; cases hx
  · intro x hx; cases hx

/-- the record is unlinked and freed (idle list) -/
theorem WalkOK.drop {rv : Bool} {eh : Rec} {rest : List Rec} {o : WalkOut}
    (hs : (ids (eh :: rest)).Pairwise (· < ·)) (h : WalkOK rv true rest o) :
    WalkOK rv true (eh :: rest) { o with unreg := eh.id :: o.unreg, freed := eh.id :: o.freed } := by
  obtain ⟨hlt, _⟩ := sorted_cons hs
  have hnot : eh.id ∉ ids o.chain := by
    intro hm
    obtain ⟨r, hr, hid⟩ := mem_ids.mp (h.sub.subset hm)
    have := hlt r hr; omega
  refine ⟨?_, ?_, ?_, ?_, ?_, ?_, ?_, ?_⟩
  · simp only [ids, List.map_cons]; exact List.Sublist.cons _ h.sub
  · intro h1; cases h1
  · intro _ hc r' hr'; exact h.clean rfl (fun r hr => hc r (by simp [hr])) r' hr'
  · intro r' hr'
    obtain ⟨r, hr, h1⟩ := h.keep r' hr'
    exact ⟨r, by simp [hr], h1⟩
  · intro r' hr' hin
    have hr'' : r' ∈ o.chain := hr'
    have hin' : r'.id = eh.id ∨ r'.id ∈ o.unreg := by simpa using hin
    rcases hin' with hin' | hin'
    · exact absurd (mem_ids.mpr ⟨r', hr'', hin'⟩) hnot
    · exact h.unregOK r' hr'' hin'
  · intro x hx
    have hx' : x = eh.id ∨ x ∈ o.unreg := by simpa using hx
    rcases hx' with rfl | hx'
    · simp [ids]
    · simp only [ids, List.map_cons, List.mem_cons]; right; exact h.unregIds x hx'
  · intro x hx
    have hx' : x = eh.id ∨ x ∈ o.freed := by simpa using hx
    rcases hx' with rfl | hx'
    · exact ⟨by simp [ids], hnot⟩
    · obtain ⟨h1, h2⟩ := h.freedOK x hx'
      exact ⟨by simp only [ids, List.map_cons, List.mem_cons]; right; exact h1, h2⟩
  · intro h1; cases h1

/-- the record is kept, possibly modified to `eh'` (same id, callback, user pointer) -/
theorem WalkOK.keepRec {rv idle : Bool} {eh eh' : Rec} {rest : List Rec} {o : WalkOut} (un : List Nat)
    (hs : (ids (eh :: rest)).Pairwise (· < ·)) (h : WalkOK rv idle rest o)
    (hid : eh'.id = eh.id) (hfn : eh'.fn = eh.fn) (huser : eh'.user = eh.user)
    (hmark : rv = false → eh.remove = true → eh'.remove = true)
    (hclean : idle = true → eh.remove = false → eh'.remove = false)
    (hun : un = o.unreg ∨ (un = eh.id :: o.unreg ∧ eh'.remove = true)) :
    WalkOK rv idle (eh :: rest) { o with chain := eh' :: o.chain, unreg := un } := by
  obtain ⟨hlt, _⟩ := sorted_cons hs
  have hnot : eh.id ∉ ids o.chain := by
    intro hm
    obtain ⟨r, hr, hid⟩ := mem_ids.mp (h.sub.subset hm)
    have := hlt r hr; omega
  refine ⟨?_, ?_, ?_, ?_, ?_, ?_, ?_, h.freedIdle⟩
  · simp only [ids, List.map_cons, hid]; exact List.Sublist.cons_cons _ h.sub
  · intro hi
    have := h.same hi
    simp only [ids] at this
    simp only [ids, List.map_cons, hid, this]
  · intro hi hc r' hr'
    have hr'' : r' = eh' ∨ r' ∈ o.chain := by simpa using hr'
    rcases hr'' with rfl | hr''
    · exact hclean hi (hc eh (by simp))
    · exact h.clean hi (fun r hr => hc r (by simp [hr])) r' hr''
  · intro r' hr'
    have hr'' : r' = eh' ∨ r' ∈ o.chain := by simpa using hr'
    rcases hr'' with rfl | hr''
    · exact ⟨eh, by simp, hid.symm, hfn.symm, huser.symm, hmark⟩
    · obtain ⟨r, hr, h1⟩ := h.keep r' hr''
      exact ⟨r, by simp [hr], h1⟩
  · intro r' hr' hin
    have hr'' : r' = eh' ∨ r' ∈ o.chain := by simpa using hr'
    have hin' : r'.id ∈ un := hin
    rcases hr'' with rfl | hr''
    · rcases hun with rfl | ⟨rfl, hrm⟩
      · -- its id would be the id of a record of the tail: impossible, ids are distinct
        rw [hid] at hin'
        obtain ⟨r, hr, hid'⟩ := mem_ids.mp (h.unregIds _ hin')
        have := hlt r hr; omega
      · exact hrm
    · rcases hun with rfl | ⟨rfl, _⟩
      · exact h.unregOK r' hr'' hin'
      · simp only [List.mem_cons] at hin'
        rcases hin' with hin' | hin'
        · exact absurd (mem_ids.mpr ⟨r', hr'', hin'⟩) hnot
        · exact h.unregOK r' hr'' hin'
  · intro x hx
    have hx' : x ∈ un := hx
    rcases hun with rfl | ⟨rfl, _⟩
    · simp only [ids, List.map_cons, List.mem_cons]; right; exact h.unregIds x hx'
    · simp only [List.mem_cons] at hx'
      rcases hx' with rfl | hx'
      · simp [ids]
      · simp only [ids, List.map_cons, List.mem_cons]; right; exact h.unregIds x hx'
  · intro x hx
    obtain ⟨h1, h2⟩ := h.freedOK x hx
    refine ⟨by simp only [ids, List.map_cons, List.mem_cons]; right; exact h1, ?_⟩
    simp only [ids, List.map_cons, List.mem_cons, hid]
    intro h3
    rcases h3 with h3 | h3
    · subst h3
      obtain ⟨r, hr, hid'⟩ := mem_ids.mp h1
      have := hlt r hr; omega
    · exact h2 h3

theorem walkAdd_ok (rv : Bool) (fn user evm : Nat) (idle : Bool) (l : List Rec)
    (hs : (ids l).Pairwise (· < ·)) : WalkOK rv idle l (walkAdd rv fn user evm idle l) := by
  induction l with
  | nil => exact WalkOK.nil rv idle
  | cons eh rest ih =>
    have ih' := ih (sorted_cons hs).2
    unfold walkAdd
    by_cases hhit : (eh.fn == fn && eh.user == user) = true
    · simp only [hhit, if_true]
      by_cases hz : evm = 0
      · subst hz
        simp only [if_true]
        cases idle with
        | true => simp only [if_true]; exact WalkOK.drop hs ih'
        | false =>
          simp only [Bool.false_eq_true, if_false]
          have := WalkOK.keepRec (rv := rv) (idle := false) (eh := eh) (eh' := { eh with remove := true })
            (o := walkAdd rv fn user 0 false rest) (if eh.remove = true then (walkAdd rv fn user 0 false rest).unreg else eh.id :: (walkAdd rv fn user 0 false rest).unreg) hs ih' rfl rfl rfl
            (fun _ _ => rfl) (by intro h; cases h)
            (by by_cases hr : eh.remove = true
                · left; simp [hr]
                · right; simp [hr])
          exact ⟨this.sub, this.same, this.clean, this.keep, this.unregOK, this.unregIds, this.freedOK, this.freedIdle⟩
      · simp only [hz, if_false]
        have := WalkOK.keepRec (rv := rv) (idle := idle) (eh := eh)
          (eh' := { eh with mask := evm, remove := if rv then false else eh.remove })
          (o := walkAdd rv fn user evm idle rest) (walkAdd rv fn user evm idle rest).unreg hs ih' rfl rfl rfl
          (by intro hrv hrm; simp [hrv, hrm]) (by intro _ hrm; cases rv <;> simp [hrm]) (Or.inl rfl)
        exact ⟨this.sub, this.same, this.clean, this.keep, this.unregOK, this.unregIds, this.freedOK, this.freedIdle⟩
    · simp only [hhit, if_false, Bool.false_eq_true]
      have := WalkOK.keepRec (rv := rv) (idle := idle) (eh := eh) (eh' := eh)
        (o := walkAdd rv fn user evm idle rest) (walkAdd rv fn user evm idle rest).unreg hs ih' rfl rfl rfl
        (fun _ h => h) (fun _ h => h) (Or.inl rfl)
      exact ⟨this.sub, this.same, this.clean, this.keep, this.unregOK, this.unregIds, this.freedOK, this.freedIdle⟩

theorem walkRemove_ok (rv : Bool) (id : Nat) (idle : Bool) (l : List Rec)
    (hs : (ids l).Pairwise (· < ·)) : WalkOK rv idle l (walkRemove id idle l) := by
  induction l with
  | nil => exact WalkOK.nil rv idle
  | cons eh rest ih =>
    have ih' := ih (sorted_cons hs).2
    unfold walkRemove
    by_cases hhit : (eh.id == id) = true
    · simp only [hhit, if_true]
      cases idle with
      | true => simp only [if_true]; exact WalkOK.drop hs ih'
      | false =>
        simp only [Bool.false_eq_true, if_false]
        have := WalkOK.keepRec (rv := rv) (idle := false) (eh := eh) (eh' := { eh with remove := true })
          (o := walkRemove id false rest) (if eh.remove = true then (walkRemove id false rest).unreg else eh.id :: (walkRemove id false rest).unreg) hs ih' rfl rfl rfl
          (fun _ _ => rfl) (by intro h; cases h)
          (by by_cases hr : eh.remove = true
              · left; simp [hr]
              · right; simp [hr])
        exact ⟨this.sub, this.same, this.clean, this.keep, this.unregOK, this.unregIds, this.freedOK, this.freedIdle⟩
    · simp only [hhit, if_false, Bool.false_eq_true]
      have := WalkOK.keepRec (rv := rv) (idle := idle) (eh := eh) (eh' := eh)
        (o := walkRemove id idle rest) (walkRemove id idle rest).unreg hs ih' rfl rfl rfl
        (fun _ h => h) (fun _ h => h) (Or.inl rfl)
      exact ⟨this.sub, this.same, this.clean, this.keep, this.unregOK, this.unregIds, this.freedOK, this.freedIdle⟩

theorem walkByEvent_ok (rv : Bool) (clear : Nat) (idle : Bool) (l : List Rec)
    (hs : (ids l).Pairwise (· < ·)) : WalkOK rv idle l (walkByEvent clear idle l) := by
  induction l with
  | nil => exact WalkOK.nil rv idle
  | cons eh rest ih =>
    have ih' := ih (sorted_cons hs).2
    unfold walkByEvent
    by_cases hhit : eh.mask &&& clear = 0
    · simp only [hhit, if_true]
      cases idle with
      | true => simp only [if_true]; exact WalkOK.drop hs ih'
      | false =>
        simp only [Bool.false_eq_true, if_false]
        have := WalkOK.keepRec (rv := rv) (idle := false) (eh := eh) (eh' := { eh with mask := 0, remove := true })
          (o := walkByEvent clear false rest) (if eh.remove = true then (walkByEvent clear false rest).unreg else eh.id :: (walkByEvent clear false rest).unreg) hs ih' rfl rfl rfl
          (fun _ _ => rfl) (by intro h; cases h)
          (by by_cases hr : eh.remove = true
              · left; simp [hr]
              · right; simp [hr])
        exact ⟨this.sub, this.same, this.clean, this.keep, this.unregOK, this.unregIds, this.freedOK, this.freedIdle⟩
    · simp only [hhit, if_false]
      have := WalkOK.keepRec (rv := rv) (idle := idle) (eh := eh) (eh' := { eh with mask := eh.mask &&& clear })
        (o := walkByEvent clear idle rest) (walkByEvent clear idle rest).unreg hs ih' rfl rfl rfl
        (fun _ h => h) (fun _ h => h) (Or.inl rfl)
      exact ⟨this.sub, this.same, this.clean, this.keep, this.unregOK, this.unregIds, this.freedOK, this.freedIdle⟩

end Zvbi.Evl
