import ZvbiModel.Evl.LemmasWalk
/-!
# The non-recursive API calls of src/event.c keep the invariant (C11, evl)
-/
namespace Zvbi.Evl

theorem and_or_ne_zero {a u b : Nat} : (a ||| u) &&& b ≠ 0 ↔ a &&& b ≠ 0 ∨ u &&& b ≠ 0 := by
  rw [Nat.and_or_distrib_right, ne_eq, Nat.or_eq_zero_iff, Classical.not_and_iff_not_or_not]

theorem walkAdd_mask (rv : Bool) (fn user evm : Nat) (idle : Bool) (l : List Rec) :
    ∀ r' ∈ (walkAdd rv fn user evm idle l).chain, r'.remove = false → ∀ b, r'.mask &&& b ≠ 0 →
      (walkAdd rv fn user evm idle l).union &&& b ≠ 0 := by
  induction l with
  | nil => intro r' hr'; cases hr'
  | cons eh rest ih =>
    unfold walkAdd
    by_cases hhit : (eh.fn == fn && eh.user == user) = true
    · simp only [hhit, if_true]
      by_cases hz : evm = 0
      · subst hz
        simp only [if_true]
        cases idle with
        | true => simp only [if_true]; exact ih
        | false =>
          simp only [Bool.false_eq_true, if_false]
          intro r' hr' hrm b hb
          have hr'' : r' = { eh with remove := true } ∨ r' ∈ (walkAdd rv fn user 0 false rest).chain := by
            simpa using hr'
          rcases hr'' with rfl | hr''
          · cases hrm
          · exact ih r' hr'' hrm b hb
      · simp only [hz, if_false]
        intro r' hr' hrm b hb
        have hr'' : r' = { eh with mask := evm, remove := if rv then false else eh.remove } ∨
            r' ∈ (walkAdd rv fn user evm idle rest).chain := by simpa using hr'
        show (evm ||| (walkAdd rv fn user evm idle rest).union) &&& b ≠ 0
        rw [and_or_ne_zero]
        rcases hr'' with rfl | hr''
        · exact Or.inl hb
        · exact Or.inr (ih r' hr'' hrm b hb)
    · simp only [hhit, if_false, Bool.false_eq_true]
      intro r' hr' hrm b hb
      have hr'' : r' = eh ∨ r' ∈ (walkAdd rv fn user evm idle rest).chain := by simpa using hr'
      show (eh.mask ||| (walkAdd rv fn user evm idle rest).union) &&& b ≠ 0
      rw [and_or_ne_zero]
      rcases hr'' with rfl | hr''
      · exact Or.inl hb
      · exact Or.inr (ih r' hr'' hrm b hb)

theorem walkRemove_mask (id : Nat) (idle : Bool) (l : List Rec) :
    ∀ r' ∈ (walkRemove id idle l).chain, r'.remove = false → ∀ b, r'.mask &&& b ≠ 0 →
      (walkRemove id idle l).union &&& b ≠ 0 := by
  induction l with
  | nil => intro r' hr'; cases hr'
  | cons eh rest ih =>
    unfold walkRemove
    by_cases hhit : (eh.id == id) = true
    · simp only [hhit, if_true]
      cases idle with
      | true => simp only [if_true]; exact ih
      | false =>
        simp only [Bool.false_eq_true, if_false]
        intro r' hr' hrm b hb
        have hr'' : r' = { eh with remove := true } ∨ r' ∈ (walkRemove id false rest).chain := by
          simpa using hr'
        rcases hr'' with rfl | hr''
        · cases hrm
        · exact ih r' hr'' hrm b hb
    · simp only [hhit, if_false, Bool.false_eq_true]
      intro r' hr' hrm b hb
      have hr'' : r' = eh ∨ r' ∈ (walkRemove id idle rest).chain := by simpa using hr'
      show (eh.mask ||| (walkRemove id idle rest).union) &&& b ≠ 0
      rw [and_or_ne_zero]
      rcases hr'' with rfl | hr''
      · exact Or.inl hb
      · exact Or.inr (ih r' hr'' hrm b hb)

theorem walkByEvent_mask (clear : Nat) (idle : Bool) (l : List Rec) :
    ∀ r' ∈ (walkByEvent clear idle l).chain, r'.remove = false →
      ∃ r ∈ l, r.remove = false ∧ r'.mask = r.mask &&& clear := by
  induction l with
  | nil => intro r' hr'; cases hr'
  | cons eh rest ih =>
    unfold walkByEvent
    by_cases hhit : eh.mask &&& clear = 0
    · simp only [hhit, if_true]
      cases idle with
      | true =>
        simp only [if_true]
        intro r' hr' hrm
        obtain ⟨r, hr, h1⟩ := ih r' hr' hrm
        exact ⟨r, by simp [hr], h1⟩
      | false =>
        simp only [Bool.false_eq_true, if_false]
        intro r' hr' hrm
        have hr'' : r' = { eh with mask := 0, remove := true } ∨ r' ∈ (walkByEvent clear false rest).chain := by
          simpa using hr'
        rcases hr'' with rfl | hr''
        · cases hrm
        · obtain ⟨r, hr, h1⟩ := ih r' hr'' hrm
          exact ⟨r, by simp [hr], h1⟩
    · simp only [hhit, if_false]
      intro r' hr' hrm
      have hr'' : r' = { eh with mask := eh.mask &&& clear } ∨ r' ∈ (walkByEvent clear idle rest).chain := by
        simpa using hr'
      rcases hr'' with rfl | hr''
      · exact ⟨eh, by simp, hrm, rfl⟩
      · obtain ⟨r, hr, h1⟩ := ih r' hr'' hrm
        exact ⟨r, by simp [hr], h1⟩

/-! ## traces -/

theorem ncaf_append_nocall {t d : List Entry} (h : NoCallAfterFree t) (hd : ∀ e ∈ d, e.callId = none) :
    NoCallAfterFree (t ++ d) := by
  unfold NoCallAfterFree at *
  rw [List.pairwise_append]
  refine ⟨h, ?_, ?_⟩
  · induction d with
    | nil => exact List.Pairwise.nil
    | cons e d ih =>
      rw [List.pairwise_cons]
      refine ⟨?_, ih (fun e he => hd e (by simp [he]))⟩
      intro b hb x _
      rw [hd b (by simp [hb])]
      simp
  · intro a _ b hb x _
    rw [hd b hb]
    simp

theorem ncau_append_nocall {t d : List Entry} (h : NoCallAfterUnreg t) (hd : ∀ e ∈ d, e.callId = none) :
    NoCallAfterUnreg (t ++ d) := by
  unfold NoCallAfterUnreg at *
  rw [List.pairwise_append]
  refine ⟨h, ?_, ?_⟩
  · induction d with
    | nil => exact List.Pairwise.nil
    | cons e d ih =>
      rw [List.pairwise_cons]
      refine ⟨?_, ih (fun e he => hd e (by simp [he]))⟩
      intro b hb x _
      rw [hd b (by simp [hb])]
      simp
  · intro a _ b hb x _
    rw [hd b hb]
    simp

theorem callsOf_append (d : Nat) (t t' : List Entry) : callsOf d (t ++ t') = callsOf d t ++ callsOf d t' := by
  simp [callsOf, List.filterMap_append]

theorem callsOf_nocall (d : Nat) {t : List Entry} (h : ∀ e ∈ t, e.callId = none) : callsOf d t = [] := by
  unfold callsOf
  rw [List.filterMap_eq_nil_iff]
  intro e he
  have := h e he
  cases e <;> simp_all [Entry.callId]

/-- appending entries that are not invocations (and free / unreg entries that are justified)
keeps the trace part of the invariant -/
theorem inv_of_walk {rv : Bool} {s : State} (h : Inv rv s) {o : WalkOut}
    (hw : WalkOK rv (s.refCount == 0) s.list o) (em : Nat)
    (hmask : ∀ r' ∈ o.chain, r'.remove = false → ∀ b, r'.mask &&& b ≠ 0 → em &&& b ≠ 0) :
    Inv rv { s with list := o.chain, eventMask := em,
                    trace := s.trace ++ o.unreg.map Entry.unreg ++ o.freed.map Entry.free } := by
  have hnc : ∀ e ∈ o.unreg.map Entry.unreg ++ o.freed.map Entry.free, e.callId = none := by
    intro e he
    simp only [List.mem_append, List.mem_map] at he
    rcases he with ⟨x, _, rfl⟩ | ⟨x, _, rfl⟩ <;> rfl
  refine ⟨?_, ?_, ?_, hmask, ?_, ?_, ?_, ?_, ?_, ?_, ?_⟩
  · exact List.Pairwise.sublist hw.sub h.sorted
  · intro r' hr'
    obtain ⟨r, hr, hid⟩ := mem_ids.mp (hw.sub.subset (mem_ids.mpr ⟨r', hr', rfl⟩))
    have := h.bound r hr
    simp only at this ⊢; omega
  · intro hrc
    have hrc' : s.refCount = 0 := hrc
    exact hw.clean (by simp [hrc']) (h.idleClean hrc')
  · intro x hx
    simp only [List.mem_append, List.mem_map, reduceCtorEq, and_false, exists_false, or_false,
      Entry.free.injEq, exists_eq_right] at hx
    rcases hx with hx | hx
    · obtain ⟨h1, h2⟩ := h.freedDead x hx
      exact ⟨fun h3 => h1 (hw.sub.subset h3), h2⟩
    · obtain ⟨h1, h2⟩ := hw.freedOK x hx
      obtain ⟨r, hr, hid⟩ := mem_ids.mp h1
      have := h.bound r hr
      exact ⟨h2, by simp only; omega⟩
  · show NoCallAfterFree (s.trace ++ o.unreg.map Entry.unreg ++ o.freed.map Entry.free)
    rw [List.append_assoc]; exact ncaf_append_nocall h.ncaf hnc
  · intro d id f u e hin
    simp only [List.mem_append, List.mem_map, reduceCtorEq, and_false, exists_false, or_false] at hin
    exact h.callDid d id f u e hin
  · intro d
    show (callsOf d (s.trace ++ o.unreg.map Entry.unreg ++ o.freed.map Entry.free)).Pairwise (· < ·)
    rw [List.append_assoc, callsOf_append, callsOf_nocall d hnc, List.append_nil]
    exact h.ordered d
  · intro hrv x hx r' hr' hid
    simp only [List.mem_append, List.mem_map, Entry.unreg.injEq, exists_eq_right, reduceCtorEq, and_false,
      exists_false, or_false] at hx
    rcases hx with hx | hx
    · obtain ⟨r, hr, hid', _, _, hk⟩ := hw.keep r' hr'
      exact hk hrv (h.unregMarked hrv x hx r hr (by omega))
    · exact hw.unregOK r' hr' (by rw [hid]; exact hx)
  · intro hrv
    show NoCallAfterUnreg (s.trace ++ o.unreg.map Entry.unreg ++ o.freed.map Entry.free)
    rw [List.append_assoc]; exact ncau_append_nocall (h.ncau hrv) hnc
  · intro x hx
    simp only [List.mem_append, List.mem_map, Entry.unreg.injEq, exists_eq_right, reduceCtorEq, and_false,
      exists_false, or_false] at hx
    rcases hx with hx | hx
    · exact h.unregBound x hx
    · obtain ⟨r, hr, hid⟩ := mem_ids.mp (hw.unregIds x hx)
      have := h.bound r hr
      simp only; omega

end Zvbi.Evl
