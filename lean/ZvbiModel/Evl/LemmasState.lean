import ZvbiModel.Evl.LemmasApi
/-!
# How a state of the second list evolves (C11, evl): `Ext`, API calls, sweep
-/
namespace Zvbi.Evl

/-- `s'` is a later state: same nesting depth, while a delivery runs the list only grows at the
tail, and every invocation logged in between belongs to a delivery numbered `lo` or later -/
structure Ext (lo : Nat) (s s' : State) : Prop where
  refCount : s'.refCount = s.refCount
  nextId : s.nextId ≤ s'.nextId
  nextDid : s.nextDid ≤ s'.nextDid
  pre : 0 < s.refCount → ∃ t, ids s'.list = ids s.list ++ t
  trace : ∃ δ, s'.trace = s.trace ++ δ ∧ ∀ d id f u e, Entry.call d id f u e ∈ δ → lo ≤ d

theorem Ext.refl (lo : Nat) (s : State) : Ext lo s s :=
  ⟨rfl, Nat.le_refl _, Nat.le_refl _, fun _ => ⟨[], by simp⟩, [], by simp, by simp⟩

theorem Ext.mono {lo lo' : Nat} {s s' : State} (h : Ext lo s s') (hl : lo' ≤ lo) : Ext lo' s s' := by
  obtain ⟨δ, hδ, hc⟩ := h.trace
  exact ⟨h.refCount, h.nextId, h.nextDid, h.pre, δ, hδ, fun d id f u e hin => Nat.le_trans hl (hc d id f u e hin)⟩

theorem Ext.trans {lo : Nat} {s s' s'' : State} (h1 : Ext lo s s') (h2 : Ext lo s' s'') : Ext lo s s'' := by
  obtain ⟨δ1, hδ1, hc1⟩ := h1.trace
  obtain ⟨δ2, hδ2, hc2⟩ := h2.trace
  refine ⟨by rw [h2.refCount, h1.refCount], Nat.le_trans h1.nextId h2.nextId,
    Nat.le_trans h1.nextDid h2.nextDid, ?_, δ1 ++ δ2, by rw [hδ2, hδ1, List.append_assoc], ?_⟩
  · intro hp
    obtain ⟨t1, ht1⟩ := h1.pre hp
    obtain ⟨t2, ht2⟩ := h2.pre (by rw [h1.refCount]; exact hp)
    exact ⟨t1 ++ t2, by rw [ht2, ht1, List.append_assoc]⟩
  · intro d id f u e hin
    rcases List.mem_append.mp hin with hin | hin
    · exact hc1 d id f u e hin
    · exact hc2 d id f u e hin

/-- entries that are neither invocations nor free / unreg may be appended, the delivery counter bumped -/
theorem inv_ghost {rv : Bool} {s : State} (h : Inv rv s) (δ : List Entry) (n : Nat) (hn : s.nextDid ≤ n)
    (hδ : ∀ e ∈ δ, e.callId = none ∧ (∀ x, e ≠ Entry.free x) ∧ (∀ x, e ≠ Entry.unreg x)) :
    Inv rv { s with trace := s.trace ++ δ, nextDid := n } := by
  have hnc : ∀ e ∈ δ, e.callId = none := fun e he => (hδ e he).1
  refine ⟨h.sorted, h.bound, h.idleClean, h.maskSup, ?_, ncaf_append_nocall h.ncaf hnc, ?_, ?_, ?_, ?_, ?_⟩
  · intro x hx
    rcases List.mem_append.mp hx with hx | hx
    · exact h.freedDead x hx
    · exact absurd rfl ((hδ _ hx).2.1 x)
  · intro d id f u e hin
    rcases List.mem_append.mp hin with hin | hin
    · exact Nat.lt_of_lt_of_le (h.callDid d id f u e hin) hn
    · have := hnc _ hin; simp [Entry.callId] at this
  · intro d
    show (callsOf d (s.trace ++ δ)).Pairwise (· < ·)
    rw [callsOf_append, callsOf_nocall d hnc, List.append_nil]; exact h.ordered d
  · intro hrv x hx
    rcases List.mem_append.mp hx with hx | hx
    · exact h.unregMarked hrv x hx
    · exact absurd rfl ((hδ _ hx).2.2 x)
  · intro hrv; exact ncau_append_nocall (h.ncau hrv) hnc
  · intro x hx
    rcases List.mem_append.mp hx with hx | hx
    · exact h.unregBound x hx
    · exact absurd rfl ((hδ _ hx).2.2 x)

theorem inv_refCount_pos {rv : Bool} {s : State} (h : Inv rv s) (n : Nat) (hn : 0 < n) :
    Inv rv { s with refCount := n } :=
  ⟨h.sorted, h.bound, fun h0 => by simp only at h0; omega, h.maskSup, h.freedDead, h.ncaf, h.callDid,
   h.ordered, h.unregMarked, h.ncau, h.unregBound⟩

/-- a new record at the tail -/
theorem inv_append_rec {rv : Bool} {s : State} (h : Inv rv s) (fn user evm : Nat) :
    Inv rv { s with list := s.list ++ [{ id := s.nextId, fn := fn, user := user, mask := evm, remove := false }],
                    eventMask := s.eventMask ||| evm, nextId := s.nextId + 1,
                    trace := s.trace ++ [Entry.alloc s.nextId fn user evm] } := by
  have hnc : ∀ e ∈ [Entry.alloc s.nextId fn user evm], e.callId = none := by
    intro e he; simp at he; subst he; rfl
  refine ⟨?_, ?_, ?_, ?_, ?_, ncaf_append_nocall h.ncaf hnc, ?_, ?_, ?_, ?_, ?_⟩
  · simp only [ids, List.map_append, List.map_cons, List.map_nil]
    rw [List.pairwise_append]
    refine ⟨h.sorted, List.pairwise_singleton _ _, ?_⟩
    intro a ha b hb
    simp only [List.mem_singleton] at hb
    subst hb
    obtain ⟨r, hr, rfl⟩ := mem_ids.mp ha
    exact h.bound r hr
  · intro r hr
    rcases List.mem_append.mp hr with hr | hr
    · exact Nat.lt_succ_of_lt (h.bound r hr)
    · simp only [List.mem_singleton] at hr; subst hr; exact Nat.lt_succ_self _
  · intro hrc r hr
    rcases List.mem_append.mp hr with hr | hr
    · exact h.idleClean hrc r hr
    · simp only [List.mem_singleton] at hr; subst hr; rfl
  · intro r hr hrm b hb
    show (s.eventMask ||| evm) &&& b ≠ 0
    rw [and_or_ne_zero]
    rcases List.mem_append.mp hr with hr | hr
    · exact Or.inl (h.maskSup r hr hrm b hb)
    · simp only [List.mem_singleton] at hr; subst hr; exact Or.inr hb
  · intro x hx
    simp only [List.mem_append, List.mem_singleton, reduceCtorEq, or_false] at hx
    obtain ⟨h1, h2⟩ := h.freedDead x hx
    refine ⟨?_, Nat.lt_succ_of_lt h2⟩
    simp only [ids, List.map_append, List.map_cons, List.map_nil, List.mem_append, List.mem_singleton]
    intro h3
    rcases h3 with h3 | h3
    · exact h1 h3
    · omega
  · intro d id f u e hin
    simp only [List.mem_append, List.mem_singleton, reduceCtorEq, or_false] at hin
    exact h.callDid d id f u e hin
  · intro d
    show (callsOf d (s.trace ++ [Entry.alloc s.nextId fn user evm])).Pairwise (· < ·)
    rw [callsOf_append, callsOf_nocall d hnc, List.append_nil]; exact h.ordered d
  · intro hrv x hx r hr hid
    simp only [List.mem_append, List.mem_singleton, reduceCtorEq, or_false] at hx
    rcases List.mem_append.mp hr with hr | hr
    · exact h.unregMarked hrv x hx r hr hid
    · simp only [List.mem_singleton] at hr; subst hr
      have := h.unregBound x hx
      simp only at hid; omega
  · intro hrv; exact ncau_append_nocall (h.ncau hrv) hnc
  · intro x hx
    simp only [List.mem_append, List.mem_singleton, reduceCtorEq, or_false] at hx
    exact Nat.lt_succ_of_lt (h.unregBound x hx)

theorem apiAdd_inv (rv : Bool) (fn user evm : Nat) (oom : Bool) (s : State) (h : Inv rv s) :
    Inv rv (apiAdd rv fn user evm oom s) := by
  have hw := walkAdd_ok rv fn user evm (s.refCount == 0) s.list h.sorted
  have h1 := inv_of_walk h hw _ (walkAdd_mask rv fn user evm (s.refCount == 0) s.list)
  unfold apiAdd
  by_cases hc : (!(walkAdd rv fn user evm (s.refCount == 0) s.list).found && decide (evm ≠ 0)) = true
  · simp only [hc, if_true]
    cases oom with
    | true =>
      simp only [if_true]
      have := inv_ghost h1 [Entry.oom] s.nextDid (Nat.le_refl _) (by
        intro e he
        have : e = Entry.oom := by simpa using he
        subst this
        simp [Entry.callId])
      exact this
    | false =>
      simp only [Bool.false_eq_true, if_false]
      exact inv_append_rec h1 fn user evm
  · simp only [hc, if_false, Bool.false_eq_true]
    exact h1

theorem apiAdd_ext (rv : Bool) (fn user evm : Nat) (oom : Bool) (s : State) (h : Inv rv s) (lo : Nat) :
    Ext lo s (apiAdd rv fn user evm oom s) := by
  have hw := walkAdd_ok rv fn user evm (s.refCount == 0) s.list h.sorted
  have hsame : 0 < s.refCount → ids (walkAdd rv fn user evm (s.refCount == 0) s.list).chain = ids s.list := by
    intro hp
    apply hw.same
    simp; omega
  unfold apiAdd
  by_cases hc : (!(walkAdd rv fn user evm (s.refCount == 0) s.list).found && decide (evm ≠ 0)) = true
  · simp only [hc, if_true]
    cases oom with
    | true =>
      simp only [if_true]
      refine ⟨rfl, Nat.le_refl _, Nat.le_refl _, fun hp => ⟨[], by simp [hsame hp]⟩, _, by
        simp only [List.append_assoc]; rfl, ?_⟩
      intro d id f u e hin
      simp at hin
    | false =>
      simp only [Bool.false_eq_true, if_false]
      refine ⟨rfl, Nat.le_succ _, Nat.le_refl _, fun hp => ⟨[s.nextId], by
        simp [ids, List.map_append] ; simpa [ids] using hsame hp⟩, _, by simp only [List.append_assoc]; rfl, ?_⟩
      intro d id f u e hin
      simp at hin
  · simp only [hc, if_false, Bool.false_eq_true]
    refine ⟨rfl, Nat.le_refl _, Nat.le_refl _, fun hp => ⟨[], by simp [hsame hp]⟩, _, by
      simp only [List.append_assoc]; rfl, ?_⟩
    intro d id f u e hin
    simp at hin

theorem apiRemove_inv (rv : Bool) (id : Nat) (s : State) (h : Inv rv s) : Inv rv (apiRemove id s) :=
  inv_of_walk h (walkRemove_ok rv id (s.refCount == 0) s.list h.sorted) _
    (walkRemove_mask id (s.refCount == 0) s.list)

theorem apiRemove_ext (rv : Bool) (id : Nat) (s : State) (h : Inv rv s) (lo : Nat) :
    Ext lo s (apiRemove id s) := by
  have hw := walkRemove_ok rv id (s.refCount == 0) s.list h.sorted
  unfold apiRemove
  refine ⟨rfl, Nat.le_refl _, Nat.le_refl _, fun hp => ⟨[], ?_⟩, _, by simp only [List.append_assoc]; rfl, ?_⟩
  · simp only [List.append_nil]
    apply hw.same; simp; omega
  · intro d id f u e hin
    simp at hin

theorem apiRemoveByEvent_inv (rv : Bool) (evm : Nat) (s : State) (h : Inv rv s) :
    Inv rv (apiRemoveByEvent evm s) := by
  apply inv_of_walk h (walkByEvent_ok rv (M32 ^^^ evm) (s.refCount == 0) s.list h.sorted)
  intro r' hr' hrm b hb
  obtain ⟨r, hr, hrm0, hmask⟩ := walkByEvent_mask (M32 ^^^ evm) (s.refCount == 0) s.list r' hr' hrm
  rw [hmask, Nat.and_assoc] at hb
  have := h.maskSup r hr hrm0 _ hb
  rw [Nat.and_assoc]; exact this

theorem apiRemoveByEvent_ext (rv : Bool) (evm : Nat) (s : State) (h : Inv rv s) (lo : Nat) :
    Ext lo s (apiRemoveByEvent evm s) := by
  have hw := walkByEvent_ok rv (M32 ^^^ evm) (s.refCount == 0) s.list h.sorted
  unfold apiRemoveByEvent
  refine ⟨rfl, Nat.le_refl _, Nat.le_refl _, fun hp => ⟨[], ?_⟩, _, by simp only [List.append_assoc]; rfl, ?_⟩
  · simp only [List.append_nil]
    apply hw.same; simp; omega
  · intro d id f u e hin
    simp at hin

/-- the sweep at the end of the outermost delivery -/
theorem sweep_inv {rv : Bool} {s : State} (h : Inv rv s) : Inv rv (sweep { s with refCount := 0 }) := by
  have hsub : (ids (s.list.filter (fun r => !r.remove))).Sublist (ids s.list) :=
    List.Sublist.map _ List.filter_sublist
  have hnc : ∀ e ∈ (s.list.filter (·.remove)).map (fun r => Entry.free r.id), e.callId = none := by
    intro e he
    obtain ⟨r, _, rfl⟩ := List.mem_map.mp he
    rfl
  unfold sweep
  refine ⟨List.Pairwise.sublist hsub h.sorted, ?_, ?_, ?_, ?_, ncaf_append_nocall h.ncaf hnc, ?_, ?_, ?_, ?_, ?_⟩
  · intro r hr; exact h.bound r (List.mem_filter.mp hr).1
  · intro _ r hr
    have := (List.mem_filter.mp hr).2
    simpa using this
  · intro r hr hrm b hb; exact h.maskSup r (List.mem_filter.mp hr).1 hrm b hb
  · intro x hx
    simp only [List.mem_append, List.mem_map, List.mem_filter, Entry.free.injEq] at hx
    rcases hx with hx | ⟨r, ⟨hr, hrm⟩, rfl⟩
    · obtain ⟨h1, h2⟩ := h.freedDead x hx
      exact ⟨fun h3 => h1 (hsub.subset h3), h2⟩
    · refine ⟨?_, h.bound r hr⟩
      intro h3
      obtain ⟨r', hr', hid⟩ := mem_ids.mp h3
      rw [List.mem_filter] at hr'
      have := sorted_inj h.sorted hr'.1 hr hid
      subst this
      simp [hrm] at hr'
  · intro d id f u e hin
    rcases List.mem_append.mp hin with hin | hin
    · exact h.callDid d id f u e hin
    · have := hnc _ hin; simp [Entry.callId] at this
  · intro d
    show (callsOf d (s.trace ++ _)).Pairwise (· < ·)
    rw [callsOf_append, callsOf_nocall d hnc, List.append_nil]; exact h.ordered d
  · intro hrv x hx r hr hid
    rcases List.mem_append.mp hx with hx | hx
    · exact h.unregMarked hrv x hx r (List.mem_filter.mp hr).1 hid
    · obtain ⟨r0, _, h0⟩ := List.mem_map.mp hx; cases h0
  · intro hrv; exact ncau_append_nocall (h.ncau hrv) hnc
  · intro x hx
    rcases List.mem_append.mp hx with hx | hx
    · exact h.unregBound x hx
    · obtain ⟨r0, _, h0⟩ := List.mem_map.mp hx; cases h0

end Zvbi.Evl
