import ZvbiModel.Evl.LemmasExec
/-!
# Histories of top-level calls on the second list (C11, evl)
-/
namespace Zvbi.Evl

theorem inv_init (rv : Bool) : Inv rv init := by
  refine ⟨?_, ?_, ?_, ?_, ?_, ?_, ?_, ?_, ?_, ?_, ?_⟩ <;>
    simp [init, ids, NoCallAfterFree, NoCallAfterUnreg, callsOf]

theorem run_ok (rv : Bool) (beh : Behav) (fuel : Nat) : ∀ (cs : List Call) (s s' : State), Inv rv s →
    run rv beh fuel s cs = .ok s' → Inv rv s' ∧ s'.refCount = s.refCount := by
  intro cs
  induction cs with
  | nil =>
    intro s s' h hs
    simp only [run, Except.ok.injEq] at hs
    subst hs; exact ⟨h, rfl⟩
  | cons c cs ih =>
    intro s s' h hs
    simp only [run] at hs
    cases hc : exec rv beh fuel s c with
    | error e => rw [hc] at hs; simp at hs
    | ok s1 =>
      rw [hc] at hs
      obtain ⟨h1, e1⟩ := ((exec_loop_ok rv beh fuel).1 s c h).1 s1 hc
      obtain ⟨h2, hrc⟩ := ih s1 s' h1 hs
      exact ⟨h2, by rw [hrc, e1.refCount]⟩

theorem run_error (rv : Bool) (beh : Behav) (fuel : Nat) : ∀ (cs : List Call) (s : State) (e : Err),
    Inv rv s → run rv beh fuel s cs = .error e → e = .fuel := by
  intro cs
  induction cs with
  | nil => intro s e _ hs; simp [run] at hs
  | cons c cs ih =>
    intro s e h hs
    simp only [run] at hs
    cases hc : exec rv beh fuel s c with
    | error e1 =>
      rw [hc] at hs
      simp only [Except.error.injEq] at hs
      subst hs
      exact ((exec_loop_ok rv beh fuel).1 s c h).2 e1 hc
    | ok s1 =>
      rw [hc] at hs
      obtain ⟨h1, _⟩ := ((exec_loop_ok rv beh fuel).1 s c h).1 s1 hc
      exact ih s1 e h1 hs

/-- decidable form of "the run succeeded and its final state satisfies `p`" -/
def okAnd (r : Except Err State) (p : State → Bool) : Bool :=
  match r with
  | .ok s => p s
  | .error _ => false

theorem okAnd_spec {r : Except Err State} {p : State → Bool} (h : okAnd r p = true) :
    ∃ s, r = .ok s ∧ p s = true := by
  cases r with
  | ok s => exact ⟨s, rfl, h⟩
  | error e => simp [okAnd] at h

end Zvbi.Evl
