import ZvbiModel.Rawdec.Lemmas3
/-!
# Lemmas for C04, part 4: one frame (`vbi3_raw_decoder_decode`)
-/
namespace Zvbi.Rawdec
open Zvbi.Generated.ServiceTable

/-- invariant of the loop of `vbi3_raw_decoder_decode` after the rows `< k` -/
structure AccOK (sp : SPar) (maxLines : Nat) (ids : List Nat) (k : Nat) (a : DecAcc) : Prop where
  err : a.err = none
  jobIds : a.jobs.map (·.id) = ids
  wlen : a.writes.length = a.out.length
  /-- the records were stored in `sliced[0], sliced[1], ...` in this order (lists are newest first) -/
  slots : a.writes.map (·.1) = (List.range a.out.length).reverse
  le : a.out.length ≤ maxLines
  rowsLt : ∀ w ∈ a.writes, w.2 < k
  /-- rows of the records strictly ascending (newest first: descending) -/
  desc : List.Pairwise (fun x y => y.2 < x.2) a.writes
  lines : a.out.map (·.line) = a.writes.map (fun w => lineOf sp w.2)
  idsIn : ∀ r ∈ a.out, r.id ∈ ids

theorem decodeLine_ok (sp : SPar) (rj maxLines : Nat) (sl : Slicer) (ids : List Nat) (k : Nat) (a : DecAcc) (row : PRow)
    (h : AccOK sp maxLines ids k a) (hr : RowOK a.jobs.length row) (hrs : ∀ r ∈ a.rows, RowOK a.jobs.length r) :
    AccOK sp maxLines ids (k + 1) (decodeLine sp rj maxLines sl a (k, row)) ∧
    (decodeLine sp rj maxLines sl a (k, row)).jobs.length = a.jobs.length ∧
    (decodeLine sp rj maxLines sl a (k, row)).rows.length = a.rows.length + 1 ∧
    (∀ r ∈ (decodeLine sp rj maxLines sl a (k, row)).rows, RowOK a.jobs.length r) ∧
    ((∀ j job, (sl k j job).1 = none) → (decodeLine sp rj maxLines sl a (k, row)).out = a.out) := by
  unfold decodeLine
  have herr : a.err.isSome = false := by rw [h.err]; rfl
  simp only [herr, Bool.false_eq_true, if_false]
  by_cases hstop : a.stopped = true ∨ a.out.length ≥ maxLines
  · rw [if_pos hstop]
    refine ⟨⟨h.err, h.jobIds, h.wlen, h.slots, h.le, fun w hw => by have := h.rowsLt w hw; omega, h.desc, h.lines, h.idsIn⟩,
      rfl, by simp, ?_, fun _ => rfl⟩
    intro r hr'
    simp at hr'
    rcases hr' with rfl | hr'
    · exact hr
    · exact hrs r hr'
  · rw [if_neg hstop]
    obtain ⟨row', jobs', rec, he, hok', hids, _, hrec, hnone⟩ :=
      decodeWays_spec sp rj (sl k) k row.length 0 row a.jobs (by rw [hr.len]) hr (by intro q hq; omega)
    have hjl : jobs'.length = a.jobs.length := by
      have := congrArg List.length hids
      simpa using this
    unfold decodePattern
    rw [he]
    cases rec with
    | none =>
      simp only []
      refine ⟨⟨h.err, by rw [hids]; exact h.jobIds, h.wlen, h.slots, h.le, fun w hw => by have := h.rowsLt w hw; omega, h.desc,
        h.lines, h.idsIn⟩, hjl, by simp, ?_, fun _ => by trivial⟩
      intro r hr'
      simp at hr'
      rcases hr' with rfl | hr'
      · exact hok'
      · exact hrs r hr'
    | some r =>
      simp only []
      obtain ⟨hline, hid⟩ := hrec r rfl
      refine ⟨⟨h.err, by rw [hids]; exact h.jobIds, by simp [h.wlen], ?_, ?_, ?_, ?_, ?_, ?_⟩, hjl, by simp, ?_, ?_⟩
      · simp only [List.map_cons, List.length_cons]
        rw [h.slots, List.range_succ, List.reverse_append]
        rfl
      · simp only [List.length_cons]
        have : ¬ (a.out.length ≥ maxLines) := fun hh => hstop (Or.inr hh)
        omega
      · intro w hw
        simp at hw
        rcases hw with rfl | hw
        · simp
        · have := h.rowsLt w hw; omega
      · rw [List.pairwise_cons]
        exact ⟨fun w hw => h.rowsLt w hw, h.desc⟩
      · simp only [List.map_cons]
        rw [h.lines, hline]
      · intro r' hr'
        simp at hr'
        rcases hr' with rfl | hr'
        · rw [← h.jobIds]; exact hid
        · exact h.idsIn r' hr'
      · intro r' hr'
        simp at hr'
        rcases hr' with rfl | hr'
        · exact hok'
        · exact hrs r' hr'
      · intro hall
        have := hnone (hall)
        cases this

theorem frame_fold (sp : SPar) (rj maxLines : Nat) (sl : Slicer) (ids : List Nat) :
    ∀ (rows : List PRow) (k : Nat) (a : DecAcc), AccOK sp maxLines ids k a →
      (∀ r ∈ rows, RowOK a.jobs.length r) → (∀ r ∈ a.rows, RowOK a.jobs.length r) →
      AccOK sp maxLines ids (k + rows.length) (((List.range' k rows.length).zip rows).foldl (decodeLine sp rj maxLines sl) a) ∧
      (((List.range' k rows.length).zip rows).foldl (decodeLine sp rj maxLines sl) a).jobs.length = a.jobs.length ∧
      (((List.range' k rows.length).zip rows).foldl (decodeLine sp rj maxLines sl) a).rows.length = a.rows.length + rows.length ∧
      (∀ r ∈ (((List.range' k rows.length).zip rows).foldl (decodeLine sp rj maxLines sl) a).rows, RowOK a.jobs.length r) ∧
      ((∀ i j job, (sl i j job).1 = none) →
        (((List.range' k rows.length).zip rows).foldl (decodeLine sp rj maxLines sl) a).out = a.out) := by
  intro rows
  induction rows with
  | nil =>
    intro k a h _ hrs
    exact ⟨by simpa using h, rfl, rfl, by simpa using hrs, fun _ => rfl⟩
  | cons row rest ih =>
    intro k a h hrows hrs
    simp only [List.length_cons, List.range'_succ, List.zip_cons_cons, List.foldl_cons]
    obtain ⟨h1, hj1, hl1, hr1, ho1⟩ := decodeLine_ok sp rj maxLines sl ids k a row h (hrows row (by simp)) hrs
    obtain ⟨h2, hj2, hl2, hr2, ho2⟩ := ih (k + 1) _ h1
      (by intro r hr; rw [hj1]; exact hrows r (by simp [hr])) (by rw [hj1]; exact hr1)
    refine ⟨by rw [show k + (rest.length + 1) = k + 1 + rest.length from by omega]; exact h2, by rw [hj2, hj1],
      by rw [hl2, hl1]; omega, by rw [hj1] at hr2; exact hr2, ?_⟩
    intro hall
    rw [ho2 hall, ho1 (hall k)]

end Zvbi.Rawdec
