import ZvbiModel.Slicer.Model
import ZvbiModel.Generated.RawdecFacts
/-!
# Model of the raw VBI decoder's discrete logic (`src/raw_decoder.c`, `src/sampling_par.c`)

What is modelled, statement by statement:
* `_vbi_sampling_par_valid_log`, `_vbi_sampling_par_permit_service`,
  `_vbi_sampling_par_check_services_log` (0.2 branch; the two `double` comparisons are exact
  rational comparisons here - validated by the correspondence check, not proved);
* `lines_containing_data`, `add_job_to_pattern`, `remove_job_from_pattern`,
  `vbi3_raw_decoder_add_services`, `vbi3_raw_decoder_remove_services`, `vbi3_raw_decoder_reset`;
* `decode_pattern` (incl. the move-to-front of the matched job and the blank-line rotation) and
  the loop of `vbi3_raw_decoder_decode`, with the line numbering.

The image enters only through a *slicer oracle* `Slicer`: for (row, job index, slicer state) it
says whether `slice()` returned TRUE (and with which payload) and what the slicer state (the
adaptive threshold) is afterwards.  The driver instantiates it with the value-level slicer models
of `Rawdec/SliceModel.lean` run on the concrete samples; the theorems quantify over every oracle,
i.e. over every image.

`pattern[]` is a list of rows of `maxWays` entries (row `r`, way `w` is `pattern[r*MAX_WAYS + w]`);
every access goes through `get?`-style look-ups and a miss is an explicit error value
(`oob ...`), as is a failing `assert` (`assert ...`).  The C loops `for (way = 0; pattern[way] > 0;
++way)` and `for (pat = pattern;; ++pat)` have no bound of their own: in the model leaving the
row is the error `oob`.
-/
namespace Zvbi.Rawdec
open Zvbi.Generated.ServiceTable
open Zvbi.Slicer (U32)

/-- `vbi_sampling_par` (= the public part of `vbi_raw_decoder` in 0.2); all fields are C `int`s,
    the protocol keeps them in `0 .. 2^31-1` -/
structure SPar where
  scanning : Nat
  fmt : Nat
  rate : Nat
  bpl : Nat
  offset : Nat
  start0 : Nat
  count0 : Nat
  start1 : Nat
  count1 : Nat
  interlaced : Bool
  synchronous : Bool
  deriving Repr, DecidableEq, Inhabited

def SPar.scanLines (sp : SPar) : Nat := sp.count0 + sp.count1
def SPar.start (sp : SPar) (f : Nat) : Nat := if f = 0 then sp.start0 else sp.start1
def SPar.count (sp : SPar) (f : Nat) : Nat := if f = 0 then sp.count0 else sp.count1

/-- `_vbi_videostd_set_from_scanning` -/
def videostdOfScanning (scanning : Nat) : Nat :=
  if scanning = 525 then videostd525 else if scanning = 625 then videostd625 else 0

/-- `range_check` (the sums are `unsigned int`) -/
def rangeCheck (start count lo hi : Nat) : Bool :=
  decide (start ≥ lo) && decide ((start + count) % U32 ≤ hi) && decide ((start + count) % U32 ≥ start)

/-- `VBI_PIXFMT_BPP` -/
def bppOf (fmt : Nat) : Nat :=
  if fmt = 1 then 1 else if 32 ≤ fmt ∧ fmt ≤ 35 then 4 else if fmt = 36 ∨ fmt = 37 then 3 else 2

/-- `_vbi_sampling_par_valid_log`, 0.2 branch -/
def SPar.valid (sp : SPar) : Bool :=
  let fmtOk := if sp.fmt = 1 then true else decide (sp.bpl % bppOf sp.fmt = 0)
  let std := videostdOfScanning sp.scanning
  let rng :=
    if std = videostd525 then
      (sp.start0 = 0 || rangeCheck sp.start0 sp.count0 1 262) &&
      (sp.start1 = 0 || rangeCheck sp.start1 sp.count1 263 525)
    else if std = videostd625 then
      (sp.start0 = 0 || rangeCheck sp.start0 sp.count0 1 311) &&
      (sp.start1 = 0 || rangeCheck sp.start1 sp.count1 312 625)
    else false
  fmtOk && decide (sp.bpl ≠ 0) && !(sp.count0 = 0 && sp.count1 = 0) && rng &&
  !(sp.interlaced && (sp.count0 ≠ sp.count1 || sp.count0 = 0))

def _root_.Zvbi.Generated.ServiceTable.Row.first (r : Row) (f : Nat) : Nat := if f = 0 then r.first0 else r.first1
def _root_.Zvbi.Generated.ServiceTable.Row.last (r : Row) (f : Nat) : Nat := if f = 0 then r.last0 else r.last1

/-- `strict` is an `int` passed on as `unsigned int` -/
def strictU (strict : Int) : Nat := (strict % (U32 : Int)).toNat

/-- the per-field loop at the end of `_vbi_sampling_par_permit_service` -/
def permitField (sp : SPar) (r : Row) (strict : Int) (f : Nat) : Bool :=
  if r.first f = 0 ∨ r.last f = 0 then true
  else if sp.count f = 0 then false
  else if strict ≤ 0 ∨ sp.start f = 0 then true
  else if strict = 1 ∧ r.first f > r.last f then true
  else
    -- `end = start + count - 1` (unsigned; count > 0 here)
    let e := sp.start f + sp.count f - 1
    !(decide (sp.start f > r.first f) || decide (e < r.last f))

/-- `_vbi_sampling_par_permit_service`.  `signal` and `samples` are `double`s in C; here
    `samples < signal` is decided exactly over the rationals (`1e-6` = 1/10^6). -/
def permitService (sp : SPar) (r : Row) (strict : Int) : Bool :=
  let std := videostdOfScanning sp.scanning
  if r.videostd &&& std = 0 then false
  else if r.flags &&& spLineNum ≠ 0 ∧
      ((r.first0 > 0 ∧ sp.start0 = 0) ∨ (r.first1 > 0 ∧ sp.start1 = 0)) then false
  else if !Zvbi.Slicer.permitRate r sp.rate then false
  else if r.criRate = 0 ∨ r.bitRate = 0 ∨ sp.rate = 0 then false
  else
    let spl := sp.bpl / bppOf sp.fmt
    -- samples = spl/rate [- 1/10^6]   <   signal = criBits/criRate + (frcBits+payload)/bitRate
    -- multiplied by 10^6 * rate * criRate * bitRate
    let lhs : Int := (10^6 * spl * r.criRate * r.bitRate : Nat)
    let lhs : Int := if strictU strict > 0 then lhs - (sp.rate * r.criRate * r.bitRate : Nat) else lhs
    let rhs : Int := (10^6 * sp.rate * (r.criBits * r.bitRate + (r.frcBits + r.payload) * r.criRate) : Nat)
    if lhs < rhs then false
    else if r.flags &&& spFieldNum ≠ 0 ∧ !sp.synchronous then false
    else permitField sp r strict 0 && permitField sp r strict 1

/-- `_vbi_sampling_par_check_services_log` -/
def checkServices (sp : SPar) (services : Nat) (strict : Int) : Nat :=
  serviceTable.foldl (fun acc r =>
    if r.id &&& services = 0 then acc
    else if permitService sp r strict then acc ||| r.id else acc) 0

/-- one field of `lines_containing_data`: `(start[f], count[f])` as ROW indices; `start0` = the initial
    `start[f]` (0 resp. `count[0]`) -/
def linesField (sp : SPar) (r : Row) (f : Nat) (start0 : Nat) : Nat × Nat :=
  let cnt := sp.count f
  if !sp.synchronous then (start0, cnt)
  else if r.first f = 0 ∨ r.last f = 0 then (start0, 0)
  else
    let first := sp.start f
    if first > 0 ∧ cnt > 0 then
      let last := first + cnt - 1
      if r.first f > last ∨ r.last f < first then (start0, cnt)
      else
        let first' := max first (r.first f)
        let last' := min (r.last f) last
        (start0 + (first' - sp.start f), last' + 1 - first')
    else (start0, cnt)

/-- `lines_containing_data`: ((start[0], count[0]), (start[1], count[1])) as ROW indices.
    (The C code asserts `par->first[f] <= par->last[f]`; that is a fact about the generated table,
    `table_first_le_last` in Props/C04.lean.) -/
def linesContainingData (sp : SPar) (r : Row) : (Nat × Nat) × (Nat × Nat) :=
  (linesField sp r 0 0, linesField sp r 1 sp.count0)

/-! ## pattern rows -/

abbrev PRow := List Int
abbrev Pattern := List PRow

def blankRow : PRow := List.replicate maxWays 0

/-- which repairs of `fixes/rawdec-remove-services.diff` the modelled source contains -/
structure Fixes where
  /-- `++job` next to `++job_num` in `vbi3_raw_decoder_remove_services` -/
  jobAdvance : Bool
  /-- `remove_job_from_pattern` leaves the marker of the last way in place -/
  marker : Bool
  /-- `services |= job->id` before a merged job is deleted -/
  merged : Bool
  deriving Repr, DecidableEq

/-- the released code -/
def Fixes.none : Fixes := ⟨false, false, false⟩
def Fixes.all : Fixes := ⟨true, true, true⟩
/-- what /repo contains (recognised by `translate/gen_rawdec.py`) -/
def Fixes.repo : Fixes :=
  ⟨Zvbi.Generated.RawdecFacts.fixJobAdvance, Zvbi.Generated.RawdecFacts.fixMarker, Zvbi.Generated.RawdecFacts.fixMerged⟩

/-- `remove_job_from_pattern`, one scan line: entries equal to `jn` are dropped, larger job
    numbers move down by one, EVERYTHING else (zeros and, in the released code, the negative
    marker) is copied, the tail is zero filled.  Repaired: a negative entry in the last way is not
    copied but written back to the last way. -/
def removeRow (keepMarker : Bool) (jn : Int) (row : PRow) : PRow :=
  let last := row.getD (row.length - 1) 0
  let idx := (List.range row.length).zip row
  let kept := idx.filterMap (fun (i, num) =>
    if num > jn then some (num - 1)
    else if num ≠ jn ∧ (!keepMarker ∨ num ≥ 0 ∨ i + 1 < row.length) then some num else none)
  let filled := kept ++ List.replicate (row.length - kept.length) 0
  if keepMarker ∧ last < 0 then filled.set (row.length - 1) last else filled

/-- first loop of `add_job_to_pattern`, one scan line: returns the compacted row and `free` -/
def compactRow (jn : Int) (row : PRow) : PRow × Nat :=
  let pos := row.filter (· > 0)
  let free := (row.filter (· ≤ 0)).length + (row.filter (· = jn)).length
  (pos ++ List.replicate (row.length - pos.length) 0, free)

/-- `for (way = 0; pattern[way] > 0; ++way) if (pattern[way] == job_num) break;` - leaving the row is `none` -/
def findWay (jn : Int) (row : PRow) : Option Nat :=
  row.findIdx? (fun num => !(decide (num > 0)) || num == jn)

/-- second loop of `add_job_to_pattern`, one scan line -/
def placeRow (jn : Int) (row : PRow) : Except String PRow :=
  match findWay jn row with
  | none => .error "oob add.way"
  | some way => .ok ((row.set way jn).set (maxWays - 1) (-128))

/-- apply `f` to rows `start .. start+count-1`; a missing row is the failing
    `assert (pattern < pattern_end)` -/
def mapRowsM (f : PRow → Except String PRow) (start count : Nat) (pat : Pattern) : Except String Pattern :=
  (List.range count).foldlM (fun p i =>
    match p[start + i]? with
    | none => .error "assert add.pattern_end"
    | some row => do
      let row' ← f row
      pure (p.set (start + i) row')) pat

/-- first pass: compaction, stops with `inl pattern-so-far` at the first line without two free ways -/
def addPass1 (jn : Int) (start count : Nat) (pat : Pattern) : Except String (Pattern × Bool) :=
  (List.range count).foldlM (fun (acc : Pattern × Bool) i =>
    if !acc.2 then pure acc else
    match acc.1[start + i]? with
    | none => .error "assert add.pattern_end"
    | some row =>
      let (row', free) := compactRow jn row
      pure (acc.1.set (start + i) row', decide (free > 1))) (pat, true)

/-- `add_job_to_pattern`: `(pattern', TRUE/FALSE)`; the pattern is modified even when FALSE is returned -/
def addJobToPattern (jobIdx : Nat) (lines : (Nat × Nat) × (Nat × Nat)) (pat : Pattern) : Except String (Pattern × Bool) := do
  let jn : Int := jobIdx + 1
  let (p1, ok1) ← addPass1 jn lines.1.1 lines.1.2 pat
  if !ok1 then return (p1, false)
  let (p2, ok2) ← addPass1 jn lines.2.1 lines.2.2 p1
  if !ok2 then return (p2, false)
  let p3 ← mapRowsM (placeRow jn) lines.1.1 lines.1.2 p2
  let p4 ← mapRowsM (placeRow jn) lines.2.1 lines.2.2 p3
  return (p4, true)

/-! ## jobs and decoder state -/

/-- one `_vbi3_raw_decoder_job`: the id set and the slicer; of the slicer only which table row
    configured it and the adaptive threshold matter -/
structure Job where
  id : Nat
  /-- index into `serviceTable` of the row the slicer was last configured from -/
  row : Nat
  /-- `bs->thresh` -/
  thresh : Nat
  deriving Repr, DecidableEq, Inhabited

structure State where
  sp : SPar
  services : Nat := 0
  /-- `rd->jobs[0 .. n_jobs)` -/
  jobs : List Job := []
  pattern : Option Pattern := none
  readjust : Nat := 1
  /-- sticky: an out-of-range index or failing assertion was reached -/
  err : Option String := none
  deriving Repr, Inhabited

def State.fail (s : State) (e : String) : State := { s with err := some e }

/-- the merge test of `add_services` -/
def mergeable (jobId parId : Nat) : Bool :=
  let id := jobId ||| parId
  let tB := 0x3; let c525 := 0x60; let c625 := 0x18; let vps := 0x1004
  -- `0 == (id & ~X)`
  (id &&& tB == id) || (id &&& c525 == id) || (id &&& c625 == id) || (id &&& vps == id)

/-- body of the `for (par = _vbi_service_table; par->id; ++par)` loop of `add_services`;
    `threshInit` = threshold a freshly configured slicer starts with.
    Returns `none` for `break`. -/
def addOne (threshInit : Nat → Nat) (services : Nat) (strict : Int) (s : State) (ri : Nat) (r : Row) : Option State :=
  if s.err.isSome then some s
  else if r.id &&& services = 0 then some s
  else
    let j := (s.jobs.findIdx? (fun job => mergeable job.id r.id)).getD s.jobs.length
    if j ≥ maxJobs then none
    else
      -- `else if (j >= rd->n_jobs) job->id = 0;`
      let jobId := match s.jobs[j]? with | some job => job.id | none => 0
      if checkServices s.sp r.id strict = 0 then some s
      else
        let spl := s.sp.bpl / bppOf s.sp.fmt
        match Zvbi.Slicer.fmtOfCode s.sp.fmt with
        | none => some (s.fail "assert bit_slicer_set_params")
        | some fmt =>
        match Zvbi.Slicer.setParams slicerTight (Zvbi.Slicer.rowParams r fmt s.sp.rate spl) with
        | .error _ => some (s.fail "assert bit_slicer_set_params")
        | .ok _ =>
          -- the slicer of an existing (merged) job is reconfigured as well: its threshold restarts
          let job' : Job := { id := jobId, row := ri, thresh := threshInit ri }
          let jobs1 := if j < s.jobs.length then s.jobs.set j job' else s.jobs
          match s.pattern with
          | none => some (s.fail "oob add.nopattern")
          | some pat =>
            match addJobToPattern j (linesContainingData s.sp r) pat with
            | .error e => some (s.fail e)
            | .ok (pat', false) => some { s with jobs := jobs1, pattern := some pat' }
            | .ok (pat', true) =>
              let job'' := { job' with id := jobId ||| r.id }
              let jobs2 := if j < s.jobs.length then s.jobs.set j job'' else s.jobs ++ [job'']
              some { s with jobs := jobs2, pattern := some pat', services := s.services ||| r.id }

/-- fold with `break` -/
def addLoop (threshInit : Nat → Nat) (services : Nat) (strict : Int) : State → List (Nat × Row) → State
  | s, [] => s
  | s, (ri, r) :: rest =>
    match addOne threshInit services strict s ri r with
    | none => s
    | some s' => addLoop threshInit services strict s' rest

def enumTable : List (Nat × Row) := (List.range serviceTable.length).zip serviceTable

/-- the `services` the table loop works with: blank "VBI" pseudo services masked out, already decoded ones dropped -/
def maskServices (s : State) (services : Nat) : Nat :=
  let services := services &&& (U32 - 1 - (slicedVbi525 ||| slicedVbi625))
  if s.services &&& services ≠ 0 then services &&& (U32 - 1 - s.services) else services

/-- `vbi3_raw_decoder_add_services` after the masking: allocate the pattern, run the table loop -/
def addServicesCore (threshInit : Nat → Nat) (s : State) (services : Nat) (strict : Int) : State :=
  if services = 0 then s
  else
    let s1 := match s.pattern with
      | some _ => s
      | none => { s with pattern := some (List.replicate s.sp.scanLines blankRow) }
    addLoop threshInit services strict s1 enumTable

/-- `vbi3_raw_decoder_add_services` -/
def addServices (threshInit : Nat → Nat) (s : State) (services : Nat) (strict : Int) : State :=
  if s.err.isSome then s else addServicesCore threshInit s (maskServices s services) strict

/-- `memmove (job, job + 1, (n_jobs - job_num - 1) * sizeof (*job)); --n_jobs; CLEAR (jobs[n_jobs])`
    with `job = rd->jobs + at` -/
def shiftJobs (jobs : List Job) (at_ jobNum : Nat) : List Job :=
  let cnt := jobs.length - jobNum - 1
  (List.range (jobs.length - 1)).map (fun i =>
    ((if at_ ≤ i ∧ i < at_ + cnt then jobs[i + 1]? else jobs[i]?).getD default))

/-- loop of `vbi3_raw_decoder_remove_services`.  `jobAt` = index `job` points to: in the released code it
    stays 0 while `job_num` counts up. -/
def removeLoop (fx : Fixes) : Nat → Nat → Nat → List Job → Option Pattern → Nat → List Job × Option Pattern × Nat
  | 0, _, _, jobs, pat, services => (jobs, pat, services)
  | fuel + 1, services, jobNum, jobs, pat, acc =>
    if jobNum ≥ jobs.length then (jobs, pat, acc)
    else
      let jobAt := if fx.jobAdvance then jobNum else 0
      match jobs[jobAt]? with
      | none => (jobs, pat, acc)
      | some job =>
        if job.id &&& services ≠ 0 then
          let services' := if fx.merged then services ||| job.id else services
          let pat' := pat.map (fun p => p.map (removeRow fx.marker ((jobNum : Int) + 1)))
          removeLoop fx fuel services' jobNum (shiftJobs jobs jobAt jobNum) pat' services'
        else removeLoop fx fuel services (jobNum + 1) jobs pat acc

/-- `vbi3_raw_decoder_remove_services` -/
def removeServices (fx : Fixes) (s : State) (services : Nat) : State :=
  if s.err.isSome then s else
  let (jobs, pat, services') := removeLoop fx (2 * s.jobs.length + 1) services 0 s.jobs s.pattern services
  { s with jobs := jobs, pattern := pat, services := s.services &&& (U32 - 1 - (services' % U32)) }

/-- `vbi3_raw_decoder_reset` -/
def reset (s : State) : State :=
  { s with pattern := none, services := 0, jobs := [], readjust := 1 }

/-! ## decoding -/

/-- one `vbi_sliced` record as written by `decode_pattern` -/
structure Rec where
  id : Nat
  line : Nat
  data : List Nat
  deriving Repr, DecidableEq

/-- the image as seen by the decoder: `slice (row) (job index) (job)` = (payload if `slice()` returned
    TRUE, slicer threshold afterwards) -/
abbrev Slicer := Nat → Nat → Job → Option (List Nat) × Nat

/-- `sliced->line` for row `i` -/
def lineOf (sp : SPar) (i : Nat) : Nat :=
  if i ≥ sp.count0 then
    (if sp.synchronous ∧ sp.start1 ≠ 0 then sp.start1 + i - sp.count0 else 0)
  else
    (if sp.synchronous ∧ sp.start0 ≠ 0 then sp.start0 + i else 0)

/-- `*pat = pattern[0]; pattern[0] = j;` -/
def moveToFront (row : PRow) (p : Nat) (j : Int) : PRow :=
  (row.set p (row.getD 0 0)).set 0 j

/-- `memmove (&pattern[0], &pattern[1], MAX_WAYS-1); pattern[MAX_WAYS-1] = j` -/
def rotateRow (row : PRow) : PRow :=
  match row with
  | [] => []
  | j :: rest => rest ++ [j]

/-- `decode_pattern` from way `p` on; `fuel` = ways left in the row.
    Result: new row, new jobs, record written (at most one). -/
def decodeWays (sp : SPar) (readjust : Nat) (sl : Nat → Job → Option (List Nat) × Nat) (i : Nat) :
    Nat → Nat → PRow → List Job → Except String (PRow × List Job × Option Rec)
  | 0, _, _, _ => .error "oob decode.pat"
  | fuel + 1, p, row, jobs =>
    match row[p]? with
    | none => .error "oob decode.pat"
    | some j =>
      if j > 0 then
        match jobs[j.toNat - 1]? with
        | none => .error "oob decode.job"
        | some job =>
          let (res, th) := sl (j.toNat - 1) job
          let jobs' := jobs.set (j.toNat - 1) { job with thresh := th }
          match res with
          | none => decodeWays sp readjust sl i fuel (p + 1) row jobs'
          | some data =>
            let row1 := row.set (maxWays - 1) (-128)
            .ok (moveToFront row1 p j, jobs', some { id := job.id, line := lineOf sp i, data := data })
      else if p = 0 then
        .ok (if readjust = 0 then rotateRow row else row, jobs, none)
      else
        match row[maxWays - 1]? with
        | none => .error "oob decode.last"
        | some j7 =>
          if j7 < 0 then .ok (row, jobs, none)
          else .ok (moveToFront row p j7, jobs, none)

def decodePattern (sp : SPar) (readjust : Nat) (sl : Nat → Job → Option (List Nat) × Nat) (i : Nat)
    (row : PRow) (jobs : List Job) : Except String (PRow × List Job × Option Rec) :=
  decodeWays sp readjust sl i row.length 0 row jobs

structure DecAcc where
  rows : List PRow := []      -- rows already processed (reversed)
  jobs : List Job
  out : List Rec := []        -- records written (reversed)
  /-- (slot index of `sliced[]`, row) of every record written -/
  writes : List (Nat × Nat) := []
  stopped : Bool := false
  err : Option String := none

/-- one iteration of the loop of `vbi3_raw_decoder_decode` -/
def decodeLine (sp : SPar) (readjust maxLines : Nat) (sl : Slicer) (a : DecAcc) (irow : Nat × PRow) : DecAcc :=
  if a.err.isSome then a
  else if a.stopped ∨ a.out.length ≥ maxLines then { a with stopped := true, rows := irow.2 :: a.rows }
  else
    match decodePattern sp readjust (sl irow.1) irow.1 irow.2 a.jobs with
    | .error e => { a with err := some e, rows := irow.2 :: a.rows }
    | .ok (row', jobs', none) => { a with rows := row' :: a.rows, jobs := jobs' }
    | .ok (row', jobs', some r) =>
      { a with rows := row' :: a.rows, jobs := jobs', out := r :: a.out,
               writes := (a.out.length, irow.1) :: a.writes }

/-- `vbi3_raw_decoder_decode`: new state and the records written to `sliced[0 .. n)` -/
def decodeFrame (s : State) (maxLines : Nat) (sl : Slicer) : State × List Rec × List (Nat × Nat) :=
  if s.err.isSome then (s, [], [])
  else if s.services = 0 then (s, [], [])
  else
    match s.pattern with
    | none => (s.fail "oob decode.nopattern", [], [])
    | some pat =>
      let a := ((List.range pat.length).zip pat).foldl (decodeLine s.sp s.readjust maxLines sl) { jobs := s.jobs }
      let s' := { s with pattern := some a.rows.reverse, jobs := a.jobs, readjust := (s.readjust + 1) % 16,
                         err := a.err }
      (s', a.out.reverse, a.writes.reverse)

/-! ## histories -/

inductive Op
  | add (services : Nat) (strict : Int)
  | remove (services : Nat)
  | reset
  | decode (maxLines : Nat) (sl : Slicer)

def step (fx : Fixes) (threshInit : Nat → Nat) (s : State) : Op → State
  | .add sv st => addServices threshInit s sv st
  | .remove sv => removeServices fx s sv
  | .reset => if s.err.isSome then s else reset s
  | .decode m sl => (decodeFrame s m sl).1

def init (sp : SPar) : State := { sp := sp }

def run (fx : Fixes) (threshInit : Nat → Nat) (sp : SPar) (ops : List Op) : State :=
  ops.foldl (step fx threshInit) (init sp)

end Zvbi.Rawdec
