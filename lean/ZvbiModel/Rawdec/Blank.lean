import ZvbiModel.Rawdec.Model
import ZvbiModel.Generated.RawdecFlags
/-!
# The per-line prediction state of `decode_pattern` across decode calls (C04, round 3)

`pattern[row * 8 .. row * 8 + 7]` is the only thing `vbi3_raw_decoder_decode` remembers about a scan line from one call
to the next (plus `rd->readjust`, a call counter modulo 16, and the slicers' adaptive thresholds):
* the jobs searched on the line, in the order they are tried (`j > 0`), followed by free ways (`0`);
* the matched job is swapped to way 0 (`*pat = pattern[0]; pattern[0] = j;`): the ORDER is history;
* the last way holds a counter `-128 .. -1` ("not blank", set to -128 by a match and by `add_job_to_pattern`); the
  statement that would count it up after a call without match,
  `pattern[_VBI3_RAW_DECODER_MAX_WAYS - 1] = j + 1;`, is inside a comment in the released code;
* were the counter to reach 0 the "found nothing" branch would swap a 0 into way 0: the line is *predicted blank* and
  `decode_pattern` returns before calling any slicer, except that with `rd->readjust == 0` the row is rotated.

`decodeWaysC ctr` is `decode_pattern` with the counter statement as a switch; `Generated.RawdecFlags.blankCounterOn`
(regenerated from the statement text of /repo on every run) says which one /repo contains.  `Rawdec.Model.decodeWays`
is the instance `ctr = false` (`decodeWaysC_false`).

`tryJobs` is the history-free meaning of one `decode_pattern` call: the jobs of a list are tried in order, each with
the threshold its slicer has at that moment, until one matches.
-/
namespace Zvbi.Rawdec
open Zvbi.Generated.ServiceTable

/-- `decode_pattern` from way `p` on, with the statement `pattern[MAX_WAYS - 1] = j + 1;` live iff `ctr` -/
def decodeWaysC (ctr : Bool) (sp : SPar) (readjust : Nat) (sl : Nat → Job → Option (List Nat) × Nat) (i : Nat) :
    Nat → Nat → PRow → List Job → Except String (PRow × List Job × Option Rec)
  | 0, _, _, _ => .error "oob decode.pat"
  | fuel + 1, p, row, jobs =>
    match row[p]? with
    | none => .error "oob decode.pat"
    | some j =>
      if j > 0 then
        match jobs[j.toNat - 1]? with
        | none => .error "oob decode.job"
        | some job =>
          let (res, th) := sl (j.toNat - 1) job
          let jobs' := jobs.set (j.toNat - 1) { job with thresh := th }
          match res with
          | none => decodeWaysC ctr sp readjust sl i fuel (p + 1) row jobs'
          | some data =>
            let row1 := row.set (maxWays - 1) (-128)
            .ok (moveToFront row1 p j, jobs', some { id := job.id, line := lineOf sp i, data := data })
      else if p = 0 then
        .ok (if readjust = 0 then rotateRow row else row, jobs, none)
      else
        match row[maxWays - 1]? with
        | none => .error "oob decode.last"
        | some j7 =>
          if j7 < 0 then .ok (if ctr then row.set (maxWays - 1) (j7 + 1) else row, jobs, none)
          else .ok (moveToFront row p j7, jobs, none)

def decodePatternC (ctr : Bool) (sp : SPar) (readjust : Nat) (sl : Nat → Job → Option (List Nat) × Nat) (i : Nat)
    (row : PRow) (jobs : List Job) : Except String (PRow × List Job × Option Rec) :=
  decodeWaysC ctr sp readjust sl i row.length 0 row jobs

/-- the model of `Rawdec/Model.lean` is the one with the counter statement commented out -/
theorem decodeWaysC_false (sp : SPar) (rj : Nat) (sl : Nat → Job → Option (List Nat) × Nat) (i : Nat) :
    ∀ (fuel p : Nat) (row : PRow) (jobs : List Job),
      decodeWaysC false sp rj sl i fuel p row jobs = decodeWays sp rj sl i fuel p row jobs := by
  intro fuel
  induction fuel with
  | zero => intro p row jobs; rfl
  | succ fuel ih =>
    intro p row jobs
    unfold decodeWaysC decodeWays
    cases row[p]? with
    | none => rfl
    | some j =>
      simp only []
      by_cases hj : j > 0
      · simp only [hj, if_true]
        cases jobs[j.toNat - 1]? with
        | none => rfl
        | some job =>
          simp only []
          cases (sl (j.toNat - 1) job).1 with
          | none => simp only []; exact ih _ _ _
          | some d => rfl
      · simp only [hj, if_false]
        rfl

/-- one decode call on ONE line of a persistent decoder: `(row, jobs, readjust)` -> the same after the call and the
    record written; the loop of `vbi3_raw_decoder_decode` restricted to a single scan line -/
def lineCall (ctr : Bool) (sp : SPar) (i : Nat) (st : PRow × List Job × Nat) (sl : Nat → Job → Option (List Nat) × Nat) :
    (PRow × List Job × Nat) × Option Rec :=
  match decodePatternC ctr sp st.2.2 sl i st.1 st.2.1 with
  | .ok (row', jobs', rec) => ((row', jobs', (st.2.2 + 1) % 16), rec)
  | .error _ => ((st.1, st.2.1, (st.2.2 + 1) % 16), none)

/-- a history of calls on one line; the records of every call -/
def lineHistory (ctr : Bool) (sp : SPar) (i : Nat) :
    (PRow × List Job × Nat) → List (Nat → Job → Option (List Nat) × Nat) → (PRow × List Job × Nat) × List (Option Rec)
  | st, [] => (st, [])
  | st, sl :: rest =>
    let (st', r) := lineCall ctr sp i st sl
    let (st'', rs) := lineHistory ctr sp i st' rest
    (st'', r :: rs)

/-! ## what a call means when nothing is remembered -/

/-- the jobs `ways` (job numbers, 1-based) are tried in this order, each slicer with the threshold it has at that
    moment, until one matches: (job index, payload) of the match, and the jobs with their new thresholds -/
def tryJobs (sl : Nat → Job → Option (List Nat) × Nat) : List Int → List Job → Option (Nat × Job × List Nat) × List Job
  | [], jobs => (none, jobs)
  | j :: rest, jobs =>
    match jobs[j.toNat - 1]? with
    | none => (none, jobs)
    | some job =>
      let (res, th) := sl (j.toNat - 1) job
      let jobs' := jobs.set (j.toNat - 1) { job with thresh := th }
      match res with
      | some data => (some (j.toNat - 1, job, data), jobs')
      | none => tryJobs sl rest jobs'

/-- the job numbers listed for a line: all positive entries of its row, in way order -/
def jobsOf (row : PRow) : List Int := row.filter (fun x => decide (0 < x))

/-- a row in which no prediction can hide a job: the jobs come first (no job behind a free way), and while the line
    has a job the last way holds the (negative) "not blank" marker -/
structure RowArmed (row : PRow) : Prop where
  compact : ∀ p q, p < q → q < 8 → 0 < row.getD q 0 → 0 < row.getD p 0
  marker : 0 < row.getD 0 0 → row.getD 7 0 < 0

instance (row : PRow) : Decidable (RowArmed row) :=
  decidable_of_iff ((∀ p q : Fin 8, p.val < q.val → 0 < row.getD q.val 0 → 0 < row.getD p.val 0) ∧
      (0 < row.getD 0 0 → row.getD 7 0 < 0))
    ⟨fun h => ⟨fun p q hpq hq hpos => h.1 ⟨p, by omega⟩ ⟨q, hq⟩ hpq hpos, h.2⟩,
     fun h => ⟨fun p q hpq hpos => h.compact p.val q.val hpq q.isLt hpos, h.marker⟩⟩

def PatArmed (pat : Pattern) : Prop := ∀ row ∈ pat, RowArmed row

instance (pat : Pattern) : Decidable (PatArmed pat) := by unfold PatArmed; infer_instance

/-- the part of a job a decode call never changes (everything but the slicer threshold) -/
def jobKey (j : Job) : Nat × Nat := (j.id, j.row)

/-- the slicers' verdict does not depend on the adaptive threshold left behind by earlier lines and frames -/
def ThreshFree (sl : Slicer) : Prop :=
  ∀ i k (job job' : Job), jobKey job = jobKey job' → (sl i k job).1 = (sl i k job').1

/-- does job number `x` (1-based) match on row `i`? -/
def hitOf (sl : Slicer) (jobs : List Job) (i : Nat) (x : Int) : Option (List Nat) :=
  match jobs[x.toNat - 1]? with
  | some job => (sl i (x.toNat - 1) job).1
  | none => none

/-- the record a line yields when nothing is remembered: the first listed job whose slicer matches -/
def lineSpec (sp : SPar) (sl : Slicer) (jobs : List Job) (i : Nat) (row : PRow) : Option Rec :=
  match (jobsOf row).find? (fun x => (hitOf sl jobs i x).isSome) with
  | none => none
  | some x =>
    match jobs[x.toNat - 1]?, hitOf sl jobs i x with
    | some job, some d => some { id := job.id, line := lineOf sp i, data := d }
    | _, _ => none

/-- the records of a frame when nothing is remembered: row by row, at most `maxLines` -/
def frameSpec (sp : SPar) (sl : Slicer) (jobs : List Job) (pat : Pattern) (maxLines : Nat) : List Rec :=
  (((List.range pat.length).zip pat).filterMap (fun ir => lineSpec sp sl jobs ir.1 ir.2)).take maxLines

end Zvbi.Rawdec
