import ZvbiModel.Slicer.Model
/-!
# Value-level model of the three bit slicers on an abstract sample sequence

`g : Nat → Nat` is the sequence of (green / luma) sample values of one scan line as the slicer
sees them after `raw += bs->skip`: `g n = GREEN (raw + n * bpp)`.  The slicers are functions of
`g`, the configured parameters and the adaptive threshold `bs->thresh`, and return the payload
bytes (if `slice()` returns TRUE) and the threshold afterwards.

* `coreSlice`   - `CORE()/CRI()/PAYLOAD()/SAMPLE()` of `src/bit_slicer.c` (oversampling 4)
* `lowpassSlice`- `low_pass_bit_slicer_Y8`
* `legacySlice` - `bit_slicer_tmpl` of `src/decoder.c`

All three share the shape *search stage* (clock run-in search with threshold adaptation; result:
position `k`, threshold `tr` at that moment) followed by the *payload stage* (`payloadStage`):
FRC compare and payload sampling at `phase_shift + j*step`, which only differ in the sampler and
in what the accumulator `c` holds when the payload loop starts.

C `unsigned int` arithmetic is reduced mod 2^32 where the C code can wrap.
-/
namespace Zvbi.Rawdec
open Zvbi.Slicer (U32 Kind)

/-- configured slicer (value-relevant fields of `vbi3_bit_slicer` / `vbi_bit_slicer`) -/
structure BS where
  criMask : Nat
  cri : Nat
  criSamples : Nat
  criRate : Nat
  /-- `oversampling_rate` -/
  osRate : Nat
  threshFrac : Nat
  frc : Nat
  frcBits : Nat
  phaseShift : Nat
  step : Nat
  payload : Nat
  endian : Nat
  deriving Repr, DecidableEq, Inhabited

inductive Variant | core | lowpass | legacy
  deriving Repr, DecidableEq

/-! ## payload stage (shared) -/

/-- `smp pos` = the decision `raw0 >= tr` for the bit sampled at position `pos` (1/256 samples after
    the CRI position) -/
abbrev Sampler := Nat → Bool

def b2n (b : Bool) : Nat := if b then 1 else 0

/-- FRC loop: `c = c * 2 + bit`, `frc_bits` times -/
def frcValue (bs : BS) (smp : Sampler) : Nat :=
  (List.range bs.frcBits).foldl (fun c j => (c * 2 + b2n (smp (bs.phaseShift + j * bs.step))) % U32) 0

/-- position of payload bit `j` -/
def payloadPos (bs : BS) (j : Nat) : Nat := bs.phaseShift + (bs.frcBits + j) * bs.step

/-- eight shift-in steps `c = (c >> 1) + (bit << 7)` for payload bits `8m .. 8m+7` -/
def shiftInLsb (bs : BS) (smp : Sampler) (c m : Nat) : Nat :=
  (List.range 8).foldl (fun c k => c / 2 + b2n (smp (payloadPos bs (8 * m + k))) * 128) c

/-- eight steps `c = c * 2 + bit` -/
def shiftInMsb (bs : BS) (smp : Sampler) (c m : Nat) : Nat :=
  (List.range 8).foldl (fun c k => (c * 2 + b2n (smp (payloadPos bs (8 * m + k)))) % U32) c

/-- `for (k = 0, c = 0; k < 8; ++k) c += bit << k` -/
def sumLsb (bs : BS) (smp : Sampler) (m : Nat) : Nat :=
  (List.range 8).foldl (fun c k => c + b2n (smp (payloadPos bs (8 * m + k))) * 2 ^ k) 0

/-- octet loops: returns the bytes; `c` is threaded through the bytes as in C -/
def octets (step : Nat → Nat → Nat) : Nat → Nat → Nat → List Nat
  | 0, _, _ => []
  | n + 1, m, c => let c' := step c m; (c' % 256) :: octets step n (m + 1) c'

/-- bitwise loops (`endian` 3 / 2): `(bytes stored inside the loop, final c)` -/
def bitLoop (bs : BS) (smp : Sampler) (lsb : Bool) : Nat → Nat → Nat → List Nat × Nat
  | 0, _, c => ([], c)
  | n + 1, j, c =>
    let b := b2n (smp (payloadPos bs j))
    let c' := if lsb then c / 2 + b * 128 else (c * 2 + b) % U32
    let (rest, cf) := bitLoop bs smp lsb n (j + 1) c'
    (if j % 8 = 7 then (c' % 256) :: rest else rest, cf)

/-- everything after the CRI match.  `none` = FRC mismatch (`return FALSE`). -/
def payloadStage (v : Variant) (bs : BS) (smp : Sampler) : Option (List Nat) :=
  if frcValue bs smp ≠ bs.frc then none
  else
    -- what `c` holds when the payload loops start
    let c0 := match v with | .core => bs.frc | .lowpass => 0 | .legacy => 0
    match bs.endian with
    | 3 =>
      let (bytes, c) := bitLoop bs smp true bs.payload 0 c0
      some (bytes ++ [(c / 2 ^ ((8 - bs.payload % 8) % 8)) % 256])
    | 2 =>
      let (bytes, c) := bitLoop bs smp false bs.payload 0 c0
      some (bytes ++ [(c % 2 ^ (bs.payload % 8)) % 256])
    | 1 =>
      match v with
      | .core => some ((List.range bs.payload).map (fun m => sumLsb bs smp m % 256))
      | _ => some (octets (shiftInLsb bs smp) bs.payload 0 c0)
    | _ => some (octets (shiftInMsb bs smp) bs.payload 0 c0)

/-! ## core slicer -/

structure CriSt where
  cl : Nat := 0
  c : Nat := 0
  b1 : Bool := false
  deriving Repr, DecidableEq

/-- one pass of the `CRI()` macro: `some st'` to go on, `none` = CRI matched -/
def criStep (bs : BS) (b : Bool) (st : CriSt) : Option CriSt :=
  if b != st.b1 then some { st with cl := bs.osRate / 2, b1 := b }
  else
    let cl := (st.cl + bs.criRate) % U32
    if cl ≥ bs.osRate then
      let c := (st.c * 2 + b2n b) % U32
      if c &&& bs.criMask = bs.cri then none
      else some { cl := (cl + U32 - bs.osRate) % U32, c := c, b1 := b }
    else some { st with cl := cl, b1 := b }

/-- the four oversampling passes of one search iteration: `t` starts at `raw0 * 4` and grows by
    `raw1 - raw0` per pass; `none` = matched -/
def criInner (bs : BS) (tr raw0 raw1 : Nat) (st : CriSt) : Option CriSt :=
  (List.range 4).foldl (fun acc m =>
    match acc with
    | none => none
    | some st =>
      -- t = raw0*4 + m*(raw1 - raw0) = raw0*(4-m) + raw1*m  (non-negative, no wrap for 16 bit samples)
      let t := (raw0 * (4 - m) + raw1 * m) % U32
      criStep bs (decide ((t + 2) / 4 ≥ tr)) st) (some st)

def absDiff (a b : Nat) : Nat := if a ≥ b then a - b else b - a

/-- `bs->thresh += (int)(raw0 - tr) * (int) ABS (raw1 - raw0)` in 32 bit arithmetic -/
def threshUpdate (thresh raw0 tr d : Nat) : Nat :=
  (((thresh : Int) + ((raw0 : Int) - (tr : Int)) * (d : Int)) % (U32 : Int)).toNat

/-- CRI search of `CORE()` from iteration `i` on (`fuel` iterations left).
    `some (k, tr, thresh')`: matched in iteration `k` with threshold `tr`; `bs->thresh` is then `thresh'`. -/
def coreSearch (bs : BS) (g : Nat → Nat) : Nat → Nat → Nat → CriSt → Option (Nat × Nat × Nat)
  | 0, _, _, _ => none
  | fuel + 1, i, thresh, st =>
    let tr := thresh >>> bs.threshFrac
    let raw0 := g i
    let raw1 := g (i + 1)
    let thresh' := threshUpdate thresh raw0 tr (absDiff raw1 raw0)
    match criInner bs tr raw0 raw1 st with
    | none => some (i, tr, thresh')
    | some st' => coreSearch bs g fuel (i + 1) thresh' st'

/-- `SAMPLE()`: linear interpolation between `g (k + pos/256)` and its right neighbour, compared with `tr * 256` -/
def coreSampler (g : Nat → Nat) (k tr : Nat) : Sampler := fun pos =>
  let r0 := g (k + pos / 256)
  let r1 := g (k + pos / 256 + 1)
  decide ((r0 * (256 - pos % 256) + r1 * (pos % 256)) % U32 ≥ (tr * 256) % U32)

/-- `bit_slicer_<fmt>`: (payload if TRUE, `bs->thresh` afterwards) -/
def coreSlice (bs : BS) (thresh : Nat) (g : Nat → Nat) : Option (List Nat) × Nat :=
  match coreSearch bs g bs.criSamples 0 thresh {} with
  | none => (none, thresh)                      -- `bs->thresh = thresh0`
  | some (k, tr, thresh') => (payloadStage .core bs (coreSampler g k tr), thresh')

/-! ## low-pass slicer -/

def lpSum (g : Nat → Nat) (n : Nat) : Nat := (List.range 16).foldl (fun s m => s + g (n + m)) 0

/-- main loop of `low_pass_bit_slicer_Y8`; iteration `n`: `raw` points at sample `n`, `raw0sum` = window sum at `n` -/
def lpSearch (bs : BS) (g : Nat → Nat) : Nat → Nat → Nat → Nat → CriSt → Option (Nat × Nat × Nat)
  | 0, _, _, _, _ => none
  | fuel + 1, n, thresh, raw0sum, st =>
    let tr := thresh >>> bs.threshFrac
    let raw0 := raw0sum
    let raw0sum' := (raw0sum + g (n + 16) + U32 - g n) % U32
    let thresh' := threshUpdate thresh raw0 tr (absDiff raw0sum' raw0)
    match criStep bs (decide (raw0 ≥ tr)) st with
    | none => some (n, tr, thresh')
    | some st' => lpSearch bs g fuel (n + 1) thresh' raw0sum' st'

/-- `LP_SAMPLE()`: window sum at `k + 1 + pos/256` compared with `tr` (no interpolation) -/
def lpSampler (g : Nat → Nat) (k tr : Nat) : Sampler := fun pos =>
  decide (lpSum g (k + 1 + pos / 256) ≥ tr)

def lowpassSlice (bs : BS) (thresh : Nat) (g : Nat → Nat) : Option (List Nat) × Nat :=
  -- `c = -1`
  match lpSearch bs g bs.criSamples 0 thresh (lpSum g 0 % U32) { c := U32 - 1 } with
  | none => (none, thresh)
  | some (k, tr, thresh') => (payloadStage .lowpass bs (lpSampler g k tr), thresh')

/-! ## legacy slicer (`decoder.c`) -/

/-- `d->thresh` is an `int`: `tr = d->thresh >> THRESH_FRAC` is an arithmetic shift, converted to `unsigned` -/
def legacyTr (thresh : Nat) : Nat :=
  let s : Int := if thresh ≥ 2147483648 then (thresh : Int) - (U32 : Int) else thresh
  ((s >>> 9) % (U32 : Int)).toNat

/-- threshold update.  8 bit formats (`shift` = 0): wrap-around product.  15/16 bit formats: the released code
    shifts the `unsigned int` product right LOGICALLY (`fixed = false`); the repaired code converts the
    difference to `int` and divides (`fixed = true`). -/
def legacyThreshUpdate (fixed : Bool) (shift : Nat) (thresh raw0 tr d : Nat) : Nat :=
  let diff := (raw0 + U32 - tr % U32) % U32
  if shift = 0 then (thresh + (diff * d) % U32) % U32
  else if !fixed then (thresh + ((diff * d) % U32) >>> shift) % U32
  else
    let sd : Int := if diff ≥ 2147483648 then (diff : Int) - (U32 : Int) else diff
    (((thresh : Int) + Int.tdiv (sd * (d : Int)) (2 ^ shift : Nat)) % (U32 : Int)).toNat

/-- `shift` = 0 for the 8 bit formats, 3 (bpp tags 14, 16) or 2 (tag 15) -/
def legacySearch (bs : BS) (fixed : Bool) (shift : Nat) (g : Nat → Nat) : Nat → Nat → Nat → CriSt → Option (Nat × Nat × Nat)
  | 0, _, _, _ => none
  | fuel + 1, i, thresh, st =>
    let tr := legacyTr thresh
    let raw0 := g i
    let raw1 := g (i + 1)
    let thresh' := legacyThreshUpdate fixed shift thresh raw0 tr (absDiff raw1 raw0)
    match criInner bs tr raw0 raw1 st with
    | none => some (i, tr, thresh')
    | some st' => legacySearch bs fixed shift g fuel (i + 1) thresh' st'

def legacySlice (fixed : Bool) (bs : BS) (shift : Nat) (thresh : Nat) (g : Nat → Nat) : Option (List Nat) × Nat :=
  match legacySearch bs fixed shift g bs.criSamples 0 thresh {} with
  | none => (none, thresh)
  | some (k, tr, thresh') => (payloadStage .legacy bs (coreSampler g k tr), thresh')

/-! ## configuration (`vbi3_bit_slicer_set_params`, value side; the address side is `Slicer.setParams`) -/

/-- how `GREEN()` extracts a sample from the bytes of a pixel -/
structure GreenFmt where
  bpp : Nat
  /-- byte offset inside the pixel (0 for the 16 bit formats) -/
  skip : Nat
  /-- 0 = plain byte; otherwise `green_mask` of a 16 bit pixel -/
  mask : Nat
  be : Bool
  /-- vbi3: `thresh_frac`, start value of `thresh` -/
  threshFrac : Nat
  thresh0 : Nat
  /-- legacy: `gsh`, the shift applied to the threshold update -/
  gsh : Nat
  lshift : Nat
  deriving Repr, DecidableEq, Inhabited

def greenFmtOfName : String → Option GreenFmt
  | "YUV420" => some ⟨1, 0, 0, false, 9, 105 <<< 9, 0, 0⟩
  | "YUYV" | "YVYU" => some ⟨2, 0, 0, false, 9, 105 <<< 9, 0, 0⟩
  | "UYVY" | "VYUY" => some ⟨2, 1, 0, false, 9, 105 <<< 9, 0, 0⟩
  | "RGBA32_LE" | "BGRA32_LE" => some ⟨4, 1, 0, false, 9, 105 <<< 9, 0, 0⟩
  | "RGBA32_BE" | "BGRA32_BE" => some ⟨4, 2, 0, false, 9, 105 <<< 9, 0, 0⟩
  | "RGB24" | "BGR24" => some ⟨3, 1, 0, false, 9, 105 <<< 9, 0, 0⟩
  | "RGB16_LE" | "BGR16_LE" => some ⟨2, 0, 0x07E0, false, 12, 105 <<< 15, 3, 3⟩
  | "RGB16_BE" | "BGR16_BE" => some ⟨2, 0, 0x07E0, true, 12, 105 <<< 15, 3, 3⟩
  | "RGBA15_LE" | "BGRA15_LE" => some ⟨2, 0, 0x03E0, false, 11, 105 <<< 13, 2, 2⟩
  | "RGBA15_BE" | "BGRA15_BE" => some ⟨2, 0, 0x03E0, true, 11, 105 <<< 13, 2, 2⟩
  | "ARGB15_LE" | "ABGR15_LE" => some ⟨2, 0, 0x07C0, false, 12, 105 <<< 15, 3, 3⟩
  | "ARGB15_BE" | "ABGR15_BE" => some ⟨2, 0, 0x07C0, true, 12, 105 <<< 15, 3, 3⟩
  | _ => none

def greenFmtOfCode (code : Nat) : Option GreenFmt := (Zvbi.Slicer.fmtName code).bind greenFmtOfName

/-- `GREEN (line + off + n * bpp)` on the bytes of one line (bytes outside the line read as 0; that no
    slicer reads there is property C05) -/
def greenAt (gf : GreenFmt) (line : Array Nat) (off n : Nat) : Nat :=
  let p := off + gf.skip + n * gf.bpp
  if gf.mask = 0 then line.getD p 0
  else if gf.be then (line.getD (p + 1) 0 + line.getD p 0 * 256) &&& gf.mask
  else (line.getD p 0 + line.getD (p + 1) 0 * 256) &&& gf.mask

open Zvbi.Generated.ServiceTable in
/-- value fields of the slicer `add_services` configures for table row `r` (`c` = the address side) -/
def bsOfRow (r : Row) (gf : GreenFmt) (c : Zvbi.Slicer.Cfg) (rate : Nat) : BS :=
  let cmask := if r.criBits = 32 then U32 - 1 else 2 ^ r.criBits - 1
  let fmask := if r.frcBits = 32 then U32 - 1 else 2 ^ r.frcBits - 1
  let criMask := (r.criFrcMask >>> r.frcBits) &&& cmask
  let lp := decide (c.kind = Kind.lowpass)
  { criMask := criMask, cri := (r.criFrc >>> r.frcBits) &&& criMask,
    criSamples := c.criSamples, criRate := r.criRate,
    osRate := (rate * (if lp then 1 else 4)) % U32,
    threshFrac := if lp then gf.threshFrac + 2 else gf.threshFrac,
    frc := (r.criFrc &&& (2 ^ r.frcBits - 1)) &&& fmask, frcBits := r.frcBits,
    phaseShift := c.phaseShift, step := c.step, payload := c.payload, endian := c.endian }

/-- start value of `bs->thresh` -/
def threshInit (gf : GreenFmt) (c : Zvbi.Slicer.Cfg) : Nat :=
  if c.kind = Kind.lowpass then gf.thresh0 <<< 2 else gf.thresh0

open Zvbi.Generated.ServiceTable in
/-- value fields of a legacy slicer initialised by `vbi_bit_slicer_init` from table row `r`
    (`cri_mask` argument = `cri_frc_mask >> frc_bits`) -/
def legacyBsOfRow (r : Row) (c : Zvbi.Slicer.LCfg) (rate : Nat) : BS :=
  let cmask := if r.criBits = 0 then 0 else (U32 - 1) >>> (32 - r.criBits)
  let fmask := if r.frcBits = 0 then 0 else (U32 - 1) >>> (32 - r.frcBits)
  let criMask := (r.criFrcMask >>> r.frcBits) &&& cmask
  { criMask := criMask, cri := (r.criFrc >>> r.frcBits) &&& criMask,
    criSamples := c.iterations, criRate := r.criRate, osRate := (rate * 4) % U32, threshFrac := 9,
    frc := r.criFrc &&& fmask, frcBits := r.frcBits,
    phaseShift := c.phaseShift, step := c.step, payload := c.payload, endian := c.endian }

def legacyThreshInit (gf : GreenFmt) : Nat := 105 <<< (9 + gf.gsh)

/-- run the slicer a vbi3 job uses -/
def runSlice (kind : Kind) (bs : BS) (thresh : Nat) (g : Nat → Nat) : Option (List Nat) × Nat :=
  match kind with
  | .core => coreSlice bs thresh g
  | .lowpass => lowpassSlice bs thresh g

end Zvbi.Rawdec
