import ZvbiModel.Rawdec.SvcTable
/-!
# Lemmas for C04 (round 2): the job list and `rd->services` over every history (repaired `remove_services`)

`JOK std services ids`: every job id is one of `jobIdU`, no two jobs lie in the same merge class (hence the ids are
pairwise disjoint), `rd->services` is exactly the union of the job ids, every job belongs to the video standard of the
sampling parameters.  Preserved by `add_services` (`addLoop_jok`), the repaired `remove_services`
(`removeServices_jok`), `reset`, `decode` - `run_jok`.
-/
namespace Zvbi.Rawdec
open Zvbi.Generated.ServiceTable
open Zvbi.Slicer (U32)

structure JOK (std services : Nat) (ids : List Nat) : Prop where
  inU : ∀ a ∈ ids, a ∈ jobIdU
  nodup : (ids.map clsIdx).Nodup
  svc : services = orAll ids
  std : ∀ a ∈ ids, clsStd (clsIdx a) = std

def State.ids (s : State) : List Nat := s.jobs.map (·.id)
def State.std (s : State) : Nat := videostdOfScanning s.sp.scanning

def JInv (s : State) : Prop := JOK s.std s.services s.ids

theorem JOK.pd {std sv : Nat} {ids : List Nat} (h : JOK std sv ids) : ids.Pairwise (fun a b => a &&& b = 0) := by
  have hn := h.nodup
  rw [List.Nodup, List.pairwise_map] at hn
  have : ids.Pairwise (fun a b => a ∈ jobIdU ∧ b ∈ jobIdU ∧ clsIdx a ≠ clsIdx b) := by
    rw [List.pairwise_iff_getElem] at hn ⊢
    intro i j hi hj hij
    exact ⟨h.inU _ (List.getElem_mem hi), h.inU _ (List.getElem_mem hj), hn i j hi hj hij⟩
  exact this.imp (fun {a b} hab => T_disjoint a hab.1 b hab.2.1 hab.2.2)

theorem JOK.sublist {std sv : Nat} {ids ids' : List Nat} (h : JOK std sv ids) (hs : ids'.Sublist ids) :
    JOK std (orAll ids') ids' :=
  ⟨fun a ha => h.inU a (hs.subset ha), (hs.map clsIdx).nodup h.nodup, rfl, fun a ha => h.std a (hs.subset ha)⟩

theorem JOK.lt {std sv : Nat} {ids : List Nat} (h : JOK std sv ids) : sv < U32 := by
  rw [h.svc]; exact orAll_lt (fun x hx => T_U_lt x (h.inU x hx))

/-- at most 7 jobs: the classes of one video standard -/
theorem JOK.length_le {std sv : Nat} {ids : List Nat} (h : JOK std sv ids) : ids.length ≤ 7 := by
  have h1 : (ids.map clsIdx).length ≤ (clsOfStd std).length := by
    apply List.Nodup.length_le_of_subset h.nodup
    intro k hk
    rw [List.mem_map] at hk
    obtain ⟨a, ha, rfl⟩ := hk
    unfold clsOfStd
    rw [List.mem_filter, List.mem_range]
    exact ⟨T_cls_lt a (h.inU a ha), by rw [h.std a ha]; simp⟩
  have := T_classes_per_std std
  simp at h1
  omega

/-! ### `decode`, `reset` -/

theorem decodeFrame_services (s : State) (m : Nat) (sl : Slicer) : (decodeFrame s m sl).1.services = s.services := by
  unfold decodeFrame
  split
  · rfl
  split
  · rfl
  split <;> rfl

/-! ### `remove_services` -/

theorem shiftJobs_eq (jobs : List Job) (jn : Nat) (h : jn < jobs.length) : shiftJobs jobs jn jn = jobs.eraseIdx jn := by
  apply List.ext_getElem
  · simp [shiftJobs, List.length_eraseIdx, h]
  · intro i h1 h2
    simp only [shiftJobs, List.getElem_map, List.getElem_range]
    simp only [shiftJobs, List.length_map, List.length_range] at h1
    rw [List.getElem_eraseIdx]
    by_cases hi : i < jn
    · have : ¬ (jn ≤ i ∧ i < jn + (jobs.length - jn - 1)) := by omega
      simp only [this, if_false, hi, dif_pos]
      rw [List.getElem?_eq_getElem (by omega)]; rfl
    · have : jn ≤ i ∧ i < jn + (jobs.length - jn - 1) := by omega
      simp only [this, and_self, if_true, hi, dif_neg, not_false_eq_true]
      rw [List.getElem?_eq_getElem (by omega)]; rfl

theorem map_eraseIdx' {α β : Type} (f : α → β) : ∀ (l : List α) (i : Nat), (l.eraseIdx i).map f = (l.map f).eraseIdx i
  | [], _ => rfl
  | _ :: _, 0 => rfl
  | x :: xs, i + 1 => by simp only [List.eraseIdx_cons_succ, List.map_cons, map_eraseIdx' f xs i]

theorem sub_of_or_sub {a b c : Nat} (h : (a ||| b) &&& c = a ||| b) : a &&& c = a := by
  apply Nat.eq_of_testBit_eq
  intro i
  have hd : ((a ||| b) &&& c).testBit i = (a ||| b).testBit i := by rw [h]
  rw [Nat.testBit_and, Nat.testBit_or] at hd
  rw [Nat.testBit_and]
  cases ha : a.testBit i <;> cases hc : c.testBit i <;> simp_all

/-- the repaired loop of `vbi3_raw_decoder_remove_services` from job `jn` on: what is left is a sublist, disjoint from the
    final `services` (which contains the requested set), and nothing but the removed ids went into `services` -/
theorem removeLoop_spec (fx : Fixes) (hja : fx.jobAdvance = true) (hm : fx.merged = true) :
    ∀ (fuel sv jn : Nat) (jobs : List Job) (pat : Option Pattern), jobs.length - jn < fuel →
      (jobs.map (·.id)).Pairwise (fun a b => a &&& b = 0) →
      (∀ i, i < jn → ∀ a, (jobs.map (·.id))[i]? = some a → a &&& sv = 0) →
      ((removeLoop fx fuel sv jn jobs pat sv).1.map (·.id)).Sublist (jobs.map (·.id)) ∧
      (∀ a ∈ (removeLoop fx fuel sv jn jobs pat sv).1.map (·.id), a &&& (removeLoop fx fuel sv jn jobs pat sv).2.2 = 0) ∧
      orAll ((removeLoop fx fuel sv jn jobs pat sv).1.map (·.id)) ||| (removeLoop fx fuel sv jn jobs pat sv).2.2
        = orAll (jobs.map (·.id)) ||| sv ∧
      sv &&& (removeLoop fx fuel sv jn jobs pat sv).2.2 = sv := by
  intro fuel
  induction fuel with
  | zero => intro sv jn jobs pat h; omega
  | succ fuel ih =>
    intro sv jn jobs pat hf hpd hpre
    unfold removeLoop
    simp only [hja, hm, if_true]
    by_cases hge : jn ≥ jobs.length
    · -- all jobs examined
      simp only [hge, if_true]
      refine ⟨List.Sublist.refl _, ?_, trivial, Nat.and_self _⟩
      intro a ha
      obtain ⟨i, hi, rfl⟩ := List.mem_iff_getElem.mp ha
      exact hpre i (by simp at hi; omega) _ (List.getElem?_eq_getElem hi)
    simp only [hge, if_false]
    have hjn : jn < jobs.length := by omega
    rw [List.getElem?_eq_getElem hjn]
    simp only []
    split
    · -- job `jn` is removed
      rename_i hhit
      rw [shiftJobs_eq jobs jn hjn]
      have hidx : (jobs.map (·.id))[jn]? = some jobs[jn].id := by simp [hjn]
      have hmap : (jobs.eraseIdx jn).map (·.id) = (jobs.map (·.id)).eraseIdx jn := by
        exact map_eraseIdx' _ _ _
      obtain ⟨i1, i2, i3, i4⟩ := ih (sv ||| jobs[jn].id) jn (jobs.eraseIdx jn)
        (pat.map (fun p => p.map (removeRow fx.marker ((jn : Int) + 1))))
        (by rw [List.length_eraseIdx]; simp only [hjn, if_true]; omega)
        (by rw [hmap]; exact hpd.sublist (List.eraseIdx_sublist _ _))
        (by
          intro i hi a ha
          rw [hmap, List.getElem?_eraseIdx] at ha
          simp only [hi, if_true] at ha
          rw [and_or_zero]
          refine ⟨hpre i hi a ha, ?_⟩
          have hil : i < (jobs.map (·.id)).length := by simp; omega
          rw [List.getElem?_eq_getElem hil] at ha
          cases ha
          have := (List.pairwise_iff_getElem.mp hpd) i jn hil (by simp; exact hjn) hi
          simpa using this)
      refine ⟨?_, i2, ?_, sub_of_or_sub i4⟩
      · rw [hmap] at i1
        exact i1.trans (List.eraseIdx_sublist _ _)
      · rw [i3, hmap, ← orAll_eraseIdx_or (jobs.map (·.id)) jn _ hidx]
        simp only [Nat.or_assoc]
        rw [Nat.or_comm jobs[jn].id sv]
    · -- job `jn` stays
      rename_i hmiss
      have hz : jobs[jn].id &&& sv = 0 := by
        simp only [ne_eq, Decidable.not_not] at hmiss
        exact hmiss
      exact ih sv (jn + 1) jobs pat (by omega) hpd (by
        intro i hi a ha
        by_cases hi' : i < jn
        · exact hpre i hi' a ha
        · have : i = jn := by omega
          subst this
          simp [hjn] at ha
          rw [← ha]; exact hz)

theorem removeServices_jok (fx : Fixes) (hja : fx.jobAdvance = true) (hm : fx.merged = true) (s : State) (sv : Nat)
    (h : JInv s) (herr : s.err = none) :
    JInv (removeServices fx s sv) ∧ (∀ a ∈ (removeServices fx s sv).ids, a &&& sv = 0) := by
  unfold removeServices
  simp only [herr, Option.isSome_none, Bool.false_eq_true, if_false]
  obtain ⟨i1, i2, i3, i4⟩ := removeLoop_spec fx hja hm (2 * s.jobs.length + 1) sv 0 s.jobs s.pattern (by omega) h.pd
    (by intro i hi; omega)
  generalize removeLoop fx (2 * s.jobs.length + 1) sv 0 s.jobs s.pattern sv = r at i1 i2 i3 i4
  obtain ⟨jobs', pat', sv'⟩ := r
  simp only [] at i1 i2 i3 i4 ⊢
  have hj := h.sublist i1
  refine ⟨⟨hj.inU, hj.nodup, ?_, hj.std⟩, ?_⟩
  · -- services & ~sv' = union of the remaining ids
    show s.services &&& (U32 - 1 - sv' % U32) = orAll (jobs'.map (·.id))
    have hk : orAll (jobs'.map (·.id)) &&& sv' = 0 := orAll_and_zero.mpr i2
    have hklt : orAll (jobs'.map (·.id)) < U32 := hj.lt
    have e1 : (orAll (jobs'.map (·.id)) ||| sv') &&& (U32 - 1 - sv' % U32) = orAll (jobs'.map (·.id)) := by
      rw [Nat.and_or_distrib_right, and_compl_of_disjoint _ _ hklt hk, and_compl_of_subset sv' sv' (Nat.and_self _)]
      simp
    have e2 : (orAll (s.jobs.map (·.id)) ||| sv) &&& (U32 - 1 - sv' % U32) = s.services &&& (U32 - 1 - sv' % U32) := by
      have := h.svc
      unfold State.ids at this
      rw [Nat.and_or_distrib_right, and_compl_of_subset sv sv' i4, ← this]
      simp
    rw [← e2, ← i3, e1]
  · intro a ha
    have h1 := i2 a ha
    -- a ∩ sv ⊆ a ∩ sv' = 0
    apply Nat.eq_of_testBit_eq
    intro i
    have hd : (a &&& sv').testBit i = false := by rw [h1]; simp
    have hs : (sv &&& sv').testBit i = sv.testBit i := by rw [i4]
    rw [Nat.testBit_and] at hd hs
    rw [Nat.testBit_and]
    cases ha' : a.testBit i <;> cases hv : sv.testBit i <;> simp_all

/-! ### `add_services` -/

theorem jinv_fail {s : State} (e : String) (h : JInv s) : JInv (s.fail e) := h

theorem ids_set_same (jobs : List Job) (j : Nat) (job job' : Job) (h : jobs[j]? = some job) (hid : job'.id = job.id) :
    (jobs.set j job').map (·.id) = jobs.map (·.id) := by
  apply List.ext_getElem?
  intro i
  simp only [List.getElem?_map, List.getElem?_set]
  by_cases hij : j = i
  · subst hij
    have hj : j < jobs.length := by
      cases hlt : decide (j < jobs.length) with
      | true => exact of_decide_eq_true hlt
      | false => rw [List.getElem?_eq_none (by simpa using hlt)] at h; cases h
    have hje : jobs[j] = job := by rw [List.getElem?_eq_getElem hj] at h; exact Option.some.inj h
    simp [hj, hid, hje]
  · simp [hij]

theorem ids_set (jobs : List Job) (j : Nat) (job' : Job) :
    (jobs.set j job').map (·.id) = (jobs.map (·.id)).set j job'.id := by
  rw [List.map_set]

theorem foldl_check_ne_zero (sp : SPar) (id : Nat) (strict : Int) :
    ∀ (l : List Row) (acc : Nat),
      l.foldl (fun acc r => if r.id &&& id = 0 then acc else if permitService sp r strict then acc ||| r.id else acc) acc ≠ 0 →
      acc ≠ 0 ∨ ∃ r ∈ l, r.id &&& id ≠ 0 ∧ permitService sp r strict = true := by
  intro l
  induction l with
  | nil => intro acc h; exact Or.inl h
  | cons x xs ih =>
    intro acc h
    simp only [List.foldl_cons] at h
    rcases ih _ h with h1 | ⟨r, hr, h2⟩
    · by_cases hx : x.id &&& id = 0
      · simp only [hx, if_true] at h1; exact Or.inl h1
      · by_cases hp : permitService sp x strict = true
        · exact Or.inr ⟨x, by simp, hx, hp⟩
        · simp only [hx, if_false, hp] at h1; exact Or.inl h1
    · exact Or.inr ⟨r, by simp [hr], h2⟩

theorem permit_std (sp : SPar) (r : Row) (strict : Int) (h : permitService sp r strict = true) :
    r.videostd &&& videostdOfScanning sp.scanning ≠ 0 := by
  intro hz
  unfold permitService at h
  simp only [hz, if_true] at h
  cases h

/-- a row accepted by `_vbi_sampling_par_check_services_log` belongs to the video standard of the decoder -/
theorem accepted_std (sp : SPar) (r : Row) (hr : r ∈ serviceTable) (hu : r.id &&& vbiMask = 0) (strict : Int)
    (h : checkServices sp r.id strict ≠ 0) : clsStd (clsIdx r.id) = videostdOfScanning sp.scanning := by
  unfold checkServices at h
  rcases foldl_check_ne_zero sp r.id strict serviceTable 0 h with h0 | ⟨r', hr', hov, hp⟩
  · exact absurd rfl h0
  · have h1 := permit_std sp r' strict hp
    rw [T_std_overlap r hr r' hr' hov] at h1
    obtain ⟨h2, h3⟩ := T_std r hr hu
    rw [h2]
    unfold videostdOfScanning videostd525 videostd625 at h1 ⊢
    rcases h3 with h3 | h3 <;> rw [h3] at h1 ⊢ <;> split at h1 <;> (try split at h1) <;> simp_all

theorem usable_of_mask (r : Row) (hr : r ∈ serviceTable) (M : Nat) (hM : M &&& vbiMask = 0) (h : r.id &&& M ≠ 0) :
    r.id &&& vbiMask = 0 := by
  by_cases hz : r.id &&& vbiMask = 0
  · exact hz
  · exfalso
    apply h
    have hs := T_vbi_rows r hr hz
    calc r.id &&& M = (r.id &&& vbiMask) &&& M := by rw [hs]
      _ = r.id &&& (M &&& vbiMask) := by rw [Nat.and_assoc, Nat.and_comm vbiMask M]
      _ = 0 := by rw [hM, Nat.and_zero]

/-- one iteration of the table loop of `add_services` -/
theorem addOne_jok (ti : Nat → Nat) (M : Nat) (strict : Int) (s : State) (ri : Nat) (r : Row) (hr : r ∈ serviceTable)
    (hM : M &&& vbiMask = 0) (h : JInv s)
    (hq : mergeable r.id r.id = false → r.id &&& M ≠ 0 → r.id &&& s.services = 0) :
    ∀ s', addOne ti M strict s ri r = some s' →
      JInv s' ∧ s'.sp = s.sp ∧ (s'.services = s.services ∨ s'.services = s.services ||| r.id) := by
  intro s' he
  unfold addOne at he
  split at he
  · cases he; exact ⟨h, rfl, Or.inl rfl⟩
  split at he
  · cases he; exact ⟨h, rfl, Or.inl rfl⟩
  rename_i _ hrM
  have hu := usable_of_mask r hr M hM hrM
  simp only [] at he
  cases hfi : s.jobs.findIdx? (fun job => mergeable job.id r.id) with
  | some j =>
    rw [hfi] at he
    simp only [Option.getD_some] at he
    obtain ⟨hjl, hmj, _⟩ := List.findIdx?_eq_some_iff_getElem.mp hfi
    have hjob : s.jobs[j]? = some s.jobs[j] := List.getElem?_eq_getElem hjl
    rw [hjob] at he
    simp only [hjl, if_true] at he
    have haU : s.jobs[j].id ∈ jobIdU := h.inU _ (by unfold State.ids; exact List.mem_map.mpr ⟨_, List.getElem_mem hjl, rfl⟩)
    obtain ⟨hnewU, hnewC⟩ := T_merge _ haU r hr hu hmj
    split at he
    · cases he
    split at he
    · cases he; exact ⟨h, rfl, Or.inl rfl⟩
    split at he
    · cases he; exact ⟨jinv_fail _ h, rfl, Or.inl rfl⟩
    split at he
    · cases he; exact ⟨jinv_fail _ h, rfl, Or.inl rfl⟩
    split at he
    · cases he; exact ⟨jinv_fail _ h, rfl, Or.inl rfl⟩
    split at he
    · cases he; exact ⟨jinv_fail _ h, rfl, Or.inl rfl⟩
    · -- pattern full: ids unchanged
      cases he
      refine ⟨?_, rfl, Or.inl rfl⟩
      unfold JInv State.ids State.std
      simp only []
      rw [ids_set_same s.jobs j s.jobs[j] { id := s.jobs[j].id, row := ri, thresh := ti ri } hjob rfl]
      exact h
    · -- merged into job j
      cases he
      refine ⟨?_, rfl, Or.inr rfl⟩
      have hidj : s.ids[j]? = some s.jobs[j].id := by unfold State.ids; simp [hjl]
      unfold JInv State.std
      show JOK _ (s.services ||| r.id) ((s.jobs.set j _).map (fun x : Job => x.id))
      rw [ids_set]
      simp only []
      refine ⟨?_, ?_, ?_, ?_⟩
      · intro a ha
        rcases List.mem_or_eq_of_mem_set ha with ha | ha
        · exact h.inU a ha
        · rw [ha]; exact hnewU
      · rw [List.map_set, hnewC]
        have : (List.map clsIdx s.ids).set j (clsIdx s.jobs[j].id) = List.map clsIdx s.ids := by
          apply List.ext_getElem?
          intro i
          rw [List.getElem?_set]
          by_cases hij : j = i
          · subst hij; simp [hidj, State.ids, hjl]
          · simp [hij]
        unfold State.ids at this
        rw [this]
        exact h.nodup
      · unfold State.ids at hidj
        rw [orAll_set_or _ j _ _ hidj]
        have := h.svc
        unfold State.ids at this
        rw [← this]
      · intro a ha
        rcases List.mem_or_eq_of_mem_set ha with ha | ha
        · exact h.std a ha
        · rw [ha, hnewC]
          exact h.std _ (by unfold State.ids; exact List.mem_map.mpr ⟨_, List.getElem_mem hjl, rfl⟩)
  | none =>
    rw [hfi] at he
    simp only [Option.getD_none] at he
    have hnone := List.findIdx?_eq_none_iff.mp hfi
    have hjob : s.jobs[s.jobs.length]? = none := List.getElem?_eq_none (Nat.le_refl _)
    rw [hjob] at he
    simp only [Nat.lt_irrefl, if_false] at he
    split at he
    · cases he
    split at he
    · cases he; exact ⟨h, rfl, Or.inl rfl⟩
    rename_i hchk
    split at he
    · cases he; exact ⟨jinv_fail _ h, rfl, Or.inl rfl⟩
    split at he
    · cases he; exact ⟨jinv_fail _ h, rfl, Or.inl rfl⟩
    split at he
    · cases he; exact ⟨jinv_fail _ h, rfl, Or.inl rfl⟩
    split at he
    · cases he; exact ⟨jinv_fail _ h, rfl, Or.inl rfl⟩
    · cases he
      exact ⟨h, rfl, Or.inl rfl⟩
    · -- a new job
      cases he
      refine ⟨?_, rfl, Or.inr rfl⟩
      unfold JInv State.std
      show JOK _ (s.services ||| r.id) ((s.jobs ++ [_]).map (fun x : Job => x.id))
      simp only [List.map_append, List.map_cons, List.map_nil, Nat.zero_or]
      have hrU := T_usable_in_U r hr hu
      refine ⟨?_, ?_, ?_, ?_⟩
      · intro a ha
        rcases List.mem_append.mp ha with ha | ha
        · exact h.inU a ha
        · simp at ha; rw [ha]; exact hrU
      · rw [List.map_append, List.nodup_append]
        refine ⟨h.nodup, by simp, ?_⟩
        intro k hk k' hk' hkk
        simp at hk'
        subst hk' hkk
        obtain ⟨a, ha, hca⟩ := List.mem_map.mp hk
        obtain ⟨job, hjob', hja⟩ := List.mem_map.mp (show a ∈ s.jobs.map (·.id) from ha)
        have hnm : mergeable a r.id = false := by
          have := hnone job hjob'
          rw [← hja]
          simpa using this
        obtain ⟨hEq, hself⟩ := T_nomerge a (h.inU a ha) r hr hu hnm hca
        have hdis := hq hself hrM
        rw [h.svc] at hdis
        have : a &&& r.id = 0 := by
          have := (orAll_and_zero.mp (by rw [Nat.and_comm]; exact hdis)) a ha
          exact this
        rw [hEq, Nat.and_self] at this
        rw [this] at hrU
        exact T_zero_notin hrU
      · rw [orAll_append, h.svc]
        simp [orAll, State.ids]
      · intro a ha
        rcases List.mem_append.mp ha with ha | ha
        · exact h.std a ha
        · simp at ha; rw [ha]
          exact accepted_std s.sp r hr hu strict hchk

/-- table rows later in the loop that cannot merge are not yet part of `rd->services` -/
def Pending (M : Nat) (s : State) (l : List (Nat × Row)) : Prop :=
  ∀ x ∈ l, mergeable x.2.id x.2.id = false → x.2.id &&& M ≠ 0 → x.2.id &&& s.services = 0

theorem addLoop_jok (ti : Nat → Nat) (M : Nat) (strict : Int) (hM : M &&& vbiMask = 0) :
    ∀ (l : List (Nat × Row)) (s : State), (∀ x ∈ l, x.2 ∈ serviceTable) →
      l.Pairwise (fun x y => mergeable y.2.id y.2.id = false → y.2.id &&& x.2.id = 0) →
      JInv s → Pending M s l → JInv (addLoop ti M strict s l) := by
  intro l
  induction l with
  | nil => intro s _ _ h _; exact h
  | cons x rest ih =>
    intro s hmem hpw h hpend
    obtain ⟨ri, r⟩ := x
    unfold addLoop
    cases he : addOne ti M strict s ri r with
    | none => exact h
    | some s' =>
      simp only []
      obtain ⟨h', _, hsv⟩ := addOne_jok ti M strict s ri r (hmem (ri, r) (by simp)) hM h
        (fun h1 h2 => hpend (ri, r) (by simp) h1 h2) s' he
      rw [List.pairwise_cons] at hpw
      apply ih s' (fun y hy => hmem y (by simp [hy])) hpw.2 h'
      intro y hy h1 h2
      have hy0 := hpend y (by simp [hy]) h1 h2
      rcases hsv with hsv | hsv
      · rw [hsv]; exact hy0
      · rw [hsv, and_or_zero]
        exact ⟨hy0, hpw.1 y hy h1⟩

theorem and_and_zero {a b c : Nat} (h : a &&& c = 0) : (a &&& b) &&& c = 0 := by
  rw [Nat.and_assoc, Nat.and_comm b c, ← Nat.and_assoc, h, Nat.zero_and]

theorem maskServices_spec (s : State) (sv : Nat) (h : JInv s) :
    maskServices s sv &&& vbiMask = 0 ∧ maskServices s sv &&& s.services = 0 := by
  have hc : U32 - 1 - (slicedVbi525 ||| slicedVbi625) = U32 - 1 - (vbiMask % U32) := by decide
  have h1 : (sv &&& (U32 - 1 - (slicedVbi525 ||| slicedVbi625))) &&& vbiMask = 0 := by
    rw [hc]; exact compl_and_disjoint sv vbiMask
  unfold maskServices
  simp only []
  split
  · refine ⟨and_and_zero h1, ?_⟩
    have hlt := h.lt
    have : U32 - 1 - s.services = U32 - 1 - (s.services % U32) := by rw [Nat.mod_eq_of_lt hlt]
    rw [this]
    exact compl_and_disjoint _ _
  · rename_i hz
    simp only [ne_eq, Decidable.not_not] at hz
    exact ⟨h1, by rw [Nat.and_comm]; exact hz⟩

theorem addServices_jok (ti : Nat → Nat) (s : State) (sv : Nat) (strict : Int) (h : JInv s) :
    JInv (addServices ti s sv strict) := by
  unfold addServices
  split
  · exact h
  unfold addServicesCore
  split
  · exact h
  obtain ⟨hM, hS⟩ := maskServices_spec s sv h
  have hstart : ∀ s1 : State, s1.jobs = s.jobs → s1.services = s.services → s1.sp = s.sp →
      JInv (addLoop ti (maskServices s sv) strict s1 enumTable) := by
    intro s1 e1 e2 e3
    apply addLoop_jok ti _ strict hM enumTable s1 T_enum_mem T_later_disjoint
    · unfold JInv State.ids State.std; rw [e1, e2, e3]; exact h
    · intro x hx hself hxM
      obtain ⟨b, _, hb⟩ := T_single x.2 (T_enum_mem x hx) hself
      rw [hb] at hxM ⊢
      rw [e2]
      exact bit_disjoint b _ _ hxM hS
  cases hp : s.pattern with
  | some p => simp only []; exact hstart s rfl rfl rfl
  | none => simp only []; exact hstart _ rfl rfl rfl

theorem reset_jok (s : State) : JInv (reset s) :=
  ⟨by intro a ha; simp [reset, State.ids] at ha, by simp [reset, State.ids], by simp [reset, State.ids, orAll],
   by intro a ha; simp [reset, State.ids] at ha⟩

theorem step_jok (fx : Fixes) (hja : fx.jobAdvance = true) (hm : fx.merged = true) (ti : Nat → Nat) (s : State) (op : Op)
    (hi : Inv s) (h : JInv s) : JInv (step fx ti s op) := by
  cases op with
  | add sv st => exact addServices_jok ti s sv st h
  | remove sv =>
    simp only [step]
    cases herr : s.err with
    | none => exact (removeServices_jok fx hja hm s sv h herr).1
    | some e =>
      unfold removeServices
      simp only [herr, Option.isSome_some, if_true]
      exact h
  | reset =>
    simp only [step]
    split
    · exact h
    · exact reset_jok s
  | decode m sl =>
    simp only [step]
    have hs := decodeFrame_spec s m sl hi
    unfold JInv State.ids State.std
    rw [hs.2.2.1, decodeFrame_services, hs.2.1]
    exact h

theorem jinv_init (sp : SPar) : JInv (init sp) :=
  ⟨by intro a ha; simp [init, State.ids] at ha, by simp [init, State.ids], by simp [init, State.ids, orAll],
   by intro a ha; simp [init, State.ids] at ha⟩

/-- the job/service invariant after every history of the repaired code -/
theorem run_jok (fx : Fixes) (hja : fx.jobAdvance = true) (hm : fx.merged = true) (ti : Nat → Nat) (sp : SPar) (ops : List Op) :
    JInv (run fx ti sp ops) := by
  unfold run
  have : ∀ (ops : List Op) (s : State), Inv s → JInv s → JInv (ops.foldl (step fx ti) s) := by
    intro ops
    induction ops with
    | nil => intro s _ h; exact h
    | cons op rest ih =>
      intro s hi h
      exact ih _ (step_inv fx ti s op hi).1 (step_jok fx hja hm ti s op hi h)
  exact this ops (init sp) (inv_init sp) (jinv_init sp)

theorem mem_sub_orAll {l : List Nat} {a : Nat} (h : a ∈ l) : a &&& orAll l = a := by
  induction l with
  | nil => cases h
  | cons x xs ih =>
    simp only [orAll]
    rcases List.mem_cons.mp h with rfl | h
    · exact subset_or_left _ _
    · rw [Nat.or_comm]; exact subset_trans_or _ _ _ (ih h)

end Zvbi.Rawdec
