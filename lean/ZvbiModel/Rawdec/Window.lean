import ZvbiModel.Slicer.BitsWindow
import ZvbiModel.Rawdec.Model
import ZvbiModel.Generated.RawdecFlags
/-!
# The CRI search range `vbi3_raw_decoder_add_services` sets up covers the sampled window (C04, round 3)

`add_services` passes a `cri_end` to `vbi3_bit_slicer_set_params`: the sample, counted from the start of the sampled
window, at which the search for the clock run-in gives up.  `set_params` itself reduces it to
`samples_per_line - data_samples` (and, repaired, to what the payload look-ahead allows).  In the released code
`cri_end = ~0` for every service - the `TODO: WSS 625 occupies only first half of line` is not implemented.  The text of
the two assignments is read from /repo on every run (`Generated.RawdecFlags.criEndWss / criEndOther`).

`samples_per_line` describes the sampled WINDOW (it starts `sp->offset` samples after 0H and may be much shorter than a
line), so a limit like `samples_per_line / 2` is not "half of the video line": with a window that starts early and is
short the run-in ends behind it (`wss_half_window_counterexample`).
-/
namespace Zvbi.Rawdec
open Zvbi.Generated.ServiceTable Zvbi.Generated.RawdecFlags
open Zvbi.Slicer (U32 Params Cfg Fmt)

/-- value of a `cri_end` expression of `add_services` (an `unsigned int`) for a window of `spl` samples;
    an expression the translator does not know counts as 0: no position is known to be covered -/
def criEndValue : CriEnd → Nat → Nat
  | .all, _ => U32 - 1
  | .splDiv n, spl => spl / n
  | .unknown, _ => 0

/-- `if (VBI_SLICED_WSS_625 & par->id) cri_end = <wss>; else cri_end = <other>;` -/
def criEndOfRow (wss other : CriEnd) (r : Row) (spl : Nat) : Nat :=
  if slicedWss625 &&& r.id ≠ 0 then criEndValue wss spl else criEndValue other spl

/-- the arguments `add_services` hands to `vbi3_bit_slicer_set_params` for table row `r`: those of C05's `rowParams`
    with the `cri_end` of the two assignments -/
def rowParamsW (wss other : CriEnd) (r : Row) (fmt : Fmt) (rate spl : Nat) : Params :=
  { Zvbi.Slicer.rowParams r fmt rate spl with criEnd := criEndOfRow wss other r spl }

/-- with the assignments /repo contains, `add_services` configures every slicer without a limit of its own:
    `rowParams` (C05, used by `Rawdec.Model.addOne` and the driver) is what the code does -/
theorem rowParamsW_repo (r : Row) (fmt : Fmt) (rate spl : Nat) :
    rowParamsW criEndWss criEndOther r fmt rate spl = Zvbi.Slicer.rowParams r fmt rate spl := by
  unfold rowParamsW criEndOfRow
  have h1 : criEndValue criEndWss spl = U32 - 1 := rfl
  have h2 : criEndValue criEndOther spl = U32 - 1 := rfl
  rw [h1, h2]
  simp [Zvbi.Slicer.rowParams]

/-- no 32 bit wrap in `cri_samples + data_samples` for a row with at most one CRI bit and one payload bit per Hz -/
theorem row_no_wrap (r : Row) (fmt : Fmt) (rate spl : Nat) (hrate : rate < 2147483648)
    (h1 : r.criBits ≤ r.criRate) (h2 : r.payload + r.frcBits ≤ r.bitRate) (wss other : CriEnd) :
    Zvbi.Slicer.criSamples0 (rowParamsW wss other r fmt rate spl) + Zvbi.Slicer.dataSamples (rowParamsW wss other r fmt rate spl) < U32 := by
  unfold Zvbi.Slicer.criSamples0 Zvbi.Slicer.dataSamples Zvbi.Slicer.dataBits rowParamsW Zvbi.Slicer.rowParams
  simp only []
  have a : rate * r.criBits / r.criRate ≤ rate := by
    apply Nat.div_le_of_le_mul
    rw [Nat.mul_comm r.criRate rate]
    exact Nat.mul_le_mul_left rate h1
  have b : rate * (r.payload + r.frcBits) / r.bitRate ≤ rate := by
    apply Nat.div_le_of_le_mul
    rw [Nat.mul_comm r.bitRate rate]
    exact Nat.mul_le_mul_left rate h2
  have hU : U32 = 4294967296 := rfl
  rw [hU]
  have := Nat.mod_le (rate * r.criBits / r.criRate) 4294967296
  have := Nat.mod_le (rate * (r.payload + r.frcBits) / r.bitRate) 4294967296
  omega

/-- every row of the table sends at most one bit per Hz of its rates -/
theorem table_bits_le_rates : ∀ r ∈ serviceTable, r.criBits ≤ r.criRate ∧ r.payload + r.frcBits ≤ r.bitRate := by decide

end Zvbi.Rawdec
