import ZvbiModel.Rawdec.Lemmas2
/-!
# Lemmas for C04, part 3: the pattern invariant under add / remove / reset
-/
namespace Zvbi.Rawdec
open Zvbi.Generated.ServiceTable

/-- all rows of a pattern satisfy the row invariant and there is one row per scan line -/
def PatOK (n lines : Nat) (pat : Pattern) : Prop := pat.length = lines ∧ ∀ row ∈ pat, RowOK n row

theorem PatOK.mono {n m lines : Nat} {pat : Pattern} (h : PatOK n lines pat) (hnm : n ≤ m) : PatOK m lines pat :=
  ⟨h.1, fun row hr => (h.2 row hr).mono hnm⟩

theorem PatOK.set {n lines : Nat} {pat : Pattern} (h : PatOK n lines pat) (i : Nat) {row : PRow} (hr : RowOK n row) :
    PatOK n lines (pat.set i row) := by
  refine ⟨by rw [List.length_set]; exact h.1, ?_⟩
  intro r hr'
  rcases List.mem_or_eq_of_mem_set hr' with h1 | h1
  · exact h.2 r h1
  · subst h1; exact hr

theorem patOK_blank (n lines : Nat) : PatOK n lines (List.replicate lines blankRow) := by
  refine ⟨by simp, ?_⟩
  intro row hr
  rw [List.mem_replicate] at hr
  rw [hr.2]
  exact blankRow_ok n

/-- first loop of `add_job_to_pattern`: no assertion fails when the rows exist; the invariant is kept -/
theorem addPass1_ok (jn : Int) (n lines start : Nat) :
    ∀ (count : Nat) (pat : Pattern), PatOK n lines pat → start + count ≤ lines →
      ∃ pat' b, addPass1 jn start count pat = .ok (pat', b) ∧ PatOK n lines pat' := by
  intro count
  unfold addPass1
  induction count with
  | zero =>
    intro pat h _
    exact ⟨pat, true, rfl, h⟩
  | succ c ih =>
    intro pat h hb
    obtain ⟨pat1, b1, he, h1⟩ := ih pat h (by omega)
    rw [List.range_succ, List.foldlM_append, he]
    simp only [bind, Except.bind, List.foldlM_cons, List.foldlM_nil]
    by_cases hb1 : b1 = true
    · subst hb1
      simp only [Bool.not_true]
      have hlt : start + c < pat1.length := by rw [h1.1]; omega
      rw [List.getElem?_eq_getElem hlt]
      simp only [pure, Except.pure]
      exact ⟨_, _, rfl, h1.set _ (compactRow_ok jn (h1.2 _ (List.getElem_mem hlt)))⟩
    · have : b1 = false := by simpa using hb1
      subst this
      simp only [pure, Except.pure]
      exact ⟨_, _, rfl, h1⟩

/-- second loop of `add_job_to_pattern` -/
theorem mapRowsM_place_ok (jn : Int) (n lines start : Nat) (hjn : jn ≤ (n : Int)) :
    ∀ (count : Nat) (pat : Pattern), PatOK n lines pat → start + count ≤ lines →
      ∃ pat', mapRowsM (placeRow jn) start count pat = .ok pat' ∧ PatOK n lines pat' := by
  intro count
  unfold mapRowsM
  induction count with
  | zero =>
    intro pat h _
    exact ⟨pat, rfl, h⟩
  | succ c ih =>
    intro pat h hb
    obtain ⟨pat1, he, h1⟩ := ih pat h (by omega)
    rw [List.range_succ, List.foldlM_append, he]
    simp only [bind, Except.bind, List.foldlM_cons, List.foldlM_nil]
    have hlt : start + c < pat1.length := by rw [h1.1]; omega
    rw [List.getElem?_eq_getElem hlt]
    obtain ⟨row', hp, hr⟩ := placeRow_ok jn (h1.2 _ (List.getElem_mem hlt)) hjn
    simp only [hp, pure, Except.pure]
    exact ⟨_, rfl, h1.set _ hr⟩

theorem linesField_bound (sp : SPar) (r : Row) (f s0 : Nat) :
    (linesField sp r f s0).1 + (linesField sp r f s0).2 ≤ s0 + sp.count f := by
  unfold linesField
  simp only []
  split
  · simp
  · split
    · simp
    · split
      · split
        · simp
        · simp only []
          omega
      · simp

/-- what `lines_containing_data` returns stays inside the pattern -/
theorem linesContainingData_bounds (sp : SPar) (r : Row) :
    (linesContainingData sp r).1.1 + (linesContainingData sp r).1.2 ≤ sp.scanLines ∧
    (linesContainingData sp r).2.1 + (linesContainingData sp r).2.2 ≤ sp.scanLines := by
  unfold linesContainingData SPar.scanLines
  have h0 := linesField_bound sp r 0 0
  have h1 := linesField_bound sp r 1 sp.count0
  simp only [SPar.count, if_true, show ((1 : Nat) = 0) = False from by simp, if_false] at h0 h1
  constructor <;> simp only [] <;> omega

/-- `add_job_to_pattern`: never an index error; the invariant holds for `n+1` jobs (the new job number may be `n+1`) -/
theorem addJobToPattern_ok (j n lines : Nat) (hj : j ≤ n) (ls : (Nat × Nat) × (Nat × Nat)) (pat : Pattern)
    (h : PatOK n lines pat) (h1 : ls.1.1 + ls.1.2 ≤ lines) (h2 : ls.2.1 + ls.2.2 ≤ lines) :
    ∃ pat' b, addJobToPattern j ls pat = .ok (pat', b) ∧ PatOK (n + 1) lines pat' ∧ ((j < n ∨ b = false) → PatOK n lines pat') := by
  unfold addJobToPattern
  obtain ⟨p1, b1, e1, k1⟩ := addPass1_ok ((j : Int) + 1) n lines ls.1.1 ls.1.2 pat h h1
  simp only [bind, Except.bind, e1]
  by_cases hb1 : b1 = true
  · subst hb1
    obtain ⟨p2, b2, e2, k2⟩ := addPass1_ok ((j : Int) + 1) n lines ls.2.1 ls.2.2 p1 k1 h2
    simp only [Bool.not_true, e2]
    by_cases hb2 : b2 = true
    · subst hb2
      obtain ⟨p3, e3, k3⟩ := mapRowsM_place_ok ((j : Int) + 1) (n + 1) lines ls.1.1 (by omega) ls.1.2 p2 (k2.mono (by omega)) h1
      obtain ⟨p4, e4, k4⟩ := mapRowsM_place_ok ((j : Int) + 1) (n + 1) lines ls.2.1 (by omega) ls.2.2 p3 k3 h2
      simp only [Bool.not_true, e3, e4, pure, Except.pure]
      refine ⟨_, _, rfl, k4, ?_⟩
      intro hjn
      have hjn : j < n := by rcases hjn with h | h; exact h; cases h
      obtain ⟨p3', e3', k3'⟩ := mapRowsM_place_ok ((j : Int) + 1) n lines ls.1.1 (by omega) ls.1.2 p2 k2 h1
      obtain ⟨p4', e4', k4'⟩ := mapRowsM_place_ok ((j : Int) + 1) n lines ls.2.1 (by omega) ls.2.2 p3' k3' h2
      rw [e3] at e3'
      cases e3'
      rw [e4] at e4'
      cases e4'
      exact k4'
    · have : b2 = false := by simpa using hb2
      subst this
      simp only [pure, Except.pure]
      exact ⟨_, _, rfl, k2.mono (by omega), fun _ => k2⟩
  · have : b1 = false := by simpa using hb1
    subst this
    simp only [pure, Except.pure]
    exact ⟨_, _, rfl, k1.mono (by omega), fun _ => k1⟩

end Zvbi.Rawdec
