import ZvbiModel.Rawdec.SliceModel
import ZvbiModel.Rawdec.Spec
/-!
# Lemmas for C04, part 6: the payload stage returns exactly the sampled bits
-/
namespace Zvbi.Rawdec
open Zvbi.Slicer (U32)

theorem b2n_le (b : Bool) : b2n b ≤ 1 := by cases b <;> simp [b2n]

/-- a byte is the sum of its bits, LSB first (complete table, 256 cases) -/
theorem byte_lsb : ∀ n < 256, (List.range 8).foldl (fun c k => c + b2n (n.testBit k) * 2 ^ k) 0 = n := by
  decide +kernel

/-- ... and MSB first, in the shift-in form of the octet loops: the low 8 bits after eight `c = c*2 + bit` steps
    do not depend on what `c` held before -/
theorem byte_msb : ∀ n < 256, (n.testBit 7).toNat * 128 + (n.testBit 6).toNat * 64 + (n.testBit 5).toNat * 32 +
    (n.testBit 4).toNat * 16 + (n.testBit 3).toNat * 8 + (n.testBit 2).toNat * 4 + (n.testBit 1).toNat * 2 +
    (n.testBit 0).toNat = n := by
  decide +kernel

theorem b2n_eq (b : Bool) : b2n b = b.toNat := by cases b <;> rfl

/-- `for (k = 0, c = 0; k < 8; ++k) c += bit << k` yields the byte whose bits were sampled -/
theorem sumLsb_eq (bs : BS) (smp : Sampler) (m n : Nat) (hn : n < 256)
    (h : ∀ k, k < 8 → smp (payloadPos bs (8 * m + k)) = n.testBit k) : sumLsb bs smp m = n := by
  unfold sumLsb
  have := byte_lsb n hn
  simp only [List.range_succ, List.range_zero, List.nil_append, List.cons_append, List.foldl_cons, List.foldl_nil] at this ⊢
  rw [h 0 (by omega), h 1 (by omega), h 2 (by omega), h 3 (by omega), h 4 (by omega), h 5 (by omega), h 6 (by omega), h 7 (by omega)]
  exact this

/-- eight `c = c * 2 + bit` steps: the low byte is the byte whose bits were sampled MSB first, whatever `c` was -/
theorem shiftInMsb_low (bs : BS) (smp : Sampler) (c m n : Nat) (hn : n < 256)
    (h : ∀ k, k < 8 → smp (payloadPos bs (8 * m + k)) = n.testBit (7 - k)) : shiftInMsb bs smp c m % 256 = n := by
  unfold shiftInMsb
  have := byte_msb n hn
  simp only [List.range_succ, List.range_zero, List.nil_append, List.cons_append, List.foldl_cons, List.foldl_nil]
  rw [h 0 (by omega), h 1 (by omega), h 2 (by omega), h 3 (by omega), h 4 (by omega), h 5 (by omega), h 6 (by omega), h 7 (by omega)]
  simp only [b2n_eq, show 7 - 0 = 7 from rfl, show 7 - 1 = 6 from rfl, show 7 - 2 = 5 from rfl, show 7 - 3 = 4 from rfl,
    show 7 - 4 = 3 from rfl, show 7 - 5 = 2 from rfl, show 7 - 6 = 1 from rfl, show 7 - 7 = 0 from rfl]
  have b7 := Nat.lt_succ_of_le (Bool.toNat_le (n.testBit 7))
  have b6 := Nat.lt_succ_of_le (Bool.toNat_le (n.testBit 6))
  have b5 := Nat.lt_succ_of_le (Bool.toNat_le (n.testBit 5))
  have b4 := Nat.lt_succ_of_le (Bool.toNat_le (n.testBit 4))
  have b3 := Nat.lt_succ_of_le (Bool.toNat_le (n.testBit 3))
  have b2 := Nat.lt_succ_of_le (Bool.toNat_le (n.testBit 2))
  have b1 := Nat.lt_succ_of_le (Bool.toNat_le (n.testBit 1))
  have b0 := Nat.lt_succ_of_le (Bool.toNat_le (n.testBit 0))
  unfold U32
  omega

/-- the octet loop with `shiftInMsb` returns `w` when every sampled bit is the corresponding bit of `w` -/
theorem octets_msb (bs : BS) (smp : Sampler) :
    ∀ (w : List Nat) (m c : Nat), (∀ x ∈ w, x < 256) →
      (∀ i, i < w.length → ∀ k, k < 8 → smp (payloadPos bs (8 * (m + i) + k)) = (w.getD i 0).testBit (7 - k)) →
      octets (shiftInMsb bs smp) w.length m c = w := by
  intro w
  induction w with
  | nil => intro m c _ _; rfl
  | cons x rest ih =>
    intro m c hb h
    simp only [List.length_cons, octets]
    have hx := shiftInMsb_low bs smp c m x (hb x (by simp)) (by
      intro k hk
      have := h 0 (by simp) k hk
      simpa using this)
    rw [hx]
    congr 1
    apply ih (m + 1) _ (fun y hy => hb y (by simp [hy]))
    intro i hi k hk
    have := h (i + 1) (by simp; omega) k hk
    simp only [List.getD_cons_succ] at this
    rw [show m + 1 + i = m + (i + 1) from by omega]
    exact this

end Zvbi.Rawdec
