import ZvbiModel.Rawdec.Distinct
/-!
# Lemmas for C04 (round 5), part 2: second loop of `add_job_to_pattern` and the repaired `remove_job_from_pattern`
on a row whose job numbers are pairwise distinct
-/
namespace Zvbi.Rawdec
open Zvbi.Generated.ServiceTable

theorem set7 (init : List Int) (last m : Int) (h : init.length = 7) : (init ++ [last]).set 7 m = init ++ [m] := by
  rw [List.set_append]; simp [h]

/-- second loop of `add_job_to_pattern` on a `Wk` row: the job is entered behind the listed jobs (unless it is
    listed, or no way but the marker way is left), the marker is set - the row is `Gd` -/
theorem placeRow_gd {n : Nat} {row : PRow} (jn : Int) (h : Wk n row) (hjn : 0 < jn) (hjn' : jn ≤ (n : Int)) :
    ∃ row', placeRow jn row = .ok row' ∧ Gd n row' := by
  obtain ⟨pos, rest, last, e, hl, hp, hr, hla, hnd⟩ := h
  subst e
  unfold placeRow findWay
  rw [show maxWays - 1 = 7 from rfl]
  by_cases hj : jn ∈ pos
  · -- the job is listed: nothing but the marker changes
    cases hfi : pos.findIdx? (fun num => !(decide (num > 0)) || num == jn) with
    | none =>
      exfalso
      have := (List.findIdx?_eq_none_iff.mp hfi) jn hj
      simp at this
    | some i =>
      obtain ⟨hi, hpi, _⟩ := List.findIdx?_eq_some_iff_getElem.mp hfi
      have hpos := (hp pos[i] (List.getElem_mem hi)).1
      have heq : pos[i] = jn := by
        simp at hpi
        rcases hpi with h1 | h1
        · omega
        · exact h1
      rw [List.append_assoc, List.findIdx?_append, hfi]
      simp only [Option.some_or]
      rw [List.set_append, if_pos hi]
      have hset : pos.set i jn = pos := by rw [← heq]; exact List.set_getElem_self hi
      rw [hset, ← List.append_assoc, set7 _ _ _ (by simp; omega)]
      exact ⟨_, rfl, pos, rest, -128, rfl, hl, hp, hr, by omega, hnd, fun _ => by omega⟩
  · -- not listed: first free way
    have hnone : pos.findIdx? (fun num => !(decide (num > 0)) || num == jn) = none := by
      rw [List.findIdx?_eq_none_iff]
      intro x hx
      have := (hp x hx).1
      have hne : x ≠ jn := fun hh => hj (hh ▸ hx)
      simp [hne]; omega
    rw [List.append_assoc, List.findIdx?_append, hnone]
    cases rest with
    | nil =>
      -- only the marker way is left: the job number is overwritten by the marker
      have hl7 : pos.length = 7 := by simpa using hl
      have : List.findIdx? (fun num => !(decide (num > 0)) || num == jn) ([] ++ [last]) = some 0 := by
        simp [List.findIdx?_cons]; omega
      rw [this]
      simp only [Option.map_some, Option.none_or, Nat.zero_add, List.nil_append]
      rw [hl7, set7 _ _ _ hl7, set7 _ _ _ hl7]
      exact ⟨_, rfl, pos, [], -128, by simp, by simp [hl7], hp, (by intro x hx; cases hx), by omega, hnd, fun _ => by omega⟩
    | cons r0 rest' =>
      have hr0 := hr r0 (by simp)
      have : List.findIdx? (fun num => !(decide (num > 0)) || num == jn) (r0 :: rest' ++ [last]) = some 0 := by
        simp [List.findIdx?_cons]; omega
      rw [this]
      simp only [Option.map_some, Option.none_or, Nat.zero_add]
      rw [List.set_append, if_neg (by omega), Nat.sub_self]
      simp only [List.cons_append, List.set_cons_zero]
      have e1 : pos ++ jn :: (rest' ++ [last]) = (pos ++ [jn] ++ rest') ++ [last] := by simp
      rw [e1, set7 _ _ _ (by simp at hl ⊢; omega)]
      refine ⟨_, rfl, pos ++ [jn], rest', -128, rfl, by simp at hl ⊢; omega, ?_, fun x hx => hr x (by simp [hx]), by omega, ?_,
        fun _ => by omega⟩
      · intro x hx
        rcases List.mem_append.mp hx with hx | hx
        · exact hp x hx
        · simp at hx; subst hx; exact ⟨hjn, hjn'⟩
      · rw [List.nodup_append]
        refine ⟨hnd, by simp, ?_⟩
        intro a ha b hb
        simp at hb; subst hb
        exact fun hh => hj (hh ▸ ha)

/-! ### removal -/

/-- what `remove_job_from_pattern` does to an entry that is not a marker in the last way -/
def gR (jn : Int) (x : Int) : Option Int := if x > jn then some (x - 1) else if x ≠ jn then some x else none

theorem filterMap_zip_range' (F : Nat × Int → Option Int) (G : Int → Option Int) (N : Nat)
    (hF : ∀ i x, i < N → F (i, x) = G x) :
    ∀ (l : List Int) (s : Nat), s + l.length ≤ N → ((List.range' s l.length).zip l).filterMap F = l.filterMap G
  | [], s, _ => by simp
  | x :: xs, s, h => by
    simp only [List.length_cons, List.range'_succ, List.zip_cons_cons, List.filterMap_cons]
    rw [hF s x (by simp at h; omega), filterMap_zip_range' F G N hF xs (s + 1) (by simp at h; omega)]

theorem filterMap_self (f : Int → Option Int) : ∀ (l : List Int), (∀ x ∈ l, f x = some x) → l.filterMap f = l
  | [], _ => rfl
  | x :: xs, h => by
    rw [List.filterMap_cons, h x (by simp), filterMap_self f xs (fun y hy => h y (by simp [hy]))]

/-- the repaired `remove_job_from_pattern` on a row whose last way holds no job: the first seven ways are filtered and
    renumbered, zero filled, the last way keeps its content -/
theorem removeRow_eq7 (jn : Int) (hjn : 0 < jn) (init : List Int) (last : Int) (hl : init.length = 7) (hlast : last ≤ 0) :
    removeRow true jn (init ++ [last]) =
      init.filterMap (gR jn) ++ List.replicate (7 - (init.filterMap (gR jn)).length) 0 ++ [last] := by
  rw [removeRow_eq]
  have hlen : (init ++ [last]).length = 8 := by simp [hl]
  have hK : (init.filterMap (gR jn)).length ≤ 7 := by
    have := List.length_filterMap_le (gR jn) init; omega
  have hzip : ((List.range (init ++ [last]).length).zip (init ++ [last])).filterMap (removeF true jn (init ++ [last]).length) =
      init.filterMap (gR jn) ++ (if last ≥ 0 then [last] else []) := by
    rw [hlen, show (8 : Nat) = Nat.succ 7 from rfl, List.range_succ, List.zip_append (by simp [hl]), List.filterMap_append]
    congr 1
    · rw [List.range_eq_range', ← hl]
      apply filterMap_zip_range' _ _ 7
      · intro i x hi
        unfold removeF gR
        simp only []
        have hi' : i < init.length := by omega
        by_cases h2 : x = jn <;> simp [h2, hi']
      · omega
    · unfold removeF
      simp only [List.zip_cons_cons, List.zip_nil_right, List.filterMap_cons, List.filterMap_nil]
      have h1 : ¬ (last > jn) := by omega
      have h2 : last ≠ jn := by omega
      by_cases h0 : last ≥ 0
      · simp [h1, h2, h0]
      · simp [h1, h2, h0]
  simp only []
  rw [hzip, hlen]
  have hg : (init ++ [last]).getD (8 - 1) 0 = last := by
    rw [List.getD_eq_getElem?_getD, List.getElem?_append_right (by omega)]
    simp [hl]
  rw [hg]
  generalize init.filterMap (gR jn) = K at hK ⊢
  by_cases h0 : last ≥ 0
  · have hz : last = 0 := by omega
    subst hz
    have hc : ¬ (True ∧ (0 : Int) < 0) := by simp
    rw [if_neg hc]
    simp only [ge_iff_le, Int.le_refl, if_true, List.length_append, List.length_cons, List.length_nil]
    have : 8 - (K.length + (0 + 1)) = 7 - K.length := by omega
    rw [this]
    have : [(0 : Int)] ++ List.replicate (7 - K.length) 0 = List.replicate (7 - K.length) 0 ++ [0] := by
      rw [← List.replicate_succ', List.replicate_succ]; rfl
    rw [List.append_assoc, this, ← List.append_assoc]
  · have hc : True ∧ last < 0 := ⟨trivial, by omega⟩
    rw [if_pos hc]
    simp only [h0, if_false, List.append_nil]
    have : 8 - K.length = (7 - K.length) + 1 := by omega
    rw [this, List.replicate_succ', ← List.append_assoc]
    exact set7 _ _ _ (by simp; omega)

theorem gR_pos {jn x y : Int} (hjn : 0 < jn) (hx : 0 < x) (h : gR jn x = some y) :
    (x < jn ∧ y = x) ∨ (jn < x ∧ y = x - 1) := by
  unfold gR at h
  split at h
  · simp at h; omega
  · split at h
    · simp at h; omega
    · cases h

/-- the repaired `remove_job_from_pattern` keeps `Gd` (one job less) -/
theorem removeRow_gd {n : Nat} {row : PRow} (jn : Int) (h : Gd n row) (hjn : 0 < jn) (hjn' : jn ≤ (n : Int)) :
    Gd (n - 1) (removeRow true jn row) := by
  obtain ⟨pos, rest, last, e, hl, hp, hr, hla, hnd, hm⟩ := h
  subst e
  rw [removeRow_eq7 jn hjn (pos ++ rest) last (by simp; omega) hla, List.filterMap_append]
  have hrest : rest.filterMap (gR jn) = rest := by
    apply filterMap_self
    intro x hx
    have := hr x hx
    unfold gR
    have h1 : ¬ (x > jn) := by omega
    have h2 : x ≠ jn := by omega
    simp [h1, h2]
  rw [hrest]
  have hK : (pos.filterMap (gR jn)).length ≤ pos.length := List.length_filterMap_le _ _
  refine ⟨pos.filterMap (gR jn), rest ++ List.replicate (7 - (pos.filterMap (gR jn) ++ rest).length) 0, last, by simp, ?_, ?_, ?_,
    hla, ?_, ?_⟩
  · simp; omega
  · intro y hy
    obtain ⟨x, hx, hxy⟩ := List.mem_filterMap.mp hy
    obtain ⟨hx0, hxn⟩ := hp x hx
    have := gR_pos hjn hx0 hxy
    omega
  · intro x hx
    rcases List.mem_append.mp hx with hx | hx
    · exact hr x hx
    · rw [List.mem_replicate] at hx; omega
  · apply List.Pairwise.filterMap (R := fun a b => 0 < a ∧ 0 < b ∧ a ≠ b) (gR jn) _
      (hnd.imp_of_mem (fun {a b} ha hb hab => ⟨(hp a ha).1, (hp b hb).1, hab⟩))
    intro a a' ⟨ha, ha', hne⟩ b hb b' hb'
    have := gR_pos hjn ha hb
    have := gR_pos hjn ha' hb'
    omega
  · intro hne
    apply hm
    intro hnil
    apply hne
    rw [hnil]; rfl

end Zvbi.Rawdec
