import ZvbiModel.Rawdec.SvcBits
/-!
# Lemmas for C04 (round 2): merge classes of the regenerated service table

`vbi3_raw_decoder_add_services` merges a table row into an existing job when both ids lie inside one of four groups
(Teletext B 0x3, Caption 525 0x60, Caption 625 0x18, VPS 0x1004); every other row gets a job of its own.  `classes`
lists the resulting 12 *merge classes* with their video standard, `jobIdU` every value a job id can take.  All facts
below are `decide`d over the complete generated table (`Generated/ServiceTable.lean`): if `_vbi_service_table`
changes so that a fact no longer holds, this file stops compiling.
-/
namespace Zvbi.Rawdec
open Zvbi.Generated.ServiceTable
open Zvbi.Slicer (U32)

/-- (mask of the class, videostd_set of its rows) -/
def classes : List (Nat × Nat) :=
  [(0x2000, 1), (0x3, 1), (0x4000, 1), (0x8000, 1), (0x1004, 1), (0x400, 1), (0x18, 1),
   (0x10000, 2), (0x100, 2), (0x20000, 2), (0x60, 2), (0x80, 2)]

/-- index of the (first) class a non-empty id set meets -/
def clsIdx (x : Nat) : Nat := classes.findIdx (fun c => x &&& c.1 != 0)
def clsStd (k : Nat) : Nat := (classes.getD k (0, 0)).2

/-- every id a job can carry: the ids of the usable rows and the unions inside a group -/
def jobIdU : List Nat :=
  [0x2000, 0x1, 0x3, 0x4000, 0x8000, 0x4, 0x1000, 0x1004, 0x400, 0x8, 0x10, 0x18,
   0x10000, 0x100, 0x20000, 0x20, 0x40, 0x60, 0x80]

/-- the two "raw VBI" pseudo services `add_services` masks out -/
def vbiMask : Nat := slicedVbi525 ||| slicedVbi625

/-- class indices belonging to a video standard -/
def clsOfStd (std : Nat) : List Nat := (List.range classes.length).filter (fun k => clsStd k == std)

theorem T_usable_in_U : ∀ r ∈ serviceTable, r.id &&& vbiMask = 0 → r.id ∈ jobIdU := by decide +kernel

theorem T_vbi_rows : ∀ r ∈ serviceTable, r.id &&& vbiMask ≠ 0 → r.id &&& vbiMask = r.id := by decide +kernel

theorem T_zero_notin : (0 : Nat) ∉ jobIdU := by decide

theorem T_U_lt : ∀ a ∈ jobIdU, a < U32 := by decide

theorem T_merge : ∀ a ∈ jobIdU, ∀ r ∈ serviceTable, r.id &&& vbiMask = 0 → mergeable a r.id = true →
    (a ||| r.id) ∈ jobIdU ∧ clsIdx (a ||| r.id) = clsIdx a := by decide +kernel

theorem T_nomerge : ∀ a ∈ jobIdU, ∀ r ∈ serviceTable, r.id &&& vbiMask = 0 → mergeable a r.id = false →
    clsIdx a = clsIdx r.id → a = r.id ∧ mergeable r.id r.id = false := by decide +kernel

theorem T_disjoint : ∀ a ∈ jobIdU, ∀ b ∈ jobIdU, clsIdx a ≠ clsIdx b → a &&& b = 0 := by decide +kernel

/-- a row that cannot be merged (not even with itself) is a single bit, and no other row shares it -/
theorem T_single : ∀ r ∈ serviceTable, mergeable r.id r.id = false → ∃ b ∈ List.range 32, r.id = 2 ^ b := by
  decide +kernel

theorem T_later_disjoint :
    enumTable.Pairwise (fun x y => mergeable y.2.id y.2.id = false → y.2.id &&& x.2.id = 0) := by decide +kernel

theorem T_enum_mem : ∀ x ∈ enumTable, x.2 ∈ serviceTable := by decide +kernel

theorem T_std : ∀ r ∈ serviceTable, r.id &&& vbiMask = 0 → clsStd (clsIdx r.id) = r.videostd ∧ (r.videostd = 1 ∨ r.videostd = 2) := by
  decide +kernel

theorem T_std_overlap : ∀ r ∈ serviceTable, ∀ r' ∈ serviceTable, r'.id &&& r.id ≠ 0 → r'.videostd = r.videostd := by
  decide +kernel

theorem T_cls_lt : ∀ a ∈ jobIdU, clsIdx a < classes.length := by decide +kernel

/-- at most 7 classes per video standard (625: Teletext A, B, C, D, VPS, WSS, Caption; 525: Teletext B, C, D, Caption,
    2xCaption) -/
theorem T_classes_per_std : ∀ std, (clsOfStd std).length ≤ 7 := by
  intro std
  have h : ∀ s, s < 3 → (clsOfStd s).length ≤ 7 := by decide +kernel
  by_cases hs : std < 3
  · exact h std hs
  · have : clsOfStd std = [] := by
      unfold clsOfStd
      rw [List.filter_eq_nil_iff]
      intro k hk
      have hk' : k < 12 := by simpa [classes] using hk
      have : ∀ k, k < 12 → clsStd k < 3 := by decide +kernel
      have := this k hk'
      simp only [beq_iff_eq]
      omega
    rw [this]; simp

end Zvbi.Rawdec
