import ZvbiModel.Rawdec.FromSvcLemmas
/-!
# Lemmas for C04 (round 5): `_vbi_sampling_par_permit_service` from its parts; the length test at 27 MHz and >= 1440 samples
-/
namespace Zvbi.Rawdec
open Zvbi.Generated.ServiceTable Zvbi.Generated.RawdecFromSvc
open Zvbi.Slicer (U32)

/-- the `samples < signal` test of `_vbi_sampling_par_permit_service` (TRUE = long enough) -/
def permitLen (sp : SPar) (r : Row) (strict : Int) : Bool :=
  let spl := sp.bpl / bppOf sp.fmt
  let lhs : Int := (10^6 * spl * r.criRate * r.bitRate : Nat)
  let lhs : Int := if strictU strict > 0 then lhs - (sp.rate * r.criRate * r.bitRate : Nat) else lhs
  let rhs : Int := (10^6 * sp.rate * (r.criBits * r.bitRate + (r.frcBits + r.payload) * r.criRate) : Nat)
  !decide (lhs < rhs)

theorem permitService_of_parts (sp : SPar) (r : Row) (strict : Int)
    (h1 : r.videostd &&& videostdOfScanning sp.scanning ≠ 0)
    (h2 : ¬ (r.flags &&& spLineNum ≠ 0 ∧ ((r.first0 > 0 ∧ sp.start0 = 0) ∨ (r.first1 > 0 ∧ sp.start1 = 0))))
    (h3 : Zvbi.Slicer.permitRate r sp.rate = true) (h4 : ¬ (r.criRate = 0 ∨ r.bitRate = 0 ∨ sp.rate = 0))
    (h5 : permitLen sp r strict = true) (h6 : sp.synchronous = true)
    (h7 : permitField sp r strict 0 = true) (h8 : permitField sp r strict 1 = true) :
    permitService sp r strict = true := by
  unfold permitLen at h5
  simp only [Bool.not_eq_true', decide_eq_false_iff_not] at h5
  unfold permitService
  simp only []
  rw [if_neg h1, if_neg h2]
  simp only [h3, Bool.not_true, Bool.false_eq_true, if_false]
  rw [if_neg h4, if_neg h5]
  simp [h6, h7, h8]

theorem T_rate : ∀ r ∈ serviceTable, Zvbi.Slicer.permitRate r fsRate = true ∧ r.criRate ≠ 0 ∧ r.bitRate ≠ 0 ∧
    ((r.first0 > 0 → r.last0 > 0) ∧ (r.first1 > 0 → r.last1 > 0)) := by decide +kernel

/-- at 27 MHz, 1440 samples are long enough for every table row without the strictness margin, and with the 1 us
    margin for every row except Teletext D 625 and the two VBI pseudo services -/
theorem T_len : ∀ r ∈ serviceTable,
    10 ^ 6 * fsRate * (r.criBits * r.bitRate + (r.frcBits + r.payload) * r.criRate) ≤ 10 ^ 6 * 1440 * r.criRate * r.bitRate ∧
    (r.id ≠ 0x8000 → r.id &&& (slicedVbi525 ||| slicedVbi625) = 0 →
      fsRate * r.criRate * r.bitRate + 10 ^ 6 * fsRate * (r.criBits * r.bitRate + (r.frcBits + r.payload) * r.criRate)
        ≤ 10 ^ 6 * 1440 * r.criRate * r.bitRate) := by decide +kernel

theorem permitLen_1440 (sp : SPar) (r : Row) (hr : r ∈ serviceTable) (strict : Int) (hfmt : sp.fmt = 1) (hrate : sp.rate = fsRate)
    (hbpl : 1440 ≤ sp.bpl)
    (hs : strictU strict = 0 ∨ (r.id ≠ 0x8000 ∧ r.id &&& (slicedVbi525 ||| slicedVbi625) = 0)) :
    permitLen sp r strict = true := by
  obtain ⟨t1, t2⟩ := T_len r hr
  unfold permitLen
  simp only [Bool.not_eq_true', decide_eq_false_iff_not]
  have hb : bppOf sp.fmt = 1 := by rw [hfmt]; rfl
  rw [hb, Nat.div_one, hrate]
  have hmono : 10 ^ 6 * 1440 * r.criRate * r.bitRate ≤ 10 ^ 6 * sp.bpl * r.criRate * r.bitRate :=
    Nat.mul_le_mul_right _ (Nat.mul_le_mul_right _ (Nat.mul_le_mul_left _ hbpl))
  generalize hA : 10 ^ 6 * sp.bpl * r.criRate * r.bitRate = A at hmono ⊢
  generalize hB : 10 ^ 6 * 1440 * r.criRate * r.bitRate = B at hmono t1 t2
  generalize hR : 10 ^ 6 * fsRate * (r.criBits * r.bitRate + (r.frcBits + r.payload) * r.criRate) = R at t1 t2 ⊢
  generalize hT : fsRate * r.criRate * r.bitRate = T at t2 ⊢
  by_cases hst : strictU strict > 0
  · simp only [hst, if_true]
    rcases hs with hs | hs
    · omega
    · have := t2 hs.1 hs.2
      omega
  · simp only [hst, if_false]
    omega

theorem trace_mem (fixed : Bool) (fam sv : Nat) : ∀ (l : List (Row × (Nat × Nat))) (a : FsAcc),
    ∀ r ∈ (fsTrace fixed fam sv l a).2, ∃ x ∈ l, x.1 = r
  | [], _, r, h => nomatch h
  | x :: rest, a, r, h => by
    unfold fsTrace at h
    simp only [] at h
    by_cases ht : fsTakes fam sv a x.1 = true
    · rw [if_pos ht] at h
      rcases List.mem_cons.mp h with rfl | h
      · exact ⟨x, by simp, rfl⟩
      · obtain ⟨y, hy, e⟩ := trace_mem fixed fam sv rest _ r h
        exact ⟨y, by simp [hy], e⟩
    · rw [if_neg ht] at h
      obtain ⟨y, hy, e⟩ := trace_mem fixed fam sv rest _ r h
      exact ⟨y, by simp [hy], e⟩

/-- what `_vbi_sampling_par_from_services_log` always writes when it returns a non-empty set -/
theorem fromServices_sp_facts (fixed : Bool) (fam sv : Nat) (r : Row) (hr : r ∈ (fromServices fixed fam sv).2.2.2) :
    r ∈ serviceTable ∧ (fromServices fixed fam sv).2.1.fmt = 1 ∧ (fromServices fixed fam sv).2.1.rate = fsRate ∧
    1440 ≤ (fromServices fixed fam sv).2.1.bpl ∧ (fromServices fixed fam sv).2.1.synchronous = true := by
  unfold fromServices at hr ⊢
  by_cases h3 : fam ≥ 3
  · simp only [h3, if_true] at hr; cases hr
  simp only [h3, if_false] at hr ⊢
  by_cases hz : (fsTrace fixed fam sv (serviceTable.zip fsConsts) (fsInit fam)).1.rsv = 0
  · simp only [hz, if_true] at hr; cases hr
  simp only [hz, if_false] at hr ⊢
  obtain ⟨x, hx, e⟩ := trace_mem fixed fam sv _ _ r hr
  exact ⟨e ▸ (List.of_mem_zip hx).1, rfl, rfl, Nat.le_max_left _ _, rfl⟩

end Zvbi.Rawdec
