import ZvbiModel.Rawdec.Model
/-!
# Lemmas for C04, part 1: the row invariant and the pattern operations
-/
namespace Zvbi.Rawdec
open Zvbi.Generated.ServiceTable

/-- invariant of one scan line's way list; `n` = number of live jobs -/
structure RowOK (n : Nat) (row : PRow) : Prop where
  len : row.length = 8
  /-- a free (non-positive) way exists: the unbounded scans of `decode_pattern` / `add_job_to_pattern` stop inside the row -/
  free : ∃ x ∈ row, x ≤ 0
  /-- job numbers refer to live jobs -/
  bound : ∀ x ∈ row, x ≤ (n : Int)
  /-- the last way holds a job only while the line is predicted blank -/
  lof : row.getD 7 0 ≤ 0 ∨ row.getD 0 0 ≤ 0

theorem row8 (row : PRow) (h : row.length = 8) : ∃ a0 a1 a2 a3 a4 a5 a6 a7, row = [a0, a1, a2, a3, a4, a5, a6, a7] := by
  match row, h with
  | [a0, a1, a2, a3, a4, a5, a6, a7], _ => exact ⟨a0, a1, a2, a3, a4, a5, a6, a7, rfl⟩

theorem maxWays_eq : maxWays = 8 := rfl

theorem RowOK.mono {n m : Nat} {row : PRow} (h : RowOK n row) (hnm : n ≤ m) : RowOK m row :=
  ⟨h.len, h.free, fun x hx => by have := h.bound x hx; omega, h.lof⟩

theorem blankRow_ok (n : Nat) : RowOK n blankRow := by
  refine ⟨rfl, ⟨0, by simp [blankRow, maxWays_eq], by omega⟩, ?_, by simp [blankRow, maxWays_eq]⟩
  intro x hx
  simp [blankRow, List.mem_replicate] at hx
  omega

/-! ### compaction (first loop of `add_job_to_pattern`) -/

def posOf (row : PRow) : PRow := row.filter (fun x => decide (0 < x))

theorem compactRow_eq (jn : Int) (row : PRow) :
    (compactRow jn row).1 = posOf row ++ List.replicate (row.length - (posOf row).length) 0 := rfl

theorem compactRow_ok {n : Nat} {row : PRow} (jn : Int) (h : RowOK n row) : RowOK n (compactRow jn row).1 := by
  have hlen := h.len
  obtain ⟨x, hx, hx0⟩ := h.free
  have hlt : (posOf row).length < row.length := by
    unfold posOf
    rw [List.length_filter_lt_length_iff_exists]
    exact ⟨x, hx, by simp; omega⟩
  rw [compactRow_eq]
  have hl : (posOf row ++ List.replicate (row.length - (posOf row).length) (0 : Int)).length = 8 := by
    simp; omega
  refine ⟨hl, ?_, ?_, ?_⟩
  · refine ⟨0, ?_, by omega⟩
    rw [List.mem_append, List.mem_replicate]
    right; exact ⟨by omega, rfl⟩
  · intro y hy
    rw [List.mem_append, List.mem_replicate] at hy
    rcases hy with hy | hy
    · exact h.bound y (List.mem_filter.mp hy).1
    · omega
  · left
    rw [List.getD_eq_getElem?_getD, List.getElem?_eq_getElem (by rw [hl]; omega)]
    rw [List.getElem_append_right (by omega)]
    simp

/-! ### placement (second loop of `add_job_to_pattern`) -/

theorem placeRow_ok {n : Nat} {row : PRow} (jn : Int) (h : RowOK n row) (hjn : jn ≤ (n : Int)) :
    ∃ row', placeRow jn row = .ok row' ∧ RowOK n row' := by
  obtain ⟨x, hx, hx0⟩ := h.free
  unfold placeRow
  cases hf : findWay jn row with
  | none =>
    exfalso
    simp only [findWay, List.findIdx?_eq_none_iff] at hf
    have := hf x hx
    simp at this
    omega
  | some way =>
    refine ⟨_, rfl, ?_⟩
    have hl : ((row.set way jn).set (maxWays - 1) (-128)).length = 8 := by simp [h.len]
    refine ⟨hl, ⟨-128, ?_, by omega⟩, ?_, ?_⟩
    · rw [List.mem_iff_getElem]
      refine ⟨7, by rw [hl]; omega, ?_⟩
      simp [maxWays_eq]
    · intro y hy
      rcases List.mem_or_eq_of_mem_set hy with hy | hy
      · rcases List.mem_or_eq_of_mem_set hy with hy | hy
        · exact h.bound y hy
        · omega
      · omega
    · left
      rw [List.getD_eq_getElem?_getD, List.getElem?_eq_getElem (by rw [hl]; omega)]
      simp [maxWays_eq]

/-! ### removal (`remove_job_from_pattern`) -/

theorem removeRow_len (km : Bool) (jn : Int) (row : PRow) : (removeRow km jn row).length = row.length := by
  unfold removeRow
  have hk : ∀ (f : Nat × Int → Option Int), (((List.range row.length).zip row).filterMap f).length ≤ row.length := by
    intro f
    have := List.length_filterMap_le f ((List.range row.length).zip row)
    simp at this
    omega
  simp only []
  split
  · rw [List.length_set, List.length_append, List.length_replicate]
    have := hk (fun x => if x.2 > jn then some (x.2 - 1)
      else if x.2 ≠ jn ∧ (!km ∨ x.2 ≥ 0 ∨ x.1 + 1 < row.length) then some x.2 else none)
    omega
  · rw [List.length_append, List.length_replicate]
    have := hk (fun x => if x.2 > jn then some (x.2 - 1)
      else if x.2 ≠ jn ∧ (!km ∨ x.2 ≥ 0 ∨ x.1 + 1 < row.length) then some x.2 else none)
    omega

/-- a `filterMap` that drops nothing acts position by position -/
theorem filterMap_full {α β : Type} (f : α → Option β) :
    ∀ (l : List α), (l.filterMap f).length = l.length → ∀ i : Nat, (l.filterMap f)[i]? = (l[i]?).bind f
  | [], _, i => by simp
  | x :: xs, h, i => by
    cases hf : f x with
    | none =>
      rw [List.filterMap_cons_none hf] at h
      have := List.length_filterMap_le f xs
      simp at h; omega
    | some y =>
      rw [List.filterMap_cons_some hf] at h ⊢
      have ih := filterMap_full f xs (by simpa using h)
      cases i with
      | zero => simp [hf]
      | succ i => simpa using ih i

/-- the function `remove_job_from_pattern` applies to (way index, entry) -/
def removeF (km : Bool) (jn : Int) (len : Nat) (x : Nat × Int) : Option Int :=
  if x.2 > jn then some (x.2 - 1)
  else if x.2 ≠ jn ∧ (!km ∨ x.2 ≥ 0 ∨ x.1 + 1 < len) then some x.2 else none

theorem removeRow_eq (km : Bool) (jn : Int) (row : PRow) :
    removeRow km jn row =
      (let kept := ((List.range row.length).zip row).filterMap (removeF km jn row.length)
       let filled := kept ++ List.replicate (row.length - kept.length) 0
       if km ∧ row.getD (row.length - 1) 0 < 0 then filled.set (row.length - 1) (row.getD (row.length - 1) 0) else filled) := by
  unfold removeRow removeF
  rfl

theorem removeF_some {km : Bool} {jn : Int} {len : Nat} {x : Nat × Int} {y : Int} (hjn : 0 < jn)
    (h : removeF km jn len x = some y) : (y = x.2 - 1 ∧ x.2 > jn) ∨ (y = x.2 ∧ x.2 < jn) ∨ (y = x.2 ∧ x.2 ≤ jn ∧ x.2 ≠ jn) := by
  unfold removeF at h
  split at h
  · left; simp at h; omega
  · split at h
    · right; right; simp at h; omega
    · simp at h

theorem removeRow_ok {n : Nat} {row : PRow} (km : Bool) (jn : Int) (h : RowOK n row) (hjn : 0 < jn) (hjn' : jn ≤ (n : Int)) :
    RowOK (n - 1) (removeRow km jn row) := by
  have hlen8 := h.len
  have hlen := removeRow_len km jn row
  obtain ⟨a0, a1, a2, a3, a4, a5, a6, a7, rfl⟩ := row8 row h.len
  have hb := h.bound
  have hlof := h.lof
  rw [removeRow_eq] at hlen ⊢
  simp only [List.length_cons, List.length_nil] at hlen ⊢
  generalize hk : ((List.range (0 + 1 + 1 + 1 + 1 + 1 + 1 + 1 + 1)).zip [a0, a1, a2, a3, a4, a5, a6, a7]).filterMap
      (removeF km jn (0 + 1 + 1 + 1 + 1 + 1 + 1 + 1 + 1)) = kept at hlen ⊢
  have hkl : kept.length ≤ 8 := by
    rw [← hk]
    have := List.length_filterMap_le (removeF km jn (0 + 1 + 1 + 1 + 1 + 1 + 1 + 1 + 1))
      ((List.range (0 + 1 + 1 + 1 + 1 + 1 + 1 + 1 + 1)).zip [a0, a1, a2, a3, a4, a5, a6, a7])
    simpa using this
  have hkb : ∀ y ∈ kept, y ≤ ((n - 1 : Nat) : Int) := by
    intro y hy
    rw [← hk, List.mem_filterMap] at hy
    obtain ⟨x, hx, hfx⟩ := hy
    have hx2 : x.2 ∈ [a0, a1, a2, a3, a4, a5, a6, a7] := (List.of_mem_zip hx).2
    have := hb x.2 hx2
    rcases removeF_some hjn hfx with h1 | h1 | h1 <;> omega
  have hfl : (kept ++ List.replicate (0 + 1 + 1 + 1 + 1 + 1 + 1 + 1 + 1 - kept.length) (0 : Int)).length = 8 := by
    simp; omega
  by_cases hm : km = true ∧ [a0, a1, a2, a3, a4, a5, a6, a7].getD (0 + 1 + 1 + 1 + 1 + 1 + 1 + 1 + 1 - 1) 0 < 0
  · rw [if_pos hm]
    simp only [List.getD_cons_succ, List.getD_cons_zero, Nat.zero_add, Nat.add_sub_cancel] at hm ⊢
    have hl2 : ((kept ++ List.replicate (0 + 1 + 1 + 1 + 1 + 1 + 1 + 1 + 1 - kept.length) (0 : Int)).set 7 a7).length = 8 := by
      rw [List.length_set]; exact hfl
    have h7 : ((kept ++ List.replicate (0 + 1 + 1 + 1 + 1 + 1 + 1 + 1 + 1 - kept.length) (0 : Int)).set 7 a7).getD 7 0 = a7 := by
      rw [List.getD_eq_getElem?_getD, List.getElem?_eq_getElem (by rw [hl2]; omega)]
      simp
    refine ⟨hl2, ⟨a7, ?_, by omega⟩, ?_, Or.inl (by rw [h7]; omega)⟩
    · rw [List.mem_iff_getElem]
      exact ⟨7, by rw [hl2]; omega, by simp⟩
    · intro y hy
      rcases List.mem_or_eq_of_mem_set hy with hy | hy
      · rw [List.mem_append, List.mem_replicate] at hy
        rcases hy with hy | hy
        · exact hkb y hy
        · omega
      · omega
  · rw [if_neg hm]
    have hbound : ∀ y ∈ kept ++ List.replicate (0 + 1 + 1 + 1 + 1 + 1 + 1 + 1 + 1 - kept.length) (0 : Int), y ≤ ((n - 1 : Nat) : Int) := by
      intro y hy
      rw [List.mem_append, List.mem_replicate] at hy
      rcases hy with hy | hy
      · exact hkb y hy
      · omega
    have hlof' : (kept ++ List.replicate (0 + 1 + 1 + 1 + 1 + 1 + 1 + 1 + 1 - kept.length) (0 : Int)).getD 7 0 ≤ 0 ∨
        (kept ++ List.replicate (0 + 1 + 1 + 1 + 1 + 1 + 1 + 1 + 1 - kept.length) (0 : Int)).getD 0 0 ≤ 0 := by
      by_cases hk8 : kept.length = 8
      · -- nothing was dropped: position by position
        have hfull := filterMap_full (removeF km jn (0 + 1 + 1 + 1 + 1 + 1 + 1 + 1 + 1))
          ((List.range (0 + 1 + 1 + 1 + 1 + 1 + 1 + 1 + 1)).zip [a0, a1, a2, a3, a4, a5, a6, a7]) (by rw [hk]; simp; omega)
        rw [hk] at hfull
        have e7 := hfull 7
        have e0 := hfull 0
        simp [List.range_succ] at e7 e0
        simp only [List.getD_cons_succ, List.getD_cons_zero] at hlof
        have hap : kept ++ List.replicate (0 + 1 + 1 + 1 + 1 + 1 + 1 + 1 + 1 - kept.length) (0 : Int) = kept := by
          simp; omega
        rw [hap, List.getD_eq_getElem?_getD, List.getD_eq_getElem?_getD, e7, e0]
        rcases hlof with hl | hl
        · left
          have : removeF km jn 8 (7, a7) = some a7 := by
            unfold removeF
            have : ¬ (a7 > jn) := by omega
            simp only [this, if_false]
            rw [if_pos]
            refine ⟨by omega, ?_⟩
            by_cases hkm : km = true
            · right; left
              simp only [List.getD_cons_succ, List.getD_cons_zero, Nat.zero_add, Nat.add_sub_cancel] at hm
              have : ¬ a7 < 0 := fun hh => hm ⟨hkm, hh⟩
              omega
            · left; simp [hkm]
          simp [this]; omega
        · right
          have : removeF km jn 8 (0, a0) = some a0 := by
            unfold removeF
            have : ¬ (a0 > jn) := by omega
            simp only [this, if_false]
            rw [if_pos]
            exact ⟨by omega, by right; right; omega⟩
          simp [this]; omega
      · left
        rw [List.getD_eq_getElem?_getD, List.getElem?_eq_getElem (by rw [hfl]; omega)]
        rw [List.getElem_append_right (by omega)]
        simp
    refine ⟨hfl, ?_, hbound, hlof'⟩
    rcases hlof' with hl | hl
    · refine ⟨_, ?_, hl⟩
      rw [List.getD_eq_getElem?_getD, List.getElem?_eq_getElem (by rw [hfl]; omega)]
      simp
    · refine ⟨_, ?_, hl⟩
      rw [List.getD_eq_getElem?_getD, List.getElem?_eq_getElem (by rw [hfl]; omega)]
      simp

end Zvbi.Rawdec
