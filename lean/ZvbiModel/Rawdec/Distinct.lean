import ZvbiModel.Rawdec.BlankFrame
import ZvbiModel.Rawdec.SvcJobs
/-!
# Lemmas for C04 (round 5), part 1: the job numbers of a row stay pairwise distinct - row level

`Gd n row`: the row is `pos ++ rest ++ [last]` with `pos` the jobs (positive, `≤ n`, pairwise distinct), `rest` free
ways, `last` the marker way (negative while the line has a job).  This is `RowArmed` plus distinctness
(`gd_iff`-style conversions `Gd.armed`, `gd_of_armed`).  `Wk n row` is the same without the marker clause: what
the first loop of `add_job_to_pattern` leaves behind.

* `compactRow_wk`, `compactRow_free`: the first loop keeps `Wk`; `free` is `8 - #jobs (+ 1 if the job is listed)`;
* `placeRow_gd`: the second loop turns a `Wk` row into a `Gd` row;
* `removeRow_gd`: the repaired `remove_job_from_pattern` keeps `Gd` (for one job less);
* `gd_of_rel`: a decode call keeps `Gd` (from the `RowRel` of round 3);
* `free_gt_one`: with at most 7 job numbers in use a `Wk` row always has two free ways for the job being added.
-/
namespace Zvbi.Rawdec
open Zvbi.Generated.ServiceTable

def Wk (n : Nat) (row : PRow) : Prop :=
  ∃ pos rest last, row = pos ++ rest ++ [last] ∧ pos.length + rest.length = 7 ∧ (∀ x ∈ pos, 0 < x ∧ x ≤ (n : Int)) ∧
    (∀ x ∈ rest, x ≤ 0) ∧ last ≤ 0 ∧ pos.Nodup

def Gd (n : Nat) (row : PRow) : Prop :=
  ∃ pos rest last, row = pos ++ rest ++ [last] ∧ pos.length + rest.length = 7 ∧ (∀ x ∈ pos, 0 < x ∧ x ≤ (n : Int)) ∧
    (∀ x ∈ rest, x ≤ 0) ∧ last ≤ 0 ∧ pos.Nodup ∧ (pos ≠ [] → last < 0)

theorem Gd.wk {n : Nat} {row : PRow} (h : Gd n row) : Wk n row := by
  obtain ⟨pos, rest, last, e, hl, hp, hr, hla, hnd, _⟩ := h
  exact ⟨pos, rest, last, e, hl, hp, hr, hla, hnd⟩

theorem Gd.mono {n m : Nat} {row : PRow} (h : Gd n row) (hnm : n ≤ m) : Gd m row := by
  obtain ⟨pos, rest, last, e, hl, hp, hr, hla, hnd, hm⟩ := h
  exact ⟨pos, rest, last, e, hl, fun x hx => ⟨(hp x hx).1, by have := (hp x hx).2; omega⟩, hr, hla, hnd, hm⟩

theorem Wk.mono {n m : Nat} {row : PRow} (h : Wk n row) (hnm : n ≤ m) : Wk m row := by
  obtain ⟨pos, rest, last, e, hl, hp, hr, hla, hnd⟩ := h
  exact ⟨pos, rest, last, e, hl, fun x hx => ⟨(hp x hx).1, by have := (hp x hx).2; omega⟩, hr, hla, hnd⟩

theorem Wk.len {n : Nat} {row : PRow} (h : Wk n row) : row.length = 8 := by
  obtain ⟨pos, rest, last, e, hl, _⟩ := h
  subst e; simp; omega

theorem jobsOf_shape (pos rest : List Int) (last : Int) (hp : ∀ x ∈ pos, 0 < x) (hr : ∀ x ∈ rest, x ≤ 0) (hl : last ≤ 0) :
    jobsOf (pos ++ rest ++ [last]) = pos := by
  unfold jobsOf
  rw [List.filter_append, List.filter_append]
  have h1 : pos.filter (fun x => decide (0 < x)) = pos :=
    List.filter_eq_self.mpr (fun x hx => by simpa using hp x hx)
  have h2 : rest.filter (fun x => decide (0 < x)) = [] :=
    List.filter_eq_nil_iff.mpr (fun x hx => by have := hr x hx; simp; omega)
  have h3 : [last].filter (fun x => decide (0 < x)) = [] := by
    rw [List.filter_eq_nil_iff]; intro x hx; simp at hx; subst hx; simp; omega
  rw [h1, h2, h3]; simp

theorem shape_getD_lt (pos tl : List Int) (p : Nat) (hp : p < pos.length) : (pos ++ tl).getD p 0 = pos[p] := by
  rw [List.getD_eq_getElem?_getD, List.getElem?_append_left hp, List.getElem?_eq_getElem hp]; rfl

theorem shape_getD_ge (pos tl : List Int) (htl : ∀ x ∈ tl, x ≤ 0) (q : Nat) (hq : pos.length ≤ q) :
    (pos ++ tl).getD q 0 ≤ 0 := by
  rw [List.getD_eq_getElem?_getD, List.getElem?_append_right hq]
  cases h : tl[q - pos.length]? with
  | none => simp
  | some x => simpa using htl x (List.mem_of_getElem? h)

/-- a `Gd` row is armed -/
theorem Gd.armed {n : Nat} {row : PRow} (h : Gd n row) : RowArmed row := by
  obtain ⟨pos, rest, last, e, hl, hp, hr, hla, hnd, hm⟩ := h
  subst e
  have htl : ∀ x ∈ rest ++ [last], x ≤ 0 := by
    intro x hx
    rcases List.mem_append.mp hx with h | h
    · exact hr x h
    · simp at h; omega
  refine ⟨?_, ?_⟩
  · intro p q hpq _ hq
    rw [List.append_assoc] at hq ⊢
    by_cases hql : q < pos.length
    · rw [shape_getD_lt pos _ p (by omega)]
      exact (hp _ (List.getElem_mem _)).1
    · have := shape_getD_ge pos _ htl q (by omega)
      omega
  · intro h0
    have hne : pos ≠ [] := by
      intro hnil
      subst hnil
      have := shape_getD_ge [] _ htl 0 (by simp)
      rw [List.append_assoc] at h0
      omega
    have hlt := hm hne
    have : (pos ++ rest ++ [last]).getD 7 0 = last := by
      rw [List.getD_eq_getElem?_getD, List.getElem?_append_right (by simp; omega)]
      simp [hl]
    omega

theorem Gd.nodup {n : Nat} {row : PRow} (h : Gd n row) : (jobsOf row).Nodup := by
  obtain ⟨pos, rest, last, e, hl, hp, hr, hla, hnd, hm⟩ := h
  subst e
  rw [jobsOf_shape pos rest last (fun x hx => (hp x hx).1) hr hla]
  exact hnd

theorem gd_of_parts (n : Nat) (pos rest : List Int) (last : Int) (hlen : pos.length + rest.length = 7)
    (hp : ∀ x ∈ pos, 0 < x) (hr : ∀ x ∈ rest, x ≤ 0) (hl : last ≤ 0)
    (hb : ∀ x ∈ pos ++ rest ++ [last], x ≤ (n : Int)) (hnd : (jobsOf (pos ++ rest ++ [last])).Nodup)
    (hm : pos ≠ [] → last < 0) : Gd n (pos ++ rest ++ [last]) := by
  rw [jobsOf_shape pos rest last hp hr hl] at hnd
  exact ⟨pos, rest, last, rfl, hlen, fun x hx => ⟨hp x hx, hb x (by simp [hx])⟩, hr, hl, hnd, hm⟩

/-- an armed row of 8 ways whose job numbers are `≤ n` and pairwise distinct is `Gd` -/
theorem gd_of_armed (n : Nat) (row : PRow) (hlen : row.length = 8) (ha : RowArmed row)
    (hb : ∀ x ∈ row, x ≤ (n : Int)) (hnd : (jobsOf row).Nodup) : Gd n row := by
  obtain ⟨a0, a1, a2, a3, a4, a5, a6, a7, rfl⟩ := row8 row hlen
  rw [armed8_iff] at ha
  obtain ⟨c1, c2, c3, c4, c5, c6, c7, m⟩ := ha
  have h7 : a7 ≤ 0 := by omega
  by_cases h6 : 0 < a6
  · exact gd_of_parts n [a0, a1, a2, a3, a4, a5, a6] [] a7 rfl (by intro x hx; simp at hx; omega)
      (by intro x hx; simp at hx) h7 hb hnd (by intro _; omega)
  by_cases h5 : 0 < a5
  · exact gd_of_parts n [a0, a1, a2, a3, a4, a5] [a6] a7 rfl (by intro x hx; simp at hx; omega)
      (by intro x hx; simp at hx; omega) h7 hb hnd (by intro _; omega)
  by_cases h4 : 0 < a4
  · exact gd_of_parts n [a0, a1, a2, a3, a4] [a5, a6] a7 rfl (by intro x hx; simp at hx; omega)
      (by intro x hx; simp at hx; omega) h7 hb hnd (by intro _; omega)
  by_cases h3 : 0 < a3
  · exact gd_of_parts n [a0, a1, a2, a3] [a4, a5, a6] a7 rfl (by intro x hx; simp at hx; omega)
      (by intro x hx; simp at hx; omega) h7 hb hnd (by intro _; omega)
  by_cases h2 : 0 < a2
  · exact gd_of_parts n [a0, a1, a2] [a3, a4, a5, a6] a7 rfl (by intro x hx; simp at hx; omega)
      (by intro x hx; simp at hx; omega) h7 hb hnd (by intro _; omega)
  by_cases h1 : 0 < a1
  · exact gd_of_parts n [a0, a1] [a2, a3, a4, a5, a6] a7 rfl (by intro x hx; simp at hx; omega)
      (by intro x hx; simp at hx; omega) h7 hb hnd (by intro _; omega)
  by_cases h0 : 0 < a0
  · exact gd_of_parts n [a0] [a1, a2, a3, a4, a5, a6] a7 rfl (by intro x hx; simp at hx; omega)
      (by intro x hx; simp at hx; omega) h7 hb hnd (by intro _; omega)
  · exact gd_of_parts n [] [a0, a1, a2, a3, a4, a5, a6] a7 rfl (by intro x hx; simp at hx)
      (by intro x hx; simp at hx; omega) h7 hb hnd (by intro h; exact absurd rfl h)

theorem blankRow_gd (n : Nat) : Gd n blankRow :=
  gd_of_armed n blankRow rfl blankRow_armed (blankRow_ok n).bound (by decide)

/-! ### decode -/

theorem nodup_of_sameJobs {r r' : PRow} (h : SameJobs r r') (hnd : (jobsOf r).Nodup) : (jobsOf r').Nodup := by
  rw [List.nodup_iff_count] at hnd ⊢
  intro a
  by_cases ha : 0 < a
  · have e1 : (jobsOf r').count a = r'.count a := List.count_filter (by simpa using ha)
    have e2 : (jobsOf r).count a = r.count a := List.count_filter (by simpa using ha)
    rw [e1, h a ha, ← e2]
    exact hnd a
  · have : a ∉ jobsOf r' := by
      intro hm
      rw [mem_jobsOf] at hm
      exact ha hm.2
    rw [List.count_eq_zero_of_not_mem this]
    omega

/-- a decode call keeps `Gd` -/
theorem gd_of_rel {n : Nat} {r r' : PRow} (h : RowRel n r r') (hg : Gd n r) : Gd n r' :=
  gd_of_armed n r' h.1.len h.2.1 h.1.bound (nodup_of_sameJobs h.2.2 hg.nodup)

/-! ### the first loop of `add_job_to_pattern` -/

theorem compactRow_wk {n : Nat} {row : PRow} (jn : Int) (h : Wk n row) : Wk n (compactRow jn row).1 := by
  obtain ⟨pos, rest, last, e, hl, hp, hr, hla, hnd⟩ := h
  have hjo := jobsOf_shape pos rest last (fun x hx => (hp x hx).1) hr hla
  subst e
  rw [compactRow_eq]
  have hpo : posOf (pos ++ rest ++ [last]) = pos := hjo
  rw [hpo]
  have hlen : (pos ++ rest ++ [last]).length - pos.length = (7 - pos.length) + 1 := by simp; omega
  rw [hlen, List.replicate_succ', ← List.append_assoc]
  exact ⟨pos, List.replicate (7 - pos.length) 0, 0, rfl, by simp; omega, hp,
    by intro x hx; rw [List.mem_replicate] at hx; omega, by omega, hnd⟩

theorem filter_len_append3 (p : Int → Bool) (a b c : List Int) :
    ((a ++ b ++ c).filter p).length = (a.filter p).length + (b.filter p).length + (c.filter p).length := by
  simp [List.filter_append]; omega

/-- `free` as counted by the first loop: the non-job ways, plus one if the job is already listed -/
theorem compactRow_free (pos rest : List Int) (last : Int) (jn : Int) (hr : ∀ x ∈ rest, x ≤ 0) (hl : last ≤ 0) :
    rest.length + 1 ≤ (compactRow jn (pos ++ rest ++ [last])).2 ∧
    (jn ∈ pos → rest.length + 2 ≤ (compactRow jn (pos ++ rest ++ [last])).2) := by
  have hfree : (compactRow jn (pos ++ rest ++ [last])).2 =
      ((pos ++ rest ++ [last]).filter (fun x => decide (x ≤ 0))).length +
      ((pos ++ rest ++ [last]).filter (fun x => decide (x = jn))).length := rfl
  rw [hfree, filter_len_append3, filter_len_append3]
  have h2 : rest.filter (fun x => decide (x ≤ 0)) = rest :=
    List.filter_eq_self.mpr (fun x hx => by simpa using hr x hx)
  have h3 : [last].filter (fun x => decide (x ≤ 0)) = [last] :=
    List.filter_eq_self.mpr (fun x hx => by simp at hx; subst hx; simpa using hl)
  rw [h2, h3]
  refine ⟨by simp; omega, ?_⟩
  intro hj
  have : 0 < (pos.filter (fun x => decide (x = jn))).length :=
    List.length_pos_of_mem (List.mem_filter.mpr ⟨hj, by simp⟩)
  simp; omega

/-- pigeonhole: pairwise distinct integers in `1 .. N` -/
theorem pigeon (l : List Int) (N : Nat) (hnd : l.Nodup) (hb : ∀ x ∈ l, 0 < x ∧ x ≤ (N : Int)) : l.length ≤ N := by
  have h1 : (l.map Int.toNat).Nodup := by
    rw [List.Nodup, List.pairwise_map]
    exact hnd.imp_of_mem (fun {a b} ha hb' hab heq => by
      have := hb a ha; have := hb b hb'; apply hab; omega)
  have h2 : l.map Int.toNat ⊆ (List.range N).map (· + 1) := by
    intro k hk
    obtain ⟨x, hx, rfl⟩ := List.mem_map.mp hk
    have := hb x hx
    exact List.mem_map.mpr ⟨x.toNat - 1, by rw [List.mem_range]; omega, by omega⟩
  have := List.Nodup.length_le_of_subset h1 h2
  simpa using this

/-- two free ways for the job being added, as long as at most 7 job numbers (the new one included) are in use -/
theorem free_gt_one {n : Nat} {row : PRow} (jn : Int) (N : Nat) (h : Wk n row) (hn : n ≤ N) (hN : N ≤ 7) (hjn : 0 < jn)
    (hjN : jn ≤ (N : Int)) : 1 < (compactRow jn row).2 := by
  obtain ⟨pos, rest, last, e, hl, hp, hr, hla, hnd⟩ := h
  subst e
  obtain ⟨f1, f2⟩ := compactRow_free pos rest last jn hr hla
  by_cases hj : jn ∈ pos
  · have := f2 hj
    omega
  · have hlen : (jn :: pos).length ≤ N := by
      apply pigeon (jn :: pos) N (List.nodup_cons.mpr ⟨hj, hnd⟩)
      intro x hx
      rcases List.mem_cons.mp hx with rfl | hx
      · exact ⟨hjn, hjN⟩
      · have := hp x hx; omega
    simp at hlen
    omega

end Zvbi.Rawdec
