import ZvbiModel.Rawdec.Accept
import ZvbiModel.Props.C05
/-!
# Lemmas for C04 (round 5), part 5: `assert (!"bit_slicer_set_params")` of `add_services` is unreachable

For sampling parameters whose pixel format `vbi3_bit_slicer_set_params` knows, with at most 32767 samples per line (its
own `assert (samples_per_line <= 32767)`) and a 32 bit sampling rate: whenever `add_services` reaches `set_params` for a
table row - i.e. `_vbi_sampling_par_check_services_log (sp, par->id, strict)` is non-zero - `set_params` (with the
look-ahead block) accepts.  Chain: `check_services != 0` gives a permitted row sharing a bit with `par` (only the two
Teletext B 625 rows share one; `T_share`: same slicer parameters); `permit_service` has compared the line length with
the signal length (`permit_facts`), which is the "samples_per_line too small" test of `set_params` (`small_ok`: sum of
the two floors <= exact sum); the rate test gives `cri_rate, bit_rate <= sampling_rate`; C05's
`rows_tight_never_rejects` carries the acceptance over to the version with the look-ahead limit.
-/
namespace Zvbi.Rawdec
open Zvbi.Generated.ServiceTable
open Zvbi.Slicer (U32)

theorem fmtOfName_wf (name : String) (fmt : Zvbi.Slicer.Fmt) (h : Zvbi.Slicer.fmtOfName name = some fmt) :
    fmt.WF ∧ fmt.bpp ≤ 4 := by
  unfold Zvbi.Slicer.fmtOfName at h
  split at h <;> first | (cases h; decide) | cases h

theorem fmtOfCode_wf (code : Nat) (fmt : Zvbi.Slicer.Fmt) (h : Zvbi.Slicer.fmtOfCode code = some fmt) :
    fmt.WF ∧ fmt.bpp ≤ 4 := by
  unfold Zvbi.Slicer.fmtOfCode at h
  cases hn : Zvbi.Slicer.fmtName code with
  | none => rw [hn] at h; cases h
  | some name => rw [hn] at h; exact fmtOfName_wf name fmt h

/-- floors add up to at most the exact sum -/
theorem small_ok (rate criBits c bits d spl : Nat) (hc : 0 < c) (hd : 0 < d)
    (h : rate * (criBits * d + bits * c) ≤ spl * c * d) : rate * criBits / c + rate * bits / d ≤ spl := by
  have h1 : rate * criBits / c * c ≤ rate * criBits := Nat.div_mul_le_self _ _
  have h2 : rate * bits / d * d ≤ rate * bits := Nat.div_mul_le_self _ _
  have h3 : (rate * criBits / c + rate * bits / d) * (c * d) ≤ spl * (c * d) := by
    calc (rate * criBits / c + rate * bits / d) * (c * d)
        = (rate * criBits / c * c) * d + (rate * bits / d * d) * c := by
          rw [Nat.add_mul, ← Nat.mul_assoc, Nat.mul_comm c d, ← Nat.mul_assoc]
      _ ≤ (rate * criBits) * d + (rate * bits) * c := Nat.add_le_add (Nat.mul_le_mul_right _ h1) (Nat.mul_le_mul_right _ h2)
      _ = rate * (criBits * d + bits * c) := by rw [Nat.mul_add, Nat.mul_assoc, Nat.mul_assoc]
      _ ≤ spl * c * d := h
      _ = spl * (c * d) := Nat.mul_assoc _ _ _
  exact Nat.le_of_mul_le_mul_right h3 (Nat.mul_pos hc hd)

/-- what `_vbi_sampling_par_permit_service` has checked when it returns TRUE -/
theorem permit_facts (sp : SPar) (r : Row) (strict : Int) (h : permitService sp r strict = true) :
    Zvbi.Slicer.permitRate r sp.rate = true ∧ r.criRate ≠ 0 ∧ r.bitRate ≠ 0 ∧
    sp.rate * (r.criBits * r.bitRate + (r.frcBits + r.payload) * r.criRate) ≤ (sp.bpl / bppOf sp.fmt) * r.criRate * r.bitRate := by
  unfold permitService at h
  simp only [] at h
  have hnn : (0 : Int) ≤ ((sp.rate * r.criRate * r.bitRate : Nat) : Int) := Int.natCast_nonneg _
  have key : Zvbi.Slicer.permitRate r sp.rate = true ∧ r.criRate ≠ 0 ∧ r.bitRate ≠ 0 ∧
      ((10 ^ 6 * sp.rate * (r.criBits * r.bitRate + (r.frcBits + r.payload) * r.criRate) : Nat) : Int) ≤
      ((10 ^ 6 * (sp.bpl / bppOf sp.fmt) * r.criRate * r.bitRate : Nat) : Int) := by
    repeat' (split at h)
    all_goals first | (cases h; done) | skip
    all_goals
      refine ⟨?_, by omega, by omega, by omega⟩
      cases hpr : Zvbi.Slicer.permitRate r sp.rate with
      | true => rfl
      | false => simp_all
  refine ⟨key.1, key.2.1, key.2.2.1, ?_⟩
  have hA := key.2.2.2
  have hB := Int.ofNat_le.mp hA
  have e1 : 10 ^ 6 * sp.rate * (r.criBits * r.bitRate + (r.frcBits + r.payload) * r.criRate) =
      10 ^ 6 * (sp.rate * (r.criBits * r.bitRate + (r.frcBits + r.payload) * r.criRate)) := Nat.mul_assoc _ _ _
  have e2 : 10 ^ 6 * (sp.bpl / bppOf sp.fmt) * r.criRate * r.bitRate =
      10 ^ 6 * ((sp.bpl / bppOf sp.fmt) * r.criRate * r.bitRate) := by
    rw [Nat.mul_assoc, Nat.mul_assoc, Nat.mul_assoc]
  rw [e1, e2] at hB
  exact Nat.le_of_mul_le_mul_left hB (by decide)

/-- table rows that share a service bit configure the same slicer -/
theorem T_share : ∀ r ∈ serviceTable, ∀ r' ∈ serviceTable, r'.id &&& r.id ≠ 0 →
    r'.criRate = r.criRate ∧ r'.bitRate = r.bitRate ∧ r'.criBits = r.criBits ∧ r'.frcBits = r.frcBits ∧
    r'.payload = r.payload ∧ (r'.id = slicedWss625 ↔ r.id = slicedWss625) := by decide +kernel

/-- `set_params` accepts what `add_services` hands it -/
theorem setParams_accepts (r : Row) (hr : r ∈ Zvbi.Slicer.usableRows) (fmt : Zvbi.Slicer.Fmt) (hf : fmt.WF) (hb : fmt.bpp ≤ 4)
    (rate spl : Nat) (hrate : rate < U32) (hspl : spl ≤ 32767) (hperm : Zvbi.Slicer.permitRate r rate = true)
    (hlen : rate * (r.criBits * r.bitRate + (r.frcBits + r.payload) * r.criRate) ≤ spl * r.criRate * r.bitRate) :
    ∃ c, Zvbi.Slicer.setParams true (Zvbi.Slicer.rowParams r fmt rate spl) = .ok c := by
  obtain ⟨s1, s2, s3, s4, s5, s6, s7, s8, _⟩ := Zvbi.Slicer.rows_sane r hr
  have hc : 0 < r.criRate := by omega
  have hd : 0 < r.bitRate := by omega
  have hsm := small_ok rate r.criBits r.criRate (r.frcBits + r.payload) r.bitRate spl hc hd hlen
  have hpr : r.criRate ≤ rate ∧ r.bitRate ≤ rate := by
    unfold Zvbi.Slicer.permitRate at hperm
    simp only [decide_eq_true_eq] at hperm
    split at hperm <;> omega
  have h0 : ∃ c0, Zvbi.Slicer.setParams0 (Zvbi.Slicer.rowParams r fmt rate spl) = .ok c0 := by
    unfold Zvbi.Slicer.setParams0
    have c1 : ¬ ((Zvbi.Slicer.rowParams r fmt rate spl).criBits > 32 ∨ (Zvbi.Slicer.rowParams r fmt rate spl).frcBits > 32 ∨
        (Zvbi.Slicer.rowParams r fmt rate spl).payloadBits > 32767 ∨ (Zvbi.Slicer.rowParams r fmt rate spl).spl > 32767) := by
      simp only [Zvbi.Slicer.rowParams]; omega
    have c2 : ¬ ((Zvbi.Slicer.rowParams r fmt rate spl).criRate > (Zvbi.Slicer.rowParams r fmt rate spl).rate ∨
        (Zvbi.Slicer.rowParams r fmt rate spl).payloadRate > (Zvbi.Slicer.rowParams r fmt rate spl).rate) := by
      simp only [Zvbi.Slicer.rowParams]; omega
    have c3 : ¬ (max (Zvbi.Slicer.rowParams r fmt rate spl).criRate (Zvbi.Slicer.rowParams r fmt rate spl).payloadRate = 0) := by
      simp only [Zvbi.Slicer.rowParams]; omega
    have c5 : ¬ ((Zvbi.Slicer.rowParams r fmt rate spl).criRate = 0 ∨ (Zvbi.Slicer.rowParams r fmt rate spl).payloadRate = 0) := by
      simp only [Zvbi.Slicer.rowParams]; omega
    have c6 : ¬ ((Zvbi.Slicer.rowParams r fmt rate spl).offset > (Zvbi.Slicer.rowParams r fmt rate spl).spl ∨
        (Zvbi.Slicer.criSamples0 (Zvbi.Slicer.rowParams r fmt rate spl) + Zvbi.Slicer.dataSamples (Zvbi.Slicer.rowParams r fmt rate spl)) % U32 >
          (Zvbi.Slicer.rowParams r fmt rate spl).spl - (Zvbi.Slicer.rowParams r fmt rate spl).offset) := by
      have a1 : Zvbi.Slicer.criSamples0 (Zvbi.Slicer.rowParams r fmt rate spl) ≤ rate * r.criBits / r.criRate := by
        simp only [Zvbi.Slicer.criSamples0, Zvbi.Slicer.rowParams]; exact Nat.mod_le _ _
      have a2 : Zvbi.Slicer.dataSamples (Zvbi.Slicer.rowParams r fmt rate spl) ≤ rate * (r.frcBits + r.payload) / r.bitRate := by
        simp only [Zvbi.Slicer.dataSamples, Zvbi.Slicer.dataBits, Zvbi.Slicer.rowParams]
        rw [Nat.add_comm r.payload r.frcBits]; exact Nat.mod_le _ _
      have a3 := Nat.mod_le (Zvbi.Slicer.criSamples0 (Zvbi.Slicer.rowParams r fmt rate spl) +
        Zvbi.Slicer.dataSamples (Zvbi.Slicer.rowParams r fmt rate spl)) U32
      simp only [Zvbi.Slicer.rowParams] at a3 ⊢
      simp only [Zvbi.Slicer.rowParams] at a1 a2
      omega
    rw [if_neg c1, if_neg c2, if_neg c3]
    simp only [Bool.not_true, Bool.false_eq_true, if_false]
    rw [if_neg c5, if_neg c6]
    exact ⟨_, rfl⟩
  obtain ⟨c0, hc0⟩ := h0
  obtain ⟨c, hcc, _⟩ := Zvbi.Props.C05.rows_tight_never_rejects r hr fmt hf hb rate spl hrate hperm c0
    (Zvbi.Slicer.setParams_false.2 hc0)
  exact ⟨c, hcc⟩

/-- the configurations in which `add_services` cannot abort -/
def CfgOK (sp : SPar) : Prop :=
  (Zvbi.Slicer.fmtOfCode sp.fmt).isSome = true ∧ sp.bpl / bppOf sp.fmt ≤ 32767 ∧ sp.rate < U32

theorem mem_usable (r : Row) (hr : r ∈ serviceTable) (hu : r.id &&& vbiMask = 0) : r ∈ Zvbi.Slicer.usableRows := by
  unfold Zvbi.Slicer.usableRows
  rw [List.mem_filter]
  exact ⟨hr, by simpa [vbiMask] using hu⟩

theorem addOne_noerr (ti : Nat → Nat) (M : Nat) (strict : Int) (s : State) (ri : Nat) (r : Row) (hr : r ∈ serviceTable)
    (hM : M &&& vbiMask = 0) (hi : Inv s) (hp : s.pattern.isSome) (hc : CfgOK s.sp) :
    ∀ s', addOne ti M strict s ri r = some s' → s.err = none → s'.err = none := by
  intro s' he herr
  unfold addOne at he
  split at he
  · cases he; exact herr
  split at he
  · cases he; exact herr
  rename_i _ hrM
  have hu := usable_of_mask r hr M hM hrM
  simp only [] at he
  have hj := findIdx_le (fun job => mergeable job.id r.id) s.jobs
  generalize (s.jobs.findIdx? (fun job => mergeable job.id r.id)).getD s.jobs.length = j at he hj
  split at he
  · cases he
  split at he
  · cases he; exact herr
  rename_i hchk
  split at he
  · rename_i hnone
    have := hc.1
    rw [hnone] at this
    cases this
  rename_i fmt hfmt
  obtain ⟨hwf, hb4⟩ := fmtOfCode_wf _ fmt hfmt
  -- `set_params` accepts
  have hacc : ∃ c, Zvbi.Slicer.setParams slicerTight (Zvbi.Slicer.rowParams r fmt s.sp.rate (s.sp.bpl / bppOf s.sp.fmt)) = .ok c := by
    unfold checkServices at hchk
    rcases foldl_check_ne_zero s.sp r.id strict serviceTable 0 hchk with h0 | ⟨r', hr', hov, hperm⟩
    · exact absurd rfl h0
    · obtain ⟨p1, p2, p3, p4⟩ := permit_facts s.sp r' strict hperm
      obtain ⟨t1, t2, t3, t4, t5, t6⟩ := T_share r hr r' hr' hov
      rw [t1, t2, t3, t4, t5] at p4
      have hpr : Zvbi.Slicer.permitRate r s.sp.rate = true := by
        unfold Zvbi.Slicer.permitRate at p1 ⊢
        rw [t1, t2] at p1
        by_cases hw : r.id = slicedWss625
        · simpa [hw, t6.mpr hw] using p1
        · have hw' : ¬ r'.id = slicedWss625 := fun hh => hw (t6.mp hh)
          simpa [hw, hw'] using p1
      have : slicerTight = true := rfl
      rw [this]
      exact setParams_accepts r (mem_usable r hr hu) fmt hwf hb4 s.sp.rate _ hc.2.2 hc.2.1 hpr p4
  obtain ⟨c, hcc⟩ := hacc
  rw [hcc] at he
  simp only [] at he
  split at he
  · rename_i hnone
    rw [hnone] at hp; cases hp
  rename_i pat hpat
  have hpok := hi.pat pat hpat
  obtain ⟨hb1, hb2⟩ := linesContainingData_bounds s.sp r
  obtain ⟨pat', b, hadd, _, _⟩ := addJobToPattern_ok j s.jobs.length s.sp.scanLines hj _ pat hpok hb1 hb2
  rw [hadd] at he
  cases b with
  | false => simp only [] at he; cases he; exact herr
  | true => simp only [] at he; cases he; exact herr

theorem addLoop_noerr (ti : Nat → Nat) (M : Nat) (strict : Int) (hM : M &&& vbiMask = 0) :
    ∀ (l : List (Nat × Row)) (s : State), (∀ x ∈ l, x.2 ∈ serviceTable) → Inv s → s.pattern.isSome → CfgOK s.sp →
      s.err = none → (addLoop ti M strict s l).err = none := by
  intro l
  induction l with
  | nil => intro s _ _ _ _ h; exact h
  | cons x rest ih =>
    intro s hmem hi hp hc herr
    obtain ⟨ri, r⟩ := x
    unfold addLoop
    cases he : addOne ti M strict s ri r with
    | none => exact herr
    | some s' =>
      simp only []
      obtain ⟨hi', hp', hsp⟩ := addOne_inv ti M strict s ri r hi hp s' he
      exact ih s' (fun y hy => hmem y (by simp [hy])) hi' hp' (by rw [hsp]; exact hc)
        (addOne_noerr ti M strict s ri r (hmem (ri, r) (by simp)) hM hi hp hc s' he herr)

theorem addServices_noerr (ti : Nat → Nat) (s : State) (sv : Nat) (strict : Int) (hi : Inv s) (h : JInv s) (hc : CfgOK s.sp)
    (herr : s.err = none) : (addServices ti s sv strict).err = none := by
  unfold addServices
  split
  · exact herr
  unfold addServicesCore
  split
  · exact herr
  obtain ⟨hM, _⟩ := maskServices_spec s sv h
  cases hp : s.pattern with
  | some p => simp only []; exact addLoop_noerr ti _ strict hM enumTable s T_enum_mem hi (by rw [hp]; rfl) hc herr
  | none =>
    simp only []
    exact addLoop_noerr ti _ strict hM enumTable _ T_enum_mem
      ⟨hi.jobsLe, by intro p hp'; simp only [Option.some.injEq] at hp'; subst hp'; exact patOK_blank _ _, hi.noIdx, fun _ => rfl⟩
      rfl hc herr

theorem removeServices_err (fx : Fixes) (s : State) (sv : Nat) : (removeServices fx s sv).err = s.err := by
  unfold removeServices
  split <;> rfl

theorem decodeFrame_noerr (s : State) (m : Nat) (sl : Slicer) (hi : Inv s) (hg : PatG s) (herr : s.err = none) :
    (decodeFrame s m sl).1.err = none := by
  by_cases hsv : s.services = 0
  · have : (decodeFrame s m sl).1 = s := by
      unfold decodeFrame
      have h1 : s.err.isSome = false := by rw [herr]; rfl
      simp [h1, hsv]
    rw [this]; exact herr
  · have hps := hi.svcPat hsv
    cases hp : s.pattern with
    | none => rw [hp] at hps; cases hps
    | some p =>
      obtain ⟨_, _, _, _, he, _⟩ := decodeFrame_h s m sl herr hsv p hp
        (fun r hr => ⟨(hi.pat p hp).2 r hr, (hg p hp r hr).armed⟩)
      exact he

/-- no history of the repaired code reaches the `set_params` assertion (or any other error value) -/
theorem run_noerr (fx : Fixes) (hja : fx.jobAdvance = true) (hm : fx.merged = true) (hmk : fx.marker = true) (ti : Nat → Nat)
    (sp : SPar) (hc : CfgOK sp) (ops : List Op) : (run fx ti sp ops).err = none := by
  unfold run
  have : ∀ (ops : List Op) (s : State), Inv s → JInv s → PatG s → CfgOK s.sp → s.err = none →
      (ops.foldl (step fx ti) s).err = none := by
    intro ops
    induction ops with
    | nil => intro s _ _ _ _ h; exact h
    | cons op rest ih =>
      intro s hi h hg hcs herr
      have hsi := step_inv fx ti s op hi
      apply ih _ hsi.1 (step_jok fx hja hm ti s op hi h) (step_gd fx hmk ti s op hi h hg) (by rw [hsi.2]; exact hcs)
      cases op with
      | add sv st => exact addServices_noerr ti s sv st hi h hcs herr
      | remove sv => simp only [step]; rw [removeServices_err]; exact herr
      | reset =>
        simp only [step]
        split
        · exact herr
        · exact herr
      | decode m sl => exact decodeFrame_noerr s m sl hi hg herr
  exact this ops (init sp) (inv_init sp) (jinv_init sp) (by intro p hp; simp [init] at hp) hc rfl

end Zvbi.Rawdec
