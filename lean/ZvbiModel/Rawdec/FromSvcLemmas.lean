import ZvbiModel.Rawdec.FromSvc
/-!
# Lemmas for C04 (round 5): the table loop of `_vbi_sampling_par_from_services_log` with the repaired range update

`Keep a r`: the accumulated parameters `a` have the video standard of row `r` and, for each field `r` uses, a non-empty
line range that contains `r.first .. r.last`.  Established by the iteration that takes `r` (`step_takes`), kept by every
later iteration (`step_keep`) - the released range update breaks the second part.
-/
namespace Zvbi.Rawdec
open Zvbi.Generated.ServiceTable Zvbi.Generated.RawdecFromSvc

def FsAcc.start (a : FsAcc) (f : Nat) : Nat := if f = 0 then a.start0 else a.start1
def FsAcc.count (a : FsAcc) (f : Nat) : Nat := if f = 0 then a.count0 else a.count1

/-- field `f` of `a` covers the lines of row `r` -/
def Cov (a : FsAcc) (r : Row) (f : Nat) : Prop :=
  r.first f > 0 → r.last f > 0 →
    a.count f > 0 ∧ 0 < a.start f ∧ a.start f ≤ r.first f ∧ r.last f + 1 ≤ a.start f + a.count f

def Keep (a : FsAcc) (r : Row) : Prop :=
  a.vstd = r.videostd ∧ (r.videostd = 1 ∨ r.videostd = 2) ∧ Cov a r 0 ∧ Cov a r 1 ∧ r.id &&& a.rsv = r.id

def GoodAcc (fam : Nat) (a : FsAcc) : Prop :=
  (a.vstd = 0 ∨ a.vstd = 1 ∨ a.vstd = 2) ∧ 0 < a.start0 ∧ 0 < a.start1 ∧ (fam ≠ 0 → a.vstd = fam)

theorem T_rows : ∀ r ∈ serviceTable, (r.videostd = 1 ∨ r.videostd = 2) ∧ r.first0 ≤ r.last0 ∧ r.first1 ≤ r.last1 := by
  decide +kernel

theorem fsVstd_cases (fam : Nat) (a : FsAcc) (r : Row) (hr : r.videostd = 1 ∨ r.videostd = 2)
    (ha : a.vstd = 0 ∨ a.vstd = 1 ∨ a.vstd = 2) (hf : fam ≠ 0 → a.vstd = fam) :
    (fsVstd fam a r = a.vstd ∨ (a.vstd = 0 ∧ fam = 0 ∧ fsVstd fam a r = r.videostd)) ∧
    (r.videostd &&& fsVstd fam a r ≠ 0 → fsVstd fam a r = r.videostd) := by
  unfold fsVstd
  by_cases h0 : fam = 0
  · rcases hr with hr | hr <;> rcases ha with ha | ha | ha <;> simp [h0, hr, ha, videostd625, videostd525]
  · have := hf h0
    rcases hr with hr | hr <;> rcases ha with ha | ha | ha <;> simp [h0, hr, ha]

theorem fsField_fixed (start count first last : Nat) (hs : 0 < start) (hfl : first ≤ last) :
    (first > 0 → last > 0 →
      (fsField true start count first last).2 > 0 ∧ 0 < (fsField true start count first last).1 ∧
      (fsField true start count first last).1 ≤ first ∧
      last + 1 ≤ (fsField true start count first last).1 + (fsField true start count first last).2) ∧
    0 < (fsField true start count first last).1 ∧
    (count > 0 → (fsField true start count first last).2 > 0 ∧ (fsField true start count first last).1 ≤ start ∧
      start + count ≤ (fsField true start count first last).1 + (fsField true start count first last).2) := by
  unfold fsField
  by_cases h : first > 0 ∧ last > 0
  · simp only [h, and_self, if_true]
    by_cases hc : count > 0
    · simp only [hc, if_true]; omega
    · have hc0 : count = 0 := by omega
      subst hc0
      simp only [gt_iff_lt, Nat.lt_irrefl, if_false, Nat.zero_max]
      exact ⟨fun _ _ => by omega, by omega, fun hh => hh.elim⟩
  · simp only [h, if_false]
    omega

theorem sub_or (a b c : Nat) (h : a &&& b = a) : a &&& (b ||| c) = a := by
  apply Nat.eq_of_testBit_eq
  intro i
  have e : (a &&& b).testBit i = a.testBit i := by rw [h]
  rw [Nat.testBit_and] at e
  rw [Nat.testBit_and, Nat.testBit_or]
  cases ha : a.testBit i <;> cases hb : b.testBit i <;> cases hc : c.testBit i <;> simp_all

theorem sub_or_self (a b : Nat) : a &&& (b ||| a) = a := by
  apply Nat.eq_of_testBit_eq
  intro i
  simp only [Nat.testBit_and, Nat.testBit_or]
  cases a.testBit i <;> cases b.testBit i <;> simp

theorem step_good (fam sv : Nat) (a : FsAcc) (r : Row) (c : Nat × Nat) (hr : r ∈ serviceTable) (hg : GoodAcc fam a) :
    GoodAcc fam (fsStep true fam sv a r c) := by
  obtain ⟨hv, h0, h1, hf⟩ := hg
  obtain ⟨t1, t2, t3⟩ := T_rows r hr
  obtain ⟨v1, _⟩ := fsVstd_cases fam a r t1 hv hf
  have hv' : fsVstd fam a r = 0 ∨ fsVstd fam a r = 1 ∨ fsVstd fam a r = 2 := by
    rcases v1 with v1 | ⟨_, _, v1⟩
    · rw [v1]; exact hv
    · rw [v1]; rcases t1 with t | t <;> simp [t]
  have hf' : fam ≠ 0 → fsVstd fam a r = fam := by
    intro h
    rcases v1 with v1 | ⟨_, v0, _⟩
    · rw [v1]; exact hf h
    · exact absurd v0 h
  unfold fsStep
  split
  · exact ⟨hv, h0, h1, hf⟩
  split
  · exact ⟨hv', h0, h1, hf'⟩
  · exact ⟨hv', (fsField_fixed a.start0 a.count0 r.first0 r.last0 h0 t2).2.1,
      (fsField_fixed a.start1 a.count1 r.first1 r.last1 h1 t3).2.1, hf'⟩

theorem cov_mono (a a' : FsAcc) (r' : Row) (f : Nat)
    (h : a.count f > 0 → a'.count f > 0 ∧ a'.start f ≤ a.start f ∧ a.start f + a.count f ≤ a'.start f + a'.count f)
    (hs : 0 < a'.start f) (hk : Cov a r' f) : Cov a' r' f := by
  intro f1 f2
  obtain ⟨c1, c2, c3, c4⟩ := hk f1 f2
  have := h c1
  exact ⟨this.1, hs, by omega, by omega⟩

/-- later iterations keep what an earlier one has established (repaired range update) -/
theorem step_keep (fam sv : Nat) (a : FsAcc) (r : Row) (c : Nat × Nat) (hr : r ∈ serviceTable) (hg : GoodAcc fam a)
    (r' : Row) (hk : Keep a r') : Keep (fsStep true fam sv a r c) r' := by
  obtain ⟨hv, h0, h1, hf⟩ := hg
  obtain ⟨t1, t2, t3⟩ := T_rows r hr
  obtain ⟨k1, k2, k3, k4, k5⟩ := hk
  have hvs : fsVstd fam a r = a.vstd := by
    rcases (fsVstd_cases fam a r t1 hv hf).1 with v | ⟨v0, _, _⟩
    · exact v
    · rw [v0] at k1; rcases k2 with k | k <;> omega
  unfold fsStep
  split
  · exact ⟨k1, k2, k3, k4, k5⟩
  split
  · exact ⟨by simp only []; rw [hvs]; exact k1, k2, k3, k4, k5⟩
  · refine ⟨by simp only []; rw [hvs]; exact k1, k2, ?_, ?_, by simp only []; exact sub_or _ _ _ k5⟩
    · exact cov_mono a _ r' 0 (fun hc => (fsField_fixed a.start0 a.count0 r.first0 r.last0 h0 t2).2.2 hc)
        (fsField_fixed a.start0 a.count0 r.first0 r.last0 h0 t2).2.1 k3
    · exact cov_mono a _ r' 1 (fun hc => (fsField_fixed a.start1 a.count1 r.first1 r.last1 h1 t3).2.2 hc)
        (fsField_fixed a.start1 a.count1 r.first1 r.last1 h1 t3).2.1 k4

/-- the iteration that takes a row covers it -/
theorem step_takes (fam sv : Nat) (a : FsAcc) (r : Row) (c : Nat × Nat) (hr : r ∈ serviceTable) (hg : GoodAcc fam a)
    (ht : fsTakes fam sv a r = true) : Keep (fsStep true fam sv a r c) r := by
  obtain ⟨hv, h0, h1, hf⟩ := hg
  obtain ⟨t1, t2, t3⟩ := T_rows r hr
  unfold fsTakes at ht
  simp only [Bool.and_eq_true, decide_eq_true_eq] at ht
  obtain ⟨ht1, ht2⟩ := ht
  have hvs := (fsVstd_cases fam a r t1 hv hf).2 ht2
  unfold fsStep
  rw [if_neg ht1, if_neg ht2]
  refine ⟨hvs, t1, ?_, ?_, by simp only []; exact sub_or_self _ _⟩
  · intro f1 f2
    have := (fsField_fixed a.start0 a.count0 r.first0 r.last0 h0 t2).1
    simp only [FsAcc.start, FsAcc.count, Row.first, Row.last, if_true] at f1 f2 ⊢
    exact this f1 f2
  · intro f1 f2
    have := (fsField_fixed a.start1 a.count1 r.first1 r.last1 h1 t3).1
    simp only [FsAcc.start, FsAcc.count, Row.first, Row.last, show ((1 : Nat) = 0) = False from by simp, if_false] at f1 f2 ⊢
    exact this f1 f2

theorem trace_keep (fam sv : Nat) : ∀ (l : List (Row × (Nat × Nat))) (a : FsAcc), (∀ x ∈ l, x.1 ∈ serviceTable) →
    GoodAcc fam a →
    GoodAcc fam (fsTrace true fam sv l a).1 ∧ (∀ r, Keep a r → Keep (fsTrace true fam sv l a).1 r) ∧
    (∀ r ∈ (fsTrace true fam sv l a).2, Keep (fsTrace true fam sv l a).1 r)
  | [], a, _, hg => ⟨hg, fun _ h => h, fun _ h => nomatch h⟩
  | x :: rest, a, hm, hg => by
    have hx := hm x (by simp)
    have hg1 := step_good fam sv a x.1 x.2 hx hg
    obtain ⟨i1, i2, i3⟩ := trace_keep fam sv rest _ (fun y hy => hm y (by simp [hy])) hg1
    unfold fsTrace
    simp only []
    refine ⟨i1, fun r hk => i2 r (step_keep fam sv a x.1 x.2 hx hg r hk), ?_⟩
    intro r hr
    by_cases ht : fsTakes fam sv a x.1 = true
    · rw [if_pos ht] at hr
      rcases List.mem_cons.mp hr with rfl | hr
      · exact i2 _ (step_takes fam sv a x.1 x.2 hx hg ht)
      · exact i3 r hr
    · rw [if_neg ht] at hr
      exact i3 r hr

end Zvbi.Rawdec
