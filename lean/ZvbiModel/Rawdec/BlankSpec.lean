import ZvbiModel.Rawdec.BlankLemmas
/-!
# Lemmas for C04 round 3, part 2: `tryJobs` = `lineSpec` for threshold-insensitive images; `lineSpec` does not depend
# on the order of the ways when at most one job matches
-/
namespace Zvbi.Rawdec
open Zvbi.Generated.ServiceTable

/-- same jobs up to the slicer thresholds -/
def JobsRel (a b : List Job) : Prop := a.map jobKey = b.map jobKey

theorem JobsRel.refl (a : List Job) : JobsRel a a := rfl
theorem JobsRel.trans {a b c : List Job} (h1 : JobsRel a b) (h2 : JobsRel b c) : JobsRel a c := Eq.trans h1 h2
theorem JobsRel.symm {a b : List Job} (h : JobsRel a b) : JobsRel b a := Eq.symm h
theorem JobsRel.length {a b : List Job} (h : JobsRel a b) : a.length = b.length := by
  have := congrArg List.length h
  simpa using this

theorem JobsRel.getElem? {a b : List Job} (h : JobsRel a b) (k : Nat) :
    (a[k]?).map jobKey = (b[k]?).map jobKey := by
  have := congrArg (fun l => l[k]?) h
  simpa [List.getElem?_map] using this

theorem jobsRel_set (jobs : List Job) (k : Nat) (hk : k < jobs.length) (th : Nat) :
    JobsRel jobs (jobs.set k { jobs[k] with thresh := th }) := by
  unfold JobsRel
  apply List.ext_getElem
  · simp
  · intro i h1 h2
    simp [List.getElem_set]
    intro h; subst h; rfl

/-- `tryJobs` changes thresholds only -/
theorem tryJobs_rel (sl : Nat → Job → Option (List Nat) × Nat) :
    ∀ (l : List Int) (jobs : List Job), JobsRel jobs (tryJobs sl l jobs).2 := by
  intro l
  induction l with
  | nil => intro jobs; exact JobsRel.refl _
  | cons x rest ih =>
    intro jobs
    unfold tryJobs
    cases hj : jobs[x.toNat - 1]? with
    | none => exact JobsRel.refl _
    | some job =>
      simp only []
      have hk : x.toNat - 1 < jobs.length := by
        rcases List.getElem?_eq_some_iff.mp hj with ⟨h, _⟩; exact h
      have hjob : job = jobs[x.toNat - 1] := by
        rcases List.getElem?_eq_some_iff.mp hj with ⟨_, h⟩; exact h.symm
      subst hjob
      cases hres : (sl (x.toNat - 1) jobs[x.toNat - 1]).1 with
      | some d => simp only [hres]; exact jobsRel_set jobs _ hk _
      | none =>
        simp only [hres]
        exact (jobsRel_set jobs _ hk _).trans (ih _)

/-- `lineSpec` over an explicit list of job numbers -/
def lineSpecL (sp : SPar) (sl : Slicer) (jobs : List Job) (i : Nat) (l : List Int) : Option Rec :=
  match l.find? (fun x => (hitOf sl jobs i x).isSome) with
  | none => none
  | some x =>
    match jobs[x.toNat - 1]?, hitOf sl jobs i x with
    | some job, some d => some { id := job.id, line := lineOf sp i, data := d }
    | _, _ => none

theorem lineSpec_eq (sp : SPar) (sl : Slicer) (jobs : List Job) (i : Nat) (row : PRow) :
    lineSpec sp sl jobs i row = lineSpecL sp sl jobs i (jobsOf row) := rfl

/-- the verdict on job number `x` is the same for two job lists that differ in thresholds only -/
theorem hitOf_rel (sl : Slicer) (htf : ThreshFree sl) {jobs0 jobs : List Job} (h : JobsRel jobs0 jobs) (i : Nat) (x : Int) :
    hitOf sl jobs i x = hitOf sl jobs0 i x := by
  unfold hitOf
  have hk := h.getElem? (x.toNat - 1)
  cases h0 : jobs0[x.toNat - 1]? with
  | none =>
    rw [h0] at hk
    cases h1 : jobs[x.toNat - 1]? with
    | none => rfl
    | some j => rw [h1] at hk; simp at hk
  | some j0 =>
    rw [h0] at hk
    cases h1 : jobs[x.toNat - 1]? with
    | none => rw [h1] at hk; simp at hk
    | some j =>
      rw [h1] at hk
      simp only [Option.map_some, Option.some.injEq] at hk
      exact htf i _ j j0 hk.symm

/-- **`tryJobs` is `lineSpec`** when the slicers' verdicts do not depend on the thresholds: the first listed job whose
    slicer matches, whatever thresholds earlier lines and earlier tries left behind -/
theorem tryJobs_lineSpec (sp : SPar) (sl : Slicer) (htf : ThreshFree sl) (i : Nat) (jobs0 : List Job) :
    ∀ (l : List Int) (jobs : List Job), JobsRel jobs0 jobs → (∀ x ∈ l, 0 < x ∧ x ≤ (jobs0.length : Int)) →
      (tryJobs (sl i) l jobs).1.map (fun m => ({ id := m.2.1.id, line := lineOf sp i, data := m.2.2 } : Rec))
        = lineSpecL sp sl jobs0 i l := by
  intro l
  induction l with
  | nil => intro jobs _ _; rfl
  | cons x rest ih =>
    intro jobs hrel hl
    obtain ⟨hx0, hxn⟩ := hl x (by simp)
    have hlen := hrel.length
    have hk : x.toNat - 1 < jobs.length := by omega
    have hk0 : x.toNat - 1 < jobs0.length := by omega
    have hhit : hitOf sl jobs0 i x = (sl i (x.toNat - 1) jobs[x.toNat - 1]).1 := by
      rw [← hitOf_rel sl htf hrel i x]
      unfold hitOf
      rw [List.getElem?_eq_getElem hk]
    have hkey : jobKey jobs0[x.toNat - 1] = jobKey jobs[x.toNat - 1] := by
      have := hrel.getElem? (x.toNat - 1)
      rw [List.getElem?_eq_getElem hk, List.getElem?_eq_getElem hk0] at this
      simpa using this
    unfold tryJobs
    rw [List.getElem?_eq_getElem hk]
    simp only []
    unfold lineSpecL
    rw [List.find?_cons]
    cases hres : (sl i (x.toNat - 1) jobs[x.toNat - 1]).1 with
    | some d =>
      rw [hres] at hhit
      simp only [hhit, Option.isSome_some, Option.map_some, List.getElem?_eq_getElem hk0]
      have hid : jobs0[x.toNat - 1].id = jobs[x.toNat - 1].id := congrArg Prod.fst hkey
      rw [hid]
    | none =>
      rw [hres] at hhit
      simp only [hhit, Option.isSome_none]
      have := ih (jobs.set (x.toNat - 1) { jobs[x.toNat - 1] with thresh := (sl i (x.toNat - 1) jobs[x.toNat - 1]).2 })
        (hrel.trans (jobsRel_set jobs _ hk _)) (fun y hy => hl y (by simp [hy]))
      rw [this]
      rfl

/-! ## the order of the ways does not matter when at most one job matches -/

/-- at most one of the jobs listed for row `i` matches the image -/
def UniqueHit (sl : Slicer) (jobs : List Job) (i : Nat) (row : PRow) : Prop :=
  ∀ x ∈ row, ∀ y ∈ row, 0 < x → 0 < y → (hitOf sl jobs i x).isSome = true → (hitOf sl jobs i y).isSome = true → x = y

theorem find?_perm_unique {α : Type} (P : α → Bool) (l l' : List α) (hmem : ∀ x, x ∈ l ↔ x ∈ l')
    (huniq : ∀ x ∈ l, ∀ y ∈ l, P x = true → P y = true → x = y) : l.find? P = l'.find? P := by
  cases h : l.find? P with
  | none =>
    rw [List.find?_eq_none] at h
    symm
    rw [List.find?_eq_none]
    intro x hx
    exact h x ((hmem x).mpr hx)
  | some x =>
    have hx := List.mem_of_find?_eq_some h
    have hpx := List.find?_some h
    cases h' : l'.find? P with
    | none =>
      rw [List.find?_eq_none] at h'
      have := h' x ((hmem x).mp hx)
      rw [hpx] at this
      exact absurd rfl this
    | some y =>
      have hy := List.mem_of_find?_eq_some h'
      have hpy := List.find?_some h'
      rw [huniq x hx y ((hmem y).mpr hy) hpx hpy]

theorem mem_jobsOf (row : PRow) (x : Int) : x ∈ jobsOf row ↔ (x ∈ row ∧ 0 < x) := by
  unfold jobsOf
  rw [List.mem_filter]
  simp

/-- rows with the same jobs (as multisets) -/
def SameJobs (r r' : PRow) : Prop := ∀ x, 0 < x → r'.count x = r.count x

theorem SameJobs.mem {r r' : PRow} (h : SameJobs r r') (x : Int) : x ∈ jobsOf r ↔ x ∈ jobsOf r' := by
  rw [mem_jobsOf, mem_jobsOf]
  constructor
  · intro ⟨hm, hp⟩
    refine ⟨?_, hp⟩
    have := h x hp
    rw [← List.count_pos_iff] at hm ⊢
    omega
  · intro ⟨hm, hp⟩
    refine ⟨?_, hp⟩
    have := h x hp
    rw [← List.count_pos_iff] at hm ⊢
    omega

/-- **the order in which the ways are tried cannot change the result when at most one job matches the line** -/
theorem lineSpec_order_free (sp : SPar) (sl : Slicer) (htf : ThreshFree sl) {jobs0 jobs : List Job}
    (hrel : JobsRel jobs0 jobs) (i : Nat) (r r' : PRow) (hsame : SameJobs r r') (hu : UniqueHit sl jobs0 i r) :
    lineSpec sp sl jobs i r' = lineSpec sp sl jobs0 i r := by
  rw [lineSpec_eq, lineSpec_eq]
  unfold lineSpecL
  have hh : (fun x => (hitOf sl jobs i x).isSome) = (fun x => (hitOf sl jobs0 i x).isSome) := by
    funext x; rw [hitOf_rel sl htf hrel i x]
  rw [hh]
  have hf := find?_perm_unique (fun x => (hitOf sl jobs0 i x).isSome) (jobsOf r) (jobsOf r') (hsame.mem)
    (by
      intro x hx y hy hpx hpy
      rw [mem_jobsOf] at hx hy
      exact hu x hx.1 y hy.1 hx.2 hy.2 hpx hpy)
  rw [← hf]
  cases (jobsOf r).find? (fun x => (hitOf sl jobs0 i x).isSome) with
  | none => rfl
  | some x =>
    simp only []
    rw [hitOf_rel sl htf hrel i x]
    have hk := hrel.getElem? (x.toNat - 1)
    cases h0 : jobs0[x.toNat - 1]? with
    | none =>
      rw [h0] at hk
      cases h1 : jobs[x.toNat - 1]? with
      | none => rfl
      | some j => rw [h1] at hk; simp at hk
    | some j0 =>
      rw [h0] at hk
      cases h1 : jobs[x.toNat - 1]? with
      | none => rw [h1] at hk; simp at hk
      | some j =>
        rw [h1] at hk
        simp only [Option.map_some, Option.some.injEq] at hk
        have hid : j0.id = j.id := congrArg Prod.fst hk
        cases hitOf sl jobs0 i x with
        | none => rfl
        | some d => simp only [hid]

end Zvbi.Rawdec
