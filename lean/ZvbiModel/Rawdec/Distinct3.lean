import ZvbiModel.Rawdec.Distinct2
/-!
# Lemmas for C04 (round 5), part 3: `add_job_to_pattern` never runs out of pattern space; every reachable pattern of the
repaired code is armed with pairwise distinct job numbers per line

* `PG S n pat`: every row is `Wk`, and `Gd` outside the index set `S` (the rows a running `add_job_to_pattern` has
  compacted but not yet re-armed);
* `addPass1_pg`: the first loop never stops early (`free > 1` by `free_gt_one`), `mapRows_place_pg`: the second loop
  re-arms its range; `addJobToPattern_gd`: TRUE is returned and every row is `Gd` again;
* `new_job_room`: when a table row that merges with no job is accepted, at most 6 jobs exist (merge classes);
* `addOne_gd`, `addLoop_gd`, `addServices_gd`, `removeServices_gd`, `decodeFrame_gd`, `run_gd`.
-/
namespace Zvbi.Rawdec
open Zvbi.Generated.ServiceTable
open Zvbi.Slicer (U32)

def PG (S : Nat → Prop) (n : Nat) (pat : Pattern) : Prop :=
  ∀ i row, pat[i]? = some row → Wk n row ∧ (¬ S i → Gd n row)

theorem pg_of_all {n : Nat} {pat : Pattern} (h : ∀ row ∈ pat, Gd n row) : PG (fun _ => False) n pat := by
  intro i row hi
  have := h row (List.mem_of_getElem? hi)
  exact ⟨this.wk, fun _ => this⟩

theorem all_of_pg {S : Nat → Prop} {n : Nat} {pat : Pattern} (h : PG S n pat) (hS : ∀ i, ¬ S i) : ∀ row ∈ pat, Gd n row := by
  intro row hr
  obtain ⟨i, hi, rfl⟩ := List.mem_iff_getElem.mp hr
  exact (h i _ (List.getElem?_eq_getElem hi)).2 (hS i)

/-- first loop of `add_job_to_pattern`: never "out of pattern space" -/
theorem addPass1_pg (jn : Int) (n lines start : Nat) (S : Nat → Prop) (hn : n ≤ 7) (hjn : 0 < jn) (hjn' : jn ≤ (n : Int)) :
    ∀ (count : Nat) (pat : Pattern), pat.length = lines → start + count ≤ lines → PG S n pat →
      ∃ pat', addPass1 jn start count pat = .ok (pat', true) ∧ pat'.length = lines ∧
        PG (fun i => S i ∨ (start ≤ i ∧ i < start + count)) n pat' := by
  intro count
  unfold addPass1
  induction count with
  | zero =>
    intro pat hl _ h
    refine ⟨pat, rfl, hl, ?_⟩
    intro i row hi
    exact ⟨(h i row hi).1, fun hns => (h i row hi).2 (fun hs => hns (Or.inl hs))⟩
  | succ c ih =>
    intro pat hl hb h
    obtain ⟨pat1, he, hl1, h1⟩ := ih pat hl (by omega) h
    rw [List.range_succ, List.foldlM_append, he]
    simp only [bind, Except.bind, List.foldlM_cons, List.foldlM_nil, Bool.not_true]
    have hlt : start + c < pat1.length := by omega
    rw [List.getElem?_eq_getElem hlt]
    simp only [pure, Except.pure]
    have hwk := (h1 (start + c) _ (List.getElem?_eq_getElem hlt)).1
    have hfree : decide ((compactRow jn pat1[start + c]).2 > 1) = true := by
      have := free_gt_one jn n hwk (Nat.le_refl _) hn hjn hjn'
      simpa using this
    refine ⟨pat1.set (start + c) (compactRow jn pat1[start + c]).1, ?_, by rw [List.length_set]; exact hl1, ?_⟩
    · show (Except.ok (pat1.set (start + c) (compactRow jn pat1[start + c]).1, decide ((compactRow jn pat1[start + c]).2 > 1)) :
        Except String (Pattern × Bool)) = _
      rw [hfree]
    · intro i row hi
      rw [List.getElem?_set] at hi
      by_cases hic : start + c = i
      · rw [if_pos hic, if_pos hlt] at hi
        cases hi
        exact ⟨compactRow_wk jn hwk, fun hns => absurd (Or.inr ⟨by omega, by omega⟩) hns⟩
      · rw [if_neg hic] at hi
        obtain ⟨w, g⟩ := h1 i row hi
        refine ⟨w, fun hns => g (fun hs => hns ?_)⟩
        rcases hs with hs | hs
        · exact Or.inl hs
        · exact Or.inr ⟨hs.1, by omega⟩

/-- second loop of `add_job_to_pattern`: the rows of its range are armed again -/
theorem mapRows_place_pg (jn : Int) (n lines start : Nat) (S : Nat → Prop) (hjn : 0 < jn) (hjn' : jn ≤ (n : Int)) :
    ∀ (count : Nat) (pat : Pattern), pat.length = lines → start + count ≤ lines → PG S n pat →
      ∃ pat', mapRowsM (placeRow jn) start count pat = .ok pat' ∧ pat'.length = lines ∧
        PG (fun i => S i ∧ ¬ (start ≤ i ∧ i < start + count)) n pat' := by
  intro count
  unfold mapRowsM
  induction count with
  | zero =>
    intro pat hl _ h
    refine ⟨pat, rfl, hl, ?_⟩
    intro i row hi
    exact ⟨(h i row hi).1, fun hns => (h i row hi).2 (fun hs => hns ⟨hs, by omega⟩)⟩
  | succ c ih =>
    intro pat hl hb h
    obtain ⟨pat1, he, hl1, h1⟩ := ih pat hl (by omega) h
    rw [List.range_succ, List.foldlM_append, he]
    simp only [bind, Except.bind, List.foldlM_cons, List.foldlM_nil]
    have hlt : start + c < pat1.length := by omega
    rw [List.getElem?_eq_getElem hlt]
    have hwk := (h1 (start + c) _ (List.getElem?_eq_getElem hlt)).1
    obtain ⟨row', hp, hg⟩ := placeRow_gd jn hwk hjn hjn'
    simp only [hp, pure, Except.pure]
    refine ⟨_, rfl, by rw [List.length_set]; exact hl1, ?_⟩
    intro i row hi
    rw [List.getElem?_set] at hi
    by_cases hic : start + c = i
    · rw [if_pos hic, if_pos hlt] at hi
      cases hi
      exact ⟨hg.wk, fun _ => hg⟩
    · rw [if_neg hic] at hi
      obtain ⟨w, g⟩ := h1 i row hi
      refine ⟨w, fun hns => g (fun hs => hns ⟨hs.1, fun hr => hs.2 ⟨hr.1, by omega⟩⟩)⟩

/-- `add_job_to_pattern` on a pattern of `Gd` rows, with at most 7 job numbers in use (the new one included): returns
    TRUE, every row is `Gd` again -/
theorem addJobToPattern_gd (j n lines : Nat) (hn : n ≤ 7) (hj : j < n) (ls : (Nat × Nat) × (Nat × Nat)) (pat : Pattern)
    (hl : pat.length = lines) (h : ∀ row ∈ pat, Gd n row) (h1 : ls.1.1 + ls.1.2 ≤ lines) (h2 : ls.2.1 + ls.2.2 ≤ lines) :
    ∃ pat', addJobToPattern j ls pat = .ok (pat', true) ∧ pat'.length = lines ∧ ∀ row ∈ pat', Gd n row := by
  unfold addJobToPattern
  have hjn : (0 : Int) < (j : Int) + 1 := by omega
  have hjn' : (j : Int) + 1 ≤ (n : Int) := by omega
  obtain ⟨p1, e1, l1, g1⟩ := addPass1_pg ((j : Int) + 1) n lines ls.1.1 _ hn hjn hjn' ls.1.2 pat hl h1 (pg_of_all h)
  obtain ⟨p2, e2, l2, g2⟩ := addPass1_pg ((j : Int) + 1) n lines ls.2.1 _ hn hjn hjn' ls.2.2 p1 l1 h2 g1
  obtain ⟨p3, e3, l3, g3⟩ := mapRows_place_pg ((j : Int) + 1) n lines ls.1.1 _ hjn hjn' ls.1.2 p2 l2 h1 g2
  obtain ⟨p4, e4, l4, g4⟩ := mapRows_place_pg ((j : Int) + 1) n lines ls.2.1 _ hjn hjn' ls.2.2 p3 l3 h2 g3
  simp only [bind, Except.bind, e1, e2, e3, e4, Bool.not_true, pure, Except.pure]
  refine ⟨p4, rfl, l4, all_of_pg g4 ?_⟩
  intro i hs
  obtain ⟨⟨hs1, hs2⟩, hs3⟩ := hs
  rcases hs1 with (hf | hr1) | hr2
  · exact hf
  · exact hs2 hr1
  · exact hs3 hr2

/-! ### at most 6 jobs when a new one is created -/

theorem new_job_room (s : State) (r : Row) (hr : r ∈ serviceTable) (M : Nat) (hM : M &&& vbiMask = 0) (hrM : r.id &&& M ≠ 0)
    (strict : Int) (h : JInv s) (hq : mergeable r.id r.id = false → r.id &&& M ≠ 0 → r.id &&& s.services = 0)
    (hfi : s.jobs.findIdx? (fun job => mergeable job.id r.id) = none) (hchk : checkServices s.sp r.id strict ≠ 0) :
    s.jobs.length + 1 ≤ 7 := by
  have hu := usable_of_mask r hr M hM hrM
  have hnone := List.findIdx?_eq_none_iff.mp hfi
  have hrU := T_usable_in_U r hr hu
  have hJ : JOK s.std (s.services ||| r.id) (s.ids ++ [r.id]) := by
    refine ⟨?_, ?_, ?_, ?_⟩
    · intro a ha
      rcases List.mem_append.mp ha with ha | ha
      · exact h.inU a ha
      · simp at ha; rw [ha]; exact hrU
    · rw [List.map_append, List.nodup_append]
      refine ⟨h.nodup, by simp, ?_⟩
      intro k hk k' hk' hkk
      simp at hk'
      subst hk' hkk
      obtain ⟨a, ha, hca⟩ := List.mem_map.mp hk
      obtain ⟨job, hjob', hja⟩ := List.mem_map.mp (show a ∈ s.jobs.map (·.id) from ha)
      have hnm : mergeable a r.id = false := by
        have := hnone job hjob'
        rw [← hja]
        simpa using this
      obtain ⟨hEq, hself⟩ := T_nomerge a (h.inU a ha) r hr hu hnm hca
      have hdis := hq hself hrM
      rw [h.svc] at hdis
      have : a &&& r.id = 0 := by
        have := (orAll_and_zero.mp (by rw [Nat.and_comm]; exact hdis)) a ha
        exact this
      rw [hEq, Nat.and_self] at this
      rw [this] at hrU
      exact T_zero_notin hrU
    · rw [orAll_append, h.svc]
      simp [orAll]
    · intro a ha
      rcases List.mem_append.mp ha with ha | ha
      · exact h.std a ha
      · simp at ha; rw [ha]
        exact accepted_std s.sp r hr hu strict hchk
  have := hJ.length_le
  simpa [State.ids] using this

/-! ### the state invariant -/

/-- every row of the pattern is armed, its job numbers pairwise distinct and `≤ n_jobs` -/
def PatG (s : State) : Prop := ∀ p, s.pattern = some p → ∀ row ∈ p, Gd s.jobs.length row

/-- what one iteration of the table loop adds to `rd->services` (if no assertion fails) -/
def accId (sp : SPar) (M : Nat) (strict : Int) (r : Row) : Nat :=
  if r.id &&& M ≠ 0 ∧ checkServices sp r.id strict ≠ 0 then r.id else 0

theorem addOne_ne_none (ti : Nat → Nat) (M : Nat) (strict : Int) (s : State) (ri : Nat) (r : Row) (h : JInv s) :
    addOne ti M strict s ri r ≠ none := by
  intro he
  unfold addOne at he
  split at he
  · cases he
  split at he
  · cases he
  simp only [] at he
  have hj := findIdx_le (fun job => mergeable job.id r.id) s.jobs
  have h7 : s.jobs.length ≤ 7 := by simpa [State.ids] using h.length_le
  generalize (s.jobs.findIdx? (fun job => mergeable job.id r.id)).getD s.jobs.length = j at he hj
  split at he
  · rename_i h8
    have : maxJobs = 8 := rfl
    omega
  split at he
  · cases he
  split at he
  · cases he
  split at he
  · cases he
  split at he
  · cases he
  split at he <;> cases he

/-- one iteration of the table loop of `add_services`: `add_job_to_pattern` succeeds, the pattern stays `Gd`, and the
    row's id enters `rd->services` iff `check_services` accepts it -/
theorem addOne_gd (ti : Nat → Nat) (M : Nat) (strict : Int) (s : State) (ri : Nat) (r : Row) (hr : r ∈ serviceTable)
    (hM : M &&& vbiMask = 0) (hi : Inv s) (h : JInv s) (hg : PatG s)
    (hq : mergeable r.id r.id = false → r.id &&& M ≠ 0 → r.id &&& s.services = 0) :
    ∀ s', addOne ti M strict s ri r = some s' → PatG s' ∧ (s'.err = none → s.err = none) ∧
      (s'.err = none → s'.services = s.services ||| accId s.sp M strict r) := by
  intro s' he
  unfold addOne at he
  split at he
  · rename_i herr
    cases he
    refine ⟨hg, fun h1 => h1, fun h1 => ?_⟩
    rw [h1] at herr; cases herr
  rename_i herr
  have herr' : s.err = none := by
    cases hh : s.err with
    | none => rfl
    | some e => rw [hh] at herr; simp at herr
  split at he
  · rename_i hrM
    cases he
    exact ⟨hg, fun h1 => h1, fun _ => by simp [accId, hrM]⟩
  rename_i hrM
  simp only [] at he
  have hj := findIdx_le (fun job => mergeable job.id r.id) s.jobs
  have h7 : s.jobs.length ≤ 7 := by simpa [State.ids] using h.length_le
  have hroom : checkServices s.sp r.id strict ≠ 0 →
      (s.jobs.findIdx? (fun job => mergeable job.id r.id)).getD s.jobs.length + 1 ≤ 7 := by
    intro hchk
    cases hfi : s.jobs.findIdx? (fun job => mergeable job.id r.id) with
    | some j =>
      have := (List.findIdx?_eq_some_iff_getElem.mp hfi).1
      simp only [Option.getD_some]; omega
    | none =>
      simp only [Option.getD_none]
      exact new_job_room s r hr M hM hrM strict h hq hfi hchk
  generalize (s.jobs.findIdx? (fun job => mergeable job.id r.id)).getD s.jobs.length = j at he hj hroom
  split at he
  · cases he
  split at he
  · rename_i hchk
    cases he
    exact ⟨hg, fun h1 => h1, fun _ => by simp [accId, hchk]⟩
  rename_i hchk
  have hj7 := hroom hchk
  split at he
  · cases he; exact ⟨hg, fun _ => herr', fun h1 => by simp [State.fail] at h1⟩
  split at he
  · cases he; exact ⟨hg, fun _ => herr', fun h1 => by simp [State.fail] at h1⟩
  split at he
  · cases he; exact ⟨hg, fun _ => herr', fun h1 => by simp [State.fail] at h1⟩
  rename_i pat hpat
  have hpok := hi.pat pat hpat
  obtain ⟨hb1, hb2⟩ := linesContainingData_bounds s.sp r
  have hgd0 : ∀ row ∈ pat, Gd (max s.jobs.length (j + 1)) row :=
    fun row hrow => (hg pat hpat row hrow).mono (Nat.le_max_left _ _)
  obtain ⟨pat', hadd, hl', hgd'⟩ := addJobToPattern_gd j (max s.jobs.length (j + 1)) s.sp.scanLines (by omega) (by omega)
    (linesContainingData s.sp r) pat hpok.1 hgd0 hb1 hb2
  rw [hadd] at he
  simp only [] at he
  cases he
  refine ⟨?_, fun _ => herr', fun _ => by simp [accId, hrM, hchk]⟩
  intro p hp
  simp only [Option.some.injEq] at hp
  subst hp
  by_cases hjl : j < s.jobs.length
  · simp only [hjl, if_true, List.length_set]
    have : max s.jobs.length (j + 1) = s.jobs.length := by omega
    rw [← this]; exact hgd'
  · simp only [hjl, if_false, List.length_append, List.length_cons, List.length_nil]
    have : max s.jobs.length (j + 1) = s.jobs.length + 1 := by omega
    rw [← this]; exact hgd'

theorem addLoop_gd (ti : Nat → Nat) (M : Nat) (strict : Int) (hM : M &&& vbiMask = 0) :
    ∀ (l : List (Nat × Row)) (s : State), (∀ x ∈ l, x.2 ∈ serviceTable) →
      l.Pairwise (fun x y => mergeable y.2.id y.2.id = false → y.2.id &&& x.2.id = 0) →
      Inv s → JInv s → Pending M s l → PatG s → s.pattern.isSome →
      PatG (addLoop ti M strict s l) ∧
      ((addLoop ti M strict s l).err = none → s.err = none ∧
        (addLoop ti M strict s l).services = s.services ||| orAll (l.map (fun x => accId s.sp M strict x.2))) := by
  intro l
  induction l with
  | nil => intro s _ _ _ _ _ hg _; exact ⟨hg, fun h => ⟨h, by simp [addLoop, orAll]⟩⟩
  | cons x rest ih =>
    intro s hmem hpw hi h hpend hg hp
    obtain ⟨ri, r⟩ := x
    unfold addLoop
    cases he : addOne ti M strict s ri r with
    | none => exact absurd he (addOne_ne_none ti M strict s ri r h)
    | some s' =>
      simp only []
      have hq := fun h1 h2 => hpend (ri, r) (by simp) h1 h2
      obtain ⟨h', _, hsv⟩ := addOne_jok ti M strict s ri r (hmem (ri, r) (by simp)) hM h hq s' he
      obtain ⟨hi', hp', hsp⟩ := addOne_inv ti M strict s ri r hi hp s' he
      obtain ⟨hg', herr1, hsvc⟩ := addOne_gd ti M strict s ri r (hmem (ri, r) (by simp)) hM hi h hg hq s' he
      rw [List.pairwise_cons] at hpw
      have hpend' : Pending M s' rest := by
        intro y hy h1 h2
        have hy0 := hpend y (by simp [hy]) h1 h2
        rcases hsv with hsv | hsv
        · rw [hsv]; exact hy0
        · rw [hsv, and_or_zero]
          exact ⟨hy0, hpw.1 y hy h1⟩
      obtain ⟨g2, f2⟩ := ih s' (fun y hy => hmem y (by simp [hy])) hpw.2 hi' h' hpend' hg' hp'
      refine ⟨g2, fun hend => ?_⟩
      obtain ⟨e1, e2⟩ := f2 hend
      refine ⟨herr1 e1, ?_⟩
      rw [e2, hsvc e1, hsp]
      simp only [List.map_cons, orAll, Nat.or_assoc]

theorem orAll_zero (l : List Nat) (h : ∀ x ∈ l, x = 0) : orAll l = 0 := by
  induction l with
  | nil => rfl
  | cons x xs ih =>
    simp only [orAll]
    rw [h x (by simp), ih (fun y hy => h y (by simp [hy]))]
    rfl

/-- the services `add_services` accepts from the (masked) request `M` -/
def acceptedSet (sp : SPar) (M : Nat) (strict : Int) : Nat := orAll (enumTable.map (fun x => accId sp M strict x.2))

theorem addServices_gd (ti : Nat → Nat) (s : State) (sv : Nat) (strict : Int) (hi : Inv s) (h : JInv s) (hg : PatG s) :
    PatG (addServices ti s sv strict) ∧
    ((addServices ti s sv strict).err = none →
      (addServices ti s sv strict).services = s.services ||| acceptedSet s.sp (maskServices s sv) strict) := by
  unfold addServices
  split
  · rename_i herr
    refine ⟨hg, fun h1 => ?_⟩
    rw [h1] at herr; cases herr
  unfold addServicesCore
  split
  · rename_i hz
    refine ⟨hg, fun _ => ?_⟩
    have : acceptedSet s.sp (maskServices s sv) strict = 0 := by
      apply orAll_zero
      intro x hx
      obtain ⟨y, _, rfl⟩ := List.mem_map.mp hx
      simp [accId, hz]
    rw [this]; simp
  obtain ⟨hM, hS⟩ := maskServices_spec s sv h
  have hstart : ∀ s1 : State, s1.jobs = s.jobs → s1.services = s.services → s1.sp = s.sp → Inv s1 → PatG s1 →
      s1.pattern.isSome →
      PatG (addLoop ti (maskServices s sv) strict s1 enumTable) ∧
      ((addLoop ti (maskServices s sv) strict s1 enumTable).err = none →
        (addLoop ti (maskServices s sv) strict s1 enumTable).services =
          s.services ||| acceptedSet s.sp (maskServices s sv) strict) := by
    intro s1 e1 e2 e3 hi1 hg1 hp1
    have hj1 : JInv s1 := by unfold JInv State.ids State.std; rw [e1, e2, e3]; exact h
    have hpend : Pending (maskServices s sv) s1 enumTable := by
      intro x hx hself hxM
      obtain ⟨b, _, hb⟩ := T_single x.2 (T_enum_mem x hx) hself
      rw [hb] at hxM ⊢
      rw [e2]
      exact bit_disjoint b _ _ hxM hS
    obtain ⟨g, f⟩ := addLoop_gd ti _ strict hM enumTable s1 T_enum_mem T_later_disjoint hi1 hj1 hpend hg1 hp1
    refine ⟨g, fun hend => ?_⟩
    rw [(f hend).2, e2, e3]
    rfl
  cases hp : s.pattern with
  | some p => simp only []; exact hstart s rfl rfl rfl hi hg (by rw [hp]; rfl)
  | none =>
    simp only []
    refine hstart { s with pattern := some (List.replicate s.sp.scanLines blankRow) } rfl rfl rfl ?_ ?_ ?_
    · exact ⟨hi.jobsLe, by intro p hp'; simp only [Option.some.injEq] at hp'; subst hp'; exact patOK_blank _ _, hi.noIdx,
        fun _ => rfl⟩
    · intro p hp' row hrow
      simp only [Option.some.injEq] at hp'
      subst hp'
      rw [List.mem_replicate] at hrow
      rw [hrow.2]
      exact blankRow_gd _
    · rfl

/-! ### remove, decode -/

theorem removeLoop_gd (fx : Fixes) (hmk : fx.marker = true) :
    ∀ (fuel services jobNum : Nat) (jobs : List Job) (pat : Option Pattern) (acc : Nat),
      (∀ p, pat = some p → ∀ row ∈ p, Gd jobs.length row) →
      (∀ p, (removeLoop fx fuel services jobNum jobs pat acc).2.1 = some p →
        ∀ row ∈ p, Gd (removeLoop fx fuel services jobNum jobs pat acc).1.length row) := by
  intro fuel
  induction fuel with
  | zero => intro services jobNum jobs pat acc h; exact h
  | succ fuel ih =>
    intro services jobNum jobs pat acc h
    unfold removeLoop
    split
    · exact h
    rename_i hlt
    simp only []
    split
    · exact h
    split
    · apply ih
      intro p hp row hrow
      cases hpat : pat with
      | none => rw [hpat] at hp; cases hp
      | some p0 =>
        rw [hpat] at hp
        simp only [Option.map_some, Option.some.injEq] at hp
        subst hp
        rw [List.mem_map] at hrow
        obtain ⟨row0, hr0, rfl⟩ := hrow
        rw [shiftJobs_len, hmk]
        exact removeRow_gd _ (h p0 hpat row0 hr0) (by omega) (by omega)
    · exact ih _ (jobNum + 1) jobs pat acc h

theorem removeServices_gd (fx : Fixes) (hmk : fx.marker = true) (s : State) (sv : Nat) (hg : PatG s) :
    PatG (removeServices fx s sv) := by
  unfold removeServices
  split
  · exact hg
  · exact removeLoop_gd fx hmk (2 * s.jobs.length + 1) sv 0 s.jobs s.pattern sv hg

theorem rowsRel_right_of_left {n : Nat} {a b : List PRow} (h : RowsRel n a b) (hg : ∀ r ∈ a, Gd n r) : ∀ r ∈ b, Gd n r := by
  induction h with
  | nil => intro r hr; cases hr
  | cons hr _ ih =>
    intro r hmem
    rcases List.mem_cons.mp hmem with rfl | h'
    · exact gd_of_rel hr (hg _ (by simp))
    · exact ih (fun r' hr' => hg r' (by simp [hr'])) r h'

theorem decodeFrame_gd (s : State) (m : Nat) (sl : Slicer) (hi : Inv s) (hg : PatG s) : PatG (decodeFrame s m sl).1 := by
  by_cases herr : s.err = none
  · by_cases hsv : s.services = 0
    · have : (decodeFrame s m sl).1 = s := by
        unfold decodeFrame
        have h1 : s.err.isSome = false := by rw [herr]; rfl
        simp [h1, hsv]
      rw [this]; exact hg
    · have hps := hi.svcPat hsv
      cases hp : s.pattern with
      | none => rw [hp] at hps; cases hps
      | some p =>
        obtain ⟨p', hp', hrr, hj, _⟩ := decodeFrame_h s m sl herr hsv p hp
          (fun r hr => ⟨(hi.pat p hp).2 r hr, (hg p hp r hr).armed⟩)
        intro q hq row hrow
        rw [hp'] at hq
        cases hq
        rw [← hj.length]
        exact rowsRel_right_of_left hrr (hg p hp) row hrow
  · have : (decodeFrame s m sl).1 = s := by
      unfold decodeFrame
      have h1 : s.err.isSome = true := by
        cases hh : s.err with
        | none => exact absurd hh herr
        | some e => rfl
      simp [h1]
    rw [this]; exact hg

theorem step_gd (fx : Fixes) (hmk : fx.marker = true) (ti : Nat → Nat) (s : State) (op : Op)
    (hi : Inv s) (h : JInv s) (hg : PatG s) : PatG (step fx ti s op) := by
  cases op with
  | add sv st => exact (addServices_gd ti s sv st hi h hg).1
  | remove sv => exact removeServices_gd fx hmk s sv hg
  | reset =>
    simp only [step]
    split
    · exact hg
    · intro p hp; simp [reset] at hp
  | decode m sl => exact decodeFrame_gd s m sl hi hg

/-- after every history of the repaired code: every row of the pattern is armed and lists pairwise distinct jobs -/
theorem run_gd (fx : Fixes) (hja : fx.jobAdvance = true) (hm : fx.merged = true) (hmk : fx.marker = true) (ti : Nat → Nat)
    (sp : SPar) (ops : List Op) : PatG (run fx ti sp ops) := by
  unfold run
  have : ∀ (ops : List Op) (s : State), Inv s → JInv s → PatG s → PatG (ops.foldl (step fx ti) s) := by
    intro ops
    induction ops with
    | nil => intro s _ _ h; exact h
    | cons op rest ih =>
      intro s hi h hg
      exact ih _ (step_inv fx ti s op hi).1 (step_jok fx hja hm ti s op hi h) (step_gd fx hmk ti s op hi h hg)
  exact this ops (init sp) (inv_init sp) (jinv_init sp) (by intro p hp; simp [init] at hp)

end Zvbi.Rawdec
