import ZvbiModel.Rawdec.Model
import ZvbiModel.Generated.RawdecFromSvc
/-!
# Model of `_vbi_sampling_par_from_services_log` (`src/sampling_par.c`), 0.2 branch

The function computes sampling parameters that are meant to cover a set of services: sampling rate 27 MHz, 8 bit luma,
sequential fields, field order known, the horizontal window `[offset, offset + samples_per_line)` and the scan line
ranges `start[f] .. start[f] + count[f] - 1` as the union over the requested table rows of the video standard.

* `videostd_set_req` enters through the two families only (`fam`: 0 = none given, 1 = 625 line set, 2 = 525 line set,
  3 = both: "ambiguous", the function returns 0) - the table rows carry exactly the family masks.
* the per-row `double` arithmetic is not modelled: `offset` and `samples` of every table row are regenerated from the C
  expressions by `translate/gen_rawdecfromsvc.py` (`Generated.RawdecFromSvc.fsConsts`).
* `fixed` selects the shape of the scan line range update (`Generated.RawdecFromSvc.fsEndFixed` says which one /repo
  has): released - `start` is lowered first and the OLD end `start + count` is computed from the new start; repaired -
  the end is computed first.
-/
namespace Zvbi.Rawdec
open Zvbi.Generated.ServiceTable Zvbi.Generated.RawdecFromSvc

structure FsAcc where
  vstd : Nat
  offset : Nat
  spl : Nat
  start0 : Nat
  count0 : Nat
  start1 : Nat
  count1 : Nat
  rate : Nat := 0
  rsv : Nat := 0
  deriving Repr, DecidableEq

/-- body of `for (i = 0; i < 2; ++i) if (par->first[i] > 0 && par->last[i] > 0) { ... }` for one field -/
def fsField (fixed : Bool) (start count first last : Nat) : Nat × Nat :=
  if first > 0 ∧ last > 0 then
    let start' := min start first
    if fixed then
      let e := max (if count > 0 then start + count else 0) (last + 1)
      (start', e - start')
    else (start', max (start' + count) (last + 1) - start')
  else (start, count)

/-- `videostd_set` after the `if (0 == videostd_set_req) { ... }` block -/
def fsVstd (fam : Nat) (a : FsAcc) (r : Row) : Nat :=
  if fam = 0 then
    let set := r.videostd ||| a.vstd
    -- `0 == (set & ~VBI_VIDEOSTD_SET_525_60) || 0 == (set & ~VBI_VIDEOSTD_SET_625_50)`
    if set &&& videostd625 = 0 ∨ set &&& videostd525 = 0 then a.vstd ||| r.videostd else a.vstd
  else a.vstd

/-- the row contributes to the result -/
def fsTakes (fam services : Nat) (a : FsAcc) (r : Row) : Bool :=
  decide (r.id &&& services ≠ 0) && decide (r.videostd &&& fsVstd fam a r ≠ 0)

/-- one iteration of the table loop; `c` = (`offset`, `samples`) of the row -/
def fsStep (fixed : Bool) (fam services : Nat) (a : FsAcc) (r : Row) (c : Nat × Nat) : FsAcc :=
  if r.id &&& services = 0 then a
  else if r.videostd &&& fsVstd fam a r = 0 then { a with vstd := fsVstd fam a r }
  else
    let offset := min a.offset c.1
    let f0 := fsField fixed a.start0 a.count0 r.first0 r.last0
    let f1 := fsField fixed a.start1 a.count1 r.first1 r.last1
    { vstd := fsVstd fam a r, offset := offset, spl := max (a.spl + offset) (c.2 + c.1) - offset,
      start0 := f0.1, count0 := f0.2, start1 := f1.1, count1 := f1.2,
      rate := max (max a.rate r.criRate) r.bitRate, rsv := a.rsv ||| r.id }

/-- the table loop; second component: the rows that contributed, in table order -/
def fsTrace (fixed : Bool) (fam services : Nat) : List (Row × (Nat × Nat)) → FsAcc → FsAcc × List Row
  | [], a => (a, [])
  | x :: rest, a =>
    let res := fsTrace fixed fam services rest (fsStep fixed fam services a x.1 x.2)
    (res.1, if fsTakes fam services a x.1 then x.1 :: res.2 else res.2)

def fsInit (fam : Nat) : FsAcc :=
  { vstd := fam, offset := fsOffset0, spl := 0, start0 := fsStart0, count0 := 0, start1 := fsStart0, count1 := 0 }

/-- `CLEAR_SAMPLING_PAR` -/
def fsCleared : SPar := ⟨0, 0, 0, 0, 0, 0, 0, 0, 0, false, false⟩

/-- the sampling parameters written after the loop -/
def fsFinal (a : FsAcc) : SPar :=
  let start1 := if a.count1 = 0 then 0 else a.start1
  let start0 := if a.count0 = 0 then 0 else a.start0
  let offset := if a.count1 = 0 ∧ a.count0 = 0 then 0 else a.offset
  { scanning := if a.vstd &&& videostd525 ≠ 0 then 525 else 625, fmt := 1, rate := fsRate, bpl := max 1440 a.spl,
    offset := offset, start0 := start0, count0 := a.count0, start1 := start1, count1 := a.count1,
    interlaced := false, synchronous := true }

/-- `_vbi_sampling_par_from_services_log`: (returned services, `*sp`, `*max_rate`, rows that contributed) -/
def fromServices (fixed : Bool) (fam services : Nat) : Nat × SPar × Nat × List Row :=
  if fam ≥ 3 then (0, fsCleared, 0, [])
  else
    let res := fsTrace fixed fam services (serviceTable.zip fsConsts) (fsInit fam)
    if res.1.rsv = 0 then (0, fsCleared, 0, []) else (res.1.rsv, fsFinal res.1, res.1.rate, res.2)

end Zvbi.Rawdec
