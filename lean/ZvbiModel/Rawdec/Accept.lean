import ZvbiModel.Rawdec.Distinct3
/-!
# Lemmas for C04 (round 5), part 4: `check_services (request)` is contained in what `add_services` accepts
-/
namespace Zvbi.Rawdec
open Zvbi.Generated.ServiceTable

/-- what one table row contributes to `_vbi_sampling_par_check_services_log (sp, M, strict)` -/
def chkId (sp : SPar) (M : Nat) (strict : Int) (r : Row) : Nat :=
  if r.id &&& M = 0 then 0 else if permitService sp r strict then r.id else 0

theorem checkFold_eq (sp : SPar) (M : Nat) (strict : Int) : ∀ (l : List Row) (acc : Nat),
    l.foldl (fun acc r => if r.id &&& M = 0 then acc else if permitService sp r strict then acc ||| r.id else acc) acc
      = acc ||| orAll (l.map (chkId sp M strict))
  | [], acc => by simp [orAll]
  | r :: rs, acc => by
    simp only [List.foldl_cons, List.map_cons, orAll]
    rw [checkFold_eq sp M strict rs, ← Nat.or_assoc]
    congr 1
    unfold chkId
    by_cases h1 : r.id &&& M = 0
    · simp [h1]
    · by_cases h2 : permitService sp r strict = true <;> simp [h1, h2]

theorem checkServices_eq (sp : SPar) (M : Nat) (strict : Int) :
    checkServices sp M strict = orAll (serviceTable.map (chkId sp M strict)) := by
  unfold checkServices
  rw [checkFold_eq]; simp

theorem or_sub_or {a b c d : Nat} (h1 : a &&& c = a) (h2 : b &&& d = b) : (a ||| b) &&& (c ||| d) = a ||| b := by
  apply Nat.eq_of_testBit_eq
  intro i
  have e1 : (a &&& c).testBit i = a.testBit i := by rw [h1]
  have e2 : (b &&& d).testBit i = b.testBit i := by rw [h2]
  simp only [Nat.testBit_and, Nat.testBit_or] at *
  cases ha : a.testBit i <;> cases hb : b.testBit i <;> cases hc : c.testBit i <;> cases hd : d.testBit i <;> simp_all

theorem orAll_sub_orAll (f g : Row → Nat) : ∀ (l : List Row), (∀ r ∈ l, f r &&& g r = f r) →
    orAll (l.map f) &&& orAll (l.map g) = orAll (l.map f)
  | [], _ => by simp [orAll]
  | r :: rs, h => by
    simp only [List.map_cons, orAll]
    exact or_sub_or (h r (by simp)) (orAll_sub_orAll f g rs (fun x hx => h x (by simp [hx])))

/-- a permitted row passes the test `add_services` makes -/
theorem permitted_row_accepted (sp : SPar) (strict : Int) (r : Row) (hr : r ∈ serviceTable) (h0 : r.id ≠ 0)
    (hp : permitService sp r strict = true) : checkServices sp r.id strict ≠ 0 := by
  intro hz
  rw [checkServices_eq] at hz
  have hmem : chkId sp r.id strict r ∈ serviceTable.map (chkId sp r.id strict) := List.mem_map.mpr ⟨r, hr, rfl⟩
  have := mem_sub_orAll hmem
  rw [hz, Nat.and_zero] at this
  unfold chkId at this
  rw [Nat.and_self] at this
  simp [h0, hp] at this
  exact h0 this.symm

end Zvbi.Rawdec
