import ZvbiModel.Rawdec.Lemmas5
/-!
# Lemmas for C04 (round 2): line numbers, fields and the storage order of the two fields

`lineOf` (Rawdec/Model.lean) is the value `decode_pattern` stores in `sliced->line` for row `i` of the image;
`Zvbi.Slicer.lineOffset` (C05: proved equal to the pointer arithmetic of `vbi3_raw_decoder_decode`) is where that row
starts in the image.  Here: what `_vbi_sampling_par_valid_log` guarantees (`valid_spec`), and for every accepted
(start[2], count[2], interlaced, synchronous): which memory line a row is, which field it belongs to, which ITU-R
line number it gets.
-/
namespace Zvbi.Rawdec
open Zvbi.Generated.ServiceTable
open Zvbi.Slicer (U32)

/-- first / last line of field `f` (0, 1) in the line system -/
def fieldLo (scanning f : Nat) : Nat := if f = 0 then 1 else (if scanning = 525 then 263 else 312)
def fieldHi (scanning f : Nat) : Nat :=
  if f = 0 then (if scanning = 525 then 262 else 311) else (if scanning = 525 then 525 else 625)

/-- what `_vbi_sampling_par_valid_log` (0.2 branch) establishes; all fields are C `int`s (`< 2^31`) -/
theorem valid_spec (sp : SPar) (hv : sp.valid = true) (hc0 : sp.count0 < 2147483648) (hc1 : sp.count1 < 2147483648)
    (hs0 : sp.start0 < 2147483648) (hs1 : sp.start1 < 2147483648) :
    (sp.scanning = 525 ∨ sp.scanning = 625) ∧ sp.bpl ≠ 0 ∧ 0 < sp.scanLines ∧
    (sp.start0 ≠ 0 → fieldLo sp.scanning 0 ≤ sp.start0 ∧ sp.start0 + sp.count0 ≤ fieldHi sp.scanning 0) ∧
    (sp.start1 ≠ 0 → fieldLo sp.scanning 1 ≤ sp.start1 ∧ sp.start1 + sp.count1 ≤ fieldHi sp.scanning 1) ∧
    (sp.interlaced = true → sp.count0 = sp.count1 ∧ 0 < sp.count0) := by
  unfold SPar.valid at hv
  simp only [videostdOfScanning, videostd525, videostd625, rangeCheck, U32, fieldLo, fieldHi, SPar.scanLines] at hv ⊢
  by_cases h5 : sp.scanning = 525
  · simp [h5] at hv ⊢
    obtain ⟨⟨⟨⟨_, hb⟩, hz⟩, hr0, hr1⟩, hi⟩ := hv
    refine ⟨hb, by omega, ?_, ?_, ?_⟩
    · intro h0
      rcases hr0 with hr0 | ⟨⟨ha, hd⟩, hc⟩
      · exact absurd hr0 h0
      · have := of_decide_eq_true hd; omega
    · intro h1
      rcases hr1 with hr1 | ⟨⟨ha, hd⟩, hc⟩
      · exact absurd hr1 h1
      · have := of_decide_eq_true hd; omega
    · intro hil
      rcases hi with hi | hi
      · rw [hil] at hi; cases hi
      · omega
  · by_cases h6 : sp.scanning = 625
    · simp [h6] at hv ⊢
      obtain ⟨⟨⟨⟨_, hb⟩, hz⟩, hr0, hr1⟩, hi⟩ := hv
      refine ⟨hb, by omega, ?_, ?_, ?_⟩
      · intro h0
        rcases hr0 with hr0 | ⟨⟨ha, hd⟩, hc⟩
        · exact absurd hr0 h0
        · have := of_decide_eq_true hd; omega
      · intro h1
        rcases hr1 with hr1 | ⟨⟨ha, hd⟩, hc⟩
        · exact absurd hr1 h1
        · have := of_decide_eq_true hd; omega
      · intro hil
        rcases hi with hi | hi
        · rw [hil] at hi; cases hi
        · omega
    · simp [h5, h6] at hv

/-- field (0 = first, 1 = second) a row of the image belongs to; the same for both storage orders -/
def fieldOf (sp : SPar) (i : Nat) : Nat := if i < sp.count0 then 0 else 1
/-- index of the row inside its field -/
def idxInField (sp : SPar) (i : Nat) : Nat := if i < sp.count0 then i else i - sp.count0

/-- memory line (units of `bytes_per_line`) at which row `i` is stored: fields one after the other, or interleaved -/
def memLine (sp : SPar) (i : Nat) : Nat :=
  if sp.interlaced then 2 * idxInField sp i + fieldOf sp i else i

def toSp (sp : SPar) : Zvbi.Slicer.Sp := ⟨sp.count0, sp.count1, sp.bpl, sp.interlaced⟩

/-- the pointer `vbi3_raw_decoder_decode` hands to `decode_pattern` for row `i` is the start of memory line `memLine` -/
theorem lineOffset_memLine (sp : SPar) (i : Nat) : Zvbi.Slicer.lineOffset (toSp sp) i = memLine sp i * sp.bpl := by
  unfold Zvbi.Slicer.lineOffset memLine idxInField fieldOf toSp
  cases hil : sp.interlaced
  · simp
  · by_cases hi : i < sp.count0
    · simp [hi]; rw [Nat.mul_comm sp.bpl 2, ← Nat.mul_assoc, Nat.mul_comm i 2]
    · simp [hi]; rw [Nat.add_mul, Nat.mul_comm sp.bpl 2, ← Nat.mul_assoc, Nat.mul_comm (i - sp.count0) 2]; omega

/-- `sliced->line` in terms of field and index -/
theorem lineOf_field (sp : SPar) (i : Nat) :
    lineOf sp i = if sp.synchronous = true ∧ sp.start (fieldOf sp i) ≠ 0 then sp.start (fieldOf sp i) + idxInField sp i else 0 := by
  unfold lineOf fieldOf idxInField SPar.start
  by_cases hi : i < sp.count0
  · have : ¬ (i ≥ sp.count0) := by omega
    simp [hi, this]
  · have : i ≥ sp.count0 := by omega
    simp only [hi, this, if_true, if_false, show ¬ ((1 : Nat) = 0) from by omega]
    split <;> omega

end Zvbi.Rawdec
