import ZvbiModel.Rawdec.Blank
import ZvbiModel.Rawdec.Lemmas5
/-!
# Lemmas for C04 round 3, part 1: one `decode_pattern` call on an armed row tries every listed job
-/
namespace Zvbi.Rawdec
open Zvbi.Generated.ServiceTable

/-- `RowArmed` of an explicit row: a chain of implications between neighbours, and the marker -/
theorem armed8_iff (a0 a1 a2 a3 a4 a5 a6 a7 : Int) :
    RowArmed [a0, a1, a2, a3, a4, a5, a6, a7] ↔
      ((0 < a1 → 0 < a0) ∧ (0 < a2 → 0 < a1) ∧ (0 < a3 → 0 < a2) ∧ (0 < a4 → 0 < a3) ∧ (0 < a5 → 0 < a4) ∧
       (0 < a6 → 0 < a5) ∧ (0 < a7 → 0 < a6) ∧ (0 < a0 → a7 < 0)) := by
  constructor
  · intro h
    have c := h.compact
    have m := h.marker
    refine ⟨?_, ?_, ?_, ?_, ?_, ?_, ?_, ?_⟩
    · simpa using c 0 1 (by omega) (by omega)
    · simpa using c 1 2 (by omega) (by omega)
    · simpa using c 2 3 (by omega) (by omega)
    · simpa using c 3 4 (by omega) (by omega)
    · simpa using c 4 5 (by omega) (by omega)
    · simpa using c 5 6 (by omega) (by omega)
    · simpa using c 6 7 (by omega) (by omega)
    · simpa using m
  · intro ⟨c1, c2, c3, c4, c5, c6, c7, m⟩
    refine ⟨?_, by simpa using m⟩
    intro p q hpq hq
    have hq' : q = 1 ∨ q = 2 ∨ q = 3 ∨ q = 4 ∨ q = 5 ∨ q = 6 ∨ q = 7 := by omega
    rcases hq' with rfl | rfl | rfl | rfl | rfl | rfl | rfl <;>
    · simp only [List.getD_cons_succ, List.getD_cons_zero]
      intro hpos
      have hp' : p = 0 ∨ p = 1 ∨ p = 2 ∨ p = 3 ∨ p = 4 ∨ p = 5 ∨ p = 6 := by omega
      rcases hp' with rfl | rfl | rfl | rfl | rfl | rfl | rfl <;>
        first
        | (exfalso; omega)
        | (simp only [List.getD_cons_succ, List.getD_cons_zero]; omega)

theorem blankRow_armed : RowArmed blankRow := by decide

/-- the matched job moves to way 0 and the marker is set: still armed -/
theorem mtf_match_armed (a0 a1 a2 a3 a4 a5 a6 a7 : Int) (p : Nat) (hp : p < 7) (j : Int)
    (hj : [a0, a1, a2, a3, a4, a5, a6, a7].getD p 0 = j) (hj0 : 0 < j)
    (ha : RowArmed [a0, a1, a2, a3, a4, a5, a6, a7]) :
    RowArmed (moveToFront ([a0, a1, a2, a3, a4, a5, a6, a7].set (maxWays - 1) (-128)) p j) := by
  rw [armed8_iff] at ha
  obtain ⟨c1, c2, c3, c4, c5, c6, c7, m⟩ := ha
  have hp' : p = 0 ∨ p = 1 ∨ p = 2 ∨ p = 3 ∨ p = 4 ∨ p = 5 ∨ p = 6 := by omega
  rcases hp' with rfl | rfl | rfl | rfl | rfl | rfl | rfl <;>
  · simp only [List.getD_cons_succ, List.getD_cons_zero] at hj
    subst hj
    simp only [moveToFront, maxWays_eq, List.set_cons_succ, List.set_cons_zero, List.getD_cons_zero,
      show (8 - 1 : Nat) = 7 from rfl]
    rw [armed8_iff]
    refine ⟨?_, ?_, ?_, ?_, ?_, ?_, ?_, ?_⟩ <;> omega

/-- rotating a row without jobs -/
theorem rotate_armed (a0 a1 a2 a3 a4 a5 a6 a7 : Int) (h0 : a0 ≤ 0) (ha : RowArmed [a0, a1, a2, a3, a4, a5, a6, a7]) :
    RowArmed (rotateRow [a0, a1, a2, a3, a4, a5, a6, a7]) := by
  rw [armed8_iff] at ha
  obtain ⟨c1, c2, c3, c4, c5, c6, c7, m⟩ := ha
  simp only [rotateRow, List.cons_append, List.nil_append]
  rw [armed8_iff]
  refine ⟨?_, ?_, ?_, ?_, ?_, ?_, ?_, ?_⟩ <;> omega

theorem getD_eq_getElem' (row : PRow) (p : Nat) (hp : p < row.length) : row.getD p 0 = row[p] := by
  rw [List.getD_eq_getElem?_getD, List.getElem?_eq_getElem hp]; rfl

/-- behind the first free way of an armed row there is no job -/
theorem jobsOf_drop_nil (row : PRow) (hlen : row.length = 8) (ha : RowArmed row) (p : Nat) (hp : p < 8)
    (hfree : row.getD p 0 ≤ 0) : jobsOf (row.drop p) = [] := by
  unfold jobsOf
  rw [List.filter_eq_nil_iff]
  intro x hx
  obtain ⟨k, hk, rfl⟩ := List.mem_iff_getElem.mp hx
  rw [List.length_drop] at hk
  rw [List.getElem_drop]
  have hq : p + k < row.length := by omega
  have := getD_eq_getElem' row (p + k) hq
  rw [← this]
  simp only [decide_eq_true_eq]
  intro hpos
  by_cases hk0 : k = 0
  · subst hk0; rw [Nat.add_zero] at hpos; omega
  · have := ha.compact p (p + k) (by omega) (by omega) hpos
    omega

theorem jobsOf_drop_cons (row : PRow) (p : Nat) (hp : p < row.length) (hpos : 0 < row[p]) :
    jobsOf (row.drop p) = row[p] :: jobsOf (row.drop (p + 1)) := by
  rw [List.drop_eq_getElem_cons hp]
  unfold jobsOf
  rw [List.filter_cons]
  simp [hpos]

/-- **one call of `decode_pattern` on an armed row**: it returns inside the row, the row stays armed, and what it does
    to the jobs and what it reports is exactly `tryJobs` over the jobs listed from way `p` on -/
theorem decodeWays_armed (sp : SPar) (rj : Nat) (sl : Nat → Job → Option (List Nat) × Nat) (i : Nat) :
    ∀ (fuel p : Nat) (row : PRow) (jobs : List Job), fuel + p = 8 → RowOK jobs.length row → RowArmed row →
      (∀ q, q < p → 0 < row.getD q 0) →
      ∃ row' jobs' rec, decodeWays sp rj sl i fuel p row jobs = .ok (row', jobs', rec) ∧ RowArmed row' ∧
        jobs' = (tryJobs sl (jobsOf (row.drop p)) jobs).2 ∧
        rec = (tryJobs sl (jobsOf (row.drop p)) jobs).1.map
          (fun m => ({ id := m.2.1.id, line := lineOf sp i, data := m.2.2 } : Rec)) := by
  intro fuel
  induction fuel with
  | zero =>
    intro p row jobs hf hok _ hpre
    exfalso
    obtain ⟨x, hx, hx0⟩ := hok.free
    obtain ⟨q, hq, hqx⟩ := getD_of_mem8 hok.len hx
    have := hpre q (by omega)
    omega
  | succ fuel ih =>
    intro p row jobs hf hok ha hpre
    have hp : p < row.length := by rw [hok.len]; omega
    have hjv := getD_eq_getElem' row p hp
    unfold decodeWays
    rw [List.getElem?_eq_getElem hp]
    simp only []
    by_cases hj : row[p] > 0
    · rw [if_pos hj]
      have hjb := hok.bound row[p] (List.getElem_mem hp)
      have hk : row[p].toNat - 1 < jobs.length := by omega
      rw [List.getElem?_eq_getElem hk]
      simp only []
      rw [jobsOf_drop_cons row p hp hj]
      cases hres : (sl (row[p].toNat - 1) jobs[row[p].toNat - 1]).1 with
      | none =>
        have hlen' : (jobs.set (row[p].toNat - 1) { jobs[row[p].toNat - 1] with
            thresh := (sl (row[p].toNat - 1) jobs[row[p].toNat - 1]).2 }).length = jobs.length := by simp
        obtain ⟨row', jobs', rec, he, ha', hjobs, hrec⟩ :=
          ih (p + 1) row (jobs.set (row[p].toNat - 1) { jobs[row[p].toNat - 1] with
            thresh := (sl (row[p].toNat - 1) jobs[row[p].toNat - 1]).2 }) (by omega) (by rw [hlen']; exact hok) ha
            (by
              intro q hq
              by_cases hqp : q = p
              · subst hqp; rw [hjv]; exact hj
              · exact hpre q (by omega))
        refine ⟨row', jobs', rec, ?_, ha', ?_, ?_⟩
        · rw [← he]
          try simp [hres]
        · rw [hjobs]
          simp only [tryJobs, List.getElem?_eq_getElem hk, hres]
        · rw [hrec]
          simp only [tryJobs, List.getElem?_eq_getElem hk, hres]
      | some data =>
        obtain ⟨a0, a1, a2, a3, a4, a5, a6, a7, rfl⟩ := row8 row hok.len
        obtain ⟨x, hx, hx0⟩ := hok.free
        obtain ⟨q, hq, hqx⟩ := getD_of_mem8 hok.len hx
        have hqp : p < q := by
          rcases Nat.lt_trichotomy q p with h | h | h
          · have := hpre q h; omega
          · subst h; rw [hjv] at hqx; omega
          · exact h
        have hp7 : p < 7 := by omega
        refine ⟨_, _, _, rfl, mtf_match_armed a0 a1 a2 a3 a4 a5 a6 a7 p hp7 _ hjv hj ha, ?_, ?_⟩
        · simp only [tryJobs, List.getElem?_eq_getElem hk, hres]
        · simp only [tryJobs, List.getElem?_eq_getElem hk, hres, Option.map_some]
    · rw [if_neg hj]
      have hfree : row.getD p 0 ≤ 0 := by rw [hjv]; omega
      have hnil := jobsOf_drop_nil row hok.len ha p (by omega) hfree
      rw [hnil]
      obtain ⟨a0, a1, a2, a3, a4, a5, a6, a7, rfl⟩ := row8 row hok.len
      by_cases hp0 : p = 0
      · subst hp0
        simp only [if_true]
        have h0 : a0 ≤ 0 := by simpa using hj
        by_cases hr : rj = 0
        · rw [if_pos hr]
          exact ⟨_, _, _, rfl, rotate_armed a0 a1 a2 a3 a4 a5 a6 a7 h0 ha, rfl, rfl⟩
        · rw [if_neg hr]
          exact ⟨_, _, _, rfl, ha, rfl, rfl⟩
      · rw [if_neg hp0]
        simp only [maxWays_eq]
        simp only [show (8 - 1 : Nat) = 7 from rfl, List.getElem?_cons_succ, List.getElem?_cons_zero]
        have h0pos := hpre 0 (by omega)
        have h7 := ha.marker h0pos
        simp only [List.getD_cons_succ, List.getD_cons_zero] at h7
        rw [if_pos h7]
        exact ⟨_, _, _, rfl, ha, rfl, rfl⟩

end Zvbi.Rawdec
