import ZvbiModel.Rawdec.Lemmas5
/-!
# Lemmas for C04 (round 2): bit-set algebra on service sets (`vbi_service_set` = `unsigned int`)

Small library over `Nat` bit operations, proved bit by bit (`Nat.testBit`): union of the ids of a job list
(`orAll`), disjointness, the 32 bit complement `~x` as the model writes it (`U32 - 1 - x`).
-/
namespace Zvbi.Rawdec
open Zvbi.Slicer (U32)

/-- union of a list of service sets -/
def orAll : List Nat → Nat
  | [] => 0
  | x :: xs => x ||| orAll xs

theorem foldl_or_init (l : List Nat) (a : Nat) : l.foldl (· ||| ·) a = a ||| orAll l := by
  induction l generalizing a with
  | nil => simp [orAll]
  | cons x xs ih => simp only [List.foldl_cons, orAll]; rw [ih, Nat.or_assoc]

theorem foldl_or_eq (l : List Nat) : l.foldl (· ||| ·) 0 = orAll l := by
  rw [foldl_or_init]; simp

theorem or_and_zero {a b c : Nat} : (a ||| b) &&& c = 0 ↔ a &&& c = 0 ∧ b &&& c = 0 := by
  rw [Nat.and_or_distrib_right, Nat.or_eq_zero_iff]

theorem and_or_zero {a b c : Nat} : c &&& (a ||| b) = 0 ↔ c &&& a = 0 ∧ c &&& b = 0 := by
  rw [Nat.and_comm c, Nat.and_comm c a, Nat.and_comm c b]; exact or_and_zero

theorem orAll_and_zero {l : List Nat} {c : Nat} : orAll l &&& c = 0 ↔ ∀ x ∈ l, x &&& c = 0 := by
  induction l with
  | nil => simp [orAll]
  | cons x xs ih => simp only [orAll, or_and_zero, ih, List.mem_cons, forall_eq_or_imp]

theorem orAll_append (a b : List Nat) : orAll (a ++ b) = orAll a ||| orAll b := by
  induction a with
  | nil => simp [orAll]
  | cons x xs ih => simp only [List.cons_append, orAll, ih, Nat.or_assoc]

theorem orAll_lt {l : List Nat} (h : ∀ x ∈ l, x < U32) : orAll l < U32 := by
  induction l with
  | nil => simp [orAll, U32]
  | cons x xs ih =>
    simp only [orAll]
    exact Nat.or_lt_two_pow (n := 32) (h x (by simp)) (ih (fun y hy => h y (by simp [hy])))

/-- replacing entry `j` by `entry ||| y` adds `y` to the union -/
theorem orAll_set_or (l : List Nat) (j : Nat) (x y : Nat) (h : l[j]? = some x) :
    orAll (l.set j (x ||| y)) = orAll l ||| y := by
  induction l generalizing j with
  | nil => simp at h
  | cons a as ih =>
    cases j with
    | zero =>
      simp only [List.getElem?_cons_zero, Option.some.injEq] at h
      subst h
      simp only [List.set_cons_zero, orAll]
      rw [Nat.or_assoc, Nat.or_comm y, ← Nat.or_assoc]
    | succ j =>
      simp only [List.getElem?_cons_succ] at h
      simp only [List.set_cons_succ, orAll, ih j h, Nat.or_assoc]

theorem orAll_eraseIdx_or (l : List Nat) (j : Nat) (x : Nat) (h : l[j]? = some x) :
    orAll (l.eraseIdx j) ||| x = orAll l := by
  induction l generalizing j with
  | nil => simp at h
  | cons a as ih =>
    cases j with
    | zero =>
      simp only [List.getElem?_cons_zero, Option.some.injEq] at h
      subst h
      simp only [List.eraseIdx_cons_zero, orAll]
      exact Nat.or_comm _ _
    | succ j =>
      simp only [List.getElem?_cons_succ] at h
      simp only [List.eraseIdx_cons_succ, orAll, Nat.or_assoc, ih j h]

/-- `~y` in 32 bits, bit by bit -/
theorem testBit_compl32 (y i : Nat) : (U32 - 1 - (y % U32)).testBit i = (decide (i < 32) && !y.testBit i) := by
  have hU : U32 = 2 ^ 32 := rfl
  rw [hU]
  have hy : y % 2 ^ 32 < 2 ^ 32 := Nat.mod_lt _ (by omega)
  have : 2 ^ 32 - 1 - (y % 2 ^ 32) = 2 ^ 32 - (y % 2 ^ 32 + 1) := by omega
  rw [this, Nat.testBit_two_pow_sub_succ hy, Nat.testBit_mod_two_pow]
  by_cases hi : i < 32 <;> simp [hi]

/-- a set below 2^32 that is disjoint from `m` survives `& ~m` -/
theorem and_compl_of_disjoint (k m : Nat) (hk : k < U32) (h : k &&& m = 0) : k &&& (U32 - 1 - (m % U32)) = k := by
  apply Nat.eq_of_testBit_eq
  intro i
  rw [Nat.testBit_and, testBit_compl32]
  have hd : (k &&& m).testBit i = false := by rw [h]; simp
  rw [Nat.testBit_and] at hd
  by_cases hi : i < 32
  · cases hk' : k.testBit i <;> simp_all
  · have : k.testBit i = false := Nat.testBit_lt_two_pow (Nat.lt_of_lt_of_le hk (by
      rw [show U32 = 2 ^ 32 from rfl]; exact Nat.pow_le_pow_right (by omega) (by omega : 32 ≤ i)))
    simp [this]

/-- a subset of `m` is wiped out by `& ~m` -/
theorem and_compl_of_subset (a m : Nat) (h : a &&& m = a) : a &&& (U32 - 1 - (m % U32)) = 0 := by
  apply Nat.eq_of_testBit_eq
  intro i
  rw [Nat.testBit_and, testBit_compl32]
  have hd : (a &&& m).testBit i = a.testBit i := by rw [h]
  rw [Nat.testBit_and] at hd
  cases ha : a.testBit i <;> cases hm : m.testBit i <;> simp_all

/-- `x & ~m` is disjoint from `m` and from 2^32 upward -/
theorem compl_and_disjoint (x m : Nat) : (x &&& (U32 - 1 - (m % U32))) &&& m = 0 := by
  apply Nat.eq_of_testBit_eq
  intro i
  rw [Nat.testBit_and, Nat.testBit_and, testBit_compl32]
  cases hm : m.testBit i <;> simp

theorem compl_and_lt (x m : Nat) : x &&& (U32 - 1 - (m % U32)) < U32 := by
  have : U32 - 1 - (m % U32) < 2 ^ 32 := by unfold U32; omega
  exact Nat.lt_of_le_of_lt Nat.and_le_right this

/-- a single bit that meets `M` lies in `M`: if `M` is disjoint from `S`, so is the bit -/
theorem bit_disjoint (b M S : Nat) (hM : 2 ^ b &&& M ≠ 0) (hd : M &&& S = 0) : 2 ^ b &&& S = 0 := by
  have hMb : M.testBit b = true := by
    obtain ⟨i, hi⟩ := Nat.exists_testBit_of_ne_zero hM
    rw [Nat.testBit_and, Nat.testBit_two_pow] at hi
    simp only [Bool.and_eq_true, decide_eq_true_eq] at hi
    rw [hi.1]; exact hi.2
  have h2 : (M &&& S).testBit b = false := by rw [hd]; simp
  rw [Nat.testBit_and, hMb] at h2
  apply Nat.eq_of_testBit_eq
  intro i
  rw [Nat.testBit_and, Nat.testBit_two_pow]
  by_cases hbi : b = i
  · subst hbi; simp at h2; simp [h2]
  · simp [hbi]

theorem subset_or_left (a b : Nat) : a &&& (a ||| b) = a := by
  apply Nat.eq_of_testBit_eq
  intro i
  rw [Nat.testBit_and, Nat.testBit_or]
  cases a.testBit i <;> simp

theorem subset_trans_or (a s b : Nat) (h : a &&& s = a) : a &&& (s ||| b) = a := by
  apply Nat.eq_of_testBit_eq
  intro i
  have hd : (a &&& s).testBit i = a.testBit i := by rw [h]
  rw [Nat.testBit_and] at hd
  rw [Nat.testBit_and, Nat.testBit_or]
  cases ha : a.testBit i <;> cases hs : s.testBit i <;> simp_all

theorem disjoint_of_subset (a s c : Nat) (h : a &&& s = a) (hd : a &&& c = 0 → False) : s &&& c = 0 → False := by
  intro hs
  apply hd
  apply Nat.eq_of_testBit_eq
  intro i
  have h1 : (a &&& s).testBit i = a.testBit i := by rw [h]
  have h2 : (s &&& c).testBit i = false := by rw [hs]; simp
  rw [Nat.testBit_and] at h1 h2
  rw [Nat.testBit_and]
  cases ha : a.testBit i <;> cases hs' : s.testBit i <;> simp_all

end Zvbi.Rawdec
