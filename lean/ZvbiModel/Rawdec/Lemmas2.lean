import ZvbiModel.Rawdec.Lemmas
/-!
# Lemmas for C04, part 2: `decode_pattern` on one row
-/
namespace Zvbi.Rawdec
open Zvbi.Generated.ServiceTable

theorem mem8 {a0 a1 a2 a3 a4 a5 a6 a7 x : Int} (h : x ∈ [a0, a1, a2, a3, a4, a5, a6, a7]) :
    x = a0 ∨ x = a1 ∨ x = a2 ∨ x = a3 ∨ x = a4 ∨ x = a5 ∨ x = a6 ∨ x = a7 := by
  simpa using h

theorem bound8 {a0 a1 a2 a3 a4 a5 a6 a7 : Int} {n : Int} (h : ∀ x ∈ [a0, a1, a2, a3, a4, a5, a6, a7], x ≤ n) :
    a0 ≤ n ∧ a1 ≤ n ∧ a2 ≤ n ∧ a3 ≤ n ∧ a4 ≤ n ∧ a5 ≤ n ∧ a6 ≤ n ∧ a7 ≤ n := by
  simpa using h

/-- the matched job moves to way 0, the marker is set: invariant kept, jobs kept -/
theorem mtf_match (a0 a1 a2 a3 a4 a5 a6 a7 : Int) (p : Nat) (hp : p < 7) (j : Int)
    (hj : [a0, a1, a2, a3, a4, a5, a6, a7].getD p 0 = j) (hj0 : 0 < j) (h7 : a7 ≤ 0) (n : Nat)
    (hb : ∀ x ∈ [a0, a1, a2, a3, a4, a5, a6, a7], x ≤ (n : Int)) :
    RowOK n (moveToFront ([a0, a1, a2, a3, a4, a5, a6, a7].set (maxWays - 1) (-128)) p j) ∧
    ∀ x, 0 < x → (moveToFront ([a0, a1, a2, a3, a4, a5, a6, a7].set (maxWays - 1) (-128)) p j).count x
      = [a0, a1, a2, a3, a4, a5, a6, a7].count x := by
  have hb' := bound8 hb
  have hp' : p = 0 ∨ p = 1 ∨ p = 2 ∨ p = 3 ∨ p = 4 ∨ p = 5 ∨ p = 6 := by omega
  rcases hp' with rfl | rfl | rfl | rfl | rfl | rfl | rfl <;>
  · simp only [List.getD_cons_succ, List.getD_cons_zero] at hj
    subst hj
    refine ⟨⟨by simp [moveToFront, maxWays_eq], ⟨-128, by simp [moveToFront, maxWays_eq], by omega⟩, ?_, by simp [moveToFront, maxWays_eq]⟩, ?_⟩
    · intro x hx
      simp [moveToFront, maxWays_eq] at hx
      omega
    · intro x hx
      have e1 : ¬ (a7 = x) := by omega
      have e2 : ¬ ((-128 : Int) = x) := by omega
      simp [moveToFront, maxWays_eq, List.count_cons, e1, e2]
      try omega

/-- "found nothing": way 0's job goes to the first free way, way 0 becomes 0 -/
theorem mtf_nothing (a0 a1 a2 a3 a4 a5 a6 a7 : Int) (p : Nat) (hp0 : 0 < p) (hp : p < 8)
    (hj : [a0, a1, a2, a3, a4, a5, a6, a7].getD p 0 ≤ 0) (n : Nat)
    (hb : ∀ x ∈ [a0, a1, a2, a3, a4, a5, a6, a7], x ≤ (n : Int)) :
    RowOK n (moveToFront [a0, a1, a2, a3, a4, a5, a6, a7] p 0) ∧
    ∀ x, 0 < x → (moveToFront [a0, a1, a2, a3, a4, a5, a6, a7] p 0).count x = [a0, a1, a2, a3, a4, a5, a6, a7].count x := by
  have hb' := bound8 hb
  have hp' : p = 1 ∨ p = 2 ∨ p = 3 ∨ p = 4 ∨ p = 5 ∨ p = 6 ∨ p = 7 := by omega
  rcases hp' with rfl | rfl | rfl | rfl | rfl | rfl | rfl <;>
  · simp only [List.getD_cons_succ, List.getD_cons_zero] at hj
    refine ⟨⟨by simp [moveToFront], ⟨0, by simp [moveToFront], by omega⟩, ?_, by simp [moveToFront]⟩, ?_⟩
    · intro x hx
      simp [moveToFront] at hx
      omega
    · intro x hx
      have e1 : ¬ ((0 : Int) = x) := by omega
      have hne : ∀ a : Int, a ≤ 0 → ¬ (a = x) := by intro a h; omega
      simp [moveToFront, List.count_cons, e1, hne _ hj]
      try omega

theorem rotate_ok (a0 a1 a2 a3 a4 a5 a6 a7 : Int) (h0 : a0 ≤ 0) (n : Nat)
    (hb : ∀ x ∈ [a0, a1, a2, a3, a4, a5, a6, a7], x ≤ (n : Int)) :
    RowOK n (rotateRow [a0, a1, a2, a3, a4, a5, a6, a7]) ∧
    ∀ x, (rotateRow [a0, a1, a2, a3, a4, a5, a6, a7]).count x = [a0, a1, a2, a3, a4, a5, a6, a7].count x := by
  have hb' := bound8 hb
  refine ⟨⟨by simp [rotateRow], ⟨a0, by simp [rotateRow], h0⟩, ?_, by simp [rotateRow]; omega⟩, ?_⟩
  · intro x hx
    simp [rotateRow] at hx
    omega
  · intro x
    simp [rotateRow, List.count_cons]
    omega

theorem map_id_set (jobs : List Job) (k : Nat) (hk : k < jobs.length) (th : Nat) :
    (jobs.set k { jobs[k] with thresh := th }).map (·.id) = jobs.map (·.id) := by
  apply List.ext_getElem
  · simp
  · intro i h1 h2
    simp [List.getElem_set]
    intro h; subst h; rfl

theorem getD_of_mem8 {row : PRow} (h : row.length = 8) {x : Int} (hx : x ∈ row) : ∃ q, q < 8 ∧ row.getD q 0 = x := by
  obtain ⟨q, hq, rfl⟩ := List.mem_iff_getElem.mp hx
  exact ⟨q, by omega, by rw [List.getD_eq_getElem?_getD, List.getElem?_eq_getElem hq]; rfl⟩

/-- everything the frame-level theorems need about `decode_pattern` on one row -/
theorem decodeWays_spec (sp : SPar) (rj : Nat) (sl : Nat → Job → Option (List Nat) × Nat) (i : Nat) :
    ∀ (fuel p : Nat) (row : PRow) (jobs : List Job), fuel + p = 8 → RowOK jobs.length row →
      (∀ q, q < p → 0 < row.getD q 0) →
      ∃ row' jobs' rec, decodeWays sp rj sl i fuel p row jobs = .ok (row', jobs', rec) ∧
        RowOK jobs.length row' ∧ jobs'.map (·.id) = jobs.map (·.id) ∧
        (∀ x, 0 < x → row'.count x = row.count x) ∧
        (∀ r, rec = some r → r.line = lineOf sp i ∧ r.id ∈ jobs.map (·.id)) ∧
        ((∀ j job, (sl j job).1 = none) → rec = none) := by
  intro fuel
  induction fuel with
  | zero =>
    intro p row jobs hf hok hpre
    exfalso
    obtain ⟨x, hx, hx0⟩ := hok.free
    obtain ⟨q, hq, hqx⟩ := getD_of_mem8 hok.len hx
    have := hpre q (by omega)
    omega
  | succ fuel ih =>
    intro p row jobs hf hok hpre
    have hp : p < row.length := by rw [hok.len]; omega
    have hjv : row.getD p 0 = row[p] := by
      rw [List.getD_eq_getElem?_getD, List.getElem?_eq_getElem hp]; rfl
    unfold decodeWays
    rw [List.getElem?_eq_getElem hp]
    simp only []
    by_cases hj : row[p] > 0
    · rw [if_pos hj]
      have hjb := hok.bound row[p] (List.getElem_mem hp)
      have hk : row[p].toNat - 1 < jobs.length := by omega
      rw [List.getElem?_eq_getElem hk]
      simp only []
      cases hres : (sl (row[p].toNat - 1) jobs[row[p].toNat - 1]).1 with
      | none =>
        have hlen' : (jobs.set (row[p].toNat - 1) { jobs[row[p].toNat - 1] with
            thresh := (sl (row[p].toNat - 1) jobs[row[p].toNat - 1]).2 }).length = jobs.length := by simp
        obtain ⟨row', jobs', rec, he, hok', hids, hcnt, hrec, hnone⟩ :=
          ih (p + 1) row (jobs.set (row[p].toNat - 1) { jobs[row[p].toNat - 1] with
            thresh := (sl (row[p].toNat - 1) jobs[row[p].toNat - 1]).2 }) (by omega) (by rw [hlen']; exact hok)
            (by
              intro q hq
              by_cases hqp : q = p
              · subst hqp; rw [hjv]; exact hj
              · exact hpre q (by omega))
        refine ⟨row', jobs', rec, ?_, by rw [hlen'] at hok'; exact hok', ?_, hcnt, ?_, hnone⟩
        · rw [← he]
          try simp [hres]
        · rw [hids, map_id_set jobs _ hk]
        · intro r hr
          have := hrec r hr
          rw [map_id_set jobs _ hk] at this
          exact this
      | some data =>
        obtain ⟨a0, a1, a2, a3, a4, a5, a6, a7, rfl⟩ := row8 row hok.len
        -- a free way lies behind p
        obtain ⟨x, hx, hx0⟩ := hok.free
        obtain ⟨q, hq, hqx⟩ := getD_of_mem8 hok.len hx
        have hqp : p < q := by
          rcases Nat.lt_trichotomy q p with h | h | h
          · have := hpre q h; omega
          · subst h; rw [hjv] at hqx; omega
          · exact h
        have hp7 : p < 7 := by omega
        have h0pos : 0 < [a0, a1, a2, a3, a4, a5, a6, a7].getD 0 0 := by
          by_cases hp0 : p = 0
          · subst hp0; rw [hjv]; exact hj
          · exact hpre 0 (by omega)
        have h7 : a7 ≤ 0 := by
          have := hok.lof
          simp only [List.getD_cons_succ, List.getD_cons_zero] at this h0pos
          omega
        obtain ⟨hok', hcnt⟩ := mtf_match a0 a1 a2 a3 a4 a5 a6 a7 p hp7 _ hjv hj h7 jobs.length hok.bound
        refine ⟨_, _, _, rfl, hok', map_id_set jobs _ hk _, hcnt, ?_, ?_⟩
        · intro r hr
          simp at hr
          subst hr
          exact ⟨rfl, List.mem_map.mpr ⟨_, List.getElem_mem hk, rfl⟩⟩
        · intro hall
          have := hall (([a0, a1, a2, a3, a4, a5, a6, a7][p]).toNat - 1) jobs[([a0, a1, a2, a3, a4, a5, a6, a7][p]).toNat - 1]
          rw [hres] at this
          cases this
    · rw [if_neg hj]
      obtain ⟨a0, a1, a2, a3, a4, a5, a6, a7, rfl⟩ := row8 row hok.len
      by_cases hp0 : p = 0
      · subst hp0
        simp only [if_true]
        have h0 : a0 ≤ 0 := by simpa using hj
        by_cases hr : rj = 0
        · rw [if_pos hr]
          obtain ⟨hok', hcnt⟩ := rotate_ok a0 a1 a2 a3 a4 a5 a6 a7 h0 jobs.length hok.bound
          exact ⟨_, _, _, rfl, hok', rfl, fun x _ => hcnt x, (fun r hr => nomatch hr), fun _ => rfl⟩
        · rw [if_neg hr]
          exact ⟨_, _, _, rfl, hok, rfl, fun x _ => rfl, (fun r hr => nomatch hr), fun _ => rfl⟩
      · rw [if_neg hp0]
        simp only [maxWays_eq]
        simp only [show (8 - 1 : Nat) = 7 from rfl, List.getElem?_cons_succ, List.getElem?_cons_zero]
        by_cases h7 : a7 < 0
        · rw [if_pos h7]
          exact ⟨_, _, _, rfl, hok, rfl, fun x _ => rfl, (fun r hr => nomatch hr), fun _ => rfl⟩
        · rw [if_neg h7]
          have h0pos := hpre 0 (by omega)
          have hlof := hok.lof
          simp only [List.getD_cons_succ, List.getD_cons_zero] at h0pos hlof
          have h70 : a7 = 0 := by omega
          subst h70
          have hjle : [a0, a1, a2, a3, a4, a5, a6, 0].getD p 0 ≤ 0 := by rw [hjv]; omega
          obtain ⟨hok', hcnt⟩ := mtf_nothing a0 a1 a2 a3 a4 a5 a6 0 p (by omega) (by omega) hjle jobs.length hok.bound
          exact ⟨_, _, _, rfl, hok', rfl, hcnt, (fun r hr => nomatch hr), fun _ => rfl⟩

end Zvbi.Rawdec
