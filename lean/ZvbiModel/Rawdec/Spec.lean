import ZvbiModel.Rawdec.Model
/-!
# Spec side of C04: the sender, the nominal slicer, the bit order of a sliced record

* `Tx` - what the sender puts on the scan lines of one frame: (service id, row of the image, payload bytes)
* `nominalSlicer` - the idealised link "waveform -> slicer": a job's slicer returns TRUE with the
  transmitted payload exactly on the rows carrying a service of that job, FALSE elsewhere.  This is what
  `slice_exact_under_open_eye` delivers for one line under the eye-open hypothesis; that io-sim's
  waveform meets the hypothesis is the sampled (oracle) part of C04.
* `bitAt` - which bit of `sliced.data` is the j-th payload bit on the wire (`endian` of the slicer).
* `expectedRecs` - the records the property demands for a frame.
-/
namespace Zvbi.Rawdec
open Zvbi.Generated.ServiceTable

/-- (service id, row index in the image, payload bytes) -/
abbrev Tx := Nat × Nat × List Nat

/-- ids `signal_u8` of io-sim.c can render -/
def simIds : List Nat :=
  [0x2000, 0x1, 0x2, 0x3, 0x4000, 0x8000, 0x8, 0x10, 0x18, 0x4, 0x1000, 0x400, 0x10000, 0x100, 0x20000, 0x20, 0x40, 0x60]

/-- the harness can render these records into an image of geometry `sp` (unknown start lines are
    replaced by 7/320 resp. 10/273 for the simulator only) -/
def renderable (sp : SPar) (recs : List Tx) : Bool :=
  let s0 := if sp.start0 = 0 then (if sp.scanning = 525 then 10 else 7) else sp.start0
  let s1 := if sp.start1 = 0 then (if sp.scanning = 525 then 273 else 320) else sp.start1
  decide (s0 + sp.count0 ≤ s1) && recs.all (fun t => decide (t.2.1 < sp.scanLines) && simIds.contains t.1)

def nominalSlicer (recs : List Tx) : Slicer := fun row _ job =>
  match recs.find? (fun t => t.2.1 == row) with
  | some t => if job.id &&& t.1 ≠ 0 then (some t.2.2, job.thresh) else (none, job.thresh)
  | none => (none, job.thresh)

/-- the j-th payload bit on the wire, read from the bytes of a sliced record:
    LSB first (`endian` odd) or MSB first (`endian` even); octet modes (`endian` < 2) and bit modes alike -/
def bitAt (endian : Nat) (nbits : Nat) (data : List Nat) (j : Nat) : Bool :=
  let byte := data.getD (j / 8) 0
  if endian % 2 = 1 then byte.testBit (j % 8)
  else
    -- MSB first; in the bit mode the last, partial byte holds its bits right-aligned
    let width := if endian ≥ 2 ∧ j / 8 = nbits / 8 then nbits % 8 else 8
    byte.testBit (width - 1 - j % 8)

/-- the records the property demands for one frame: one per transmitted row whose service is being
    decoded (`idOf` = id reported for that service, `none` = not requested), in ascending row order, with
    the line number of the row -/
def expectedRecs (sp : SPar) (idOf : Nat → Option Nat) (recs : List Tx) : List Rec :=
  (List.range sp.scanLines).filterMap (fun row =>
    match recs.find? (fun t => t.2.1 == row) with
    | none => none
    | some t => (idOf t.1).map (fun id => { id := id, line := lineOf sp row, data := t.2.2 }))

end Zvbi.Rawdec
