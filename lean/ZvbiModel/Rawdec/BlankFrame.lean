import ZvbiModel.Rawdec.BlankSpec
/-!
# Lemmas for C04 round 3, part 3: one frame and histories of frames on an armed pattern
-/
namespace Zvbi.Rawdec
open Zvbi.Generated.ServiceTable

/-- row `r'` of a later state against row `r` of an earlier one: valid, armed, the same jobs (in whatever order) -/
def RowRel (n : Nat) (r r' : PRow) : Prop := RowOK n r' ∧ RowArmed r' ∧ SameJobs r r'

inductive RowsRel (n : Nat) : List PRow → List PRow → Prop
  | nil : RowsRel n [] []
  | cons {r r' : PRow} {rs rs' : List PRow} : RowRel n r r' → RowsRel n rs rs' → RowsRel n (r :: rs) (r' :: rs')

theorem RowsRel.snoc {n : Nat} {l l' : List PRow} {r r' : PRow} (h : RowsRel n l l') (hr : RowRel n r r') :
    RowsRel n (l ++ [r]) (l' ++ [r']) := by
  induction h with
  | nil => exact .cons hr .nil
  | cons h1 _ ih => exact .cons h1 ih

theorem RowRel.trans {n : Nat} {a b c : PRow} (h1 : RowRel n a b) (h2 : RowRel n b c) : RowRel n a c :=
  ⟨h2.1, h2.2.1, fun x hx => by rw [h2.2.2 x hx, h1.2.2 x hx]⟩

theorem RowsRel.trans {n : Nat} {a b c : List PRow} (h1 : RowsRel n a b) (h2 : RowsRel n b c) : RowsRel n a c := by
  induction h1 generalizing c with
  | nil => cases h2; exact .nil
  | cons hr _ ih =>
    cases h2 with
    | cons hr2 h2' => exact .cons (hr.trans hr2) (ih h2')

theorem RowsRel.refl {n : Nat} (p : List PRow) (h : ∀ r ∈ p, RowOK n r ∧ RowArmed r) : RowsRel n p p := by
  induction p with
  | nil => exact .nil
  | cons r rs ih =>
    exact .cons ⟨(h r (by simp)).1, (h r (by simp)).2, fun _ _ => rfl⟩ (ih (fun r' hr' => h r' (by simp [hr'])))

theorem RowsRel.right {n : Nat} {a b : List PRow} (h : RowsRel n a b) : ∀ r ∈ b, RowOK n r ∧ RowArmed r := by
  induction h with
  | nil => intro r hr; cases hr
  | cons hr _ ih =>
    intro r hmem
    rcases List.mem_cons.mp hmem with rfl | h'
    · exact ⟨hr.1, hr.2.1⟩
    · exact ih r h'

/-- invariant of the loop of `vbi3_raw_decoder_decode` over an armed pattern; `done` = the (index, row) pairs already
    visited, as they were before the call -/
structure AccH (sp : SPar) (m : Nat) (sl : Slicer) (jobs0 : List Job) (done : List (Nat × PRow)) (a : DecAcc) : Prop where
  err : a.err = none
  rel : JobsRel jobs0 a.jobs
  rows : RowsRel jobs0.length (done.map (·.2)) a.rows.reverse
  stop : a.stopped = true → m ≤ a.out.length
  out : ThreshFree sl → a.out.reverse = (done.filterMap (fun ir => lineSpec sp sl jobs0 ir.1 ir.2)).take m

theorem take_len_lt {α : Type} {F : List α} {m k : Nat} (h : (F.take m).length = k) (hk : k < m) : F.length = k := by
  rw [List.length_take] at h
  omega

theorem decodeLine_h (sp : SPar) (rj m : Nat) (sl : Slicer) (jobs0 : List Job) (done : List (Nat × PRow)) (a : DecAcc)
    (i : Nat) (row : PRow) (h : AccH sp m sl jobs0 done a) (hok : RowOK jobs0.length row) (ha : RowArmed row) :
    AccH sp m sl jobs0 (done ++ [(i, row)]) (decodeLine sp rj m sl a (i, row)) := by
  unfold decodeLine
  have herr : a.err.isSome = false := by rw [h.err]; rfl
  simp only [herr, Bool.false_eq_true, if_false]
  have hlen := h.rel.length
  by_cases hstop : a.stopped = true ∨ a.out.length ≥ m
  · rw [if_pos hstop]
    have hm : m ≤ a.out.length := by
      rcases hstop with h1 | h1
      · exact h.stop h1
      · exact h1
    refine ⟨h.err, h.rel, ?_, fun _ => hm, ?_⟩
    · simp only [List.map_append, List.map_cons, List.map_nil, List.reverse_cons]
      exact h.rows.snoc ⟨hok, ha, fun _ _ => rfl⟩
    · intro htf
      have ho := h.out htf
      simp only []
      rw [ho, List.filterMap_append]
      have hl : m ≤ (done.filterMap (fun ir => lineSpec sp sl jobs0 ir.1 ir.2)).length := by
        have := congrArg List.length ho
        rw [List.length_reverse, List.length_take] at this
        omega
      rw [List.take_append_of_le_length hl]
  · rw [if_neg hstop]
    have hns : ¬ (a.stopped = true) := fun hh => hstop (Or.inl hh)
    have hlt : a.out.length < m := by
      have : ¬ (a.out.length ≥ m) := fun hh => hstop (Or.inr hh)
      omega
    have hok' : RowOK a.jobs.length row := by rw [← hlen]; exact hok
    obtain ⟨row', jobs', rec, he, harm', hjobs, hrec⟩ :=
      decodeWays_armed sp rj (sl i) i row.length 0 row a.jobs (by rw [hok.len]) hok' ha (by intro q hq; omega)
    obtain ⟨row2, jobs2, rec2, he2, hrok, _, hcnt, _, _⟩ :=
      decodeWays_spec sp rj (sl i) i row.length 0 row a.jobs (by rw [hok.len]) hok' (by intro q hq; omega)
    rw [he] at he2
    cases he2
    rw [List.drop_zero] at hjobs hrec
    have hrel' : JobsRel jobs0 jobs' := by
      rw [hjobs]; exact h.rel.trans (tryJobs_rel (sl i) (jobsOf row) a.jobs)
    have hrows' : RowsRel jobs0.length ((done ++ [(i, row)]).map (·.2)) (row' :: a.rows).reverse := by
      simp only [List.map_append, List.map_cons, List.map_nil, List.reverse_cons]
      exact h.rows.snoc ⟨by rw [hlen]; exact hrok, harm', hcnt⟩
    have hspec : ThreshFree sl → rec = lineSpec sp sl jobs0 i row := by
      intro htf
      rw [hrec, lineSpec_eq]
      apply tryJobs_lineSpec sp sl htf i jobs0 (jobsOf row) a.jobs h.rel
      intro x hx
      rw [mem_jobsOf] at hx
      exact ⟨hx.2, hok.bound x hx.1⟩
    unfold decodePattern
    rw [he]
    cases rec with
    | none =>
      simp only []
      refine ⟨h.err, hrel', hrows', fun hh => absurd hh hns, ?_⟩
      intro htf
      have hs := hspec htf
      simp only []
      rw [h.out htf, List.filterMap_append]
      simp only [List.filterMap_cons, List.filterMap_nil, ← hs, List.append_nil]
    | some r =>
      simp only []
      refine ⟨h.err, hrel', hrows', fun hh => absurd hh hns, ?_⟩
      intro htf
      have hs := hspec htf
      have ho := h.out htf
      simp only [List.reverse_cons]
      rw [List.filterMap_append]
      simp only [List.filterMap_cons, List.filterMap_nil, ← hs]
      have hF : (done.filterMap (fun ir => lineSpec sp sl jobs0 ir.1 ir.2)).length = a.out.length := by
        apply take_len_lt (m := m) _ hlt
        rw [← ho, List.length_reverse]
      rw [List.take_of_length_le (by rw [List.length_append, hF]; simp; omega)]
      rw [List.take_of_length_le (by omega)] at ho
      rw [ho]

theorem fold_h (sp : SPar) (rj m : Nat) (sl : Slicer) (jobs0 : List Job) :
    ∀ (rest done : List (Nat × PRow)) (a : DecAcc), AccH sp m sl jobs0 done a →
      (∀ ir ∈ rest, RowOK jobs0.length ir.2 ∧ RowArmed ir.2) →
      AccH sp m sl jobs0 (done ++ rest) (rest.foldl (decodeLine sp rj m sl) a) := by
  intro rest
  induction rest with
  | nil => intro done a h _; simpa using h
  | cons ir rest ih =>
    intro done a h hr
    obtain ⟨i, row⟩ := ir
    have h1 := decodeLine_h sp rj m sl jobs0 done a i row h (hr (i, row) (by simp)).1 (hr (i, row) (by simp)).2
    have h2 := ih (done ++ [(i, row)]) _ h1 (fun ir hir => hr ir (by simp [hir]))
    rw [List.append_assoc] at h2
    exact h2

theorem zip_range_snd (p : List PRow) : ((List.range p.length).zip p).map (·.2) = p := by
  apply List.ext_getElem
  · simp
  · intro k h1 h2
    simp

/-- **one call of `vbi3_raw_decoder_decode` on an armed pattern**: every row keeps its jobs and stays armed, the jobs
    change in thresholds only, and - for an image whose slicing does not depend on the thresholds - the records are
    `frameSpec`: for every row the first listed job that matches, nothing skipped -/
theorem decodeFrame_h (s : State) (m : Nat) (sl : Slicer) (herr : s.err = none) (hsv : s.services ≠ 0) (p : Pattern)
    (hp : s.pattern = some p) (hrows : ∀ r ∈ p, RowOK s.jobs.length r ∧ RowArmed r) :
    ∃ p', (decodeFrame s m sl).1.pattern = some p' ∧ RowsRel s.jobs.length p p' ∧
      JobsRel s.jobs (decodeFrame s m sl).1.jobs ∧ (decodeFrame s m sl).1.err = none ∧
      (decodeFrame s m sl).1.services = s.services ∧ (decodeFrame s m sl).1.sp = s.sp ∧
      (ThreshFree sl → (decodeFrame s m sl).2.1 = frameSpec s.sp sl s.jobs p m) := by
  unfold decodeFrame
  have h1 : s.err.isSome = false := by rw [herr]; rfl
  simp only [h1, Bool.false_eq_true, if_false, hsv, hp]
  have h0 : AccH s.sp m sl s.jobs [] { jobs := s.jobs } :=
    ⟨rfl, JobsRel.refl _, .nil, (fun hh => by cases hh), (fun _ => by simp)⟩
  have hf := fold_h s.sp s.readjust m sl s.jobs ((List.range p.length).zip p) [] _ h0
    (by
      intro ir hir
      exact hrows ir.2 (List.of_mem_zip hir).2)
  rw [List.nil_append] at hf
  generalize ((List.range p.length).zip p).foldl (decodeLine s.sp s.readjust m sl) { jobs := s.jobs } = a at hf
  refine ⟨a.rows.reverse, rfl, ?_, hf.rel, hf.err, trivial, trivial, ?_⟩
  · have := hf.rows
    rw [zip_range_snd] at this
    exact this
  · intro htf
    exact hf.out htf

/-! ## histories of decode calls -/

/-- a history of decode calls on one decoder: (max_lines, image) per call -/
def runDecodes (s : State) (h : List (Nat × Slicer)) : State :=
  h.foldl (fun s c => (decodeFrame s c.1 c.2).1) s

/-- a state whose pattern hides no job: no error, every row valid and armed -/
structure ArmedState (s : State) : Prop where
  err : s.err = none
  pat : ∃ p, s.pattern = some p ∧ ∀ r ∈ p, RowOK s.jobs.length r ∧ RowArmed r

/-- `s` is `s0` after some decode calls: same services, same jobs up to thresholds, row by row the same jobs in some order -/
structure StateRel (s0 s : State) : Prop where
  sp : s.sp = s0.sp
  services : s.services = s0.services
  err : s.err = none
  jobs : JobsRel s0.jobs s.jobs
  pat : ∃ p0 p, s0.pattern = some p0 ∧ s.pattern = some p ∧ RowsRel s0.jobs.length p0 p

theorem StateRel.refl {s0 : State} (h : ArmedState s0) : StateRel s0 s0 := by
  obtain ⟨p, hp, hr⟩ := h.pat
  exact ⟨rfl, rfl, h.err, JobsRel.refl _, p, p, hp, hp, RowsRel.refl p hr⟩

theorem StateRel.decode {s0 s : State} (h : StateRel s0 s) (m : Nat) (sl : Slicer) :
    StateRel s0 (decodeFrame s m sl).1 := by
  by_cases hsv : s.services = 0
  · have : (decodeFrame s m sl).1 = s := by
      unfold decodeFrame
      have h1 : s.err.isSome = false := by rw [h.err]; rfl
      simp [h1, hsv]
    rw [this]; exact h
  · obtain ⟨p0, p, hp0, hp, hrr⟩ := h.pat
    have hlen := h.jobs.length
    obtain ⟨p', hp', hrr', hj', he', hs', hsp', _⟩ := decodeFrame_h s m sl h.err hsv p hp
      (by intro r hr; rw [← hlen]; exact hrr.right r hr)
    refine ⟨by rw [hsp', h.sp], by rw [hs', h.services], he', h.jobs.trans hj', p0, p', hp0, hp', ?_⟩
    rw [← hlen] at hrr'
    exact hrr.trans hrr'

theorem runDecodes_rel {s0 : State} : ∀ (h : List (Nat × Slicer)) (s : State), StateRel s0 s → StateRel s0 (runDecodes s h) := by
  intro h
  induction h with
  | nil => intro s hs; exact hs
  | cons c rest ih =>
    intro s hs
    unfold runDecodes
    rw [List.foldl_cons]
    exact ih _ (hs.decode c.1 c.2)

/-- `frameSpec` of a later state = `frameSpec` of the earlier one when at most one job matches each line -/
theorem frameSpec_congr (sp : SPar) (sl : Slicer) (htf : ThreshFree sl) {jobs0 jobs : List Job} (hrel : JobsRel jobs0 jobs)
    (n : Nat) : ∀ (p0 p : List PRow) (k : Nat), RowsRel n p0 p →
      (∀ ir ∈ (List.range' k p0.length).zip p0, UniqueHit sl jobs0 ir.1 ir.2) →
      ((List.range' k p.length).zip p).filterMap (fun ir => lineSpec sp sl jobs ir.1 ir.2) =
      ((List.range' k p0.length).zip p0).filterMap (fun ir => lineSpec sp sl jobs0 ir.1 ir.2) := by
  intro p0 p k h
  induction h generalizing k with
  | nil => intro _; rfl
  | cons hr _ ih =>
    intro hu
    simp only [List.length_cons, List.range'_succ, List.zip_cons_cons, List.filterMap_cons]
    have hhead := lineSpec_order_free sp sl htf hrel k _ _ hr.2.2
      (hu (k, _) (by simp [List.range'_succ]))
    rw [hhead]
    have htail := ih (k + 1) (by
      intro ir hir
      apply hu
      simp only [List.length_cons, List.range'_succ, List.zip_cons_cons]
      exact List.mem_cons_of_mem _ hir)
    rw [htail]

/-- a reachable state without error whose pattern is armed -/
theorem armedState_of_run (fx : Fixes) (ti : Nat → Nat) (sp : SPar) (ops : List Op) (p0 : Pattern)
    (hp0 : (run fx ti sp ops).pattern = some p0) (herr : (run fx ti sp ops).err = none) (ha : PatArmed p0) :
    ArmedState (run fx ti sp ops) := by
  refine ⟨herr, p0, hp0, ?_⟩
  intro r hr
  exact ⟨((run_inv fx ti sp ops).1.pat p0 hp0).2 r hr, ha r hr⟩

theorem rowsRel_getElem? {n : Nat} {a b : List PRow} (h : RowsRel n a b) :
    ∀ (i : Nat) (row : PRow), b[i]? = some row → ∃ row0, a[i]? = some row0 ∧ RowRel n row0 row := by
  induction h with
  | nil => intro i row hr; simp at hr
  | cons hr _ ih =>
    intro i row hrow
    cases i with
    | zero =>
      simp only [List.getElem?_cons_zero, Option.some.injEq] at hrow
      subst hrow
      exact ⟨_, by simp, hr⟩
    | succ i =>
      simp only [List.getElem?_cons_succ] at hrow ⊢
      exact ih i row hrow

end Zvbi.Rawdec
