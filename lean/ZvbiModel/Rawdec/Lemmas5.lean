import ZvbiModel.Rawdec.Lemmas4
/-!
# Lemmas for C04, part 5: the state invariant over every history
-/
namespace Zvbi.Rawdec
open Zvbi.Generated.ServiceTable

/-- the only error value a history can reach: the assertion behind `vbi3_bit_slicer_set_params` (excluded for
    every table row / format / rate by C05 `rows_tight_never_rejects`); never an index error -/
def slicerAssert : String := "assert bit_slicer_set_params"

structure Inv (s : State) : Prop where
  jobsLe : s.jobs.length ≤ maxJobs
  pat : ∀ p, s.pattern = some p → PatOK s.jobs.length s.sp.scanLines p
  noIdx : s.err = none ∨ s.err = some slicerAssert
  /-- `rd->pattern` is allocated as soon as a service is decoded -/
  svcPat : s.services ≠ 0 → s.pattern.isSome

theorem inv_init (sp : SPar) : Inv (init sp) :=
  ⟨by simp [init], by intro p h; simp [init] at h, Or.inl rfl, by intro h; simp [init] at h⟩

theorem inv_fail {s : State} (h : Inv s) : Inv (s.fail slicerAssert) :=
  ⟨h.jobsLe, h.pat, Or.inr rfl, h.svcPat⟩

theorem findIdx_le {α : Type} (p : α → Bool) (l : List α) : (l.findIdx? p).getD l.length ≤ l.length := by
  cases h : l.findIdx? p with
  | none => simp
  | some i =>
    have := (List.findIdx?_eq_some_iff_getElem.mp h).1
    simp; omega

theorem addOne_inv (ti : Nat → Nat) (services : Nat) (strict : Int) (s : State) (ri : Nat) (r : Row)
    (h : Inv s) (hp : s.pattern.isSome) :
    ∀ s', addOne ti services strict s ri r = some s' → Inv s' ∧ s'.pattern.isSome ∧ s'.sp = s.sp := by
  intro s' he
  unfold addOne at he
  split at he
  · cases he; exact ⟨h, hp, rfl⟩
  split at he
  · cases he; exact ⟨h, hp, rfl⟩
  simp only [] at he
  have hj := findIdx_le (fun job => mergeable job.id r.id) s.jobs
  generalize (s.jobs.findIdx? (fun job => mergeable job.id r.id)).getD s.jobs.length = j at he hj
  split at he
  · cases he
  rename_i hj8
  split at he
  · cases he; exact ⟨h, hp, rfl⟩
  split at he
  · cases he; exact ⟨inv_fail h, hp, rfl⟩
  split at he
  · cases he; exact ⟨inv_fail h, hp, rfl⟩
  split at he
  · rename_i hnone
    rw [hnone] at hp; cases hp
  rename_i pat hpat
  have hpok := h.pat pat hpat
  obtain ⟨hb1, hb2⟩ := linesContainingData_bounds s.sp r
  obtain ⟨pat', b, hadd, hk1, hk2⟩ := addJobToPattern_ok j s.jobs.length s.sp.scanLines hj _ pat hpok hb1 hb2
  rw [hadd] at he
  have hmax : maxJobs = 8 := rfl
  cases b with
  | false =>
    simp only [] at he
    cases he
    refine ⟨⟨?_, ?_, h.noIdx, fun _ => rfl⟩, rfl, rfl⟩
    · simp only []
      by_cases hjl : j < s.jobs.length
      · simp only [hjl, if_true, List.length_set]; exact h.jobsLe
      · simp only [hjl, if_false]; exact h.jobsLe
    · intro p hp'
      simp only [Option.some.injEq] at hp'
      subst hp'
      by_cases hjl : j < s.jobs.length
      · simp only [hjl, if_true, List.length_set]
        exact hk2 (Or.inr rfl)
      · simp only [hjl, if_false]
        exact hk2 (Or.inr rfl)
  | true =>
    simp only [] at he
    cases he
    by_cases hjl : j < s.jobs.length
    · refine ⟨⟨?_, ?_, h.noIdx, fun _ => rfl⟩, rfl, rfl⟩
      · simp only [hjl, if_true, List.length_set]; exact h.jobsLe
      · intro p hp'
        simp only [Option.some.injEq] at hp'
        subst hp'
        simp only [hjl, if_true, List.length_set]
        exact hk2 (Or.inl hjl)
    · refine ⟨⟨?_, ?_, h.noIdx, fun _ => rfl⟩, rfl, rfl⟩
      · simp only [hjl, if_false, List.length_append, List.length_cons, List.length_nil]; omega
      · intro p hp'
        simp only [Option.some.injEq] at hp'
        subst hp'
        simp only [hjl, if_false, List.length_append, List.length_cons, List.length_nil]
        exact hk1

theorem addLoop_inv (ti : Nat → Nat) (services : Nat) (strict : Int) :
    ∀ (l : List (Nat × Row)) (s : State), Inv s → s.pattern.isSome →
      Inv (addLoop ti services strict s l) ∧ (addLoop ti services strict s l).sp = s.sp := by
  intro l
  induction l with
  | nil => intro s h _; exact ⟨h, rfl⟩
  | cons x rest ih =>
    intro s h hp
    obtain ⟨ri, r⟩ := x
    unfold addLoop
    cases he : addOne ti services strict s ri r with
    | none => exact ⟨h, rfl⟩
    | some s' =>
      obtain ⟨h', hp', hsp⟩ := addOne_inv ti services strict s ri r h hp s' he
      obtain ⟨h2, hsp2⟩ := ih s' h' hp'
      exact ⟨h2, by rw [hsp2, hsp]⟩

theorem addServicesCore_inv (ti : Nat → Nat) (s : State) (services : Nat) (strict : Int) (h : Inv s) :
    Inv (addServicesCore ti s services strict) ∧ (addServicesCore ti s services strict).sp = s.sp := by
  unfold addServicesCore
  split
  · exact ⟨h, rfl⟩
  cases hp : s.pattern with
  | some p =>
    simp only []
    exact addLoop_inv ti _ strict enumTable s h (by rw [hp]; rfl)
  | none =>
    simp only []
    have h1 : Inv { s with pattern := some (List.replicate s.sp.scanLines blankRow) } :=
      ⟨h.jobsLe, by intro p hp'; simp only [Option.some.injEq] at hp'; subst hp'; exact patOK_blank _ _, h.noIdx, fun _ => rfl⟩
    exact addLoop_inv ti _ strict enumTable _ h1 rfl

theorem addServices_inv (ti : Nat → Nat) (s : State) (services : Nat) (strict : Int) (h : Inv s) :
    Inv (addServices ti s services strict) ∧ (addServices ti s services strict).sp = s.sp := by
  unfold addServices
  split
  · exact ⟨h, rfl⟩
  · exact addServicesCore_inv ti s _ strict h

theorem shiftJobs_len (jobs : List Job) (a k : Nat) : (shiftJobs jobs a k).length = jobs.length - 1 := by
  simp [shiftJobs]

theorem removeLoop_inv (fx : Fixes) (lines : Nat) :
    ∀ (fuel services jobNum : Nat) (jobs : List Job) (pat : Option Pattern) (acc : Nat),
      (∀ p, pat = some p → PatOK jobs.length lines p) →
      (removeLoop fx fuel services jobNum jobs pat acc).1.length ≤ jobs.length ∧
      (∀ p, (removeLoop fx fuel services jobNum jobs pat acc).2.1 = some p →
        PatOK (removeLoop fx fuel services jobNum jobs pat acc).1.length lines p) ∧
      ((removeLoop fx fuel services jobNum jobs pat acc).2.1.isSome = pat.isSome) := by
  intro fuel
  induction fuel with
  | zero => intro services jobNum jobs pat acc h; exact ⟨Nat.le_refl _, h, rfl⟩
  | succ fuel ih =>
    intro services jobNum jobs pat acc h
    unfold removeLoop
    split
    · exact ⟨Nat.le_refl _, h, rfl⟩
    rename_i hlt
    simp only []
    split
    · exact ⟨Nat.le_refl _, h, rfl⟩
    rename_i job hjob
    split
    · -- the job is deleted
      have hlen := shiftJobs_len jobs (if fx.jobAdvance = true then jobNum else 0) jobNum
      have hpat : ∀ p, (pat.map (fun p => p.map (removeRow fx.marker ((jobNum : Int) + 1)))) = some p →
          PatOK (shiftJobs jobs (if fx.jobAdvance = true then jobNum else 0) jobNum).length lines p := by
        intro p hp
        cases hpat : pat with
        | none => rw [hpat] at hp; cases hp
        | some p0 =>
          rw [hpat] at hp
          simp only [Option.map_some, Option.some.injEq] at hp
          subst hp
          have h0 := h p0 hpat
          refine ⟨by rw [List.length_map]; exact h0.1, ?_⟩
          intro row hrow
          rw [List.mem_map] at hrow
          obtain ⟨row0, hr0, rfl⟩ := hrow
          rw [hlen]
          exact removeRow_ok fx.marker _ (h0.2 row0 hr0) (by omega) (by omega)
      obtain ⟨i1, i2, i3⟩ := ih _ jobNum _ _ _ hpat
      refine ⟨by omega, i2, ?_⟩
      rw [i3]; cases pat <;> rfl
    · exact ih _ (jobNum + 1) jobs pat acc h

theorem removeServices_inv (fx : Fixes) (s : State) (services : Nat) (h : Inv s) :
    Inv (removeServices fx s services) ∧ (removeServices fx s services).sp = s.sp := by
  unfold removeServices
  split
  · exact ⟨h, rfl⟩
  obtain ⟨i1, i2, i3⟩ := removeLoop_inv fx s.sp.scanLines (2 * s.jobs.length + 1) services 0 s.jobs s.pattern services h.pat
  refine ⟨⟨?_, ?_, h.noIdx, ?_⟩, rfl⟩
  · have := h.jobsLe
    simp only []
    omega
  · intro p hp
    exact i2 p hp
  · intro hs
    simp only [] at hs ⊢
    rw [i3]
    apply h.svcPat
    intro h0
    rw [h0] at hs
    simp at hs

theorem reset_inv (s : State) (h : Inv s) : Inv (reset s) :=
  ⟨by simp [reset], by intro p hp; simp [reset] at hp, h.noIdx, by intro hs; simp [reset] at hs⟩

/-- the loop invariant at the start of a frame -/
theorem accOK_start (sp : SPar) (maxLines : Nat) (jobs : List Job) :
    AccOK sp maxLines (jobs.map (·.id)) 0 { jobs := jobs } :=
  ⟨rfl, rfl, rfl, rfl, Nat.zero_le _, (fun w hw => nomatch hw), List.Pairwise.nil, rfl, (fun r hr => nomatch hr)⟩

/-- everything about one call of `vbi3_raw_decoder_decode` from a state satisfying the invariant -/
theorem decodeFrame_spec (s : State) (maxLines : Nat) (sl : Slicer) (h : Inv s) :
    Inv (decodeFrame s maxLines sl).1 ∧ (decodeFrame s maxLines sl).1.sp = s.sp ∧
    (decodeFrame s maxLines sl).1.jobs.map (·.id) = s.jobs.map (·.id) ∧
    -- slots written: 0, 1, ..., n-1 and n ≤ max_lines
    (decodeFrame s maxLines sl).2.2.map (·.1) = List.range (decodeFrame s maxLines sl).2.1.length ∧
    (decodeFrame s maxLines sl).2.1.length ≤ maxLines ∧
    (decodeFrame s maxLines sl).2.2.length = (decodeFrame s maxLines sl).2.1.length ∧
    -- rows strictly ascending, inside the image
    List.Pairwise (fun x y => x.2 < y.2) (decodeFrame s maxLines sl).2.2 ∧
    (∀ w ∈ (decodeFrame s maxLines sl).2.2, w.2 < s.sp.scanLines) ∧
    -- line numbers
    (decodeFrame s maxLines sl).2.1.map (·.line) = (decodeFrame s maxLines sl).2.2.map (fun w => lineOf s.sp w.2) ∧
    -- service ids
    (∀ r ∈ (decodeFrame s maxLines sl).2.1, r.id ∈ s.jobs.map (·.id)) ∧
    -- blank image
    ((∀ i j job, (sl i j job).1 = none) → (decodeFrame s maxLines sl).2.1 = []) := by
  unfold decodeFrame
  split
  · exact ⟨h, rfl, rfl, rfl, Nat.zero_le _, rfl, List.Pairwise.nil, (fun w hw => nomatch hw), rfl, (fun r hr => nomatch hr), fun _ => rfl⟩
  split
  · exact ⟨h, rfl, rfl, rfl, Nat.zero_le _, rfl, List.Pairwise.nil, (fun w hw => nomatch hw), rfl, (fun r hr => nomatch hr), fun _ => rfl⟩
  rename_i herr hsv
  have herr' : s.err = none := by
    cases he : s.err with
    | none => rfl
    | some e => rw [he] at herr; simp at herr
  split
  · rename_i hnone
    have := h.svcPat hsv
    rw [hnone] at this
    cases this
  rename_i pat hpat
  have hpok := h.pat pat hpat
  have hf := frame_fold s.sp s.readjust maxLines sl (s.jobs.map (·.id)) pat 0 { jobs := s.jobs }
    (accOK_start s.sp maxLines s.jobs) hpok.2 (by intro r hr; cases hr)
  rw [← List.range_eq_range'] at hf
  obtain ⟨ha, hjl, hrl, hrows, hblank⟩ := hf
  simp only [Nat.zero_add] at ha hrl hjl
  generalize ((List.range pat.length).zip pat).foldl (decodeLine s.sp s.readjust maxLines sl) { jobs := s.jobs } = a
    at ha hjl hrl hrows hblank
  simp only [] at hjl hrl hrows
  refine ⟨⟨by simp only []; rw [hjl]; exact h.jobsLe, ?_, Or.inl ha.err, fun _ => rfl⟩, rfl, ha.jobIds, ?_, ?_, ?_, ?_, ?_, ?_, ?_, ?_⟩
  · intro p hp
    simp only [Option.some.injEq] at hp
    subst hp
    refine ⟨by rw [List.length_reverse, hrl]; simp; exact hpok.1, ?_⟩
    intro row hrow
    rw [List.mem_reverse] at hrow
    simp only []
    rw [hjl]
    exact hrows row hrow
  · simp only []
    rw [List.map_reverse, ha.slots, List.reverse_reverse, List.length_reverse]
  · simp only [List.length_reverse]; exact ha.le
  · simp only [List.length_reverse]; exact ha.wlen
  · simp only []
    rw [List.pairwise_reverse]
    exact ha.desc
  · intro w hw
    simp only [List.mem_reverse] at hw
    have := ha.rowsLt w hw
    rw [hpok.1] at this
    exact this
  · simp only []
    rw [List.map_reverse, List.map_reverse, ha.lines]
  · intro r hr
    simp only [List.mem_reverse] at hr
    exact ha.idsIn r hr
  · intro hall
    simp only []
    rw [hblank hall]
    rfl

/-- one step of a history keeps the invariant -/
theorem step_inv (fx : Fixes) (ti : Nat → Nat) (s : State) (op : Op) (h : Inv s) :
    Inv (step fx ti s op) ∧ (step fx ti s op).sp = s.sp := by
  cases op with
  | add sv st => exact addServices_inv ti s sv st h
  | remove sv => exact removeServices_inv fx s sv h
  | reset =>
    simp only [step]
    split
    · exact ⟨h, rfl⟩
    · exact ⟨reset_inv s h, rfl⟩
  | decode m sl =>
    have := decodeFrame_spec s m sl h
    exact ⟨this.1, this.2.1⟩

theorem run_inv (fx : Fixes) (ti : Nat → Nat) (sp : SPar) (ops : List Op) :
    Inv (run fx ti sp ops) ∧ (run fx ti sp ops).sp = sp := by
  unfold run
  have : ∀ (ops : List Op) (s : State), Inv s → Inv (ops.foldl (step fx ti) s) ∧ (ops.foldl (step fx ti) s).sp = s.sp := by
    intro ops
    induction ops with
    | nil => intro s h; exact ⟨h, rfl⟩
    | cons op rest ih =>
      intro s h
      obtain ⟨h1, e1⟩ := step_inv fx ti s op h
      obtain ⟨h2, e2⟩ := ih _ h1
      exact ⟨h2, by rw [List.foldl_cons, e2, e1]⟩
  exact this ops (init sp) (inv_init sp)

end Zvbi.Rawdec
