import ZvbiModel.Cc.Lemmas2
/-!
# The two fields are separate data streams (finding F44 and its repair)

With one current channel per field (`currChanPerField = true`: `int curr_chan[2]`, read as `curr_chan[field2]`)
a byte pair of one field leaves everything the OTHER field's decoding reads: its four caption/text channels
(`decodePair_untouched`), its current-channel selector (`decodePair_other_curr`), and - field 2 pairs - the
field-1 repetition latch, - field 1 pairs - the XDS gate.  With the shared selector (`currChanPerField = false`)
the second statement fails: `curr_shared_counterexample`.
-/
namespace Zvbi.Cc
open Zvbi.Gen.Cc

theorem modCh_currs (t : St) (i : Nat) (f : Channel → Channel) :
    (t.modCh i f).currChan = t.currChan ∧ (t.modCh i f).currChan2 = t.currChan2 ∧ (t.modCh i f).xds = t.xds := by
  unfold St.modCh St.fail; repeat' split
  all_goals exact ⟨rfl, rfl, rfl⟩

theorem curr_congr {s t : St} (h1 : t.currChan = s.currChan) (h2 : t.currChan2 = s.currChan2) (g : Bool) :
    t.curr g = s.curr g := by
  unfold St.curr; rw [h1, h2]

theorem modCh_curr (t : St) (i : Nat) (f : Channel → Channel) (g : Bool) : (t.modCh i f).curr g = t.curr g :=
  curr_congr (modCh_currs t i f).1 (modCh_currs t i f).2.1 g

/-- storing a channel number of field `!g` does not change what field `g` reads -/
theorem setCurr_other (hpf : currChanPerField = true) (t : St) (n : Nat) (g : Bool)
    (hn : ((n >>> 1) &&& 1 == 1) = !g) : (t.setCurr n).curr g = t.curr g := by
  unfold St.setCurr St.curr
  rw [hpf, hn]
  cases g <;> simp

theorem setCurr_xds (t : St) (n : Nat) : (t.setCurr n).xds = t.xds := (setCurr_last t n).2.2

theorem group_bit : ∀ k < 2, ∀ f : Bool,
    (((((if f then 2 else 0) + k) >>> 1) &&& 1 == 1) = f) ∧ (((((if f then 2 else 0) + k + 4) >>> 1) &&& 1 == 1) = f) := by
  decide

theorem captionCommand_other_curr (hpf : currChanPerField = true) (s : St) (c1 c2 : Nat) (f2 : Bool) :
    (captionCommand s c1 c2 f2).curr (!f2) = s.curr (!f2) := by
  have hg := cmdChan_group s c1 f2
  have hk : (c1 >>> 3) &&& 1 < 2 := by have : (c1 >>> 3) &&& 1 ≤ 1 := Nat.and_le_right; omega
  obtain ⟨b3, b4⟩ := group_bit _ hk f2
  have hsw3 : ∀ (t : St) i, (t.switchChannel i (cmdChan s c1 f2 &&& 3)).curr (!f2) = t.curr (!f2) := by
    intro t i; unfold St.switchChannel
    rw [setCurr_other hpf _ _ _ (by rw [hg.2.1, Bool.not_not]; exact b3)]; exact modCh_curr _ _ _ _
  have hsw4 : ∀ (t : St) i, (t.switchChannel i (cmdChan s c1 f2 ||| 4)).curr (!f2) = t.curr (!f2) := by
    intro t i; unfold St.switchChannel
    rw [setCurr_other hpf _ _ _ (by rw [hg.2.2, Bool.not_not]; exact b4)]; exact modCh_curr _ _ _ _
  unfold captionCommand
  rw [show (s.curr f2 &&& 4) + (if f2 then 2 else 0) + ((c1 >>> 3) &&& 1) = cmdChan s c1 f2 from rfl]
  simp only []
  repeat' split
  all_goals first
    | rfl
    | exact modCh_curr _ _ _ _
    | exact hsw3 _ _
    | exact hsw4 _ _
    | exact (modCh_curr _ _ _ _).trans (hsw3 _ _)
    | exact (modCh_curr _ _ _ _).trans (hsw4 _ _)

theorem captionCommand_xds (s : St) (c1 c2 : Nat) (f2 : Bool) : (captionCommand s c1 c2 f2).xds = s.xds := by
  have hm : ∀ (t : St) i f, (t.modCh i f).xds = t.xds := fun t i f => (modCh_currs t i f).2.2
  have hsw : ∀ (t : St) i n, (t.switchChannel i n).xds = t.xds := by
    intro t i n; unfold St.switchChannel; rw [setCurr_xds]; exact hm _ _ _
  unfold captionCommand
  simp only []
  repeat' split
  all_goals first
    | rfl
    | exact hm _ _ _
    | exact hsw _ _ _
    | exact (hm _ _ _).trans (hsw _ _ _)

theorem decodeMain_other_curr (hpf : currChanPerField = true) (s : St) (f : Bool) (b0 b1 : Nat) :
    (decodeMain s f b0 b1).curr (!f) = s.curr (!f) := by
  unfold decodeMain
  simp only []
  repeat' split
  all_goals first
    | rfl
    | exact captionCommand_other_curr hpf _ _ _ _
    | exact modCh_curr _ _ _ _

theorem decodeMain_f1_xds (s : St) (b0 b1 : Nat) : (decodeMain s false b0 b1).xds = s.xds := by
  have hm : ∀ (t : St) i f, (t.modCh i f).xds = t.xds := fun t i f => (modCh_currs t i f).2.2
  unfold decodeMain
  simp only []
  repeat' split
  all_goals first
    | rfl
    | exact captionCommand_xds _ _ _ _
    | exact hm _ _ _

theorem decodeMain_f2_last (s : St) (b0 b1 : Nat) :
    (decodeMain s true b0 b1).last0 = s.last0 ∧ (decodeMain s true b0 b1).last1 = s.last1 := by
  have hm : ∀ (t : St) i f, (t.modCh i f).last0 = t.last0 ∧ (t.modCh i f).last1 = t.last1 := by
    intro t i f; unfold St.modCh St.fail; repeat' split
    all_goals exact ⟨rfl, rfl⟩
  unfold decodeMain
  simp only [Bool.not_true, Bool.false_and, Bool.false_eq_true, if_false]
  repeat' split
  all_goals first
    | exact ⟨rfl, rfl⟩
    | exact captionCommand_last _ _ _ _
    | exact hm _ _ _

/-- **a pair of one field leaves the other field's current-channel selector alone** (repaired tree) -/
theorem decodePair_other_curr (hpf : currChanPerField = true) (s : St) (f : Bool) (b0 b1 : Nat) :
    (decodePair s f b0 b1).curr (!f) = s.curr (!f) := by
  unfold decodePair
  split
  · unfold xdsConsumed; simp only []; split <;> rfl
  · rename_i s' hs
    rw [decodeMain_other_curr hpf, xdsGate_some_curr hs]

/-- field-1 pairs never touch the XDS gate of field 2 -/
theorem decodePair_f1_xds (s : St) (b0 b1 : Nat) : (decodePair s false b0 b1).xds = s.xds := by
  unfold decodePair xdsGate xdsConsumed
  simp only [Bool.false_eq_true, if_false, false_and]
  exact decodeMain_f1_xds s b0 b1

/-- field-2 pairs never touch the field-1 repetition latch -/
theorem decodePair_f2_last (s : St) (b0 b1 : Nat) :
    (decodePair s true b0 b1).last0 = s.last0 ∧ (decodePair s true b0 b1).last1 = s.last1 := by
  unfold decodePair
  split
  · unfold xdsConsumed; simp only []; split <;> exact ⟨rfl, rfl⟩
  · rename_i s' hs
    obtain ⟨_, _, l0, l1, _⟩ := xdsGate_some hs
    rw [(decodeMain_f2_last s' b0 b1).1, (decodeMain_f2_last s' b0 b1).2, l0, l1]; exact ⟨rfl, rfl⟩

end Zvbi.Cc
