import ZvbiModel.Cc.Lemmas
/-!
# Frame lemmas (which channels a byte pair can touch) and the de-duplication latch
-/
namespace Zvbi.Cc
open Zvbi.Gen.Cc

theorem fail_chans (s : St) (site : String) : (s.fail site).chans = s.chans := by
  unfold St.fail; split <;> rfl

theorem modCh_get_ne (s : St) {i j : Nat} (f : Channel → Channel) (h : i ≠ j) :
    (s.modCh j f).chans[i]? = s.chans[i]? := by
  unfold St.modCh
  split
  · simp [List.getElem?_set_ne (Ne.symm h)]
  · rw [fail_chans]

theorem switchChannel_get_ne (s : St) {i chan : Nat} (new : Nat) (h : i ≠ chan) :
    (s.switchChannel chan new).chans[i]? = s.chans[i]? := by
  unfold St.switchChannel
  rw [setCurr_chans]
  exact modCh_get_ne s _ h

/-- the channel a control pair addresses, and the channels a mode command can switch to -/
def cmdChan (s : St) (c1 : Nat) (f2 : Bool) : Nat :=
  (s.curr f2 &&& 4) + (if f2 then 2 else 0) + ((c1 >>> 3) &&& 1)

theorem captionCommand_untouched (s : St) (c1 c2 : Nat) (f2 : Bool) (i : Nat)
    (h1 : i ≠ cmdChan s c1 f2) (h2 : i ≠ cmdChan s c1 f2 &&& 3) (h3 : i ≠ cmdChan s c1 f2 ||| 4) :
    (captionCommand s c1 c2 f2).chans[i]? = s.chans[i]? := by
  unfold captionCommand
  unfold cmdChan at h1 h2 h3
  generalize (s.curr f2 &&& 4) + (if f2 then 2 else 0) + ((c1 >>> 3) &&& 1) = chan at h1 h2 h3 ⊢
  simp only []
  repeat' split
  all_goals first
    | rfl
    | exact modCh_get_ne s _ h1
    | exact modCh_get_ne s _ (by unfold edmChan; split <;> assumption)
    | exact switchChannel_get_ne s _ h1
    | (rw [modCh_get_ne _ _ h2]; exact switchChannel_get_ne s _ h1)
    | (rw [modCh_get_ne _ _ h3]; exact switchChannel_get_ne s _ h1)


/-! ## bit arithmetic of the channel selector -/

theorem and_mod8 (x c : Nat) (hc : 7 &&& c = c) : x &&& c = (x % 8) &&& c := by
  have : x % 8 = x &&& 7 := (Nat.and_two_pow_sub_one_eq_mod x 3).symm
  rw [this, Nat.and_assoc, hc]

theorem sel_facts : ∀ m < 8, ∀ k < 2, ∀ f : Bool,
    let g := (if f then 2 else 0) + k
    let chan := (m &&& 4) + (if f then 2 else 0) + k
    (chan = g ∨ chan = g + 4) ∧ chan &&& 3 = g ∧ chan ||| 4 = g + 4 ∧
    ((m &&& 5) + (if f then 2 else 0) = (if f then 2 else 0) + (m &&& 1) ∨
     (m &&& 5) + (if f then 2 else 0) = (if f then 2 else 0) + (m &&& 1) + 4) := by decide

/-- data-channel group of a control pair: 2 * field + channel bit; the pair touches only
    caption channel `g` and text channel `g + 4` -/
theorem cmdChan_group (s : St) (c1 : Nat) (f2 : Bool) :
    let g := (if f2 then 2 else 0) + ((c1 >>> 3) &&& 1)
    (cmdChan s c1 f2 = g ∨ cmdChan s c1 f2 = g + 4) ∧ cmdChan s c1 f2 &&& 3 = g ∧ cmdChan s c1 f2 ||| 4 = g + 4 := by
  have hk : (c1 >>> 3) &&& 1 < 2 := by have : (c1 >>> 3) &&& 1 ≤ 1 := Nat.and_le_right; omega
  have hm : s.curr f2 % 8 < 8 := Nat.mod_lt _ (by decide)
  have := sel_facts _ hm _ hk f2
  unfold cmdChan
  rw [and_mod8 (s.curr f2) 4 rfl]
  exact ⟨this.1, this.2.1, this.2.2.1⟩

theorem textChan_group (cur : Nat) (f2 : Bool) :
    (cur &&& 5) + (if f2 then 2 else 0) = (if f2 then 2 else 0) + (cur &&& 1) ∨
    (cur &&& 5) + (if f2 then 2 else 0) = (if f2 then 2 else 0) + (cur &&& 1) + 4 := by
  have hm : cur % 8 < 8 := Nat.mod_lt _ (by decide)
  have := (sel_facts _ hm 0 (by decide) f2).2.2.2
  rw [and_mod8 cur 5 rfl, and_mod8 cur 1 rfl]
  exact this

/-- Is the pair executed as a control pair (first byte with odd parity, 0x10..0x1F)? -/
def isControl (b0 : Nat) : Bool :=
  (Hamm.unpar8 b0).isSome && decide (0x10 ≤ b0 &&& 0x7F) && decide (b0 &&& 0x7F ≤ 0x1F)

/-- The data channel (field, channel bit) a byte pair belongs to: `2 * field + bit`, where the bit is
    bit 3 of a control code's first byte, and for text the bit of the latest mode command. -/
def pairGroup (s : St) (f2 : Bool) (b0 : Nat) : Nat :=
  (if f2 then 2 else 0) + (if isControl b0 then ((b0 &&& 0x7F) >>> 3) &&& 1 else s.curr f2 &&& 1)

theorem decodeMain_untouched (s : St) (f2 : Bool) (b0 b1 : Nat) (i : Nat)
    (h1 : i ≠ pairGroup s f2 b0) (h2 : i ≠ pairGroup s f2 b0 + 4) :
    (decodeMain s f2 b0 b1).chans[i]? = s.chans[i]? := by
  unfold decodeMain
  unfold pairGroup isControl at h1 h2
  have ht := textChan_group (s.curr f2) f2
  by_cases hbad : (Hamm.unpar8 b0).isNone = true
  · -- bad parity: both bytes become 0x7F, text branch
    have hs : (Hamm.unpar8 b0).isSome = false := by
      cases h : Hamm.unpar8 b0 <;> simp_all
    simp only [hbad, if_true, hs, Bool.false_and, Bool.false_eq_true, if_false] at h1 h2 ⊢
    have hi : i ≠ (s.curr f2 &&& 5) + (if f2 then 2 else 0) := by
      rcases ht with e | e <;> rw [e] <;> assumption
    simp only [show ¬(1 ≤ 127 ∧ 127 ≤ 0x0F) by decide, show ¬(0x10 ≤ 127 ∧ 127 ≤ 0x1F) by decide,
      show ¬((127 : Nat) = 0x80 ∧ (127 : Nat) = 0x80) by decide, if_false]
    rw [modCh_get_ne _ _ hi]
    split <;> rfl
  · have hs : (Hamm.unpar8 b0).isSome = true := by
      cases h : Hamm.unpar8 b0 <;> simp_all
    simp only [hbad, Bool.false_eq_true, if_false] at ⊢
    simp only [hs, Bool.true_and] at h1 h2
    by_cases hx : 1 ≤ b0 &&& 0x7F ∧ b0 &&& 0x7F ≤ 0x0F
    · simp only [hx, and_self, if_true]; split <;> rfl
    · simp only [hx, if_false]
      by_cases hc : 0x10 ≤ b0 &&& 0x7F ∧ b0 &&& 0x7F ≤ 0x1F
      · simp only [hc, and_self, if_true]
        simp only [hc.1, hc.2, decide_true, Bool.and_self, if_true] at h1 h2
        have hg := cmdChan_group s (b0 &&& 0x7F) f2
        have hu : ∀ c2, (captionCommand s (b0 &&& 0x7F) c2 f2).chans[i]? = s.chans[i]? := by
          intro c2
          apply captionCommand_untouched
          · rcases hg.1 with e | e <;> rw [e] <;> assumption
          · rw [hg.2.1]; exact h1
          · rw [hg.2.2]; exact h2
        repeat' split
        all_goals first
          | rfl
          | exact hu _
      · simp only [hc, if_false]
        have hnc : (decide (0x10 ≤ b0 &&& 0x7F) && decide (b0 &&& 0x7F ≤ 0x1F)) = false := by
          simp only [Bool.and_eq_false_iff, decide_eq_false_iff_not]
          by_cases h10 : 0x10 ≤ b0 &&& 0x7F
          · right; intro h; exact hc ⟨h10, h⟩
          · left; exact h10
        simp only [hnc, Bool.false_eq_true, if_false] at h1 h2
        have hi : i ≠ (s.curr f2 &&& 5) + (if f2 then 2 else 0) := by
          rcases ht with e | e <;> rw [e] <;> assumption
        split
        · exact modCh_get_ne _ _ hi
        · rw [modCh_get_ne _ _ hi]; split <;> rfl

theorem xdsConsumed_chans (s : St) (f : Bool) (b0 : Nat) : (xdsConsumed s f b0).chans = s.chans := by
  unfold xdsConsumed; simp only []; split <;> rfl

theorem decodePair_untouched (s : St) (f2 : Bool) (b0 b1 : Nat) (i : Nat)
    (h1 : i ≠ pairGroup s f2 b0) (h2 : i ≠ pairGroup s f2 b0 + 4) :
    (decodePair s f2 b0 b1).chans[i]? = s.chans[i]? := by
  unfold decodePair
  split
  · rw [xdsConsumed_chans]
  · rename_i s' hs
    obtain ⟨_, hc, _, _, _⟩ := xdsGate_some hs
    have hcur := xdsGate_some_curr hs f2
    have hg : pairGroup s' f2 b0 = pairGroup s f2 b0 := by unfold pairGroup; rw [hcur]
    rw [← hc]
    exact decodeMain_untouched s' f2 b0 b1 i (hg ▸ h1) (hg ▸ h2)


/-! ## control pairs: field-1 repetition latch -/

theorem decodePair_f1_control (s : St) (b0 b1 : Nat) (hp0 : (Hamm.unpar8 b0).isSome = true)
    (hp1 : (Hamm.unpar8 b1).isSome = true) (hc : 0x10 ≤ b0 &&& 0x7F ∧ b0 &&& 0x7F ≤ 0x1F) :
    decodePair s false b0 b1 =
      if b0 = s.last0 ∧ b1 = s.last1 then { s with last0 := 0 }
      else { captionCommand s (b0 &&& 0x7F) (b1 &&& 0x7F) false with last0 := b0, last1 := b1 } := by
  have hn : (Hamm.unpar8 b0).isNone = false := by cases h : Hamm.unpar8 b0 <;> simp_all
  have hx : ¬(1 ≤ b0 &&& 0x7F ∧ b0 &&& 0x7F ≤ 0x0F) := by omega
  unfold decodePair xdsGate
  simp only [Bool.false_eq_true, if_false]
  unfold decodeMain
  simp only [hn, Bool.false_eq_true, if_false, hx, hc, and_self, if_true, hp1, Bool.not_false, Bool.true_and,
    Bool.and_eq_true, beq_iff_eq]

theorem decodePair_f2_control (s : St) (b0 b1 : Nat) (hp0 : (Hamm.unpar8 b0).isSome = true)
    (hp1 : (Hamm.unpar8 b1).isSome = true) (hc : 0x10 ≤ b0 &&& 0x7F ∧ b0 &&& 0x7F ≤ 0x1F) :
    decodePair s true b0 b1 = captionCommand { s with xds := false } (b0 &&& 0x7F) (b1 &&& 0x7F) true := by
  have hn : (Hamm.unpar8 b0).isNone = false := by cases h : Hamm.unpar8 b0 <;> simp_all
  have hx : ¬(1 ≤ b0 &&& 0x7F ∧ b0 &&& 0x7F ≤ 0x0F) := by omega
  have h0 : ¬ b0 &&& 0x7F = 0 := by omega
  have h15 : ¬ b0 &&& 0x7F ≤ 0x0F := by omega
  unfold decodePair xdsGate
  simp only [if_true, hp0, h0, h15, if_false, hc.2]
  unfold decodeMain
  simp only [hn, Bool.false_eq_true, if_false, hx, hc, and_self, if_true, hp1, Bool.not_true, Bool.false_and]

theorem captionCommand_last (s : St) (c1 c2 : Nat) (f2 : Bool) :
    (captionCommand s c1 c2 f2).last0 = s.last0 ∧ (captionCommand s c1 c2 f2).last1 = s.last1 := by
  have hm : ∀ (t : St) i f, (t.modCh i f).last0 = t.last0 ∧ (t.modCh i f).last1 = t.last1 := by
    intro t i f; unfold St.modCh St.fail; repeat' split
    all_goals exact ⟨rfl, rfl⟩
  have hsw : ∀ (t : St) i n, (t.switchChannel i n).last0 = t.last0 ∧ (t.switchChannel i n).last1 = t.last1 := by
    intro t i n; unfold St.switchChannel
    rw [(setCurr_last _ _).1, (setCurr_last _ _).2.1]; exact hm t i _
  unfold captionCommand
  simp only []
  repeat' split
  all_goals first
    | exact ⟨rfl, rfl⟩
    | exact hm _ _ _
    | exact hsw _ _ _
    | exact ⟨(hm _ _ _).1.trans (hsw _ _ _).1, (hm _ _ _).2.trans (hsw _ _ _).2⟩

end Zvbi.Cc
