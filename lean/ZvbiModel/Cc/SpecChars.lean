/-!
# Reference: the Closed Caption character repertoire of the standard, written independently of lang.c

* basic set and special characters: 47 CFR 15.119 (g);
* extended characters: EIA/CEA-608-B section 6.4.2 (Spanish / miscellaneous / French set = first byte 0x12 / 0x1A,
  Portuguese / German / Danish set = first byte 0x13 / 0x1B, second byte 0x20..0x3F).

Written as the CHARACTERS of the standard's chart (Lean character literals), not as numbers copied from the C
tables.  The chart shows glyphs, not code points; two cells are drawing elements meant to join the four corner
pieces 0x3C..0x3F of the second set: the long horizontal dash 0x12 0x2A ("em dash") and the full-height vertical bar
0x13 0x37.  The reference takes the dash as U+2014 EM DASH, the name the standard gives it, and the bar as U+2502.
-/
namespace Zvbi.Eia608.Chars

def code (c : Char) : Nat := c.toNat

/-- 15.119 (g): codes 0x20..0x7F = ASCII except ten cells -/
def basic (c : Nat) : Nat :=
  if c = 0x2A then code 'á' else if c = 0x5C then code 'é' else if c = 0x5E then code 'í'
  else if c = 0x5F then code 'ó' else if c = 0x60 then code 'ú' else if c = 0x7B then code 'ç'
  else if c = 0x7C then code '÷' else if c = 0x7D then code 'Ñ' else if c = 0x7E then code 'ñ'
  else if c = 0x7F then code '■' else c

/-- 15.119 (g): special characters, second byte 0x30..0x3F (0x39 = transparent space) -/
def special : List Char := ['®', '°', '½', '¿', '™', '¢', '£', '♪', 'à', ' ', 'è', 'â', 'ê', 'î', 'ô', 'û']

/-- EIA-608-B 6.4.2, first byte 0x12 / 0x1A, second byte 0x20..0x3F -/
def extended2 : List Char :=
  ['Á', 'É', 'Ó', 'Ú', 'Ü', 'ü', '‘', '¡', '*', '\'', '—', '©', '℠', '•', '“', '”',
   'À', 'Â', 'Ç', 'È', 'Ê', 'Ë', 'ë', 'Î', 'Ï', 'ï', 'Ô', 'Ù', 'ù', 'Û', '«', '»']

/-- EIA-608-B 6.4.2, first byte 0x13 / 0x1B, second byte 0x20..0x3F -/
def extended3 : List Char :=
  ['Ã', 'ã', 'Í', 'Ì', 'ì', 'Ò', 'ò', 'Õ', 'õ', '{', '}', '\\', '^', '_', '|', '~',
   'Ä', 'ä', 'Ö', 'ö', 'ß', '¥', '¤', '│', 'Å', 'å', 'Ø', 'ø', '┌', '┐', '└', '┘']

/-- the character a printable PAIR stands for: `c1` = first byte without parity (0x11..0x13, 0x19..0x1B), `c2` second -/
def ofPair (c1 c2 : Nat) : Option Nat :=
  let set := c1 &&& 0x77          -- the channel bit 0x08 does not select a character
  if set = 0x11 ∧ 0x30 ≤ c2 ∧ c2 ≤ 0x3F then (special[c2 - 0x30]?).map code
  else if set = 0x12 ∧ 0x20 ≤ c2 ∧ c2 ≤ 0x3F then (extended2[c2 - 0x20]?).map code
  else if set = 0x13 ∧ 0x20 ≤ c2 ∧ c2 ≤ 0x3F then (extended3[c2 - 0x20]?).map code
  else none

/-- simple upper-casing of Latin-1 letters (what `to_upper` is documented to do) -/
def upper (u : Nat) : Nat :=
  if (0x61 ≤ u ∧ u ≤ 0x7A) ∨ (0xE0 ≤ u ∧ u ≤ 0xFE ∧ u ≠ 0xF7) then u - 0x20 else u

end Zvbi.Eia608.Chars
