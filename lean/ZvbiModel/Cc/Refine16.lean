import ZvbiModel.Cc.Refine15
import ZvbiModel.Cc.Refine4
/-!
# Pop-on captions whose rows mix basic and special characters

`Refine3/4` with the text of a row generalised from 7-bit codes to `Glyph`s: a basic character (one byte of a text
pair) or a special character (the control pair 0x11 / 0x19 0x30..0x3F, except 0x39, the transparent space).  Every
glyph is one `putChar` with the current pen on both sides (`glyphM_eq`, `glyphS_eq`), so the induction of
`text_sim_pop` goes through with `putChar_sim_glyph`; the rest (`PopRel`, PAC, RCL ENM, EOC, streams) is reused.
Channel level, every caption channel.
-/
namespace Zvbi.Cc
open Zvbi.Gen.Cc Eia608

inductive Glyph
  | code (ci : Nat)       -- a byte 0x20..0x7F of a text pair
  | special (k : Nat)     -- special character k: second byte 0x30 | k
deriving Repr, DecidableEq

def Glyph.ok : Glyph → Bool
  | .code ci => isCharCode ci
  | .special k => decide (k < 16) && decide (k ≠ 9)

/-- the character of the standard's chart (15.119 (g)) -/
def Glyph.uni : Glyph → Nat
  | .code ci => Eia608.basicChar ci
  | .special k => Eia608.specialChar k

/-- libzvbi: `put_char` from the text branch, resp. `caption_command` `case 1:` with bit 4 of the second byte -/
def glyphM (chan : Nat) (ch : Channel) : Glyph → Channel
  | .code ci => putChar ch { ch.attr with unicode := captionUnicode ci }
  | .special k => specialChar ch chan (0x30 ||| k)

/-- reference -/
def glyphS (v : Service) : Glyph → Service
  | .code ci => v.putChar (Eia608.basicChar ci)
  | .special k => v.exec (.special k)

def glyphRun (chan : Nat) (ch : Channel) (gs : List Glyph) : Channel := gs.foldl (glyphM chan) ch
def glyphRunS (v : Service) (gs : List Glyph) : Service := gs.foldl glyphS v

theorem glyphM_eq (chan : Nat) (ch : Channel) (g : Glyph) (hg : g.ok = true) :
    glyphM chan ch g = putChar ch { ch.attr with unicode := g.uni } := by
  cases g with
  | code ci =>
    show putChar ch { ch.attr with unicode := captionUnicode ci } = putChar ch { ch.attr with unicode := Eia608.basicChar ci }
    rw [charCode_std ci hg]
  | special k =>
    simp only [Glyph.ok, Bool.and_eq_true, decide_eq_true_eq] at hg
    show Cc.specialChar ch chan (0x30 ||| k) = putChar ch { ch.attr with unicode := Eia608.specialChar k }
    unfold Cc.specialChar
    simp only [(special_c2 k hg.1).2.2.1, hg.2, if_false, special_glyph k hg.1]

theorem glyphS_eq (v : Service) (hm : v.mode ≠ none) (g : Glyph) (hg : g.ok = true) : glyphS v g = v.putChar g.uni := by
  cases g with
  | code ci => rfl
  | special k =>
    simp only [Glyph.ok, Bool.and_eq_true, decide_eq_true_eq] at hg
    show v.exec (.special k) = v.putChar (Eia608.specialChar k)
    unfold Service.exec
    simp only [hg.2, if_false]
    split
    · rename_i hn; exact absurd hn hm
    · rfl

/-- `text_sim_pop` for glyph runs -/
theorem glyph_sim_pop (chan : Nat) (c0 : Nat) (gs : List Glyph) : ∀ {ch : Channel} {v : Service} {lead : Bool} {xs : List SCell},
    ChInv ch → ch.mode = .popOn → v.mode = some .popOn → RowSim ch v lead c0 xs →
    (∀ g ∈ gs, g.ok = true) → c0 + xs.length + gs.length ≤ 33 →
    ∃ lead' xs', RowSim (glyphRun chan ch gs) (glyphRunS v gs) lead' c0 xs' ∧
      ChInv (glyphRun chan ch gs) ∧ Frame ch (glyphRun chan ch gs) ∧ (glyphRun chan ch gs).nev = ch.nev ∧
      (∀ r j, j < 34 → (glyphRun chan ch gs).dcell r j = ch.dcell r j) ∧
      (∀ r c, r ≠ v.row → (glyphRunS v gs).nond r c = v.nond r c) ∧
      (glyphRunS v gs).mode = some .popOn ∧ (glyphRunS v gs).disp = v.disp := by
  induction gs with
  | nil =>
    intro ch v lead xs h _ hvm Q _ _
    exact ⟨lead, xs, Q, h, Frame.refl _, rfl, fun _ _ _ => rfl, fun _ _ _ => rfl, hvm, rfl⟩
  | cons g rest ih =>
    intro ch v lead xs h hm hvm Q hw hlen
    have hg := hw g (List.mem_cons_self ..)
    have hlen' : c0 + xs.length + (rest.length + 1) ≤ 33 := by simpa using hlen
    have st := putChar_sim_glyph h Q g.uni (by omega)
    simp only at st
    obtain ⟨_, Q1, sO, pi, pf, pside⟩ := st
    have hnp : ¬ (({ ch.attr with unicode := g.uni } : Cell).isSpace = true ∧ ch.mode ≠ .popOn) := by
      intro hc; exact hc.2 hm
    rw [if_neg hnp] at pside
    obtain ⟨s1, s2, s3, s4, _⟩ := spec_putChar_step v g.uni Q.vmode (by
      have := Q.vcol; have := Q.R.col; have : (xs.map toCell).length = xs.length := List.length_map _; omega)
    have hvm1 : (v.putChar g.uni).mode = some .popOn := by rw [s4]; exact hvm
    have sp := spec_putChar_pop hvm g.uni
    have := ih (ch := putChar ch { ch.attr with unicode := g.uni }) (v := v.putChar g.uni)
      pi (by rw [pf.mode]; exact hm) hvm1 Q1 (fun c hc => hw c (List.mem_cons_of_mem _ hc)) (by simp; omega)
    obtain ⟨lead', xs', Q2, i2, f2, n2, d2, o2, m2, dd2⟩ := this
    have ec : glyphRun chan ch (g :: rest) = glyphRun chan (putChar ch { ch.attr with unicode := g.uni }) rest := by
      unfold glyphRun; rw [List.foldl_cons, glyphM_eq chan ch g hg]
    have es : glyphRunS v (g :: rest) = glyphRunS (v.putChar g.uni) rest := by
      unfold glyphRunS; rw [List.foldl_cons, glyphS_eq v Q.vmode g hg]
    rw [ec, es]
    refine ⟨lead', xs', Q2, i2, pf.trans f2, by rw [n2, pside.1], ?_, ?_, m2, by rw [dd2, sp.1]⟩
    · intro r j hj; rw [d2 r j hj, pside.2 r j hj]
    · intro r c hr
      rw [o2 r c (by rw [s2]; exact hr)]
      have := sO r c hr
      rw [sp.2, spec_target_pop hvm] at this
      exact this

/-- `text_pop` for glyph runs -/
theorem glyph_pop {ch : Channel} {v : Service} (P : PopRel ch v) (chan : Nat) {lead : Bool} {c0 : Nat} {xs : List SCell}
    (Q : RowSim ch v lead c0 xs) (gs : List Glyph) (hw : ∀ g ∈ gs, g.ok = true)
    (hlen : c0 + xs.length + gs.length ≤ 33) :
    PopRel (glyphRun chan ch gs) (glyphRunS v gs) ∧ (glyphRun chan ch gs).nev = ch.nev := by
  obtain ⟨lead', xs', Q2, i2, f2, n2, d2, o2, m2, dd2⟩ := glyph_sim_pop chan c0 gs P.inv P.mode P.vmode Q hw hlen
  refine ⟨⟨i2, by rw [f2.idx]; exact P.idx, by rw [f2.mode]; exact P.mode, m2, ?_, ?_, ?_, Q2.pen⟩, n2⟩
  · intro r hr j hj
    rw [d2 r j hj, dd2]; exact P.disp r hr j hj
  · intro r hr hne j hj
    rw [f2.row] at hne
    rw [f2.rows r j hj hne]
    obtain ⟨c, hc, e⟩ := P.rows r hr hne j hj
    refine ⟨c, hc, ?_⟩
    rw [e]
    exact (renderCell_congr (fun c => o2 r c (by rw [Q.vrow]; exact hne)) j).symm
  · refine ⟨lead', c0, xs', Q2.R, ?_⟩
    have := Q2.S
    rw [spec_target_pop m2] at this
    exact this

/-! ## rows, captions, streams -/

/-- one row of a pop-on caption: a PAC and the glyphs typed after it -/
structure GRow where
  c1 : Nat
  c2 : Nat
  text : List Glyph

def gRowModel (chan : Nat) (ch : Channel) (it : GRow) : Channel := glyphRun chan (pac ch chan it.c1 it.c2) it.text

def gRowSpec (v : Service) (it : GRow) : Service :=
  match pacArgs it.c1 it.c2 with
  | some (r, ind, col, u) => glyphRunS (v.exec (.pac r ind col u)) it.text
  | none => v

/-- well-formed row, judged on the reference state: a defined PAC (any row, indent, colour, italics, underline) whose
    row is still empty in the non-displayed memory, followed by basic characters 0x20..0x7F and special characters
    (not the transparent space) that fit into the row -/
def GRow.ok (v : Service) (it : GRow) : Prop :=
  it.c1 < 8 ∧ it.c2 < 128 ∧ 0x40 ≤ it.c2 ∧
  ∃ r ind col u, pacArgs it.c1 it.c2 = some (r, ind, col, u) ∧ (∀ c, v.nond r c = none) ∧
    (∀ g ∈ it.text, g.ok = true) ∧ 1 + ind + it.text.length ≤ 33

def gRowsOk : Service → List GRow → Prop
  | _, [] => True
  | v, it :: rest => it.ok v ∧ gRowsOk (gRowSpec v it) rest

theorem gRow_step {ch : Channel} {v : Service} (P : PopRel ch v) {chan : Nat} (hchan : chan < 4) (it : GRow)
    (hok : it.ok v) : PopRel (gRowModel chan ch it) (gRowSpec v it) ∧ (gRowModel chan ch it).nev = ch.nev := by
  obtain ⟨h1, h2, h3, r, ind, col, u, ha, hempty, hw, hlen⟩ := hok
  obtain ⟨P1, Q1, n1⟩ := pac_pop P hchan h1 h2 h3 ha hempty
  unfold gRowModel gRowSpec
  rw [ha]
  obtain ⟨P2, n2⟩ := glyph_pop P1 chan Q1 it.text hw (by simpa using hlen)
  exact ⟨P2, by rw [n2, n1]⟩

theorem gRows_steps (chan : Nat) (hchan : chan < 4) (rows : List GRow) : ∀ {ch : Channel} {v : Service},
    PopRel ch v → gRowsOk v rows →
    PopRel (rows.foldl (gRowModel chan) ch) (rows.foldl gRowSpec v) ∧ (rows.foldl (gRowModel chan) ch).nev = ch.nev := by
  induction rows with
  | nil => intro ch v P _; exact ⟨P, rfl⟩
  | cons it rest ih =>
    intro ch v P hok
    obtain ⟨P1, n1⟩ := gRow_step P hchan it hok.1
    obtain ⟨P2, n2⟩ := ih P1 hok.2
    exact ⟨P2, by rw [List.foldl_cons, n2, n1]⟩

/-- `RCL ENM (PAC glyph*)* EOC` on the addressed caption channel -/
def gCaptionModel (chan : Nat) (ch : Channel) (rows : List GRow) : Channel :=
  endOfCaption (rows.foldl (gRowModel chan) (eraseNonDisplayed (rclModel ch)))

def gCaptionSpec (v : Service) (rows : List GRow) : Service :=
  (rows.foldl gRowSpec ((v.exec .rcl).exec .enm)).exec .eoc

def gCaptionOk (v : Service) (rows : List GRow) : Prop := gRowsOk ((v.exec .rcl).exec .enm) rows

theorem gCaption_refines {ch : Channel} {v : Service} (I : IdleRel ch v) {chan : Nat} (hchan : chan < 4)
    (rows : List GRow) (hok : gCaptionOk v rows) :
    IdleRel (gCaptionModel chan ch rows) (gCaptionSpec v rows) := by
  have P0 := rcl_enm_step I
  obtain ⟨P1, _⟩ := gRows_steps chan hchan rows P0 hok
  exact (eoc_step P1).1

def gStreamOk : Service → List (List GRow) → Prop
  | _, [] => True
  | v, c :: rest => gCaptionOk v c ∧ gStreamOk (gCaptionSpec v c) rest

/-- `popon_stream_refines` for captions with special characters -/
theorem popon_glyph_stream_refines (chan : Nat) (hchan : chan < 4) (caps : List (List GRow)) :
    ∀ {ch : Channel} {v : Service}, IdleRel ch v → gStreamOk v caps →
    IdleRel (caps.foldl (gCaptionModel chan) ch) (caps.foldl gCaptionSpec v) ∧
    ∀ n, n ≤ caps.length →
      pageMatches ((caps.take n).foldl (gCaptionModel chan) ch) ((caps.take n).foldl gCaptionSpec v) := by
  induction caps with
  | nil =>
    intro ch v I _
    refine ⟨I, ?_⟩
    intro n hn
    simp
    exact pageMatches_of_dispOK I.inv I.disp
  | cons c rest ih =>
    intro ch v I hok
    have I1 := gCaption_refines I hchan c hok.1
    obtain ⟨I2, hv⟩ := ih I1 hok.2
    refine ⟨I2, ?_⟩
    intro n hn
    cases n with
    | zero => simp; exact pageMatches_of_dispOK I.inv I.disp
    | succ k =>
      simp only [List.take_succ_cons, List.foldl_cons]
      exact hv k (by simpa using hn)

end Zvbi.Cc
