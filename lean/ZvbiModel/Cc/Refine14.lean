import ZvbiModel.Cc.Refine13
/-!
# Refinement to `Eia608`, part 14: roll-up and paint-on scripts as byte pairs (field 1, CC1)
-/
namespace Zvbi.Cc
open Zvbi.Gen.Cc Eia608
open Zvbi.Hamm (par8 unpar8)

theorem RollRel.nul {ch : Channel} {v : Service} {n : Nat} {sy : Bool} (R : RollRel ch v n sy) (k : Nat) :
    RollRel { ch with nulCt := k } v n sy := by
  obtain ⟨i, ix, m, rl, vm, n2, n4, b, vb, rows, cur, sync⟩ := R
  obtain ⟨lead, c0, xs, Q, sy'⟩ := cur
  exact ⟨i.withNul k, ix, m, rl, vm, n2, n4, b, vb, rows,
    ⟨lead, c0, xs, ⟨Q.R.transfer rfl rfl rfl (fun _ _ => rfl), Q.S, Q.vrow, Q.vcol, Q.pen, Q.vmode⟩, sy'⟩, sync⟩

theorem PaintRel.nul {ch : Channel} {v : Service} {sy cu : Bool} (P : PaintRel ch v sy cu) (k : Nat) :
    PaintRel { ch with nulCt := k } v sy cu := by
  obtain ⟨i, ix, m, vm, rows, fresh, cur, sync, cursor⟩ := P
  obtain ⟨lead, c0, xs, R, S, sy'⟩ := cur
  exact ⟨i.withNul k, ix, m, vm, rows, fresh, ⟨lead, c0, xs, R.transfer rfl rfl rfl (fun _ _ => rfl), S, sy'⟩, sync, cursor⟩

/-! ## roll-up -/

/-- both decoders in roll-up mode on CC1 -/
def SimRoll (s : St) (t : Eia608.St) (n : Nat) (sy : Bool) : Prop :=
  ∃ ch v, Lift s ch ∧ SLift t v ∧ t.f1.cur = some (false, 0) ∧ v.isText = false ∧ RollRel ch v n sy

theorem visible_of_simRoll {s : St} {t : Eia608.St} {n : Nat} (S : SimRoll s t n true) :
    modelVisible s 0 = some (t.visible 0) := by
  obtain ⟨ch, v, L, SL, _, hcap, R⟩ := S
  have pm := pageMatches_of_dispOK R.inv R.dispOK
  unfold modelVisible Eia608.St.visible
  rw [L.get, SL.get]
  simp only [Option.map_some]
  unfold pageMatches at pm
  rw [pm, hcap]

/-- byte-level op of a roll-up script: a text pair, or CR sent twice -/
inductive RBOp
  | pair (a b : Nat)
  | cr

def RBOp.enc : RBOp → List (Bool × Nat × Nat)
  | .pair a b => txt a b
  | .cr => ctl 0x14 0x2D

def RBOp.toROp : RBOp → ROp
  | .pair a b => .text (pairCodes a b)
  | .cr => .cr

def RBOp.ok (t : Eia608.St) : RBOp → Prop
  | .pair a b => 0x20 ≤ a ∧ a < 0x80 ∧ (b = 0 ∨ (0x20 ≤ b ∧ b < 0x80)) ∧
      ∃ v, t.svc[0]? = some v ∧ v.col + (pairCodes a b).length ≤ 33
  | .cr => True

def rbopsOk : Eia608.St → List RBOp → Prop
  | _, [] => True
  | t, op :: rest => op.ok t ∧ rbopsOk (sfeed t op.enc) rest

theorem pairCodes_ok {a b : Nat} (ha : 0x20 ≤ a) (ha' : a < 0x80) (hb : b = 0 ∨ (0x20 ≤ b ∧ b < 0x80)) :
    pairCodes a b ≠ [] ∧ ∀ ci ∈ pairCodes a b, isCharCode ci = true := by
  unfold pairCodes isCharCode
  rcases hb with hb | hb
  · subst hb; simp; omega
  · have : b ≠ 0 := by omega
    simp [this]; omega

theorem rbop_step {s : St} {t : Eia608.St} {n : Nat} {sy : Bool} (S : SimRoll s t n sy) (op : RBOp) (hok : op.ok t) :
    SimRoll (feed s op.enc) (sfeed t op.enc) n op.toROp.visible := by
  obtain ⟨ch, v, L, SL, hcur, hcap, R⟩ := S
  cases op with
  | pair a b =>
    obtain ⟨ha, ha', hbb, v', hv', hl⟩ := hok
    have hvv : v' = v := by rw [SL.get] at hv'; cases hv'; rfl
    subst hvv
    have hmode : ch.mode ≠ .none := by rw [R.mode]; decide
    have hb128 : b < 128 := by rcases hbb with h | h <;> omega
    have L' := lift_text L hmode ha ha' hbb
    obtain ⟨SL', hcur'⟩ := spec_text SL hcur ha ha' hbb
    obtain ⟨hne, hw⟩ := pairCodes_ok ha ha' hbb
    have hstep := text_roll (R.nul 0) (pairCodes a b) hne hw hl
    refine ⟨_, _, ?_, ?_, ?_, by rw [specRun_isText]; exact hcap, hstep⟩
    · show Lift (feed s (txt a b)) _
      rw [feed_txt s (by omega) hb128]; exact L'
    · show SLift (sfeed t (txt a b)) _
      rw [sfeed_txt]; exact SL'
    · show (sfeed t (txt a b)).f1.cur = _
      rw [sfeed_txt]; exact hcur'
  | cr =>
    have cc := cc1_commands L.cur
    have L' : Lift (feed s (ctl 0x14 0x2D)) (carriageReturn ch 0) := by
      rw [feed_ctl s (by omega) (by omega)]
      exact lift_of_cmd L (by omega) (by omega) (by omega) (F := fun x => carriageReturn x 0)
        (by rw [cc.2.2.2.2.1]; exact cmd_mod L _)
    obtain ⟨SL', hcur'⟩ := spec_cmd_twice SL hcur (c1 := 0x14) (c2 := 0x2D) (by omega) (by omega) (by omega)
      (cmd := .cr) (by decide) (Or.inr (Or.inr rfl))
    rw [← sfeed_ctl] at SL' hcur'
    exact ⟨_, _, L', SL', hcur', by rw [exec_isText]; exact hcap, cr_step R (by omega)⟩

theorem rbops_refine (n : Nat) (ops : List RBOp) : ∀ {s : St} {t : Eia608.St} {sy : Bool}, SimRoll s t n sy → rbopsOk t ops →
    ∀ k, (hk0 : 0 < k) → (hk : k ≤ ops.length) → (ops[k - 1]'(by omega)).toROp.visible = true →
      modelVisible (feed s ((ops.take k).flatMap RBOp.enc)) 0 = some ((sfeed t ((ops.take k).flatMap RBOp.enc)).visible 0) := by
  induction ops with
  | nil => intro s t sy _ _ k hk0 hk; simp at hk; omega
  | cons op rest ih =>
    intro s t sy S hok k hk0 hk hvis
    have S1 := rbop_step S op hok.1
    cases k with
    | zero => omega
    | succ k' =>
      rw [List.take_succ_cons, List.flatMap_cons, feed_append, sfeed_append]
      cases k' with
      | zero =>
        simp only [List.take_zero, List.flatMap_nil]
        have hv : op.toROp.visible = true := by simpa using hvis
        rw [hv] at S1
        exact visible_of_simRoll S1
      | succ k'' =>
        have hk' : k'' + 1 ≤ rest.length := by simpa using hk
        exact ih S1 hok.2 (k'' + 1) (by omega) hk' (by simpa using hvis)

/-- the RUx control byte -/
def ruByte (n : Nat) : Nat := 0x23 + n

/-- `RUn RUn [PAC PAC]` -/
def encRollStart (n : Nat) (pac : Option (Nat × Nat)) : List (Bool × Nat × Nat) :=
  ctl 0x14 (ruByte n) ++ (match pac with | some (lo, c2) => ctl (0x10 + lo) c2 | none => [])

theorem roll_start_bytes {s : St} {t : Eia608.St} (S : SimIdle s t) {n : Nat} (h2 : 2 ≤ n) (h4 : n ≤ 4)
    (pac : Option (Nat × Nat))
    (hp : ∀ lo c2, pac = some (lo, c2) → lo < 8 ∧ c2 < 128 ∧ 0x40 ≤ c2 ∧ (pacArgs lo c2).isSome) :
    SimRoll (feed s (encRollStart n pac)) (sfeed t (encRollStart n pac)) n true := by
  obtain ⟨ch, v, L, SL, hcap, I⟩ := S
  have cc := cc1_commands L.cur
  have hcode : captionCommand s 0x14 (ruByte n) false = (s.switchChannel 0 0).modCh 0 (fun ch => rollUpCmd ch n) := by
    have : n = 2 ∨ n = 3 ∨ n = 4 := by omega
    rcases this with rfl | rfl | rfl
    · exact cc.2.2.2.2.2.1
    · exact cc.2.2.2.2.2.2.1
    · exact cc.2.2.2.2.2.2.2
  have hdec : decodeCmd 0x14 (ruByte n) = some (0, .ru n) := by
    have : n = 2 ∨ n = 3 ∨ n = 4 := by omega
    rcases this with rfl | rfl | rfl <;> decide
  have L1 : Lift (feed s (ctl 0x14 (ruByte n))) (ruModel ch n) := by
    rw [feed_ctl s (by omega) (by unfold ruByte; omega)]
    exact lift_of_cmd L (by omega) (by omega) (by unfold ruByte; omega) (F := fun x => ruModel ch n)
      (by rw [hcode]; exact cmd_switch L _)
  obtain ⟨SL1, cur1⟩ := spec_mode_twice SL (c1 := 0x14) (c2 := ruByte n) (by omega) (by omega) (by unfold ruByte; omega)
    (cmd := .ru n) hdec (Or.inr (Or.inl ⟨n, rfl⟩))
  rw [← sfeed_ctl] at SL1 cur1
  obtain ⟨R0, B0⟩ := ru_step I h2 h4
  unfold encRollStart
  rw [feed_append, sfeed_append]
  cases hpac : pac with
  | none =>
    show SimRoll (feed _ []) (sfeed _ []) n true
    exact ⟨_, _, L1, SL1, cur1, by rw [exec_isText]; exact hcap, R0⟩
  | some p =>
    obtain ⟨lo, c2⟩ := p
    obtain ⟨a1, a2, a3, a4⟩ := hp lo c2 hpac
    cases ha : pacArgs lo c2 with
    | none => rw [ha] at a4; cases a4
    | some a =>
      obtain ⟨r, ind, col, u⟩ := a
      have hd : decodeCmd (0x10 + lo) c2 = some (0, .pac r ind col u) := by
        rw [decodeCmd_pac1 lo a1 c2 a2, decodeCmd_pac lo a1 c2 a2 a3, ha]; rfl
      have L2 := lift_of_cmd L1 (c1 := 0x10 + lo) (c2 := c2) (by omega) (by omega) a2
        (F := fun x => Zvbi.Cc.pac x 0 lo c2) (by rw [cc1_pac L1.cur a1 a3]; exact cmd_mod L1 _)
      obtain ⟨SL2, cur2⟩ := spec_cmd_twice SL1 cur1 (c1 := 0x10 + lo) (c2 := c2) (by omega) (by omega) a2 hd
        (Or.inl ⟨r, ind, col, u, rfl⟩)
      have R1 := (pac_roll R0 B0 (chan := 0) (by omega) a1 a2 a3 ha).1
      refine ⟨_, _, ?_, ?_, ?_, by rw [exec_isText, exec_isText]; exact hcap, R1⟩
      · show Lift (feed _ (ctl (0x10 + lo) c2)) _
        rw [feed_ctl _ (by omega) a2]; exact L2
      · show SLift (sfeed _ (ctl (0x10 + lo) c2)) _
        rw [sfeed_ctl]; exact SL2
      · show (sfeed _ (ctl (0x10 + lo) c2)).f1.cur = _
        rw [sfeed_ctl]; exact cur2


/-! ## paint-on -/

/-- both decoders in paint-on mode on CC1 -/
def SimPaint (s : St) (t : Eia608.St) (sy cu : Bool) : Prop :=
  ∃ ch v, Lift s ch ∧ SLift t v ∧ t.f1.cur = some (false, 0) ∧ v.isText = false ∧ PaintRel ch v sy cu

theorem visible_of_simPaint {s : St} {t : Eia608.St} {cu : Bool} (S : SimPaint s t true cu) :
    modelVisible s 0 = some (t.visible 0) := by
  obtain ⟨ch, v, L, SL, _, hcap, P⟩ := S
  have pm := pageMatches_of_dispOK P.inv P.dispOK
  unfold modelVisible Eia608.St.visible
  rw [L.get, SL.get]
  simp only [Option.map_some]
  unfold pageMatches at pm
  rw [pm, hcap]

/-- well-formed paint-on op at the byte level (PAC rows empty in the reference DISPLAYED memory) -/
def BOp.okPaint (t : Eia608.St) (cu : Bool) (op : BOp) : Prop :=
  op.bytesOk ∧ ∃ v, t.svc[0]? = some v ∧ op.toPOp.ok v cu

def bopsOkPaint : Eia608.St → Bool → List BOp → Prop
  | _, _, [] => True
  | t, cu, op :: rest => op.okPaint t cu ∧ bopsOkPaint (sfeed t op.enc) (op.toPOp.cursorAfter cu) rest

theorem bop_paint_step {s : St} {t : Eia608.St} {sy cu : Bool} (S : SimPaint s t sy cu) (op : BOp) (hok : op.okPaint t cu) :
    SimPaint (feed s op.enc) (sfeed t op.enc) op.toPOp.visible (op.toPOp.cursorAfter cu) := by
  obtain ⟨ch, v, L, SL, hcur, hcap, P⟩ := S
  obtain ⟨hb, v', hv', hokp⟩ := hok
  have hvv : v' = v := by rw [SL.get] at hv'; cases hv'; rfl
  subst hvv
  cases op with
  | pac lo c2 =>
    obtain ⟨h1, h2, h3, r, ind, col, u, ha, he⟩ := hokp
    have hstep := paintOp_step P (chan := 0) (by omega) (.pac lo c2) ⟨h1, h2, h3, r, ind, col, u, ha, he⟩
    have hd : decodeCmd (0x10 + lo) c2 = some (0, .pac r ind col u) := by
      rw [decodeCmd_pac1 lo h1 c2 h2, decodeCmd_pac lo h1 c2 h2 h3, ha]; rfl
    have L' := lift_of_cmd L (c1 := 0x10 + lo) (c2 := c2) (by omega) (by omega) h2
      (F := fun ch => Zvbi.Cc.pac ch 0 lo c2) (by rw [cc1_pac L.cur h1 h3]; exact cmd_mod L _)
    obtain ⟨SL', hcur'⟩ := spec_cmd_twice SL hcur (c1 := 0x10 + lo) (c2 := c2) (by omega) (by omega) h2 hd
      (Or.inl ⟨r, ind, col, u, rfl⟩)
    refine ⟨Zvbi.Cc.pac ch 0 lo c2, v'.exec (.pac r ind col u), ?_, ?_, ?_, by rw [exec_isText]; exact hcap, ?_⟩
    · show Lift (feed s (ctl (0x10 + lo) c2)) _
      rw [feed_ctl s (by omega) h2]; exact L'
    · show SLift (sfeed t (ctl (0x10 + lo) c2)) _
      rw [sfeed_ctl]; exact SL'
    · show (sfeed t (ctl (0x10 + lo) c2)).f1.cur = _
      rw [sfeed_ctl]; exact hcur'
    · have : paintOpSpec v' (.pac lo c2) = v'.exec (.pac r ind col u) := by unfold paintOpSpec; simp only [ha]
      rw [← this]; exact hstep
  | pair a b =>
    obtain ⟨ha, ha', hbb⟩ := hb
    obtain ⟨hc, hne, hw, hl⟩ := hokp
    subst hc
    have hmode : ch.mode ≠ .none := by rw [P.mode]; decide
    have hb128 : b < 128 := by rcases hbb with h | h <;> omega
    have L' := lift_text L hmode ha ha' hbb
    obtain ⟨SL', hcur'⟩ := spec_text SL hcur ha ha' hbb
    have hstep := paintOp_step (P.nul 0) (chan := 0) (by omega) (.text (pairCodes a b)) ⟨rfl, hne, hw, hl⟩
    refine ⟨charRun { ch with nulCt := 0 } (pairCodes a b), specRun v' (pairCodes a b), ?_, ?_, ?_,
      by rw [specRun_isText]; exact hcap, hstep⟩
    · show Lift (feed s (txt a b)) _
      rw [feed_txt s (by omega) hb128]; exact L'
    · show SLift (sfeed t (txt a b)) _
      rw [sfeed_txt]; exact SL'
    · show (sfeed t (txt a b)).f1.cur = _
      rw [sfeed_txt]; exact hcur'

theorem bops_paint_refine (ops : List BOp) : ∀ {s : St} {t : Eia608.St} {sy cu : Bool}, SimPaint s t sy cu →
    bopsOkPaint t cu ops →
    ∀ k, (hk0 : 0 < k) → (hk : k ≤ ops.length) → (ops[k - 1]'(by omega)).toPOp.visible = true →
      modelVisible (feed s ((ops.take k).flatMap BOp.enc)) 0 = some ((sfeed t ((ops.take k).flatMap BOp.enc)).visible 0) := by
  induction ops with
  | nil => intro s t sy cu _ _ k hk0 hk; simp at hk; omega
  | cons op rest ih =>
    intro s t sy cu S hok k hk0 hk hvis
    have S1 := bop_paint_step S op hok.1
    cases k with
    | zero => omega
    | succ k' =>
      rw [List.take_succ_cons, List.flatMap_cons, feed_append, sfeed_append]
      cases k' with
      | zero =>
        simp only [List.take_zero, List.flatMap_nil]
        have hv : op.toPOp.visible = true := by simpa using hvis
        rw [hv] at S1
        exact visible_of_simPaint S1
      | succ k'' =>
        have hk' : k'' + 1 ≤ rest.length := by simpa using hk
        exact ih S1 hok.2 (k'' + 1) (by omega) hk' (by simpa using hvis)

theorem paint_start_bytes {s : St} {t : Eia608.St} (S : SimIdle s t)
    (hrow : ∀ ch v, s.chans[0]? = some ch → t.svc[0]? = some v → ∀ c, v.disp ch.row c = none) :
    SimPaint (feed s (ctl 0x14 0x29)) (sfeed t (ctl 0x14 0x29)) true false := by
  obtain ⟨ch, v, L, SL, hcap, I⟩ := S
  have cc := cc1_commands L.cur
  have L1 : Lift (feed s (ctl 0x14 0x29)) (rdcModel ch) := by
    rw [feed_ctl s (by omega) (by omega)]
    exact lift_of_cmd L (by omega) (by omega) (by omega) (F := fun x => rdcModel ch)
      (by rw [cc.2.1]; exact cmd_switch L _)
  obtain ⟨SL1, cur1⟩ := spec_mode_twice SL (c1 := 0x14) (c2 := 0x29) (by omega) (by omega) (by omega)
    (cmd := .rdc) (by decide) (Or.inr (Or.inr (Or.inl rfl)))
  rw [← sfeed_ctl] at SL1 cur1
  exact ⟨_, _, L1, SL1, cur1, by rw [exec_isText]; exact hcap, rdc_step I (hrow ch v L.get SL.get)⟩

end Zvbi.Cc
