import ZvbiModel.Cc.Refine8
/-!
# Refinement to `Eia608`, part 9: pop-on captions as op lists (one op per byte pair), ready for the byte level
-/
namespace Zvbi.Cc
open Zvbi.Gen.Cc Eia608

/-- pop-on loading relation plus: do the cursors agree (true from the first PAC of the caption on)? -/
structure PopRelC (ch : Channel) (v : Service) (cursorOK : Bool) : Prop where
  rel : PopRel ch v
  cursor : cursorOK = true → v.row = ch.row ∧ v.col = ch.col

/-- well-formed op of a pop-on caption, judged on the reference state (rows empty in the NON-displayed memory) -/
def POp.okPop (v : Service) (cursorOK : Bool) : POp → Prop
  | .pac c1 c2 => c1 < 8 ∧ c2 < 128 ∧ 0x40 ≤ c2 ∧
      ∃ r ind col u, pacArgs c1 c2 = some (r, ind, col, u) ∧ ∀ c, v.nond r c = none
  | .text cs => cursorOK = true ∧ (∀ ci ∈ cs, isCharCode ci = true) ∧ v.col + cs.length ≤ 33

def popOpsOk : Service → Bool → List POp → Prop
  | _, _, [] => True
  | v, cu, op :: rest => op.okPop v cu ∧ popOpsOk (paintOpSpec v op) (op.cursorAfter cu) rest

theorem popOp_step {ch : Channel} {v : Service} {cu : Bool} (P : PopRelC ch v cu) {chan : Nat} (hchan : chan < 4)
    (op : POp) (hok : op.okPop v cu) :
    PopRelC (paintOpModel chan ch op) (paintOpSpec v op) (op.cursorAfter cu) := by
  cases op with
  | pac c1 c2 =>
    obtain ⟨h1, h2, h3, r, ind, col, u, ha, he⟩ := hok
    unfold paintOpModel paintOpSpec
    simp only [ha]
    obtain ⟨P1, Q1, _⟩ := pac_pop P.rel hchan h1 h2 h3 ha he
    exact ⟨P1, fun _ => ⟨Q1.vrow, Q1.vcol⟩⟩
  | text cs =>
    obtain ⟨hc, hw, hl⟩ := hok
    subst hc
    obtain ⟨vr, vc⟩ := P.cursor rfl
    obtain ⟨lead, c0, xs, R, S⟩ := P.rel.cur
    have Q : RowSim ch v lead c0 xs :=
      ⟨R, by rw [spec_target_pop P.rel.vmode]; exact S, vr, vc, P.rel.pen, by rw [P.rel.vmode]; simp⟩
    have hcol : v.col = c0 + xs.length := by rw [vc, R.col]; simp
    obtain ⟨P2, _, lead', xs', Q2⟩ := text_pop P.rel Q cs hw (by omega)
    exact ⟨P2, fun _ => ⟨Q2.vrow, Q2.vcol⟩⟩

theorem popOps_steps (chan : Nat) (hchan : chan < 4) (ops : List POp) : ∀ {ch : Channel} {v : Service} {cu : Bool},
    PopRelC ch v cu → popOpsOk v cu ops →
    ∃ cu', PopRelC (ops.foldl (paintOpModel chan) ch) (ops.foldl paintOpSpec v) cu' := by
  induction ops with
  | nil => intro ch v cu P _; exact ⟨cu, P⟩
  | cons op rest ih =>
    intro ch v cu P hok
    exact ih (popOp_step P hchan op hok.1) hok.2

/-- `RCL ENM ops EOC` with the ops given one per byte pair -/
def captionOpsModel (chan : Nat) (ch : Channel) (ops : List POp) : Channel :=
  endOfCaption (ops.foldl (paintOpModel chan) (eraseNonDisplayed (rclModel ch)))

def captionOpsSpec (v : Service) (ops : List POp) : Service :=
  (ops.foldl paintOpSpec ((v.exec .rcl).exec .enm)).exec .eoc

theorem captionOps_refines {ch : Channel} {v : Service} (I : IdleRel ch v) {chan : Nat} (hchan : chan < 4)
    (ops : List POp) (hok : popOpsOk ((v.exec .rcl).exec .enm) false ops) :
    IdleRel (captionOpsModel chan ch ops) (captionOpsSpec v ops) := by
  have P0 : PopRelC (eraseNonDisplayed (rclModel ch)) ((v.exec .rcl).exec .enm) false :=
    ⟨rcl_enm_step I, fun h => by cases h⟩
  obtain ⟨_, P1⟩ := popOps_steps chan hchan ops P0 hok
  exact (eoc_step P1.rel).1

end Zvbi.Cc
