import ZvbiModel.Cc.Lemmas3
/-!
# Events account for changes of the displayed memory (`event_on_change`)
-/
namespace Zvbi.Cc
open Zvbi.Gen.Cc

/-! ## event count of the primitives (unconditional) -/

theorem fail_nev (ch : Channel) (s : String) : (ch.fail s).nev = ch.nev := by unfold Channel.fail; split <;> rfl
theorem fail_mode (ch : Channel) (s : String) : (ch.fail s).mode = ch.mode := by unfold Channel.fail; split <;> rfl
theorem setPg_nev (ch : Channel) (b : Bool) (p : Page) : (ch.setPg b p).nev = ch.nev := by cases b <;> rfl
theorem setPg_mode (ch : Channel) (b : Bool) (p : Page) : (ch.setPg b p).mode = ch.mode := by cases b <;> rfl

theorem wr_nev' (ch : Channel) (i : Nat) (c : Cell) (s : String) : (wr ch i c s).nev = ch.nev := by
  unfold wr; simp only []; split
  · exact setPg_nev _ _ _
  · exact fail_nev _ _

theorem wr_mode' (ch : Channel) (i : Nat) (c : Cell) (s : String) : (wr ch i c s).mode = ch.mode := by
  unfold wr; simp only []; split
  · exact setPg_mode _ _ _
  · exact fail_mode _ _

theorem fill_nev' (ch : Channel) (a n : Nat) (c : Cell) (s : String) : (fill ch a n c s).nev = ch.nev := by
  unfold fill; simp only []; split
  · exact setPg_nev _ _ _
  · exact fail_nev _ _

theorem update_nev' (ch : Channel) : (update ch).nev = ch.nev := by
  unfold update; split
  · exact fail_nev _ _
  · simp only []; split
    · exact setPg_nev _ _ _
    · exact fail_nev _ _

/-- events account for the change from `a` to `b`: either at least one caption event was sent, or
    none and the displayed memory (page and 15 x 34 cells) is the same -/
def Ev (a b : Channel) : Prop := a.nev < b.nev ∨ (b.nev = a.nev ∧ b.displayed = a.displayed)

theorem Ev.refl (a : Channel) : Ev a a := Or.inr ⟨rfl, rfl⟩

theorem Ev.mono {a b : Channel} (h : Ev a b) : a.nev ≤ b.nev := by
  rcases h with h | ⟨h, _⟩ <;> omega

theorem Ev.trans {a b c : Channel} (h1 : Ev a b) (h2 : Ev b c) : Ev a c := by
  rcases h1 with h1 | ⟨e1, d1⟩
  · exact Or.inl (Nat.lt_of_lt_of_le h1 h2.mono)
  · rcases h2 with h2 | ⟨e2, d2⟩
    · exact Or.inl (by omega)
    · exact Or.inr ⟨by omega, d2.trans d1⟩

theorem Ev.loud {a b : Channel} (h : a.nev < b.nev) : Ev a b := Or.inl h

/-- `b` differs from `a` only in the non-displayed page / scalars other than `hidden` -/
theorem Ev.quiet {a b : Channel} (hn : b.nev = a.nev) (hh : b.hidden = a.hidden)
    (hp : b.pg (!a.hidden) = a.pg (!a.hidden)) : Ev a b := by
  refine Or.inr ⟨hn, ?_⟩
  unfold Channel.displayed
  rw [hh, hp]

theorem wr_ev {ch : Channel} (h : ChInv ch) {i : Nat} (hi : i ≤ 34) (c : Cell) (s : String) : Ev ch (wr ch i c s) := by
  have hl := pg_len h ch.linePg
  have hlt : ch.lineOff + i < 1056 := by have := h.line_off; have := h.row_le; omega
  refine Ev.quiet (wr_nev' _ _ _ _) (wr_upd h hi c s).hidden ?_
  unfold wr
  simp only [hl, hlt, if_true]
  rw [← h.line_pg, pg_setPg_other]

theorem fill_ev {ch : Channel} (h : ChInv ch) {a n : Nat} (hi : a + n ≤ 35) (c : Cell) (s : String) :
    Ev ch (fill ch a n c s) := by
  have hl := pg_len h ch.linePg
  have hlt : ch.lineOff + a + n ≤ 1056 := by have := h.line_off; have := h.row_le; omega
  refine Ev.quiet (fill_nev' _ _ _ _ _) (fill_upd h hi c s).hidden ?_
  unfold fill
  simp only [hl, hlt, if_true]
  rw [← h.line_pg, pg_setPg_other]

theorem eraseHidden_ev {ch : Channel} (h : ChInv ch) : Ev ch (eraseMemory ch ch.hidden) :=
  Ev.quiet (eraseMemory_nev _) (eraseMemory_upd h _).hidden (eraseMemory_other _ (pg_len h _))

/-- the first phase of `word_break` (solid spaces) is silent and invisible -/
theorem wordBreak_ev {ch : Channel} (h : ChInv ch) (upd : Bool) : Ev ch (wordBreak ch upd) := by
  have hl := pg_len h ch.linePg
  have hoff := h.line_off
  have hrow := h.row_le
  have hc1 := h.col1_pos
  have hc := h.col_le
  have hcc := h.col1_le
  have key : ∀ ch' : Channel, ChInv ch' → Ev ch ch' →
      Ev ch (if !upd || ch'.mode == .popOn then ch' else renderCh (update ch') true ch'.row) := by
    intro ch' hi e
    split
    · exact e
    · refine Ev.loud ?_
      rw [renderCh_nev, update_nev']
      have := e.mono; omega
  unfold wordBreak
  split
  · -- col > col1
    have hne : ch.col1 ≠ 0 := by omega
    simp only [hne, if_false]
    have r1 : ∃ c, rd ch ch.col1 = some c := by
      unfold rd; exact ⟨_, List.getElem?_eq_getElem (by rw [hl]; omega)⟩
    have r2 : ∃ c, rd ch (ch.col1 - 1) = some c := by
      unfold rd; exact ⟨_, List.getElem?_eq_getElem (by rw [hl]; omega)⟩
    obtain ⟨c1, e1⟩ := r1
    obtain ⟨c2, e2⟩ := r2
    simp only [e1, e2]
    have u1 : Upd ch (if (!c1.isSpace && c2.opacity == opTransparentSpace) = true then
        wr ch (ch.col1 - 1) { c1 with unicode := 0x20 } "word_break: leading" else ch) := by
      split
      · exact wr_upd h (by omega) _ _
      · exact Upd.refl _
    have v1 : Ev ch (if (!c1.isSpace && c2.opacity == opTransparentSpace) = true then
        wr ch (ch.col1 - 1) { c1 with unicode := 0x20 } "word_break: leading" else ch) := by
      split
      · exact wr_ev h (by omega) _ _
      · exact Ev.refl _
    generalize (if (!c1.isSpace && c2.opacity == opTransparentSpace) = true then
        wr ch (ch.col1 - 1) { c1 with unicode := 0x20 } "word_break: leading" else ch) = chA at u1 v1 ⊢
    have hA := u1.inv h
    have hlA := pg_len hA chA.linePg
    have r3 : ∃ c, rd chA (chA.col - 1) = some c := by
      unfold rd; refine ⟨_, List.getElem?_eq_getElem ?_⟩; rw [hlA, u1.lineOff, u1.col]; omega
    have r4 : ∃ c, rd chA chA.col = some c := by
      unfold rd; refine ⟨_, List.getElem?_eq_getElem ?_⟩; rw [hlA, u1.lineOff, u1.col]; omega
    obtain ⟨c3, e3⟩ := r3
    obtain ⟨c4, e4⟩ := r4
    simp only [e3, e4]
    apply key
    · split
      · exact (wr_upd hA (by rw [u1.col]; omega) _ _).inv hA
      · exact hA
    · split
      · exact v1.trans (wr_ev hA (by rw [u1.col]; omega) _ _)
      · exact v1
  · exact key ch h (Ev.refl _)


theorem Ev.scalar {a b : Channel} (hn : b.nev = a.nev) (hh : b.hidden = a.hidden) (h0 : b.pg0 = a.pg0)
    (h1 : b.pg1 = a.pg1) : Ev a b := by
  refine Ev.quiet hn hh ?_
  unfold Channel.pg; rw [h0, h1]

theorem ev_ite {c : Prop} [Decidable c] {x a b : Channel} (ha : c → Ev x a) (hb : ¬c → Ev x b) :
    Ev x (if c then a else b) := by
  by_cases h : c
  · simpa [h] using ha h
  · simpa [h] using hb h

theorem ite_prop {α : Type} {P : α → Prop} {c : Prop} [Decidable c] {a b : α} (ha : c → P a) (hb : ¬c → P b) :
    P (if c then a else b) := by
  by_cases h : c
  · simpa [h] using ha h
  · simpa [h] using hb h

theorem putChar_ev {ch : Channel} (h : ChInv ch) (c : Cell) : Ev ch (putChar ch c) := by
  have key : ∀ x : Channel, (ChInv x ∧ Ev ch x) → Ev ch (if c.isSpace then wordBreak x true else x) := by
    intro x ⟨hx, e⟩; split
    · exact e.trans (wordBreak_ev hx true)
    · exact e
  unfold putChar
  apply key
  simp only [columns_eq]
  refine ite_prop (P := fun x => ChInv x ∧ Ev ch x) ?_ ?_
  · intro hlt
    have u := wr_upd h (i := ch.col) (by have := h.col_le; omega) c "put_char"
    have hx := u.inv h
    have hx' := hx.withCols (c := ch.col + 1) (c1 := ch.col1) h.col1_pos (by have := h.col1_le; omega) (by omega)
    have e : Ev ch { wr ch ch.col c "put_char" with col := ch.col + 1 } :=
      (wr_ev h (by have := h.col_le; omega) c "put_char").trans (Ev.scalar rfl rfl rfl rfl)
    exact ⟨by simpa [u.col1] using hx', e⟩
  · intro _
    exact ⟨(wr_upd h (by omega) _ _).inv h, wr_ev h (by omega) _ _⟩

theorem tabFill_ev {ch : Channel} (h : ChInv ch) (n : Nat) (ts : Cell) : Ev ch (tabFill ch n ts) := by
  unfold tabFill
  simp only [columns_eq]
  apply ev_ite
  · intro _; exact Ev.refl _
  · intro _
    have hc := h.col_le
    exact (fill_ev h (a := ch.col) (n := min n (34 - 1 - ch.col)) (by omega) ts "tab").trans (Ev.scalar rfl rfl rfl rfl)

theorem backspace_ev {ch : Channel} (h : ChInv ch) (chan : Nat) : Ev ch (backspace ch chan) := by
  unfold backspace
  apply ev_ite
  · intro hc
    simp only [Bool.and_eq_true, decide_eq_true_eq] at hc
    have hcol := h.col_le
    have e := wr_ev h (i := ch.col - 1) (by omega) (transpSpace (decide (4 ≤ chan))) "backspace"
    simp only
    apply ev_ite
    · intro _; exact e.trans (Ev.scalar rfl rfl rfl rfl)
    · intro _; exact e.trans (Ev.scalar rfl rfl rfl rfl)
  · intro _; exact Ev.refl _

theorem optAttrMagic_ev {x : Channel} (hx : ChInv x) : Ev x (optAttrMagic x) := by
  unfold optAttrMagic
  apply ev_ite
  · intro hgt
    have hc := hx.col_le
    have hl := pg_len hx x.linePg
    have r : ∃ c, rd x (x.col - 1) = some c := by
      unfold rd; refine ⟨_, List.getElem?_eq_getElem ?_⟩
      rw [hl, hx.line_off]; have := hx.row_le; omega
    obtain ⟨c, e⟩ := r
    simp only [e]
    apply ev_ite
    · intro _; exact wr_ev hx (by omega) _ _
    · intro _; exact Ev.refl _
  · intro _; exact Ev.refl _

theorem attr_then {ch : Channel} (a : Cell) {f : Channel → Channel} (h : ChInv ch)
    (hf : ∀ x, ChInv x → Ev x (f x)) : Ev ch (f { ch with attr := a }) :=
  (Ev.scalar rfl rfl rfl rfl : Ev ch { ch with attr := a }).trans (hf _ (h.withAttr a))

theorem case7_ev {ch : Channel} (h : ChInv ch) (chan c2 : Nat) : Ev ch (case7 ch chan c2) := by
  unfold case7
  apply ev_ite; · intro _; exact Ev.refl _
  intro _
  apply ev_ite; · intro _; exact tabFill_ev h _ _
  intro _
  apply ev_ite
  · intro _; exact attr_then _ h (fun x hx => optAttrMagic_ev hx)
  intro _
  apply ev_ite
  · intro _; exact attr_then _ h (fun x hx => optAttrMagic_ev hx)
  intro _; exact Ev.refl _

theorem specialChar_ev {ch : Channel} (h : ChInv ch) (chan c2 : Nat) : Ev ch (specialChar ch chan c2) := by
  unfold specialChar
  simp only [columns_eq]
  apply ev_ite
  · intro _
    apply ev_ite
    · intro hlt
      exact (wr_ev h (i := ch.col) (by omega) _ _).trans (Ev.scalar rfl rfl rfl rfl)
    · intro _; exact wr_ev h (by omega) _ _
  · intro _; exact putChar_ev h _

theorem setColour_ev (x : Channel) (k : Nat) : Ev x (setColour x k) := by
  unfold setColour; split <;> exact Ev.scalar rfl rfl rfl rfl

theorem setColourMid_ev (x : Channel) (k : Nat) : Ev x (setColourMid x k) := by
  unfold setColourMid; repeat' split
  all_goals exact Ev.scalar rfl rfl rfl rfl

theorem midRow_ev {ch : Channel} (h : ChInv ch) (c2 : Nat) : Ev ch (midRow ch c2) := by
  unfold midRow putCharSpace
  have h1 := h.withAttr { ch.attr with flash := false, underline := c2 &&& 1 != 0 }
  have e1 : Ev ch { ch with attr := { ch.attr with flash := false, underline := c2 &&& 1 != 0 } } := Ev.scalar rfl rfl rfl rfl
  exact (e1.trans (setColourMid_ev _ _)).trans (putChar_ev (setColourMid_inv h1 _) _)

theorem backgroundAttr_ev {ch : Channel} (h : ChInv ch) (c2 : Nat) : Ev ch (backgroundAttr ch c2) := by
  unfold backgroundAttr putCharSpace
  exact attr_then _ h (fun x hx => putChar_ev hx _)

theorem putByte_ev {x : Channel} (hx : ChInv x) (c : Cell) (b : Nat) : Ev x (putByte x c b) := by
  unfold putByte
  exact ev_ite (fun _ => Ev.refl _) (fun _ => putChar_ev hx _)

theorem textPair_ev {ch : Channel} (h : ChInv ch) (b0 b1 : Nat) : Ev ch (textPair ch b0 b1) := by
  unfold textPair
  have e0 : Ev ch { ch with nulCt := 0 } := Ev.scalar rfl rfl rfl rfl
  apply ev_ite
  · intro _; exact e0
  · intro _
    exact (e0.trans (putByte_ev (h.withNul 0) _ _)).trans (putByte_ev (putByte_inv (h.withNul 0) _ _) _ _)

theorem nulPair_ev {ch : Channel} (h : ChInv ch) : Ev ch (nulPair ch) := by
  unfold nulPair
  apply ev_ite
  · intro _
    have : Ev ch (if ch.nulCt = 2 then wordBreak ch true else ch) := ev_ite (fun _ => wordBreak_ev h _) (fun _ => Ev.refl _)
    exact this.trans (Ev.scalar rfl rfl rfl rfl)
  · intro _; exact Ev.refl _

theorem eraseNonDisplayed_ev {ch : Channel} (h : ChInv ch) : Ev ch (eraseNonDisplayed ch) := by
  unfold eraseNonDisplayed
  exact ev_ite (fun _ => eraseHidden_ev h) (fun _ => Ev.refl _)

theorem eraseDisplayed_ev {ch : Channel} (h : ChInv ch) : Ev ch (eraseDisplayed ch) :=
  Ev.loud (by rw [(eraseDisplayed_spec h).2.1]; omega)

theorem endOfCaption_ev {ch : Channel} (h : ChInv ch) : Ev ch (endOfCaption ch) := by
  have hx := wordBreak_inv (h.withMode .popOn) true
  have e := wordBreak_ev (h.withMode .popOn) true
  unfold endOfCaption
  refine Ev.loud ?_
  rw [(eocSwap_spec hx).2.2.2.2.2.2.2]
  have := e.mono
  have : ({ ch with mode := Mode.popOn } : Channel).nev = ch.nev := rfl
  omega

theorem deleteToEnd_ev {ch : Channel} (h : ChInv ch) (chan : Nat) : Ev ch (deleteToEnd ch chan) := by
  unfold deleteToEnd
  apply ev_ite; · intro _; exact Ev.refl _
  intro _
  have hc := h.col_le
  have e1 := fill_ev h (a := ch.col) (n := columns - ch.col) (by simp; omega) (transpSpace (decide (4 ≤ chan))) "der"
  have h1 := (fill_upd h (a := ch.col) (n := columns - ch.col) (by simp; omega)
    (transpSpace (decide (4 ≤ chan))) "der").inv h
  have e2 := e1.trans (wordBreak_ev h1 false)
  apply ev_ite
  · intro _
    refine Ev.loud ?_
    rw [renderCh_nev, update_nev']
    have := e2.mono; omega
  · intro _; exact e2


/-- exact event count of `word_break` -/
theorem wordBreak_nev {ch : Channel} (h : ChInv ch) (upd : Bool) :
    (wordBreak ch upd).nev = ch.nev + (if (!upd || ch.mode == .popOn) then 0 else 1) := by
  have hl := pg_len h ch.linePg
  have hoff := h.line_off
  have hrow := h.row_le
  have hc1 := h.col1_pos
  have hc := h.col_le
  have hcc := h.col1_le
  have key : ∀ ch' : Channel, ch'.nev = ch.nev → ch'.mode = ch.mode →
      (if !upd || ch'.mode == .popOn then ch' else renderCh (update ch') true ch'.row).nev
        = ch.nev + (if (!upd || ch.mode == .popOn) then 0 else 1) := by
    intro ch' hn hm
    rw [hm]
    split
    · simpa using hn
    · rw [renderCh_nev, update_nev', hn]
  unfold wordBreak
  split
  · have hne : ch.col1 ≠ 0 := by omega
    simp only [hne, if_false]
    have r1 : ∃ c, rd ch ch.col1 = some c := by
      unfold rd; exact ⟨_, List.getElem?_eq_getElem (by rw [hl]; omega)⟩
    have r2 : ∃ c, rd ch (ch.col1 - 1) = some c := by
      unfold rd; exact ⟨_, List.getElem?_eq_getElem (by rw [hl]; omega)⟩
    obtain ⟨c1, e1⟩ := r1
    obtain ⟨c2, e2⟩ := r2
    simp only [e1, e2]
    have u1 : Upd ch (if (!c1.isSpace && c2.opacity == opTransparentSpace) = true then
        wr ch (ch.col1 - 1) { c1 with unicode := 0x20 } "word_break: leading" else ch) := by
      split
      · exact wr_upd h (by omega) _ _
      · exact Upd.refl _
    have n1 : (if (!c1.isSpace && c2.opacity == opTransparentSpace) = true then
        wr ch (ch.col1 - 1) { c1 with unicode := 0x20 } "word_break: leading" else ch).nev = ch.nev := by
      split
      · exact wr_nev' _ _ _ _
      · rfl
    generalize (if (!c1.isSpace && c2.opacity == opTransparentSpace) = true then
        wr ch (ch.col1 - 1) { c1 with unicode := 0x20 } "word_break: leading" else ch) = chA at u1 n1 ⊢
    have hA := u1.inv h
    have hlA := pg_len hA chA.linePg
    have r3 : ∃ c, rd chA (chA.col - 1) = some c := by
      unfold rd; refine ⟨_, List.getElem?_eq_getElem ?_⟩; rw [hlA, u1.lineOff, u1.col]; omega
    have r4 : ∃ c, rd chA chA.col = some c := by
      unfold rd; refine ⟨_, List.getElem?_eq_getElem ?_⟩; rw [hlA, u1.lineOff, u1.col]; omega
    obtain ⟨c3, e3⟩ := r3
    obtain ⟨c4, e4⟩ := r4
    simp only [e3, e4]
    apply key
    · split
      · rw [wr_nev', n1]
      · exact n1
    · split
      · rw [wr_mode', u1.mode]
      · exact u1.mode
  · exact key ch rfl rfl

theorem fail_ev (ch : Channel) (s : String) : Ev ch (ch.fail s) := by
  unfold Channel.fail; split
  · exact Ev.refl _
  · exact Ev.scalar rfl rfl rfl rfl

theorem tabFill_nev (y : Channel) (n : Nat) (ts : Cell) : (tabFill y n ts).nev = y.nev := by
  unfold tabFill; simp only []; split
  · rfl
  · exact fill_nev' _ _ _ _ _

theorem setColour_nev (y : Channel) (k : Nat) : (setColour y k).nev = y.nev := by
  unfold setColour; split <;> rfl

theorem pacStyle_nev (y : Channel) (chan c2 : Nat) : (pacStyle y chan c2).nev = y.nev := by
  unfold pacStyle; split
  · exact tabFill_nev _ _ _
  · exact setColour_nev _ _

theorem pacRelocate_nev (x : Channel) (row : Nat) : (pacRelocate x row).nev = x.nev := by
  unfold pacRelocate; split
  · exact fail_nev _ _
  · split
    · exact fail_nev _ _
    · simp only []
      split
      · show (eraseMemory _ _).nev = _; rw [eraseMemory_nev, eraseMemory_nev]
      · rfl

theorem pacStyle_ev {y : Channel} (h : ChInv y) (chan c2 : Nat) : Ev y (pacStyle y chan c2) := by
  unfold pacStyle
  apply ev_ite
  · intro _; exact (tabFill_ev h _ _).trans (Ev.scalar rfl rfl rfl rfl)
  · intro _; exact setColour_ev _ _

theorem pac_ev {ch : Channel} (h : ChInv ch) (chan c1 c2 : Nat) : Ev ch (pac ch chan c1 c2) := by
  unfold pac
  split
  · exact fail_ev _ _
  · rename_i r hr
    apply ev_ite; · intro _; exact Ev.refl _
    intro hcond
    have hA : ChInv (pacAttr ch c2) := h.withAttr _
    have eA : Ev ch (pacAttr ch c2) := Ev.scalar rfl rfl rfl rfl
    have eW := eA.trans (wordBreak_ev hA true)
    have hW := wordBreak_inv hA true
    have nW := wordBreak_nev hA true
    have uW := wordBreak_upd hA true
    generalize wordBreak (pacAttr ch c2) true = x at eW hW nW uW ⊢
    unfold pacCursor
    by_cases hru : (x.mode == .rollUp) = true
    · rw [if_pos hru]
      refine Ev.loud ?_
      rw [pacStyle_nev, pacRelocate_nev, nW]
      have hm : (pacAttr ch c2).mode = .rollUp := by rw [← uW.mode]; simpa using hru
      have : ((!true || (pacAttr ch c2).mode == .popOn)) = false := by rw [hm]; rfl
      rw [this]
      show ch.nev < ch.nev + 1
      omega
    · rw [if_neg hru]
      have hrow : r.toNat ≤ 14 ∨ True := Or.inr trivial
      have e2 : Ev x (setCursor x 1 r.toNat) := Ev.scalar rfl rfl rfl rfl
      have hc : ChInv (setCursor x 1 r.toNat) := by
        have hr14 : r.toNat ≤ 14 := by
          rcases rowMapping_range _ _ hr with hneg | hle
          · simp [hneg] at hcond
          · exact hle
        exact setCursor_inv hW (Nat.le_refl _) (by omega) hr14
      exact (eW.trans e2).trans (pacStyle_ev hc _ _)

theorem crMove_nev (x : Channel) (b : Bool) : (crMove x b).nev = x.nev := by
  unfold crMove; simp only []; split
  · exact setPg_nev _ _ _
  · exact fail_nev _ _

theorem crFinish_nev (z : Channel) (lastRow : Nat) (hm : z.mode ≠ .popOn) : (crFinish z lastRow).nev = z.nev + 1 := by
  unfold crFinish
  have hmb : (z.mode != .popOn) = true := by simpa using hm
  simp only [hmb, if_true]
  show ((update z).setPg _ _).nev + 1 = _
  rw [setPg_nev, update_nev']

theorem crSync_nev_ge {ch : Channel} (h : ChInv ch) : ch.nev ≤ (crSync ch).nev := by
  unfold crSync; split
  · exact (wordBreak_ev h true).mono
  · rw [update_nev']; exact (wordBreak_ev h true).mono

theorem crFinish_quiet (z : Channel) (lastRow : Nat) (hm : z.mode = .popOn) :
    (crFinish z lastRow).nev = z.nev ∧ (crFinish z lastRow).hidden = z.hidden ∧
    (crFinish z lastRow).pg0 = z.pg0 ∧ (crFinish z lastRow).pg1 = z.pg1 := by
  unfold crFinish
  have : (z.mode != .popOn) = false := by rw [hm]; rfl
  rw [this]
  exact ⟨rfl, rfl, rfl, rfl⟩

/-- CR accounts for its display changes by events when the channel is not in pop-on mode, and - with the repair of
    finding F45b (no `update()` in pop-on mode) - also in pop-on mode, where it then touches only the hidden page -/
theorem carriageReturn_ev {ch : Channel} (h : ChInv ch) (chan : Nat) (hm : ch.mode ≠ .popOn ∨ crPopOnNoUpdate = true) :
    Ev ch (carriageReturn ch chan) := by
  unfold carriageReturn
  apply ev_ite; · intro _; exact Ev.refl _
  intro _
  apply ev_ite; · intro _; exact fail_ev _ _
  intro _
  simp only [rows_eq]
  apply ev_ite
  · intro _
    exact (wordBreak_ev h true).trans (Ev.scalar rfl rfl rfl rfl)
  · intro _
    have u1 := crSync_upd h
    have h1 := u1.inv h
    have u2 := crMove_upd h1 (ch.hidden != (ch.mode != .popOn))
    have h2 := u2.inv h1
    have u3 := crClear_upd h2 chan
    by_cases hp : ch.mode = .popOn
    · -- repaired tree, pop-on mode: word break, then only the hidden page and scalars change
      have hflag : crPopOnNoUpdate = true := by
        rcases hm with hm | hm
        · exact absurd hp hm
        · exact hm
      have es : crSync ch = wordBreak ch true := by
        unfold crSync; rw [hflag, hp]; rfl
      have e1 := wordBreak_ev h true
      have hb : (ch.hidden != (ch.mode != .popOn)) = ch.hidden := by rw [hp]; cases ch.hidden <;> rfl
      rw [hb] at u2 h2 u3 ⊢
      rw [es] at u1 h1 u2 h2 u3 ⊢
      refine e1.trans ?_
      -- crMove on the hidden page
      have hl := pg_len h1 (wordBreak ch true).hidden
      have q2 : Ev (wordBreak ch true) (crMove (wordBreak ch true) ch.hidden) := by
        refine Ev.quiet (crMove_nev _ _) u2.hidden ?_
        unfold crMove
        simp only []
        split
        · rw [← u1.hidden]; exact pg_setPg_other _ _ _
        · unfold Channel.fail; split <;> rfl
      have q3 : Ev (crMove (wordBreak ch true) ch.hidden) (crClear (crMove (wordBreak ch true) ch.hidden) chan) := by
        unfold crClear; exact fill_ev h2 (by simp) _ _
      have hz : (crClear (crMove (wordBreak ch true) ch.hidden) chan).mode = .popOn := by
        rw [u3.mode, u2.mode, u1.mode, hp]
      have q4 := crFinish_quiet (crClear (crMove (wordBreak ch true) ch.hidden) chan)
        (min (ch.row1 + ch.roll - 1) (15 - 1)) hz
      exact (q2.trans q3).trans (Ev.scalar q4.1 q4.2.1 q4.2.2.1 q4.2.2.2)
    · refine Ev.loud ?_
      rw [crFinish_nev _ _ (by rw [u3.mode, u2.mode, u1.mode]; exact hp)]
      show _ < (fill _ _ _ _ _).nev + 1
      rw [fill_nev', crMove_nev]
      have := crSync_nev_ge h
      omega

/-- RUx: silent only on a tree without the repair of finding F45a -/
theorem ruErase_nev : ∀ (ch : Channel), (ruErase ch).nev = ch.nev + (if ruEraseRaisesEvent then 1 else 0) := by
  intro ch
  unfold ruErase
  simp only []
  split
  · show ((eraseMemory _ _).setPg _ _).nev + 1 = _
    rw [setPg_nev, eraseMemory_nev, eraseMemory_nev]
  · rw [eraseMemory_nev, eraseMemory_nev]; rfl

theorem rollUpCmd_ev {ch : Channel} (roll : Nat) (hflag : ruEraseRaisesEvent = true) : Ev ch (rollUpCmd ch roll) := by
  unfold rollUpCmd
  apply ev_ite; · intro _; exact Ev.refl _
  intro _
  refine Ev.loud ?_
  show ch.nev < (ruErase ch).nev
  rw [ruErase_nev, hflag]
  simp

theorem setCursor_ev (x : Channel) (c r : Nat) : Ev x (setCursor x c r) := Ev.scalar rfl rfl rfl rfl

/-! ## decoder level -/

/-- every channel's change from `s` to `s'` is accounted for by events -/
def EvSt (s s' : St) : Prop :=
  s'.chans.length = s.chans.length ∧
  ∀ (i : Nat) (ch ch' : Channel), s.chans[i]? = some ch → s'.chans[i]? = some ch' → Ev ch ch'

theorem EvSt.refl (s : St) : EvSt s s := ⟨rfl, fun _ _ _ h1 h2 => by rw [h1] at h2; cases h2; exact Ev.refl _⟩

theorem EvSt.trans {a b c : St} (h1 : EvSt a b) (h2 : EvSt b c) : EvSt a c := by
  refine ⟨h2.1.trans h1.1, ?_⟩
  intro i ch ch' ha hc
  have hlt : i < b.chans.length := by
    rw [h1.1]
    rcases Nat.lt_or_ge i a.chans.length with hl | hl
    · exact hl
    · rw [List.getElem?_eq_none hl] at ha; cases ha
  exact (h1.2 i ch _ ha (List.getElem?_eq_getElem hlt)).trans (h2.2 i _ ch' (List.getElem?_eq_getElem hlt) hc)

theorem EvSt.congr {s s' t : St} (h : EvSt s s') (hc : t.chans = s'.chans) : EvSt s t := by
  unfold EvSt; rw [hc]; exact h

theorem modCh_evst {s : St} (h : Inv s) {i : Nat} (hi : i < 9) {f : Channel → Channel}
    (hf : ∀ ch, s.chans[i]? = some ch → ChInv ch → Ev ch (f ch)) : EvSt s (s.modCh i f) := by
  have hlt : i < s.chans.length := by rw [h.len]; exact hi
  have hget := List.getElem?_eq_getElem hlt
  unfold St.modCh
  rw [hget]
  refine ⟨by simp, ?_⟩
  intro j ch ch' h1 h2
  by_cases hj : j = i
  · subst hj
    rw [hget] at h1; cases h1
    simp only [List.getElem?_set_self hlt] at h2
    cases h2
    exact hf _ hget (h.chs _ (List.getElem_mem hlt))
  · simp only [List.getElem?_set_ne (Ne.symm hj)] at h2
    rw [h1] at h2; cases h2; exact Ev.refl _

theorem switchChannel_evst {s : St} (h : Inv s) {chan : Nat} (hi : chan < 9) (new : Nat) :
    EvSt s (s.switchChannel chan new) := by
  unfold St.switchChannel
  exact (modCh_evst h hi (f := fun ch => wordBreak ch true) (fun ch _ hc => wordBreak_ev hc true)).congr (setCurr_chans _ _)

end Zvbi.Cc
