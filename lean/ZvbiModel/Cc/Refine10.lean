import ZvbiModel.Cc.Refine9
/-!
# Refinement to `Eia608`, part 10: from byte pairs on field 1 / CC1 to the channel-level operations (libzvbi side)
-/
namespace Zvbi.Cc
open Zvbi.Gen.Cc Eia608
open Zvbi.Hamm (par8 unpar8)

theorem par8_facts : ∀ x < 128, unpar8 (par8 x) = some x ∧ par8 x &&& 0x7F = x ∧ par8 x < 256 ∧ (x ≠ 0 → par8 x ≠ 0) ∧
    (0x20 ≤ x → par8 x ≠ 0x80) := by decide

/-- a control pair on field 1, transmitted twice: executed once, latch cleared -/
theorem ctrl_twice (s : St) (hl : s.last0 = 0) {c1 c2 : Nat} (h1 : 0x10 ≤ c1) (h1' : c1 ≤ 0x1F) (h2 : c2 < 128) :
    decodePair (decodePair s false (par8 c1) (par8 c2)) false (par8 c1) (par8 c2) =
      { captionCommand s c1 c2 false with last0 := 0, last1 := par8 c2 } := by
  obtain ⟨p1, a1, _, n1, _⟩ := par8_facts c1 (by omega)
  obtain ⟨p2, a2, _, _, _⟩ := par8_facts c2 h2
  have hp0 : (unpar8 (par8 c1)).isSome = true := by rw [p1]; rfl
  have hp1 : (unpar8 (par8 c2)).isSome = true := by rw [p2]; rfl
  have hc : 0x10 ≤ par8 c1 &&& 0x7F ∧ par8 c1 &&& 0x7F ≤ 0x1F := by rw [a1]; exact ⟨h1, h1'⟩
  have e1 := decodePair_f1_control s (par8 c1) (par8 c2) hp0 hp1 hc
  have hnew : ¬ (par8 c1 = s.last0 ∧ par8 c2 = s.last1) := by
    intro h; rw [hl] at h; exact n1 (by omega) h.1
  rw [if_neg hnew, a1, a2] at e1
  have e2 := decodePair_f1_control (decodePair s false (par8 c1) (par8 c2)) (par8 c1) (par8 c2) hp0 hp1 hc
  rw [e1] at e2 ⊢
  simp only [and_self, if_true] at e2
  exact e2


/-- the decoder state `s` has caption channel CC1 in state `ch`, CC1 is the current channel of field 1 and the
    repetition latch is clear -/
structure Lift (s : St) (ch : Channel) : Prop where
  inv : Inv s
  last : s.last0 = 0
  cur : s.currChan = 0
  get : s.chans[0]? = some ch

theorem modCh_currChan (s : St) (i : Nat) (f : Channel → Channel) : (s.modCh i f).currChan = s.currChan := by
  unfold St.modCh St.fail; repeat' split
  all_goals rfl

theorem lift_of_cmd {s : St} {ch : Channel} (L : Lift s ch) {c1 c2 : Nat} (h1 : 0x10 ≤ c1) (h1' : c1 ≤ 0x1F) (h2 : c2 < 128)
    {F : Channel → Channel}
    (hcmd : (captionCommand s c1 c2 false).chans[0]? = some (F ch) ∧ (captionCommand s c1 c2 false).currChan = 0) :
    Lift (decodePair (decodePair s false (par8 c1) (par8 c2)) false (par8 c1) (par8 c2)) (F ch) := by
  rw [ctrl_twice s L.last h1 h1' h2]
  exact ⟨(captionCommand_inv L.inv c1 c2 false).congr rfl rfl, rfl, hcmd.2, hcmd.1⟩

theorem cmd_mod {s : St} {ch : Channel} (L : Lift s ch) (F : Channel → Channel) :
    (s.modCh 0 F).chans[0]? = some (F ch) ∧ (s.modCh 0 F).currChan = 0 :=
  ⟨modCh_get_same F L.get, by rw [modCh_currChan]; exact L.cur⟩

theorem cmd_switch {s : St} {ch : Channel} (L : Lift s ch) (F : Channel → Channel) :
    ((s.switchChannel 0 0).modCh 0 F).chans[0]? = some (F (wordBreak ch true)) ∧
    ((s.switchChannel 0 0).modCh 0 F).currChan = 0 := by
  have h1 : (s.switchChannel 0 0).chans[0]? = some (wordBreak ch true) := by
    unfold St.switchChannel
    exact modCh_get_same _ L.get
  exact ⟨modCh_get_same F h1, by
    rw [modCh_currChan]; unfold St.switchChannel; exact (setCurr_field1 _ (by decide)).1⟩

/-- the misc control codes of CC1 (first byte 0x14) used by the three caption styles -/
theorem cc1_commands {s : St} (hcur : s.currChan = 0) :
    captionCommand s 0x14 0x20 false = (s.switchChannel 0 0).modCh 0 (fun ch => { ch with mode := .popOn }) ∧
    captionCommand s 0x14 0x29 false = (s.switchChannel 0 0).modCh 0 (fun ch => { ch with mode := .paintOn }) ∧
    captionCommand s 0x14 0x2F false = (s.switchChannel 0 0).modCh 0 endOfCaption ∧
    captionCommand s 0x14 0x2E false = s.modCh 0 eraseNonDisplayed ∧
    captionCommand s 0x14 0x2D false = s.modCh 0 (fun ch => carriageReturn ch 0) ∧
    captionCommand s 0x14 0x25 false = (s.switchChannel 0 0).modCh 0 (fun ch => rollUpCmd ch 2) ∧
    captionCommand s 0x14 0x26 false = (s.switchChannel 0 0).modCh 0 (fun ch => rollUpCmd ch 3) ∧
    captionCommand s 0x14 0x27 false = (s.switchChannel 0 0).modCh 0 (fun ch => rollUpCmd ch 4) := by
  unfold captionCommand
  rw [curr_false, hcur]
  refine ⟨rfl, rfl, rfl, rfl, rfl, rfl, rfl, rfl⟩

theorem cc1_pac {s : St} (hcur : s.currChan = 0) {lo c2 : Nat} (hlo : lo < 8) (h2 : 0x40 ≤ c2) :
    captionCommand s (0x10 + lo) c2 false = s.modCh 0 (fun ch => pac ch 0 lo c2) := by
  have key : ∀ lo < 8, ((0x10 + lo) >>> 3) &&& 1 = 0 ∧ (0x10 + lo) &&& 7 = lo := by decide
  obtain ⟨k1, k2⟩ := key lo hlo
  rw [dispatch_pac s _ c2 false h2]
  unfold cmdChan
  rw [curr_false, hcur, k1, k2]
  rfl


/-- the character codes of a text pair: the second byte may be the NUL filler -/
def pairCodes (a b : Nat) : List Nat := if b = 0 then [a] else [a, b]

theorem textPair_codes {ch : Channel} (h : ChInv ch) (hm : ch.mode ≠ .none) {a b : Nat} (ha : 0x20 ≤ a) (ha' : a < 0x80)
    (hb : b = 0 ∨ (0x20 ≤ b ∧ b < 0x80)) :
    textPair ch (par8 a) (par8 b) = charRun { ch with nulCt := 0 } (pairCodes a b) := by
  have hmb : (ch.mode == .none) = false := by simpa using hm
  obtain ⟨pa, _, _, _, _⟩ := par8_facts a ha'
  have hn := h.withNul 0
  unfold textPair
  rw [hmb]
  simp only [Bool.false_eq_true, if_false]
  have hmask : ∀ x < 128, x &&& 0x7F = x := by decide
  have e0 : putByte { ch with nulCt := 0 } ch.attr (par8 a) =
      putChar { ch with nulCt := 0 } { ch.attr with unicode := captionUnicode a } := by
    unfold putByte
    simp only [pa, hmask a ha']
    rw [if_neg (by omega)]
  rw [e0]
  unfold pairCodes charRun
  rcases hb with hb | hb
  · subst hb
    have p0 : unpar8 (par8 0) = some 0 := by decide
    unfold putByte
    simp only [p0]
    simp
  · obtain ⟨pb, _, _, _, _⟩ := par8_facts b hb.2
    have hb0 : b ≠ 0 := by omega
    rw [if_neg hb0]
    simp only [List.foldl_cons, List.foldl_nil]
    unfold putByte
    simp only [pb, hmask b hb.2]
    rw [if_neg (by omega), putChar_attr hn]

/-- the relations do not look at `nul_ct` -/
theorem PopRelC.nul {ch : Channel} {v : Service} {cu : Bool} (P : PopRelC ch v cu) (n : Nat) :
    PopRelC { ch with nulCt := n } v cu := by
  obtain ⟨⟨i, ix, m, vm, d, r, c, pn⟩, cur⟩ := P
  obtain ⟨lead, c0, xs, R, S⟩ := c
  exact ⟨⟨i.withNul n, ix, m, vm, d, r, ⟨lead, c0, xs, R.transfer rfl rfl rfl (fun _ _ => rfl), S⟩, pn⟩, cur⟩

/-- a text pair of field 1 while CC1 is current -/
theorem lift_text {s : St} {ch : Channel} (L : Lift s ch) (hm : ch.mode ≠ .none) {a b : Nat} (ha : 0x20 ≤ a) (ha' : a < 0x80)
    (hb : b = 0 ∨ (0x20 ≤ b ∧ b < 0x80)) :
    Lift (decodePair s false (par8 a) (par8 b)) (charRun { ch with nulCt := 0 } (pairCodes a b)) := by
  obtain ⟨pa, ma, _, _, n80⟩ := par8_facts a ha'
  have hch : ChInv ch := L.inv.chs ch (List.mem_of_getElem? L.get)
  have hns : (unpar8 (par8 a)).isNone = false := by rw [pa]; rfl
  have e : decodePair s false (par8 a) (par8 b) = ({ s with last0 := 0 } : St).modCh 0 (fun ch => textPair ch (par8 a) (par8 b)) := by
    unfold decodePair xdsGate
    simp only [Bool.false_eq_true, if_false]
    unfold decodeMain
    simp only [hns, Bool.false_eq_true, if_false, ma]
    have h1 : ¬ (1 ≤ a ∧ a ≤ 0x0F) := by omega
    have h2 : ¬ (0x10 ≤ a ∧ a ≤ 0x1F) := by omega
    have h3 : ¬ (par8 a = 0x80 ∧ par8 b = 0x80) := fun h => n80 ha h.1
    rw [if_neg h1, if_neg h2, curr_false, L.cur]
    simp only [h3, if_false, Bool.not_false, if_true]
    rfl
  rw [e, ← textPair_codes hch hm ha ha' hb]
  have Ls : Inv ({ s with last0 := 0 } : St) := L.inv.congr rfl rfl
  refine ⟨modCh_inv Ls (by omega) (fun c hc => textPair_inv hc _ _), ?_, ?_, modCh_get_same _ L.get⟩
  · unfold St.modCh St.fail; repeat' split
    all_goals rfl
  · rw [modCh_currChan]; exact L.cur

end Zvbi.Cc
