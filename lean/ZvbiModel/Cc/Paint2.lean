import ZvbiModel.Cc.Paint1
/-!
# Corrections inside a row, part 2: simulation of the reference model `Eia608`

Paint-on, roll-up and text mode write into libzvbi's working memory and copy the current row to the display at
word breaks.  `EditSim ch v` relates a channel to a reference service in such a mode, cell by cell and *up to
solid spaces* (a cell the reference memory leaves empty shows no glyph in libzvbi - exactly the comparison the
oracle of checks/C08.py uses for its `note lenient` scripts).  Characters 0x20..0x7F, Backspace, Delete to End
of Row, Tab Offset over empty cells and Erase Displayed Memory preserve it; after a space, DER and EDM the
displayed memory shows the reference memory (`Visible`).
-/
namespace Zvbi.Cc
open Zvbi.Gen.Cc Eia608

/-- libzvbi cell vs reference cell, solid spaces left open: a stored reference cell must be matched exactly,
    an empty one must show no glyph -/
def cellSim (c : Option Cell) (x : Option SCell) : Prop :=
  match x with
  | some x => ∃ c', c = some c' ∧ cellMatches c' x
  | none => ∃ c', c = some c' ∧ c'.unicode = 0x20

theorem matched_not_transparent {c : Cell} {x : SCell} (h : cellMatches c x) : c.opacity ≠ opTransparentSpace := by
  have := h.2.2.2.2.2.2
  rw [this]; unfold Eia608.opaqueOf; split <;> decide

/-- a solid space can only appear where the reference memory is empty -/
theorem cellSim_solid {c0 c : Cell} {x : Option SCell} (h : cellSim (some c0) x) (o0 : c0.opacity = opTransparentSpace)
    (hu : c.unicode = 0x20) : cellSim (some c) x := by
  cases x with
  | none => exact ⟨c, rfl, hu⟩
  | some x =>
    obtain ⟨c', e, m⟩ := h
    cases e
    exact absurd o0 (matched_not_transparent m)

structure EditSim (ch : Channel) (v : Service) : Prop where
  inv : ChInv ch
  mode : ch.mode ≠ .popOn ∧ ch.mode ≠ .none
  vmode : v.mode ≠ none ∧ v.mode ≠ some .popOn
  row : v.row = ch.row
  col : v.col = ch.col
  pen : penMatches ch.attr v.pen
  cells : ∀ r j, r < 15 → 1 ≤ j → j ≤ 32 → cellSim (ch.hcell r j) (v.disp r j)
  sync : ∀ r j, r < 15 → r ≠ ch.row → j < 34 → ch.dcell r j = ch.hcell r j

/-- the displayed memory shows the reference memory (up to solid spaces) -/
def Visible (ch : Channel) (v : Service) : Prop :=
  ∀ r j, r < 15 → 1 ≤ j → j ≤ 32 → cellSim (ch.dcell r j) (v.disp r j)

theorem EditSim.visible {ch : Channel} {v : Service} (S : EditSim ch v)
    (hs : ∀ j, j < 34 → ch.dcell ch.row j = ch.hcell ch.row j) : Visible ch v := by
  intro r j hr h1 h2
  by_cases e : r = ch.row
  · subst e; rw [hs j (by omega)]; exact S.cells _ j hr h1 h2
  · rw [S.sync r j hr e (by omega)]; exact S.cells r j hr h1 h2

/-- transfer across an edit of the current row -/
theorem EditSim.row_edit {ch ch' : Channel} {v v' : Service} (S : EditSim ch v)
    (hinv : ChInv ch') (hmode : ch'.mode = ch.mode) (hrow : ch'.row = ch.row) (vrow : v'.row = v.row)
    (vmode : v'.mode = v.mode) (hcol : v'.col = ch'.col) (hpen : penMatches ch'.attr v'.pen)
    (hcur : ∀ j, 1 ≤ j → j ≤ 32 → cellSim (ch'.hcell ch.row j) (v'.disp ch.row j))
    (hoth : ∀ r j, r ≠ ch.row → j < 34 → ch'.hcell r j = ch.hcell r j ∧ ch'.dcell r j = ch.dcell r j)
    (voth : ∀ r j, r ≠ ch.row → v'.disp r j = v.disp r j) : EditSim ch' v' := by
  refine ⟨hinv, by rw [hmode]; exact S.mode, by rw [vmode]; exact S.vmode, by rw [vrow, hrow]; exact S.row, hcol, hpen, ?_, ?_⟩
  · intro r j hr h1 h2
    by_cases e : r = ch.row
    · subst e; exact hcur j h1 h2
    · rw [(hoth r j e (by omega)).1, voth r j e]; exact S.cells r j hr h1 h2
  · intro r j hr15 hr hj
    rw [hrow] at hr
    rw [(hoth r j hr hj).1, (hoth r j hr hj).2]; exact S.sync r j hr15 hr hj

/-- solid spaces (and a copy of the current row to the display) do not disturb the relation -/
theorem EditSim.solid {a b : Channel} {v : Service} (S : EditSim a v) (s : SolidOnly a b) : EditSim b v := by
  refine S.row_edit (s.upd.inv S.inv) s.upd.mode s.upd.row rfl rfl (by rw [s.upd.col]; exact S.col)
    (by rw [s.upd.attr]; exact S.pen) ?_ ?_ (fun _ _ _ => rfl)
  · intro j h1 h2
    have hr : a.row < 15 := by have := S.inv.row_le; omega
    have c := S.cells a.row j hr h1 h2
    rcases s.cells a.row j (by omega) with e | ⟨_, c0, c', e0, o0, e, u⟩
    · rw [e]; exact c
    · rw [e]; rw [e0] at c; exact cellSim_solid c o0 u
  · intro r j hr hj
    refine ⟨?_, s.disp r j⟩
    rcases s.cells r j hj with e | ⟨hr', _⟩
    · exact e
    · exact absurd hr' hr

/-- `word_break(cc, ch, 1)`: relation kept, current row now on display -/
theorem EditSim.wordBreak {ch : Channel} {v : Service} (S : EditSim ch v) :
    EditSim (wordBreak ch true) v ∧ Visible (wordBreak ch true) v := by
  have s := wordBreak_false_solid S.inv
  have S1 := S.solid s
  obtain ⟨hc, dc, _, u⟩ := wordBreak_true_cells S.inv S.mode.1
  have S2 : EditSim (Zvbi.Cc.wordBreak ch true) v := by
    refine S1.row_edit (u.inv S.inv) (by rw [u.mode, s.upd.mode]) (by rw [u.row, s.upd.row]) rfl rfl
      (by rw [u.col]; exact S.col) (by rw [u.attr]; exact S.pen) ?_ ?_ (fun _ _ _ => rfl)
    · intro j h1 h2
      rw [hc]
      have hr : (Zvbi.Cc.wordBreak ch false).row < 15 := by rw [s.upd.row]; have := S.inv.row_le; omega
      exact S1.cells _ j hr h1 h2
    · intro r j hr hj
      rw [s.upd.row] at hr
      refine ⟨hc r j, ?_⟩
      rw [dc r j hj, if_neg hr, s.disp]
  refine ⟨S2, S2.visible ?_⟩
  intro j hj
  rw [u.row, dc _ j hj, if_pos rfl, hc]

/-! ## the reference side in closed form (a service whose characters go to the displayed memory) -/

theorem spec_target {v : Service} (h : v.mode ≠ some .popOn) : v.target = v.disp := by
  unfold Service.target; rw [if_neg h]

theorem spec_setTarget {v : Service} (h : v.mode ≠ some .popOn) (m : Mem) : v.setTarget m = { v with disp := m } := by
  unfold Service.setTarget; rw [if_neg h]

theorem spec_put {v : Service} (h1 : v.mode ≠ none) (h2 : v.mode ≠ some .popOn) (u : Nat) :
    v.putChar u = { v with disp := v.disp.set v.row (if v.col ≤ 32 then v.col else 32) (some { ch := u, pen := v.pen }),
                           col := if v.col ≤ 32 then v.col + 1 else v.col } := by
  unfold Service.putChar
  rw [if_neg h1]
  simp only [spec_target h2, spec_setTarget h2]

theorem spec_bs {v : Service} (h1 : v.mode ≠ none) (h2 : v.mode ≠ some .popOn) :
    v.exec .bs = if v.col ≤ 1 then v else { v with disp := v.disp.set v.row (v.col - 1) none, col := v.col - 1 } := by
  unfold Service.exec
  simp only [h1, false_or]
  split
  · rfl
  · rw [spec_target h2, spec_setTarget h2]

theorem spec_der {v : Service} (h1 : v.mode ≠ none) (h2 : v.mode ≠ some .popOn) :
    v.exec .der = { v with disp := fun r c => if r = v.row ∧ v.col ≤ c then none else v.disp r c } := by
  unfold Service.exec
  simp only [h1, if_false]
  rw [spec_target h2, spec_setTarget h2]

theorem spec_tab {v : Service} (h1 : v.mode ≠ none) (n : Nat) :
    v.exec (.tab n) = { v with col := min (v.col + n) 33 } := by
  unfold Service.exec
  simp only [h1, if_false]

/-! ## the operations -/

/-- a correction-script step inside one row -/
inductive EOp
  | char (ci : Nat)      -- a character code 0x20..0x7F (a space makes the row visible)
  | bs | der | edm
  | tab (n : Nat)
deriving Repr, DecidableEq

/-- libzvbi: the channel-level function `caption_command` / `vbi_decode_caption` runs (`chan` = channel number as
    computed there; it only selects which of the two transparent spaces is written) -/
def EOp.run (chan : Nat) (ch : Channel) : EOp → Channel
  | .char ci => putChar ch { ch.attr with unicode := captionUnicode ci }
  | .bs => backspace ch chan
  | .der => deleteToEnd ch chan
  | .edm => eraseDisplayed ch
  | .tab n => tabFill ch n (transpSpace (decide (4 ≤ chan)))

/-- reference model -/
def EOp.spec (v : Service) : EOp → Service
  | .char ci => v.putChar (basicChar ci)
  | .bs => v.exec .bs
  | .der => v.exec .der
  | .edm => v.exec .edm
  | .tab n => v.exec (.tab n)

/-- well-formedness, judged on the reference state: character codes are printable; a Tab Offset only skips
    cells that are empty (libzvbi's tab erases what it skips, the standard's does not) -/
def EOp.ok (v : Service) : EOp → Prop
  | .char ci => 0x20 ≤ ci ∧ ci < 0x80
  | .tab n => ∀ j, v.col ≤ j → j < v.col + n → v.disp v.row j = none
  | _ => True

/-- after which steps the standard (and libzvbi) make the row visible -/
def EOp.shows : EOp → Bool
  | .char ci => (captionUnicode ci &&& 0x7F) == 0x20
  | .der | .edm => true
  | _ => false

theorem basic_std : ∀ c < 0x80, 0x20 ≤ c → captionUnicode c = Eia608.basicChar c := by decide

theorem ts_unicode (b : Bool) : (transpSpace b).unicode = 0x20 := rfl

/-- `put_char` before the word break: the cell store and the cursor advance -/
def putCell (ch : Channel) (c : Cell) : Channel :=
  if ch.col < 33 then { wr ch ch.col c "put_char" with col := ch.col + 1 } else wr ch 32 c "put_char: last column"

theorem putChar_eq (ch : Channel) (c : Cell) :
    putChar ch c = if c.isSpace then Zvbi.Cc.wordBreak (putCell ch c) true else putCell ch c := by
  unfold putChar putCell; simp only [columns_eq]; rfl

theorem putCell_spec {ch : Channel} (h : ChInv ch) (c : Cell) :
    (∀ r j, j < 34 → (putCell ch c).hcell r j =
      if r = ch.row ∧ j = (if ch.col < 33 then ch.col else 32) then some c else ch.hcell r j) ∧
    (∀ r j, (putCell ch c).dcell r j = ch.dcell r j) ∧
    (putCell ch c).mode = ch.mode ∧ (putCell ch c).row = ch.row ∧ (putCell ch c).attr = ch.attr ∧
    (putCell ch c).col = (if ch.col < 33 then ch.col + 1 else ch.col) ∧ ChInv (putCell ch c) := by
  have hcol := h.col_le
  unfold putCell
  by_cases hlt : ch.col < 33
  · rw [if_pos hlt, if_pos hlt, if_pos hlt]
    have u := wr_upd h (i := ch.col) (by omega) c "put_char"
    have hx := (u.inv h).withCols (c := ch.col + 1) (c1 := ch.col1) h.col1_pos (by have := h.col1_le; omega) (by omega)
    exact ⟨fun r j hj => hcell_wr h (by omega) c _ r j hj, fun r j => dcell_wr h (by omega) c _ r j,
      u.mode, u.row, u.attr, rfl, by simpa [u.col1] using hx⟩
  · rw [if_neg hlt, if_neg hlt, if_neg hlt]
    have u := wr_upd h (i := 32) (by omega) c "put_char: last column"
    exact ⟨fun r j hj => hcell_wr h (by omega) c _ r j hj, fun r j => dcell_wr h (by omega) c _ r j,
      u.mode, u.row, u.attr, u.col, u.inv h⟩

theorem sim_char {ch : Channel} {v : Service} (S : EditSim ch v) (chan ci : Nat) (hok : EOp.ok v (.char ci)) :
    EditSim (EOp.run chan ch (.char ci)) (EOp.spec v (.char ci)) ∧
    (EOp.shows (.char ci) = true → Visible (EOp.run chan ch (.char ci)) (EOp.spec v (.char ci))) := by
  have h := S.inv
  have hcol := h.col_le
  have hrow : ch.row < 15 := by have := h.row_le; omega
  have hsh : EOp.shows (.char ci) = ({ ch.attr with unicode := captionUnicode ci } : Cell).isSpace := rfl
  rw [hsh]
  show EditSim (putChar ch _) (v.putChar _) ∧ (_ → Visible (putChar ch _) (v.putChar _))
  rw [spec_put S.vmode.1 S.vmode.2]
  generalize hc : ({ ch.attr with unicode := captionUnicode ci } : Cell) = c
  have hcu : c.unicode = basicChar ci := by rw [← hc]; exact basic_std ci hok.2 hok.1
  have hcp : penMatches c v.pen := by rw [← hc]; exact S.pen
  obtain ⟨hcells, hd, m1, r1, a1, c1, i1⟩ := putCell_spec h c
  have hvp : (if v.col ≤ 32 then v.col else 32) = (if ch.col < 33 then ch.col else 32) := by
    rw [S.col]
    by_cases hlt : ch.col < 33
    · rw [if_pos hlt, if_pos (by omega)]
    · rw [if_neg hlt, if_neg (by omega)]
  have S1 : EditSim (putCell ch c)
      { v with disp := v.disp.set v.row (if v.col ≤ 32 then v.col else 32) (some { ch := basicChar ci, pen := v.pen }),
               col := if v.col ≤ 32 then v.col + 1 else v.col } := by
    refine S.row_edit i1 m1 r1 rfl rfl ?_ (by rw [a1]; exact S.pen) ?_ ?_ ?_
    · show (if v.col ≤ 32 then v.col + 1 else v.col) = (putCell ch c).col
      rw [c1, S.col]
      by_cases hlt : ch.col < 33
      · rw [if_pos hlt, if_pos (by omega)]
      · rw [if_neg hlt, if_neg (by omega)]
    · intro j h1 h2
      show cellSim ((putCell ch c).hcell ch.row j) (Mem.set v.disp v.row _ _ ch.row j)
      rw [hcells _ j (by omega), hvp]
      unfold Mem.set
      rw [S.row]
      by_cases hj : j = (if ch.col < 33 then ch.col else 32)
      · rw [if_pos ⟨rfl, hj⟩, if_pos ⟨rfl, hj⟩]
        exact ⟨c, rfl, hcu, hcp⟩
      · rw [if_neg (fun hh => hj hh.2), if_neg (fun hh => hj hh.2)]
        exact S.cells _ j hrow h1 h2
    · intro r j hr hj
      exact ⟨by rw [hcells r j hj, if_neg (fun hh => hr hh.1)], hd r j⟩
    · intro r j hr
      show Mem.set v.disp v.row _ _ r j = _
      unfold Mem.set
      rw [S.row, if_neg (fun hh => hr hh.1)]
  rw [putChar_eq]
  cases hsp : c.isSpace
  · simp only [Bool.false_eq_true, if_false]
    exact ⟨S1, fun hf => absurd hf (by simp)⟩
  · simp only [if_true]
    exact ⟨S1.wordBreak.1, fun _ => S1.wordBreak.2⟩

theorem sim_bs {ch : Channel} {v : Service} (S : EditSim ch v) (chan : Nat) :
    EditSim (EOp.run chan ch .bs) (EOp.spec v .bs) := by
  have h := S.inv
  show EditSim (backspace ch chan) (v.exec .bs)
  rw [spec_bs S.vmode.1 S.vmode.2, S.col]
  by_cases hc : ch.col ≤ 1
  · rw [if_pos hc]
    have : backspace ch chan = ch := by
      unfold backspace
      have : (ch.mode != Mode.none && decide (ch.col > 1)) = false := by
        simp only [Bool.and_eq_false_iff, decide_eq_false_iff_not]; right; omega
      rw [this]; rfl
    rw [this]; exact S
  · rw [if_neg hc]
    obtain ⟨b1, _, b3, _, b5, b6, _, b8, b9⟩ := backspace_cells h chan S.mode.2 (by omega)
    have hrow : ch.row < 15 := by have := h.row_le; omega
    refine S.row_edit (backspace_inv h chan) b5 b3 rfl rfl (by rw [b1]) (by rw [b6]; exact S.pen) ?_ ?_ ?_
    · intro j h1 h2
      show cellSim _ (Mem.set v.disp v.row _ _ ch.row j)
      rw [b8 _ j (by omega)]
      unfold Mem.set
      rw [S.row]
      by_cases hj : j = ch.col - 1
      · rw [if_pos ⟨rfl, hj⟩, if_pos ⟨rfl, hj⟩]
        exact ⟨_, rfl, ts_unicode _⟩
      · rw [if_neg (fun hh => hj hh.2), if_neg (fun hh => hj hh.2)]
        exact S.cells _ j hrow h1 h2
    · intro r j hr hj
      exact ⟨by rw [b8 r j hj, if_neg (fun hh => hr hh.1)], b9 r j⟩
    · intro r j hr
      show Mem.set v.disp v.row _ _ r j = _
      unfold Mem.set
      rw [S.row, if_neg (fun hh => hr hh.1)]

theorem sim_tab {ch : Channel} {v : Service} (S : EditSim ch v) (chan n : Nat) (hok : EOp.ok v (.tab n)) :
    EditSim (EOp.run chan ch (.tab n)) (EOp.spec v (.tab n)) := by
  have h := S.inv
  have hcol := h.col_le
  have hrow : ch.row < 15 := by have := h.row_le; omega
  show EditSim (tabFill ch n _) (v.exec (.tab n))
  rw [spec_tab S.vmode.1]
  obtain ⟨t1, _, _, t4, _, t6, t7, _⟩ := tabFill_spec h n (transpSpace (decide (4 ≤ chan)))
  obtain ⟨k1, k2, _, _, _⟩ := tabFill_cells h n (transpSpace (decide (4 ≤ chan)))
  refine S.row_edit (tabFill_inv h n _) t7 t4 rfl rfl ?_ (by rw [t6]; exact S.pen) ?_ ?_ (fun _ _ _ => rfl)
  · show min (v.col + n) 33 = _
    rw [t1, S.col]; omega
  · intro j h1 h2
    show cellSim _ (v.disp ch.row j)
    rw [k1 _ j (by omega)]
    by_cases hj : ch.col ≤ j ∧ j < ch.col + min n (33 - ch.col)
    · rw [if_pos ⟨rfl, hj⟩]
      have : v.disp v.row j = none := hok j (by rw [S.col]; exact hj.1) (by rw [S.col]; have := hj.2; omega)
      rw [← S.row, this]
      exact ⟨_, rfl, ts_unicode _⟩
    · rw [if_neg (fun hh => hj hh.2)]
      exact S.cells _ j hrow h1 h2
  · intro r j hr hj
    exact ⟨by rw [k1 r j hj, if_neg (fun hh => hr hh.1)], k2 r j⟩

theorem sim_der {ch : Channel} {v : Service} (S : EditSim ch v) (chan : Nat) :
    EditSim (EOp.run chan ch .der) (EOp.spec v .der) ∧ Visible (EOp.run chan ch .der) (EOp.spec v .der) := by
  have h := S.inv
  have hrow : ch.row < 15 := by have := h.row_le; omega
  show EditSim (deleteToEnd ch chan) (v.exec .der) ∧ Visible (deleteToEnd ch chan) (v.exec .der)
  rw [spec_der S.vmode.1 S.vmode.2]
  obtain ⟨d1, d2, d3, d4, _, d6⟩ := deleteToEnd_cells h chan S.mode.2
  obtain ⟨d4a, _⟩ := d4 S.mode.1
  have ux : Upd ch (fill ch ch.col (34 - ch.col) (transpSpace (decide (4 ≤ chan))) "der") :=
    fill_upd h (a := ch.col) (n := 34 - ch.col) (by have := h.col_le; omega) _ _
  -- the cleared row `x` is in relation with the reference after DER
  have Sx : EditSim (fill ch ch.col (34 - ch.col) (transpSpace (decide (4 ≤ chan))) "der")
      { v with disp := fun r c => if r = v.row ∧ v.col ≤ c then none else v.disp r c } := by
    refine S.row_edit (ux.inv h) ux.mode ux.row rfl rfl (by rw [ux.col]; exact S.col) (by rw [ux.attr]; exact S.pen) ?_ ?_ ?_
    · intro j h1 h2
      show cellSim _ (if ch.row = v.row ∧ v.col ≤ j then none else v.disp ch.row j)
      rw [d1 _ j (by omega), S.row, S.col]
      by_cases hj : ch.col ≤ j
      · rw [if_pos ⟨rfl, hj⟩, if_pos ⟨rfl, hj⟩]; exact ⟨_, rfl, ts_unicode _⟩
      · rw [if_neg (fun hh => hj hh.2), if_neg (fun hh => hj hh.2)]; exact S.cells _ j hrow h1 h2
    · intro r j hr hj
      refine ⟨by rw [d1 r j hj, if_neg (fun hh => hr hh.1)], ?_⟩
      exact dcell_fill h (a := ch.col) (n := 34 - ch.col) (by have := h.col_le; omega) _ _ r j
    · intro r j hr
      show (if r = v.row ∧ v.col ≤ j then none else v.disp r j) = _
      rw [S.row, if_neg (fun hh => hr hh.1)]
  have Sw := Sx.solid d2
  have S2 : EditSim (deleteToEnd ch chan) { v with disp := fun r c => if r = v.row ∧ v.col ≤ c then none else v.disp r c } := by
    refine Sw.row_edit (d6.inv h) (by rw [d6.mode, d2.upd.mode, ux.mode]) (by rw [d6.row, d2.upd.row, ux.row]) rfl rfl
      (by rw [d6.col]; exact S.col) (by rw [d6.attr]; exact S.pen) ?_ ?_ (fun _ _ _ => rfl)
    · intro j h1 h2
      rw [d3]
      have hr : (Zvbi.Cc.wordBreak (fill ch ch.col (34 - ch.col) (transpSpace (decide (4 ≤ chan))) "der") false).row < 15 := by
        rw [d2.upd.row, ux.row]; exact hrow
      exact Sw.cells _ j hr h1 h2
    · intro r j hr hj
      rw [d2.upd.row, ux.row] at hr
      refine ⟨d3 r j, ?_⟩
      rw [d4a r j hj, if_neg hr, d2.disp]
      exact (dcell_fill h (a := ch.col) (n := 34 - ch.col) (by have := h.col_le; omega) _ _ r j).symm
  refine ⟨S2, S2.visible ?_⟩
  intro j hj
  rw [d6.row, d4a _ j hj, if_pos rfl]

theorem eraseDisplayed_upd {ch : Channel} (h : ChInv ch) : Upd ch (eraseDisplayed ch) := by
  unfold eraseDisplayed
  have u1 : Upd ch (if (ch.mode != .popOn) = true then eraseMemory ch ch.hidden else ch) := by
    split
    · exact eraseMemory_upd h _
    · exact Upd.refl _
  generalize (if (ch.mode != .popOn) = true then eraseMemory ch ch.hidden else ch) = x at u1 ⊢
  have h1 := u1.inv h
  have u2 := eraseMemory_upd h1 (!x.hidden)
  have h2 := u2.inv h1
  refine u1.trans (u2.trans ((setPg_upd _ _ _ ?_).trans (event_upd _)))
  rw [clear_len]

theorem sim_edm {ch : Channel} {v : Service} (S : EditSim ch v) (chan : Nat) :
    EditSim (EOp.run chan ch .edm) (EOp.spec v .edm) ∧ Visible (EOp.run chan ch .edm) (EOp.spec v .edm) := by
  have h := S.inv
  show EditSim (eraseDisplayed ch) (v.exec .edm) ∧ Visible (eraseDisplayed ch) (v.exec .edm)
  obtain ⟨e1, _, e3, _, e5⟩ := eraseDisplayed_spec h
  have e5 := e5 S.mode.1
  have u : Upd ch (eraseDisplayed ch) := eraseDisplayed_upd h
  have hcell : ∀ r j, r < 15 → j < 34 → (eraseDisplayed ch).hcell r j = some ch.ts ∧ (eraseDisplayed ch).dcell r j = some ch.ts := by
    intro r j hr hj
    rw [← nonDisplayed_get _ hr hj, ← displayed_get _ hr hj, e1, e5]
    have : r * 34 + j < 15 * 34 := by omega
    rw [rows_eq, columns_eq, List.getElem?_replicate, if_pos this]
    exact ⟨rfl, rfl⟩
  have tsu : ch.ts.unicode = 0x20 := rfl
  have S2 : EditSim (eraseDisplayed ch) (v.exec .edm) := by
    refine ⟨u.inv h, by rw [u.mode]; exact S.mode, S.vmode, by rw [u.row]; exact S.row, by rw [u.col]; exact S.col,
      by rw [u.attr]; exact S.pen, ?_, ?_⟩
    · intro r j hr h1 h2
      rw [(hcell r j hr (by omega)).1]
      exact ⟨_, rfl, tsu⟩
    · intro r j hr _ hj
      rw [(hcell r j hr hj).1, (hcell r j hr hj).2]
  exact ⟨S2, fun r j hr h1 h2 => by rw [(hcell r j hr (by omega)).2]; exact ⟨_, rfl, tsu⟩⟩

end Zvbi.Cc
