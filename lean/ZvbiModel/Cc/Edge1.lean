import ZvbiModel.Cc.Paint3
import ZvbiModel.Cc.Refine15
import ZvbiModel.Cc.Refine19
/-!
# The right margin: Transparent Space (0x11/0x19 0x39), also with the cursor parked behind a full row

`specialChar` with low nibble 9 is `tsCell`: the cell at the cursor - or column 32 when 32 characters were written and
the cursor is parked at `COLUMNS - 1` - becomes a transparent space; the cursor advances (and `col1` follows) unless
it is parked.  Against the reference (`Eia608.exec (.special 9)`: the cell becomes EMPTY, same cursor rule) the
relation `EditSim` of `Cc/Paint2.lean` is preserved without any side condition (both erase), so Transparent Space
joins the correction scripts of `edits_refine` (`XOp`, `xedits_refine`).
-/
namespace Zvbi.Cc
open Zvbi.Gen.Cc Eia608

/-- the Transparent Space branch of `caption_command` (cell store and cursor; no word break) -/
def tsCell (ch : Channel) (c : Cell) : Channel :=
  if ch.col < 33 then
    let x := wr ch ch.col c "transparent space"
    { x with col := x.col + 1, col1 := x.col + 1 }
  else wr ch 32 c "transparent space: last column"

theorem specialChar_ts (ch : Channel) (chan c2 : Nat) (hk : c2 &&& 15 = 9) :
    specialChar ch chan c2 = tsCell ch (transpSpace (decide (4 ≤ chan))) := by
  unfold specialChar tsCell; simp only [hk, columns_eq]; rfl

theorem tsCell_spec {ch : Channel} (h : ChInv ch) (c : Cell) :
    (∀ r j, j < 34 → (tsCell ch c).hcell r j =
      if r = ch.row ∧ j = (if ch.col < 33 then ch.col else 32) then some c else ch.hcell r j) ∧
    (∀ r j, (tsCell ch c).dcell r j = ch.dcell r j) ∧
    (tsCell ch c).mode = ch.mode ∧ (tsCell ch c).row = ch.row ∧ (tsCell ch c).attr = ch.attr ∧
    (tsCell ch c).col = (if ch.col < 33 then ch.col + 1 else ch.col) ∧
    (tsCell ch c).col1 = (if ch.col < 33 then ch.col + 1 else ch.col1) ∧
    (tsCell ch c).nev = ch.nev ∧ (tsCell ch c).hidden = ch.hidden ∧ ChInv (tsCell ch c) := by
  have hcol := h.col_le
  unfold tsCell
  by_cases hlt : ch.col < 33
  · rw [if_pos hlt, if_pos hlt, if_pos hlt, if_pos hlt]
    have u := wr_upd h (i := ch.col) (by omega) c "transparent space"
    have hx := (u.inv h).withCols (c := ch.col + 1) (c1 := ch.col + 1) (by omega) (by omega) (by omega)
    have e : (wr ch ch.col c "transparent space").col = ch.col := u.col
    refine ⟨fun r j hj => hcell_wr h (by omega) c _ r j hj, fun r j => dcell_wr h (by omega) c _ r j,
      u.mode, u.row, u.attr, ?_, ?_, wr_nev h (by omega) c _, u.hidden, ?_⟩
    · show (wr ch ch.col c "transparent space").col + 1 = ch.col + 1
      rw [e]
    · show (wr ch ch.col c "transparent space").col + 1 = ch.col + 1
      rw [e]
    · show ChInv { wr ch ch.col c "transparent space" with
        col := (wr ch ch.col c "transparent space").col + 1, col1 := (wr ch ch.col c "transparent space").col + 1 }
      rw [e]; exact hx
  · rw [if_neg hlt, if_neg hlt, if_neg hlt, if_neg hlt]
    have u := wr_upd h (i := 32) (by omega) c "transparent space: last column"
    exact ⟨fun r j hj => hcell_wr h (by omega) c _ r j hj, fun r j => dcell_wr h (by omega) c _ r j,
      u.mode, u.row, u.attr, u.col, u.col1, wr_nev h (by omega) c _, u.hidden, u.inv h⟩

/-- the reference: the cell at the cursor (column 32 when the cursor is parked) becomes empty -/
theorem spec_ts {v : Service} (h1 : v.mode ≠ none) (h2 : v.mode ≠ some .popOn) :
    v.exec (.special 9) = { v with disp := v.disp.set v.row (if v.col ≤ 32 then v.col else 32) none,
                                   col := if v.col ≤ 32 then v.col + 1 else v.col } := by
  unfold Service.exec
  simp only [h1, if_false, if_true]
  rw [spec_target h2, spec_setTarget h2]

/-- **Transparent Space in both models**, any cursor position including the parked one -/
theorem sim_ts {ch : Channel} {v : Service} (S : EditSim ch v) (chan : Nat) :
    EditSim (tsCell ch (transpSpace (decide (4 ≤ chan)))) (v.exec (.special 9)) := by
  have h := S.inv
  have hcol := h.col_le
  have hrow : ch.row < 15 := by have := h.row_le; omega
  rw [spec_ts S.vmode.1 S.vmode.2]
  have hcu : (transpSpace (decide (4 ≤ chan))).unicode = 0x20 := ts_unicode _
  generalize transpSpace (decide (4 ≤ chan)) = c at hcu ⊢
  obtain ⟨hcells, hd, m1, r1, a1, c1, _, _, _, i1⟩ := tsCell_spec h c
  have hvp : (if v.col ≤ 32 then v.col else 32) = (if ch.col < 33 then ch.col else 32) := by
    rw [S.col]
    by_cases hlt : ch.col < 33
    · rw [if_pos hlt, if_pos (by omega)]
    · rw [if_neg hlt, if_neg (by omega)]
  refine S.row_edit i1 m1 r1 rfl rfl ?_ (by rw [a1]; exact S.pen) ?_ ?_ ?_
  · show (if v.col ≤ 32 then v.col + 1 else v.col) = (tsCell ch c).col
    rw [c1, S.col]
    by_cases hlt : ch.col < 33
    · rw [if_pos hlt, if_pos (by omega)]
    · rw [if_neg hlt, if_neg (by omega)]
  · intro j h1 h2
    show cellSim ((tsCell ch c).hcell ch.row j) (Mem.set v.disp v.row _ _ ch.row j)
    rw [hcells _ j (by omega), hvp]
    unfold Mem.set
    rw [S.row]
    by_cases hj : j = (if ch.col < 33 then ch.col else 32)
    · rw [if_pos ⟨rfl, hj⟩, if_pos ⟨rfl, hj⟩]
      exact ⟨c, rfl, hcu⟩
    · rw [if_neg (fun hh => hj hh.2), if_neg (fun hh => hj hh.2)]
      exact S.cells _ j hrow h1 h2
  · intro r j hr hj
    exact ⟨by rw [hcells r j hj, if_neg (fun hh => hr hh.1)], hd r j⟩
  · intro r j hr
    show Mem.set v.disp v.row _ _ r j = _
    unfold Mem.set
    rw [S.row, if_neg (fun hh => hr hh.1)]

/-! ## mid-row codes against `EditSim` -/

/-- **a mid-row code in both models** (paint-on, roll-up, text mode; needs the F46 repair for the italics code): both
    switch to the same pen and type one space with it - at the cursor, or over column 32 when the cursor is parked -
    and the row becomes visible (libzvbi: the space is a word break) -/
theorem sim_midrow (hk : midrowItalicsKeepsColour = true) {ch : Channel} {v : Service} (S : EditSim ch v) (chan c2 : Nat) :
    EditSim (midRow ch c2) (v.exec (.midRow ((c2 >>> 1) &&& 7) (c2 &&& 1 == 1))) ∧
    Visible (midRow ch c2) (v.exec (.midRow ((c2 >>> 1) &&& 7) (c2 &&& 1 == 1))) := by
  let ch1 : Channel := { ch with attr := midRowPen ch.attr c2 }
  let v1 : Service := { v with pen := v.pen' ((c2 >>> 1) &&& 7) (c2 &&& 1 == 1) false }
  have S1 : EditSim ch1 v1 :=
    ⟨S.inv.withAttr _, S.mode, S.vmode, S.row, S.col, midrow_pen_matches hk ch.attr v S.pen c2,
      fun r j a b c => S.cells r j a b c, fun r j a b c => S.sync r j a b c⟩
  have hv : v.exec (.midRow ((c2 >>> 1) &&& 7) (c2 &&& 1 == 1)) = v1.putChar 0x20 := by
    unfold Service.exec
    simp only []
    split
    · rename_i hn; exact absurd hn S.vmode.1
    · rfl
  have hu : captionUnicode 0x20 = 0x20 := by decide
  have hm : midRow ch c2 = EOp.run chan ch1 (.char 0x20) := by
    rw [midRow_eq]
    show putChar ch1 { ch1.attr with unicode := 0x20 } = putChar ch1 { ch1.attr with unicode := captionUnicode 0x20 }
    rw [hu]
  have hs : v1.putChar 0x20 = EOp.spec v1 (.char 0x20) := rfl
  obtain ⟨A, B⟩ := sim_char S1 chan 0x20 ⟨by decide, by decide⟩
  rw [hm, hv, hs]
  exact ⟨A, B (by decide)⟩

/-! ## correction scripts with Transparent Space and mid-row codes -/

/-- a correction-script step: one of `EOp` (character, BS, DER, EDM, Tab Offset) or the Transparent Space -/
inductive XOp
  | edit (e : EOp)
  | ts
  | midrow (c2 : Nat)     -- second byte of the mid-row code (0x20..0x2F; the model uses bits 0..3 only)
deriving Repr, DecidableEq

def XOp.run (chan : Nat) (ch : Channel) : XOp → Channel
  | .edit e => e.run chan ch
  | .ts => specialChar ch chan 0x39
  | .midrow c2 => midRow ch c2

def XOp.spec (v : Service) : XOp → Service
  | .edit e => e.spec v
  | .ts => v.exec (.special 9)
  | .midrow c2 => v.exec (.midRow ((c2 >>> 1) &&& 7) (c2 &&& 1 == 1))

/-- well-formedness on the reference state; the Transparent Space needs none (destructive in both models) -/
def XOp.ok (v : Service) : XOp → Prop
  | .edit e => e.ok v
  | .ts => True
  | .midrow _ => True

def XOp.shows : XOp → Bool
  | .edit e => e.shows
  | .ts => false
  | .midrow _ => true

theorem sim_xop (hk : midrowItalicsKeepsColour = true) {ch : Channel} {v : Service} (S : EditSim ch v) (chan : Nat) (op : XOp) (hok : op.ok v) :
    EditSim (op.run chan ch) (op.spec v) ∧ (op.shows = true → Visible (op.run chan ch) (op.spec v)) := by
  cases op with
  | edit e => exact sim_op S chan e hok
  | ts =>
    refine ⟨?_, fun hf => absurd (show false = true from hf) (by decide)⟩
    show EditSim (specialChar ch chan 0x39) (v.exec (.special 9))
    rw [specialChar_ts ch chan 0x39 (by decide)]
    exact sim_ts S chan
  | midrow c2 => exact ⟨(sim_midrow hk S chan c2).1, fun _ => (sim_midrow hk S chan c2).2⟩

def runX (chan : Nat) (ch : Channel) (ops : List XOp) : Channel := ops.foldl (XOp.run chan) ch
def specX (v : Service) (ops : List XOp) : Service := ops.foldl XOp.spec v

def xopsOk (v : Service) : List XOp → Prop
  | [] => True
  | op :: rest => op.ok v ∧ xopsOk (op.spec v) rest

theorem xedits_refine (hk : midrowItalicsKeepsColour = true) (chan : Nat) : ∀ (ops : List XOp) {ch : Channel} {v : Service}, EditSim ch v → xopsOk v ops →
    EditSim (runX chan ch ops) (specX v ops) ∧
    ∀ k, (hk0 : 0 < k) → (hk : k ≤ ops.length) → (ops[k - 1]'(by omega)).shows = true →
      Visible (runX chan ch (ops.take k)) (specX v (ops.take k)) := by
  intro ops
  induction ops with
  | nil => intro ch v S _; exact ⟨S, fun k hk0 hk => absurd hk (by simp; omega)⟩
  | cons op rest ih =>
    intro ch v S hok
    obtain ⟨S1, V1⟩ := sim_xop hk S chan op hok.1
    obtain ⟨S2, V2⟩ := ih S1 hok.2
    refine ⟨S2, ?_⟩
    intro k hk0 hk hs
    rcases Nat.lt_or_ge 1 k with hgt | hle
    · have hk' : k - 1 ≤ rest.length := by simp at hk; omega
      have e : (op :: rest).take k = op :: rest.take (k - 1) := by
        cases k with
        | zero => omega
        | succ n => rfl
      rw [e]
      have hidx : (op :: rest)[k - 1]'(by simp; omega) = rest[k - 1 - 1]'(by omega) := by
        cases k with
        | zero => omega
        | succ n =>
          cases n with
          | zero => omega
          | succ m => rfl
      rw [hidx] at hs
      exact V2 (k - 1) (by omega) hk' hs
    · have hk1 : k = 1 := by omega
      subst hk1
      exact V1 hs

/-- a full row: 32 characters were written, the cursor is parked at `COLUMNS - 1` -/
theorem parked_ts_erases {ch : Channel} {v : Service} (S : EditSim ch v) (chan : Nat) (hp : ch.col = 33) :
    (tsCell ch (transpSpace (decide (4 ≤ chan)))).hcell ch.row 32 = some (transpSpace (decide (4 ≤ chan))) ∧
    (v.exec (.special 9)).disp ch.row 32 = none ∧
    (tsCell ch (transpSpace (decide (4 ≤ chan)))).col = 33 ∧ (v.exec (.special 9)).col = 33 := by
  have h := S.inv
  obtain ⟨hcells, _, _, _, _, c1, _⟩ := tsCell_spec h (transpSpace (decide (4 ≤ chan)))
  have hn : ¬ ch.col < 33 := by omega
  refine ⟨?_, ?_, ?_, ?_⟩
  · rw [hcells _ 32 (by omega), if_neg hn, if_pos ⟨rfl, rfl⟩]
  · rw [spec_ts S.vmode.1 S.vmode.2]
    show Mem.set v.disp v.row (if v.col ≤ 32 then v.col else 32) none ch.row 32 = none
    have e : (if v.col ≤ 32 then v.col else 32) = 32 := by rw [S.col, hp]; rfl
    rw [e]
    unfold Mem.set
    rw [S.row, if_pos ⟨rfl, rfl⟩]
  · rw [c1, if_neg hn, hp]
  · rw [spec_ts S.vmode.1 S.vmode.2]
    show (if v.col ≤ 32 then v.col + 1 else v.col) = 33
    rw [S.col, hp, if_neg (by omega)]

/-! ## start states for the examples of `Props/C08Edge.lean` -/

set_option maxRecDepth 100000 in
/-- the start state used in the examples: T1 of the fresh decoder after EDM, against the fresh reference text service -/
theorem start_sim : EditSim (eraseDisplayed (init.chans[4]'(by rw [init_inv.len]; decide))) (Eia608.Service.init true) :=
  editSim_after_edm (init_inv.chs _ (List.getElem_mem _)) (by decide) (by decide) (by decide) (by decide) (by decide)
    (fun _ _ => rfl)

theorem fill_ok : ∀ (n : Nat) (v : Service), opsOk v (List.replicate n (EOp.char 0x41))
  | 0, _ => trivial
  | n + 1, v => ⟨⟨by decide, by decide⟩, fill_ok n _⟩

end Zvbi.Cc
