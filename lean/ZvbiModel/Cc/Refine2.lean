import ZvbiModel.Cc.Refine1
/-!
# Refinement to `Eia608`, part 2: the reference model's rows and their rendering
-/
namespace Zvbi.Cc
open Zvbi.Gen.Cc Eia608

/-- the libzvbi cell that shows a reference cell -/
def toCell (x : SCell) : Cell :=
  { unicode := x.ch, underline := x.pen.underline, italic := x.pen.italic, flash := x.pen.flash,
    opacity := opaqueOf x.pen, fg := x.pen.fg, bg := x.pen.bg }

theorem toRCell_toCell (x : SCell) : toRCell (toCell x) = cellOf x := rfl
theorem isSpace_toCell (x : SCell) : (toCell x).isSpace = isSpaceChar x := rfl
theorem toRCell_solid (x : SCell) : toRCell { toCell x with unicode := 0x20 } = { cellOf x with unicode := 0x20 } := rfl
/-- the blank cell as the reference prints it -/
def blankR : RCell := { unicode := 0x20, underline := false, italic := false, flash := false, opacity := 0, fg := 7, bg := 0 }
theorem toRCell_ts : toRCell tsC = blankR := by decide
theorem toCell_opq (x : SCell) : (toCell x).opacity ≠ opTransparentSpace := by
  show opaqueOf x.pen ≠ opTransparentSpace
  unfold opaqueOf; split <;> decide

/-- row `r` of memory `m` holds exactly the cells `xs` from column `c0` -/
def SegRow (m : Mem) (r c0 : Nat) (xs : List SCell) : Prop :=
  ∀ c, m r c = if c0 ≤ c ∧ c < c0 + xs.length then some (xs.getD (c - c0) default) else none

theorem getD_map_toCell (xs : List SCell) {i : Nat} (hi : i < xs.length) :
    (xs.map toCell).getD i default = toCell (xs.getD i default) := by
  simp [List.getD_eq_getElem?_getD, List.getElem?_eq_getElem hi]

/-- **rendering of a one-segment row**: the 34 cells libzvbi's page shows for it are the typed cells, the leading
    solid space if the first character is not a space, the trailing one if the last is not, blank elsewhere -/
theorem render_segRow {m : Mem} {r c0 : Nat} {xs : List SCell} (S : SegRow m r c0 xs) (hne : xs ≠ []) (hc0 : 1 ≤ c0)
    (hfit : c0 + xs.length ≤ 33) (j : Nat) (hj : j < 34) :
    renderCell false m r j =
      toRCell (rowCell (!(xs.map toCell |>.getD 0 default).isSpace)
        (!(xs.map toCell |>.getD (xs.length - 1) default).isSpace) c0 (xs.map toCell) j) := by
  have hin : ∀ c, inside m r c = if c0 ≤ c ∧ c < c0 + xs.length then some (xs.getD (c - c0) default) else none := by
    intro c
    unfold inside
    rw [S c]
    by_cases h1 : c0 ≤ c ∧ c < c0 + xs.length
    · have : 1 ≤ c ∧ c ≤ 32 := by omega
      rw [if_pos this]
    · rw [if_neg h1]; split <;> rfl
  unfold renderCell
  simp only [Bool.false_eq_true, if_false]
  show (match inside m r j with
    | some x => cellOf x
    | none =>
      match (if j = 0 then none else inside m r (j - 1)), inside m r (j + 1) with
      | some l, right =>
        if (!isSpaceChar l) = true then { cellOf l with unicode := 0x20 }
        else match right with
          | some x => if (!isSpaceChar x) = true then { cellOf x with unicode := 0x20 } else blankR
          | none => blankR
      | none, some x => if (!isSpaceChar x) = true then { cellOf x with unicode := 0x20 } else blankR
      | none, none => blankR) = _
  rw [hin j]
  by_cases hr : c0 ≤ j ∧ j < c0 + xs.length
  · -- a typed cell
    rw [if_pos hr]
    unfold rowCell
    rw [List.length_map, if_pos hr, getD_map_toCell _ (by omega)]
    rfl
  · rw [if_neg hr]
    unfold rowCell
    rw [List.length_map, if_neg hr]
    · have hpos : 0 < xs.length := List.length_pos_iff.mpr hne
      have hfirst : (xs.map toCell).getD 0 default = toCell (xs.getD 0 default) := getD_map_toCell _ hpos
      have hlast : (xs.map toCell).getD (xs.length - 1) default = toCell (xs.getD (xs.length - 1) default) :=
        getD_map_toCell _ (by omega)
      rw [hfirst, hlast, isSpace_toCell, isSpace_toCell]
      by_cases hl : j + 1 = c0
      · -- the cell left of the segment
        have eL : (if j = 0 then none else inside m r (j - 1)) = none := by
          split
          · rfl
          · rw [hin]; rw [if_neg (by omega)]
        have eR : inside m r (j + 1) = some (xs.getD 0 default) := by
          rw [hin, if_pos (by omega)]; congr 2; omega
        rw [eL, eR]
        cases hsp : isSpaceChar (xs.getD 0 default)
        · rw [if_pos ⟨rfl, hl⟩]
          simp only [hsp, Bool.not_false, if_true]; rfl
        · have h1 : ¬ ((!true) = true ∧ j + 1 = c0) := by simp
          have h2 : ¬ ((!isSpaceChar (xs.getD (xs.length - 1) default)) = true ∧ j = c0 + xs.length) := by omega
          rw [if_neg h1, if_neg h2, toRCell_ts]
          simp only [hsp, Bool.not_true, Bool.false_eq_true, if_false]
      · by_cases ht : j = c0 + xs.length
        · -- the cell right of the segment
          have eL : (if j = 0 then none else inside m r (j - 1)) = some (xs.getD (xs.length - 1) default) := by
            rw [if_neg (by omega), hin, if_pos (by omega)]; congr 2; omega
          have eR : inside m r (j + 1) = none := by rw [hin, if_neg (by omega)]
          rw [eL, eR, if_neg (fun hc => hl hc.2)]
          cases hsp : isSpaceChar (xs.getD (xs.length - 1) default)
          · rw [if_pos ⟨rfl, ht⟩]
            simp only [hsp, Bool.not_false, if_true]; rfl
          · have h1 : ¬ ((!true) = true ∧ j = c0 + xs.length) := by simp
            rw [if_neg h1, toRCell_ts]
            simp only [hsp, Bool.not_true, Bool.false_eq_true, if_false]
        · -- away from the segment
          have eL : (if j = 0 then none else inside m r (j - 1)) = none := by
            split
            · rfl
            · rw [hin, if_neg (by omega)]
          have eR : inside m r (j + 1) = none := by rw [hin, if_neg (by omega)]
          rw [eL, eR, if_neg (fun hc => hl hc.2), if_neg (fun hc => ht hc.2), toRCell_ts]


/-- an empty row renders blank -/
theorem render_emptyRow {m : Mem} {r : Nat} (S : ∀ c, m r c = none) (j : Nat) : renderCell false m r j = blankR := by
  have hin : ∀ c, inside m r c = none := by
    intro c; unfold inside; rw [S c]; split <;> rfl
  unfold renderCell
  simp only [hin, ite_self, Bool.false_eq_true, if_false]
  rfl


/-! ## one typed character in both models -/

theorem toRCell_inj {a b : Cell} (h : toRCell a = toRCell b) : a = b := by
  cases a; cases b
  simp only [toRCell, RCell.mk.injEq] at h
  obtain ⟨h1, h2, h3, h4, h5, h6, h7⟩ := h
  subst h1 h2 h3 h4 h5 h6 h7
  rfl

/-- valid character codes of a text pair -/
def isCharCode (ci : Nat) : Bool := decide (0x20 ≤ ci) && decide (ci < 0x80)

theorem charCode_std (ci : Nat) (hw : isCharCode ci = true) : captionUnicode ci = Eia608.basicChar ci := by
  have : ∀ c < 0x80, 0x20 ≤ c → captionUnicode c = Eia608.basicChar c := by decide
  simp only [isCharCode, Bool.and_eq_true, decide_eq_true_eq] at hw
  exact this ci hw.2 hw.1

/-- the typed libzvbi cell is the typed reference cell -/
theorem typed_cell_eq {attr : Cell} {pen : Pen} (hp : penMatches attr pen) (ci : Nat) (hw : isCharCode ci = true) :
    ({ attr with unicode := captionUnicode ci } : Cell) = toCell { ch := Eia608.basicChar ci, pen := pen } := by
  obtain ⟨h1, h2, h3, h4, h5, h6⟩ := hp
  unfold toCell
  rw [charCode_std ci hw, ← h1, ← h2, ← h3, ← h4, ← h5, ← h6]

/-- current rows of both models hold the same one segment, cursors and pens agree -/
structure RowSim (ch : Channel) (v : Service) (lead : Bool) (c0 : Nat) (xs : List SCell) : Prop where
  R : RowIs ch lead false c0 (xs.map toCell)
  S : SegRow v.target ch.row c0 xs
  vrow : v.row = ch.row
  vcol : v.col = ch.col
  pen : penMatches ch.attr v.pen
  vmode : v.mode ≠ none

theorem spec_putChar_seg {v : Service} {c0 : Nat} {xs : List SCell} (hm : v.mode ≠ none)
    (S : SegRow v.target v.row c0 xs) (hcol : v.col = c0 + xs.length) (hroom : c0 + xs.length ≤ 32) (u : Nat) :
    SegRow (v.putChar u).target v.row c0 (xs ++ [{ ch := u, pen := v.pen }]) ∧
    (∀ r c, r ≠ v.row → (v.putChar u).target r c = v.target r c) := by
  obtain ⟨_, _, _, _, s5⟩ := spec_putChar_step v u hm (by omega)
  constructor
  · intro c
    rw [s5]
    unfold Eia608.Mem.set
    by_cases hc : c = v.col
    · have : v.row = v.row ∧ c = v.col := ⟨rfl, hc⟩
      rw [if_pos this]
      have hin : c0 ≤ c ∧ c < c0 + (xs ++ [({ ch := u, pen := v.pen } : SCell)]).length := by simp; omega
      rw [if_pos hin]
      have : c - c0 = xs.length := by omega
      rw [this]
      simp [List.getD_eq_getElem?_getD]
    · have : ¬ (v.row = v.row ∧ c = v.col) := fun h => hc h.2
      rw [if_neg this, S c]
      by_cases hin : c0 ≤ c ∧ c < c0 + xs.length
      · have hin' : c0 ≤ c ∧ c < c0 + (xs ++ [({ ch := u, pen := v.pen } : SCell)]).length := by simp; omega
        rw [if_pos hin, if_pos hin']
        congr 1
        simp [List.getD_eq_getElem?_getD, List.getElem?_append_left (show c - c0 < xs.length by omega)]
      · have hin' : ¬ (c0 ≤ c ∧ c < c0 + (xs ++ [({ ch := u, pen := v.pen } : SCell)]).length) := by simp; omega
        rw [if_neg hin, if_neg hin']
  · intro r c hr
    rw [s5]
    unfold Eia608.Mem.set
    rw [if_neg (fun h => hr h.1)]

/-- **one character typed in both models** (any mode): the segment grows by the same cell; the libzvbi side
    effects are those of `putChar_row` -/
theorem putChar_sim {ch : Channel} {v : Service} (h : ChInv ch) {lead : Bool} {c0 : Nat} {xs : List SCell}
    (Q : RowSim ch v lead c0 xs) (ci : Nat) (hw : isCharCode ci = true) (hroom : c0 + xs.length ≤ 32) :
    let c : Cell := { ch.attr with unicode := captionUnicode ci }
    let x : SCell := { ch := Eia608.basicChar ci, pen := v.pen }
    c = toCell x ∧
    RowSim (putChar ch c) (v.putChar (Eia608.basicChar ci))
      (if c.isSpace then !(((xs ++ [x]).map toCell).getD 0 default).isSpace else lead) c0 (xs ++ [x]) ∧
    (∀ r cc, r ≠ v.row → (v.putChar (Eia608.basicChar ci)).target r cc = v.target r cc) ∧
    ChInv (putChar ch c) ∧ Frame ch (putChar ch c) ∧
    (if c.isSpace = true ∧ ch.mode ≠ .popOn then
      (putChar ch c).nev = ch.nev + 1 ∧
      ∀ r j, j < 34 → (putChar ch c).dcell r j = if r = ch.row then (putChar ch c).hcell r j else ch.dcell r j
     else (putChar ch c).nev = ch.nev ∧ ∀ r j, j < 34 → (putChar ch c).dcell r j = ch.dcell r j) := by
  intro c x
  have hcx : c = toCell x := typed_cell_eq Q.pen ci hw
  have hlen : (xs.map toCell).length = xs.length := List.length_map _
  have pr := putChar_row h Q.R c (by rw [hcx]; exact toCell_opq x) (by rw [hlen]; exact hroom)
  obtain ⟨pi, pf, pR, pside⟩ := pr
  have hcol : v.col = c0 + xs.length := by rw [Q.vcol, Q.R.col, hlen]
  have Sv : SegRow v.target v.row c0 xs := by rw [Q.vrow]; exact Q.S
  obtain ⟨sS, sO⟩ := spec_putChar_seg Q.vmode Sv hcol hroom (Eia608.basicChar ci)
  obtain ⟨s1, s2, s3, s4, _⟩ := spec_putChar_step v (Eia608.basicChar ci) Q.vmode (by omega)
  have hmap : (xs ++ [x]).map toCell = xs.map toCell ++ [c] := by rw [List.map_append, hcx]; rfl
  refine ⟨hcx, ⟨?_, ?_, ?_, ?_, ?_, ?_⟩, sO, pi, pf, pside⟩
  · rw [hmap]; exact pR
  · rw [pf.row, ← Q.vrow]; exact sS
  · rw [s2, pf.row, Q.vrow]
  · rw [s1, pR.col, Q.vcol, Q.R.col]; simp; omega
  · rw [pf.attr, s3]; exact Q.pen
  · rw [s4]; exact Q.vmode

end Zvbi.Cc
