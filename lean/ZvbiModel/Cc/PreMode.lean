import ZvbiModel.Cc.Fields
import ZvbiModel.Cc.Lemmas3
/-!
# Data of a field before any mode-setting command of that field is discarded

`textIdx s f` = `(cc->curr_chan[field2] & 5) + field2 * 2`, the channel the character branch of `vbi_decode_caption`
looks up.  While that channel has `MODE_NONE` a pair that is not an executed control pair changes nothing but `nul_ct`.
-/
namespace Zvbi.Cc
open Zvbi.Gen.Cc

/-- `(cc->curr_chan[field2] & 5) + field2 * 2` -/
def textIdx (s : St) (f : Bool) : Nat := (s.curr f &&& 5) + (if f then 2 else 0)

theorem textPair_none {ch : Channel} (hm : ch.mode = .none) (x y : Nat) : textPair ch x y = { ch with nulCt := 0 } := by
  unfold textPair; rw [hm]; rfl

theorem nulPair_none {ch : Channel} (hm : ch.mode = .none) : nulPair ch = ch := by
  unfold nulPair; rw [hm]; rfl

/-- a state that differs from `s` only in decoder scalars, modified at the text channel by `g` -/
theorem modCh_premode {s t : St} {f : Bool} {ch : Channel} (ht : t.chans = s.chans) (hc : t.curr f = s.curr f)
    (hi : s.chans[textIdx s f]? = some ch) (g : Channel → Channel) (hg : g ch = ch ∨ g ch = { ch with nulCt := 0 }) :
    (t.modCh (textIdx s f) g).curr f = s.curr f ∧
    ∀ i, (t.modCh (textIdx s f) g).chans[i]? = s.chans[i]? ∨
      (i = textIdx s f ∧ (t.modCh (textIdx s f) g).chans[i]? = some { ch with nulCt := 0 }) := by
  refine ⟨by rw [modCh_curr, hc], fun i => ?_⟩
  by_cases hi' : i = textIdx s f
  · subst hi'
    have := modCh_get_same (s := t) g (by rw [ht]; exact hi)
    rw [this]
    rcases hg with e | e
    · left; rw [e, hi]
    · right; exact ⟨rfl, by rw [e]⟩
  · left; rw [modCh_get_ne t _ hi', ht]

theorem decodeMain_premode (s : St) (f : Bool) (b0 b1 : Nat) (hn : isControl b0 = false) {ch : Channel}
    (hi : s.chans[textIdx s f]? = some ch) (hm : ch.mode = .none) :
    (decodeMain s f b0 b1).curr f = s.curr f ∧
    ∀ i, (decodeMain s f b0 b1).chans[i]? = s.chans[i]? ∨
      (i = textIdx s f ∧ (decodeMain s f b0 b1).chans[i]? = some { ch with nulCt := 0 }) := by
  have same : ∀ t : St, t.chans = s.chans → t.curr f = s.curr f →
      t.curr f = s.curr f ∧ ∀ i, t.chans[i]? = s.chans[i]? ∨ (i = textIdx s f ∧ t.chans[i]? = some { ch with nulCt := 0 }) :=
    fun t ht hc => ⟨hc, fun i => Or.inl (by rw [ht])⟩
  have hnul := fun (t : St) (ht : t.chans = s.chans) (hc : t.curr f = s.curr f) =>
    modCh_premode ht hc hi nulPair (Or.inl (nulPair_none hm))
  have htxt := fun (t : St) (ht : t.chans = s.chans) (hc : t.curr f = s.curr f) (x y : Nat) =>
    modCh_premode ht hc hi (fun c => textPair c x y) (Or.inr (textPair_none hm x y))
  unfold decodeMain
  show _ ∧ _
  rw [show (s.curr f &&& 5) + (if f then 2 else 0) = textIdx s f from rfl]
  unfold isControl at hn
  by_cases hbad : (Hamm.unpar8 b0).isNone = true
  · simp only [hbad, if_true, show ¬(1 ≤ 127 ∧ 127 ≤ 0x0F) by decide, show ¬(0x10 ≤ 127 ∧ 127 ≤ 0x1F) by decide,
      show ¬((127 : Nat) = 0x80 ∧ (127 : Nat) = 0x80) by decide, if_false]
    split
    · exact htxt { s with last0 := 0 } rfl rfl _ _
    · exact htxt s rfl rfl _ _
  · have hs : (Hamm.unpar8 b0).isSome = true := by
      cases h : Hamm.unpar8 b0 <;> simp_all
    simp only [hbad, Bool.false_eq_true, if_false]
    simp only [hs, Bool.true_and] at hn
    have hnc : ¬ (0x10 ≤ b0 &&& 0x7F ∧ b0 &&& 0x7F ≤ 0x1F) := by
      intro hc
      simp [hc.1, hc.2] at hn
    by_cases hx : 1 ≤ b0 &&& 0x7F ∧ b0 &&& 0x7F ≤ 0x0F
    · simp only [hx, and_self, if_true]
      split
      · exact same _ rfl rfl
      · exact same _ rfl rfl
    · simp only [hx, hnc, if_false]
      split
      · exact hnul _ rfl rfl
      · split
        · exact htxt { s with last0 := 0 } rfl rfl _ _
        · exact htxt s rfl rfl _ _

/-- **one pair.**  A pair of field `f` that is not an executed control pair (first byte with bad parity, or outside
    0x10..0x1F), while the channel the character branch looks up has no mode: the selector of the field and every
    channel are unchanged, except that `nul_ct` of that channel may be reset. -/
theorem decodePair_premode (s : St) (f : Bool) (b0 b1 : Nat) (hn : isControl b0 = false) {ch : Channel}
    (hi : s.chans[textIdx s f]? = some ch) (hm : ch.mode = .none) :
    (decodePair s f b0 b1).curr f = s.curr f ∧
    ∀ i, (decodePair s f b0 b1).chans[i]? = s.chans[i]? ∨
      (i = textIdx s f ∧ (decodePair s f b0 b1).chans[i]? = some { ch with nulCt := 0 }) := by
  unfold decodePair
  split
  · refine ⟨?_, fun i => Or.inl (by rw [xdsConsumed_chans])⟩
    unfold xdsConsumed; simp only []; split <;> rfl
  · rename_i s' hs
    obtain ⟨_, hc, _, _, _⟩ := xdsGate_some hs
    have hcur := xdsGate_some_curr hs f
    have hidx : textIdx s' f = textIdx s f := by unfold textIdx; rw [hcur]
    have := decodeMain_premode s' f b0 b1 hn (ch := ch) (by rw [hidx, hc]; exact hi) hm
    rw [hidx, hc, hcur] at this
    exact this

end Zvbi.Cc

namespace Zvbi.Cc
open Zvbi.Gen.Cc

/-- caption channel with channel bit 0 of field `f`: CC1 / CC3 -/
def capIdx (f : Bool) : Nat := if f then 2 else 0

/-- field `f` has not executed a mode-setting command: its selector is still 0 and the channel it names has no mode -/
structure PreMode (f : Bool) (s : St) : Prop where
  inv : Inv s
  cur : s.curr f = 0
  none : ∃ ch, s.chans[capIdx f]? = some ch ∧ ch.mode = .none

theorem textIdx_of_cur {s : St} {f : Bool} (h : s.curr f = 0) : textIdx s f = capIdx f := by
  unfold textIdx capIdx; rw [h]; simp

/-- operations that keep field `f` silent: pairs of the other field (anything), pairs of field `f` that are not executed
    control pairs (characters, NULs, bad parity, 0x01..0x0F), page fetches -/
def quiet (f : Bool) : Op → Prop
  | .pair g b0 _ => g = f → isControl (b0 % 256) = false
  | .fetch _ => True
  | .chsw => False

theorem setPg_mode (ch : Channel) (b : Bool) (p : Page) : (ch.setPg b p).mode = ch.mode := by cases b <;> rfl

theorem pairGroup_other (s : St) (g : Bool) (b0 : Nat) :
    capIdx (!g) ≠ pairGroup s g b0 ∧ capIdx (!g) ≠ pairGroup s g b0 + 4 := by
  unfold pairGroup capIdx
  have hb : (if isControl b0 then ((b0 &&& 0x7F) >>> 3) &&& 1 else s.curr g &&& 1) ≤ 1 := by
    split <;> exact Nat.and_le_right
  generalize (if isControl b0 then ((b0 &&& 0x7F) >>> 3) &&& 1 else s.curr g &&& 1) = k at hb
  cases g <;> simp <;> omega

theorem step_premode (hpf : currChanPerField = true) {f : Bool} {s : St} (P : PreMode f s) (op : Op) (hq : quiet f op) :
    PreMode f (step s op) := by
  obtain ⟨ch, hch, hm⟩ := P.none
  cases op with
  | chsw => exact absurd hq (by unfold quiet; exact id)
  | fetch n =>
    refine ⟨fetchStep_inv P.inv n, ?_, ?_⟩
    · show (fetchStep s n).curr f = 0
      unfold fetchStep; split
      · exact P.cur
      · rw [modCh_curr]; exact P.cur
    · show ∃ c, (fetchStep s n).chans[capIdx f]? = some c ∧ c.mode = .none
      unfold fetchStep; split
      · exact ⟨ch, hch, hm⟩
      · by_cases hj : capIdx f = ((n - 1).toNat &&& 7)
        · rw [← hj]
          exact ⟨_, modCh_get_same _ hch, by rw [setPg_mode]; exact hm⟩
        · rw [modCh_get_ne _ _ hj]; exact ⟨ch, hch, hm⟩
  | pair g b0 b1 =>
    refine ⟨decodePair_inv P.inv _ _ _, ?_, ?_⟩
    · show (decodePair s g (b0 % 256) (b1 % 256)).curr f = 0
      by_cases hg : g = f
      · subst hg
        have := decodePair_premode s g (b0 % 256) (b1 % 256) (hq rfl) (ch := ch) (by rw [textIdx_of_cur P.cur]; exact hch) hm
        rw [this.1]; exact P.cur
      · have hf : f = !g := by cases g <;> cases f <;> simp_all
        subst hf
        rw [decodePair_other_curr hpf]; exact P.cur
    · show ∃ c, (decodePair s g (b0 % 256) (b1 % 256)).chans[capIdx f]? = some c ∧ c.mode = .none
      by_cases hg : g = f
      · subst hg
        have := decodePair_premode s g (b0 % 256) (b1 % 256) (hq rfl) (ch := ch) (by rw [textIdx_of_cur P.cur]; exact hch) hm
        rcases this.2 (capIdx g) with e | ⟨_, e⟩
        · exact ⟨ch, by rw [e]; exact hch, hm⟩
        · exact ⟨_, e, hm⟩
      · have hf : f = !g := by cases g <;> cases f <;> simp_all
        subst hf
        obtain ⟨n1, n2⟩ := pairGroup_other s g (b0 % 256)
        rw [decodePair_untouched s g _ _ _ n1 n2]
        exact ⟨ch, hch, hm⟩

theorem foldl_premode (hpf : currChanPerField = true) (f : Bool) (ops : List Op) (hq : ∀ op ∈ ops, quiet f op) :
    ∀ s, PreMode f s → PreMode f (ops.foldl step s) := by
  induction ops with
  | nil => intro s h; exact h
  | cons op rest ih =>
    intro s h
    exact ih (fun o ho => hq o (List.mem_cons_of_mem _ ho)) _ (step_premode hpf h op (hq op (List.mem_cons_self ..)))

set_option maxRecDepth 100000 in
/-- the freshly initialised decoder: `curr_chan[] = {0, 0}`, CC1 and CC3 without a mode -/
theorem init_premode (f : Bool) : PreMode f init := by
  refine ⟨init_inv, ?_, ?_⟩
  · cases f <;> decide
  · have : ∀ f : Bool, (init.chans[capIdx f]?.map (·.mode)) = some Mode.none := by decide
    have h := this f
    cases hc : init.chans[capIdx f]? with
    | none => rw [hc] at h; cases h
    | some c => rw [hc] at h; exact ⟨c, rfl, by simpa using h⟩

end Zvbi.Cc
