import ZvbiModel.Cc.Paint2
/-!
# Corrections inside a row, part 3: whole correction scripts, dispatch of BS / DER / TO, the EDM rule on states
-/
namespace Zvbi.Cc
open Zvbi.Gen.Cc Eia608

theorem sim_op {ch : Channel} {v : Service} (S : EditSim ch v) (chan : Nat) (op : EOp) (hok : op.ok v) :
    EditSim (op.run chan ch) (op.spec v) ∧ (op.shows = true → Visible (op.run chan ch) (op.spec v)) := by
  cases op with
  | char ci => exact sim_char S chan ci hok
  | bs => exact ⟨sim_bs S chan, fun hf => absurd hf (by decide)⟩
  | der => exact ⟨(sim_der S chan).1, fun _ => (sim_der S chan).2⟩
  | edm => exact ⟨(sim_edm S chan).1, fun _ => (sim_edm S chan).2⟩
  | tab n => exact ⟨sim_tab S chan n hok, fun hf => absurd (show false = true from hf) (by decide)⟩

def runOps (chan : Nat) (ch : Channel) (ops : List EOp) : Channel := ops.foldl (EOp.run chan) ch
def specOps (v : Service) (ops : List EOp) : Service := ops.foldl EOp.spec v

/-- every step well-formed in the reference state it meets -/
def opsOk (v : Service) : List EOp → Prop
  | [] => True
  | op :: rest => op.ok v ∧ opsOk (op.spec v) rest

/-- any correction script: the relation holds after every prefix, and after every prefix that ends with a
    space, DER or EDM the displayed memory shows the reference memory -/
theorem edits_refine (chan : Nat) : ∀ (ops : List EOp) {ch : Channel} {v : Service}, EditSim ch v → opsOk v ops →
    EditSim (runOps chan ch ops) (specOps v ops) ∧
    ∀ k, (hk0 : 0 < k) → (hk : k ≤ ops.length) → (ops[k - 1]'(by omega)).shows = true →
      Visible (runOps chan ch (ops.take k)) (specOps v (ops.take k)) := by
  intro ops
  induction ops with
  | nil => intro ch v S _; exact ⟨S, fun k hk0 hk => absurd hk (by simp; omega)⟩
  | cons op rest ih =>
    intro ch v S hok
    obtain ⟨S1, V1⟩ := sim_op S chan op hok.1
    obtain ⟨S2, V2⟩ := ih S1 hok.2
    refine ⟨S2, ?_⟩
    intro k hk0 hk hs
    rcases Nat.lt_or_ge 1 k with hgt | hle
    · have hk' : k - 1 ≤ rest.length := by simp at hk; omega
      have e : (op :: rest).take k = op :: rest.take (k - 1) := by
        cases k with
        | zero => omega
        | succ n => rfl
      rw [e]
      have hidx : (op :: rest)[k - 1]'(by simp; omega) = rest[k - 1 - 1]'(by omega) := by
        cases k with
        | zero => omega
        | succ n =>
          cases n with
          | zero => omega
          | succ m => rfl
      rw [hidx] at hs
      exact V2 (k - 1) (by omega) hk' hs
    · have hk1 : k = 1 := by omega
      subst hk1
      exact V1 hs

/-! ## dispatch of Backspace, Delete to End of Row, Tab Offset -/

theorem dispatch_bs (s : St) (c1 c2 : Nat) (f2 : Bool) (h1 : c1 &&& 7 = 4 ∨ c1 &&& 7 = 5) (h2 : c2 < 0x40) (h3 : c2 &&& 15 = 1) :
    captionCommand s c1 c2 f2 = s.modCh (cmdChan s c1 f2) (fun ch => backspace ch (cmdChan s c1 f2)) := by
  unfold captionCommand cmdChan
  have : ¬ c2 ≥ 0x40 := by omega
  rcases h1 with h1 | h1 <;> simp only [this, if_false, h1, h3]

theorem dispatch_der (s : St) (c1 c2 : Nat) (f2 : Bool) (h1 : c1 &&& 7 = 4 ∨ c1 &&& 7 = 5) (h2 : c2 < 0x40) (h3 : c2 &&& 15 = 4) :
    captionCommand s c1 c2 f2 = s.modCh (cmdChan s c1 f2) (fun ch => deleteToEnd ch (cmdChan s c1 f2)) := by
  unfold captionCommand cmdChan
  have : ¬ c2 ≥ 0x40 := by omega
  rcases h1 with h1 | h1 <;> simp only [this, if_false, h1, h3]

theorem dispatch_c7 (s : St) (c1 c2 : Nat) (f2 : Bool) (h1 : c1 &&& 7 = 7) (h2 : c2 < 0x40) :
    captionCommand s c1 c2 f2 = s.modCh (cmdChan s c1 f2) (fun ch => case7 ch (cmdChan s c1 f2) c2) := by
  unfold captionCommand cmdChan
  have : ¬ c2 ≥ 0x40 := by omega
  simp only [this, if_false, h1]

theorem case7_tab (ch : Channel) (chan c2 : Nat) (hm : ch.mode ≠ .none) (h : 0x21 ≤ c2 ∧ c2 ≤ 0x23) :
    case7 ch chan c2 = tabFill ch (c2 &&& 3) (transpSpace (decide (4 ≤ chan))) := by
  unfold case7
  have : (ch.mode == Mode.none) = false := by cases hmm : ch.mode <;> first | rfl | exact absurd hmm hm
  rw [this]
  simp only [Bool.false_eq_true, if_false, h, and_self, if_true]

/-! ## the EDM rule on decoder states -/

/-- replacing channel `i` by one that differs only in its caption cells, then EDM on it (mode not pop-on):
    the same decoder state as EDM on the original -/
theorem modCh_edm_forgets {s : St} {i : Nat} {a b : Channel} (ha : s.chans[i]? = some a) (hia : ChInv a) (hib : ChInv b)
    (hab : SameButCells a b) (hm : a.mode ≠ .popOn) :
    ({ s with chans := s.chans.set i b } : St).modCh i eraseDisplayed = s.modCh i eraseDisplayed := by
  have hlt : i < s.chans.length := by
    rcases Nat.lt_or_ge i s.chans.length with h | h
    · exact h
    · rw [List.getElem?_eq_none h] at ha; cases ha
  unfold St.modCh
  simp only [ha, List.getElem?_set_self hlt, List.set_set]
  rw [eraseDisplayed_forgets hia hib hab hm]

end Zvbi.Cc

namespace Zvbi.Cc
open Zvbi.Gen.Cc Eia608

/-- a channel just erased by EDM (mode not pop-on) is in relation with every reference service that has an empty
    displayed memory, the same cursor and a matching pen: the start of a correction script -/
theorem editSim_after_edm {x : Channel} (h : ChInv x) (hm : x.mode ≠ .popOn ∧ x.mode ≠ .none) {v : Service}
    (vmode : v.mode ≠ none ∧ v.mode ≠ some .popOn) (hrow : v.row = x.row) (hcol : v.col = x.col)
    (hpen : penMatches x.attr v.pen) (hempty : ∀ r j, v.disp r j = none) : EditSim (eraseDisplayed x) v := by
  obtain ⟨e1, _, _, _, e5⟩ := eraseDisplayed_spec h
  have e5 := e5 hm.1
  have u : Upd x (eraseDisplayed x) := eraseDisplayed_upd h
  have hcell : ∀ r j, r < 15 → j < 34 → (eraseDisplayed x).hcell r j = some x.ts ∧ (eraseDisplayed x).dcell r j = some x.ts := by
    intro r j hr hj
    rw [← nonDisplayed_get _ hr hj, ← displayed_get _ hr hj, e1, e5]
    have : r * 34 + j < 15 * 34 := by omega
    rw [rows_eq, columns_eq, List.getElem?_replicate, if_pos this]
    exact ⟨rfl, rfl⟩
  refine ⟨u.inv h, by rw [u.mode]; exact hm, vmode, by rw [u.row]; exact hrow, by rw [u.col]; exact hcol,
    by rw [u.attr]; exact hpen, ?_, ?_⟩
  · intro r j hr h1 h2
    rw [(hcell r j hr (by omega)).1, hempty]
    exact ⟨_, rfl, rfl⟩
  · intro r j hr _ hj
    rw [(hcell r j hr hj).1, (hcell r j hr hj).2]

/-- writing one cell of the current row gives a channel that differs only in caption cells -/
theorem sameButCells_wr {ch : Channel} (h : ChInv ch) {i : Nat} (hi : i < 34) (c : Cell) (s : String) :
    SameButCells ch (wr ch i c s) := by
  have hl := pg_len h ch.linePg
  have hrow := h.row_le
  have hoff := h.line_off
  have hlt : ch.lineOff + i < 1056 := by omega
  have h510 : ch.lineOff + i < 510 := by omega
  have u := wr_upd h (Nat.le_of_lt hi) c s
  have l0 := h.len0
  have l1 := h.len1
  unfold wr
  simp only [hl, hlt, if_true]
  cases hp : ch.linePg <;>
    constructor <;> simp [Channel.setPg, Channel.pg, hp, List.drop_set_of_lt, h510]

end Zvbi.Cc
