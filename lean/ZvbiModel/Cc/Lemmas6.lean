import ZvbiModel.Cc.Lemmas5
/-!
# `event_on_change` at the level of `caption_command` / `vbi_decode_caption`
-/
namespace Zvbi.Cc
open Zvbi.Gen.Cc

/-- the two kinds of control pair that can change the displayed memory without raising an event
    (finding F19): a roll-up command, and a carriage return addressed to a channel in pop-on mode -/
def silentCmd (s : St) (c1 c2 : Nat) (f2 : Bool) : Prop :=
  c2 < 0x40 ∧ (c1 &&& 7 = 4 ∨ c1 &&& 7 = 5) ∧
  ((ruEraseRaisesEvent = false ∧ (c2 &&& 15 = 5 ∨ c2 &&& 15 = 6 ∨ c2 &&& 15 = 7)) ∨
   (crPopOnNoUpdate = false ∧ c2 &&& 15 = 13 ∧ ∃ ch, s.chans[cmdChan s c1 f2]? = some ch ∧ ch.mode = .popOn))

attribute [local irreducible] pac backgroundAttr specialChar midRow backspace deleteToEnd eraseDisplayed
  eraseNonDisplayed case7 carriageReturn rollUpCmd endOfCaption setCursor in
theorem captionCommand_evst {s : St} (h : Inv s) (c1 c2 : Nat) (f2 : Bool) (hq : ¬ silentCmd s c1 c2 f2) :
    EvSt s (captionCommand s c1 c2 f2) := by
  unfold silentCmd cmdChan at hq
  unfold captionCommand
  have hchan := chan_lt (s.curr f2) c1 f2
  generalize (s.curr f2 &&& 4) + (if f2 then 2 else 0) + ((c1 >>> 3) &&& 1) = chan at hchan hq ⊢
  have hc9 : chan < 9 := by omega
  have h3 := and3_lt chan
  have h4 := or4_lt hchan
  simp only []
  repeat' split
  all_goals first
    | exact EvSt.refl _
    | exact switchChannel_evst h hc9 _
    | exact modCh_evst h (edmChan_lt hc9) (fun ch _ hc => eraseDisplayed_ev hc)
    | exact modCh_evst h (edmChan_lt hc9) (fun ch _ hc => eraseNonDisplayed_ev hc)
    | (apply modCh_evst h hc9
       intro ch hget hc
       first
         | exact pac_ev hc _ _ _
         | exact backgroundAttr_ev hc _
         | exact specialChar_ev hc _ _
         | exact midRow_ev hc _
         | exact backspace_ev hc _
         | exact deleteToEnd_ev hc _
         | exact eraseDisplayed_ev hc
         | exact eraseNonDisplayed_ev hc
         | exact case7_ev hc _ _
         | (refine carriageReturn_ev hc _ ?_
            by_cases hm : ch.mode = .popOn
            · right
              cases hfl : crPopOnNoUpdate
              · exfalso; apply hq
                exact ⟨by omega, by omega, Or.inr ⟨hfl, by assumption, ch, hget, hm⟩⟩
              · rfl
            · left; exact hm)
         | exact (Ev.scalar rfl rfl rfl rfl : Ev ch { ch with attr := _ }))
    | (refine (switchChannel_evst h hc9 _).trans (modCh_evst (switchChannel_inv h hc9 _) h3 ?_)
       intro ch _ hc
       first
         | exact endOfCaption_ev hc
         | exact (Ev.scalar rfl rfl rfl rfl : Ev ch { ch with mode := _ })
         | (cases hfl : ruEraseRaisesEvent
            · exfalso; apply hq; refine ⟨by omega, by omega, Or.inl ⟨hfl, ?_⟩⟩; omega
            · exact rollUpCmd_ev _ hfl))
    | (refine (switchChannel_evst h hc9 _).trans (modCh_evst (switchChannel_inv h hc9 _) h4 ?_)
       intro ch _ hc
       exact setCursor_ev _ _ _)


theorem not_silent_of_repairs (h1 : ruEraseRaisesEvent = true) (h2 : crPopOnNoUpdate = true)
    (s : St) (c1 c2 : Nat) (f2 : Bool) : ¬ silentCmd s c1 c2 f2 := by
  unfold silentCmd
  rw [h1, h2]
  simp

theorem silentCmd_congr {s s' : St} (hc : s'.chans = s.chans) (hcur : s'.curr f2 = s.curr f2) (c1 c2 : Nat) :
    silentCmd s' c1 c2 f2 ↔ silentCmd s c1 c2 f2 := by
  unfold silentCmd cmdChan; rw [hc, hcur]

theorem decodeMain_evst {s : St} (h : Inv s) (f : Bool) (b0 b1 : Nat)
    (hq : ¬ silentCmd s (b0 &&& 0x7F) (b1 &&& 0x7F) f) : EvSt s (decodeMain s f b0 b1) := by
  unfold decodeMain
  have hi := text_idx_lt (s.curr f) f
  generalize (s.curr f &&& 5) + (if f then 2 else 0) = i at hi ⊢
  simp only []
  by_cases hbad : (Hamm.unpar8 b0).isNone = true
  · simp only [hbad, if_true, show ¬(1 ≤ 127 ∧ 127 ≤ 0x0F) by decide, show ¬(0x10 ≤ 127 ∧ 127 ≤ 0x1F) by decide,
      show ¬((127 : Nat) = 0x80 ∧ (127 : Nat) = 0x80) by decide, if_false]
    split
    · exact modCh_evst (s := { s with last0 := 0 }) (h.congr rfl rfl) hi (fun ch _ hc => textPair_ev hc _ _)
    · exact modCh_evst h hi (fun ch _ hc => textPair_ev hc _ _)
  · simp only [hbad, Bool.false_eq_true, if_false]
    repeat' split
    all_goals first
      | exact EvSt.refl _
      | exact (EvSt.refl s).congr rfl
      | exact (captionCommand_evst h _ _ _ hq).congr rfl
      | exact captionCommand_evst h _ _ _ hq
      | exact modCh_evst h hi (fun ch _ hc => nulPair_ev hc)
      | exact modCh_evst h hi (fun ch _ hc => textPair_ev hc _ _)
      | exact modCh_evst (s := { s with last0 := 0 }) (h.congr rfl rfl) hi (fun ch _ hc => textPair_ev hc _ _)

theorem decodePair_evst {s : St} (h : Inv s) (f : Bool) (b0 b1 : Nat)
    (hq : ¬ silentCmd s (b0 &&& 0x7F) (b1 &&& 0x7F) f) : EvSt s (decodePair s f b0 b1) := by
  unfold decodePair
  split
  · exact (EvSt.refl s).congr (xdsConsumed_chans s f b0)
  · rename_i s' hs
    obtain ⟨he, hc, _, _, _⟩ := xdsGate_some hs
    have hcur := xdsGate_some_curr hs f
    have h' : Inv s' := h.congr he hc
    have := decodeMain_evst h' f b0 b1 (fun hs' => hq ((silentCmd_congr hc hcur _ _).1 hs'))
    unfold EvSt at this ⊢
    rw [hc] at this
    exact this

end Zvbi.Cc
