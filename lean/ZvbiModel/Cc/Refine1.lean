import ZvbiModel.Cc.Lemmas7
import ZvbiModel.Cc.Lemmas4
/-!
# Refinement to `Eia608`, part 1: cells, rows, word break and typed characters in closed form
-/
namespace Zvbi.Cc
open Zvbi.Gen.Cc

/-- cell (row r, column j) of a page -/
def Page.cell (p : Page) (r j : Nat) : Option Cell := p.text[r * 34 + j]?
/-- non-displayed memory -/
def Channel.hcell (ch : Channel) (r j : Nat) : Option Cell := (ch.pg ch.hidden).cell r j
/-- displayed memory -/
def Channel.dcell (ch : Channel) (r j : Nat) : Option Cell := (ch.pg (!ch.hidden)).cell r j

theorem rd_eq_hcell {ch : Channel} (h : ChInv ch) (j : Nat) : rd ch j = ch.hcell ch.row j := by
  unfold rd Channel.hcell Page.cell
  rw [h.line_pg, h.line_off]

theorem idx_inj {r j r' j' : Nat} (hj : j < 34) (hj' : j' < 34) : r * 34 + j = r' * 34 + j' ↔ r = r' ∧ j = j' := by
  omega

theorem hcell_wr {ch : Channel} (h : ChInv ch) {i : Nat} (hi : i < 34) (c : Cell) (s : String) (r j : Nat) (hj : j < 34) :
    (wr ch i c s).hcell r j = if r = ch.row ∧ j = i then some c else ch.hcell r j := by
  have hl := pg_len h ch.linePg
  have hlt : ch.lineOff + i < 1056 := by have := h.line_off; have := h.row_le; omega
  have u := wr_upd h (Nat.le_of_lt hi) c s
  unfold Channel.hcell
  rw [u.hidden]
  unfold wr
  simp only [hl, hlt, if_true]
  rw [h.line_pg, pg_setPg_same]
  unfold Page.cell
  simp only []
  rw [h.line_off]
  by_cases hc : r = ch.row ∧ j = i
  · rw [if_pos hc, hc.1, hc.2]
    rw [List.getElem?_set_self]
    rw [← h.line_pg, hl]; have := h.row_le; omega
  · rw [if_neg hc]
    rw [List.getElem?_set_ne]
    intro he
    exact hc ((idx_inj hi hj).1 he |>.imp Eq.symm Eq.symm)

theorem dcell_wr {ch : Channel} (h : ChInv ch) {i : Nat} (hi : i ≤ 34) (c : Cell) (s : String) (r j : Nat) :
    (wr ch i c s).dcell r j = ch.dcell r j := by
  have u := wr_upd h hi c s
  unfold Channel.dcell
  rw [u.hidden, ← h.line_pg, wr_other_pg h hi]


/-- `word_break(cc, ch, 1)` = the solid-space phase (`word_break(cc, ch, 0)`), then - outside pop-on mode -
    `update()` and `render()` -/
theorem wordBreak_true_eq (ch : Channel) :
    wordBreak ch true =
      if (wordBreak ch false).mode == .popOn then wordBreak ch false
      else renderCh (update (wordBreak ch false)) true (wordBreak ch false).row := by
  unfold wordBreak
  simp

/-- blank cell of a caption channel -/
abbrev tsC : Cell := transpSpace false

/-- a row that holds the cells `cs` from column `c0`, optionally the leading / trailing solid space, blank elsewhere -/
def rowCell (lead trail : Bool) (c0 : Nat) (cs : List Cell) (j : Nat) : Cell :=
  if c0 ≤ j ∧ j < c0 + cs.length then cs.getD (j - c0) default
  else if lead = true ∧ j + 1 = c0 then { cs.getD 0 default with unicode := 0x20 }
  else if trail = true ∧ j = c0 + cs.length then { cs.getD (cs.length - 1) default with unicode := 0x20 }
  else tsC

/-- the current row of the non-displayed memory holds exactly one segment, typed from column `c0` -/
structure RowIs (ch : Channel) (lead trail : Bool) (c0 : Nat) (cs : List Cell) : Prop where
  col1 : ch.col1 = c0
  col : ch.col = c0 + cs.length
  c0pos : 1 ≤ c0
  fits : c0 + cs.length ≤ 33
  cells : ∀ j, j < 34 → ch.hcell ch.row j = some (rowCell lead trail c0 cs j)
  opq : ∀ c ∈ cs, c.opacity ≠ opTransparentSpace
  leadok : lead = true → (cs.getD 0 default).isSpace = false
  leadne : lead = true → cs ≠ []

/-- everything outside the current row of the non-displayed memory is as in `a` -/
structure SameBut (a b : Channel) : Prop where
  upd : Upd a b
  nev : b.nev = a.nev
  disp : ∀ r j, b.dcell r j = a.dcell r j
  rows : ∀ r j, j < 34 → r ≠ a.row → b.hcell r j = a.hcell r j

theorem SameBut.refl (a : Channel) : SameBut a a := ⟨Upd.refl a, rfl, fun _ _ => rfl, fun _ _ _ _ => rfl⟩

theorem SameBut.trans {a b c : Channel} (h1 : SameBut a b) (h2 : SameBut b c) : SameBut a c :=
  ⟨h1.upd.trans h2.upd, h2.nev.trans h1.nev, fun r j => (h2.disp r j).trans (h1.disp r j),
   fun r j hj hr => (h2.rows r j hj (by rw [h1.upd.row]; exact hr)).trans (h1.rows r j hj hr)⟩

theorem sameBut_wr {ch : Channel} (h : ChInv ch) {i : Nat} (hi : i < 34) (c : Cell) (s : String) :
    SameBut ch (wr ch i c s) :=
  ⟨wr_upd h (Nat.le_of_lt hi) c s, wr_nev h (Nat.le_of_lt hi) c s, fun r j => dcell_wr h (Nat.le_of_lt hi) c s r j,
   fun r j hj hr => by rw [hcell_wr h hi c s r j hj, if_neg (fun hc => hr hc.1)]⟩

/-- the solid-space phase of `word_break` on a one-segment row: the leading space appears iff the first
    character is not a space, the trailing one iff the last is not -/
theorem wordBreak_row {ch : Channel} (h : ChInv ch) {lead : Bool} {c0 : Nat} {cs : List Cell}
    (R : RowIs ch lead false c0 cs) (hne : cs ≠ []) :
    SameBut ch (wordBreak ch false) ∧
    RowIs (wordBreak ch false) (!(cs.getD 0 default).isSpace) (!(cs.getD (cs.length - 1) default).isSpace) c0 cs := by
  have hn : 0 < cs.length := List.length_pos_iff.mpr hne
  have hc0 := R.c0pos
  have hfit := R.fits
  have hgt : ch.col > ch.col1 := by rw [R.col, R.col1]; omega
  have hne1 : ch.col1 ≠ 0 := by rw [R.col1]; omega
  -- the four cells word_break looks at
  have rFirst : rd ch ch.col1 = some (cs.getD 0 default) := by
    rw [rd_eq_hcell h, R.col1, R.cells c0 (by omega)]
    simp [rowCell, hn]
  have rLead : rd ch (ch.col1 - 1) = some (if lead = true then { cs.getD 0 default with unicode := 0x20 } else tsC) := by
    rw [rd_eq_hcell h, R.col1, R.cells (c0 - 1) (by omega)]
    have h1 : ¬ (c0 ≤ c0 - 1 ∧ c0 - 1 < c0 + cs.length) := by omega
    have h2 : c0 - 1 + 1 = c0 := by omega
    have h3 : ¬ (False ∧ c0 - 1 = c0 + cs.length) := by simp
    cases lead <;> simp [rowCell, h1, h2]
  unfold wordBreak
  rw [if_pos hgt]
  simp only [hne1, if_false, rFirst, rLead, Bool.not_false, Bool.true_or, if_true]
  -- after the leading space
  have key : ∀ chA : Channel, SameBut ch chA →
      (∀ j, j < 34 → chA.hcell chA.row j = some (rowCell (!(cs.getD 0 default).isSpace) false c0 cs j)) →
      SameBut ch (match rd chA (chA.col - 1), rd chA chA.col with
        | some c, some r =>
          if (!c.isSpace && r.opacity == opTransparentSpace) = true then
            wr chA chA.col { c with unicode := 0x20 } "word_break: trailing" else chA
        | _, _ => chA.fail "word_break: read trailing") ∧
      RowIs (match rd chA (chA.col - 1), rd chA chA.col with
        | some c, some r =>
          if (!c.isSpace && r.opacity == opTransparentSpace) = true then
            wr chA chA.col { c with unicode := 0x20 } "word_break: trailing" else chA
        | _, _ => chA.fail "word_break: read trailing")
        (!(cs.getD 0 default).isSpace) (!(cs.getD (cs.length - 1) default).isSpace) c0 cs := by
    intro chA sb hcells
    have hA := sb.upd.inv h
    have hcol : chA.col = c0 + cs.length := by rw [sb.upd.col, R.col]
    have hcol1 : chA.col1 = c0 := by rw [sb.upd.col1, R.col1]
    have rLast : rd chA (chA.col - 1) = some (cs.getD (cs.length - 1) default) := by
      rw [rd_eq_hcell hA, hcol, hcells _ (by omega)]
      have : c0 ≤ c0 + cs.length - 1 ∧ c0 + cs.length - 1 < c0 + cs.length := by omega
      simp only [rowCell, this, and_self, if_true]
      congr 2; omega
    have rTrail : rd chA chA.col = some tsC := by
      rw [rd_eq_hcell hA, hcol, hcells _ (by omega)]
      have h1 : ¬ (c0 ≤ c0 + cs.length ∧ c0 + cs.length < c0 + cs.length) := by omega
      have h2 : ¬ (c0 + cs.length + 1 = c0) := by omega
      simp [rowCell, h1, h2]
    simp only [rLast, rTrail]
    have hts : (tsC.opacity == opTransparentSpace) = true := by decide
    simp only [hts, Bool.and_true]
    by_cases hsp : (cs.getD (cs.length - 1) default).isSpace = true
    · simp only [hsp, Bool.not_true, Bool.false_eq_true, if_false]
      refine ⟨sb, hcol1, hcol, hc0, hfit, ?_, R.opq, ?_, fun _ => hne⟩
      · intro j hj; rw [hcells j hj]
      · intro hl; simpa using hl
    · have hsp' : (cs.getD (cs.length - 1) default).isSpace = false := by simpa using hsp
      simp only [hsp', Bool.not_false, if_true]
      have hi : chA.col < 34 := by rw [hcol]; omega
      have sw := sameBut_wr hA hi { cs.getD (cs.length - 1) default with unicode := 0x20 } "word_break: trailing"
      refine ⟨sb.trans sw, ?_, ?_, hc0, hfit, ?_, R.opq, ?_, fun _ => hne⟩
      · rw [sw.upd.col1, hcol1]
      · rw [sw.upd.col, hcol]
      · intro j hj
        rw [sw.upd.row, hcell_wr hA hi _ _ _ j hj, hcol]
        by_cases hjt : j = c0 + cs.length
        · have h1 : ¬ (c0 ≤ j ∧ j < c0 + cs.length) := by omega
          have h2 : ¬ (j + 1 = c0) := by omega
          simp [rowCell, hjt, h1, h2]
          subst hjt
          simp [rowCell] at h1 ⊢
          omega
        · rw [if_neg (fun hc => hjt hc.2), hcells j hj]
          simp [rowCell, hjt]
      · intro hl; simpa using hl
  have hi : ch.col1 - 1 < 34 := by rw [R.col1]; omega
  have hfirst_op : (cs.getD 0 default).opacity ≠ opTransparentSpace := by
    apply R.opq
    cases cs with
    | nil => exact absurd rfl hne
    | cons a t => simp
  refine key _ ?_ ?_
  · exact ite_prop (P := SameBut ch) (fun _ => sameBut_wr h hi _ _) (fun _ => SameBut.refl _)
  · intro j hj
    by_cases hsp : (cs.getD 0 default).isSpace = true
    · -- first character is a space: no leading space (and `lead` was false)
      have hlead : lead = false := by
        cases lead
        · rfl
        · have := R.leadok rfl; rw [hsp] at this; cases this
      simp only [hsp, Bool.not_true, Bool.false_and, Bool.false_eq_true, if_false]
      rw [R.cells j hj, hlead]
    · have hsp' : (cs.getD 0 default).isSpace = false := by simpa using hsp
      cases lead
      · -- leading cell is blank: written now
        have hts : (tsC.opacity == opTransparentSpace) = true := by decide
        simp only [hsp', Bool.not_false, Bool.false_eq_true, if_false, hts, Bool.and_self, if_true]
        rw [(wr_upd h (Nat.le_of_lt hi) _ _).row, hcell_wr h hi _ _ _ j hj, R.col1]
        by_cases hjl : j = c0 - 1
        · have h1 : ¬ (c0 ≤ j ∧ j < c0 + cs.length) := by omega
          have h2 : j + 1 = c0 := by omega
          simp [rowCell, hjl, h1, h2]
          subst hjl
          simp [rowCell, h2] at h1 ⊢
          omega
        · rw [if_neg (fun hc => hjl hc.2), R.cells j hj]
          have h2 : ¬ (j + 1 = c0) := by omega
          simp [rowCell, h2]
      · -- already there
        have hop : (({ cs.getD 0 default with unicode := 0x20 } : Cell).opacity == opTransparentSpace) = false := by
          simpa using hfirst_op
        simp only [if_true, hop, Bool.and_false, Bool.false_eq_true, if_false]
        rw [R.cells j hj, hsp']
        rfl


/-! ## frames: what stays when the current row is edited -/

/-- scalars other than the cursor column, and all rows of the non-displayed memory except the current one -/
structure Frame (a b : Channel) : Prop where
  idx : b.idx = a.idx
  mode : b.mode = a.mode
  row : b.row = a.row
  row1 : b.row1 = a.row1
  roll : b.roll = a.roll
  attr : b.attr = a.attr
  hidden : b.hidden = a.hidden
  rows : ∀ r j, j < 34 → r ≠ a.row → b.hcell r j = a.hcell r j

theorem Frame.refl (a : Channel) : Frame a a := ⟨rfl, rfl, rfl, rfl, rfl, rfl, rfl, fun _ _ _ _ => rfl⟩

theorem Frame.trans {a b c : Channel} (h1 : Frame a b) (h2 : Frame b c) : Frame a c :=
  ⟨h2.idx.trans h1.idx, h2.mode.trans h1.mode, h2.row.trans h1.row, h2.row1.trans h1.row1, h2.roll.trans h1.roll,
   h2.attr.trans h1.attr, h2.hidden.trans h1.hidden,
   fun r j hj hr => (h2.rows r j hj (by rw [h1.row]; exact hr)).trans (h1.rows r j hj hr)⟩

theorem SameBut.frame {a b : Channel} (h : SameBut a b) : Frame a b :=
  ⟨h.upd.idx, h.upd.mode, h.upd.row, h.upd.row1, h.upd.roll, h.upd.attr, h.upd.hidden, h.rows⟩

theorem renderCh_cells (w : Channel) (b : Bool) (row : Int) :
    (∀ r j, (renderCh w b row).hcell r j = w.hcell r j) ∧ (∀ r j, (renderCh w b row).dcell r j = w.dcell r j) := by
  have ht : ∀ b', ((renderCh w b row).pg b').text = (w.pg b').text := by
    intro b'
    unfold renderCh Channel.event Page.render
    cases b <;> cases b' <;> simp [Channel.setPg, Channel.pg] <;> split <;> rfl
  have hh : (renderCh w b row).hidden = w.hidden := (renderCh_upd w b row).hidden
  constructor
  · intro r j; unfold Channel.hcell Page.cell; rw [hh, ht]
  · intro r j; unfold Channel.dcell Page.cell; rw [hh, ht]

theorem update_cells {w : Channel} (h : ChInv w) :
    (∀ r j, (update w).hcell r j = w.hcell r j) ∧
    (∀ r j, j < 34 → (update w).dcell r j = if r = w.row then w.hcell r j else w.dcell r j) := by
  have p := update_pg h
  have hh : (update w).hidden = w.hidden := (update_upd h).hidden
  have hl := pg_len h
  constructor
  · intro r j; unfold Channel.hcell; rw [hh, p.2]
  · intro r j hj
    unfold Channel.dcell Channel.hcell Page.cell
    rw [hh, p.1, h.line_off]
    have hrow := h.row_le
    rw [blit_get _ _ _ _ _ _ (by rw [hl]; omega) (by rw [hl]; omega)]
    by_cases hr : r = w.row
    · rw [if_pos hr, hr, if_pos (by omega)]
      congr 1; omega
    · rw [if_neg hr]
      have : ¬ (w.row * 34 ≤ r * 34 + j ∧ r * 34 + j < w.row * 34 + 34) := by
        intro hc
        apply hr
        have : r * 34 + j = w.row * 34 + (r * 34 + j - w.row * 34) := by omega
        rcases Nat.lt_or_ge r w.row with hlt | hge
        · omega
        · rcases Nat.lt_or_ge w.row r with hlt2 | hge2
          · omega
          · omega
      rw [if_neg this]


theorem getD_snoc_lt (cs : List Cell) (c d : Cell) {i : Nat} (hi : i < cs.length) : (cs ++ [c]).getD i d = cs.getD i d := by
  simp [List.getD_eq_getElem?_getD, List.getElem?_append_left hi]

theorem getD_snoc_eq (cs : List Cell) (c d : Cell) : (cs ++ [c]).getD cs.length d = c := by
  simp [List.getD_eq_getElem?_getD]

/-- one typed character on a one-segment row.  A non-space character is stored and the cursor advances.  A space
    also runs `word_break`: the leading solid space appears (if the segment starts with a non-space), and outside
    pop-on mode the row is copied to the displayed memory and one event is raised. -/
theorem putChar_row {ch : Channel} (h : ChInv ch) {lead : Bool} {c0 : Nat} {cs : List Cell}
    (R : RowIs ch lead false c0 cs) (c : Cell) (hop : c.opacity ≠ opTransparentSpace) (hroom : c0 + cs.length ≤ 32) :
    ChInv (putChar ch c) ∧ Frame ch (putChar ch c) ∧
    RowIs (putChar ch c) (if c.isSpace then !((cs ++ [c]).getD 0 default).isSpace else lead) false c0 (cs ++ [c]) ∧
    (if c.isSpace = true ∧ ch.mode ≠ .popOn then
      (putChar ch c).nev = ch.nev + 1 ∧
      ∀ r j, j < 34 → (putChar ch c).dcell r j = if r = ch.row then (putChar ch c).hcell r j else ch.dcell r j
     else (putChar ch c).nev = ch.nev ∧ ∀ r j, j < 34 → (putChar ch c).dcell r j = ch.dcell r j) := by
  have hcol : ch.col = c0 + cs.length := R.col
  have hi : ch.col < 34 := by omega
  have hlt : ch.col < columns - 1 := by simp; omega
  -- the store
  have u := wr_upd h (Nat.le_of_lt hi) c "put_char"
  have hw := u.inv h
  have hx : ChInv { wr ch ch.col c "put_char" with col := ch.col + 1 } := by
    have := hw.withCols (c := ch.col + 1) (c1 := ch.col1) h.col1_pos (by have := h.col1_le; omega) (by omega)
    simpa [u.col1] using this
  have fx : Frame ch { wr ch ch.col c "put_char" with col := ch.col + 1 } :=
    ⟨u.idx, u.mode, u.row, u.row1, u.roll, u.attr, u.hidden,
     fun r j hj hr => by
       show (wr ch ch.col c "put_char").hcell r j = _
       rw [hcell_wr h hi c _ r j hj, if_neg (fun hc => hr hc.1)]⟩
  have Rx : RowIs { wr ch ch.col c "put_char" with col := ch.col + 1 } lead false c0 (cs ++ [c]) := by
    refine ⟨by show (wr ch ch.col c "put_char").col1 = _; rw [u.col1, R.col1], by simp [hcol]; omega, R.c0pos,
      by simp; omega, ?_, ?_, ?_, ?_⟩
    · intro j hj
      show (wr ch ch.col c "put_char").hcell (wr ch ch.col c "put_char").row j = _
      rw [u.row, hcell_wr h hi c _ _ j hj, hcol]
      by_cases hj2 : j = c0 + cs.length
      · rw [if_pos ⟨rfl, hj2⟩]
        have : c0 ≤ j ∧ j < c0 + (cs ++ [c]).length := by simp; omega
        simp only [rowCell, this, and_self, if_true]
        have : j - c0 = cs.length := by omega
        rw [this, getD_snoc_eq]
      · rw [if_neg (fun hc => hj2 hc.2), R.cells j hj]
        unfold rowCell
        by_cases hin : c0 ≤ j ∧ j < c0 + cs.length
        · have hin' : c0 ≤ j ∧ j < c0 + (cs ++ [c]).length := by simp; omega
          rw [if_pos hin, if_pos hin', getD_snoc_lt _ _ _ (by omega)]
        · have hin' : ¬ (c0 ≤ j ∧ j < c0 + (cs ++ [c]).length) := by simp; omega
          rw [if_neg hin, if_neg hin']
          by_cases hl : lead = true ∧ j + 1 = c0
          · rw [if_pos hl, if_pos hl]
            have hne := R.leadne hl.1
            rw [getD_snoc_lt _ _ _ (List.length_pos_iff.mpr hne)]
          · rw [if_neg hl, if_neg hl]
            simp
    · intro c' hc'
      rcases List.mem_append.1 hc' with hm | hm
      · exact R.opq c' hm
      · simp at hm; rw [hm]; exact hop
    · intro hl
      have hne := R.leadne hl
      rw [getD_snoc_lt _ _ _ (List.length_pos_iff.mpr hne)]
      exact R.leadok hl
    · intro _; simp
  have nx : ({ wr ch ch.col c "put_char" with col := ch.col + 1 } : Channel).nev = ch.nev := wr_nev h (Nat.le_of_lt hi) c _
  have dx : ∀ r j, ({ wr ch ch.col c "put_char" with col := ch.col + 1 } : Channel).dcell r j = ch.dcell r j :=
    fun r j => dcell_wr h (Nat.le_of_lt hi) c _ r j
  have e : putChar ch c = if c.isSpace then wordBreak { wr ch ch.col c "put_char" with col := ch.col + 1 } true
      else { wr ch ch.col c "put_char" with col := ch.col + 1 } := by
    unfold putChar
    rw [if_pos hlt]
  rw [e]
  generalize ({ wr ch ch.col c "put_char" with col := ch.col + 1 } : Channel) = x at hx fx Rx nx dx ⊢
  by_cases hsp : c.isSpace = true
  · simp only [hsp, if_true, true_and]
    have hne : cs ++ [c] ≠ [] := by simp
    obtain ⟨sb, Rw⟩ := wordBreak_row hx Rx hne
    have hlast : (cs ++ [c]).getD ((cs ++ [c]).length - 1) default = c := by
      have : (cs ++ [c]).length - 1 = cs.length := by simp
      rw [this, getD_snoc_eq]
    rw [hlast, hsp] at Rw
    simp only [Bool.not_true] at Rw
    have hwi := sb.upd.inv hx
    rw [wordBreak_true_eq]
    generalize wordBreak x false = w at sb Rw hwi ⊢
    by_cases hm : ch.mode = .popOn
    · have : (w.mode == .popOn) = true := by rw [sb.upd.mode, fx.mode, hm]; rfl
      rw [if_pos this]
      have hnm : ¬ ch.mode ≠ .popOn := by simpa using hm
      rw [if_neg hnm]
      exact ⟨hwi, fx.trans sb.frame, Rw, by rw [sb.nev, nx], fun r j _ => by rw [sb.disp, dx]⟩
    · have : ¬ (w.mode == .popOn) = true := by rw [sb.upd.mode, fx.mode]; simpa using hm
      rw [if_neg this, if_pos hm]
      have uu := update_upd hwi
      have hui := uu.inv hwi
      have ur := renderCh_upd (update w) true w.row
      have uc := update_cells hwi
      have rc := renderCh_cells (update w) true w.row
      refine ⟨ur.inv hui, ?_, ?_, ?_, ?_⟩
      · have f2 : Frame w (renderCh (update w) true w.row) :=
          ⟨by rw [ur.idx, uu.idx], by rw [ur.mode, uu.mode], by rw [ur.row, uu.row], by rw [ur.row1, uu.row1],
           by rw [ur.roll, uu.roll], by rw [ur.attr, uu.attr], by rw [ur.hidden, uu.hidden],
           fun r j _ _ => by rw [rc.1, uc.1]⟩
        exact (fx.trans sb.frame).trans f2
      · refine ⟨by rw [ur.col1, uu.col1, Rw.col1], by rw [ur.col, uu.col, Rw.col], Rw.c0pos, Rw.fits, ?_, Rw.opq,
          Rw.leadok, Rw.leadne⟩
        intro j hj
        rw [ur.row, uu.row, rc.1, uc.1, Rw.cells j hj]
      · rw [renderCh_nev, update_nev', sb.nev, nx]
      · intro r j hj
        rw [rc.2, uc.2 r j hj, rc.1, uc.1, sb.upd.row, fx.row]
        by_cases hr : r = ch.row
        · rw [if_pos hr, if_pos hr]
        · rw [if_neg hr, if_neg hr, sb.disp, dx]
  · have hsp' : c.isSpace = false := by simpa using hsp
    simp only [hsp', Bool.false_eq_true, if_false, false_and]
    exact ⟨hx, fx, Rx, nx, fun r j _ => dx r j⟩

end Zvbi.Cc
