import ZvbiModel.Cc.Refine2
import ZvbiModel.Cc.Lemmas3
/-!
# Special characters (0x11 / 0x19 0x30..0x3F) inside a row: one step of the row simulation

`putChar_sim` (Refine2) is stated for the 7-bit character codes of a text pair.  Its proof only uses that the typed
libzvbi cell is the typed reference cell; `putChar_sim_glyph` is the same statement for an ARBITRARY glyph typed with
the current pen, and `special_sim` instantiates it with the special characters: libzvbi's `specialChar` (caption.c,
`case 1:` with bit 4 of the second byte) against `Eia608.Service.exec (.special k)`.
-/
namespace Zvbi.Cc
open Zvbi.Gen.Cc Eia608

theorem typed_glyph_eq {attr : Cell} {pen : Pen} (hp : penMatches attr pen) (u : Nat) :
    ({ attr with unicode := u } : Cell) = toCell { ch := u, pen := pen } := by
  obtain ⟨h1, h2, h3, h4, h5, h6⟩ := hp
  unfold toCell
  rw [← h1, ← h2, ← h3, ← h4, ← h5, ← h6]

/-- **one glyph typed in both models** (any mode, any glyph `u`): `putChar_sim` without the restriction to 7-bit codes -/
theorem putChar_sim_glyph {ch : Channel} {v : Service} (h : ChInv ch) {lead : Bool} {c0 : Nat} {xs : List SCell}
    (Q : RowSim ch v lead c0 xs) (u : Nat) (hroom : c0 + xs.length ≤ 32) :
    let c : Cell := { ch.attr with unicode := u }
    let x : SCell := { ch := u, pen := v.pen }
    c = toCell x ∧
    RowSim (putChar ch c) (v.putChar u)
      (if c.isSpace then !(((xs ++ [x]).map toCell).getD 0 default).isSpace else lead) c0 (xs ++ [x]) ∧
    (∀ r cc, r ≠ v.row → (v.putChar u).target r cc = v.target r cc) ∧
    ChInv (putChar ch c) ∧ Frame ch (putChar ch c) ∧
    (if c.isSpace = true ∧ ch.mode ≠ .popOn then
      (putChar ch c).nev = ch.nev + 1 ∧
      ∀ r j, j < 34 → (putChar ch c).dcell r j = if r = ch.row then (putChar ch c).hcell r j else ch.dcell r j
     else (putChar ch c).nev = ch.nev ∧ ∀ r j, j < 34 → (putChar ch c).dcell r j = ch.dcell r j) := by
  intro c x
  have hcx : c = toCell x := typed_glyph_eq Q.pen u
  have hlen : (xs.map toCell).length = xs.length := List.length_map _
  have pr := putChar_row h Q.R c (by rw [hcx]; exact toCell_opq x) (by rw [hlen]; exact hroom)
  obtain ⟨pi, pf, pR, pside⟩ := pr
  have hcol : v.col = c0 + xs.length := by rw [Q.vcol, Q.R.col, hlen]
  have Sv : SegRow v.target v.row c0 xs := by rw [Q.vrow]; exact Q.S
  obtain ⟨sS, sO⟩ := spec_putChar_seg Q.vmode Sv hcol hroom u
  obtain ⟨s1, s2, s3, s4, _⟩ := spec_putChar_step v u Q.vmode (by omega)
  have hmap : (xs ++ [x]).map toCell = xs.map toCell ++ [c] := by rw [List.map_append, hcx]; rfl
  refine ⟨hcx, ⟨?_, ?_, ?_, ?_, ?_, ?_⟩, sO, pi, pf, pside⟩
  · rw [hmap]; exact pR
  · rw [pf.row, ← Q.vrow]; exact sS
  · rw [s2, pf.row, Q.vrow]
  · rw [s1, pR.col, Q.vcol, Q.R.col]; simp; omega
  · rw [pf.attr, s3]; exact Q.pen
  · rw [s4]; exact Q.vmode

/-- a special-character pair reaches `specialChar` on the addressed channel -/
theorem dispatch_special (s : St) (c1 c2 : Nat) (f2 : Bool) (h1 : c1 &&& 7 = 1) (h2 : c2 < 0x40) (h3 : c2 &&& 0x10 ≠ 0) :
    captionCommand s c1 c2 f2 = s.modCh (cmdChan s c1 f2) (fun ch => specialChar ch (cmdChan s c1 f2) c2) := by
  unfold captionCommand cmdChan
  have : ¬ c2 ≥ 0x40 := by omega
  simp only [this, if_false, h1]
  simp [h3]

/-- libzvbi's glyph for special character `k` is the one of 15.119 (g) -/
theorem special_glyph : ∀ k < 16, captionUnicode (0x1130 ||| k) = Eia608.specialChar k := by decide

/-- the second bytes 0x30..0x3F: bit 4 set, low nibble = the character number -/
theorem special_c2 : ∀ k < 16, (0x30 ||| k) < 0x40 ∧ (0x30 ||| k) &&& 0x10 ≠ 0 ∧ (0x30 ||| k) &&& 15 = k ∧
    Eia608.decodeCmd 1 (0x30 ||| k) = some (0, .special k) ∧ Eia608.decodeCmd 9 (0x30 ||| k) = some (1, .special k) := by
  decide

/-- **one special character in both models**: `specialChar` (libzvbi) against `exec (.special k)` (reference), k ≠ 9 -/
theorem special_sim {ch : Channel} {v : Service} (h : ChInv ch) {lead : Bool} {c0 : Nat} {xs : List SCell}
    (Q : RowSim ch v lead c0 xs) (chan k : Nat) (hk : k < 16) (h9 : k ≠ 9) (hroom : c0 + xs.length ≤ 32) :
    let x : SCell := { ch := Eia608.specialChar k, pen := v.pen }
    RowSim (specialChar ch chan (0x30 ||| k)) (v.exec (.special k)) lead c0 (xs ++ [x]) ∧
    (∀ r cc, r ≠ v.row → (v.exec (.special k)).target r cc = v.target r cc) ∧
    ChInv (specialChar ch chan (0x30 ||| k)) ∧ Frame ch (specialChar ch chan (0x30 ||| k)) ∧
    (specialChar ch chan (0x30 ||| k)).nev = ch.nev ∧
    (∀ r j, j < 34 → (specialChar ch chan (0x30 ||| k)).dcell r j = ch.dcell r j) := by
  intro x
  have hm : (specialChar ch chan (0x30 ||| k)) =
      putChar ch { ch.attr with unicode := Eia608.specialChar k } := by
    unfold Cc.specialChar
    simp only [(special_c2 k hk).2.2.1, h9, if_false, special_glyph k hk]
  have hv : v.exec (.special k) = v.putChar (Eia608.specialChar k) := by
    unfold Service.exec
    simp only [h9, if_false]
    split
    · rename_i hn; exact absurd hn Q.vmode
    · rfl
  have hns : ({ ch.attr with unicode := Eia608.specialChar k } : Cell).isSpace = false := by
    have : ∀ k < 16, k ≠ 9 → ((Eia608.specialChar k &&& 0x7F) == 0x20) = false := by decide
    exact this k hk h9
  obtain ⟨_, R, O, I, F, side⟩ := putChar_sim_glyph h Q (Eia608.specialChar k) hroom
  rw [hm, hv]
  simp only [hns, Bool.false_eq_true, if_false, false_and] at R side
  exact ⟨R, O, I, F, side.1, side.2⟩

end Zvbi.Cc
