import ZvbiModel.Cc.Refine5
/-!
# Refinement to `Eia608`, part 6: roll-up captions  `RUn (PAC)? (text CR)*`
-/
namespace Zvbi.Cc
open Zvbi.Gen.Cc Eia608

/-- displayed row `r` shows what the reference memory `m` renders there -/
def DispRowOK (ch : Channel) (m : Mem) (r : Nat) : Prop :=
  ∀ j, j < 34 → ∃ c, ch.dcell r j = some c ∧ toRCell c = renderCell false m r j

/-- a row in sync (last typed character a space) shows the reference row -/
theorem dispRow_of_synced {ch : Channel} {v : Service} {lead : Bool} {c0 : Nat} {xs : List SCell}
    (Q : RowSim ch v lead c0 xs) (hd : directMode v) (sy : RowSynced ch lead (xs.map toCell)) (hx : xs ≠ [])
    (hlast : isSpaceChar (xs.getD (xs.length - 1) default) = true) : DispRowOK ch v.disp ch.row := by
  have hne : xs.map toCell ≠ [] := by simpa using hx
  have hpos : 0 < xs.length := List.length_pos_iff.mpr hx
  have hl' : ((xs.map toCell).getD ((xs.map toCell).length - 1) default).isSpace = true := by
    rw [List.length_map, getD_map_toCell _ (by omega), isSpace_toCell]; exact hlast
  obtain ⟨hl, hdc⟩ := sy hne hl'
  have S := Q.S
  rw [spec_target_dir hd] at S
  have hfit : c0 + xs.length ≤ 33 := by have := Q.R.fits; simpa using this
  intro j hj
  refine ⟨_, by rw [hdc j hj]; exact Q.R.cells j hj, ?_⟩
  rw [render_segRow S hx Q.R.c0pos hfit j hj, ← hl]
  rw [List.length_map] at hl'
  rw [hl']
  rfl

/-- libzvbi channel and reference service in roll-up mode with depth `n`; `synced` says that the base row of the
    displayed memory is up to date as well -/
structure RollRel (ch : Channel) (v : Service) (n : Nat) (synced : Bool) : Prop where
  inv : ChInv ch
  idx : ch.idx < 4
  mode : ch.mode = .rollUp
  roll : ch.roll = n
  vmode : v.mode = some (.rollUp n)
  n2 : 2 ≤ n
  n4 : n ≤ 4
  base : ch.row + 1 = ch.row1 + ch.roll
  vbase : v.base = ch.row
  rows : ∀ r, r < 15 → r ≠ ch.row → DispRowOK ch v.disp r
  cur : ∃ lead c0 xs, RowSim ch v lead c0 xs ∧ RowSynced ch lead (xs.map toCell)
  sync : synced = true → DispRowOK ch v.disp ch.row

theorem RollRel.direct {ch : Channel} {v : Service} {n : Nat} {s : Bool} (R : RollRel ch v n s) : directMode v := by
  unfold directMode; rw [R.vmode]; simp

theorem RollRel.dispOK {ch : Channel} {v : Service} {n : Nat} (R : RollRel ch v n true) : DispOK ch v.disp := by
  intro r hr j hj
  by_cases he : r = ch.row
  · rw [he]; exact R.sync rfl j hj
  · exact R.rows r hr he j hj


/-- both libzvbi memories blank, reference displayed memory empty -/
def AllBlank (ch : Channel) (v : Service) : Prop :=
  (∀ r, r < 15 → ∀ j, j < 34 → ch.hcell r j = some tsC ∧ ch.dcell r j = some tsC) ∧ ∀ r c, v.disp r c = none

/-- the word break that `switch_channel()` performs on an idle channel changes no cell -/
theorem idle_wordBreak {ch : Channel} {v : Service} (I : IdleRel ch v) :
    ChInv (wordBreak ch true) ∧ Upd ch (wordBreak ch true) ∧
    (∀ r j, (wordBreak ch true).hcell r j = ch.hcell r j) ∧ DispOK (wordBreak ch true) v.disp ∧
    ((∀ r, r < 15 → ∀ j, j < 34 → ch.dcell r j = some tsC) →
      ∀ r, r < 15 → ∀ j, j < 34 → (wordBreak ch true).dcell r j = some tsC) := by
  have hnoop := wordBreak_false_noop I.coleq
  have u := wordBreak_upd I.inv true
  refine ⟨u.inv I.inv, u, ?_⟩
  rw [wordBreak_true_eq, hnoop]
  rcases I.mode with ⟨hm, _⟩ | ⟨hm, _, hrow⟩
  · have : (ch.mode == .popOn) = true := by rw [hm]; rfl
    rw [if_pos this]
    exact ⟨fun _ _ => rfl, I.disp, fun h => h⟩
  · have : ¬ (ch.mode == .popOn) = true := by rw [hm]; decide
    rw [if_neg this]
    have uc := update_cells I.inv
    have rc := renderCh_cells (update ch) true ch.row
    refine ⟨fun r j => by rw [rc.1, uc.1], ?_, ?_⟩
    · intro r hr j hj
      rw [rc.2, uc.2 r j hj]
      by_cases he : r = ch.row
      · rw [if_pos he, I.hid r hr j hj]
        obtain ⟨c, hc, e⟩ := I.disp r hr j hj
        rw [he, hrow j hj] at hc
        cases hc
        exact ⟨tsC, rfl, e⟩
      · rw [if_neg he]; exact I.disp r hr j hj
    · intro hb r hr j hj
      rw [rc.2, uc.2 r j hj]
      by_cases he : r = ch.row
      · rw [if_pos he]; exact I.hid r hr j hj
      · rw [if_neg he]; exact hb r hr j hj

theorem ruErase_cells {x : Channel} (h : ChInv x) :
    ∀ r, r < 15 → ∀ j, j < 34 → (ruErase x).hcell r j = some x.ts ∧ (ruErase x).dcell r j = some x.ts := by
  have u := ruErase_upd h
  have u1 := eraseMemory_upd h x.hidden
  have h1 := u1.inv h
  obtain ⟨a1, a2⟩ := erase_cells h x.hidden
  obtain ⟨b1, b2⟩ := erase_cells h1 (!x.hidden)
  have hts : (eraseMemory x x.hidden).ts = x.ts := ts_of_idx u1.idx
  have key : ∀ b, ∀ r, r < 15 → ∀ j, j < 34 →
      ((eraseMemory (eraseMemory x x.hidden) (!x.hidden)).pg b).cell r j = some x.ts := by
    intro b r hr j hj
    by_cases hb : b = x.hidden
    · have : (eraseMemory (eraseMemory x x.hidden) (!x.hidden)).pg (!(!x.hidden)) = (eraseMemory x x.hidden).pg (!(!x.hidden)) := b2
      simp only [Bool.not_not] at this
      rw [hb, this]; exact a1 r hr j hj
    · have : b = !x.hidden := by cases b <;> cases hx : x.hidden <;> simp_all
      rw [this, b1 r hr j hj, hts]
  intro r hr j hj
  have ht : ∀ b, ((ruErase x).pg b).text = ((eraseMemory (eraseMemory x x.hidden) (!x.hidden)).pg b).text := by
    intro b
    unfold ruErase
    simp only []
    split
    · rw [event_pg]
      by_cases hb : b = !x.hidden
      · rw [hb, pg_setPg_same]; rfl
      · have : b = !(!x.hidden) := by cases b <;> cases hx : x.hidden <;> simp_all
        rw [this, pg_setPg_other]
    · rfl
  unfold Channel.hcell Channel.dcell Page.cell
  rw [ht, ht]
  exact ⟨key _ r hr j hj, key _ r hr j hj⟩

/-- the RUx command on the addressed caption channel: `switch_channel()`'s word break, then the erase and reset -/
def ruModel (ch : Channel) (n : Nat) : Channel := rollUpCmd (wordBreak ch true) n

/-- **RUx from an idle / fresh channel**: both sides erase both memories, the window is at rows 15-n+1 .. 15, the
    cursor at column 1 of row 15; the pens are the ones left by the last PAC -/
theorem ru_step {ch : Channel} {v : Service} (I : IdleRel ch v) {n : Nat} (h2 : 2 ≤ n) (h4 : n ≤ 4) :
    RollRel (ruModel ch n) (v.exec (.ru n)) n true ∧ AllBlank (ruModel ch n) (v.exec (.ru n)) := by
  obtain ⟨xi, xu, _, _, _⟩ := idle_wordBreak I
  unfold ruModel
  generalize wordBreak ch true = x at xi xu
  have hxm : ¬ ((x.mode == .rollUp && x.roll == n) = true) := by
    rw [xu.mode]
    rcases I.mode with ⟨hm, _⟩ | ⟨hm, _, _⟩ <;> rw [hm] <;> simp
  have e : rollUpCmd x n = ruFinish (ruErase x) n := by unfold rollUpCmd; rw [if_neg hxm]
  rw [e]
  have ue := ruErase_upd xi
  have hei := ue.inv xi
  have hcells := ruErase_cells xi
  have hts : x.ts = tsC := ts_of_idx4 (by rw [xu.idx]; exact I.idx)
  have ev : v.exec (.ru n) =
      ({ v with mode := some (Style.rollUp n), disp := Mem.empty, nond := Mem.empty, base := 14, row := 14, col := 1 } : Service) := by
    unfold Service.exec
    rcases I.mode with ⟨_, hv⟩ | ⟨_, hv, _⟩ <;> rw [hv]
  have hfi := ruFinish_inv hei h2 h4
  -- cells of the result
  have hc : ∀ r, r < 15 → ∀ j, j < 34 →
      (ruFinish (ruErase x) n).hcell r j = some tsC ∧ (ruFinish (ruErase x) n).dcell r j = some tsC := by
    intro r hr j hj
    have := hcells r hr j hj
    rw [hts] at this
    exact this
  have hblankRow : ∀ r, r < 15 → DispRowOK (ruFinish (ruErase x) n) (v.exec (.ru n)).disp r := by
    intro r hr j hj
    refine ⟨tsC, (hc r hr j hj).2, ?_⟩
    rw [toRCell_ts, ev]; exact (render_emptyRow (fun _ => rfl) j).symm
  have hd : directMode (v.exec (.ru n)) := by unfold directMode; rw [ev]; simp
  refine ⟨⟨hfi, by show (ruErase x).idx < 4; rw [ue.idx, xu.idx]; exact I.idx, rfl, rfl, by rw [ev], h2, h4,
    by show 14 + 1 = (14 - n + 1) + n; omega, by rw [ev]; rfl, fun r hr _ => hblankRow r hr, ?_, fun _ => hblankRow 14 (by omega)⟩,
    ⟨hc, by rw [ev]; intro r c; rfl⟩⟩
  refine ⟨false, 1, [], ⟨⟨rfl, rfl, by omega, by simp, ?_, by simp, by simp, by simp⟩, ?_, by rw [ev]; rfl, by rw [ev]; rfl, ?_,
    by rw [ev]; simp⟩, by intro h; simp at h⟩
  · intro j hj
    show (ruFinish (ruErase x) n).hcell 14 j = _
    rw [(hc 14 (by omega) j hj).1]
    simp [rowCell]
    intro a b; omega
  · rw [spec_target_dir hd, ev]
    intro c; simp [Mem.empty]; omega
  · show penMatches (ruErase x).attr _
    rw [ue.attr, xu.attr, ev]; exact I.pen


/-- character codes whose glyph is a space for both models (0x20, and 0x7F whose U+25A0 has low bits 0x20) -/
def spaceCode (ci : Nat) : Bool := (Eia608.basicChar ci &&& 0x7F) == 0x20

/-- does the text end with a space (a completed word)? -/
def endsSpace (cs : List Nat) : Bool :=
  match cs.getLast? with
  | some ci => spaceCode ci
  | none => false

theorem last_of_typed (xs : List SCell) (cs : List Nat) (pen : Pen) (hne : cs ≠ []) :
    isSpaceChar ((xs ++ cs.map (fun ci => ({ ch := Eia608.basicChar ci, pen := pen } : SCell))).getD
      ((xs ++ cs.map (fun ci => ({ ch := Eia608.basicChar ci, pen := pen } : SCell))).length - 1) default) = endsSpace cs := by
  obtain ⟨init, l, rfl⟩ : ∃ init l, cs = init ++ [l] := ⟨cs.dropLast, cs.getLast hne, (List.dropLast_concat_getLast hne).symm⟩
  unfold endsSpace
  simp [List.getD_eq_getElem?_getD, isSpaceChar, spaceCode]

/-- text in roll-up mode: the relation is kept; the base row of the displayed memory is in sync exactly after
    a text that ends with a space -/
theorem text_roll {ch : Channel} {v : Service} {n : Nat} {s : Bool} (R : RollRel ch v n s) (cs : List Nat)
    (hne : cs ≠ []) (hw : ∀ ci ∈ cs, isCharCode ci = true) (hlen : v.col + cs.length ≤ 33) :
    RollRel (charRun ch cs) (specRun v cs) n (endsSpace cs) := by
  obtain ⟨lead, c0, xs, Q, sy⟩ := R.cur
  have hd := R.direct
  have hcol : v.col = c0 + xs.length := by rw [Q.vcol, Q.R.col]; simp
  have hmne : ch.mode ≠ .popOn := by rw [R.mode]; decide
  obtain ⟨lead', xs', ex, Q2, sy2, i2, f2, _, d2, o2, m2, _, b2⟩ :=
    text_sim_dir c0 cs R.inv hmne hd Q sy hw (by omega)
  have hd2 : directMode (specRun v cs) := by unfold directMode; rw [m2]; exact hd
  have hxs' : xs' ≠ [] := by rw [ex]; simp [hne]
  refine ⟨i2, by rw [f2.idx]; exact R.idx, by rw [f2.mode]; exact R.mode, by rw [f2.roll]; exact R.roll,
    by rw [m2]; exact R.vmode, R.n2, R.n4, by rw [f2.row, f2.row1, f2.roll]; exact R.base, by rw [b2, f2.row]; exact R.vbase,
    ?_, ⟨lead', c0, xs', Q2, sy2⟩, ?_⟩
  · intro r hr hne' j hj
    rw [f2.row] at hne'
    rw [d2 r j hj hne']
    obtain ⟨c, hc, e⟩ := R.rows r hr hne' j hj
    refine ⟨c, hc, ?_⟩
    rw [e]
    exact (renderCell_congr (fun c => o2 r c (by rw [Q.vrow]; exact hne')) j).symm
  · intro hs
    have hl := last_of_typed xs cs v.pen hne
    rw [← ex, hs] at hl
    exact dispRow_of_synced Q2 hd2 sy2 hxs' hl


theorem renderCell_congr2 {t : Bool} {m m' : Mem} {r r' : Nat} (h : ∀ c, m r c = m' r' c) (j : Nat) :
    renderCell t m r j = renderCell t m' r' j := by
  have hi : ∀ c, inside m r c = inside m' r' c := by intro c; unfold inside; rw [h c]
  unfold renderCell
  simp only [hi]

/-- closing word break + row update in roll-up mode: afterwards the whole displayed memory is up to date -/
theorem sync_all {ch : Channel} {v : Service} {n : Nat} {s : Bool} (R : RollRel ch v n s) :
    ChInv (update (wordBreak ch true)) ∧ Upd ch (update (wordBreak ch true)) ∧
    DispOK (update (wordBreak ch true)) v.disp := by
  obtain ⟨lead, c0, xs, Q, _⟩ := R.cur
  have hd := R.direct
  have S := Q.S
  rw [spec_target_dir hd] at S
  obtain ⟨sb, hk⟩ := close_row R.inv Q.R S
  have hW := sb.upd.inv R.inv
  have e : wordBreak ch true = renderCh (update (wordBreak ch false)) true (wordBreak ch false).row := by
    rw [wordBreak_true_eq]
    have : ¬ ((wordBreak ch false).mode == .popOn) = true := by rw [sb.upd.mode, R.mode]; decide
    rw [if_neg this]
  rw [e]
  generalize wordBreak ch false = w at sb hk hW
  have u1 := update_upd hW
  have h1 := u1.inv hW
  have c1 := update_cells hW
  have u2 := renderCh_upd (update w) true w.row
  have h2 := u2.inv h1
  have c2 := renderCh_cells (update w) true w.row
  have u3 := update_upd h2
  have c3 := update_cells h2
  refine ⟨u3.inv h2, ((sb.upd.trans u1).trans u2).trans u3, ?_⟩
  intro r hr j hj
  rw [c3.2 r j hj, c2.1, c1.1, c2.2, c1.2 r j hj, u2.row, u1.row, sb.upd.row]
  by_cases he : r = ch.row
  · rw [if_pos he, he]; exact hk j hj
  · rw [if_neg he, if_neg he, sb.disp]; exact R.rows r hr he j hj

theorem crFinish_facts {z : Channel} (h : ChInv z) (lastRow : Nat) :
    (crFinish z lastRow).idx = z.idx ∧ (crFinish z lastRow).mode = z.mode ∧ (crFinish z lastRow).roll = z.roll ∧
    (crFinish z lastRow).row1 = z.row1 ∧ (crFinish z lastRow).row = z.row ∧ (crFinish z lastRow).attr = z.attr ∧
    (crFinish z lastRow).hidden = z.hidden ∧ (∀ r j, (crFinish z lastRow).hcell r j = z.hcell r j) := by
  unfold crFinish
  by_cases hm : (z.mode != .popOn) = true
  · rw [if_pos hm]
    have u1 := update_upd h
    have c1 := update_cells h
    have hl : (((update z).pg (!(update z).hidden)).rollUp (update z).row1 lastRow).text.length =
        ((update z).pg (!(update z).hidden)).text.length := by unfold Page.rollUp; split <;> rfl
    have u2 := setPg_upd (update z) (!(update z).hidden) _ hl
    refine ⟨by show ((update z).setPg _ _).idx = _; rw [u2.idx, u1.idx], by show ((update z).setPg _ _).mode = _; rw [u2.mode, u1.mode],
      by show ((update z).setPg _ _).roll = _; rw [u2.roll, u1.roll], by show ((update z).setPg _ _).row1 = _; rw [u2.row1, u1.row1],
      by show ((update z).setPg _ _).row = _; rw [u2.row, u1.row], by show ((update z).setPg _ _).attr = _; rw [u2.attr, u1.attr],
      by show ((update z).setPg _ _).hidden = _; rw [u2.hidden, u1.hidden], ?_⟩
    intro r j
    show (((update z).setPg (!(update z).hidden) _).event).hcell r j = _
    unfold Channel.hcell
    show (((update z).setPg (!(update z).hidden) _).pg ((update z).setPg (!(update z).hidden) _).hidden).cell r j = _
    rw [u2.hidden]
    have := pg_setPg_other (update z) (!(update z).hidden)
      (((update z).pg (!(update z).hidden)).rollUp (update z).row1 lastRow)
    simp only [Bool.not_not] at this
    rw [this]
    exact c1.1 r j
  · rw [if_neg hm]
    exact ⟨rfl, rfl, rfl, rfl, rfl, rfl, rfl, fun _ _ => rfl⟩

/-- **Carriage Return in roll-up mode**: both windows roll, both cursors return to column 1 of the base row, and the
    whole displayed memory is up to date afterwards -/
theorem cr_step {ch : Channel} {v : Service} {n : Nat} {s : Bool} (R : RollRel ch v n s) {chan : Nat} (hchan : chan < 4) :
    RollRel (carriageReturn ch chan) (v.exec .cr) n true := by
  obtain ⟨xi, xu, xd⟩ := sync_all R
  obtain ⟨r1, r2, r3, r4, _, r6⟩ := carriageReturn_rollup R.inv chan R.mode R.base
  have hinv := carriageReturn_inv R.inv chan
  obtain ⟨lead, c0, xs, Q, _⟩ := R.cur
  have hd := R.direct
  -- scalars and the hidden row through the steps
  have hroll := R.inv.roll_pos
  have hrow := R.inv.row_le
  have hwin := R.inv.win
  have hbase := R.base
  have hmn : (ch.mode == .none) = false := by rw [R.mode]; rfl
  have hr0 : ch.roll ≠ 0 := by omega
  have hlast : min (ch.row1 + ch.roll - 1) (15 - 1) = ch.row := by omega
  have hnlt : ¬ ch.row < ch.row := by omega
  have hbb : (ch.hidden != (ch.mode != .popOn)) = !ch.hidden := by rw [R.mode]; cases ch.hidden <;> rfl
  have es : crSync ch = update (wordBreak ch true) := by
    unfold crSync
    have : (crPopOnNoUpdate && ch.mode == .popOn) = false := by rw [R.mode]; simp
    rw [this]; rfl
  have e : carriageReturn ch chan =
      crFinish (crClear (crMove (update (wordBreak ch true)) (!ch.hidden)) chan) ch.row := by
    unfold carriageReturn
    simp only [hmn, Bool.false_eq_true, if_false, hr0, rows_eq, hlast, hnlt, hbb, es]
  have u2 := crMove_upd xi (!ch.hidden)
  have hy := u2.inv xi
  have u3 := crClear_upd hy chan
  have hz := u3.inv hy
  have u := (xu.trans u2).trans u3
  have ff := crFinish_facts hz ch.row
  rw [← e] at ff
  obtain ⟨f1, f2, f3, f4, f5, f6, f7, f8⟩ := ff
  -- hidden base row is blank
  have hblank : ∀ j, j < 34 → (carriageReturn ch chan).hcell ch.row j = some tsC := by
    intro j hj
    rw [f8]
    have p := fill_pg hy (a := 0) (n := 34 + 1) (by omega) (transpSpace (decide (4 ≤ chan))) "cr: clear line[0..COLUMNS]"
    have hl := pg_len hy (crMove (update (wordBreak ch true)) (!ch.hidden)).hidden
    unfold Channel.hcell Page.cell
    show ((fill _ 0 (34 + 1) _ _).pg (crClear _ chan).hidden).text[_]? = _
    rw [u3.hidden, p.1, hy.line_off, fillList_get _ _ _ _ _ (by rw [hl]; have := hy.row_le; omega), (xu.trans u2).row,
      if_pos (by omega), tsC_of_chan hchan]
  have ev : v.exec .cr = { v with disp := rollWindow v.disp (v.base + 1 - n) v.base, row := v.base, col := 1 } := by
    unfold Service.exec; rw [R.vmode]
  have htop : v.base + 1 - n = ch.row1 := by rw [R.vbase]; have := R.roll; omega
  have hd' : directMode (v.exec .cr) := by unfold directMode; rw [ev]; exact hd
  -- displayed rows
  have hdisp : ∀ r, r < 15 → DispRowOK (carriageReturn ch chan) (v.exec .cr).disp r := by
    intro r hr j hj
    have hi : r * 34 + j < 510 := by omega
    have := r6 (r * 34 + j) hi
    rw [displayed_get _ hr hj] at this
    rw [this, ev]
    by_cases hb : ch.row * 34 ≤ r * 34 + j ∧ r * 34 + j < ch.row * 34 + 34
    · have hre : r = ch.row := by omega
      rw [if_pos hb, tsC_of_chan hchan]
      refine ⟨tsC, rfl, ?_⟩
      rw [toRCell_ts]
      refine (render_emptyRow (fun c => ?_) j).symm
      show rollWindow v.disp (v.base + 1 - n) v.base r c = none
      unfold rollWindow
      rw [hre, R.vbase]
      simp
    · rw [if_neg hb]
      have hre : r ≠ ch.row := by omega
      by_cases hw : ch.row1 * 34 ≤ r * 34 + j ∧ r * 34 + j < ch.row * 34
      · rw [if_pos hw]
        have hr1 : ch.row1 ≤ r ∧ r < ch.row := by omega
        have e2 : r * 34 + j + 34 = (r + 1) * 34 + j := by omega
        rw [e2, displayed_get _ (by omega) hj]
        obtain ⟨c, hc, ec⟩ := xd (r + 1) (by omega) j hj
        refine ⟨c, hc, ?_⟩
        rw [ec]
        refine (renderCell_congr2 (fun c => ?_) j).symm
        show rollWindow v.disp (v.base + 1 - n) v.base r c = _
        unfold rollWindow
        rw [htop, R.vbase, if_pos hr1]
      · rw [if_neg hw, displayed_get _ hr hj]
        obtain ⟨c, hc, ec⟩ := xd r hr j hj
        refine ⟨c, hc, ?_⟩
        rw [ec]
        refine (renderCell_congr (fun c => ?_) j).symm
        show rollWindow v.disp (v.base + 1 - n) v.base r c = _
        unfold rollWindow
        rw [htop, R.vbase]
        have : ¬ (ch.row1 ≤ r ∧ r < ch.row) := by omega
        rw [if_neg this, if_neg hre]
  refine ⟨hinv, by rw [f1, u.idx]; exact R.idx, by rw [f2, u.mode]; exact R.mode, by rw [f3, u.roll]; exact R.roll,
    by rw [ev]; exact R.vmode, R.n2, R.n4, by rw [r3, f4, u.row1, f3, u.roll]; exact R.base,
    by rw [ev, r3]; exact R.vbase, fun r hr _ => hdisp r hr, ?_, fun _ => by rw [r3]; exact hdisp ch.row (by omega)⟩
  refine ⟨false, 1, [], ⟨⟨r2, r1, by omega, by simp, ?_, by simp, by simp, by simp⟩, ?_, by rw [ev, r3]; exact R.vbase, by rw [ev, r1],
    by rw [f6, u.attr, ev]; exact Q.pen, by rw [ev]; exact hd.1⟩, by intro h; simp at h⟩
  · intro j hj
    rw [r3, hblank j hj]
    simp [rowCell]
    intro a b; omega
  · rw [spec_target_dir hd', ev, r3]
    intro c
    show rollWindow v.disp (v.base + 1 - n) v.base ch.row c = _
    unfold rollWindow
    rw [R.vbase]
    simp
    intro h; omega


/-! ## the optional PAC right after RUx (window still empty) -/

/-- all 2 x 15 x 34 cells of the channel are blank -/
def CellsBlank (x : Channel) : Prop := ∀ r, r < 15 → ∀ j, j < 34 → x.hcell r j = some tsC ∧ x.dcell r j = some tsC

theorem blank_erase {x : Channel} (h : ChInv x) (hidx : x.idx < 4) (hb : CellsBlank x) (b : Bool) :
    CellsBlank (eraseMemory x b) := by
  have u := eraseMemory_upd h b
  obtain ⟨e1, e2⟩ := erase_cells h b
  have hts := ts_of_idx4 hidx
  intro r hr j hj
  have key : ∀ b', ((eraseMemory x b).pg b').cell r j = some tsC := by
    intro b'
    by_cases hbb : b' = b
    · rw [hbb, e1 r hr j hj, hts]
    · have : b' = !b := by cases b <;> cases b' <;> simp_all
      rw [this, e2]
      have hbb2 := hb r hr j hj
      unfold Channel.hcell Channel.dcell at hbb2
      by_cases hh : (!b) = x.hidden
      · rw [hh]; exact hbb2.1
      · have hh2 : (!b) = !x.hidden := by cases b <;> cases hx : x.hidden <;> simp_all
        rw [hh2]; exact hbb2.2
  unfold Channel.hcell Channel.dcell
  exact ⟨key _, key _⟩

theorem blank_wordBreak {x : Channel} (h : ChInv x) (hcol : x.col = x.col1) (hb : CellsBlank x) :
    CellsBlank (wordBreak x true) := by
  rw [wordBreak_true_eq, wordBreak_false_noop hcol]
  split
  · exact hb
  · have uc := update_cells h
    have rc := renderCh_cells (update x) true x.row
    intro r hr j hj
    rw [rc.1, rc.2, uc.1, uc.2 r j hj]
    refine ⟨(hb r hr j hj).1, ?_⟩
    split
    · exact (hb r hr j hj).1
    · exact (hb r hr j hj).2

theorem moveWindow_empty {m : Mem} (h : ∀ r c, m r c = none) (n old new : Nat) : ∀ r c, moveWindow m n old new r c = none := by
  intro r c
  unfold moveWindow
  repeat' split
  all_goals first | rfl | exact h _ _

theorem pacCursor_facts {x : Channel} (h : ChInv x) (hidx : x.idx < 4) (hb : CellsBlank x) {r : Nat} (hr : r ≤ 14) :
    (pacCursor x r).idx = x.idx ∧ (pacCursor x r).roll = x.roll ∧ CellsBlank (pacCursor x r) := by
  unfold pacCursor
  split
  · unfold pacRelocate
    have hroll := h.roll_pos
    have hw := h.win
    have : x.roll ≠ 0 := by omega
    rw [if_neg this]
    have hcl : ¬ ((!pacRow1Clamped && decide (r + 1 < x.roll)) = true) := by
      have : pacRow1Clamped = true := by decide
      simp [this]
    rw [if_neg hcl]
    simp only []
    split
    · have hx' : ChInv { x with row1 := r + 1 - x.roll } := by
        obtain ⟨a1, a2, a3, a4, a5, a6, a7, a8, a9, a10, a11⟩ := h
        constructor <;> simp_all
        omega
      have hb' : CellsBlank { x with row1 := r + 1 - x.roll } := hb
      have u1 := eraseMemory_upd hx' x.hidden
      have b1 := blank_erase hx' hidx hb' x.hidden
      have h1 := u1.inv hx'
      have u2 := eraseMemory_upd h1 (!x.hidden)
      have b2 := blank_erase h1 (by rw [u1.idx]; exact hidx) b1 (!x.hidden)
      exact ⟨by show (eraseMemory _ _).idx = _; rw [u2.idx, u1.idx], by show (eraseMemory _ _).roll = _; rw [u2.roll, u1.roll], b2⟩
    · exact ⟨rfl, rfl, hb⟩
  · exact ⟨rfl, rfl, hb⟩

theorem exec_pac_roll (v : Service) {n : Nat} (hm : v.mode = some (.rollUp n)) (r ind : Nat) (col : Option Nat) (u : Bool) :
    v.exec (.pac r ind col u) =
      { (if (if r + 1 < n then n - 1 else r) = v.base then v
         else { v with disp := moveWindow v.disp n v.base (if r + 1 < n then n - 1 else r),
                       base := (if r + 1 < n then n - 1 else r) }) with
        row := (if r + 1 < n then n - 1 else r), col := 1 + ind, pen := v.pen' (col.getD 0) u true } := by
  cases v with
  | mk isText mode disp nond row col' pen base =>
    simp only at hm
    subst hm
    rfl

/-- **PAC right after RUx** (both memories still blank): the window moves to the new base row on both sides
    (clamped so that it fits), cursors to column 1 + indent, pens agree; still nothing on display -/
theorem pac_roll {ch : Channel} {v : Service} {n : Nat} {s : Bool} (R : RollRel ch v n s)
    (B : CellsBlank ch ∧ ∀ r c, v.disp r c = none) {chan c1 c2 : Nat} (hchan : chan < 4) (h1 : c1 < 8)
    (h2 : c2 < 128) (h3 : 0x40 ≤ c2) {r ind : Nat} {col : Option Nat} {u : Bool}
    (ha : pacArgs c1 c2 = some (r, ind, col, u)) :
    RollRel (pac ch chan c1 c2) (v.exec (.pac r ind col u)) n true ∧
    (CellsBlank (pac ch chan c1 c2) ∧ ∀ r' c, (v.exec (.pac r ind col u)).disp r' c = none) := by
  obtain ⟨hrm, hr14, hind, hie, hcol, hu⟩ := pacArgs_model h1 h2 h3 ha
  simp only at hrm hr14 hind hie hcol hu
  have hmn : ch.mode ≠ .none := by rw [R.mode]; decide
  have hr0 : (0 : Int) ≤ (r : Int) := Int.natCast_nonneg r
  obtain ⟨scol, scol1, _, srow, _, sattr, smode⟩ := pac_spec R.inv chan c1 c2 (by omega) (r : Int) hrm hr0 hmn
  obtain ⟨srow1, srowb⟩ := srow R.mode
  have htoNat : (r : Int).toNat = r := by simp
  rw [htoNat] at srow1
  have hpi := pac_inv R.inv chan c1 c2 (by omega)
  have e := pac_eq ch chan c1 c2 (r : Int) hrm hr0 hmn
  rw [htoNat] at e
  -- the current row is empty, so the word break is the trivial one
  obtain ⟨lead, c0, xs, Q, _⟩ := R.cur
  have hd := R.direct
  have hxs : xs = [] := by
    cases xs with
    | nil => rfl
    | cons a t =>
      exfalso
      have := Q.S c0
      rw [spec_target_dir hd, B.2] at this
      simp at this
  have hcoleq : (pacAttr ch c2).col = (pacAttr ch c2).col1 := by
    show ch.col = ch.col1; rw [Q.R.col, Q.R.col1, hxs]; simp
  have hA : ChInv (pacAttr ch c2) := R.inv.withAttr _
  have bW := blank_wordBreak hA hcoleq (B.1 : CellsBlank (pacAttr ch c2))
  have uW := wordBreak_upd hA true
  have hW := uW.inv hA
  generalize wordBreak (pacAttr ch c2) true = w at e bW uW hW
  have hwidx : w.idx < 4 := by rw [uW.idx]; exact R.idx
  obtain ⟨ci, cr, cb⟩ := pacCursor_facts hW hwidx bW hr14
  have hY := pacCursor_inv hW hr14
  generalize pacCursor w r = y at e ci cr cb hY
  obtain ⟨hh, hdd, _, _, hidx⟩ := pacStyle_cells hY chan c2
  rw [← e] at hh hdd hidx
  have hblank : CellsBlank (pac ch chan c1 c2) := by
    intro r' hr' j hj
    rw [hh r' j hj, hdd]
    refine ⟨?_, (cb r' hr' j hj).2⟩
    split
    · rw [tsC_of_chan hchan]
    · exact (cb r' hr' j hj).1
  have hproll : (pac ch chan c1 c2).roll = n := by
    have : (pac ch chan c1 c2).roll = y.roll := by
      rw [e]; unfold pacStyle
      split
      · show (tabFill y _ _).roll = _; exact (tabFill_spec hY _ _).2.2.2.2.2.2.2
      · unfold setColour; split <;> rfl
    rw [this, cr, uW.roll]; exact R.roll
  -- the reference side
  have hvf : (∀ r' c, (v.exec (.pac r ind col u)).disp r' c = none) ∧
      (v.exec (.pac r ind col u)).mode = some (.rollUp n) ∧
      (v.exec (.pac r ind col u)).base = (if r + 1 < n then n - 1 else r) ∧
      (v.exec (.pac r ind col u)).row = (if r + 1 < n then n - 1 else r) ∧
      (v.exec (.pac r ind col u)).col = 1 + ind ∧
      (v.exec (.pac r ind col u)).pen = v.pen' (col.getD 0) u true := by
    have ex : v.exec (.pac r ind col u) =
        { (if (if r + 1 < n then n - 1 else r) = v.base then v
           else { v with disp := moveWindow v.disp n v.base (if r + 1 < n then n - 1 else r),
                         base := (if r + 1 < n then n - 1 else r) }) with
          row := (if r + 1 < n then n - 1 else r), col := 1 + ind, pen := v.pen' (col.getD 0) u true } :=
      exec_pac_roll v R.vmode r ind col u
    rw [ex]
    by_cases hbq : (if r + 1 < n then n - 1 else r) = v.base
    · rw [if_pos hbq]
      exact ⟨B.2, R.vmode, hbq.symm, rfl, rfl, rfl⟩
    · rw [if_neg hbq]
      exact ⟨fun r' c => moveWindow_empty B.2 _ _ _ r' c, R.vmode, rfl, rfl, rfl, rfl⟩
  obtain ⟨hvdisp, hvf⟩ := hvf
  obtain ⟨vm, vb, vr, vc, vp⟩ := hvf
  have hprow : (pac ch chan c1 c2).row = (if r + 1 < n then n - 1 else r) := by
    have := R.roll; have := R.n2
    rw [‹ch.roll = n›] at srow1 srowb
    split <;> omega
  have hpcol : (pac ch chan c1 c2).col = 1 + ind := by rw [scol, hie]
  have hd' : directMode (v.exec (.pac r ind col u)) := by unfold directMode; rw [vm]; simp
  have hrowOK : ∀ r', r' < 15 → DispRowOK (pac ch chan c1 c2) (v.exec (.pac r ind col u)).disp r' := by
    intro r' hr' j hj
    refine ⟨tsC, (hblank r' hr' j hj).2, ?_⟩
    rw [toRCell_ts]; exact (render_emptyRow (fun c => hvdisp r' c) j).symm
  have hpen : penMatches (pac ch chan c1 c2).attr (v.exec (.pac r ind col u)).pen := by
    rw [sattr, vp]
    have := pacPen_matches c2 h2 h3 ch.attr v
    rw [← hcol, ← hu] at this
    exact this
  refine ⟨⟨hpi, by rw [hidx, ci]; exact hwidx, by rw [smode]; exact R.mode, hproll, vm, R.n2, R.n4,
    by rw [hproll, ← R.roll]; exact srowb, by rw [vb, hprow], fun r' hr' _ => hrowOK r' hr', ?_,
    fun _ => hrowOK _ (by have := hpi.row_le; omega)⟩, hblank, hvdisp⟩
  refine ⟨false, 1 + ind, [], ⟨⟨by rw [scol1, hpcol], by rw [hpcol]; rfl, by omega, by simp; omega, ?_, by simp, by simp, by simp⟩,
    ?_, by rw [vr, hprow], by rw [vc, hpcol], hpen, by rw [vm]; simp⟩, by intro h; simp at h⟩
  · intro j hj
    rw [(hblank _ (by have := hpi.row_le; omega) j hj).1]
    simp [rowCell]
    intro a b; omega
  · rw [spec_target_dir hd']
    intro c; rw [hvdisp]; simp

end Zvbi.Cc
