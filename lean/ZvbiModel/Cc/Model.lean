import ZvbiModel.Hamm.Model
import ZvbiModel.Generated.CcConsts
/-!
# Model of the Closed Caption decoder, src/caption.c 719-1623 (component `cc`, property C08)

Transcription conventions (DESIGN.md section 3):

* `vbi_char` = `Cell` with the seven fields the caption decoder ever sets; all other bit
  fields stay 0 (the harness prints them when non-zero, so a disagreement would show).
* `vbi_page.text[1056]` = `List Cell` of length `textLen` (generated); the caption decoder
  uses the first `rows * columns` = 510 cells.
* `ch->line` (a pointer into `ch->pg[ch->hidden].text`) = the pair `(linePg, lineOff)`:
  which of the two pages it points into, and the cell offset.  `update()` computes its
  destination by pointer arithmetic that is only meaningful while `linePg = hidden`;
  otherwise the model records `.err` (finding F17).
* every indexed access is checked against the extent of `text[]`; a miss records the site
  in `Channel.err` (sticky) - `Props/C08.lean` proves `err = none` for every history.
* events: every `caption_send_event` increments `Channel.nev` of the channel whose page
  number it carries (`pg[0].pgno = pg[1].pgno = idx + 1`).
* C `int`s that the code keeps non-negative (`col`, `row`, `roll`, ...) are `Nat`; the two
  places where a C expression could go negative (`col1 - 1`, `roll - 1`) are guarded and
  record an error instead.
* not modelled (belongs to C09 / trigger.c): `xds_separator`, `itv_separator`; only the
  `cc->xds` flag that decides whether a field-2 pair reaches the caption decoder.
-/
namespace Zvbi.Cc
open Zvbi.Hamm (unpar8)
open Zvbi.Gen.Cc

structure Cell where
  unicode : Nat := 0
  underline : Bool := false
  italic : Bool := false
  flash : Bool := false
  opacity : Nat := 0
  fg : Nat := 0
  bg : Nat := 0
deriving DecidableEq, Repr, Inhabited

/-- `(c.unicode & 0x7F) == 0x20` -/
def Cell.isSpace (c : Cell) : Bool := (c.unicode &&& 0x7F) == 0x20

/-- `cc->transp_space[k]`: k = 0 caption channels, k = 1 text channels -/
def transpSpace (textCh : Bool) : Cell :=
  { unicode := 0x20, fg := colWhite, bg := colBlack,
    opacity := if textCh then opOpaque else opTransparentSpace }

inductive Mode | none | popOn | paintOn | rollUp | text
deriving DecidableEq, Repr, Inhabited

def Mode.toNat : Mode → Nat
  | .none => modeValues.getD 0 0 | .popOn => modeValues.getD 1 1 | .paintOn => modeValues.getD 2 2
  | .rollUp => modeValues.getD 3 3 | .text => modeValues.getD 4 4

structure Page where
  text : List Cell
  y0 : Int := 0
  y1 : Int := 0
  roll : Int := 0
deriving DecidableEq, Repr, Inhabited

structure Channel where
  idx : Nat
  mode : Mode
  col : Nat
  col1 : Nat
  row : Nat
  row1 : Nat
  roll : Nat
  nulCt : Nat
  attr : Cell
  linePg : Bool
  lineOff : Nat
  hidden : Bool
  pg0 : Page
  pg1 : Page
  nev : Nat
  err : Option String
deriving Repr, Inhabited

/-- `ch->pg[b]` -/
def Channel.pg (ch : Channel) (b : Bool) : Page := if b then ch.pg1 else ch.pg0

def Channel.setPg (ch : Channel) (b : Bool) (p : Page) : Channel :=
  if b then { ch with pg1 := p } else { ch with pg0 := p }

def Channel.fail (ch : Channel) (site : String) : Channel :=
  match ch.err with
  | some _ => ch
  | none => { ch with err := some site }

/-- `transp_space[ch >= &cc->channel[4]]` -/
def Channel.ts (ch : Channel) : Cell := transpSpace (decide (4 ≤ ch.idx))

/-! ## cell access through `ch->line` -/

/-- `ch->line[i]` read -/
def rd (ch : Channel) (i : Nat) : Option Cell := (ch.pg ch.linePg).text[ch.lineOff + i]?

/-- `ch->line[i] = c` -/
def wr (ch : Channel) (i : Nat) (c : Cell) (site : String) : Channel :=
  let p := ch.pg ch.linePg
  if ch.lineOff + i < p.text.length then
    ch.setPg ch.linePg { p with text := p.text.set (ch.lineOff + i) c }
  else ch.fail site

/-- `n` consecutive cells of `l` from `start` replaced by `c` (caller checks the extent) -/
def fillList (l : List Cell) (start n : Nat) (c : Cell) : List Cell :=
  l.take start ++ List.replicate n c ++ l.drop (start + n)

/-- `for (i = start; i < start + n; i++) ch->line[i] = c` -/
def fill (ch : Channel) (start n : Nat) (c : Cell) (site : String) : Channel :=
  let p := ch.pg ch.linePg
  if ch.lineOff + start + n ≤ p.text.length then
    ch.setPg ch.linePg { p with text := fillList p.text (ch.lineOff + start) n c }
  else ch.fail site

/-- `memcpy/memmove (dst + dOff, src + sOff, n cells)` (caller checks the extents) -/
def blit (dst src : List Cell) (dOff sOff n : Nat) : List Cell :=
  dst.take dOff ++ (src.drop sOff).take n ++ dst.drop (dOff + n)

/-! ## dirty region bookkeeping + events (`render`, `clear`, `roll_up`) -/

def Page.render (p : Page) (row : Int) : Page :=
  if row < 0 || p.roll != 0 then { p with y0 := 0, y1 := (rows : Int) - 1, roll := 0 }
  else { p with y0 := min row p.y0, y1 := max row p.y1 }

def Page.clear (p : Page) : Page := { p with y0 := 0, y1 := (rows : Int) - 1, roll := -(rows : Int) }

def Page.rollUp (p : Page) (first last : Int) : Page :=
  if p.roll != 0 || p.y0 ≤ p.y1 then { p with roll := 0, y0 := min first p.y0, y1 := max last p.y1 }
  else { p with roll := -1, y0 := first, y1 := last }

/-- `caption_send_event` for this channel's page number -/
def Channel.event (ch : Channel) : Channel := { ch with nev := ch.nev + 1 }

/-- `render(ch->pg + b, row)` -/
def renderCh (ch : Channel) (b : Bool) (row : Int) : Channel :=
  (ch.setPg b ((ch.pg b).render row)).event

/-- `update(ch)`: copy the row under `line` from the hidden to the displayed page.
    The C code forms the destination as `line - pg[hidden].text + pg[hidden ^ 1].text`,
    which lies in `pg[hidden ^ 1]` only if `line` points into `pg[hidden]`. -/
def update (ch : Channel) : Channel :=
  if ch.linePg != ch.hidden then ch.fail "update: line is not in pg[hidden]"
  else
    let src := ch.pg ch.hidden
    let dst := ch.pg (!ch.hidden)
    if ch.lineOff + columns ≤ src.text.length ∧ ch.lineOff + columns ≤ dst.text.length then
      ch.setPg (!ch.hidden) { dst with text := blit dst.text src.text ch.lineOff ch.lineOff columns }
    else ch.fail "update: extent"

/-- `word_break(cc, ch, upd)` -/
def wordBreak (ch : Channel) (upd : Bool) : Channel :=
  let ch :=
    if ch.col > ch.col1 then
      let ch :=
        if ch.col1 = 0 then ch.fail "word_break: col1 - 1 < 0" else
        match rd ch ch.col1, rd ch (ch.col1 - 1) with
        | some c, some l =>
          if !c.isSpace && l.opacity == opTransparentSpace then
            wr ch (ch.col1 - 1) { c with unicode := 0x20 } "word_break: leading"
          else ch
        | _, _ => ch.fail "word_break: read leading"
      match rd ch (ch.col - 1), rd ch ch.col with
      | some c, some r =>
        if !c.isSpace && r.opacity == opTransparentSpace then
          wr ch ch.col { c with unicode := 0x20 } "word_break: trailing"
        else ch
      | _, _ => ch.fail "word_break: read trailing"
    else ch
  if !upd || ch.mode == .popOn then ch
  else renderCh (update ch) true ch.row   -- `render(ch->pg + 1, ch->row)`: literally pg[1]

/-- `set_cursor(ch, col, row)` -/
def setCursor (ch : Channel) (col row : Nat) : Channel :=
  { ch with col := col, col1 := col, row := row, linePg := ch.hidden, lineOff := row * columns }

/-- `put_char(cc, ch, c)` -/
def putChar (ch : Channel) (c : Cell) : Channel :=
  let ch :=
    if ch.col < columns - 1 then { wr ch ch.col c "put_char" with col := ch.col + 1 }
    else wr ch (columns - 2) c "put_char: last column"
  if c.isSpace then wordBreak ch true else ch

/-- `put_char_space(cc, ch)` -/
def putCharSpace (ch : Channel) : Channel := putChar ch { ch.attr with unicode := 0x20 }

/-- `erase_memory(cc, ch, page)` -/
def eraseMemory (ch : Channel) (b : Bool) : Channel :=
  let p := ch.pg b
  if rows * columns ≤ p.text.length then
    ch.setPg b { text := fillList p.text 0 (rows * columns) ch.ts, y0 := 0, y1 := (rows : Int) - 1, roll := rows }
  else ch.fail "erase_memory: extent"

/-- `palette_mapping[k]`, k < 8 -/
def palette (k : Nat) : Nat := paletteMapping.getD k 0

/-- the colour/italic part shared by PAC and mid-row codes -/
def setColour (ch : Channel) (k : Nat) : Channel :=
  if k < 7 then { ch with attr := { ch.attr with italic := false, fg := palette k } }
  else { ch with attr := { ch.attr with italic := true, fg := colWhite } }

/-- `col = ch->col; for (i = n; i > 0 && col < COLUMNS - 1; i--) ch->line[col++] = ts;
     if (col > ch->col) ch->col = ch->col1 = col;` -/
def tabFill (ch : Channel) (n : Nat) (ts : Cell) : Channel :=
  let k := min n (columns - 1 - ch.col)
  if k = 0 then ch else
  let ch' := fill ch ch.col k ts "tab"
  { ch' with col := ch.col + k, col1 := ch.col + k }

/-- `vbi_caption_unicode(c, FALSE)` for the two ranges the decoder uses -/
def captionUnicode (c : Nat) : Nat :=
  if 0x20 ≤ c ∧ c < 0x80 then captionBasic.getD (c - 0x20) 0
  else if 0x1130 ≤ c ∧ c < 0x1140 then captionSpecial.getD (c - 0x1130) 0
  else 0

/-! ## `caption_command`: the commands that touch only the addressed channel -/

/-- PAC, part 1: `ch->attr.underline = c2 & 1; background = BLACK; opacity = OPAQUE; flash = FALSE` -/
def pacAttr (ch : Channel) (c2 : Nat) : Channel :=
  { ch with attr := { ch.attr with underline := c2 &&& 1 != 0, bg := colBlack, opacity := opOpaque, flash := false } }

/-- PAC, part 2 in roll-up mode: move the window so that its base row is `row` (clamped), erasing both
    memories when it moves -/
def pacRelocate (ch : Channel) (row : Nat) : Channel :=
  if ch.roll = 0 then ch.fail "pac: roll - 1 < 0" else
  -- `if (row1 < 0) row1 = 0;` (generated fact `pacRow1Clamped`): without it the window start is negative
  if !pacRow1Clamped && decide (row + 1 < ch.roll) then ch.fail "pac: row1 < 0" else
  let row1 := row + 1 - ch.roll          -- `row - roll + 1`, clamped at 0
  let ch := if row1 != ch.row1 then
      eraseMemory (eraseMemory { ch with row1 := row1 } ch.hidden) (!ch.hidden)
    else ch
  setCursor ch 1 (ch.row1 + ch.roll - 1)

/-- PAC, part 2: cursor -/
def pacCursor (ch : Channel) (row : Nat) : Channel :=
  if ch.mode == .rollUp then pacRelocate ch row else setCursor ch 1 row

/-- PAC, part 3: indent or colour/italics -/
def pacStyle (ch : Channel) (chan c2 : Nat) : Channel :=
  if c2 &&& 0x10 != 0 then
    let ch := tabFill ch ((c2 &&& 14) * 2) (transpSpace (decide (4 ≤ chan)))
    { ch with attr := { ch.attr with italic := false, fg := colWhite } }
  else setColour ch ((c2 >>> 1) &&& 7)

/-- Preamble Address Code -/
def pac (ch : Channel) (chan c1 c2 : Nat) : Channel :=
  match rowMapping[(c1 <<< 1) + ((c2 >>> 5) &&& 1)]? with
  | none => ch.fail "row_mapping index"
  | some r =>
    if r < 0 || ch.mode == .none then ch else
    pacStyle (pacCursor (wordBreak (pacAttr ch c2) true) r.toNat) chan c2

/-- Backspace -/
def backspace (ch : Channel) (chan : Nat) : Channel :=
  if ch.mode != .none && ch.col > 1 then
    let ch := { wr ch (ch.col - 1) (transpSpace (decide (4 ≤ chan))) "backspace" with col := ch.col - 1 }
    if ch.col < ch.col1 then { ch with col1 := ch.col } else ch
  else ch

/-- CR, roll branch, step 1: `word_break(cc, ch, 1); update(ch);` - with the repair of finding F45b
    (`crPopOnNoUpdate`, generated) the update is skipped in pop-on mode -/
def crSync (ch : Channel) : Channel :=
  if crPopOnNoUpdate && ch.mode == .popOn then wordBreak ch true else update (wordBreak ch true)

/-- CR, roll branch, step 2: `memmove(acp, acp + COLUMNS, sizeof(*acp) * (ch->roll - 1) * COLUMNS)` on page `b` -/
def crMove (x : Channel) (b : Bool) : Channel :=
  let p := x.pg b
  let a := x.row1 * columns
  let n := (x.roll - 1) * columns
  if a + columns + n ≤ p.text.length then x.setPg b { p with text := blit p.text p.text a (a + columns) n }
  else x.fail "cr: memmove extent"

/-- CR, roll branch, step 3: `for (i = 0; i <= COLUMNS; i++) ch->line[i] = transp_space` (candidate F10: 35 cells) -/
def crClear (y : Channel) (chan : Nat) : Channel :=
  fill y 0 (columns + 1) (transpSpace (decide (4 ≤ chan))) "cr: clear line[0..COLUMNS]"

/-- CR, roll branch, step 4: second `update`, `roll_up()` event (not in pop-on mode), cursor to column 1 -/
def crFinish (z : Channel) (lastRow : Nat) : Channel :=
  let w := if z.mode != .popOn then
      ((update z).setPg (!(update z).hidden) (((update z).pg (!(update z).hidden)).rollUp (update z).row1 lastRow)).event
    else z
  { w with col1 := 1, col := 1 }

/-- Carriage Return (the `itv_separator` call for T2 is not modelled) -/
def carriageReturn (ch : Channel) (chan : Nat) : Channel :=
  if ch.mode == .none then ch else
  if ch.roll = 0 then ch.fail "cr: roll - 1 < 0" else
  let lastRow := min (ch.row1 + ch.roll - 1) (rows - 1)
  if ch.row < lastRow then
    setCursor (wordBreak ch true) 1 (ch.row + 1)
  else
    -- `acp = &ch->pg[ch->hidden ^ (ch->mode != MODE_POP_ON)].text[ch->row1 * COLUMNS]`
    crFinish (crClear (crMove (crSync ch) (ch.hidden != (ch.mode != .popOn))) chan) lastRow

/-- Delete To End Of Row -/
def deleteToEnd (ch : Channel) (chan : Nat) : Channel :=
  if ch.mode == .none then ch else
  let ch := fill ch ch.col (columns - ch.col) (transpSpace (decide (4 ≤ chan))) "der"
  let ch := wordBreak ch false
  if ch.mode != .popOn then renderCh (update ch) (!ch.hidden) ch.row else ch

/-- Erase Displayed Memory -/
def eraseDisplayed (ch : Channel) : Channel :=
  let ch := if ch.mode != .popOn then eraseMemory ch ch.hidden else ch
  let ch := eraseMemory ch (!ch.hidden)
  (ch.setPg (!ch.hidden) (ch.pg (!ch.hidden)).clear).event

/-- Erase Non-Displayed Memory -/
def eraseNonDisplayed (ch : Channel) : Channel :=
  if ch.mode == .popOn then eraseMemory ch ch.hidden else ch

/-- "Optional Attributes, backspace magic" -/
def optAttrMagic (ch : Channel) : Channel :=
  if ch.col > 1 then
    match rd ch (ch.col - 1) with
    | some l => if l.isSpace then wr ch (ch.col - 1) { ch.attr with unicode := 0x20 } "optional attr" else ch
    | none => ch.fail "optional attr: read"
  else ch

/-- c1 = 7: tab offsets and optional attributes -/
def case7 (ch : Channel) (chan c2 : Nat) : Channel :=
  if ch.mode == .none then ch else
  if 0x21 ≤ c2 ∧ c2 ≤ 0x23 then tabFill ch (c2 &&& 3) (transpSpace (decide (4 ≤ chan)))
  else if c2 = 0x2D then optAttrMagic { ch with attr := { ch.attr with opacity := opTransparentFull } }
  else if c2 = 0x2E ∨ c2 = 0x2F then
    optAttrMagic { ch with attr := { ch.attr with fg := colBlack, underline := c2 &&& 1 != 0 } }
  else ch

/-- special characters 0x11/0x19 0x30..0x3F (and, as in the C code, any c2 with bit 4 set) -/
def specialChar (ch : Channel) (chan c2 : Nat) : Channel :=
  let k := c2 &&& 15
  if k = 9 then
    if ch.col < columns - 1 then
      let ch := wr ch ch.col (transpSpace (decide (4 ≤ chan))) "transparent space"
      { ch with col := ch.col + 1, col1 := ch.col + 1 }
    else wr ch (columns - 2) (transpSpace (decide (4 ≤ chan))) "transparent space: last column"
  else putChar ch { ch.attr with unicode := captionUnicode (0x1130 ||| k) }

/-- colour / italics part of a mid-row code.  `midrowItalicsKeepsColour` (generated) says whether the italics
    branch leaves the foreground alone (47 CFR 15.119 (h)(1)(ii)) or sets it to white (finding F46) -/
def setColourMid (ch : Channel) (k : Nat) : Channel :=
  if k < 7 then { ch with attr := { ch.attr with italic := false, fg := palette k } }
  else if midrowItalicsKeepsColour then { ch with attr := { ch.attr with italic := true } }
  else { ch with attr := { ch.attr with italic := true, fg := colWhite } }

/-- mid-row codes -/
def midRow (ch : Channel) (c2 : Nat) : Channel :=
  let ch := { ch with attr := { ch.attr with flash := false, underline := c2 &&& 1 != 0 } }
  putCharSpace (setColourMid ch ((c2 >>> 1) &&& 7))

/-- background attribute codes -/
def backgroundAttr (ch : Channel) (c2 : Nat) : Channel :=
  let ch := { ch with attr := { ch.attr with
    opacity := if c2 &&& 1 != 0 then opSemiTransparent else opOpaque,
    bg := palette ((c2 >>> 1) &&& 7) } }
  putCharSpace ch

/-! ## decoder state -/

structure St where
  last0 : Nat
  last1 : Nat
  /-- `cc->curr_chan` (shared by both fields), resp. `cc->curr_chan[0]` on a tree with one current channel per field -/
  currChan : Nat
  xds : Bool
  chans : List Channel
  err : Option String
  /-- `cc->curr_chan[1]` on a tree with one current channel per field (`currChanPerField`, generated); unused otherwise -/
  currChan2 : Nat := 0
deriving Repr, Inhabited

/-- `cc->curr_chan` as field `field2` reads it: with the repair of finding F44 (`int curr_chan[2]`, generated fact
    `currChanPerField`) `cc->curr_chan[field2]`, otherwise the one selector both fields share -/
def St.curr (s : St) (field2 : Bool) : Nat :=
  if currChanPerField && field2 then s.currChan2 else s.currChan

/-- `cc->curr_chan[(new_chan >> 1) & 1] = new_chan` resp. `cc->curr_chan = new_chan` -/
def St.setCurr (s : St) (new : Nat) : St :=
  if currChanPerField && ((new >>> 1) &&& 1 == 1) then { s with currChan2 := new } else { s with currChan := new }

def St.fail (s : St) (site : String) : St :=
  match s.err with
  | some _ => s
  | none => { s with err := some site }

/-- apply `f` to `cc->channel[i]` -/
def St.modCh (s : St) (i : Nat) (f : Channel → Channel) : St :=
  match s.chans[i]? with
  | some ch => { s with chans := s.chans.set i (f ch) }
  | none => s.fail "channel index"

/-- `ch = switch_channel(cc, ch, new)`: word break on the channel we leave -/
def St.switchChannel (s : St) (chan new : Nat) : St :=
  (s.modCh chan (fun ch => wordBreak ch true)).setCurr new

/-- RUx, the erase: both memories; with the repair of finding F45a (`ruEraseRaisesEvent`, generated) followed by
    `clear(ch->pg + (ch->hidden ^ 1))`, which raises the caption event -/
def ruErase (ch : Channel) : Channel :=
  let y := eraseMemory (eraseMemory ch ch.hidden) (!ch.hidden)
  if ruEraseRaisesEvent then (y.setPg (!ch.hidden) (y.pg (!ch.hidden)).clear).event else y

/-- RUx, the rest: `mode = MODE_ROLL_UP; roll = n; set_cursor(ch, 1, 14); row1 = 14 - roll + 1` -/
def ruFinish (y : Channel) (roll : Nat) : Channel :=
  { setCursor { y with mode := .rollUp, roll := roll } 1 14 with row1 := 14 - roll + 1 }

def rollUpCmd (ch : Channel) (roll : Nat) : Channel :=
  if ch.mode == .rollUp && ch.roll == roll then ch else
  ruFinish (ruErase ch) roll

/-- End Of Caption after the word break: `ch->hidden ^= 1; render(ch->pg + (ch->hidden ^ 1), -1);
    erase_memory(cc, ch, ch->hidden); set_cursor(ch, 1, ROWS - 1)` -/
def eocSwap (x : Channel) : Channel :=
  setCursor (eraseMemory (renderCh { x with hidden := !x.hidden } (!(!x.hidden)) (-1)) (!x.hidden)) 1 (rows - 1)

def endOfCaption (ch : Channel) : Channel :=
  eocSwap (wordBreak { ch with mode := .popOn } true)

/-- the channel Erase Displayed / Non-Displayed Memory act on: with the repair of finding F73 (`edmEnmOnCaption`, generated:
    `ch = &cc->channel[chan & 3];` first in `case 12:` and `case 14:`) the CAPTION channel of the data channel also inside a
    Text Mode transmission (EIA-608-B 7.7 / Annex B.7), otherwise the addressed channel `chan` (text flag of `curr_chan`) -/
def edmChan (chan : Nat) : Nat := if edmEnmOnCaption then chan &&& 3 else chan

/-- `caption_command(vbi, cc, c1, c2, field2)`; `c1` in 0x10..0x1F, `c2` in 0..0x7F -/
def captionCommand (s : St) (c1 c2 : Nat) (field2 : Bool) : St :=
  let chan := (s.curr field2 &&& 4) + (if field2 then 2 else 0) + ((c1 >>> 3) &&& 1)
  let c1 := c1 &&& 7
  if c2 ≥ 0x40 then s.modCh chan (fun ch => pac ch chan c1 c2)
  else match c1 with
  | 0 => s.modCh chan (fun ch => backgroundAttr ch c2)
  | 1 => if c2 &&& 0x10 != 0 then s.modCh chan (fun ch => specialChar ch chan c2)
         else s.modCh chan (fun ch => midRow ch c2)
  | 4 | 5 =>
    match c2 &&& 15 with
    | 0 => (s.switchChannel chan (chan &&& 3)).modCh (chan &&& 3) (fun ch => { ch with mode := .popOn })
    | 5 | 6 | 7 => (s.switchChannel chan (chan &&& 3)).modCh (chan &&& 3) (fun ch => rollUpCmd ch ((c2 &&& 7) - 3))
    | 9 => (s.switchChannel chan (chan &&& 3)).modCh (chan &&& 3) (fun ch => { ch with mode := .paintOn })
    | 10 => (s.switchChannel chan (chan ||| 4)).modCh (chan ||| 4) (fun ch => setCursor ch 1 0)
    | 11 => s.switchChannel chan (chan ||| 4)
    | 15 => (s.switchChannel chan (chan &&& 3)).modCh (chan &&& 3) endOfCaption
    | 8 => s.modCh chan (fun ch => { ch with attr := { ch.attr with flash := true } })
    | 1 => s.modCh chan (fun ch => backspace ch chan)
    | 13 => s.modCh chan (fun ch => carriageReturn ch chan)
    | 4 => s.modCh chan (fun ch => deleteToEnd ch chan)
    | 12 => s.modCh (edmChan chan) eraseDisplayed
    | 14 => s.modCh (edmChan chan) eraseNonDisplayed
    | _ => s
  | 7 => s.modCh chan (fun ch => case7 ch chan c2)
  | _ => s

/-- one iteration of `for (i = 0; i < 2; i++)` in the text branch; `c` = `ch->attr` taken before the loop -/
def putByte (ch : Channel) (c : Cell) (b : Nat) : Channel :=
  let ci := match unpar8 b with | some v => v &&& 0x7F | none => 127
  if ci ≤ 0x1F then ch else putChar ch { c with unicode := captionUnicode ci }

/-- the text branch of `vbi_decode_caption` for one channel; `b0 b1` after the bad-parity rewrite -/
def textPair (ch : Channel) (b0 b1 : Nat) : Channel :=
  if ch.mode == .none then { ch with nulCt := 0 } else
  putByte (putByte { ch with nulCt := 0 } ch.attr b0) ch.attr b1

def nulPair (ch : Channel) : Channel :=
  if ch.mode != .none then
    let ch := if ch.nulCt = 2 then wordBreak ch true else ch
    { ch with nulCt := ch.nulCt + 2 }
  else ch

/-- `case 284:` of `vbi_decode_caption`: does the pair reach the caption decoder (`some`, with
    `cc->xds` possibly cleared) or is it consumed by / ignored for XDS (`none`)? -/
def xdsGate (s : St) (field2 : Bool) (b0 : Nat) : Option St :=
  let c1 := b0 &&& 0x7F
  if field2 then
    if (unpar8 b0).isSome then
      if c1 = 0 then none
      else if c1 ≤ 0x0F then none        -- xds_separator; cc->xds updated by `xdsConsumed`
      else if c1 ≤ 0x1F then some { s with xds := false }
      else if s.xds then none else some s
    else if s.xds then none else some s
  else some s

/-- state after a pair that did not reach the caption decoder (`xds_separator` itself is not modelled) -/
def xdsConsumed (s : St) (field2 : Bool) (b0 : Nat) : St :=
  let c1 := b0 &&& 0x7F
  if field2 ∧ (unpar8 b0).isSome ∧ 1 ≤ c1 ∧ c1 ≤ 0x0F then { s with xds := c1 != 15 } else s

/-- `vbi_decode_caption` behind the XDS gate -/
def decodeMain (s : St) (field2 : Bool) (b0 b1 : Nat) : St :=
  let bad := (unpar8 b0).isNone
  let c1 := if bad then 127 else b0 &&& 0x7F
  let b0 := if bad then 127 else b0
  let b1 := if bad then 127 else b1
  if 1 ≤ c1 ∧ c1 ≤ 0x0F then
    if !field2 then { s with last0 := 0 } else s
  else if 0x10 ≤ c1 ∧ c1 ≤ 0x1F then
    if (unpar8 b1).isSome then
      if !field2 && b0 == s.last0 && b1 == s.last1 then { s with last0 := 0 }
      else
        let s := captionCommand s c1 (b1 &&& 0x7F) field2
        if !field2 then { s with last0 := b0, last1 := b1 } else s
    else if !field2 then { s with last0 := 0 } else s
  else
    let i := (s.curr field2 &&& 5) + (if field2 then 2 else 0)
    if b0 = 0x80 ∧ b1 = 0x80 then s.modCh i nulPair
    else
      let s := if !field2 then { s with last0 := 0 } else s
      s.modCh i (fun ch => textPair ch b0 b1)

/-- `vbi_decode_caption(vbi, line, buf)`, `line` = 21 (`field2 = false`) or 284 -/
def decodePair (s : St) (field2 : Bool) (b0 b1 : Nat) : St :=
  match xdsGate s field2 b0 with
  | none => xdsConsumed s field2 b0
  | some s => decodeMain s field2 b0 b1

/-! ## init, channel switch, fetch -/

def zeroPage : Page := { text := List.replicate textLen {}, y0 := 0, y1 := 0, roll := 0 }

/-- the state of channel `i` after `memset(cc, 0, ...)` -/
def zeroChannel (i : Nat) : Channel :=
  { idx := i, mode := .none, col := 0, col1 := 0, row := 0, row1 := 0, roll := 0, nulCt := 0, attr := {},
    linePg := false, lineOff := 0, hidden := false, pg0 := zeroPage, pg1 := zeroPage, nev := 0, err := none }

/-- `vbi_caption_channel_switched`, loop body part 1: mode and window -/
def chswGeom (ch : Channel) : Channel :=
  if ch.idx < 4 then { ch with mode := .none, row := rows - 1, row1 := rows - 3, roll := 3 }
  else { ch with mode := .text, row1 := 0, row := 0, roll := rows }

/-- part 2: `attr.opacity/foreground/background` (underline, italic, flash are left as they are) -/
def chswAttr (ch : Channel) : Channel :=
  { ch with attr := { ch.attr with opacity := opOpaque, fg := colWhite, bg := colBlack } }

/-- part 3: `set_cursor(ch, 1, ch->row); ... ch->hidden = 0;` in the order found in the source
    (`chswHiddenResetFirst` is extracted by translate/gen_cc.py; `false` = finding F17) -/
def chswCursorWith (hiddenFirst : Bool) (ch : Channel) : Channel :=
  if hiddenFirst then setCursor { ch with hidden := false } 1 ch.row
  else { setCursor ch 1 ch.row with hidden := false }

def chswCursor (ch : Channel) : Channel := chswCursorWith chswHiddenResetFirst ch

/-- part 4: `pg[0].dirty = ...; erase_memory(cc, ch, 0); memcpy(&ch->pg[1], &ch->pg[0], sizeof(ch->pg[1]))` -/
def chswPages (ch : Channel) : Channel :=
  let ch := eraseMemory (ch.setPg false { ch.pg false with y0 := 0, y1 := (rows : Int) - 1, roll := 0 }) false
  { ch with pg1 := ch.pg0 }

/-- loop body of `vbi_caption_channel_switched` -/
def chswChannelWith (hiddenFirst : Bool) (ch : Channel) : Channel :=
  chswPages (chswCursorWith hiddenFirst (chswAttr (chswGeom ch)))

def chswChannel (ch : Channel) : Channel := chswChannelWith chswHiddenResetFirst ch

/-- `cc->curr_chan[0] = 0; cc->curr_chan[1] = 0;` in `vbi_caption_channel_switched` - present on a tree with the repair of
    finding chsw-curr-chan (`chswResetsCurr`, generated), otherwise the selectors survive the channel switch -/
def St.chswCurr (s : St) : St :=
  if chswResetsCurr then { s with currChan := 0, currChan2 := 0 } else s

def St.chswWith (hiddenFirst : Bool) (s : St) : St :=
  { s.chswCurr with chans := s.chans.map (chswChannelWith hiddenFirst), xds := false }

def St.chsw (s : St) : St := s.chswWith chswHiddenResetFirst

/-- `vbi_caption_init` -/
def init : St :=
  St.chsw { last0 := 0, last1 := 0, currChan := 0, xds := false,
            chans := (List.range nChannels).map zeroChannel, err := none }

/-- `vbi_fetch_cc_page`: the page copied out (or `none` = FALSE) -/
def fetchPage (s : St) (pgno : Int) : Option Page :=
  if pgno < 1 || pgno > 8 then none else
  match s.chans[((pgno - 1).toNat) &&& 7]? with
  | some ch => some (ch.pg (!ch.hidden))
  | none => none

/-- `vbi_fetch_cc_page`: the dirty reset -/
def fetchStep (s : St) (pgno : Int) : St :=
  if pgno < 1 || pgno > 8 then s else
  s.modCh (((pgno - 1).toNat) &&& 7) (fun ch =>
    ch.setPg (!ch.hidden) { ch.pg (!ch.hidden) with y0 := rows, y1 := -1, roll := 0 })

inductive Op
  | pair (field2 : Bool) (b0 b1 : Nat)
  | fetch (pgno : Int)
  | chsw
deriving Repr

def step (s : St) : Op → St
  | .pair f b0 b1 => decodePair s f (b0 % 256) (b1 % 256)
  | .fetch n => fetchStep s n
  | .chsw => s.chsw

def run (ops : List Op) : St := ops.foldl step init

/-- `step` / `run` with the statement order of `vbi_caption_channel_switched` given explicitly
    (`false` = the order before commit 19e972f, finding F43) -/
def stepWith (hiddenFirst : Bool) (s : St) : Op → St
  | .chsw => s.chswWith hiddenFirst
  | op => step s op

def runWith (hiddenFirst : Bool) (ops : List Op) : St := ops.foldl (stepWith hiddenFirst) init

/-- first recorded error of the decoder or of any channel -/
def St.firstErr (s : St) : Option String :=
  match s.err with
  | some e => some e
  | none => s.chans.findSome? (·.err)

end Zvbi.Cc
