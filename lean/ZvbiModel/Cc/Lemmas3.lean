import ZvbiModel.Cc.Lemmas2
/-!
# Effect of single commands on the two display memories
-/
namespace Zvbi.Cc
open Zvbi.Gen.Cc

/-- displayed memory: the 15 x 34 cells of `pg[hidden ^ 1]` -/
def Channel.displayed (ch : Channel) : List Cell := (ch.pg (!ch.hidden)).text.take (rows * columns)
/-- non-displayed memory: the 15 x 34 cells of `pg[hidden]` -/
def Channel.nonDisplayed (ch : Channel) : List Cell := (ch.pg ch.hidden).text.take (rows * columns)

theorem fillList_zero_take (l : List Cell) (n : Nat) (c : Cell) :
    (fillList l 0 n c).take n = List.replicate n c := by
  simp [fillList]

theorem ts_idx (ch : Channel) (b : Bool) (p : Page) : (ch.setPg b p).ts = ch.ts := by
  cases b <;> rfl

theorem pg_setPg_same (ch : Channel) (b : Bool) (p : Page) : (ch.setPg b p).pg b = p := by
  cases b <;> rfl

theorem pg_setPg_other (ch : Channel) (b : Bool) (p : Page) : (ch.setPg b p).pg (!b) = ch.pg (!b) := by
  cases b <;> rfl

theorem eraseMemory_erased {ch : Channel} (b : Bool) (hl : (ch.pg b).text.length = 1056) :
    ((eraseMemory ch b).pg b).text.take (rows * columns) = List.replicate (rows * columns) ch.ts := by
  unfold eraseMemory
  simp only [hl, rows_eq, columns_eq, Nat.reduceMul, Nat.reduceLeDiff, if_true, pg_setPg_same]
  exact fillList_zero_take _ _ _

theorem eraseMemory_other {ch : Channel} (b : Bool) (hl : (ch.pg b).text.length = 1056) :
    (eraseMemory ch b).pg (!b) = ch.pg (!b) := by
  unfold eraseMemory
  simp only [hl, rows_eq, columns_eq, Nat.reduceMul, Nat.reduceLeDiff, if_true, pg_setPg_other]

theorem eraseMemory_nev {ch : Channel} (b : Bool) : (eraseMemory ch b).nev = ch.nev := by
  unfold eraseMemory
  simp only []
  split
  · cases b <;> rfl
  · unfold Channel.fail; split <;> rfl


theorem ts_of_idx {a b : Channel} (h : a.idx = b.idx) : a.ts = b.ts := by unfold Channel.ts; rw [h]

theorem renderCh_nev (y : Channel) (b : Bool) (r : Int) : (renderCh y b r).nev = y.nev + 1 := by
  cases b <;> rfl

/-- **End Of Caption** on a channel (after the channel switch part): with `x` the channel after the
    closing word break, the memories are exchanged, the new non-displayed memory is blank, the
    channel is in pop-on mode with the cursor at row 15 column 1 and one caption event was sent. -/
theorem eocSwap_spec {x : Channel} (h : ChInv x) :
    (eocSwap x).hidden = (!x.hidden) ∧
    (eocSwap x).displayed = x.nonDisplayed ∧
    (eocSwap x).nonDisplayed = List.replicate (rows * columns) x.ts ∧
    (eocSwap x).mode = x.mode ∧ (eocSwap x).col = 1 ∧ (eocSwap x).col1 = 1 ∧ (eocSwap x).row = 14 ∧
    (eocSwap x).nev = x.nev + 1 := by
  have hl := pg_len h
  unfold eocSwap Channel.displayed Channel.nonDisplayed
  have hl' : ∀ b, ((renderCh { x with hidden := !x.hidden } (!(!x.hidden)) (-1)).pg b).text.length = 1056 := by
    intro b
    have := hl b
    unfold renderCh Channel.event Page.render
    cases b <;> cases hx : x.hidden <;> simp_all [Channel.setPg, Channel.pg]
  have hh : (eraseMemory (renderCh { x with hidden := !x.hidden } (!(!x.hidden)) (-1)) (!x.hidden)).hidden = !x.hidden := by
    rw [(eraseMemory_upd' _ (hl' _)).hidden, (renderCh_upd _ _ _).hidden]
  refine ⟨hh, ?_, ?_, ?_, rfl, rfl, rfl, ?_⟩
  · show ((eraseMemory _ (!x.hidden)).pg (!(eraseMemory _ (!x.hidden)).hidden)).text.take _ = _
    rw [hh, eraseMemory_other _ (hl' _)]
    unfold renderCh Channel.event Page.render
    cases hx : x.hidden <;> simp [Channel.setPg, Channel.pg]
  · show ((eraseMemory _ (!x.hidden)).pg (eraseMemory _ (!x.hidden)).hidden).text.take _ = _
    rw [hh, eraseMemory_erased _ (hl' _), ts_of_idx (renderCh_upd _ _ _).idx]
    rfl
  · show (eraseMemory _ (!x.hidden)).mode = _
    rw [(eraseMemory_upd' _ (hl' _)).mode, (renderCh_upd _ _ _).mode]
  · show (eraseMemory _ (!x.hidden)).nev = _
    rw [eraseMemory_nev, renderCh_nev]


theorem event_pg (y : Channel) (b : Bool) : y.event.pg b = y.pg b := by cases b <;> rfl

/-- **Erase Displayed Memory**: the displayed memory becomes blank and a caption event is sent; in
    pop-on mode the non-displayed memory is untouched, in every other mode it is erased as well. -/
theorem eraseDisplayed_spec {ch : Channel} (h : ChInv ch) :
    (eraseDisplayed ch).displayed = List.replicate (rows * columns) ch.ts ∧
    (eraseDisplayed ch).nev = ch.nev + 1 ∧
    (eraseDisplayed ch).hidden = ch.hidden ∧
    (ch.mode = .popOn → (eraseDisplayed ch).nonDisplayed = ch.nonDisplayed) ∧
    (ch.mode ≠ .popOn → (eraseDisplayed ch).nonDisplayed = List.replicate (rows * columns) ch.ts) := by
  unfold eraseDisplayed
  have hx : ChInv (if (ch.mode != .popOn) = true then eraseMemory ch ch.hidden else ch) :=
    ChInv.ite (fun _ => eraseMemory_inv h _) (fun _ => h)
  have ux : Upd ch (if (ch.mode != .popOn) = true then eraseMemory ch ch.hidden else ch) := by
    split
    · exact eraseMemory_upd h _
    · exact Upd.refl _
  have hxn : (if (ch.mode != .popOn) = true then eraseMemory ch ch.hidden else ch).nev = ch.nev := by
    split
    · exact eraseMemory_nev _
    · rfl
  have hxh : ((if (ch.mode != .popOn) = true then eraseMemory ch ch.hidden else ch).pg ch.hidden).text.take (rows * columns)
      = if ch.mode = .popOn then ch.nonDisplayed else List.replicate (rows * columns) ch.ts := by
    by_cases hm : ch.mode = .popOn
    · simp [hm, Channel.nonDisplayed]
    · have : (ch.mode != .popOn) = true := by simpa using hm
      simp only [this, if_true, hm, if_false]
      exact eraseMemory_erased _ (pg_len h _)
  generalize (if (ch.mode != .popOn) = true then eraseMemory ch ch.hidden else ch) = x at hx ux hxn hxh ⊢
  have hlx := pg_len hx
  have uy := eraseMemory_upd hx (!x.hidden)
  have hyh : (eraseMemory x (!x.hidden)).hidden = ch.hidden := by rw [uy.hidden, ux.hidden]
  unfold Channel.displayed Channel.nonDisplayed
  simp only [event_pg]
  have e1 : ((eraseMemory x (!x.hidden)).setPg (!(eraseMemory x (!x.hidden)).hidden)
      ((eraseMemory x (!x.hidden)).pg (!(eraseMemory x (!x.hidden)).hidden)).clear).event.hidden = ch.hidden := by
    show ((eraseMemory x (!x.hidden)).setPg _ _).hidden = _
    rw [(setPg_upd _ _ _ (clear_len _)).hidden, hyh]
  rw [e1]
  refine ⟨?_, ?_, rfl, ?_, ?_⟩
  · rw [hyh, pg_setPg_same]
    show ((eraseMemory x (!x.hidden)).pg (!ch.hidden)).text.take _ = _
    rw [← ux.hidden, eraseMemory_erased _ (hlx _), ts_of_idx ux.idx]
  · show ((eraseMemory x (!x.hidden)).setPg _ _).nev + 1 = _
    have : ∀ (y : Channel) b p, (y.setPg b p).nev = y.nev := by intro y b p; cases b <;> rfl
    rw [this, eraseMemory_nev, hxn]
  · intro hm
    rw [hyh]
    have := pg_setPg_other (eraseMemory x (!x.hidden)) (!ch.hidden) ((eraseMemory x (!x.hidden)).pg (!ch.hidden)).clear
    simp only [Bool.not_not] at this
    rw [this]
    have := eraseMemory_other (ch := x) (!x.hidden) (hlx _)
    simp only [Bool.not_not] at this
    rw [← ux.hidden, this, ux.hidden, hxh, if_pos hm]
    rfl
  · intro hm
    rw [hyh]
    have := pg_setPg_other (eraseMemory x (!x.hidden)) (!ch.hidden) ((eraseMemory x (!x.hidden)).pg (!ch.hidden)).clear
    simp only [Bool.not_not] at this
    rw [this]
    have := eraseMemory_other (ch := x) (!x.hidden) (hlx _)
    simp only [Bool.not_not] at this
    rw [← ux.hidden, this, ux.hidden, hxh, if_neg hm]

/-- **Erase Non-Displayed Memory**: in pop-on mode the non-displayed memory becomes blank, the displayed
    memory and the event count are untouched; in any other mode libzvbi ignores the code. -/
theorem eraseNonDisplayed_spec {ch : Channel} (h : ChInv ch) :
    (ch.mode = .popOn →
      (eraseNonDisplayed ch).nonDisplayed = List.replicate (rows * columns) ch.ts ∧
      (eraseNonDisplayed ch).displayed = ch.displayed ∧ (eraseNonDisplayed ch).nev = ch.nev ∧
      (eraseNonDisplayed ch).hidden = ch.hidden) ∧
    (ch.mode ≠ .popOn → eraseNonDisplayed ch = ch) := by
  unfold eraseNonDisplayed
  constructor
  · intro hm
    simp only [hm, beq_self_eq_true, if_true]
    have u := eraseMemory_upd h ch.hidden
    unfold Channel.nonDisplayed Channel.displayed
    rw [u.hidden]
    exact ⟨eraseMemory_erased _ (pg_len h _), by rw [eraseMemory_other _ (pg_len h _)], eraseMemory_nev _, rfl⟩
  · intro hm
    have : (ch.mode == .popOn) = false := by simpa using hm
    simp [this]


/-! ## PAC: cursor position and pen attributes -/

theorem pacRelocate_spec {x : Channel} (h : ChInv x) (row : Nat) :
    (pacRelocate x row).col = 1 ∧ (pacRelocate x row).col1 = 1 ∧
    (pacRelocate x row).row1 = row + 1 - x.roll ∧ (pacRelocate x row).row + 1 = (pacRelocate x row).row1 + x.roll ∧
    (pacRelocate x row).attr = x.attr ∧ (pacRelocate x row).mode = x.mode ∧ (pacRelocate x row).roll = x.roll := by
  unfold pacRelocate
  have hroll := h.roll_pos
  have : x.roll ≠ 0 := by omega
  simp only [this, if_false]
  have hcl : (!pacRow1Clamped && decide (row + 1 < x.roll)) = false := by
    have : pacRow1Clamped = true := by decide
    simp [this]
  simp only [hcl, Bool.false_eq_true, if_false]
  by_cases hne : (row + 1 - x.roll != x.row1) = true
  · simp only [hne, if_true]
    have hx' : ChInv { x with row1 := row + 1 - x.roll } ∨ True := Or.inr trivial
    have hl0 : ∀ b, (({ x with row1 := row + 1 - x.roll } : Channel).pg b).text.length = 1056 := by
      intro b; have := pg_len h b; cases b <;> simpa [Channel.pg] using this
    have u1 := eraseMemory_upd' (ch := { x with row1 := row + 1 - x.roll }) x.hidden (hl0 _)
    have hl1 : ∀ b, ((eraseMemory { x with row1 := row + 1 - x.roll } x.hidden).pg b).text.length = 1056 := by
      intro b; have := hl0 b
      cases b
      · simp only [Channel.pg, Bool.false_eq_true, if_false] at this ⊢; rw [u1.len0]; exact this
      · simp only [Channel.pg, if_true] at this ⊢; rw [u1.len1]; exact this
    have u2 := eraseMemory_upd' (ch := eraseMemory { x with row1 := row + 1 - x.roll } x.hidden) (!x.hidden) (hl1 _)
    have u := u1.trans u2
    refine ⟨rfl, rfl, ?_, ?_, ?_, ?_, ?_⟩
    · show (eraseMemory _ (!x.hidden)).row1 = _; rw [u.row1]
    · show (eraseMemory _ (!x.hidden)).row1 + (eraseMemory _ (!x.hidden)).roll - 1 + 1 = (eraseMemory _ (!x.hidden)).row1 + x.roll
      rw [u.roll]; show _ + x.roll - 1 + 1 = _; omega
    · show (eraseMemory _ (!x.hidden)).attr = _; rw [u.attr]
    · show (eraseMemory _ (!x.hidden)).mode = _; rw [u.mode]
    · show (eraseMemory _ (!x.hidden)).roll = _; rw [u.roll]
  · simp only [hne, if_false]
    have he : row + 1 - x.roll = x.row1 := by simpa using hne
    refine ⟨rfl, rfl, he.symm, ?_, rfl, rfl, rfl⟩
    show x.row1 + x.roll - 1 + 1 = x.row1 + x.roll
    omega

theorem tabFill_spec {y : Channel} (h : ChInv y) (n : Nat) (ts : Cell) :
    (tabFill y n ts).col = y.col + min n (33 - y.col) ∧
    (0 < min n (33 - y.col) → (tabFill y n ts).col1 = (tabFill y n ts).col) ∧
    (min n (33 - y.col) = 0 → (tabFill y n ts).col1 = y.col1) ∧
    (tabFill y n ts).row = y.row ∧ (tabFill y n ts).row1 = y.row1 ∧ (tabFill y n ts).attr = y.attr ∧
    (tabFill y n ts).mode = y.mode ∧ (tabFill y n ts).roll = y.roll := by
  unfold tabFill
  rw [columns_eq]
  show (if min n (33 - y.col) = 0 then y else _).col = _ ∧ _
  by_cases hk : min n (33 - y.col) = 0
  · rw [if_pos hk, hk]
    exact ⟨rfl, fun h0 => absurd h0 (by omega), fun _ => rfl, rfl, rfl, rfl, rfl, rfl⟩
  · rw [if_neg hk]
    have hc := h.col_le
    have u := fill_upd h (a := y.col) (n := min n (33 - y.col)) (by omega) ts "tab"
    refine ⟨rfl, fun _ => rfl, fun h0 => absurd h0 hk, ?_, ?_, ?_, ?_, ?_⟩
    · show (fill y _ _ _ _).row = _; rw [u.row]
    · show (fill y _ _ _ _).row1 = _; rw [u.row1]
    · show (fill y _ _ _ _).attr = _; rw [u.attr]
    · show (fill y _ _ _ _).mode = _; rw [u.mode]
    · show (fill y _ _ _ _).roll = _; rw [u.roll]

/-- the pen a PAC selects (47 CFR 15.119 (h)): underline bit, black opaque background, flash off;
    indent form = white; colour form = colour `k` or white italics for `k = 7` -/
def pacPen (old : Cell) (c2 : Nat) : Cell :=
  let a := { old with underline := c2 &&& 1 != 0, bg := colBlack, opacity := opOpaque, flash := false }
  if c2 &&& 0x10 != 0 then { a with italic := false, fg := colWhite }
  else if (c2 >>> 1) &&& 7 < 7 then { a with italic := false, fg := palette ((c2 >>> 1) &&& 7) }
  else { a with italic := true, fg := colWhite }

theorem pac_eq (ch : Channel) (chan c1 c2 : Nat) (r : Int)
    (hr : rowMapping[(c1 <<< 1) + ((c2 >>> 5) &&& 1)]? = some r) (hr0 : 0 ≤ r) (hm : ch.mode ≠ .none) :
    pac ch chan c1 c2 = pacStyle (pacCursor (wordBreak (pacAttr ch c2) true) r.toNat) chan c2 := by
  have hcond : ¬ ((decide (r < 0) || ch.mode == .none) = true) := by
    have : ¬ r < 0 := by omega
    simp [this, hm]
  unfold pac
  simp only [hr]
  rw [if_neg hcond]

/-- **pac_positions / attributes_follow_codes (PAC part)**: in a caption or text mode a PAC with a valid
    row code puts the cursor on that row (in roll-up mode: makes it the base row of the window, clamped
    so that the window fits), at column 1 + indent, `line` following, and selects the pen `pacPen`. -/
theorem pac_spec {ch : Channel} (h : ChInv ch) (chan c1 c2 : Nat) (hc1 : c1 ≤ 7) (r : Int)
    (hr : rowMapping[(c1 <<< 1) + ((c2 >>> 5) &&& 1)]? = some r) (hr0 : 0 ≤ r) (hm : ch.mode ≠ .none) :
    (pac ch chan c1 c2).col = 1 + (if c2 &&& 0x10 != 0 then (c2 &&& 14) * 2 else 0) ∧
    (pac ch chan c1 c2).col1 = (pac ch chan c1 c2).col ∧
    (ch.mode ≠ .rollUp → (pac ch chan c1 c2).row = r.toNat) ∧
    (ch.mode = .rollUp → (pac ch chan c1 c2).row1 = r.toNat + 1 - ch.roll ∧
                           (pac ch chan c1 c2).row + 1 = (pac ch chan c1 c2).row1 + ch.roll) ∧
    (pac ch chan c1 c2).lineOff = (pac ch chan c1 c2).row * 34 ∧
    (pac ch chan c1 c2).attr = pacPen ch.attr c2 ∧
    (pac ch chan c1 c2).mode = ch.mode := by
  have hinv := pac_inv h chan c1 c2 hc1
  rw [pac_eq ch chan c1 c2 r hr hr0 hm] at hinv ⊢
  have hA : ChInv (pacAttr ch c2) := h.withAttr _
  have uW := wordBreak_upd hA true
  have hW := uW.inv hA
  generalize wordBreak (pacAttr ch c2) true = x at uW hW hinv ⊢
  have hxm : x.mode = ch.mode := uW.mode
  have hxr : x.roll = ch.roll := uW.roll
  have hxa : x.attr = { ch.attr with underline := c2 &&& 1 != 0, bg := colBlack, opacity := opOpaque, flash := false } := uW.attr
  -- cursor
  have hC : (pacCursor x r.toNat).col = 1 ∧ (pacCursor x r.toNat).col1 = 1 ∧
      (ch.mode ≠ .rollUp → (pacCursor x r.toNat).row = r.toNat) ∧
      (ch.mode = .rollUp → (pacCursor x r.toNat).row1 = r.toNat + 1 - ch.roll ∧
          (pacCursor x r.toNat).row + 1 = (pacCursor x r.toNat).row1 + ch.roll) ∧
      (pacCursor x r.toNat).attr = x.attr ∧ (pacCursor x r.toNat).mode = x.mode := by
    unfold pacCursor
    by_cases hru : ch.mode = .rollUp
    · have : (x.mode == .rollUp) = true := by rw [hxm, hru]; rfl
      rw [if_pos this]
      have := pacRelocate_spec hW r.toNat
      rw [hxr] at this
      exact ⟨this.1, this.2.1, fun hn => absurd hru hn, fun _ => ⟨this.2.2.1, this.2.2.2.1⟩, this.2.2.2.2.1, this.2.2.2.2.2.1⟩
    · have : ¬ (x.mode == .rollUp) = true := by rw [hxm]; simpa using hru
      rw [if_neg this]
      exact ⟨rfl, rfl, fun _ => rfl, fun hh => absurd hh hru, rfl, rfl⟩
  have hCi : ChInv (pacCursor x r.toNat) := by
    have hrow : r.toNat ≤ 14 := by
      rcases rowMapping_range _ _ hr with hneg | hle
      · omega
      · exact hle
    exact pacCursor_inv hW hrow
  generalize pacCursor x r.toNat = y at hC hCi hinv ⊢
  obtain ⟨hy1, hy2, hy3, hy4, hy5, hy6⟩ := hC
  unfold pacStyle at hinv ⊢
  unfold pacPen
  by_cases hi : (c2 &&& 0x10 != 0) = true
  · rw [if_pos hi] at hinv ⊢
    simp only [hi, if_true]
    have hn : (c2 &&& 14) * 2 ≤ 28 := by
      have : c2 &&& 14 ≤ 14 := Nat.and_le_right
      omega
    have ht := tabFill_spec hCi ((c2 &&& 14) * 2) (transpSpace (decide (4 ≤ chan)))
    rw [hy1] at ht
    have hmin : min ((c2 &&& 14) * 2) (33 - 1) = (c2 &&& 14) * 2 := by omega
    rw [hmin] at ht
    refine ⟨ht.1, ?_, ?_, ?_, hinv.line_off, ?_, ?_⟩
    · show (tabFill y _ _).col1 = (tabFill y _ _).col
      by_cases h0 : (c2 &&& 14) * 2 = 0
      · rw [ht.2.2.1 h0, ht.1, h0, hy2]
      · exact ht.2.1 (by omega)
    · intro hn'; show (tabFill y _ _).row = _; rw [ht.2.2.2.1]; exact hy3 hn'
    · intro hru
      show (tabFill y _ _).row1 = _ ∧ (tabFill y _ _).row + 1 = (tabFill y _ _).row1 + _
      rw [ht.2.2.2.1, ht.2.2.2.2.1]; exact hy4 hru
    · show ({ (tabFill y _ _).attr with italic := false, fg := colWhite } : Cell) = _
      rw [ht.2.2.2.2.2.1, hy5, hxa]
    · show (tabFill y _ _).mode = _; rw [ht.2.2.2.2.2.2.1, hy6, hxm]
  · rw [if_neg hi] at hinv ⊢
    simp only [hi, Bool.false_eq_true, if_false, Nat.add_zero]
    unfold setColour at hinv ⊢
    by_cases hk : (c2 >>> 1) &&& 7 < 7
    · rw [if_pos hk] at hinv ⊢
      simp only [hk, if_true]
      exact ⟨hy1, by show y.col1 = y.col; rw [hy1, hy2], hy3, hy4, hinv.line_off, by show _ = _; rw [hy5, hxa], by show y.mode = _; rw [hy6, hxm]⟩
    · rw [if_neg hk] at hinv ⊢
      simp only [hk, if_false]
      exact ⟨hy1, by show y.col1 = y.col; rw [hy1, hy2], hy3, hy4, hinv.line_off, by show _ = _; rw [hy5, hxa], by show y.mode = _; rw [hy6, hxm]⟩


/-! ## dispatch: which function a control pair runs -/

theorem dispatch_eoc (s : St) (c1 c2 : Nat) (f2 : Bool) (h1 : c1 &&& 7 = 4 ∨ c1 &&& 7 = 5) (h2 : c2 < 0x40) (h3 : c2 &&& 15 = 15) :
    captionCommand s c1 c2 f2 =
      (s.switchChannel (cmdChan s c1 f2) (cmdChan s c1 f2 &&& 3)).modCh (cmdChan s c1 f2 &&& 3) endOfCaption := by
  unfold captionCommand cmdChan
  have : ¬ c2 ≥ 0x40 := by omega
  rcases h1 with h1 | h1 <;> simp only [this, if_false, h1, h3]

theorem dispatch_edm (s : St) (c1 c2 : Nat) (f2 : Bool) (h1 : c1 &&& 7 = 4 ∨ c1 &&& 7 = 5) (h2 : c2 < 0x40) (h3 : c2 &&& 15 = 12) :
    captionCommand s c1 c2 f2 = s.modCh (edmChan (cmdChan s c1 f2)) eraseDisplayed := by
  unfold captionCommand cmdChan
  have : ¬ c2 ≥ 0x40 := by omega
  rcases h1 with h1 | h1 <;> simp only [this, if_false, h1, h3]

theorem dispatch_enm (s : St) (c1 c2 : Nat) (f2 : Bool) (h1 : c1 &&& 7 = 4 ∨ c1 &&& 7 = 5) (h2 : c2 < 0x40) (h3 : c2 &&& 15 = 14) :
    captionCommand s c1 c2 f2 = s.modCh (edmChan (cmdChan s c1 f2)) eraseNonDisplayed := by
  unfold captionCommand cmdChan
  have : ¬ c2 ≥ 0x40 := by omega
  rcases h1 with h1 | h1 <;> simp only [this, if_false, h1, h3]

theorem dispatch_cr (s : St) (c1 c2 : Nat) (f2 : Bool) (h1 : c1 &&& 7 = 4 ∨ c1 &&& 7 = 5) (h2 : c2 < 0x40) (h3 : c2 &&& 15 = 13) :
    captionCommand s c1 c2 f2 = s.modCh (cmdChan s c1 f2) (fun ch => carriageReturn ch (cmdChan s c1 f2)) := by
  unfold captionCommand cmdChan
  have : ¬ c2 ≥ 0x40 := by omega
  rcases h1 with h1 | h1 <;> simp only [this, if_false, h1, h3]

theorem dispatch_pac (s : St) (c1 c2 : Nat) (f2 : Bool) (h2 : 0x40 ≤ c2) :
    captionCommand s c1 c2 f2 = s.modCh (cmdChan s c1 f2) (fun ch => pac ch (cmdChan s c1 f2) (c1 &&& 7) c2) := by
  unfold captionCommand cmdChan
  have : c2 ≥ 0x40 := h2
  simp only [this, if_true]

theorem dispatch_midrow (s : St) (c1 c2 : Nat) (f2 : Bool) (h1 : c1 &&& 7 = 1) (h2 : c2 < 0x40) (h3 : c2 &&& 0x10 = 0) :
    captionCommand s c1 c2 f2 = s.modCh (cmdChan s c1 f2) (fun ch => midRow ch c2) := by
  unfold captionCommand cmdChan
  have : ¬ c2 ≥ 0x40 := by omega
  simp only [this, if_false, h1, h3]
  rfl

/-- what `modCh` does to the channel it addresses -/
theorem modCh_get_same {s : St} {i : Nat} {ch : Channel} (f : Channel → Channel) (h : s.chans[i]? = some ch) :
    (s.modCh i f).chans[i]? = some (f ch) := by
  unfold St.modCh
  rw [h]
  have hlt : i < s.chans.length := by
    rcases Nat.lt_or_ge i s.chans.length with hl | hl
    · exact hl
    · rw [List.getElem?_eq_none hl] at h; cases h
  simp [List.getElem?_set_self hlt]

end Zvbi.Cc
