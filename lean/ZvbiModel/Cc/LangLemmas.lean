import ZvbiModel.Cc.Lang
import ZvbiModel.Cc.SpecChars
/-!
# Helper lemmas about the table look-up of `vbi_caption_unicode` (used by `Props/C08Lang.lean`)
-/
namespace Zvbi.Cc.Lang
open Zvbi.Cc Zvbi.Gen.CcLang Zvbi.Eia608

/-- an index inside the table is a successful look-up -/
theorem look_isSome (t : List (Nat × Nat)) (c off : Nat) (up : Bool) (h1 : off ≤ c) (h2 : c - off < t.length) :
    (Lang.look t c off up).isSome = true := by
  unfold Lang.look
  rw [if_neg (by omega), List.getElem?_eq_getElem h2]
  rfl

/-- if every table row has the upper-cased character in its second column, the look-up with `to_upper` is the upper case of
    the look-up without -/
theorem look_upper (t : List (Nat × Nat)) (ht : ∀ p ∈ t, p.2 = Chars.upper p.1) (c off : Nat) :
    Lang.look t c off true = (Lang.look t c off false).map Chars.upper := by
  unfold Lang.look
  split
  · rfl
  · cases h : t[c - off]? with
    | none => rfl
    | some p =>
      have := ht p (List.mem_of_getElem? h)
      simp [this]

end Zvbi.Cc.Lang
