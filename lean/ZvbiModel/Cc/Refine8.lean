import ZvbiModel.Cc.Refine7
/-!
# Refinement to `Eia608`, part 8: paint-on captions  `RDC (PAC | text)*`
-/
namespace Zvbi.Cc
open Zvbi.Gen.Cc Eia608

/-- libzvbi channel and reference service in paint-on mode.  `synced`: the displayed row under the cursor is up to
    date; `cursorOK`: cursors and pens agree (true from the first PAC on) -/
structure PaintRel (ch : Channel) (v : Service) (synced cursorOK : Bool) : Prop where
  inv : ChInv ch
  idx : ch.idx < 4
  mode : ch.mode = .paintOn
  vmode : v.mode = some .paintOn
  rows : ∀ r, r < 15 → r ≠ ch.row → DispRowOK ch v.disp r
  fresh : ∀ r, r < 15 → r ≠ ch.row → (∀ c, v.disp r c = none) → ∀ j, j < 34 → ch.hcell r j = some tsC
  cur : ∃ lead c0 xs, RowIs ch lead false c0 (xs.map toCell) ∧ SegRow v.disp ch.row c0 xs ∧
          RowSynced ch lead (xs.map toCell)
  sync : synced = true → DispRowOK ch v.disp ch.row
  cursor : cursorOK = true → v.row = ch.row ∧ v.col = ch.col ∧ penMatches ch.attr v.pen

theorem PaintRel.direct {ch : Channel} {v : Service} {s c : Bool} (P : PaintRel ch v s c) : directMode v := by
  unfold directMode; rw [P.vmode]; simp

theorem PaintRel.dispOK {ch : Channel} {v : Service} {c : Bool} (P : PaintRel ch v true c) : DispOK ch v.disp := by
  intro r hr j hj
  by_cases he : r = ch.row
  · rw [he]; exact P.sync rfl j hj
  · exact P.rows r hr he j hj

/-- Resume Direct Captioning on the addressed caption channel -/
def rdcModel (ch : Channel) : Channel := { wordBreak ch true with mode := .paintOn }

/-- **RDC from an idle / fresh channel** whose cursor row is empty on display -/
theorem rdc_step {ch : Channel} {v : Service} (I : IdleRel ch v) (hrow : ∀ c, v.disp ch.row c = none) :
    PaintRel (rdcModel ch) (v.exec .rdc) true false := by
  obtain ⟨xi, xu, xh, xd, _⟩ := idle_wordBreak I
  unfold rdcModel
  generalize wordBreak ch true = x at xi xu xh xd
  have ev : v.exec .rdc = { v with mode := some .paintOn } := rfl
  have hrl : ch.row < 15 := by have := I.inv.row_le; omega
  refine ⟨xi.withMode _, by show x.idx < 4; rw [xu.idx]; exact I.idx, rfl, by rw [ev], ?_, ?_, ?_, ?_, by intro h; cases h⟩
  · intro r hr _ j hj; rw [ev]; exact xd r hr j hj
  · intro r hr _ _ j hj
    show x.hcell r j = _
    rw [xh]; exact I.hid r hr j hj
  · refine ⟨false, ch.col1, [], ⟨by show x.col1 = _; rw [xu.col1], by show x.col = _; rw [xu.col, I.coleq]; rfl,
      I.inv.col1_pos, ?_, ?_, by simp, by simp, by simp⟩, ?_, by intro h; simp at h⟩
    · have := I.inv.col1_le; have := I.inv.col_le; simp; omega
    · intro j hj
      show x.hcell x.row j = _
      rw [xh, xu.row, I.hid _ hrl j hj]
      simp [rowCell]
      intro a b; omega
    · rw [ev]; show SegRow v.disp x.row _ _; rw [xu.row]
      intro c; rw [hrow c]; simp
  · intro _ j hj
    rw [ev]; show ∃ c, x.dcell x.row j = some c ∧ _
    rw [xu.row]; exact xd _ hrl j hj


/-- **PAC in paint-on mode**, addressed to a row that is empty in the reference displayed memory: the row left behind
    is completed (solid spaces) and copied to the display, both cursors go to the new row, pens agree -/
theorem pac_paint {ch : Channel} {v : Service} {s cu : Bool} (P : PaintRel ch v s cu) {chan c1 c2 : Nat} (hchan : chan < 4)
    (h1 : c1 < 8) (h2 : c2 < 128) (h3 : 0x40 ≤ c2) {r ind : Nat} {col : Option Nat} {u : Bool}
    (ha : pacArgs c1 c2 = some (r, ind, col, u)) (hempty : ∀ c, v.disp r c = none) :
    PaintRel (pac ch chan c1 c2) (v.exec (.pac r ind col u)) true true := by
  obtain ⟨hrm, hr14, hind, hie, hcol, hu⟩ := pacArgs_model h1 h2 h3 ha
  simp only at hrm hr14 hind hie hcol hu
  have hmn : ch.mode ≠ .none := by rw [P.mode]; decide
  have hr0 : (0 : Int) ≤ (r : Int) := Int.natCast_nonneg r
  obtain ⟨scol, scol1, srow, _, _, sattr, smode⟩ := pac_spec P.inv chan c1 c2 (by omega) (r : Int) hrm hr0 hmn
  have srow' : (pac ch chan c1 c2).row = r := by
    have := srow (by rw [P.mode]; decide); simpa using this
  have hpi := pac_inv P.inv chan c1 c2 (by omega)
  have e := pac_eq ch chan c1 c2 (r : Int) hrm hr0 hmn
  have htoNat : (r : Int).toNat = r := by simp
  rw [htoNat] at e
  have hA : ChInv (pacAttr ch c2) := P.inv.withAttr _
  obtain ⟨lead, c0, xs, R, S, _⟩ := P.cur
  have RA : RowIs (pacAttr ch c2) lead false c0 (xs.map toCell) := R.transfer rfl rfl rfl (fun _ _ => rfl)
  obtain ⟨sb, hk⟩ := close_row hA RA (S : SegRow v.disp (pacAttr ch c2).row c0 xs)
  have hW := sb.upd.inv hA
  have ewb : wordBreak (pacAttr ch c2) true =
      renderCh (update (wordBreak (pacAttr ch c2) false)) true (wordBreak (pacAttr ch c2) false).row := by
    rw [wordBreak_true_eq]
    have : ¬ ((wordBreak (pacAttr ch c2) false).mode == .popOn) = true := by
      rw [sb.upd.mode]; show ¬ (ch.mode == .popOn) = true; rw [P.mode]; decide
    rw [if_neg this]
  rw [ewb] at e
  generalize wordBreak (pacAttr ch c2) false = w at e sb hk hW
  have u1 := update_upd hW
  have i1 := u1.inv hW
  have c1' := update_cells hW
  have u2 := renderCh_upd (update w) true w.row
  have i2 := u2.inv i1
  have c2' := renderCh_cells (update w) true w.row
  have hwm : (renderCh (update w) true w.row).mode = .paintOn := by rw [u2.mode, u1.mode, sb.upd.mode]; exact P.mode
  have ec : pacCursor (renderCh (update w) true w.row) r = setCursor (renderCh (update w) true w.row) 1 r := by
    unfold pacCursor
    have : ((renderCh (update w) true w.row).mode == .rollUp) = false := by rw [hwm]; rfl
    rw [this]; rfl
  rw [ec] at e
  have hY : ChInv (setCursor (renderCh (update w) true w.row) 1 r) := setCursor_inv i2 (Nat.le_refl _) (by omega) hr14
  -- after the sync every displayed row is right, and empty reference rows are blank in the hidden memory
  have hwrow : w.row = ch.row := sb.upd.row
  have hallD : ∀ r', r' < 15 → DispRowOK (renderCh (update w) true w.row) v.disp r' := by
    intro r' hr' j hj
    rw [c2'.2, c1'.2 r' j hj]
    by_cases he : r' = w.row
    · rw [if_pos he, he, hwrow]; exact hk j hj
    · rw [if_neg he, sb.disp]; exact P.rows r' hr' (by rw [← hwrow]; exact he) j hj
  have hallF : ∀ r', r' < 15 → (∀ c, v.disp r' c = none) → ∀ j, j < 34 → w.hcell r' j = some tsC := by
    intro r' hr' he j hj
    by_cases hcr : r' = ch.row
    · rw [hcr]
      have he' : ∀ c, v.disp (pacAttr ch c2).row c = none := by
        intro c; show v.disp ch.row c = none; rw [← hcr]; exact he c
      exact (hidRow_empty_iff he').1 hk j hj
    · rw [sb.rows r' j hj hcr]; exact P.fresh r' hr' hcr he j hj
  have hblank : ∀ j, j < 34 → w.hcell r j = some tsC := hallF r (by omega) hempty
  obtain ⟨hh, hdd, _, _, hidx⟩ := pacStyle_cells hY chan c2
  rw [← e] at hh hdd hidx
  have hcellsP : ∀ r' j, j < 34 → (pac ch chan c1 c2).hcell r' j = w.hcell r' j := by
    intro r' j hj
    rw [hh r' j hj]
    by_cases hc : (c2 &&& 0x10 != 0) = true ∧ r' = (setCursor (renderCh (update w) true w.row) 1 r).row ∧
        (setCursor (renderCh (update w) true w.row) 1 r).col ≤ j ∧
        j < (setCursor (renderCh (update w) true w.row) 1 r).col +
          min ((c2 &&& 14) * 2) (33 - (setCursor (renderCh (update w) true w.row) 1 r).col)
    · rw [if_pos hc, tsC_of_chan hchan]
      have : r' = r := hc.2.1
      rw [this]; exact (hblank j hj).symm
    · rw [if_neg hc]
      show (renderCh (update w) true w.row).hcell r' j = _
      rw [c2'.1, c1'.1]
  have hdispP : ∀ r' j, (pac ch chan c1 c2).dcell r' j = (renderCh (update w) true w.row).dcell r' j := by
    intro r' j; rw [hdd]; rfl
  have ev : v.exec (.pac r ind col u) = { v with row := r, col := 1 + ind, pen := v.pen' (col.getD 0) u true } := by
    unfold Service.exec; rw [P.vmode]
  have hpcol : (pac ch chan c1 c2).col = 1 + ind := by rw [scol, hie]
  have hrowOK : ∀ r', r' < 15 → DispRowOK (pac ch chan c1 c2) (v.exec (.pac r ind col u)).disp r' := by
    intro r' hr' j hj
    rw [hdispP, ev]; exact hallD r' hr' j hj
  have hpen : penMatches (pac ch chan c1 c2).attr (v.exec (.pac r ind col u)).pen := by
    rw [sattr, ev]
    have := pacPen_matches c2 h2 h3 ch.attr v
    rw [← hcol, ← hu] at this
    exact this
  refine ⟨hpi, ?_, by rw [smode, P.mode], by rw [ev]; exact P.vmode, fun r' hr' _ => hrowOK r' hr', ?_, ?_,
    fun _ => by rw [srow']; exact hrowOK r (by omega), fun _ => ⟨by rw [ev, srow'], by rw [ev, hpcol], hpen⟩⟩
  · rw [hidx]; show (renderCh (update w) true w.row).idx < 4
    rw [u2.idx, u1.idx, sb.upd.idx]; exact P.idx
  · intro r' hr' _ he j hj
    rw [hcellsP r' j hj]
    exact hallF r' hr' (by rw [ev] at he; exact he) j hj
  · refine ⟨false, 1 + ind, [], ⟨by rw [scol1, hpcol], by rw [hpcol]; rfl, by omega, by simp; omega, ?_, by simp, by simp, by simp⟩,
      ?_, by intro h; simp at h⟩
    · intro j hj
      rw [srow', hcellsP r j hj, hblank j hj]
      simp [rowCell]
      intro a b; omega
    · rw [ev, srow']
      intro c; rw [hempty c]; simp

/-- text in paint-on mode (after a PAC) -/
theorem text_paint {ch : Channel} {v : Service} {s : Bool} (P : PaintRel ch v s true) (cs : List Nat)
    (hne : cs ≠ []) (hw : ∀ ci ∈ cs, isCharCode ci = true) (hlen : v.col + cs.length ≤ 33) :
    PaintRel (charRun ch cs) (specRun v cs) (endsSpace cs) true := by
  obtain ⟨lead, c0, xs, R, S, sy⟩ := P.cur
  obtain ⟨vr, vc, vp⟩ := P.cursor rfl
  have hd := P.direct
  have Q : RowSim ch v lead c0 xs := ⟨R, by rw [spec_target_dir hd]; exact S, vr, vc, vp, hd.1⟩
  have hcol : v.col = c0 + xs.length := by rw [vc, R.col]; simp
  have hmne : ch.mode ≠ .popOn := by rw [P.mode]; decide
  obtain ⟨lead', xs', ex, Q2, sy2, i2, f2, _, d2, o2, m2, _, _⟩ :=
    text_sim_dir c0 cs P.inv hmne hd Q sy hw (by omega)
  have hd2 : directMode (specRun v cs) := by unfold directMode; rw [m2]; exact hd
  have hxs' : xs' ≠ [] := by rw [ex]; simp [hne]
  have S2 := Q2.S
  rw [spec_target_dir hd2] at S2
  refine ⟨i2, by rw [f2.idx]; exact P.idx, by rw [f2.mode]; exact P.mode, by rw [m2]; exact P.vmode, ?_, ?_,
    ⟨lead', c0, xs', Q2.R, S2, sy2⟩, ?_, fun _ => ⟨Q2.vrow, Q2.vcol, Q2.pen⟩⟩
  · intro r hr hne' j hj
    rw [f2.row] at hne'
    rw [d2 r j hj hne']
    obtain ⟨c, hc, e⟩ := P.rows r hr hne' j hj
    refine ⟨c, hc, ?_⟩
    rw [e]
    exact (renderCell_congr (fun c => o2 r c (by rw [vr]; exact hne')) j).symm
  · intro r hr hne' he j hj
    rw [f2.row] at hne'
    rw [f2.rows r j hj hne']
    exact P.fresh r hr hne' (fun c => by rw [← o2 r c (by rw [vr]; exact hne')]; exact he c) j hj
  · intro hs
    have hl := last_of_typed xs cs v.pen hne
    rw [← ex, hs] at hl
    exact dispRow_of_synced Q2 hd2 sy2 hxs' hl


/-! ## paint-on scripts -/

/-- what follows RDC in a paint-on script -/
inductive POp
  | pac (c1 c2 : Nat)
  | text (cs : List Nat)

def paintOpModel (chan : Nat) (ch : Channel) : POp → Channel
  | .pac c1 c2 => Zvbi.Cc.pac ch chan c1 c2
  | .text cs => charRun ch cs

def paintOpSpec (v : Service) : POp → Service
  | .pac c1 c2 =>
    match pacArgs c1 c2 with
    | some (r, ind, col, u) => v.exec (.pac r ind col u)
    | none => v
  | .text cs => specRun v cs

/-- well-formed op, judged on the reference state; `cursorOK` = a PAC has been seen -/
def POp.ok (v : Service) (cursorOK : Bool) : POp → Prop
  | .pac c1 c2 => c1 < 8 ∧ c2 < 128 ∧ 0x40 ≤ c2 ∧
      ∃ r ind col u, pacArgs c1 c2 = some (r, ind, col, u) ∧ ∀ c, v.disp r c = none
  | .text cs => cursorOK = true ∧ cs ≠ [] ∧ (∀ ci ∈ cs, isCharCode ci = true) ∧ v.col + cs.length ≤ 33

def POp.visible : POp → Bool
  | .pac _ _ => true
  | .text cs => endsSpace cs

def POp.cursorAfter (cursorOK : Bool) : POp → Bool
  | .pac _ _ => true
  | .text _ => cursorOK

def popsOk : Service → Bool → List POp → Prop
  | _, _, [] => True
  | v, cu, op :: rest => op.ok v cu ∧ popsOk (paintOpSpec v op) (op.cursorAfter cu) rest

theorem paintOp_step {ch : Channel} {v : Service} {s cu : Bool} (P : PaintRel ch v s cu) {chan : Nat} (hchan : chan < 4)
    (op : POp) (hok : op.ok v cu) :
    PaintRel (paintOpModel chan ch op) (paintOpSpec v op) op.visible (op.cursorAfter cu) := by
  cases op with
  | pac c1 c2 =>
    obtain ⟨h1, h2, h3, r, ind, col, u, ha, he⟩ := hok
    unfold paintOpModel paintOpSpec
    simp only [ha]
    exact pac_paint P hchan h1 h2 h3 ha he
  | text cs =>
    obtain ⟨hc, hne, hw, hl⟩ := hok
    subst hc
    exact text_paint P cs hne hw hl

theorem paintOps_refine (chan : Nat) (hchan : chan < 4) (ops : List POp) :
    ∀ {ch : Channel} {v : Service} {s cu : Bool}, PaintRel ch v s cu → popsOk v cu ops →
    ∀ k, (hk0 : 0 < k) → (hk : k ≤ ops.length) → (ops[k - 1]'(by omega)).visible = true →
      pageMatches ((ops.take k).foldl (paintOpModel chan) ch) ((ops.take k).foldl paintOpSpec v) := by
  induction ops with
  | nil => intro ch v s cu _ _ k hk0 hk; simp at hk; omega
  | cons op rest ih =>
    intro ch v s cu P hok k hk0 hk hvis
    have P1 := paintOp_step P hchan op hok.1
    cases k with
    | zero => omega
    | succ k' =>
      simp only [List.take_succ_cons, List.foldl_cons]
      cases k' with
      | zero =>
        simp only [List.take_zero, List.foldl_nil]
        have hv : op.visible = true := by simpa using hvis
        rw [hv] at P1
        exact pageMatches_of_dispOK P1.inv P1.dispOK
      | succ k'' =>
        have hk' : k'' + 1 ≤ rest.length := by simpa using hk
        exact ih P1 hok.2 (k'' + 1) (by omega) hk' (by simpa using hvis)

/-- **paint-on refinement, channel level.**  From an idle or fresh channel whose cursor row is empty on display, a
    well-formed paint-on script `RDC (PAC | text)*` (each PAC addressing a row that is empty in the reference's
    displayed memory, text only after a PAC): right after RDC, after every PAC and after every run of text that ends
    with a space, the fetched page equals the reference display memory, cell for cell. -/
theorem painton_refines {ch : Channel} {v : Service} (I : IdleRel ch v) (hrow : ∀ c, v.disp ch.row c = none)
    {chan : Nat} (hchan : chan < 4) (ops : List POp) (hok : popsOk (v.exec .rdc) false ops) :
    pageMatches (rdcModel ch) (v.exec .rdc) ∧
    ∀ k, (hk0 : 0 < k) → (hk : k ≤ ops.length) → (ops[k - 1]'(by omega)).visible = true →
      pageMatches ((ops.take k).foldl (paintOpModel chan) (rdcModel ch)) ((ops.take k).foldl paintOpSpec (v.exec .rdc)) := by
  have P0 := rdc_step I hrow
  exact ⟨pageMatches_of_dispOK P0.inv P0.dispOK, paintOps_refine chan hchan ops P0 hok⟩

end Zvbi.Cc
