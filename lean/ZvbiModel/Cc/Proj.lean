import ZvbiModel.Cc.Fields
import ZvbiModel.Cc.Lemmas4
/-!
# Trace-level separation of the two fields (`fields_independent_full`)

`Agree f s t`: the decoder states `s` and `t` coincide in everything field `f` owns - its current-channel selector
`curr_chan[f]`, its four channels (CC1 CC2 T1 T2 resp. CC3 CC4 T3 T4: memories, cursor, window, mode, pen, dirty
region, event count, recorded error), the repetition latch `last[]` (field 1) resp. the XDS gate `cc->xds` (field 2).

* congruence: an op of field `f` (pair, fetch, channel switch) maps agreeing states to agreeing states
  (`decodePair_agree`, `fetchStep_agree`, `chsw_agree`) - "the effect of a pair on its own field reads nothing else";
* frame: an op of the other field leaves the state in agreement with itself (`decodePair_other_agree`,
  `fetchStep_other_agree`), from `decodePair_untouched` / `decodePair_other_curr` of `Fields.lean`;
* `run_proj`: induction over the history.

Everything needs the per-field selector (`currChanPerField = true`, generated from cc.h / caption.c).
-/
namespace Zvbi.Cc
open Zvbi.Gen.Cc

/-- channel index `i` (0..7) belongs to field `f`: CC1 CC2 T1 T2 = 0 1 4 5, CC3 CC4 T3 T4 = 2 3 6 7 -/
def inField (f : Bool) (i : Nat) : Prop := i < 8 ∧ (((i >>> 1) &&& 1 == 1) = f)

instance (f : Bool) (i : Nat) : Decidable (inField f i) := by unfold inField; infer_instance

structure Agree (f : Bool) (s t : St) : Prop where
  cur : s.curr f = t.curr f
  last : f = false → s.last0 = t.last0 ∧ s.last1 = t.last1
  xds : f = true → s.xds = t.xds
  chs : ∀ i, inField f i → s.chans[i]? = t.chans[i]?

theorem Agree.refl (f : Bool) (s : St) : Agree f s s := ⟨rfl, fun _ => ⟨rfl, rfl⟩, fun _ => rfl, fun _ _ => rfl⟩

theorem Agree.symm {f : Bool} {s t : St} (A : Agree f s t) : Agree f t s :=
  ⟨A.cur.symm, fun h => ⟨(A.last h).1.symm, (A.last h).2.symm⟩, fun h => (A.xds h).symm, fun i h => (A.chs i h).symm⟩

theorem Agree.trans {f : Bool} {s t u : St} (A : Agree f s t) (B : Agree f t u) : Agree f s u :=
  ⟨A.cur.trans B.cur, fun h => ⟨(A.last h).1.trans (B.last h).1, (A.last h).2.trans (B.last h).2⟩,
   fun h => (A.xds h).trans (B.xds h), fun i h => (A.chs i h).trans (B.chs i h)⟩

theorem Agree.setLast {f : Bool} {s t : St} (A : Agree f s t) (a b : Nat) :
    Agree f { s with last0 := a, last1 := b } { t with last0 := a, last1 := b } :=
  ⟨A.cur, fun _ => ⟨rfl, rfl⟩, A.xds, A.chs⟩

theorem Agree.setLast0 {f : Bool} {s t : St} (A : Agree f s t) (a : Nat) :
    Agree f { s with last0 := a } { t with last0 := a } :=
  ⟨A.cur, fun h => ⟨rfl, (A.last h).2⟩, A.xds, A.chs⟩

theorem Agree.setXds {f : Bool} {s t : St} (A : Agree f s t) (x : Bool) :
    Agree f { s with xds := x } { t with xds := x } :=
  ⟨A.cur, A.last, fun _ => rfl, A.chs⟩

/-! ## building blocks -/

theorem modCh_get_eq (s : St) (i : Nat) (g : Channel → Channel) :
    (s.modCh i g).chans[i]? = (s.chans[i]?).map g := by
  unfold St.modCh
  split
  · rename_i ch h
    obtain ⟨hi, e⟩ := List.getElem?_eq_some_iff.mp h
    simp [hi, e]
  · rename_i h
    rw [fail_chans, h]; rfl

theorem modCh_last (t : St) (i : Nat) (g : Channel → Channel) :
    (t.modCh i g).last0 = t.last0 ∧ (t.modCh i g).last1 = t.last1 := by
  unfold St.modCh St.fail; repeat' split
  all_goals exact ⟨rfl, rfl⟩

/-- the same channel function applied to a channel of field `f` in two agreeing states -/
theorem modCh_agree {f : Bool} {s t : St} (A : Agree f s t) (i : Nat) (g : Channel → Channel) :
    Agree f (s.modCh i g) (t.modCh i g) := by
  refine ⟨?_, fun h => ?_, fun h => ?_, fun j hj => ?_⟩
  · rw [modCh_curr, modCh_curr]; exact A.cur
  · rw [(modCh_last s i g).1, (modCh_last s i g).2, (modCh_last t i g).1, (modCh_last t i g).2]; exact A.last h
  · rw [(modCh_currs s i g).2.2, (modCh_currs t i g).2.2]; exact A.xds h
  · by_cases e : j = i
    · subst e; rw [modCh_get_eq, modCh_get_eq, A.chs j hj]
    · rw [modCh_get_ne _ _ e, modCh_get_ne _ _ e]; exact A.chs j hj

/-- a channel function applied to a channel of the OTHER field -/
theorem modCh_frame {f : Bool} (s : St) {i : Nat} (hi : ¬ inField f i) (g : Channel → Channel) :
    Agree f (s.modCh i g) s := by
  refine ⟨modCh_curr _ _ _ _, fun _ => modCh_last s i g, fun _ => (modCh_currs s i g).2.2, fun j hj => ?_⟩
  have e : j ≠ i := fun e => hi (e ▸ hj)
  exact modCh_get_ne _ _ e

theorem setCurr_same (hpf : currChanPerField = true) (s : St) (n : Nat) (f : Bool)
    (hn : ((n >>> 1) &&& 1 == 1) = f) : (s.setCurr n).curr f = n := by
  unfold St.setCurr St.curr
  rw [hpf, hn]
  cases f <;> simp

theorem setCurr_agree (hpf : currChanPerField = true) {f : Bool} {s t : St} (A : Agree f s t) {n : Nat}
    (hn : inField f n) : Agree f (s.setCurr n) (t.setCurr n) := by
  refine ⟨?_, fun h => ?_, fun h => ?_, fun j hj => ?_⟩
  · rw [setCurr_same hpf s n f hn.2, setCurr_same hpf t n f hn.2]
  · rw [(setCurr_last s n).1, (setCurr_last s n).2.1, (setCurr_last t n).1, (setCurr_last t n).2.1]; exact A.last h
  · rw [(setCurr_last s n).2.2, (setCurr_last t n).2.2]; exact A.xds h
  · rw [setCurr_chans, setCurr_chans]; exact A.chs j hj

theorem switchChannel_agree (hpf : currChanPerField = true) {f : Bool} {s t : St} (A : Agree f s t) (i : Nat) {n : Nat}
    (hn : inField f n) : Agree f (s.switchChannel i n) (t.switchChannel i n) := by
  unfold St.switchChannel
  exact setCurr_agree hpf (modCh_agree A i _) hn

theorem group_inField : ∀ k < 2, ∀ f : Bool,
    inField f ((if f then 2 else 0) + k) ∧ inField f ((if f then 2 else 0) + k + 4) := by decide

theorem cmdChan_inField (s : St) (c1 : Nat) (f : Bool) :
    inField f (cmdChan s c1 f) ∧ inField f (cmdChan s c1 f &&& 3) ∧ inField f (cmdChan s c1 f ||| 4) ∧
    inField f (edmChan (cmdChan s c1 f)) := by
  have hg := cmdChan_group s c1 f
  have hk : (c1 >>> 3) &&& 1 < 2 := by have : (c1 >>> 3) &&& 1 ≤ 1 := Nat.and_le_right; omega
  obtain ⟨g0, g4⟩ := group_inField _ hk f
  have h1 : inField f (cmdChan s c1 f) := by rcases hg.1 with e | e <;> rw [e] <;> assumption
  have h3 : inField f (cmdChan s c1 f &&& 3) := by rw [hg.2.1]; exact g0
  refine ⟨h1, h3, by rw [hg.2.2]; exact g4, ?_⟩
  unfold edmChan; split <;> assumption

/-! ## congruence of the decoder on its own field -/

theorem captionCommand_agree (hpf : currChanPerField = true) {f : Bool} {s t : St} (A : Agree f s t) (c1 c2 : Nat) :
    Agree f (captionCommand s c1 c2 f) (captionCommand t c1 c2 f) := by
  obtain ⟨_, h3, h4, _⟩ := cmdChan_inField s c1 f
  unfold captionCommand
  rw [← A.cur]
  rw [show (s.curr f &&& 4) + (if f then 2 else 0) + ((c1 >>> 3) &&& 1) = cmdChan s c1 f from rfl] at *
  generalize cmdChan s c1 f = chan at h3 h4
  simp only []
  repeat' split
  all_goals first
    | exact A
    | exact modCh_agree A _ _
    | exact switchChannel_agree hpf A _ h3
    | exact switchChannel_agree hpf A _ h4
    | exact modCh_agree (switchChannel_agree hpf A _ h3) _ _
    | exact modCh_agree (switchChannel_agree hpf A _ h4) _ _

theorem decodeMain_agree (hpf : currChanPerField = true) {f : Bool} {s t : St} (A : Agree f s t) (b0 b1 : Nat) :
    Agree f (decodeMain s f b0 b1) (decodeMain t f b0 b1) := by
  unfold decodeMain
  rw [← A.cur]
  cases f
  · obtain ⟨l0, l1⟩ := A.last rfl
    rw [← l0, ← l1]
    simp only []
    repeat' split
    all_goals first
      | exact A
      | exact A.setLast _ _
      | exact modCh_agree A _ _
      | exact modCh_agree (A.setLast _ _) _ _
      | exact (captionCommand_agree hpf A _ _).setLast _ _
      | exact captionCommand_agree hpf A _ _
  · simp only [Bool.not_true, Bool.false_and, Bool.false_eq_true, if_false]
    repeat' split
    all_goals first
      | exact A
      | exact modCh_agree A _ _
      | exact captionCommand_agree hpf A _ _

/-- **a pair's effect on its own field reads nothing of the other field** -/
theorem decodePair_agree (hpf : currChanPerField = true) {f : Bool} {s t : St} (A : Agree f s t) (b0 b1 : Nat) :
    Agree f (decodePair s f b0 b1) (decodePair t f b0 b1) := by
  cases f
  · unfold decodePair xdsGate
    simp only [Bool.false_eq_true, if_false]
    exact decodeMain_agree hpf A b0 b1
  · have hx := A.xds rfl
    have hg : (xdsGate s true b0 = none ∧ xdsGate t true b0 = none) ∨
        ∃ s' t', xdsGate s true b0 = some s' ∧ xdsGate t true b0 = some t' ∧ Agree true s' t' := by
      unfold xdsGate
      rw [← hx]
      simp only [if_true]
      repeat' split
      all_goals first
        | exact Or.inl ⟨rfl, rfl⟩
        | exact Or.inr ⟨_, _, rfl, rfl, A⟩
        | exact Or.inr ⟨_, _, rfl, rfl, A.setXds _⟩
    unfold decodePair
    rcases hg with ⟨e1, e2⟩ | ⟨s', t', e1, e2, A'⟩
    · rw [e1, e2]
      simp only []
      unfold xdsConsumed
      simp only []
      split
      · exact A.setXds _
      · exact A
    · rw [e1, e2]
      exact decodeMain_agree hpf A' b0 b1

/-- a pair of the OTHER field (frame; `Fields.lean`) -/
theorem decodePair_other_agree (hpf : currChanPerField = true) (s : St) (f : Bool) (b0 b1 : Nat) :
    Agree f (decodePair s (!f) b0 b1) s := by
  refine ⟨?_, fun h => ?_, fun h => ?_, fun i hi => ?_⟩
  · have := decodePair_other_curr hpf s (!f) b0 b1
    rw [Bool.not_not] at this; exact this
  · subst h; exact decodePair_f2_last s b0 b1
  · subst h; exact decodePair_f1_xds s b0 b1
  · have key : ∀ g < 4, ∀ i < 8, ∀ f : Bool, (((i >>> 1) &&& 1 == 1) = f) → ((g >>> 1) &&& 1 == 1) = (!f) →
        i ≠ g ∧ i ≠ g + 4 := by decide
    have hg : pairGroup s (!f) b0 < 4 ∧ (((pairGroup s (!f) b0) >>> 1) &&& 1 == 1) = (!f) := by
      unfold pairGroup
      have : ∀ k < 2, ∀ f : Bool, (if f then 2 else 0) + k < 4 ∧ ((((if f then 2 else 0) + k) >>> 1) &&& 1 == 1) = f := by
        decide
      apply this
      split
      · have : ((b0 &&& 0x7F) >>> 3) &&& 1 ≤ 1 := Nat.and_le_right; omega
      · have : s.curr (!f) &&& 1 ≤ 1 := Nat.and_le_right; omega
    obtain ⟨n1, n2⟩ := key _ hg.1 i hi.1 f hi.2 hg.2
    exact decodePair_untouched s (!f) b0 b1 i n1 n2

/-! ## fetch and channel switch -/

theorem fetchStep_agree {f : Bool} {s t : St} (A : Agree f s t) (n : Int) :
    Agree f (fetchStep s n) (fetchStep t n) := by
  unfold fetchStep
  split
  · exact A
  · exact modCh_agree A _ _

/-- the page number belongs to field `f`: 1 2 5 6 (CC1 CC2 T1 T2) resp. 3 4 7 8 -/
def pageOfField (f : Bool) (n : Int) : Bool :=
  decide (1 ≤ n) && decide (n ≤ 8) && (((((n - 1).toNat &&& 7) >>> 1) &&& 1 == 1) == f)

theorem fetchStep_other_agree {f : Bool} (s : St) (n : Int) (h : pageOfField f n = false) :
    Agree f (fetchStep s n) s := by
  unfold fetchStep
  split
  · exact Agree.refl f s
  · rename_i hr
    apply modCh_frame
    intro hi
    have h1 : ¬ n < 1 := by intro h'; apply hr; simp [h']
    have h8 : ¬ n > 8 := by intro h'; apply hr; simp [h']
    unfold pageOfField at h
    have e1 : decide (1 ≤ n) = true := by simp; omega
    have e8 : decide (n ≤ 8) = true := by simp; omega
    rw [e1, e8, hi.2] at h
    simp at h

theorem fetchPage_agree {f : Bool} {s t : St} (A : Agree f s t) (n : Int) (h : pageOfField f n = true) :
    fetchPage s n = fetchPage t n := by
  unfold pageOfField at h
  simp only [Bool.and_eq_true, decide_eq_true_eq, beq_iff_eq] at h
  obtain ⟨⟨h1, h8⟩, hb⟩ := h
  have hin : inField f ((n - 1).toNat &&& 7) := ⟨by have : (n - 1).toNat &&& 7 ≤ 7 := Nat.and_le_right; omega, hb⟩
  unfold fetchPage
  rw [A.chs _ hin]

theorem chswCurr_curr (s t : St) (f : Bool) (h : s.curr f = t.curr f) : s.chswCurr.curr f = t.chswCurr.curr f := by
  unfold St.chswCurr
  split
  · rfl
  · exact h

theorem chsw_agree {f : Bool} {s t : St} (A : Agree f s t) : Agree f s.chsw t.chsw := by
  unfold St.chsw St.chswWith
  refine ⟨?_, fun h => ?_, fun _ => rfl, fun i hi => ?_⟩
  · exact chswCurr_curr s t f A.cur
  · have := A.last h
    unfold St.chswCurr; split <;> exact this
  · show (s.chans.map _)[i]? = (t.chans.map _)[i]?
    rw [List.getElem?_map, List.getElem?_map, A.chs i hi]

/-! ## whole histories -/

/-- is the op one of field `f`'s stream?  (its pairs, fetches of its pages, every channel switch) -/
def opOfField (f : Bool) : Op → Bool
  | .pair g _ _ => g == f
  | .fetch n => pageOfField f n
  | .chsw => true

theorem step_agree (hpf : currChanPerField = true) {f : Bool} {s t : St} (A : Agree f s t) (op : Op)
    (h : opOfField f op = true) : Agree f (step s op) (step t op) := by
  cases op with
  | pair g b0 b1 =>
    have : g = f := by simpa [opOfField] using h
    subst this
    exact decodePair_agree hpf A _ _
  | fetch n => exact fetchStep_agree A n
  | chsw => exact chsw_agree A

theorem step_other_agree (hpf : currChanPerField = true) {f : Bool} (s : St) (op : Op)
    (h : opOfField f op = false) : Agree f (step s op) s := by
  cases op with
  | pair g b0 b1 =>
    have : g = !f := by cases g <;> cases f <;> simp_all [opOfField]
    subst this
    exact decodePair_other_agree hpf s f _ _
  | fetch n => exact fetchStep_other_agree s n h
  | chsw => simp [opOfField] at h

/-- **projection theorem**: run the whole history on `s`, and only field `f`'s ops on an agreeing `t` -/
theorem run_proj (hpf : currChanPerField = true) (f : Bool) (ops : List Op) :
    ∀ s t, Agree f s t → Agree f (ops.foldl step s) ((ops.filter (opOfField f)).foldl step t) := by
  induction ops with
  | nil => intro s t A; exact A
  | cons op rest ih =>
    intro s t A
    by_cases h : opOfField f op = true
    · rw [List.filter_cons_of_pos h]
      exact ih _ _ (step_agree hpf A op h)
    · have h' : opOfField f op = false := by simpa using h
      rw [List.filter_cons_of_neg h]
      exact ih _ _ ((step_other_agree hpf s op h').trans A)

theorem filter_pairs (ps : List (Bool × Nat × Nat)) (f : Bool) :
    (ps.map (fun p => Op.pair p.1 p.2.1 p.2.2)).filter (opOfField f) =
    (ps.filter (fun p => p.1 == f)).map (fun p => Op.pair p.1 p.2.1 p.2.2) := by
  rw [List.filter_map]
  rfl

end Zvbi.Cc
