import ZvbiModel.Cc.Refine17
import ZvbiModel.Cc.Refine8
/-!
# Paint-on scripts whose text mixes basic and special characters

`text_paint` and the script induction of `Refine8` re-run over `Glyph` runs; `rdc_step` and `pac_paint` are reused.
-/
namespace Zvbi.Cc
open Zvbi.Gen.Cc Eia608

/-- `text_paint` for glyph runs -/
theorem glyph_paint {ch : Channel} {v : Service} {s : Bool} (P : PaintRel ch v s true) (chan : Nat) (gs : List Glyph)
    (hne : gs ≠ []) (hw : ∀ g ∈ gs, g.ok = true) (hlen : v.col + gs.length ≤ 33) :
    PaintRel (glyphRun chan ch gs) (glyphRunS v gs) (endsSpaceG gs) true := by
  obtain ⟨lead, c0, xs, R, S, sy⟩ := P.cur
  obtain ⟨vr, vc, vp⟩ := P.cursor rfl
  have hd := P.direct
  have Q : RowSim ch v lead c0 xs := ⟨R, by rw [spec_target_dir hd]; exact S, vr, vc, vp, hd.1⟩
  have hcol : v.col = c0 + xs.length := by rw [vc, R.col]; simp
  have hmne : ch.mode ≠ .popOn := by rw [P.mode]; decide
  obtain ⟨lead', xs', ex, Q2, sy2, i2, f2, _, d2, o2, m2, _, _⟩ :=
    glyph_sim_dir chan c0 gs P.inv hmne hd Q sy hw (by omega)
  have hd2 : directMode (glyphRunS v gs) := by unfold directMode; rw [m2]; exact hd
  have hxs' : xs' ≠ [] := by rw [ex]; simp [hne]
  have S2 := Q2.S
  rw [spec_target_dir hd2] at S2
  refine ⟨i2, by rw [f2.idx]; exact P.idx, by rw [f2.mode]; exact P.mode, by rw [m2]; exact P.vmode, ?_, ?_,
    ⟨lead', c0, xs', Q2.R, S2, sy2⟩, ?_, fun _ => ⟨Q2.vrow, Q2.vcol, Q2.pen⟩⟩
  · intro r hr hne' j hj
    rw [f2.row] at hne'
    rw [d2 r j hj hne']
    obtain ⟨c, hc, e⟩ := P.rows r hr hne' j hj
    refine ⟨c, hc, ?_⟩
    rw [e]
    exact (renderCell_congr (fun c => o2 r c (by rw [vr]; exact hne')) j).symm
  · intro r hr hne' he j hj
    rw [f2.row] at hne'
    rw [f2.rows r j hj hne']
    exact P.fresh r hr hne' (fun c => by rw [← o2 r c (by rw [vr]; exact hne')]; exact he c) j hj
  · intro hs
    have hl := last_of_typedG xs gs v.pen hne
    rw [← ex, hs] at hl
    exact dispRow_of_synced Q2 hd2 sy2 hxs' hl

/-- what follows RDC in a paint-on script -/
inductive GPOp
  | pac (c1 c2 : Nat)
  | text (gs : List Glyph)

def gPaintOpModel (chan : Nat) (ch : Channel) : GPOp → Channel
  | .pac c1 c2 => Zvbi.Cc.pac ch chan c1 c2
  | .text gs => glyphRun chan ch gs

def gPaintOpSpec (v : Service) : GPOp → Service
  | .pac c1 c2 =>
    match pacArgs c1 c2 with
    | some (r, ind, col, u) => v.exec (.pac r ind col u)
    | none => v
  | .text gs => glyphRunS v gs

/-- well-formed op, judged on the reference state; `cursorOK` = a PAC has been seen -/
def GPOp.ok (v : Service) (cursorOK : Bool) : GPOp → Prop
  | .pac c1 c2 => c1 < 8 ∧ c2 < 128 ∧ 0x40 ≤ c2 ∧
      ∃ r ind col u, pacArgs c1 c2 = some (r, ind, col, u) ∧ ∀ c, v.disp r c = none
  | .text gs => cursorOK = true ∧ gs ≠ [] ∧ (∀ g ∈ gs, g.ok = true) ∧ v.col + gs.length ≤ 33

def GPOp.visible : GPOp → Bool
  | .pac _ _ => true
  | .text gs => endsSpaceG gs

def GPOp.cursorAfter (cursorOK : Bool) : GPOp → Bool
  | .pac _ _ => true
  | .text _ => cursorOK

def gpopsOk : Service → Bool → List GPOp → Prop
  | _, _, [] => True
  | v, cu, op :: rest => op.ok v cu ∧ gpopsOk (gPaintOpSpec v op) (op.cursorAfter cu) rest

theorem gPaintOp_step {ch : Channel} {v : Service} {s cu : Bool} (P : PaintRel ch v s cu) {chan : Nat} (hchan : chan < 4)
    (op : GPOp) (hok : op.ok v cu) :
    PaintRel (gPaintOpModel chan ch op) (gPaintOpSpec v op) op.visible (op.cursorAfter cu) := by
  cases op with
  | pac c1 c2 =>
    obtain ⟨h1, h2, h3, r, ind, col, u, ha, he⟩ := hok
    unfold gPaintOpModel gPaintOpSpec
    simp only [ha]
    exact pac_paint P hchan h1 h2 h3 ha he
  | text gs =>
    obtain ⟨hc, hne, hw, hl⟩ := hok
    subst hc
    exact glyph_paint P chan gs hne hw hl

theorem gPaintOps_refine (chan : Nat) (hchan : chan < 4) (ops : List GPOp) :
    ∀ {ch : Channel} {v : Service} {s cu : Bool}, PaintRel ch v s cu → gpopsOk v cu ops →
    ∀ k, (hk0 : 0 < k) → (hk : k ≤ ops.length) → (ops[k - 1]'(by omega)).visible = true →
      pageMatches ((ops.take k).foldl (gPaintOpModel chan) ch) ((ops.take k).foldl gPaintOpSpec v) := by
  induction ops with
  | nil => intro ch v s cu _ _ k hk0 hk; simp at hk; omega
  | cons op rest ih =>
    intro ch v s cu P hok k hk0 hk hvis
    have P1 := gPaintOp_step P hchan op hok.1
    cases k with
    | zero => omega
    | succ k' =>
      simp only [List.take_succ_cons, List.foldl_cons]
      cases k' with
      | zero =>
        simp only [List.take_zero, List.foldl_nil]
        have hv : op.visible = true := by simpa using hvis
        rw [hv] at P1
        exact pageMatches_of_dispOK P1.inv P1.dispOK
      | succ k'' =>
        have hk' : k'' + 1 ≤ rest.length := by simpa using hk
        exact ih P1 hok.2 (k'' + 1) (by omega) hk' (by simpa using hvis)

/-- `painton_refines` for scripts with special characters -/
theorem painton_glyph_refines {ch : Channel} {v : Service} (I : IdleRel ch v) (hrow : ∀ c, v.disp ch.row c = none)
    {chan : Nat} (hchan : chan < 4) (ops : List GPOp) (hok : gpopsOk (v.exec .rdc) false ops) :
    pageMatches (rdcModel ch) (v.exec .rdc) ∧
    ∀ k, (hk0 : 0 < k) → (hk : k ≤ ops.length) → (ops[k - 1]'(by omega)).visible = true →
      pageMatches ((ops.take k).foldl (gPaintOpModel chan) (rdcModel ch)) ((ops.take k).foldl gPaintOpSpec (v.exec .rdc)) := by
  have P0 := rdc_step I hrow
  exact ⟨pageMatches_of_dispOK P0.inv P0.dispOK, gPaintOps_refine chan hchan ops P0 hok⟩

end Zvbi.Cc
