import ZvbiModel.Cc.Refine3
/-!
# Corrections inside a row (paint-on, roll-up and text mode), part 1: cell effects

`word_break` (solid spaces, then the copy of the CURRENT row to the displayed memory), Backspace, Tab Offset,
Delete to End of Row and Erase Displayed Memory, stated cell by cell on the two memories
(`hcell` = non-displayed / working memory, `dcell` = displayed memory).
-/
namespace Zvbi.Cc
open Zvbi.Gen.Cc

/-- `b` is `a` except for solid spaces in the current row of the working memory: a cell that changed was a
    transparent space and now holds a space glyph.  Scalars, event count and the displayed memory are the same. -/
structure SolidOnly (a b : Channel) : Prop where
  upd : Upd a b
  nev : b.nev = a.nev
  disp : ∀ r j, b.dcell r j = a.dcell r j
  cells : ∀ r j, j < 34 → b.hcell r j = a.hcell r j ∨
    (r = a.row ∧ ∃ c0 c, a.hcell r j = some c0 ∧ c0.opacity = opTransparentSpace ∧ b.hcell r j = some c ∧ c.unicode = 0x20)

theorem SolidOnly.refl (a : Channel) : SolidOnly a a := ⟨Upd.refl a, rfl, fun _ _ => rfl, fun _ _ _ => Or.inl rfl⟩

theorem SolidOnly.trans {a b c : Channel} (h1 : SolidOnly a b) (h2 : SolidOnly b c) : SolidOnly a c := by
  refine ⟨h1.upd.trans h2.upd, h2.nev.trans h1.nev, fun r j => (h2.disp r j).trans (h1.disp r j), ?_⟩
  intro r j hj
  rcases h2.cells r j hj with e2 | ⟨hr2, c0, c, e0, o0, e, u⟩
  · rcases h1.cells r j hj with e1 | ⟨hr1, c0, c, e0, o0, e, u⟩
    · exact Or.inl (e2.trans e1)
    · exact Or.inr ⟨hr1, c0, c, e0, o0, e2.trans e, u⟩
  · rcases h1.cells r j hj with e1 | ⟨hr1, d0, d, f0, p0, _, _⟩
    · exact Or.inr ⟨by rw [hr2, h1.upd.row], c0, c, e1 ▸ e0, o0, e, u⟩
    · exact Or.inr ⟨hr1, d0, c, f0, p0, e, u⟩

/-- one cell of the current row, a transparent space so far, becomes a space glyph -/
theorem solidOnly_wr {ch : Channel} (h : ChInv ch) {i : Nat} (hi : i < 34) {c0 : Cell} (c : Cell) (s : String)
    (e0 : rd ch i = some c0) (o0 : c0.opacity = opTransparentSpace) (hu : c.unicode = 0x20) :
    SolidOnly ch (wr ch i c s) := by
  refine ⟨wr_upd h (Nat.le_of_lt hi) c s, wr_nev h (Nat.le_of_lt hi) c s, fun r j => dcell_wr h (Nat.le_of_lt hi) c s r j, ?_⟩
  intro r j hj
  rw [hcell_wr h hi c s r j hj]
  by_cases hc : r = ch.row ∧ j = i
  · rw [if_pos hc]
    refine Or.inr ⟨hc.1, c0, c, ?_, o0, rfl, hu⟩
    rw [hc.1, hc.2, ← rd_eq_hcell h]; exact e0
  · rw [if_neg hc]; exact Or.inl rfl

/-- the solid-space phase of `word_break` (`word_break(cc, ch, 0)`) only turns transparent spaces of the current
    row into space glyphs -/
theorem wordBreak_false_solid {ch : Channel} (h : ChInv ch) : SolidOnly ch (wordBreak ch false) := by
  have hl := pg_len h ch.linePg
  have hoff := h.line_off
  have hrow := h.row_le
  have hc1 := h.col1_pos
  have hc := h.col_le
  have hcc := h.col1_le
  unfold wordBreak
  simp only [Bool.not_false, Bool.true_or, if_true]
  split
  · have hne : ch.col1 ≠ 0 := by omega
    simp only [hne, if_false]
    have r1 : ∃ c, rd ch ch.col1 = some c := by
      unfold rd; exact ⟨_, List.getElem?_eq_getElem (by rw [hl]; omega)⟩
    have r2 : ∃ c, rd ch (ch.col1 - 1) = some c := by
      unfold rd; exact ⟨_, List.getElem?_eq_getElem (by rw [hl]; omega)⟩
    obtain ⟨c1, e1⟩ := r1
    obtain ⟨c2, e2⟩ := r2
    simp only [e1, e2]
    have u1 : SolidOnly ch (if (!c1.isSpace && c2.opacity == opTransparentSpace) = true then
        wr ch (ch.col1 - 1) { c1 with unicode := 0x20 } "word_break: leading" else ch) := by
      split
      · rename_i hcond
        simp only [Bool.and_eq_true, beq_iff_eq] at hcond
        exact solidOnly_wr h (by omega) _ _ e2 hcond.2 rfl
      · exact SolidOnly.refl _
    generalize (if (!c1.isSpace && c2.opacity == opTransparentSpace) = true then
        wr ch (ch.col1 - 1) { c1 with unicode := 0x20 } "word_break: leading" else ch) = chA at u1 ⊢
    have hA := u1.upd.inv h
    have hlA := pg_len hA chA.linePg
    have r3 : ∃ c, rd chA (chA.col - 1) = some c := by
      unfold rd; refine ⟨_, List.getElem?_eq_getElem ?_⟩; rw [hlA, u1.upd.lineOff, u1.upd.col]; omega
    have r4 : ∃ c, rd chA chA.col = some c := by
      unfold rd; refine ⟨_, List.getElem?_eq_getElem ?_⟩; rw [hlA, u1.upd.lineOff, u1.upd.col]; omega
    obtain ⟨c3, e3⟩ := r3
    obtain ⟨c4, e4⟩ := r4
    simp only [e3, e4]
    split
    · rename_i hcond
      simp only [Bool.and_eq_true, beq_iff_eq] at hcond
      exact u1.trans (solidOnly_wr hA (by rw [u1.upd.col]; omega) _ _ e4 hcond.2 rfl)
    · exact u1
  · exact SolidOnly.refl _

/-- **word_break copies only the current row.**  Outside pop-on mode `word_break(cc, ch, 1)` is: the solid-space
    phase `w`, then the displayed memory receives row `ch.row` of the working memory and nothing else;
    one caption event. -/
theorem wordBreak_true_cells {ch : Channel} (h : ChInv ch) (hm : ch.mode ≠ .popOn) :
    (∀ r j, (wordBreak ch true).hcell r j = (wordBreak ch false).hcell r j) ∧
    (∀ r j, j < 34 → (wordBreak ch true).dcell r j =
      if r = ch.row then (wordBreak ch false).hcell r j else ch.dcell r j) ∧
    (wordBreak ch true).nev = ch.nev + 1 ∧ Upd ch (wordBreak ch true) := by
  have s := wordBreak_false_solid h
  have hw := s.upd.inv h
  have hmw : ((wordBreak ch false).mode == Mode.popOn) = false := by
    rw [s.upd.mode]; cases hmm : ch.mode <;> first | rfl | exact absurd hmm hm
  rw [wordBreak_true_eq, hmw]
  simp only [Bool.false_eq_true, if_false]
  have uc := update_cells hw
  have rc := renderCh_cells (update (wordBreak ch false)) true (wordBreak ch false).row
  refine ⟨fun r j => by rw [rc.1, uc.1], ?_, ?_, ?_⟩
  · intro r j hj
    rw [rc.2, uc.2 r j hj, s.upd.row, s.disp]
  · rw [renderCh_nev, update_nev', s.nev]
  · exact s.upd.trans ((update_upd hw).trans (renderCh_upd _ _ _))

/-- in pop-on mode nothing reaches the displayed memory -/
theorem wordBreak_true_popOn {ch : Channel} (h : ChInv ch) (hm : ch.mode = .popOn) :
    wordBreak ch true = wordBreak ch false := by
  have s := wordBreak_false_solid h
  have hmw : ((wordBreak ch false).mode == Mode.popOn) = true := by rw [s.upd.mode, hm]; rfl
  rw [wordBreak_true_eq, hmw]; rfl

/-! ## Backspace, Tab Offset -/

theorem hcell_withCols (x : Channel) (c c1 : Nat) (r j : Nat) :
    ({ x with col := c, col1 := c1 } : Channel).hcell r j = x.hcell r j := rfl

/-- **Backspace** with the cursor right of column 1: the cell left of the cursor becomes a transparent space, the
    cursor moves there (`col1` follows if it was to the right); nothing else changes, nothing is displayed yet. -/
theorem backspace_cells {ch : Channel} (h : ChInv ch) (chan : Nat) (hm : ch.mode ≠ .none) (hc : 1 < ch.col) :
    (backspace ch chan).col = ch.col - 1 ∧ (backspace ch chan).col1 = min ch.col1 (ch.col - 1) ∧
    (backspace ch chan).row = ch.row ∧ (backspace ch chan).nev = ch.nev ∧
    (backspace ch chan).mode = ch.mode ∧ (backspace ch chan).attr = ch.attr ∧ (backspace ch chan).hidden = ch.hidden ∧
    (∀ r j, j < 34 → (backspace ch chan).hcell r j =
      if r = ch.row ∧ j = ch.col - 1 then some (transpSpace (decide (4 ≤ chan))) else ch.hcell r j) ∧
    (∀ r j, (backspace ch chan).dcell r j = ch.dcell r j) := by
  have hcol := h.col_le
  have u := wr_upd h (i := ch.col - 1) (by omega) (transpSpace (decide (4 ≤ chan))) "backspace"
  have hn := wr_nev h (i := ch.col - 1) (by omega) (transpSpace (decide (4 ≤ chan))) "backspace"
  have hh := hcell_wr h (i := ch.col - 1) (by omega) (transpSpace (decide (4 ≤ chan))) "backspace"
  have hd := dcell_wr h (i := ch.col - 1) (by omega) (transpSpace (decide (4 ≤ chan))) "backspace"
  have hmode : (ch.mode != Mode.none && decide (ch.col > 1)) = true := by
    simp only [Bool.and_eq_true, decide_eq_true_eq]
    exact ⟨by cases hmm : ch.mode <;> first | rfl | exact absurd hmm hm, hc⟩
  unfold backspace
  rw [if_pos hmode]
  simp only []
  split
  · rename_i hlt
    simp only [u.col1] at hlt
    refine ⟨rfl, ?_, u.row, hn, u.mode, u.attr, u.hidden, fun r j hj => hh r j hj, hd⟩
    show ch.col - 1 = min ch.col1 (ch.col - 1)
    omega
  · rename_i hge
    simp only [u.col1] at hge
    refine ⟨rfl, ?_, u.row, hn, u.mode, u.attr, u.hidden, fun r j hj => hh r j hj, hd⟩
    show (wr ch (ch.col - 1) _ _).col1 = _
    rw [u.col1]; omega

-- Tab Offset / PAC indent: `tabFill_cells` (Refine3) and `tabFill_spec` (Lemmas3)

/-! ## Delete to End of Row -/

/-- **Delete to End of Row** (any mode but "none"): with `x` = the row cleared from the cursor on,
    the working memory is `x` up to solid spaces; outside pop-on mode the displayed memory receives the current
    row of the working memory (and only that row) and one event is raised. -/
theorem deleteToEnd_cells {ch : Channel} (h : ChInv ch) (chan : Nat) (hm : ch.mode ≠ .none) :
    let x := fill ch ch.col (34 - ch.col) (transpSpace (decide (4 ≤ chan))) "der"
    (∀ r j, j < 34 → x.hcell r j =
      if r = ch.row ∧ ch.col ≤ j then some (transpSpace (decide (4 ≤ chan))) else ch.hcell r j) ∧
    SolidOnly x (wordBreak x false) ∧
    (∀ r j, (deleteToEnd ch chan).hcell r j = (wordBreak x false).hcell r j) ∧
    (ch.mode ≠ .popOn → (∀ r j, j < 34 → (deleteToEnd ch chan).dcell r j =
        if r = ch.row then (deleteToEnd ch chan).hcell r j else ch.dcell r j) ∧
      (deleteToEnd ch chan).nev = ch.nev + 1) ∧
    (ch.mode = .popOn → (∀ r j, (deleteToEnd ch chan).dcell r j = ch.dcell r j) ∧
      (deleteToEnd ch chan).nev = ch.nev) ∧
    Upd ch (deleteToEnd ch chan) := by
  intro x
  have hc := h.col_le
  have hsum : ch.col + (34 - ch.col) = 34 := by omega
  have ux : Upd ch x := fill_upd h (a := ch.col) (n := 34 - ch.col) (by omega) _ _
  have hx : ChInv x := ux.inv h
  have hxc : ∀ r j, j < 34 → x.hcell r j =
      if r = ch.row ∧ ch.col ≤ j then some (transpSpace (decide (4 ≤ chan))) else ch.hcell r j := by
    intro r j hj
    have := hcell_fill h (a := ch.col) (n := 34 - ch.col) (by omega) (transpSpace (decide (4 ≤ chan))) "der" r j hj
    rw [this]
    by_cases hcnd : r = ch.row ∧ ch.col ≤ j
    · rw [if_pos hcnd, if_pos ⟨hcnd.1, hcnd.2, by omega⟩]
    · rw [if_neg hcnd, if_neg (fun hh => hcnd ⟨hh.1, hh.2.1⟩)]
  have hxd : ∀ r j, x.dcell r j = ch.dcell r j :=
    fun r j => dcell_fill h (a := ch.col) (n := 34 - ch.col) (by omega) _ _ r j
  have s := wordBreak_false_solid hx
  have hw := s.upd.inv hx
  have hmn : (ch.mode == Mode.none) = false := by cases hmm : ch.mode <;> first | rfl | exact absurd hmm hm
  have e : deleteToEnd ch chan =
      if ((wordBreak x false).mode != Mode.popOn) = true then
        renderCh (update (wordBreak x false)) (!(wordBreak x false).hidden) (wordBreak x false).row
      else wordBreak x false := by
    unfold deleteToEnd
    rw [hmn]
    simp only [Bool.false_eq_true, if_false, columns_eq]
    rfl
  have hmw : (wordBreak x false).mode = ch.mode := by rw [s.upd.mode, ux.mode]
  refine ⟨hxc, s, ?_, ?_, ?_, ?_⟩
  · intro r j
    rw [e]
    split
    · rw [(renderCh_cells _ _ _).1, (update_cells hw).1]
    · rfl
  · intro hpm
    have hne : ((wordBreak x false).mode != Mode.popOn) = true := by
      rw [hmw]; cases hmm : ch.mode <;> first | rfl | exact absurd hmm hpm
    rw [e, if_pos hne]
    refine ⟨fun r j hj => ?_, ?_⟩
    · rw [(renderCh_cells _ _ _).2, (update_cells hw).2 r j hj, (renderCh_cells _ _ _).1, (update_cells hw).1,
        s.upd.row, ux.row, s.disp, hxd]
    · rw [renderCh_nev, update_nev', s.nev, fill_nev']
  · intro hpm
    have hne : ((wordBreak x false).mode != Mode.popOn) = false := by rw [hmw, hpm]; rfl
    rw [e, hne]
    simp only [Bool.false_eq_true, if_false]
    exact ⟨fun r j => by rw [s.disp, hxd], by rw [s.nev, fill_nev']⟩
  · rw [e]
    split
    · exact ux.trans (s.upd.trans ((update_upd hw).trans (renderCh_upd _ _ _)))
    · exact ux.trans s.upd

/-! ## Erase Displayed Memory: nothing written before survives -/

/-- two channels that differ at most in the 15 x 34 caption cells of their two memories -/
structure SameButCells (a b : Channel) : Prop where
  idx : b.idx = a.idx
  mode : b.mode = a.mode
  col : b.col = a.col
  col1 : b.col1 = a.col1
  row : b.row = a.row
  row1 : b.row1 = a.row1
  roll : b.roll = a.roll
  nulCt : b.nulCt = a.nulCt
  attr : b.attr = a.attr
  linePg : b.linePg = a.linePg
  lineOff : b.lineOff = a.lineOff
  hidden : b.hidden = a.hidden
  nev : b.nev = a.nev
  err : b.err = a.err
  tail0 : b.pg0.text.drop 510 = a.pg0.text.drop 510
  tail1 : b.pg1.text.drop 510 = a.pg1.text.drop 510
  len0 : b.pg0.text.length = a.pg0.text.length
  len1 : b.pg1.text.length = a.pg1.text.length
  dirty0 : b.pg0.y0 = a.pg0.y0 ∧ b.pg0.y1 = a.pg0.y1 ∧ b.pg0.roll = a.pg0.roll
  dirty1 : b.pg1.y0 = a.pg1.y0 ∧ b.pg1.y1 = a.pg1.y1 ∧ b.pg1.roll = a.pg1.roll

theorem fillList_zero_eq {l l' : List Cell} (n : Nat) (c : Cell) (h : l'.drop n = l.drop n) :
    fillList l' 0 n c = fillList l 0 n c := by
  unfold fillList
  simp [h]

/-- `erase_memory` forgets the 510 cells it overwrites -/
theorem eraseMemory_forgets {a b : Channel} (b' : Bool) (hl : (a.pg b').text.length = 1056)
    (hl' : (b.pg b').text.length = 1056) (ht : (b.pg b').text.drop 510 = (a.pg b').text.drop 510) (hts : b.ts = a.ts) :
    (eraseMemory b b').pg b' = (eraseMemory a b').pg b' := by
  unfold eraseMemory
  simp only [hl, hl', rows_eq, columns_eq]
  have hle : 15 * 34 ≤ 1056 := by decide
  rw [if_pos hle, if_pos hle, pg_setPg_same, pg_setPg_same, hts, fillList_zero_eq (15 * 34) _ ht]

end Zvbi.Cc

namespace Zvbi.Cc
open Zvbi.Gen.Cc

/-- closed form of Erase Displayed Memory outside pop-on mode: both memories blank, the working memory marked
    "erased" (`roll = ROWS`), the displayed one "cleared" (`roll = -ROWS`), one event; everything else unchanged -/
theorem eraseDisplayed_closed {ch : Channel} (h : ChInv ch) (hm : ch.mode ≠ .popOn) :
    eraseDisplayed ch =
      { ch with
        pg0 := { text := fillList ch.pg0.text 0 510 ch.ts, y0 := 0, y1 := 14, roll := if ch.hidden then -15 else 15 },
        pg1 := { text := fillList ch.pg1.text 0 510 ch.ts, y0 := 0, y1 := 14, roll := if ch.hidden then 15 else -15 },
        nev := ch.nev + 1 } := by
  have l0 := h.len0
  have l1 := h.len1
  have hmb : (ch.mode != Mode.popOn) = true := by cases hmm : ch.mode <;> first | rfl | exact absurd hmm hm
  unfold eraseDisplayed
  rw [hmb]
  cases hh : ch.hidden <;>
    simp [eraseMemory, Channel.setPg, Channel.pg, Channel.event, Page.clear, Channel.ts, hh, l0, l1, fillList_length]

/-- **the hidden working copy rule.**  Two channels that differ only in the caption cells of their two memories
    (whatever was written there) are EQUAL after Erase Displayed Memory in a mode other than pop-on. -/
theorem eraseDisplayed_forgets {a b : Channel} (ha : ChInv a) (hb : ChInv b) (s : SameButCells a b)
    (hm : a.mode ≠ .popOn) : eraseDisplayed b = eraseDisplayed a := by
  rw [eraseDisplayed_closed ha hm, eraseDisplayed_closed hb (by rw [s.mode]; exact hm)]
  have hts : b.ts = a.ts := ts_of_idx s.idx
  rw [hts, fillList_zero_eq 510 _ s.tail0, fillList_zero_eq 510 _ s.tail1, s.hidden, s.nev]
  obtain ⟨i1, m1, c1, d1, r1, e1, f1, n1, a1, lp1, lo1, hd1, p01, p11, nv1, er1⟩ := a
  obtain ⟨i2, m2, c2, d2, r2, e2, f2, n2, a2, lp2, lo2, hd2, p02, p12, nv2, er2⟩ := b
  have := s.idx; have := s.mode; have := s.col; have := s.col1; have := s.row; have := s.row1; have := s.roll
  have := s.nulCt; have := s.attr; have := s.linePg; have := s.lineOff; have := s.hidden; have := s.err
  simp_all

end Zvbi.Cc
