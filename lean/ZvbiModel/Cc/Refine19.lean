import ZvbiModel.Cc.Refine15
import ZvbiModel.Cc.Refine3
import ZvbiModel.Cc.Lemmas7
/-!
# Mid-row codes (0x11 / 0x19 0x20..0x2F) inside a row: one step of the row simulation

libzvbi's `midRow` = new pen, then `put_char` of a space with that pen; the reference's `exec (.midRow k u)` = new pen,
then `putChar 0x20`.  With the repair of finding F46 (`midrowItalicsKeepsColour`, generated) the two pens agree for every
code and every old pen (`midrow_pen_matches`), and the step is `putChar_sim_glyph` for the glyph 0x20.
-/
namespace Zvbi.Cc
open Zvbi.Gen.Cc Eia608

theorem withSpace_isSpace (a : Cell) : ({ a with unicode := 0x20 } : Cell).isSpace = true := by
  show ((0x20 : Nat) &&& 0x7F == 0x20) = true
  decide

/-- the channel `midRow` hands to `put_char`: everything as before, pen = `midRowPen` -/
theorem midRow_eq (ch : Channel) (c2 : Nat) :
    midRow ch c2 = putChar { ch with attr := midRowPen ch.attr c2 } { midRowPen ch.attr c2 with unicode := 0x20 } := by
  unfold midRow putCharSpace setColourMid midRowPen
  repeat' split
  all_goals rfl

/-- the pens agree after a mid-row code, whatever the pen was before (needs the F46 repair for the italics code) -/
theorem midrow_pen_matches (hk : midrowItalicsKeepsColour = true) (a : Cell) (v : Service) (hp : penMatches a v.pen) (c2 : Nat) :
    penMatches (midRowPen a c2) (v.pen' ((c2 >>> 1) &&& 7) (c2 &&& 1 == 1) false) := by
  obtain ⟨h1, h2, h3, h4, h5, h6⟩ := hp
  have hpal : ∀ k < 7, palette k = Eia608.colourOfCode k := by decide
  have hu : (c2 &&& 1 != 0) = (c2 &&& 1 == 1) := by
    have : c2 &&& 1 = 0 ∨ c2 &&& 1 = 1 := by have : c2 &&& 1 ≤ 1 := Nat.and_le_right; omega
    rcases this with e | e <;> rw [e] <;> rfl
  have hlt : (c2 >>> 1) &&& 7 ≤ 7 := Nat.and_le_right
  unfold midRowPen Service.pen' penMatches
  by_cases h7 : (c2 >>> 1) &&& 7 < 7
  · have hne : ¬ ((c2 >>> 1) &&& 7 = 7) := by omega
    rw [if_pos h7, if_neg hne]
    exact ⟨hu, rfl, rfl, hpal _ h7, h5, by simpa [opaqueOf] using h6⟩
  · have he : (c2 >>> 1) &&& 7 = 7 := by omega
    rw [if_neg h7, if_pos hk, if_pos he]
    exact ⟨hu, rfl, rfl, h4, h5, by simpa [opaqueOf] using h6⟩

/-- **one mid-row code in both models** (any mode) -/
theorem midrow_sim (hk : midrowItalicsKeepsColour = true) {ch : Channel} {v : Service} (h : ChInv ch) {lead : Bool} {c0 : Nat}
    {xs : List SCell} (Q : RowSim ch v lead c0 xs) (c2 : Nat) (hroom : c0 + xs.length ≤ 32) :
    let p : Pen := v.pen' ((c2 >>> 1) &&& 7) (c2 &&& 1 == 1) false
    let x : SCell := { ch := 0x20, pen := p }
    let v' : Service := v.exec (.midRow ((c2 >>> 1) &&& 7) (c2 &&& 1 == 1))
    RowSim (midRow ch c2) v' (!(((xs ++ [x]).map toCell).getD 0 default).isSpace) c0 (xs ++ [x]) ∧
    v'.pen = p ∧
    (∀ r cc, r ≠ v.row → v'.target r cc = v.target r cc) ∧
    ChInv (midRow ch c2) ∧
    (if ch.mode ≠ .popOn then
      (midRow ch c2).nev = ch.nev + 1 ∧
      ∀ r j, j < 34 → (midRow ch c2).dcell r j = if r = ch.row then (midRow ch c2).hcell r j else ch.dcell r j
     else (midRow ch c2).nev = ch.nev ∧ ∀ r j, j < 34 → (midRow ch c2).dcell r j = ch.dcell r j) := by
  intro p x v'
  let ch1 : Channel := { ch with attr := midRowPen ch.attr c2 }
  let v1 : Service := { v with pen := p }
  have h1 : ChInv ch1 := h.withAttr _
  have Q1 : RowSim ch1 v1 lead c0 xs :=
    ⟨RowIs.transfer Q.R rfl rfl rfl (fun _ _ => rfl), Q.S, Q.vrow, Q.vcol, midrow_pen_matches hk ch.attr v Q.pen c2, Q.vmode⟩
  have hv : v' = v1.putChar 0x20 := by
    show v.exec (.midRow ((c2 >>> 1) &&& 7) (c2 &&& 1 == 1)) = _
    unfold Service.exec
    simp only []
    split
    · rename_i hn; exact absurd hn Q.vmode
    · rfl
  have hsp : ({ midRowPen ch.attr c2 with unicode := 0x20 } : Cell).isSpace = true := withSpace_isSpace _
  obtain ⟨_, R, O, I, _, side⟩ := putChar_sim_glyph h1 Q1 0x20 hroom
  obtain ⟨_, _, s3, _, _⟩ := spec_putChar_step v1 0x20 Q.vmode (by
    have := Q.vcol; have := Q.R.col; have : (xs.map toCell).length = xs.length := List.length_map _
    show v.col ≤ 32; omega)
  rw [midRow_eq, hv]
  have e1 : (({ ch1.attr with unicode := 0x20 } : Cell).isSpace) = true := hsp
  simp only [e1, if_true, true_and] at R side
  refine ⟨R, s3, O, I, ?_⟩
  exact side

end Zvbi.Cc
