import ZvbiModel.Cc.Refine6
/-!
# Refinement to `Eia608`, part 7: whole roll-up scripts  `RUn (PAC)? (text | CR)*`
-/
namespace Zvbi.Cc
open Zvbi.Gen.Cc Eia608

/-- what follows RUx [PAC] in a roll-up script: runs of text and carriage returns -/
inductive ROp
  | text (cs : List Nat)
  | cr

def rollOpModel (chan : Nat) (ch : Channel) : ROp → Channel
  | .text cs => charRun ch cs
  | .cr => carriageReturn ch chan

def rollOpSpec (v : Service) : ROp → Service
  | .text cs => specRun v cs
  | .cr => v.exec .cr

/-- well-formed op, judged on the reference state: characters 0x20..0x7F that fit into the row -/
def ROp.ok (v : Service) : ROp → Prop
  | .text cs => cs ≠ [] ∧ (∀ ci ∈ cs, isCharCode ci = true) ∧ v.col + cs.length ≤ 33
  | .cr => True

/-- is the display up to date after this op?  (completed word, or carriage return) -/
def ROp.visible : ROp → Bool
  | .text cs => endsSpace cs
  | .cr => true

def ropsOk : Service → List ROp → Prop
  | _, [] => True
  | v, op :: rest => op.ok v ∧ ropsOk (rollOpSpec v op) rest

theorem rollOp_step {ch : Channel} {v : Service} {n : Nat} {s : Bool} (R : RollRel ch v n s) {chan : Nat}
    (hchan : chan < 4) (op : ROp) (hok : op.ok v) :
    RollRel (rollOpModel chan ch op) (rollOpSpec v op) n op.visible := by
  cases op with
  | text cs => exact text_roll R cs hok.1 hok.2.1 hok.2.2
  | cr => exact cr_step R hchan

/-- after every prefix of the ops whose last op is a visibility point, the fetched page is the reference page -/
theorem rollOps_refine (chan : Nat) (hchan : chan < 4) (n : Nat) (ops : List ROp) :
    ∀ {ch : Channel} {v : Service} {s : Bool}, RollRel ch v n s → ropsOk v ops →
    ∀ k, (hk0 : 0 < k) → (hk : k ≤ ops.length) → (ops[k - 1]'(by omega)).visible = true →
      pageMatches ((ops.take k).foldl (rollOpModel chan) ch) ((ops.take k).foldl rollOpSpec v) := by
  induction ops with
  | nil => intro ch v s _ _ k hk0 hk; simp at hk; omega
  | cons op rest ih =>
    intro ch v s R hok k hk0 hk hvis
    have R1 := rollOp_step R hchan op hok.1
    cases k with
    | zero => omega
    | succ k' =>
      simp only [List.take_succ_cons, List.foldl_cons]
      cases k' with
      | zero =>
        simp only [List.take_zero, List.foldl_nil]
        have hv : op.visible = true := by simpa using hvis
        rw [hv] at R1
        exact pageMatches_of_dispOK R1.inv R1.dispOK
      | succ k'' =>
        have hk' : k'' + 1 ≤ rest.length := by simpa using hk
        exact ih R1 hok.2 (k'' + 1) (by omega) hk' (by simpa using hvis)

/-- a roll-up script: `RUn`, an optional PAC, then text runs and carriage returns -/
structure RollScript where
  n : Nat
  pac : Option (Nat × Nat)
  ops : List ROp

def RollScript.startModel (chan : Nat) (ch : Channel) (sc : RollScript) : Channel :=
  match sc.pac with
  | some (c1, c2) => Zvbi.Cc.pac (ruModel ch sc.n) chan c1 c2
  | none => ruModel ch sc.n

def RollScript.startSpec (v : Service) (sc : RollScript) : Service :=
  match sc.pac with
  | some (c1, c2) =>
    match pacArgs c1 c2 with
    | some (r, ind, col, u) => (v.exec (.ru sc.n)).exec (.pac r ind col u)
    | none => v.exec (.ru sc.n)
  | none => v.exec (.ru sc.n)

def RollScript.ok (v : Service) (sc : RollScript) : Prop :=
  2 ≤ sc.n ∧ sc.n ≤ 4 ∧
  (∀ c1 c2, sc.pac = some (c1, c2) → c1 < 8 ∧ c2 < 128 ∧ 0x40 ≤ c2 ∧ (pacArgs c1 c2).isSome) ∧
  ropsOk (sc.startSpec v) sc.ops

/-- **roll-up refinement, channel level.**  From an idle or fresh channel, a well-formed roll-up script
    `RUn [PAC] (text | CR)*`: right after `RUn [PAC]`, after every run of text that ends with a space and after
    every carriage return, the fetched page equals the reference display memory, cell for cell. -/
theorem rollup_refines {ch : Channel} {v : Service} (I : IdleRel ch v) {chan : Nat} (hchan : chan < 4) (sc : RollScript)
    (hok : sc.ok v) :
    pageMatches (sc.startModel chan ch) (sc.startSpec v) ∧
    ∀ k, (hk0 : 0 < k) → (hk : k ≤ sc.ops.length) → (sc.ops[k - 1]'(by omega)).visible = true →
      pageMatches ((sc.ops.take k).foldl (rollOpModel chan) (sc.startModel chan ch))
        ((sc.ops.take k).foldl rollOpSpec (sc.startSpec v)) := by
  obtain ⟨h2, h4, hp, hops⟩ := hok
  obtain ⟨R0, B0⟩ := ru_step I h2 h4
  have start : RollRel (sc.startModel chan ch) (sc.startSpec v) sc.n true := by
    unfold RollScript.startModel RollScript.startSpec
    cases hpac : sc.pac with
    | none => exact R0
    | some p =>
      obtain ⟨c1, c2⟩ := p
      obtain ⟨a1, a2, a3, a4⟩ := hp c1 c2 hpac
      cases ha : pacArgs c1 c2 with
      | none => rw [ha] at a4; cases a4
      | some a =>
        obtain ⟨r, ind, col, u⟩ := a
        simp only [ha]
        exact (pac_roll R0 B0 hchan a1 a2 a3 ha).1
  exact ⟨pageMatches_of_dispOK start.inv start.dispOK, rollOps_refine chan hchan sc.n sc.ops start hops⟩

end Zvbi.Cc
