import ZvbiModel.Cc.Lemmas5
/-!
# Roll-up: what a carriage return does to the displayed window
-/
namespace Zvbi.Cc
open Zvbi.Gen.Cc

theorem blit_get (d s : List Cell) (dOff sOff n i : Nat) (hd : dOff + n ≤ d.length) (hs : sOff + n ≤ s.length) :
    (blit d s dOff sOff n)[i]? = if dOff ≤ i ∧ i < dOff + n then s[sOff + (i - dOff)]? else d[i]? := by
  unfold blit
  by_cases h1 : i < dOff
  · have : ¬ (dOff ≤ i ∧ i < dOff + n) := by omega
    rw [if_neg this, List.append_assoc, List.getElem?_append_left (by simp; omega)]
    simp [List.getElem?_take, h1]
  · by_cases h2 : i < dOff + n
    · have : dOff ≤ i ∧ i < dOff + n := by omega
      rw [if_pos this, List.append_assoc, List.getElem?_append_right (by simp; omega)]
      have hl : (List.take dOff d).length = dOff := by simp; omega
      rw [hl, List.getElem?_append_left (by simp; omega)]
      simp [List.getElem?_take, List.getElem?_drop]
      omega
    · have : ¬ (dOff ≤ i ∧ i < dOff + n) := by omega
      rw [if_neg this, List.getElem?_append_right (by simp; omega)]
      simp [List.getElem?_drop]
      have : min dOff d.length = dOff := by omega
      have : min n (s.length - sOff) = n := by omega
      congr 1
      omega

theorem fillList_get (l : List Cell) (a n : Nat) (c : Cell) (i : Nat) (h : a + n ≤ l.length) :
    (fillList l a n c)[i]? = if a ≤ i ∧ i < a + n then some c else l[i]? := by
  unfold fillList
  by_cases h1 : i < a
  · have : ¬ (a ≤ i ∧ i < a + n) := by omega
    rw [if_neg this, List.append_assoc, List.getElem?_append_left (by simp; omega)]
    simp [List.getElem?_take, h1]
  · by_cases h2 : i < a + n
    · have : a ≤ i ∧ i < a + n := by omega
      rw [if_pos this, List.append_assoc, List.getElem?_append_right (by simp; omega)]
      have hl : (List.take a l).length = a := by simp; omega
      rw [hl, List.getElem?_append_left (by simp; omega)]
      simp [List.getElem?_replicate]
      omega
    · have : ¬ (a ≤ i ∧ i < a + n) := by omega
      rw [if_neg this, List.getElem?_append_right (by simp; omega)]
      simp [List.getElem?_drop]
      have : min a l.length = a := by omega
      congr 1
      omega


theorem update_pg {ch : Channel} (h : ChInv ch) :
    ((update ch).pg (!ch.hidden)).text = blit (ch.pg (!ch.hidden)).text (ch.pg ch.hidden).text ch.lineOff ch.lineOff 34 ∧
    (update ch).pg ch.hidden = ch.pg ch.hidden := by
  have hl := pg_len h
  have : ch.lineOff + 34 ≤ 1056 := by have := h.line_off; have := h.row_le; omega
  unfold update
  simp only [h.line_pg, bne_self_eq_false, Bool.false_eq_true, if_false, hl, columns_eq, this, and_self, if_true]
  constructor
  · rw [pg_setPg_same]
  · have := pg_setPg_other ch (!ch.hidden) { ch.pg (!ch.hidden) with
        text := blit (ch.pg (!ch.hidden)).text (ch.pg ch.hidden).text ch.lineOff ch.lineOff 34 }
    simpa using this

theorem fill_pg {ch : Channel} (h : ChInv ch) {a n : Nat} (hi : a + n ≤ 35) (c : Cell) (s : String) :
    ((fill ch a n c s).pg ch.hidden).text = fillList (ch.pg ch.hidden).text (ch.lineOff + a) n c ∧
    (fill ch a n c s).pg (!ch.hidden) = ch.pg (!ch.hidden) := by
  have hl := pg_len h ch.linePg
  have hlt : ch.lineOff + a + n ≤ 1056 := by have := h.line_off; have := h.row_le; omega
  unfold fill
  simp only [hl, hlt, if_true]
  rw [h.line_pg]
  exact ⟨by rw [pg_setPg_same], pg_setPg_other _ _ _⟩

theorem crMove_pg {x : Channel} (h : ChInv x) (b : Bool) :
    ((crMove x b).pg b).text = blit (x.pg b).text (x.pg b).text (x.row1 * 34) (x.row1 * 34 + 34) ((x.roll - 1) * 34) ∧
    (crMove x b).pg (!b) = x.pg (!b) := by
  have hl := pg_len h b
  have hw := h.win
  have hr := h.roll_pos
  unfold crMove
  simp only [columns_eq, hl]
  have : x.row1 * 34 + 34 + (x.roll - 1) * 34 ≤ 1056 := by omega
  rw [if_pos this]
  exact ⟨by rw [pg_setPg_same], pg_setPg_other _ _ _⟩

theorem take_get (l : List Cell) (n i : Nat) (h : i < n) : (l.take n)[i]? = l[i]? := by
  simp [List.getElem?_take, h]

/-- **rollup_window.**  Carriage return in roll-up mode with the cursor on the base row: with `x` the
    channel after the closing word break and row update, in the displayed memory the base row becomes
    blank, every window row above it receives the row below it, and all rows outside the window keep
    their content; the cursor returns to column 1 of the base row and an event is raised. -/
theorem carriageReturn_rollup {ch : Channel} (h : ChInv ch) (chan : Nat) (hm : ch.mode = .rollUp)
    (hb : ch.row + 1 = ch.row1 + ch.roll) :
    (carriageReturn ch chan).col = 1 ∧ (carriageReturn ch chan).col1 = 1 ∧
    (carriageReturn ch chan).row = ch.row ∧ (carriageReturn ch chan).hidden = ch.hidden ∧
    ch.nev < (carriageReturn ch chan).nev ∧
    ∀ i, i < 510 → (carriageReturn ch chan).displayed[i]? =
      if ch.row * 34 ≤ i ∧ i < ch.row * 34 + 34 then some (transpSpace (decide (4 ≤ chan)))
      else if ch.row1 * 34 ≤ i ∧ i < ch.row * 34 then (update (wordBreak ch true)).displayed[i + 34]?
      else (update (wordBreak ch true)).displayed[i]? := by
  have hroll := h.roll_pos
  have hwin := h.win
  have hrow := h.row_le
  have hne : ch.mode ≠ .popOn := by rw [hm]; decide
  have hev := carriageReturn_ev h chan (Or.inl hne)
  have hmn : (ch.mode == .none) = false := by rw [hm]; rfl
  have hr0 : ch.roll ≠ 0 := by omega
  have hlast : min (ch.row1 + ch.roll - 1) (15 - 1) = ch.row := by omega
  have hnlt : ¬ ch.row < ch.row := by omega
  have hbb : (ch.hidden != (ch.mode != .popOn)) = !ch.hidden := by rw [hm]; cases ch.hidden <;> rfl
  have es : crSync ch = update (wordBreak ch true) := by
    unfold crSync
    have : (crPopOnNoUpdate && ch.mode == .popOn) = false := by rw [hm]; simp
    rw [this]; rfl
  have e : carriageReturn ch chan =
      crFinish (crClear (crMove (update (wordBreak ch true)) (!ch.hidden)) chan) ch.row := by
    unfold carriageReturn
    simp only [hmn, Bool.false_eq_true, if_false, hr0, rows_eq, hlast, hnlt, hbb, es]
  rw [e] at hev ⊢
  have hW := (wordBreak_upd h true).inv h
  have u1 := (wordBreak_upd h true).trans (update_upd hW)
  have n1 : ch.nev ≤ (update (wordBreak ch true)).nev := by rw [update_nev']; exact (wordBreak_ev h true).mono
  generalize update (wordBreak ch true) = x at u1 n1 hev ⊢
  have hx := u1.inv h
  have u2 := crMove_upd hx (!ch.hidden)
  have p2 := crMove_pg hx (!ch.hidden)
  have n2 := crMove_nev x (!ch.hidden)
  generalize crMove x (!ch.hidden) = y at u2 p2 n2 hev ⊢
  have hy := u2.inv hx
  have u3 := crClear_upd hy chan
  have p3 := fill_pg hy (a := 0) (n := 34 + 1) (by omega) (transpSpace (decide (4 ≤ chan))) "cr: clear line[0..COLUMNS]"
  have e3 : crClear y chan = fill y 0 (34 + 1) (transpSpace (decide (4 ≤ chan))) "cr: clear line[0..COLUMNS]" := rfl
  rw [← e3] at p3
  have n3 : (crClear y chan).nev = y.nev := fill_nev' _ _ _ _ _
  generalize crClear y chan = z at u3 p3 n3 hev ⊢
  have hz := u3.inv hy
  have u := (u1.trans u2).trans u3
  have hzm : (z.mode != .popOn) = true := by rw [u.mode]; simpa using hne
  have p4 := update_pg hz
  have uu := update_upd hz
  -- the result
  have hfin : crFinish z ch.row = { ((update z).setPg (!(update z).hidden)
      (((update z).pg (!(update z).hidden)).rollUp (update z).row1 ch.row)).event with col1 := 1, col := 1 } := by
    unfold crFinish; simp only [hzm, if_true]
  have hhid : (crFinish z ch.row).hidden = ch.hidden := by
    rw [hfin]
    show ((update z).setPg _ _).hidden = _
    rw [(setPg_upd _ _ _ (by unfold Page.rollUp; split <;> rfl)).hidden, uu.hidden, u.hidden]
  have hrw : (crFinish z ch.row).row = ch.row := by
    rw [hfin]
    show ((update z).setPg _ _).row = _
    rw [(setPg_upd _ _ _ (by unfold Page.rollUp; split <;> rfl)).row, uu.row, u.row]
  refine ⟨by rw [hfin], by rw [hfin], hrw, hhid, ?_, ?_⟩
  · rw [crFinish_nev z ch.row (by rw [u.mode]; exact hne), n3, n2]
    omega
  · intro i hi
    have hdisp : (crFinish z ch.row).displayed = ((update z).pg (!z.hidden)).text.take (rows * columns) := by
      unfold Channel.displayed
      rw [hhid, hfin]
      show ((((update z).setPg (!(update z).hidden) _).event).pg (!ch.hidden)).text.take _ = _
      rw [event_pg, uu.hidden, u.hidden, pg_setPg_same]
      unfold Page.rollUp; split <;> rfl
    rw [hdisp, take_get _ _ _ (by simpa using hi), p4.1]
    have hzh : z.hidden = ch.hidden := u.hidden
    have hyh : y.hidden = ch.hidden := (u1.trans u2).hidden
    have hxh : x.hidden = ch.hidden := u1.hidden
    have hzo : z.lineOff = ch.row * 34 := by rw [u.lineOff]; exact h.line_off
    have hyo : y.lineOff = ch.row * 34 := by rw [(u1.trans u2).lineOff]; exact h.line_off
    have hlz := pg_len hz
    have hly := pg_len hy
    have hlx := pg_len hx
    rw [blit_get _ _ _ _ _ _ (by rw [hlz, hzo]; omega) (by rw [hlz, hzo]; omega)]
    rw [hzo]
    by_cases hbase : ch.row * 34 ≤ i ∧ i < ch.row * 34 + 34
    · rw [if_pos hbase, if_pos hbase]
      have : ch.row * 34 + (i - ch.row * 34) = i := by omega
      rw [this, hzh, ← hyh, p3.1, fillList_get _ _ _ _ _ (by rw [hly, hyo]; omega), hyo]
      rw [if_pos (by omega)]
    · rw [if_neg hbase, if_neg hbase]
      rw [hzh, ← hyh, p3.2, hyh, p2.1, u1.row1, u1.roll]
      rw [blit_get _ _ _ _ _ _ (by rw [hlx]; omega) (by rw [hlx]; omega)]
      have hab : ch.row1 * 34 + (ch.roll - 1) * 34 = ch.row * 34 := by
        have : ch.row1 + (ch.roll - 1) = ch.row := by omega
        rw [← this]; omega
      rw [hab]
      unfold Channel.displayed
      rw [hxh]
      by_cases hwn : ch.row1 * 34 ≤ i ∧ i < ch.row * 34
      · rw [if_pos hwn, if_pos hwn, take_get _ _ _ (by simp; omega)]
        congr 1
        omega
      · rw [if_neg hwn, if_neg hwn, take_get _ _ _ (by simpa using hi)]


/-! ## mid-row codes: the pen -/

theorem putChar_attr {ch : Channel} (h : ChInv ch) (c : Cell) : (putChar ch c).attr = ch.attr := by
  have key : ∀ x : Channel, ChInv x → x.attr = ch.attr → (if c.isSpace then wordBreak x true else x).attr = ch.attr := by
    intro x hx e; split
    · rw [(wordBreak_upd hx true).attr, e]
    · exact e
  unfold putChar
  simp only [columns_eq]
  by_cases hlt : ch.col < 34 - 1
  · have u := wr_upd h (i := ch.col) (by have := h.col_le; omega) c "put_char"
    have hx := u.inv h
    have hx' := hx.withCols (c := ch.col + 1) (c1 := ch.col1) h.col1_pos (by have := h.col1_le; omega) (by omega)
    have := key { wr ch ch.col c "put_char" with col := ch.col + 1 } (by simpa [u.col1] using hx') u.attr
    simpa [hlt] using this
  · have := key (wr ch (34 - 2) c "put_char: last column") ((wr_upd h (by omega) _ _).inv h) (wr_upd h (by omega) _ _).attr
    simpa [hlt] using this

/-- the pen after a mid-row code (15.119 (h)): flash off, underline bit; a colour code selects the
    colour and switches italics off; the italics code switches italics on and, on a tree with finding F46
    (`midrowItalicsKeepsColour = false`), also sets white -/
def midRowPen (old : Cell) (c2 : Nat) : Cell :=
  if (c2 >>> 1) &&& 7 < 7 then
    { old with flash := false, underline := c2 &&& 1 != 0, italic := false, fg := palette ((c2 >>> 1) &&& 7) }
  else if midrowItalicsKeepsColour then { old with flash := false, underline := c2 &&& 1 != 0, italic := true }
  else { old with flash := false, underline := c2 &&& 1 != 0, italic := true, fg := colWhite }

theorem midRow_attr {ch : Channel} (h : ChInv ch) (c2 : Nat) : (midRow ch c2).attr = midRowPen ch.attr c2 := by
  unfold midRow putCharSpace
  have h1 := h.withAttr { ch.attr with flash := false, underline := c2 &&& 1 != 0 }
  rw [putChar_attr (setColourMid_inv h1 _)]
  unfold setColourMid midRowPen
  repeat' split
  all_goals rfl

end Zvbi.Cc
