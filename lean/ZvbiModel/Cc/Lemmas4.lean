import ZvbiModel.Cc.Lemmas3
import ZvbiModel.Cc.Spec
/-!
# Cell-level lemmas: what `put_char` writes, text runs, refinement of character cells to `Eia608`
-/
namespace Zvbi.Cc
open Zvbi.Gen.Cc

theorem rd_wr {ch : Channel} (h : ChInv ch) {i : Nat} (hi : i ≤ 34) (c : Cell) (s : String) (j : Nat) :
    rd (wr ch i c s) j = if j = i then some c else rd ch j := by
  have hl := pg_len h ch.linePg
  have hlt : ch.lineOff + i < 1056 := by have := h.line_off; have := h.row_le; omega
  have u := wr_upd h hi c s
  unfold rd
  rw [u.linePg, u.lineOff]
  unfold wr
  simp only [hl, hlt, if_true, pg_setPg_same]
  by_cases hj : j = i
  · subst hj; simp [hl, hlt]
  · have : ch.lineOff + i ≠ ch.lineOff + j := by omega
    simp [hj, List.getElem?_set_ne this]

/-- cells of the other page, and of this page outside `line[i]`, are untouched by `line[i] = c` -/
theorem wr_other_pg {ch : Channel} (h : ChInv ch) {i : Nat} (hi : i ≤ 34) (c : Cell) (s : String) :
    (wr ch i c s).pg (!ch.linePg) = ch.pg (!ch.linePg) := by
  have hl := pg_len h ch.linePg
  have hlt : ch.lineOff + i < 1056 := by have := h.line_off; have := h.row_le; omega
  unfold wr
  simp only [hl, hlt, if_true, pg_setPg_other]

theorem wr_nev {ch : Channel} (h : ChInv ch) {i : Nat} (hi : i ≤ 34) (c : Cell) (s : String) :
    (wr ch i c s).nev = ch.nev := by
  have hl := pg_len h ch.linePg
  have hlt : ch.lineOff + i < 1056 := by have := h.line_off; have := h.row_le; omega
  unfold wr
  simp only [hl, hlt, if_true]
  cases ch.linePg <;> rfl

/-- `put_char` of a non-space character left of the last column: the cell under the cursor receives the
    character, the cursor advances, nothing else happens (no word break, no event). -/
theorem putChar_nonspace {ch : Channel} (h : ChInv ch) (c : Cell) (hs : c.isSpace = false) (hc : ch.col < 33) :
    putChar ch c = { wr ch ch.col c "put_char" with col := ch.col + 1 } := by
  unfold putChar
  simp only [columns_eq, hs, Bool.false_eq_true, if_false]
  have : ch.col < 34 - 1 := by omega
  exact if_pos this


/-- a run of characters (7-bit codes) typed with the current pen -/
def charRun (ch : Channel) (cs : List Nat) : Channel :=
  cs.foldl (fun ch ci => putChar ch { ch.attr with unicode := captionUnicode ci }) ch

/-- codes whose glyph libzvbi does not treat as a space: everything in 0x21..0x7E
    (0x7F, the solid block U+25A0, has low seven bits 0x20 and acts as a word break) -/
def isWordCode (ci : Nat) : Bool := decide (0x21 ≤ ci) && decide (ci ≤ 0x7E)

theorem wordCode_nonspace : ∀ ci, isWordCode ci = true →
    ({ unicode := captionUnicode ci } : Cell).isSpace = false := by
  have : ∀ ci < 0x7F, 0x21 ≤ ci → ({ unicode := captionUnicode ci } : Cell).isSpace = false := by decide
  intro ci h
  simp only [isWordCode, Bool.and_eq_true, decide_eq_true_eq] at h
  exact this ci (by omega) h.1

/-- facts about one typed non-space character -/
theorem putChar_step {ch : Channel} (h : ChInv ch) (ci : Nat) (hw : isWordCode ci = true) (hc : ch.col < 33) :
    let r := putChar ch { ch.attr with unicode := captionUnicode ci }
    ChInv r ∧ r.col = ch.col + 1 ∧ r.col1 = ch.col1 ∧ r.row = ch.row ∧ r.attr = ch.attr ∧ r.nev = ch.nev ∧
    r.mode = ch.mode ∧ r.hidden = ch.hidden ∧ r.linePg = ch.linePg ∧ r.pg (!ch.linePg) = ch.pg (!ch.linePg) ∧
    ∀ j, rd r j = if j = ch.col then some { ch.attr with unicode := captionUnicode ci } else rd ch j := by
  have hs : ({ ch.attr with unicode := captionUnicode ci } : Cell).isSpace = false := wordCode_nonspace ci hw
  have hi : ch.col ≤ 34 := by omega
  have u := wr_upd h hi { ch.attr with unicode := captionUnicode ci } "put_char"
  have e := putChar_nonspace h _ hs hc
  simp only
  rw [e]
  refine ⟨putChar_nonspace h _ hs hc ▸ putChar_inv h _, rfl, u.col1, u.row, u.attr, wr_nev h hi _ _, u.mode, u.hidden,
    u.linePg, wr_other_pg h hi _ _, ?_⟩
  intro j
  exact rd_wr h hi _ _ j

theorem charRun_spec (cs : List Nat) : ∀ {ch : Channel}, ChInv ch → (∀ ci ∈ cs, isWordCode ci = true) →
    ch.col + cs.length ≤ 33 →
    let r := charRun ch cs
    ChInv r ∧ r.col = ch.col + cs.length ∧ r.col1 = ch.col1 ∧ r.row = ch.row ∧ r.attr = ch.attr ∧ r.nev = ch.nev ∧
    r.mode = ch.mode ∧ r.hidden = ch.hidden ∧ r.linePg = ch.linePg ∧ r.pg (!ch.linePg) = ch.pg (!ch.linePg) ∧
    ∀ j, rd r j = if h : ch.col ≤ j ∧ j < ch.col + cs.length then
                    some { ch.attr with unicode := captionUnicode (cs[j - ch.col]'(by omega)) }
                  else rd ch j := by
  induction cs with
  | nil =>
    intro ch h _ _
    refine ⟨h, rfl, rfl, rfl, rfl, rfl, rfl, rfl, rfl, rfl, ?_⟩
    intro j
    have : ¬ (ch.col ≤ j ∧ j < ch.col + ([] : List Nat).length) := by simp
    rw [dif_neg this]
    rfl
  | cons c rest ih =>
    intro ch h hw hlen
    have hlen' : ch.col + (rest.length + 1) ≤ 33 := by simpa using hlen
    have st := putChar_step h c (hw c (List.mem_cons_self ..)) (by omega)
    simp only at st
    obtain ⟨hi, s1, s2, s3, s4, s5, s6, s7, s8, s9, s10⟩ := st
    have := ih (ch := putChar ch { ch.attr with unicode := captionUnicode c }) hi
      (fun ci hci => hw ci (List.mem_cons_of_mem _ hci)) (by rw [s1]; omega)
    simp only at this
    obtain ⟨ri, r1, r2, r3, r4, r5, r6, r7, r8, r9, r10⟩ := this
    show ChInv (charRun (putChar ch { ch.attr with unicode := captionUnicode c }) rest) ∧ _
    refine ⟨ri, ?_, r2.trans s2, r3.trans s3, r4.trans s4, r5.trans s5, r6.trans s6, r7.trans s7, r8.trans s8, ?_, ?_⟩
    · show (charRun _ rest).col = _; rw [r1, s1]; simp; omega
    · show (charRun _ rest).pg _ = _; rw [← s8, r9, s8, s9]
    · intro j
      show rd (charRun _ rest) j = _
      rw [r10 j]
      by_cases hj : ch.col ≤ j ∧ j < ch.col + (c :: rest).length
      · rw [dif_pos hj]
        by_cases hj0 : j = ch.col
        · have : ¬ ((putChar ch { ch.attr with unicode := captionUnicode c }).col ≤ j ∧
              j < (putChar ch { ch.attr with unicode := captionUnicode c }).col + rest.length) := by rw [s1]; omega
          rw [dif_neg this, s10 j, if_pos hj0]
          simp [hj0]
        · have hin : (putChar ch { ch.attr with unicode := captionUnicode c }).col ≤ j ∧
              j < (putChar ch { ch.attr with unicode := captionUnicode c }).col + rest.length := by
            rw [s1]; simp at hj; omega
          rw [dif_pos hin, s4]
          congr 2
          have e1 : j - (putChar ch { ch.attr with unicode := captionUnicode c }).col = j - ch.col - 1 := by rw [s1]; omega
          have e2 : j - ch.col = (j - ch.col - 1) + 1 := by omega
          simp only [e1]
          rw [List.getElem_cons (l := rest) (a := c)]
          have : ¬ (j - ch.col = 0) := by omega
          simp [this]
      · rw [dif_neg hj]
        have : ¬ ((putChar ch { ch.attr with unicode := captionUnicode c }).col ≤ j ∧
            j < (putChar ch { ch.attr with unicode := captionUnicode c }).col + rest.length) := by
          rw [s1]; simp at hj ⊢; omega
        rw [dif_neg this, s10 j]
        have : j ≠ ch.col := by simp at hj; omega
        rw [if_neg this]


/-! ## the same run in the reference model -/

open Eia608 in
/-- the reference decoder receiving the same character codes -/
def specRun (v : Eia608.Service) (cs : List Nat) : Eia608.Service :=
  cs.foldl (fun v c => v.putChar (Eia608.basicChar c)) v

theorem spec_target_setTarget (v : Eia608.Service) (m : Eia608.Mem) : (v.setTarget m).target = m := by
  unfold Eia608.Service.setTarget Eia608.Service.target
  split <;> simp_all

theorem spec_putChar_step (v : Eia608.Service) (u : Nat) (hm : v.mode ≠ none) (hc : v.col ≤ 32) :
    (v.putChar u).col = v.col + 1 ∧ (v.putChar u).row = v.row ∧ (v.putChar u).pen = v.pen ∧
    (v.putChar u).mode = v.mode ∧
    (v.putChar u).target = v.target.set v.row v.col (some { ch := u, pen := v.pen }) := by
  unfold Eia608.Service.putChar
  simp only [hm, if_false, hc, if_true]
  have hmode : (v.setTarget (v.target.set v.row v.col (some { ch := u, pen := v.pen }))).mode = v.mode := by
    unfold Eia608.Service.setTarget; split <;> rfl
  refine ⟨trivial, ?_, ?_, hmode, ?_⟩
  · show (v.setTarget _).row = _; unfold Eia608.Service.setTarget; split <;> rfl
  · show (v.setTarget _).pen = _; unfold Eia608.Service.setTarget; split <;> rfl
  · show Eia608.Service.target { v.setTarget _ with col := v.col + 1 } = _
    have : Eia608.Service.target { v.setTarget (v.target.set v.row v.col (some { ch := u, pen := v.pen })) with col := v.col + 1 }
        = (v.setTarget (v.target.set v.row v.col (some { ch := u, pen := v.pen }))).target := by
      unfold Eia608.Service.target; rfl
    rw [this, spec_target_setTarget]

theorem specRun_spec (cs : List Nat) : ∀ (v : Eia608.Service), v.mode ≠ none → v.col + cs.length ≤ 33 →
    (specRun v cs).col = v.col + cs.length ∧ (specRun v cs).row = v.row ∧ (specRun v cs).pen = v.pen ∧
    (specRun v cs).mode = v.mode ∧
    ∀ r c, (specRun v cs).target r c =
      if h : r = v.row ∧ v.col ≤ c ∧ c < v.col + cs.length then
        some { ch := Eia608.basicChar (cs[c - v.col]'(by omega)), pen := v.pen }
      else v.target r c := by
  induction cs with
  | nil =>
    intro v _ _
    refine ⟨rfl, rfl, rfl, rfl, ?_⟩
    intro r c
    have : ¬ (r = v.row ∧ v.col ≤ c ∧ c < v.col + ([] : List Nat).length) := by simp
    rw [dif_neg this]; rfl
  | cons a rest ih =>
    intro v hm hlen
    have hlen' : v.col + (rest.length + 1) ≤ 33 := by simpa using hlen
    obtain ⟨s1, s2, s3, s4, s5⟩ := spec_putChar_step v (Eia608.basicChar a) hm (by omega)
    obtain ⟨r1, r2, r3, r4, r5⟩ := ih (v.putChar (Eia608.basicChar a)) (by rw [s4]; exact hm) (by rw [s1]; omega)
    show (specRun (v.putChar (Eia608.basicChar a)) rest).col = _ ∧ _
    refine ⟨by rw [r1, s1]; simp; omega, r2.trans s2, r3.trans s3, r4.trans s4, ?_⟩
    intro r c
    show (specRun (v.putChar (Eia608.basicChar a)) rest).target r c = _
    rw [r5 r c]
    by_cases hj : r = v.row ∧ v.col ≤ c ∧ c < v.col + (a :: rest).length
    · rw [dif_pos hj]
      by_cases hj0 : c = v.col
      · have : ¬ (r = (v.putChar (Eia608.basicChar a)).row ∧ (v.putChar (Eia608.basicChar a)).col ≤ c ∧
            c < (v.putChar (Eia608.basicChar a)).col + rest.length) := by rw [s1]; omega
        rw [dif_neg this, s5]
        simp [Eia608.Mem.set, hj.1, hj0]
      · have hin : r = (v.putChar (Eia608.basicChar a)).row ∧ (v.putChar (Eia608.basicChar a)).col ≤ c ∧
            c < (v.putChar (Eia608.basicChar a)).col + rest.length := by
          rw [s1, s2]; simp at hj; omega
        rw [dif_pos hin, s3]
        congr 2
        have e1 : c - (v.putChar (Eia608.basicChar a)).col = c - v.col - 1 := by rw [s1]; omega
        simp only [e1]
        rw [List.getElem_cons (l := rest) (a := a)]
        have : ¬ (c - v.col = 0) := by omega
        simp [this]
    · rw [dif_neg hj]
      have : ¬ (r = (v.putChar (Eia608.basicChar a)).row ∧ (v.putChar (Eia608.basicChar a)).col ≤ c ∧
          c < (v.putChar (Eia608.basicChar a)).col + rest.length) := by
        rw [s1, s2]; simp at hj ⊢; omega
      rw [dif_neg this, s5]
      have : ¬ (r = v.row ∧ c = v.col) := by simp at hj; omega
      simp [Eia608.Mem.set, this]

/-- pen of the reference model vs attribute bits of a libzvbi cell -/
def penMatches (a : Cell) (p : Eia608.Pen) : Prop :=
  a.underline = p.underline ∧ a.italic = p.italic ∧ a.flash = p.flash ∧ a.fg = p.fg ∧ a.bg = p.bg ∧
  a.opacity = Eia608.opaqueOf p

instance (a : Cell) (p : Eia608.Pen) : Decidable (penMatches a p) := by unfold penMatches; infer_instance

/-- a libzvbi cell shows the reference cell -/
def cellMatches (c : Cell) (x : Eia608.SCell) : Prop := c.unicode = x.ch ∧ penMatches c x.pen

theorem wordCode_std (ci : Nat) (hw : isWordCode ci = true) : captionUnicode ci = Eia608.basicChar ci := by
  have : ∀ c < 0x80, 0x20 ≤ c → captionUnicode c = Eia608.basicChar c := by decide
  simp only [isWordCode, Bool.and_eq_true, decide_eq_true_eq] at hw
  exact this ci (by omega) (by omega)


/-- a text pair of two word characters is a `charRun` of the two codes -/
theorem textPair_charRun {ch : Channel} (h : ChInv ch) (hm : ch.mode ≠ .none) (b0 b1 v0 v1 : Nat)
    (h0 : Hamm.unpar8 b0 = some v0) (h1 : Hamm.unpar8 b1 = some v1)
    (w0 : isWordCode (v0 &&& 0x7F) = true) (w1 : isWordCode (v1 &&& 0x7F) = true) (hc : ch.col < 33) :
    textPair ch b0 b1 = charRun { ch with nulCt := 0 } [v0 &&& 0x7F, v1 &&& 0x7F] := by
  have hmb : (ch.mode == .none) = false := by simpa using hm
  have g0 : ¬ (v0 &&& 0x7F ≤ 0x1F) := by
    simp only [isWordCode, Bool.and_eq_true, decide_eq_true_eq] at w0; omega
  have g1 : ¬ (v1 &&& 0x7F ≤ 0x1F) := by
    simp only [isWordCode, Bool.and_eq_true, decide_eq_true_eq] at w1; omega
  unfold textPair
  rw [hmb]
  simp only [Bool.false_eq_true, if_false]
  unfold charRun
  simp only [List.foldl_cons, List.foldl_nil]
  have hn := h.withNul 0
  have st := putChar_step hn (v0 &&& 0x7F) w0 hc
  simp only at st
  have e0 : putByte { ch with nulCt := 0 } ch.attr b0 =
      putChar { ch with nulCt := 0 } { ch.attr with unicode := captionUnicode (v0 &&& 0x7F) } := by
    unfold putByte; simp only [h0]; rw [if_neg g0]
  rw [e0]
  unfold putByte
  simp only [h1]
  rw [if_neg g1, st.2.2.2.2.1]

/-! ## whole-page comparison -/

/-- a libzvbi cell as the reference model prints it -/
def toRCell (c : Cell) : Eia608.RCell :=
  { unicode := c.unicode, underline := c.underline, italic := c.italic, flash := c.flash,
    opacity := c.opacity, fg := c.fg, bg := c.bg }

/-- page `i + 1` as `vbi_fetch_cc_page` returns it -/
def modelVisible (s : St) (i : Nat) : Option (List Eia608.RCell) :=
  s.chans[i]?.map (fun ch => ch.displayed.map toRCell)

/-- feed byte pairs (field 2?, byte, byte) to the model and to the reference model -/
def runPairs (ps : List (Bool × Nat × Nat)) : St := run (ps.map (fun p => Op.pair p.1 p.2.1 p.2.2))
def specPairs (ps : List (Bool × Nat × Nat)) : Eia608.St :=
  ps.foldl (fun s p => Eia608.step s p.1 p.2.1 p.2.2) Eia608.init

end Zvbi.Cc
