import ZvbiModel.Cc.Refine11
/-!
# Refinement to `Eia608`, part 12: byte-pair level (field 1, CC1), pop-on caption streams
-/
namespace Zvbi.Cc
open Zvbi.Gen.Cc Eia608
open Zvbi.Hamm (par8 unpar8)

/-- a second `word_break` on a completed row changes nothing -/
theorem wordBreak_closed_noop {w : Channel} (h : ChInv w) {c0 : Nat} {cs : List Cell} (hne : cs ≠ [])
    (R : RowIs w (!(cs.getD 0 default).isSpace) (!(cs.getD (cs.length - 1) default).isSpace) c0 cs) :
    wordBreak w false = w := by
  have hn : 0 < cs.length := List.length_pos_iff.mpr hne
  have hc0 := R.c0pos
  have hfit := R.fits
  have hgt : w.col > w.col1 := by rw [R.col, R.col1]; omega
  have hne1 : w.col1 ≠ 0 := by rw [R.col1]; omega
  have hfirst_op : (cs.getD 0 default).opacity ≠ opTransparentSpace := by
    apply R.opq
    cases cs with
    | nil => exact absurd rfl hne
    | cons a t => simp
  have hlast_op : (cs.getD (cs.length - 1) default).opacity ≠ opTransparentSpace := by
    apply R.opq
    rw [List.getD_eq_getElem?_getD, List.getElem?_eq_getElem (by omega)]
    exact List.getElem_mem _
  have rFirst : rd w w.col1 = some (cs.getD 0 default) := by
    rw [rd_eq_hcell h, R.col1, R.cells c0 (by omega)]
    simp [rowCell, hn]
  have rLead : rd w (w.col1 - 1) = some (if (!(cs.getD 0 default).isSpace) = true then
      { cs.getD 0 default with unicode := 0x20 } else tsC) := by
    rw [rd_eq_hcell h, R.col1, R.cells (c0 - 1) (by omega)]
    have h1 : ¬ (c0 ≤ c0 - 1 ∧ c0 - 1 < c0 + cs.length) := by omega
    have h2 : c0 - 1 + 1 = c0 := by omega
    have h3 : ¬ (c0 - 1 = c0 + cs.length) := by omega
    unfold rowCell
    rw [if_neg h1]
    by_cases hl : (!(cs.getD 0 default).isSpace) = true
    · rw [if_pos ⟨hl, h2⟩, if_pos hl]
    · rw [if_neg (fun hc => hl hc.1), if_neg (fun hc => h3 hc.2), if_neg hl]
  have rLast : rd w (w.col - 1) = some (cs.getD (cs.length - 1) default) := by
    rw [rd_eq_hcell h, R.col, R.cells _ (by omega)]
    have : c0 ≤ c0 + cs.length - 1 ∧ c0 + cs.length - 1 < c0 + cs.length := by omega
    unfold rowCell
    rw [if_pos this]
    congr 2; omega
  have rTrail : rd w w.col = some (if (!(cs.getD (cs.length - 1) default).isSpace) = true then
      { cs.getD (cs.length - 1) default with unicode := 0x20 } else tsC) := by
    rw [rd_eq_hcell h, R.col, R.cells _ (by omega)]
    have h1 : ¬ (c0 ≤ c0 + cs.length ∧ c0 + cs.length < c0 + cs.length) := by omega
    have h2 : ¬ (c0 + cs.length + 1 = c0) := by omega
    unfold rowCell
    rw [if_neg h1, if_neg (fun hc => h2 hc.2)]
    by_cases hl : (!(cs.getD (cs.length - 1) default).isSpace) = true
    · rw [if_pos ⟨hl, rfl⟩, if_pos hl]
    · rw [if_neg (fun hc => hl hc.1), if_neg hl]
  unfold wordBreak
  rw [if_pos hgt]
  simp only [hne1, if_false, rFirst, rLead, Bool.not_false, Bool.true_or, if_true]
  have c1 : (!(cs.getD 0 default).isSpace &&
      (if (!(cs.getD 0 default).isSpace) = true then ({ cs.getD 0 default with unicode := 0x20 } : Cell) else tsC).opacity
        == opTransparentSpace) = false := by
    cases hsp : (cs.getD 0 default).isSpace
    · simp; simpa using hfirst_op
    · simp
  rw [c1]
  simp only [Bool.false_eq_true, if_false, rLast, rTrail]
  have c2 : (!(cs.getD (cs.length - 1) default).isSpace &&
      (if (!(cs.getD (cs.length - 1) default).isSpace) = true then
        ({ cs.getD (cs.length - 1) default with unicode := 0x20 } : Cell) else tsC).opacity == opTransparentSpace) = false := by
    cases hsp : (cs.getD (cs.length - 1) default).isSpace
    · simp; simpa using hlast_op
    · simp
  rw [c2]
  simp


/-- `switch_channel()`'s extra word break before End Of Caption does not matter -/
theorem eoc_after_switch {ch : Channel} {v : Service} (P : PopRel ch v) :
    endOfCaption (wordBreak ch true) = endOfCaption ch := by
  have hpop : ∀ x : Channel, x.mode = .popOn → ChInv x → wordBreak x true = wordBreak x false := by
    intro x hx hxi
    rw [wordBreak_true_eq]
    have : ((wordBreak x false).mode == .popOn) = true := by rw [(wordBreak_upd hxi false).mode, hx]; rfl
    rw [if_pos this]
  have e1 : wordBreak ch true = wordBreak ch false := hpop ch P.mode P.inv
  obtain ⟨lead, c0, xs, R, _⟩ := P.cur
  have hx : wordBreak (wordBreak ch false) false = wordBreak ch false := by
    by_cases hxs : xs = []
    · have hcol : ch.col = ch.col1 := by rw [R.col, R.col1, hxs]; simp
      rw [wordBreak_false_noop hcol, wordBreak_false_noop hcol]
    · have hne : xs.map toCell ≠ [] := by simpa using hxs
      obtain ⟨sb, Rw⟩ := wordBreak_row P.inv R hne
      exact wordBreak_closed_noop (sb.upd.inv P.inv) hne Rw
  have hwi := (wordBreak_upd P.inv false).inv P.inv
  have hwm : (wordBreak ch false).mode = .popOn := by rw [(wordBreak_upd P.inv false).mode]; exact P.mode
  unfold endOfCaption
  rw [e1, mode_eta hwm, mode_eta P.mode, hpop _ hwm hwi, hx, e1]

/-! ## feeding byte pairs -/

/-- the libzvbi model fed with byte pairs `(field 2?, byte, byte)` -/
def feed (s : St) (ps : List (Bool × Nat × Nat)) : St := ps.foldl (fun s p => step s (.pair p.1 p.2.1 p.2.2)) s
/-- the reference model fed with the same pairs -/
def sfeed (t : Eia608.St) (ps : List (Bool × Nat × Nat)) : Eia608.St :=
  ps.foldl (fun t p => Eia608.step t p.1 p.2.1 p.2.2) t

theorem feed_append (s : St) (a b : List (Bool × Nat × Nat)) : feed s (a ++ b) = feed (feed s a) b := by
  unfold feed; rw [List.foldl_append]
theorem sfeed_append (t : Eia608.St) (a b : List (Bool × Nat × Nat)) : sfeed t (a ++ b) = sfeed (sfeed t a) b := by
  unfold sfeed; rw [List.foldl_append]

theorem runPairs_eq_feed (ps : List (Bool × Nat × Nat)) : runPairs ps = feed init ps := by
  unfold runPairs run feed; rw [List.foldl_map]
theorem specPairs_eq_sfeed (ps : List (Bool × Nat × Nat)) : specPairs ps = sfeed Eia608.init ps := rfl

/-- a control pair of field 1 with odd parity, sent twice -/
def ctl (c1 c2 : Nat) : List (Bool × Nat × Nat) := [(false, par8 c1, par8 c2), (false, par8 c1, par8 c2)]
/-- a text pair of field 1 with odd parity -/
def txt (a b : Nat) : List (Bool × Nat × Nat) := [(false, par8 a, par8 b)]

theorem feed_ctl (s : St) {c1 c2 : Nat} (h1 : c1 < 128) (h2 : c2 < 128) :
    feed s (ctl c1 c2) = decodePair (decodePair s false (par8 c1) (par8 c2)) false (par8 c1) (par8 c2) := by
  obtain ⟨_, _, l1, _, _⟩ := par8_facts c1 h1
  obtain ⟨_, _, l2, _, _⟩ := par8_facts c2 h2
  unfold feed ctl step
  simp only [List.foldl_cons, List.foldl_nil, Nat.mod_eq_of_lt l1, Nat.mod_eq_of_lt l2]

theorem feed_txt (s : St) {a b : Nat} (h1 : a < 128) (h2 : b < 128) :
    feed s (txt a b) = decodePair s false (par8 a) (par8 b) := by
  obtain ⟨_, _, l1, _, _⟩ := par8_facts a h1
  obtain ⟨_, _, l2, _, _⟩ := par8_facts b h2
  unfold feed txt step
  simp only [List.foldl_cons, List.foldl_nil, Nat.mod_eq_of_lt l1, Nat.mod_eq_of_lt l2]

theorem sfeed_ctl (t : Eia608.St) (c1 c2 : Nat) :
    sfeed t (ctl c1 c2) = Eia608.step (Eia608.step t false (par8 c1) (par8 c2)) false (par8 c1) (par8 c2) := rfl
theorem sfeed_txt (t : Eia608.St) (a b : Nat) : sfeed t (txt a b) = Eia608.step t false (par8 a) (par8 b) := rfl

/-- one op of a caption body at the byte level: a PAC (first byte 0x10 + `lo`, sent twice) or one text pair -/
inductive BOp
  | pac (lo c2 : Nat)
  | pair (a b : Nat)

def BOp.enc : BOp → List (Bool × Nat × Nat)
  | .pac lo c2 => ctl (0x10 + lo) c2
  | .pair a b => txt a b

def BOp.toPOp : BOp → POp
  | .pac lo c2 => .pac lo c2
  | .pair a b => .text (pairCodes a b)

/-- byte-level well-formedness of a text pair: first byte a character, second a character or the NUL filler -/
def BOp.bytesOk : BOp → Prop
  | .pac _ _ => True
  | .pair a b => 0x20 ≤ a ∧ a < 0x80 ∧ (b = 0 ∨ (0x20 ≤ b ∧ b < 0x80))

theorem decodeCmd_pac1 : ∀ lo < 8, ∀ c2 < 128, decodeCmd (0x10 + lo) c2 = decodeCmd lo c2 := by decide

end Zvbi.Cc
