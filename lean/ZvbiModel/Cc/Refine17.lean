import ZvbiModel.Cc.Refine16
import ZvbiModel.Cc.Refine7
/-!
# Roll-up scripts whose text mixes basic and special characters

`Refine5` (`text_sim_dir`), `text_roll` of `Refine6` and `Refine7` re-run over `Glyph` runs (`Refine16`).  RUx, PAC,
CR steps (`ru_step`, `pac_roll`, `cr_step`) are reused unchanged.
-/
namespace Zvbi.Cc
open Zvbi.Gen.Cc Eia608

/-- `text_sim_dir` for glyph runs -/
theorem glyph_sim_dir (chan : Nat) (c0 : Nat) (gs : List Glyph) : ∀ {ch : Channel} {v : Service} {lead : Bool} {xs : List SCell},
    ChInv ch → ch.mode ≠ .popOn → directMode v → RowSim ch v lead c0 xs → RowSynced ch lead (xs.map toCell) →
    (∀ g ∈ gs, g.ok = true) → c0 + xs.length + gs.length ≤ 33 →
    ∃ lead' xs', xs' = xs ++ gs.map (fun g => ({ ch := g.uni, pen := v.pen } : SCell)) ∧
      RowSim (glyphRun chan ch gs) (glyphRunS v gs) lead' c0 xs' ∧ RowSynced (glyphRun chan ch gs) lead' (xs'.map toCell) ∧
      ChInv (glyphRun chan ch gs) ∧ Frame ch (glyphRun chan ch gs) ∧ ch.nev ≤ (glyphRun chan ch gs).nev ∧
      (∀ r j, j < 34 → r ≠ ch.row → (glyphRun chan ch gs).dcell r j = ch.dcell r j) ∧
      (∀ r c, r ≠ v.row → (glyphRunS v gs).disp r c = v.disp r c) ∧
      (glyphRunS v gs).mode = v.mode ∧ (glyphRunS v gs).nond = v.nond ∧ (glyphRunS v gs).base = v.base := by
  induction gs with
  | nil =>
    intro ch v lead xs h _ _ Q sy _ _
    exact ⟨lead, xs, by simp, Q, sy, h, Frame.refl _, Nat.le_refl _, fun _ _ _ _ => rfl, fun _ _ _ => rfl, rfl, rfl, rfl⟩
  | cons g rest ih =>
    intro ch v lead xs h hm hd Q sy hw hlen
    have hg := hw g (List.mem_cons_self ..)
    have hlen' : c0 + xs.length + (rest.length + 1) ≤ 33 := by simpa using hlen
    have st := putChar_sim_glyph h Q g.uni (by omega)
    simp only at st
    obtain ⟨hcx, Q1, sO, pi, pf, pside⟩ := st
    obtain ⟨s1, s2, s3, s4, _⟩ := spec_putChar_step v g.uni Q.vmode (by
      have := Q.vcol; have := Q.R.col; have : (xs.map toCell).length = xs.length := List.length_map _; omega)
    have sd := spec_putChar_dir hd g.uni
    have hd1 : directMode (v.putChar g.uni) := by unfold directMode; rw [sd.2.1]; exact hd
    have hbase : (v.putChar g.uni).base = v.base := sd.2.2
    have sy1 : RowSynced (putChar ch { ch.attr with unicode := g.uni })
        (if ({ ch.attr with unicode := g.uni } : Cell).isSpace then
          !(((xs ++ [({ ch := g.uni, pen := v.pen } : SCell)]).map toCell).getD 0 default).isSpace else lead)
        ((xs ++ [({ ch := g.uni, pen := v.pen } : SCell)]).map toCell) := by
      intro _ hlast
      have hmap : (xs ++ [({ ch := g.uni, pen := v.pen } : SCell)]).map toCell =
          xs.map toCell ++ [{ ch.attr with unicode := g.uni }] := by rw [List.map_append, hcx]; rfl
      have hl : ((xs ++ [({ ch := g.uni, pen := v.pen } : SCell)]).map toCell).length - 1 = (xs.map toCell).length := by
        simp
      rw [hl, hmap, getD_snoc_eq] at hlast
      rw [if_pos hlast]
      rw [if_pos ⟨hlast, hm⟩] at pside
      refine ⟨rfl, ?_⟩
      intro j hj
      rw [pside.2 _ j hj, pf.row, if_pos rfl]
    have dother : ∀ r j, j < 34 → r ≠ ch.row →
        (putChar ch { ch.attr with unicode := g.uni }).dcell r j = ch.dcell r j := by
      intro r j hj hr
      by_cases hc : ({ ch.attr with unicode := g.uni } : Cell).isSpace = true ∧ ch.mode ≠ .popOn
      · rw [if_pos hc] at pside; rw [pside.2 r j hj, if_neg hr]
      · rw [if_neg hc] at pside; exact pside.2 r j hj
    have nge : ch.nev ≤ (putChar ch { ch.attr with unicode := g.uni }).nev := by
      by_cases hc : ({ ch.attr with unicode := g.uni } : Cell).isSpace = true ∧ ch.mode ≠ .popOn
      · rw [if_pos hc] at pside; rw [pside.1]; omega
      · rw [if_neg hc] at pside; rw [pside.1]; omega
    have := ih (ch := putChar ch { ch.attr with unicode := g.uni }) (v := v.putChar g.uni)
      pi (by rw [pf.mode]; exact hm) hd1 Q1 sy1 (fun c hc => hw c (List.mem_cons_of_mem _ hc)) (by simp; omega)
    obtain ⟨lead', xs', ex, Q2, sy2, i2, f2, n2, d2, o2, m2, nn2, b2⟩ := this
    have ec : glyphRun chan ch (g :: rest) = glyphRun chan (putChar ch { ch.attr with unicode := g.uni }) rest := by
      unfold glyphRun; rw [List.foldl_cons, glyphM_eq chan ch g hg]
    have es : glyphRunS v (g :: rest) = glyphRunS (v.putChar g.uni) rest := by
      unfold glyphRunS; rw [List.foldl_cons, glyphS_eq v Q.vmode g hg]
    rw [ec, es]
    refine ⟨lead', xs', by rw [ex, s3]; simp, Q2, sy2, i2, pf.trans f2, by omega, ?_, ?_, by rw [m2, sd.2.1], by rw [nn2, sd.1],
      by rw [b2, hbase]⟩
    · intro r j hj hr
      rw [d2 r j hj (by rw [pf.row]; exact hr), dother r j hj hr]
    · intro r c hr
      rw [o2 r c (by rw [s2]; exact hr)]
      have := sO r c hr
      rw [spec_target_dir hd1, spec_target_dir hd] at this
      exact this

/-- does the glyph run end with a space (a completed word)?  Special characters are never spaces. -/
def endsSpaceG (gs : List Glyph) : Bool :=
  match gs.getLast? with
  | some g => (g.uni &&& 0x7F) == 0x20
  | none => false

theorem last_of_typedG (xs : List SCell) (gs : List Glyph) (pen : Pen) (hne : gs ≠ []) :
    isSpaceChar ((xs ++ gs.map (fun g => ({ ch := g.uni, pen := pen } : SCell))).getD
      ((xs ++ gs.map (fun g => ({ ch := g.uni, pen := pen } : SCell))).length - 1) default) = endsSpaceG gs := by
  obtain ⟨init, l, rfl⟩ : ∃ init l, gs = init ++ [l] := ⟨gs.dropLast, gs.getLast hne, (List.dropLast_concat_getLast hne).symm⟩
  unfold endsSpaceG
  simp [List.getD_eq_getElem?_getD, isSpaceChar]

/-- `text_roll` for glyph runs -/
theorem glyph_roll {ch : Channel} {v : Service} {n : Nat} {s : Bool} (R : RollRel ch v n s) (chan : Nat) (gs : List Glyph)
    (hne : gs ≠ []) (hw : ∀ g ∈ gs, g.ok = true) (hlen : v.col + gs.length ≤ 33) :
    RollRel (glyphRun chan ch gs) (glyphRunS v gs) n (endsSpaceG gs) := by
  obtain ⟨lead, c0, xs, Q, sy⟩ := R.cur
  have hd := R.direct
  have hcol : v.col = c0 + xs.length := by rw [Q.vcol, Q.R.col]; simp
  have hmne : ch.mode ≠ .popOn := by rw [R.mode]; decide
  obtain ⟨lead', xs', ex, Q2, sy2, i2, f2, _, d2, o2, m2, _, b2⟩ :=
    glyph_sim_dir chan c0 gs R.inv hmne hd Q sy hw (by omega)
  have hd2 : directMode (glyphRunS v gs) := by unfold directMode; rw [m2]; exact hd
  have hxs' : xs' ≠ [] := by rw [ex]; simp [hne]
  refine ⟨i2, by rw [f2.idx]; exact R.idx, by rw [f2.mode]; exact R.mode, by rw [f2.roll]; exact R.roll,
    by rw [m2]; exact R.vmode, R.n2, R.n4, by rw [f2.row, f2.row1, f2.roll]; exact R.base, by rw [b2, f2.row]; exact R.vbase,
    ?_, ⟨lead', c0, xs', Q2, sy2⟩, ?_⟩
  · intro r hr hne' j hj
    rw [f2.row] at hne'
    rw [d2 r j hj hne']
    obtain ⟨c, hc, e⟩ := R.rows r hr hne' j hj
    refine ⟨c, hc, ?_⟩
    rw [e]
    exact (renderCell_congr (fun c => o2 r c (by rw [Q.vrow]; exact hne')) j).symm
  · intro hs
    have hl := last_of_typedG xs gs v.pen hne
    rw [← ex, hs] at hl
    exact dispRow_of_synced Q2 hd2 sy2 hxs' hl

/-! ## scripts -/

/-- what follows RUx [PAC] in a roll-up script: runs of glyphs and carriage returns -/
inductive GOp
  | text (gs : List Glyph)
  | cr

def gRollOpModel (chan : Nat) (ch : Channel) : GOp → Channel
  | .text gs => glyphRun chan ch gs
  | .cr => carriageReturn ch chan

def gRollOpSpec (v : Service) : GOp → Service
  | .text gs => glyphRunS v gs
  | .cr => v.exec .cr

/-- well-formed op, judged on the reference state: basic characters 0x20..0x7F and special characters that fit into the row -/
def GOp.ok (v : Service) : GOp → Prop
  | .text gs => gs ≠ [] ∧ (∀ g ∈ gs, g.ok = true) ∧ v.col + gs.length ≤ 33
  | .cr => True

/-- is the display up to date after this op?  (completed word, or carriage return) -/
def GOp.visible : GOp → Bool
  | .text gs => endsSpaceG gs
  | .cr => true

def gopsOk : Service → List GOp → Prop
  | _, [] => True
  | v, op :: rest => op.ok v ∧ gopsOk (gRollOpSpec v op) rest

theorem gRollOp_step {ch : Channel} {v : Service} {n : Nat} {s : Bool} (R : RollRel ch v n s) {chan : Nat}
    (hchan : chan < 4) (op : GOp) (hok : op.ok v) :
    RollRel (gRollOpModel chan ch op) (gRollOpSpec v op) n op.visible := by
  cases op with
  | text gs => exact glyph_roll R chan gs hok.1 hok.2.1 hok.2.2
  | cr => exact cr_step R hchan

theorem gRollOps_refine (chan : Nat) (hchan : chan < 4) (n : Nat) (ops : List GOp) :
    ∀ {ch : Channel} {v : Service} {s : Bool}, RollRel ch v n s → gopsOk v ops →
    ∀ k, (hk0 : 0 < k) → (hk : k ≤ ops.length) → (ops[k - 1]'(by omega)).visible = true →
      pageMatches ((ops.take k).foldl (gRollOpModel chan) ch) ((ops.take k).foldl gRollOpSpec v) := by
  induction ops with
  | nil => intro ch v s _ _ k hk0 hk; simp at hk; omega
  | cons op rest ih =>
    intro ch v s R hok k hk0 hk hvis
    have R1 := gRollOp_step R hchan op hok.1
    cases k with
    | zero => omega
    | succ k' =>
      simp only [List.take_succ_cons, List.foldl_cons]
      cases k' with
      | zero =>
        simp only [List.take_zero, List.foldl_nil]
        have hv : op.visible = true := by simpa using hvis
        rw [hv] at R1
        exact pageMatches_of_dispOK R1.inv R1.dispOK
      | succ k'' =>
        have hk' : k'' + 1 ≤ rest.length := by simpa using hk
        exact ih R1 hok.2 (k'' + 1) (by omega) hk' (by simpa using hvis)

/-- a roll-up script: `RUn`, an optional PAC, then glyph runs and carriage returns -/
structure GRollScript where
  n : Nat
  pac : Option (Nat × Nat)
  ops : List GOp

def GRollScript.startModel (chan : Nat) (ch : Channel) (sc : GRollScript) : Channel :=
  match sc.pac with
  | some (c1, c2) => Zvbi.Cc.pac (ruModel ch sc.n) chan c1 c2
  | none => ruModel ch sc.n

def GRollScript.startSpec (v : Service) (sc : GRollScript) : Service :=
  match sc.pac with
  | some (c1, c2) =>
    match pacArgs c1 c2 with
    | some (r, ind, col, u) => (v.exec (.ru sc.n)).exec (.pac r ind col u)
    | none => v.exec (.ru sc.n)
  | none => v.exec (.ru sc.n)

def GRollScript.ok (v : Service) (sc : GRollScript) : Prop :=
  2 ≤ sc.n ∧ sc.n ≤ 4 ∧
  (∀ c1 c2, sc.pac = some (c1, c2) → c1 < 8 ∧ c2 < 128 ∧ 0x40 ≤ c2 ∧ (pacArgs c1 c2).isSome) ∧
  gopsOk (sc.startSpec v) sc.ops

/-- `rollup_refines` for scripts with special characters -/
theorem rollup_glyph_refines {ch : Channel} {v : Service} (I : IdleRel ch v) {chan : Nat} (hchan : chan < 4) (sc : GRollScript)
    (hok : sc.ok v) :
    pageMatches (sc.startModel chan ch) (sc.startSpec v) ∧
    ∀ k, (hk0 : 0 < k) → (hk : k ≤ sc.ops.length) → (sc.ops[k - 1]'(by omega)).visible = true →
      pageMatches ((sc.ops.take k).foldl (gRollOpModel chan) (sc.startModel chan ch))
        ((sc.ops.take k).foldl gRollOpSpec (sc.startSpec v)) := by
  obtain ⟨h2, h4, hp, hops⟩ := hok
  obtain ⟨R0, B0⟩ := ru_step I h2 h4
  have start : RollRel (sc.startModel chan ch) (sc.startSpec v) sc.n true := by
    unfold GRollScript.startModel GRollScript.startSpec
    cases hpac : sc.pac with
    | none => exact R0
    | some p =>
      obtain ⟨c1, c2⟩ := p
      obtain ⟨a1, a2, a3, a4⟩ := hp c1 c2 hpac
      cases ha : pacArgs c1 c2 with
      | none => rw [ha] at a4; cases a4
      | some a =>
        obtain ⟨r, ind, col, u⟩ := a
        simp only [ha]
        exact (pac_roll R0 B0 hchan a1 a2 a3 ha).1
  exact ⟨pageMatches_of_dispOK start.inv start.dispOK, gRollOps_refine chan hchan sc.n sc.ops start hops⟩

end Zvbi.Cc
