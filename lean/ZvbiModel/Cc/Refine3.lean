import ZvbiModel.Cc.Refine2
/-!
# Refinement to `Eia608`, part 3: pop-on captions  `RCL ENM (PAC text*)* EOC`
-/
namespace Zvbi.Cc
open Zvbi.Gen.Cc Eia608

theorem spec_putChar_pop {v : Service} (hm : v.mode = some .popOn) (u : Nat) :
    (v.putChar u).disp = v.disp ∧ (v.putChar u).target = (v.putChar u).nond := by
  have hne : v.mode ≠ none := by rw [hm]; simp
  unfold Service.putChar
  rw [if_neg hne]
  unfold Service.setTarget Service.target
  simp [hm]

theorem spec_target_pop {v : Service} (hm : v.mode = some .popOn) : v.target = v.nond := by
  unfold Service.target; rw [if_pos hm]

/-- text typed in pop-on mode: both models extend the segment of the current row of the non-displayed memory,
    nothing else changes (no event, displayed memory untouched) -/
theorem text_sim_pop (c0 : Nat) (cs : List Nat) : ∀ {ch : Channel} {v : Service} {lead : Bool} {xs : List SCell},
    ChInv ch → ch.mode = .popOn → v.mode = some .popOn → RowSim ch v lead c0 xs →
    (∀ ci ∈ cs, isCharCode ci = true) → c0 + xs.length + cs.length ≤ 33 →
    ∃ lead' xs', RowSim (charRun ch cs) (specRun v cs) lead' c0 xs' ∧
      ChInv (charRun ch cs) ∧ Frame ch (charRun ch cs) ∧ (charRun ch cs).nev = ch.nev ∧
      (∀ r j, j < 34 → (charRun ch cs).dcell r j = ch.dcell r j) ∧
      (∀ r c, r ≠ v.row → (specRun v cs).nond r c = v.nond r c) ∧
      (specRun v cs).mode = some .popOn ∧ (specRun v cs).disp = v.disp := by
  induction cs with
  | nil =>
    intro ch v lead xs h _ hvm Q _ _
    exact ⟨lead, xs, Q, h, Frame.refl _, rfl, fun _ _ _ => rfl, fun _ _ _ => rfl, hvm, rfl⟩
  | cons ci rest ih =>
    intro ch v lead xs h hm hvm Q hw hlen
    have hlen' : c0 + xs.length + (rest.length + 1) ≤ 33 := by simpa using hlen
    have st := putChar_sim h Q ci (hw ci (List.mem_cons_self ..)) (by omega)
    simp only at st
    obtain ⟨_, Q1, sO, pi, pf, pside⟩ := st
    have hnp : ¬ (({ ch.attr with unicode := captionUnicode ci } : Cell).isSpace = true ∧ ch.mode ≠ .popOn) := by
      intro hc; exact hc.2 hm
    rw [if_neg hnp] at pside
    obtain ⟨s1, s2, s3, s4, _⟩ := spec_putChar_step v (Eia608.basicChar ci) Q.vmode (by
      have := Q.vcol; have := Q.R.col; have : (xs.map toCell).length = xs.length := List.length_map _; omega)
    have hvm1 : (v.putChar (Eia608.basicChar ci)).mode = some .popOn := by rw [s4]; exact hvm
    have sp := spec_putChar_pop hvm (Eia608.basicChar ci)
    have := ih (ch := putChar ch { ch.attr with unicode := captionUnicode ci }) (v := v.putChar (Eia608.basicChar ci))
      pi (by rw [pf.mode]; exact hm) hvm1 Q1 (fun c hc => hw c (List.mem_cons_of_mem _ hc)) (by simp; omega)
    obtain ⟨lead', xs', Q2, i2, f2, n2, d2, o2, m2, dd2⟩ := this
    have ec : charRun ch (ci :: rest) = charRun (putChar ch { ch.attr with unicode := captionUnicode ci }) rest := rfl
    have es : specRun v (ci :: rest) = specRun (v.putChar (Eia608.basicChar ci)) rest := rfl
    rw [ec, es]
    refine ⟨lead', xs', Q2, i2, pf.trans f2, by rw [n2, pside.1], ?_, ?_, m2, by rw [dd2, sp.1]⟩
    · intro r j hj; rw [d2 r j hj, pside.2 r j hj]
    · intro r c hr
      rw [o2 r c (by rw [s2]; exact hr)]
      have := sO r c hr
      rw [sp.2, spec_target_pop hvm] at this
      exact this


/-! ## page relations -/

/-- row `r` of the non-displayed memory shows what the reference memory `m` renders there -/
def HidRowOK (ch : Channel) (m : Mem) (r : Nat) : Prop :=
  ∀ j, j < 34 → ∃ c, ch.hcell r j = some c ∧ toRCell c = renderCell false m r j

/-- the displayed memory shows what the reference memory `m` renders -/
def DispOK (ch : Channel) (m : Mem) : Prop :=
  ∀ r, r < 15 → ∀ j, j < 34 → ∃ c, ch.dcell r j = some c ∧ toRCell c = renderCell false m r j

theorem wordBreak_false_noop {ch : Channel} (h : ch.col = ch.col1) : wordBreak ch false = ch := by
  unfold wordBreak
  have : ¬ ch.col > ch.col1 := by omega
  simp [this]

theorem hcell_fill {ch : Channel} (h : ChInv ch) {a n : Nat} (hi : a + n ≤ 34) (c : Cell) (s : String) (r j : Nat)
    (hj : j < 34) :
    (fill ch a n c s).hcell r j = if r = ch.row ∧ a ≤ j ∧ j < a + n then some c else ch.hcell r j := by
  have p := fill_pg h (a := a) (n := n) (by omega) c s
  have u := fill_upd h (a := a) (n := n) (by omega) c s
  have hl := pg_len h ch.hidden
  have hrow := h.row_le
  unfold Channel.hcell Page.cell
  rw [u.hidden, p.1, h.line_off, fillList_get _ _ _ _ _ (by rw [hl]; omega)]
  by_cases hc : r = ch.row ∧ a ≤ j ∧ j < a + n
  · rw [if_pos hc, if_pos (by obtain ⟨h1, h2, h3⟩ := hc; subst h1; omega)]
  · rw [if_neg hc]
    have : ¬ (ch.row * 34 + a ≤ r * 34 + j ∧ r * 34 + j < ch.row * 34 + a + n) := by
      intro hh
      apply hc
      rcases Nat.lt_trichotomy r ch.row with hlt | heq | hgt
      · omega
      · subst heq; omega
      · omega
    rw [if_neg this]

theorem dcell_fill {ch : Channel} (h : ChInv ch) {a n : Nat} (hi : a + n ≤ 35) (c : Cell) (s : String) (r j : Nat) :
    (fill ch a n c s).dcell r j = ch.dcell r j := by
  have p := fill_pg h (a := a) (n := n) hi c s
  have u := fill_upd h (a := a) (n := n) hi c s
  unfold Channel.dcell
  rw [u.hidden, p.2]

theorem displayed_get (ch : Channel) {r j : Nat} (hr : r < 15) (hj : j < 34) : ch.displayed[r * 34 + j]? = ch.dcell r j := by
  unfold Channel.displayed Channel.dcell Page.cell
  rw [take_get _ _ _ (by simp; omega)]

theorem nonDisplayed_get (ch : Channel) {r j : Nat} (hr : r < 15) (hj : j < 34) :
    ch.nonDisplayed[r * 34 + j]? = ch.hcell r j := by
  unfold Channel.nonDisplayed Channel.hcell Page.cell
  rw [take_get _ _ _ (by simp; omega)]

/-- an empty reference row is shown by a blank libzvbi row, and only by that -/
theorem hidRow_empty_iff {ch : Channel} {m : Mem} {r : Nat} (he : ∀ c, m r c = none) :
    HidRowOK ch m r ↔ ∀ j, j < 34 → ch.hcell r j = some tsC := by
  constructor
  · intro hk j hj
    obtain ⟨c, hc, e⟩ := hk j hj
    rw [render_emptyRow he, ← toRCell_ts] at e
    rw [hc, toRCell_inj e]
  · intro hk j hj
    exact ⟨tsC, hk j hj, by rw [render_emptyRow he, toRCell_ts]⟩

/-- closing the current row (solid spaces) makes it show the reference row -/
theorem close_row {ch : Channel} (h : ChInv ch) {m : Mem} {lead : Bool} {c0 : Nat} {xs : List SCell}
    (R : RowIs ch lead false c0 (xs.map toCell)) (S : SegRow m ch.row c0 xs) :
    SameBut ch (wordBreak ch false) ∧ HidRowOK (wordBreak ch false) m ch.row := by
  by_cases hx : xs = []
  · subst hx
    have hcol : ch.col = ch.col1 := by rw [R.col, R.col1]; simp
    rw [wordBreak_false_noop hcol]
    refine ⟨SameBut.refl _, ?_⟩
    have he : ∀ c, m ch.row c = none := by intro c; rw [S c]; simp
    rw [hidRow_empty_iff he]
    intro j hj
    rw [R.cells j hj]
    have hl : lead = false := by
      cases lead
      · rfl
      · exact absurd rfl (R.leadne rfl)
    simp [rowCell, hl]
    intro h1 h2; omega
  · have hne : xs.map toCell ≠ [] := by simpa using hx
    obtain ⟨sb, Rw⟩ := wordBreak_row h R hne
    refine ⟨sb, ?_⟩
    intro j hj
    have hfit : c0 + xs.length ≤ 33 := by have := R.fits; simpa using this
    refine ⟨_, by rw [← sb.upd.row]; exact Rw.cells j hj, ?_⟩
    rw [render_segRow S hx R.c0pos hfit j hj]
    simp only [List.length_map]


/-! ## Preamble Address Codes -/

/-- arguments of a PAC as the reference decoder reads them: row, indent, colour code, underline -/
def pacArgs (c1 c2 : Nat) : Option (Nat × Nat × Option Nat × Bool) :=
  if 0x40 ≤ c2 ∧ c2 ≤ 0x7F then
    match pacRow c1 ((c2 >>> 5) &&& 1 == 1) with
    | some r => some (r, (if c2 &&& 0x10 != 0 then ((c2 >>> 1) &&& 7) * 4 else 0),
                      (if c2 &&& 0x10 != 0 then none else some ((c2 >>> 1) &&& 7)), c2 &&& 1 == 1)
    | none => none
  else none

/-- `pacArgs` is what `Eia608.decodeCmd` produces -/
theorem decodeCmd_pac : ∀ c1 < 8, ∀ c2 < 128, 0x40 ≤ c2 →
    decodeCmd c1 c2 = (pacArgs c1 c2).map (fun a => (0, Cmd.pac a.1 a.2.1 a.2.2.1 a.2.2.2)) := by decide

/-- libzvbi's row table and indent arithmetic give the same row and column -/
theorem pacArgs_model' : ∀ c1 < 8, ∀ c2 < 128, 0x40 ≤ c2 →
    ((pacArgs c1 c2).all fun a => decide (
        rowMapping[(c1 <<< 1) + ((c2 >>> 5) &&& 1)]? = some (a.1 : Int) ∧ a.1 ≤ 14 ∧ a.2.1 ≤ 28 ∧
        (if c2 &&& 0x10 != 0 then (c2 &&& 14) * 2 else 0) = a.2.1 ∧
        a.2.2.1 = (if c2 &&& 0x10 != 0 then none else some ((c2 >>> 1) &&& 7)) ∧ a.2.2.2 = (c2 &&& 1 == 1))) = true := by
  decide

theorem pacArgs_model {c1 c2 : Nat} (h1 : c1 < 8) (h2 : c2 < 128) (h3 : 0x40 ≤ c2) {a : Nat × Nat × Option Nat × Bool}
    (ha : pacArgs c1 c2 = some a) :
    rowMapping[(c1 <<< 1) + ((c2 >>> 5) &&& 1)]? = some (a.1 : Int) ∧ a.1 ≤ 14 ∧ a.2.1 ≤ 28 ∧
    (if c2 &&& 0x10 != 0 then (c2 &&& 14) * 2 else 0) = a.2.1 ∧
    a.2.2.1 = (if c2 &&& 0x10 != 0 then none else some ((c2 >>> 1) &&& 7)) ∧ a.2.2.2 = (c2 &&& 1 == 1) := by
  have := pacArgs_model' c1 h1 c2 h2 h3
  rw [ha] at this
  simpa using this

/-- the pens agree after a PAC (both sides overwrite every pen attribute) -/
theorem pacPen_matches : ∀ c2 < 128, 0x40 ≤ c2 → ∀ (old : Cell) (v : Service),
    penMatches (pacPen old c2)
      (v.pen' ((if c2 &&& 0x10 != 0 then none else some ((c2 >>> 1) &&& 7) : Option Nat).getD 0) (c2 &&& 1 == 1) true) := by
  have key : ∀ c2 < 128, 0x40 ≤ c2 →
      penMatches (pacPen default c2)
        ((Service.init false).pen' ((if c2 &&& 0x10 != 0 then none else some ((c2 >>> 1) &&& 7) : Option Nat).getD 0)
          (c2 &&& 1 == 1) true) := by decide
  intro c2 h1 h2 old v
  have := key c2 h1 h2
  unfold penMatches pacPen Service.pen' at this ⊢
  repeat' split at this
  all_goals (repeat' split)
  all_goals first
    | exact this
    | (simp at *; try omega)


/-! ## the pop-on loading relation -/

/-- libzvbi channel `ch` and reference service `v` while a pop-on caption is loaded: the displayed memories agree,
    every finished row of the non-displayed memory shows the reference row, the current row is an open segment -/
structure PopRel (ch : Channel) (v : Service) : Prop where
  inv : ChInv ch
  idx : ch.idx < 4
  mode : ch.mode = .popOn
  vmode : v.mode = some .popOn
  disp : DispOK ch v.disp
  rows : ∀ r, r < 15 → r ≠ ch.row → HidRowOK ch v.nond r
  cur : ∃ lead c0 xs, RowIs ch lead false c0 (xs.map toCell) ∧ SegRow v.nond ch.row c0 xs
  pen : penMatches ch.attr v.pen

theorem tsC_of_chan {chan : Nat} (h : chan < 4) : transpSpace (decide (4 ≤ chan)) = tsC := by
  have : decide (4 ≤ chan) = false := by simp; omega
  rw [this]

theorem ts_of_idx4 {ch : Channel} (h : ch.idx < 4) : ch.ts = tsC := by
  unfold Channel.ts; exact tsC_of_chan h

/-- closing the current row: afterwards every row of the non-displayed memory shows the reference row -/
theorem close_all {ch : Channel} {m : Mem} (hinv : ChInv ch) (rows : ∀ r, r < 15 → r ≠ ch.row → HidRowOK ch m r)
    (cur : ∃ lead c0 xs, RowIs ch lead false c0 (xs.map toCell) ∧ SegRow m ch.row c0 xs) :
    SameBut ch (wordBreak ch false) ∧ ∀ r, r < 15 → HidRowOK (wordBreak ch false) m r := by
  obtain ⟨lead, c0, xs, R, S⟩ := cur
  obtain ⟨sb, hk⟩ := close_row hinv R S
  refine ⟨sb, ?_⟩
  intro r hr
  by_cases he : r = ch.row
  · rw [he]; exact hk
  · intro j hj
    rw [sb.rows r j hj he]
    exact rows r hr he j hj

theorem PopRel.close {ch : Channel} {v : Service} (P : PopRel ch v) :
    SameBut ch (wordBreak ch false) ∧ ∀ r, r < 15 → HidRowOK (wordBreak ch false) v.nond r :=
  close_all P.inv P.rows P.cur

theorem RowIs.transfer {a b : Channel} {lead trail : Bool} {c0 : Nat} {cs : List Cell} (R : RowIs b lead trail c0 cs)
    (h1 : a.col1 = b.col1) (h2 : a.col = b.col) (h3 : a.row = b.row) (h4 : ∀ j, j < 34 → a.hcell b.row j = b.hcell b.row j) :
    RowIs a lead trail c0 cs :=
  ⟨h1.trans R.col1, h2.trans R.col, R.c0pos, R.fits, fun j hj => by rw [h3, h4 j hj]; exact R.cells j hj, R.opq,
   R.leadok, R.leadne⟩

/-- cells, displayed memory and event count after the tab / indent loop -/
theorem tabFill_cells {y : Channel} (h : ChInv y) (n : Nat) (ts : Cell) :
    (∀ r j, j < 34 → (tabFill y n ts).hcell r j =
      if r = y.row ∧ y.col ≤ j ∧ j < y.col + min n (33 - y.col) then some ts else y.hcell r j) ∧
    (∀ r j, (tabFill y n ts).dcell r j = y.dcell r j) ∧ (tabFill y n ts).nev = y.nev ∧
    (tabFill y n ts).hidden = y.hidden ∧ (tabFill y n ts).idx = y.idx := by
  have hc := h.col_le
  unfold tabFill
  rw [columns_eq]
  show (∀ r j, j < 34 → (if min n (33 - y.col) = 0 then y else _).hcell r j = _) ∧ _
  by_cases hk : min n (33 - y.col) = 0
  · rw [if_pos hk, hk]
    refine ⟨fun r j _ => ?_, fun _ _ => rfl, rfl, rfl, rfl⟩
    rw [if_neg (by omega)]
  · rw [if_neg hk]
    have hle : y.col + min n (33 - y.col) ≤ 34 := by omega
    have u := fill_upd h (a := y.col) (n := min n (33 - y.col)) (by omega) ts "tab"
    refine ⟨fun r j hj => ?_, fun r j => ?_, ?_, ?_, u.idx⟩
    · show (fill y y.col (min n (33 - y.col)) ts "tab").hcell r j = _
      exact hcell_fill h hle ts _ r j hj
    · show (fill y y.col (min n (33 - y.col)) ts "tab").dcell r j = _
      exact dcell_fill h (by omega) ts _ r j
    · show (fill y y.col (min n (33 - y.col)) ts "tab").nev = _
      exact fill_nev' _ _ _ _ _
    · show (fill y y.col (min n (33 - y.col)) ts "tab").hidden = _
      exact u.hidden

theorem pacStyle_cells {y : Channel} (h : ChInv y) (chan c2 : Nat) :
    (∀ r j, j < 34 → (pacStyle y chan c2).hcell r j =
      if (c2 &&& 0x10 != 0) = true ∧ r = y.row ∧ y.col ≤ j ∧ j < y.col + min ((c2 &&& 14) * 2) (33 - y.col)
      then some (transpSpace (decide (4 ≤ chan))) else y.hcell r j) ∧
    (∀ r j, (pacStyle y chan c2).dcell r j = y.dcell r j) ∧ (pacStyle y chan c2).nev = y.nev ∧
    (pacStyle y chan c2).hidden = y.hidden ∧ (pacStyle y chan c2).idx = y.idx := by
  unfold pacStyle
  by_cases hi : (c2 &&& 0x10 != 0) = true
  · rw [if_pos hi]
    obtain ⟨t1, t2, t3, t4, t5⟩ := tabFill_cells h ((c2 &&& 14) * 2) (transpSpace (decide (4 ≤ chan)))
    refine ⟨fun r j hj => ?_, fun r j => t2 r j, t3, t4, t5⟩
    show (tabFill y _ _).hcell r j = _
    rw [t1 r j hj]
    simp only [hi, true_and]
  · rw [if_neg hi]
    unfold setColour
    split
    · exact ⟨fun r j _ => by rw [if_neg (fun hc => hi hc.1)]; rfl, fun _ _ => rfl, rfl, rfl, rfl⟩
    · exact ⟨fun r j _ => by rw [if_neg (fun hc => hi hc.1)]; rfl, fun _ _ => rfl, rfl, rfl, rfl⟩

/-- **PAC in pop-on mode**, addressed to a row that is empty in the reference non-displayed memory: both cursors go
    to that row, column 1 + indent, the pens agree, the row is an empty open segment; nothing is displayed -/
theorem pac_pop {ch : Channel} {v : Service} (P : PopRel ch v) {chan c1 c2 : Nat} (hchan : chan < 4) (h1 : c1 < 8)
    (h2 : c2 < 128) (h3 : 0x40 ≤ c2) {r ind : Nat} {col : Option Nat} {u : Bool}
    (ha : pacArgs c1 c2 = some (r, ind, col, u)) (hempty : ∀ c, v.nond r c = none) :
    PopRel (pac ch chan c1 c2) (v.exec (.pac r ind col u)) ∧
    RowSim (pac ch chan c1 c2) (v.exec (.pac r ind col u)) false (1 + ind) [] ∧
    (pac ch chan c1 c2).nev = ch.nev := by
  obtain ⟨hrm, hr14, hind, hie, hcol, hu⟩ := pacArgs_model h1 h2 h3 ha
  simp only at hrm hr14 hind hie hcol hu
  have hmn : ch.mode ≠ .none := by rw [P.mode]; decide
  have hr0 : (0 : Int) ≤ (r : Int) := Int.natCast_nonneg r
  have sp := pac_spec P.inv chan c1 c2 (by omega) (r : Int) hrm hr0 hmn
  obtain ⟨scol, scol1, srow, _, _, sattr, smode⟩ := sp
  have srow' : (pac ch chan c1 c2).row = r := by
    have := srow (by rw [P.mode]; decide); simpa using this
  have hpi := pac_inv P.inv chan c1 c2 (by omega)
  -- the cells
  have e := pac_eq ch chan c1 c2 (r : Int) hrm hr0 hmn
  have htoNat : (r : Int).toNat = r := by simp
  rw [htoNat] at e
  have hA : ChInv (pacAttr ch c2) := P.inv.withAttr _
  have PAcur : ∃ lead c0 xs, RowIs (pacAttr ch c2) lead false c0 (xs.map toCell) ∧ SegRow v.nond (pacAttr ch c2).row c0 xs := by
    obtain ⟨lead, c0, xs, R, S⟩ := P.cur
    exact ⟨lead, c0, xs, R.transfer rfl rfl rfl (fun _ _ => rfl), S⟩
  have hwb : wordBreak (pacAttr ch c2) true = wordBreak (pacAttr ch c2) false := by
    rw [wordBreak_true_eq]
    have : ((wordBreak (pacAttr ch c2) false).mode == .popOn) = true := by
      rw [(wordBreak_upd hA false).mode]; show (ch.mode == .popOn) = true; rw [P.mode]; rfl
    rw [if_pos this]
  obtain ⟨sb, hall⟩ := close_all hA (m := v.nond) P.rows PAcur
  rw [hwb] at e
  have hW := sb.upd.inv hA
  generalize wordBreak (pacAttr ch c2) false = w at e sb hall hW
  have hwm : w.mode = .popOn := by rw [sb.upd.mode]; exact P.mode
  have ec : pacCursor w r = setCursor w 1 r := by
    unfold pacCursor
    have : (w.mode == .rollUp) = false := by rw [hwm]; rfl
    rw [this]; rfl
  rw [ec] at e
  have hY : ChInv (setCursor w 1 r) := setCursor_inv hW (Nat.le_refl _) (by omega) hr14
  -- the new row is blank in `w`
  have hblank : ∀ j, j < 34 → w.hcell r j = some tsC := (hidRow_empty_iff hempty).1 (hall r (by omega))
  -- cells after pacStyle
  obtain ⟨hh, hd, hn, hhid, hidx⟩ := pacStyle_cells hY chan c2
  rw [← e] at hh hd hn hhid hidx
  have hcellsP : ∀ r' j, j < 34 → (pac ch chan c1 c2).hcell r' j = w.hcell r' j := by
    intro r' j hj
    rw [hh r' j hj]
    by_cases hc : (c2 &&& 0x10 != 0) = true ∧ r' = (setCursor w 1 r).row ∧ (setCursor w 1 r).col ≤ j ∧
        j < (setCursor w 1 r).col + min ((c2 &&& 14) * 2) (33 - (setCursor w 1 r).col)
    · rw [if_pos hc, tsC_of_chan hchan]
      have : r' = r := hc.2.1
      rw [this]; exact (hblank j hj).symm
    · rw [if_neg hc]; rfl
  -- the reference side
  have ev : v.exec (.pac r ind col u) = { v with row := r, col := 1 + ind, pen := v.pen' (col.getD 0) u true } := by
    unfold Service.exec; rw [P.vmode]
  have hpcol : (pac ch chan c1 c2).col = 1 + ind := by rw [scol, hie]
  have hRow : RowIs (pac ch chan c1 c2) false false (1 + ind) (([] : List SCell).map toCell) := by
    refine ⟨by rw [scol1, hpcol], by rw [hpcol]; rfl, by omega, by simp; omega, ?_, by simp, by simp, by simp⟩
    intro j hj
    rw [srow', hcellsP r j hj, hblank j hj]
    simp [rowCell]
    intro a b; omega
  have hSeg : SegRow v.nond r (1 + ind) [] := by
    intro c; rw [hempty c]; simp
  have hdisp : ∀ r' j, (pac ch chan c1 c2).dcell r' j = ch.dcell r' j := by
    intro r' j; rw [hd]; show w.dcell r' j = _; rw [sb.disp]; rfl
  have hnev : (pac ch chan c1 c2).nev = ch.nev := by rw [hn]; show w.nev = _; rw [sb.nev]; rfl
  have hpen : penMatches (pac ch chan c1 c2).attr (v.exec (.pac r ind col u)).pen := by
    rw [sattr, ev]
    have := pacPen_matches c2 h2 h3 ch.attr v
    rw [← hcol, ← hu] at this
    exact this
  refine ⟨⟨hpi, ?_, by rw [smode, P.mode], by rw [ev]; exact P.vmode, ?_, ?_, ?_, hpen⟩, ⟨hRow, ?_, ?_, ?_, hpen, ?_⟩, hnev⟩
  · rw [hidx]; show w.idx < 4; rw [sb.upd.idx]; exact P.idx
  · intro r' hr' j hj
    rw [hdisp, ev]; exact P.disp r' hr' j hj
  · intro r' hr' hne j hj
    rw [hcellsP r' j hj, ev]
    exact hall r' hr' j hj
  · refine ⟨false, 1 + ind, [], hRow, ?_⟩
    rw [ev, srow']; exact hSeg
  · rw [srow', spec_target_pop (by rw [ev]; exact P.vmode), ev]; exact hSeg
  · rw [ev, srow']
  · rw [ev, hpcol]
  · rw [ev]; rw [P.vmode]; simp


theorem renderCell_congr {t : Bool} {m m' : Mem} {r : Nat} (h : ∀ c, m r c = m' r c) (j : Nat) :
    renderCell t m r j = renderCell t m' r j := by
  have hi : ∀ c, inside m r c = inside m' r c := by intro c; unfold inside; rw [h c]
  unfold renderCell
  simp only [hi]

/-- text typed after a PAC in pop-on mode keeps the loading relation -/
theorem text_pop {ch : Channel} {v : Service} (P : PopRel ch v) {lead : Bool} {c0 : Nat} {xs : List SCell}
    (Q : RowSim ch v lead c0 xs) (cs : List Nat) (hw : ∀ ci ∈ cs, isCharCode ci = true)
    (hlen : c0 + xs.length + cs.length ≤ 33) :
    PopRel (charRun ch cs) (specRun v cs) ∧ (charRun ch cs).nev = ch.nev ∧
    ∃ lead' xs', RowSim (charRun ch cs) (specRun v cs) lead' c0 xs' := by
  obtain ⟨lead', xs', Q2, i2, f2, n2, d2, o2, m2, dd2⟩ := text_sim_pop c0 cs P.inv P.mode P.vmode Q hw hlen
  refine ⟨⟨i2, by rw [f2.idx]; exact P.idx, by rw [f2.mode]; exact P.mode, m2, ?_, ?_, ?_, Q2.pen⟩, n2, lead', xs', Q2⟩
  · intro r hr j hj
    rw [d2 r j hj, dd2]; exact P.disp r hr j hj
  · intro r hr hne j hj
    rw [f2.row] at hne
    rw [f2.rows r j hj hne]
    obtain ⟨c, hc, e⟩ := P.rows r hr hne j hj
    refine ⟨c, hc, ?_⟩
    rw [e]
    exact (renderCell_congr (fun c => o2 r c (by rw [Q.vrow]; exact hne)) j).symm
  · refine ⟨lead', c0, xs', Q2.R, ?_⟩
    have := Q2.S
    rw [spec_target_pop m2] at this
    exact this

/-! ## captions -/

/-- one row of a pop-on caption: a PAC and the text typed after it -/
structure PRow where
  c1 : Nat
  c2 : Nat
  text : List Nat

def popRowModel (chan : Nat) (ch : Channel) (it : PRow) : Channel := charRun (pac ch chan it.c1 it.c2) it.text

def popRowSpec (v : Service) (it : PRow) : Service :=
  match pacArgs it.c1 it.c2 with
  | some (r, ind, col, u) => specRun (v.exec (.pac r ind col u)) it.text
  | none => v

/-- well-formed row, judged on the reference state: a defined PAC whose row is still empty in the non-displayed
    memory, followed by characters 0x20..0x7F that fit into the row -/
def PRow.ok (v : Service) (it : PRow) : Prop :=
  it.c1 < 8 ∧ it.c2 < 128 ∧ 0x40 ≤ it.c2 ∧
  ∃ r ind col u, pacArgs it.c1 it.c2 = some (r, ind, col, u) ∧ (∀ c, v.nond r c = none) ∧
    (∀ ci ∈ it.text, isCharCode ci = true) ∧ 1 + ind + it.text.length ≤ 33

def rowsOk : Service → List PRow → Prop
  | _, [] => True
  | v, it :: rest => it.ok v ∧ rowsOk (popRowSpec v it) rest

theorem popRow_step {ch : Channel} {v : Service} (P : PopRel ch v) {chan : Nat} (hchan : chan < 4) (it : PRow)
    (hok : it.ok v) : PopRel (popRowModel chan ch it) (popRowSpec v it) ∧ (popRowModel chan ch it).nev = ch.nev := by
  obtain ⟨h1, h2, h3, r, ind, col, u, ha, hempty, hw, hlen⟩ := hok
  obtain ⟨P1, Q1, n1⟩ := pac_pop P hchan h1 h2 h3 ha hempty
  unfold popRowModel popRowSpec
  rw [ha]
  obtain ⟨P2, n2, _⟩ := text_pop P1 Q1 it.text hw (by simpa using hlen)
  exact ⟨P2, by rw [n2, n1]⟩

theorem popRows_steps (chan : Nat) (hchan : chan < 4) (rows : List PRow) : ∀ {ch : Channel} {v : Service},
    PopRel ch v → rowsOk v rows →
    PopRel (rows.foldl (popRowModel chan) ch) (rows.foldl popRowSpec v) ∧ (rows.foldl (popRowModel chan) ch).nev = ch.nev := by
  induction rows with
  | nil => intro ch v P _; exact ⟨P, rfl⟩
  | cons it rest ih =>
    intro ch v P hok
    obtain ⟨P1, n1⟩ := popRow_step P hchan it hok.1
    obtain ⟨P2, n2⟩ := ih P1 hok.2
    exact ⟨P2, by rw [List.foldl_cons, n2, n1]⟩

end Zvbi.Cc
