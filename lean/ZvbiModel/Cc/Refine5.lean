import ZvbiModel.Cc.Refine4
/-!
# Refinement to `Eia608`, part 5: text in roll-up / paint-on mode (characters go to the displayed memory)
-/
namespace Zvbi.Cc
open Zvbi.Gen.Cc Eia608

/-- the reference service writes to its displayed memory -/
def directMode (v : Service) : Prop := v.mode ≠ none ∧ v.mode ≠ some .popOn

theorem spec_target_dir {v : Service} (hm : directMode v) : v.target = v.disp := by
  unfold Service.target; rw [if_neg hm.2]

theorem spec_putChar_dir {v : Service} (hm : directMode v) (u : Nat) :
    (v.putChar u).nond = v.nond ∧ (v.putChar u).mode = v.mode ∧ (v.putChar u).base = v.base := by
  simp [Service.putChar, Service.setTarget, hm.1, hm.2]

/-- the displayed row under the cursor is up to date whenever the last typed character is a space -/
def RowSynced (ch : Channel) (lead : Bool) (cs : List Cell) : Prop :=
  cs ≠ [] → (cs.getD (cs.length - 1) default).isSpace = true →
    lead = (!(cs.getD 0 default).isSpace) ∧ ∀ j, j < 34 → ch.dcell ch.row j = ch.hcell ch.row j

/-- text typed in roll-up / paint-on mode: both models extend the segment of the current row; libzvbi copies the
    row to the displayed memory at every space, rows other than the current one are not touched -/
theorem text_sim_dir (c0 : Nat) (cs : List Nat) : ∀ {ch : Channel} {v : Service} {lead : Bool} {xs : List SCell},
    ChInv ch → ch.mode ≠ .popOn → directMode v → RowSim ch v lead c0 xs → RowSynced ch lead (xs.map toCell) →
    (∀ ci ∈ cs, isCharCode ci = true) → c0 + xs.length + cs.length ≤ 33 →
    ∃ lead' xs', xs' = xs ++ cs.map (fun ci => ({ ch := Eia608.basicChar ci, pen := v.pen } : SCell)) ∧
      RowSim (charRun ch cs) (specRun v cs) lead' c0 xs' ∧ RowSynced (charRun ch cs) lead' (xs'.map toCell) ∧
      ChInv (charRun ch cs) ∧ Frame ch (charRun ch cs) ∧ ch.nev ≤ (charRun ch cs).nev ∧
      (∀ r j, j < 34 → r ≠ ch.row → (charRun ch cs).dcell r j = ch.dcell r j) ∧
      (∀ r c, r ≠ v.row → (specRun v cs).disp r c = v.disp r c) ∧
      (specRun v cs).mode = v.mode ∧ (specRun v cs).nond = v.nond ∧ (specRun v cs).base = v.base := by
  induction cs with
  | nil =>
    intro ch v lead xs h _ _ Q sy _ _
    exact ⟨lead, xs, by simp, Q, sy, h, Frame.refl _, Nat.le_refl _, fun _ _ _ _ => rfl, fun _ _ _ => rfl, rfl, rfl, rfl⟩
  | cons ci rest ih =>
    intro ch v lead xs h hm hd Q sy hw hlen
    have hlen' : c0 + xs.length + (rest.length + 1) ≤ 33 := by simpa using hlen
    have st := putChar_sim h Q ci (hw ci (List.mem_cons_self ..)) (by omega)
    simp only at st
    obtain ⟨hcx, Q1, sO, pi, pf, pside⟩ := st
    obtain ⟨s1, s2, s3, s4, _⟩ := spec_putChar_step v (Eia608.basicChar ci) Q.vmode (by
      have := Q.vcol; have := Q.R.col; have : (xs.map toCell).length = xs.length := List.length_map _; omega)
    have sd := spec_putChar_dir hd (Eia608.basicChar ci)
    have hd1 : directMode (v.putChar (Eia608.basicChar ci)) := by unfold directMode; rw [sd.2.1]; exact hd
    have hbase : (v.putChar (Eia608.basicChar ci)).base = v.base := sd.2.2
    -- the new row is in sync iff the character was a space
    have sy1 : RowSynced (putChar ch { ch.attr with unicode := captionUnicode ci })
        (if ({ ch.attr with unicode := captionUnicode ci } : Cell).isSpace then
          !(((xs ++ [({ ch := Eia608.basicChar ci, pen := v.pen } : SCell)]).map toCell).getD 0 default).isSpace else lead)
        ((xs ++ [({ ch := Eia608.basicChar ci, pen := v.pen } : SCell)]).map toCell) := by
      intro _ hlast
      have hmap : (xs ++ [({ ch := Eia608.basicChar ci, pen := v.pen } : SCell)]).map toCell =
          xs.map toCell ++ [{ ch.attr with unicode := captionUnicode ci }] := by rw [List.map_append, hcx]; rfl
      have hl : ((xs ++ [({ ch := Eia608.basicChar ci, pen := v.pen } : SCell)]).map toCell).length - 1 = (xs.map toCell).length := by
        simp
      rw [hl, hmap, getD_snoc_eq] at hlast
      rw [if_pos hlast]
      rw [if_pos ⟨hlast, hm⟩] at pside
      refine ⟨rfl, ?_⟩
      intro j hj
      rw [pside.2 _ j hj, pf.row, if_pos rfl]
    have dother : ∀ r j, j < 34 → r ≠ ch.row →
        (putChar ch { ch.attr with unicode := captionUnicode ci }).dcell r j = ch.dcell r j := by
      intro r j hj hr
      by_cases hc : ({ ch.attr with unicode := captionUnicode ci } : Cell).isSpace = true ∧ ch.mode ≠ .popOn
      · rw [if_pos hc] at pside; rw [pside.2 r j hj, if_neg hr]
      · rw [if_neg hc] at pside; exact pside.2 r j hj
    have nge : ch.nev ≤ (putChar ch { ch.attr with unicode := captionUnicode ci }).nev := by
      by_cases hc : ({ ch.attr with unicode := captionUnicode ci } : Cell).isSpace = true ∧ ch.mode ≠ .popOn
      · rw [if_pos hc] at pside; rw [pside.1]; omega
      · rw [if_neg hc] at pside; rw [pside.1]; omega
    have := ih (ch := putChar ch { ch.attr with unicode := captionUnicode ci }) (v := v.putChar (Eia608.basicChar ci))
      pi (by rw [pf.mode]; exact hm) hd1 Q1 sy1 (fun c hc => hw c (List.mem_cons_of_mem _ hc)) (by simp; omega)
    obtain ⟨lead', xs', ex, Q2, sy2, i2, f2, n2, d2, o2, m2, nn2, b2⟩ := this
    have ec : charRun ch (ci :: rest) = charRun (putChar ch { ch.attr with unicode := captionUnicode ci }) rest := rfl
    have es : specRun v (ci :: rest) = specRun (v.putChar (Eia608.basicChar ci)) rest := rfl
    rw [ec, es]
    refine ⟨lead', xs', by rw [ex, s3]; simp, Q2, sy2, i2, pf.trans f2, by omega, ?_, ?_, by rw [m2, sd.2.1], by rw [nn2, sd.1],
      by rw [b2, hbase]⟩
    · intro r j hj hr
      rw [d2 r j hj (by rw [pf.row]; exact hr), dother r j hj hr]
    · intro r c hr
      rw [o2 r c (by rw [s2]; exact hr)]
      have := sO r c hr
      rw [spec_target_dir hd1, spec_target_dir hd] at this
      exact this

end Zvbi.Cc
