import ZvbiModel.Generated.CcLang
/-!
# Model of `vbi_caption_unicode()` (src/lang.c), all four tables, both columns

Statement by statement; the tables and every constant of the function come from the current source through
translate/gen_cclang.py (`Generated/CcLang.lean`).  A table index outside the declared extent (or a wrapped
unsigned subtraction) gives `none`; `Props/C08Lang.lean` proves that never happens.
-/
namespace Zvbi.Cc.Lang
open Zvbi.Gen.CcLang

/-- `table[c - off][to_upper]`; `c - off` is an unsigned subtraction: it wraps (far outside the table) when `c < off` -/
def look (t : List (Nat × Nat)) (c off : Nat) (toUpper : Bool) : Option Nat :=
  if c < off then none else (t[c - off]?).map (fun p => if toUpper then p.2 else p.1)

/-- `c &= ~mask` on a 32-bit unsigned -/
def clearMask (c : Nat) : Nat := c &&& (0xFFFFFFFF - chanMask)

/-- `vbi_caption_unicode (c, to_upper)`, `c` an `unsigned int` -/
def captionUnicode (c : Nat) (toUpper : Bool) : Option Nat :=
  if c < basicHi then
    if c ≥ basicLo then look capBasic c basicOff toUpper else some 0
  else
    let c := clearMask c
    if c < splitHi then
      if c < specialHi ∧ c ≥ specialLo then look capSpecial c specialOff toUpper
      else if c ≥ ext2Lo then look capExt2 c ext2Off toUpper
      else some 0
    else if c < ext3Hi ∧ c ≥ ext3Lo then look capExt3 c ext3Off toUpper
    else some 0

end Zvbi.Cc.Lang
