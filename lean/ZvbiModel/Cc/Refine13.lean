import ZvbiModel.Cc.Refine12
/-!
# Refinement to `Eia608`, part 13: pop-on caption streams as byte pairs (field 1, CC1) from the fresh decoder
-/
namespace Zvbi.Cc
open Zvbi.Gen.Cc Eia608
open Zvbi.Hamm (par8 unpar8)

theorem putChar_isText (v : Service) (u : Nat) : (v.putChar u).isText = v.isText := by
  unfold Service.putChar Service.setTarget
  repeat' split
  all_goals rfl

theorem specRun_isText (cs : List Nat) : ∀ v : Service, (specRun v cs).isText = v.isText := by
  induction cs with
  | nil => intro v; rfl
  | cons c rest ih => intro v; show (specRun (v.putChar _) rest).isText = _; rw [ih, putChar_isText]

theorem exec_isText (v : Service) (cmd : Cmd) : (v.exec cmd).isText = v.isText := by
  cases cmd <;> unfold Service.exec <;> simp only []
  all_goals (repeat' split)
  all_goals first
    | rfl
    | exact putChar_isText _ _
    | (unfold Service.setTarget; split <;> rfl)


/-- both decoders while a pop-on caption for CC1 is being loaded -/
def SimPop (s : St) (t : Eia608.St) (cu : Bool) : Prop :=
  ∃ ch v, Lift s ch ∧ SLift t v ∧ t.f1.cur = some (false, 0) ∧ v.isText = false ∧ PopRelC ch v cu

/-- both decoders between captions -/
def SimIdle (s : St) (t : Eia608.St) : Prop :=
  ∃ ch v, Lift s ch ∧ SLift t v ∧ v.isText = false ∧ IdleRel ch v

/-- well-formed body op at the byte level, judged on the reference decoder's CC1 service -/
def BOp.ok (t : Eia608.St) (cu : Bool) (op : BOp) : Prop :=
  op.bytesOk ∧ ∃ v, t.svc[0]? = some v ∧ op.toPOp.okPop v cu

def bopsOk : Eia608.St → Bool → List BOp → Prop
  | _, _, [] => True
  | t, cu, op :: rest => op.ok t cu ∧ bopsOk (sfeed t op.enc) (op.toPOp.cursorAfter cu) rest

theorem bop_step {s : St} {t : Eia608.St} {cu : Bool} (S : SimPop s t cu) (op : BOp) (hok : op.ok t cu) :
    SimPop (feed s op.enc) (sfeed t op.enc) (op.toPOp.cursorAfter cu) := by
  obtain ⟨ch, v, L, SL, hcur, hcap, P⟩ := S
  obtain ⟨hb, v', hv', hokp⟩ := hok
  have hvv : v' = v := by rw [SL.get] at hv'; cases hv'; rfl
  subst hvv
  cases op with
  | pac lo c2 =>
    obtain ⟨h1, h2, h3, r, ind, col, u, ha, he⟩ := hokp
    have hstep := popOp_step P (chan := 0) (by omega) (.pac lo c2) ⟨h1, h2, h3, r, ind, col, u, ha, he⟩
    have hd : decodeCmd (0x10 + lo) c2 = some (0, .pac r ind col u) := by
      rw [decodeCmd_pac1 lo h1 c2 h2, decodeCmd_pac lo h1 c2 h2 h3, ha]; rfl
    have L' := lift_of_cmd L (c1 := 0x10 + lo) (c2 := c2) (by omega) (by omega) h2
      (F := fun ch => pac ch 0 lo c2) (by rw [cc1_pac L.cur h1 h3]; exact cmd_mod L _)
    obtain ⟨SL', hcur'⟩ := spec_cmd_twice SL hcur (c1 := 0x10 + lo) (c2 := c2) (by omega) (by omega) h2 hd
      (Or.inl ⟨r, ind, col, u, rfl⟩)
    refine ⟨pac ch 0 lo c2, v'.exec (.pac r ind col u), ?_, ?_, ?_, by rw [exec_isText]; exact hcap, ?_⟩
    · show Lift (feed s (ctl (0x10 + lo) c2)) _
      rw [feed_ctl s (by omega) h2]; exact L'
    · show SLift (sfeed t (ctl (0x10 + lo) c2)) _
      rw [sfeed_ctl]; exact SL'
    · show (sfeed t (ctl (0x10 + lo) c2)).f1.cur = _
      rw [sfeed_ctl]; exact hcur'
    · have : paintOpSpec v' (.pac lo c2) = v'.exec (.pac r ind col u) := by unfold paintOpSpec; simp only [ha]
      rw [← this]; exact hstep
  | pair a b =>
    obtain ⟨ha, ha', hbb⟩ := hb
    obtain ⟨hc, hw, hl⟩ := hokp
    subst hc
    have hmode : ch.mode ≠ .none := by rw [P.rel.mode]; decide
    have hb128 : b < 128 := by rcases hbb with h | h <;> omega
    have L' := lift_text L hmode ha ha' hbb
    obtain ⟨SL', hcur'⟩ := spec_text SL hcur ha ha' hbb
    have hstep := popOp_step (P.nul 0) (chan := 0) (by omega) (.text (pairCodes a b)) ⟨rfl, hw, hl⟩
    refine ⟨charRun { ch with nulCt := 0 } (pairCodes a b), specRun v' (pairCodes a b), ?_, ?_, ?_,
      by rw [specRun_isText]; exact hcap, hstep⟩
    · show Lift (feed s (txt a b)) _
      rw [feed_txt s (by omega) hb128]; exact L'
    · show SLift (sfeed t (txt a b)) _
      rw [sfeed_txt]; exact SL'
    · show (sfeed t (txt a b)).f1.cur = _
      rw [sfeed_txt]; exact hcur'

theorem bops_steps (ops : List BOp) : ∀ {s : St} {t : Eia608.St} {cu : Bool}, SimPop s t cu → bopsOk t cu ops →
    ∃ cu', SimPop (feed s (ops.flatMap BOp.enc)) (sfeed t (ops.flatMap BOp.enc)) cu' := by
  induction ops with
  | nil => intro s t cu S _; exact ⟨cu, S⟩
  | cons op rest ih =>
    intro s t cu S hok
    have S1 := bop_step S op hok.1
    obtain ⟨cu', S2⟩ := ih S1 hok.2
    refine ⟨cu', ?_⟩
    rw [List.flatMap_cons, feed_append, sfeed_append]
    exact S2

/-- the byte pairs of one pop-on caption for CC1: `RCL RCL ENM ENM <body> EOC EOC` -/
def encCaption (ops : List BOp) : List (Bool × Nat × Nat) :=
  ctl 0x14 0x20 ++ (ctl 0x14 0x2E ++ (ops.flatMap BOp.enc ++ ctl 0x14 0x2F))

def captionOkB (t : Eia608.St) (ops : List BOp) : Prop :=
  bopsOk (sfeed (sfeed t (ctl 0x14 0x20)) (ctl 0x14 0x2E)) false ops

theorem caption_bytes {s : St} {t : Eia608.St} (S : SimIdle s t) (ops : List BOp) (hok : captionOkB t ops) :
    SimIdle (feed s (encCaption ops)) (sfeed t (encCaption ops)) := by
  obtain ⟨ch, v, L, SL, hcap, I⟩ := S
  unfold encCaption
  rw [feed_append, sfeed_append, feed_append, sfeed_append, feed_append, sfeed_append]
  -- RCL
  have cc := cc1_commands L.cur
  have L1 : Lift (feed s (ctl 0x14 0x20)) (rclModel ch) := by
    rw [feed_ctl s (by omega) (by omega)]
    exact lift_of_cmd L (by omega) (by omega) (by omega) (F := fun x => rclModel ch)
      (by rw [cc.1]; exact cmd_switch L _)
  obtain ⟨SL1, cur1⟩ := spec_mode_twice SL (c1 := 0x14) (c2 := 0x20) (by omega) (by omega) (by omega)
    (cmd := .rcl) (by decide) (Or.inl rfl)
  rw [← sfeed_ctl] at SL1 cur1
  -- ENM
  have cc2 := cc1_commands L1.cur
  have L2 : Lift (feed (feed s (ctl 0x14 0x20)) (ctl 0x14 0x2E)) (eraseNonDisplayed (rclModel ch)) := by
    rw [feed_ctl _ (by omega) (by omega)]
    exact lift_of_cmd L1 (by omega) (by omega) (by omega) (F := eraseNonDisplayed)
      (by rw [cc2.2.2.2.1]; exact cmd_mod L1 _)
  obtain ⟨SL2, cur2⟩ := spec_cmd_twice SL1 cur1 (c1 := 0x14) (c2 := 0x2E) (by omega) (by omega) (by omega)
    (cmd := .enm) (by decide) (Or.inr (Or.inl rfl))
  rw [← sfeed_ctl] at SL2 cur2
  have P0 : PopRelC (eraseNonDisplayed (rclModel ch)) ((v.exec .rcl).exec .enm) false :=
    ⟨rcl_enm_step I, fun h => by cases h⟩
  have S0 : SimPop (feed (feed s (ctl 0x14 0x20)) (ctl 0x14 0x2E)) (sfeed (sfeed t (ctl 0x14 0x20)) (ctl 0x14 0x2E)) false :=
    ⟨_, _, L2, SL2, cur2, by rw [exec_isText, exec_isText]; exact hcap, P0⟩
  -- body
  obtain ⟨cu', ch3, v3, L3, SL3, cur3, cap3, P3⟩ := bops_steps ops S0 hok
  -- EOC
  have cc3 := cc1_commands L3.cur
  have L4 : Lift (feed (feed (feed (feed s (ctl 0x14 0x20)) (ctl 0x14 0x2E)) (ops.flatMap BOp.enc)) (ctl 0x14 0x2F))
      (endOfCaption ch3) := by
    rw [feed_ctl _ (by omega) (by omega), ← eoc_after_switch P3.rel]
    exact lift_of_cmd L3 (by omega) (by omega) (by omega) (F := fun x => endOfCaption (wordBreak ch3 true))
      (by rw [cc3.2.2.1]; exact cmd_switch L3 _)
  obtain ⟨SL4, _⟩ := spec_mode_twice SL3 (c1 := 0x14) (c2 := 0x2F) (by omega) (by omega) (by omega)
    (cmd := .eoc) (by decide) (Or.inr (Or.inr (Or.inr rfl)))
  rw [← sfeed_ctl] at SL4
  exact ⟨_, _, L4, SL4, by rw [exec_isText]; exact cap3, (eoc_step P3.rel).1⟩


/-- in an idle state the page fetched for CC1 is the page the reference decoder makes visible for CC1 -/
theorem visible_of_simIdle {s : St} {t : Eia608.St} (S : SimIdle s t) : modelVisible s 0 = some (t.visible 0) := by
  obtain ⟨ch, v, L, SL, hcap, I⟩ := S
  have pm := pageMatches_of_dispOK I.inv I.disp
  unfold modelVisible Eia608.St.visible
  rw [L.get, SL.get]
  simp only [Option.map_some]
  unfold pageMatches at pm
  rw [pm, hcap]

def streamOkB : Eia608.St → List (List BOp) → Prop
  | _, [] => True
  | t, c :: rest => captionOkB t c ∧ streamOkB (sfeed t (encCaption c)) rest

theorem stream_bytes (caps : List (List BOp)) : ∀ {s : St} {t : Eia608.St}, SimIdle s t → streamOkB t caps →
    ∀ n, n ≤ caps.length →
      SimIdle (feed s ((caps.take n).flatMap encCaption)) (sfeed t ((caps.take n).flatMap encCaption)) := by
  induction caps with
  | nil => intro s t S _ n hn; simp at hn; subst hn; exact S
  | cons c rest ih =>
    intro s t S hok n hn
    cases n with
    | zero => exact S
    | succ k =>
      have S1 := caption_bytes S c hok.1
      have := ih S1 hok.2 k (by simpa using hn)
      rw [List.take_succ_cons, List.flatMap_cons, feed_append, sfeed_append]
      exact this

theorem init_simIdle : SimIdle init Eia608.init := by
  obtain ⟨ch, hget, I⟩ := init_idle 0 (by omega)
  exact ⟨ch, Service.init false, ⟨init_inv, rfl, rfl, hget⟩, ⟨rfl, rfl⟩, rfl, I⟩

end Zvbi.Cc
