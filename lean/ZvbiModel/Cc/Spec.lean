import ZvbiModel.Hamm.Model
/-!
# `Eia608`: reference display-memory model of Line 21 captioning (47 CFR 15.119 / EIA-608)

Written from the standard, not from libzvbi: per field a "current service" selector, per
service (CC1-4, T1-4) a mode, a displayed and a non-displayed 15 x 32 memory, a cursor, pen
attributes and a roll-up window.  Code tables (PAC rows, colours, character set) are written
out here independently of libzvbi's `row_mapping[]`, `palette_mapping[]`, `caption[][]`.

The only libzvbi-specific part is `render`: libzvbi's page has 34 columns, columns 0 and 33
(and cells next to text inside the row) carry the *solid space* that 15.119 (d)(1) asks the
decoder to put before and after each displayed row segment.  `render` states that rule
declaratively: a transparent cell whose right (left) neighbour is a displayed non-space
character is a space with that neighbour's attributes.

Where the standard is silent or libzvbi implements an optional feature differently the check
restricts the scripts it compares (`checks/C08.py`, "well-formed"); NOTES/C08.md lists each
restriction.  Colours are vbi_color values: red = 1, green = 2, blue = 4 (additive).
-/
namespace Zvbi.Cc.Eia608

/-- colour from its additive components -/
def rgb (r g b : Bool) : Nat := (if r then 1 else 0) + (if g then 2 else 0) + (if b then 4 else 0)

/-- 15.119 (h): the seven foreground colours in code order white, green, blue, cyan, red, yellow, magenta -/
def colourOfCode : Nat → Nat
  | 0 => rgb true true true | 1 => rgb false true false | 2 => rgb false false true
  | 3 => rgb false true true | 4 => rgb true false false | 5 => rgb true true false
  | 6 => rgb true false true | _ => rgb true true true

structure Pen where
  fg : Nat := 7
  italic : Bool := false
  underline : Bool := false
  flash : Bool := false
  bg : Nat := 0
  semi : Bool := false
deriving DecidableEq, Repr, Inhabited

structure SCell where
  ch : Nat
  pen : Pen
deriving DecidableEq, Repr, Inhabited

/-- display memory: row 0..14, column 1..32 -/
abbrev Mem := Nat → Nat → Option SCell

def Mem.empty : Mem := fun _ _ => none
def Mem.set (m : Mem) (r c : Nat) (v : Option SCell) : Mem :=
  fun r' c' => if r' = r ∧ c' = c then v else m r' c'

inductive Style | popOn | rollUp (n : Nat) | paintOn | text
deriving DecidableEq, Repr, Inhabited

structure Service where
  isText : Bool
  mode : Option Style
  disp : Mem
  nond : Mem
  row : Nat
  col : Nat
  pen : Pen
  base : Nat
deriving Inhabited

def Service.init (isText : Bool) : Service :=
  { isText := isText, mode := if isText then some .text else none, disp := Mem.empty, nond := Mem.empty,
    row := if isText then 0 else 14, col := 1, pen := {}, base := 14 }

/-- memory that receives characters: non-displayed in pop-on mode, displayed otherwise -/
def Service.target (s : Service) : Mem := if s.mode = some .popOn then s.nond else s.disp
def Service.setTarget (s : Service) (m : Mem) : Service :=
  if s.mode = some .popOn then { s with nond := m } else { s with disp := m }

/-- a character at the cursor; in column 32 the cursor stays and the cell is overwritten -/
def Service.putChar (s : Service) (u : Nat) : Service :=
  if s.mode = none then s else
  let c := if s.col ≤ 32 then s.col else 32
  let s' := s.setTarget (s.target.set s.row c (some { ch := u, pen := s.pen }))
  { s' with col := if s.col ≤ 32 then s.col + 1 else s.col }

inductive Cmd
  | pac (row : Nat) (indent : Nat) (colour : Option Nat) (underline : Bool)  -- colour none = indent form; some 7 = italics
  | midRow (colour : Nat) (underline : Bool)                                  -- colour 7 = italics
  | special (k : Nat)
  | rcl | bs | der | ru (n : Nat) | fon | rdc | tr | rtd | edm | cr | enm | eoc
  | tab (n : Nat)
deriving DecidableEq, Repr

/-- 15.119 (f)(1): PAC row table, first byte low bits x second byte bit 5 -> row (0-based) -/
def pacRow (c1low : Nat) (hi : Bool) : Option Nat :=
  match c1low, hi with
  | 1, false => some 0 | 1, true => some 1 | 2, false => some 2 | 2, true => some 3
  | 5, false => some 4 | 5, true => some 5 | 6, false => some 6 | 6, true => some 7
  | 7, false => some 8 | 7, true => some 9 | 0, false => some 10
  | 3, false => some 11 | 3, true => some 12 | 4, false => some 13 | 4, true => some 14
  | _, _ => none

/-- control pair (7-bit values, c1 in 0x10..0x1F, c2 in 0x20..0x7F) -> (channel bit, command);
    `none` for codes the standard leaves optional/undefined -/
def decodeCmd (c1 c2 : Nat) : Option (Nat × Cmd) :=
  let k := (c1 >>> 3) &&& 1
  let lo := c1 &&& 7
  if 0x40 ≤ c2 ∧ c2 ≤ 0x7F then
    match pacRow lo ((c2 >>> 5) &&& 1 == 1) with
    | some r =>
      let u := c2 &&& 1 == 1
      if c2 &&& 0x10 != 0 then some (k, .pac r (((c2 >>> 1) &&& 7) * 4) none u)
      else some (k, .pac r 0 (some ((c2 >>> 1) &&& 7)) u)
    | none => none
  else if lo = 1 ∧ 0x20 ≤ c2 ∧ c2 ≤ 0x2F then some (k, .midRow ((c2 >>> 1) &&& 7) (c2 &&& 1 == 1))
  else if lo = 1 ∧ 0x30 ≤ c2 ∧ c2 ≤ 0x3F then some (k, .special (c2 &&& 15))
  else if (lo = 4 ∨ lo = 5) ∧ 0x20 ≤ c2 ∧ c2 ≤ 0x2F then
    match c2 &&& 15 with
    | 0 => some (k, .rcl) | 1 => some (k, .bs) | 4 => some (k, .der)
    | 5 => some (k, .ru 2) | 6 => some (k, .ru 3) | 7 => some (k, .ru 4)
    | 8 => some (k, .fon) | 9 => some (k, .rdc) | 10 => some (k, .tr) | 11 => some (k, .rtd)
    | 12 => some (k, .edm) | 13 => some (k, .cr) | 14 => some (k, .enm) | 15 => some (k, .eoc)
    | _ => none
  else if lo = 7 ∧ 0x21 ≤ c2 ∧ c2 ≤ 0x23 then some (k, .tab (c2 &&& 3))
  else none

/-- 15.119 (g): basic character set = ASCII with ten substitutions -/
def basicChar (c : Nat) : Nat :=
  match c with
  | 0x2A => 0xE1 | 0x5C => 0xE9 | 0x5E => 0xED | 0x5F => 0xF3 | 0x60 => 0xFA
  | 0x7B => 0xE7 | 0x7C => 0xF7 | 0x7D => 0xD1 | 0x7E => 0xF1 | 0x7F => 0x25A0
  | c => c

/-- 15.119 (g): special characters 0x30..0x3F of the second byte (9 = transparent space) -/
def specialChar (k : Nat) : Nat :=
  match k with
  | 0 => 0xAE | 1 => 0xB0 | 2 => 0xBD | 3 => 0xBF | 4 => 0x2122 | 5 => 0xA2 | 6 => 0xA3 | 7 => 0x266A
  | 8 => 0xE0 | 9 => 0x20 | 10 => 0xE8 | 11 => 0xE2 | 12 => 0xEA | 13 => 0xEE | 14 => 0xF4 | _ => 0xFB

/-- rows `top..base` move up one row, `base` becomes empty -/
def rollWindow (m : Mem) (top base : Nat) : Mem :=
  fun r c => if top ≤ r ∧ r < base then m (r + 1) c else if r = base then none else m r c

/-- window of depth `n` moves from base row `old` to base row `new` -/
def moveWindow (m : Mem) (n old new : Nat) : Mem :=
  fun r c =>
    if new + 1 - n ≤ r ∧ r ≤ new then m (r + old - new) c
    else if old + 1 - n ≤ r ∧ r ≤ old then none
    else m r c

def Service.pen' (s : Service) (colour : Nat) (underline : Bool) (fromPac : Bool) : Pen :=
  if colour = 7 then
    -- italics: a PAC gives white italics; a mid-row italics code keeps the colour
    { fg := if fromPac then colourOfCode 0 else s.pen.fg, italic := true, underline := underline,
      flash := false, bg := if fromPac then 0 else s.pen.bg, semi := if fromPac then false else s.pen.semi }
  else
    { fg := colourOfCode colour, italic := false, underline := underline, flash := false,
      bg := if fromPac then 0 else s.pen.bg, semi := if fromPac then false else s.pen.semi }

def Service.exec (s : Service) : Cmd → Service
  | .pac r indent colour u =>
    match s.mode with
    | none => s
    | some (.rollUp n) =>
      let base := if r + 1 < n then n - 1 else r
      let s := if base = s.base then s else { s with disp := moveWindow s.disp n s.base base, base := base }
      { s with row := base, col := 1 + indent, pen := s.pen' (colour.getD 0) u true }
    | some _ => { s with row := r, col := 1 + indent, pen := s.pen' (colour.getD 0) u true }
  | .midRow colour u =>
    if s.mode = none then s else
    let s := { s with pen := s.pen' colour u false }
    s.putChar 0x20
  | .special k =>
    if s.mode = none then s else
    if k = 9 then
      let c := if s.col ≤ 32 then s.col else 32
      { s.setTarget (s.target.set s.row c none) with col := if s.col ≤ 32 then s.col + 1 else s.col }
    else s.putChar (specialChar k)
  | .rcl => { s with mode := some .popOn }
  | .rdc => { s with mode := some .paintOn }
  | .ru n =>
    match s.mode with
    | some (.rollUp _) => { s with mode := some (.rollUp n) }
    | _ => { s with mode := some (.rollUp n), disp := Mem.empty, nond := Mem.empty, base := 14, row := 14, col := 1 }
  | .bs =>
    if s.mode = none ∨ s.col ≤ 1 then s else
    { s.setTarget (s.target.set s.row (s.col - 1) none) with col := s.col - 1 }
  | .der =>
    if s.mode = none then s else
    s.setTarget (fun r c => if r = s.row ∧ s.col ≤ c then none else s.target r c)
  | .tab n => if s.mode = none then s else { s with col := min (s.col + n) 33 }
  | .fon => { s with pen := { s.pen with flash := true } }
  | .edm => { s with disp := Mem.empty }
  | .enm => { s with nond := Mem.empty }
  | .eoc => { s with mode := some .popOn, disp := s.nond, nond := s.disp }
  | .cr =>
    match s.mode with
    | some (.rollUp n) => { s with disp := rollWindow s.disp (s.base + 1 - n) s.base, row := s.base, col := 1 }
    | some .text =>
      if s.row < 14 then { s with row := s.row + 1, col := 1 }
      else { s with disp := rollWindow s.disp 0 14, col := 1 }
    | _ => s
  | .tr => { s with disp := Mem.empty, row := 0, col := 1 }
  | .rtd => s

/-- which service a field currently feeds: (is text, channel bit) -/
structure FieldSt where
  cur : Option (Bool × Nat) := none
  last : Option (Nat × Nat) := none
deriving Inhabited

structure St where
  f1 : FieldSt := {}
  f2 : FieldSt := {}
  svc : List Service     -- CC1..CC4, T1..T4
deriving Inhabited

def init : St := { svc := (List.replicate 4 (Service.init false)) ++ (List.replicate 4 (Service.init true)) }

def svcIndex (field2 isText : Bool) (k : Nat) : Nat :=
  (if isText then 4 else 0) + (if field2 then 2 else 0) + k

def St.modSvc (s : St) (i : Nat) (f : Service → Service) : St :=
  match s.svc[i]? with
  | some v => { s with svc := s.svc.set i (f v) }
  | none => s

/-- one byte pair of one field.  Only defined behaviour: both bytes odd parity. -/
def step (s : St) (field2 : Bool) (b0 b1 : Nat) : St :=
  let fs := if field2 then s.f2 else s.f1
  let setF (s : St) (fs : FieldSt) : St := if field2 then { s with f2 := fs } else { s with f1 := fs }
  let c1 := b0 &&& 0x7F
  let c2 := b1 &&& 0x7F
  if 0x10 ≤ c1 ∧ c1 ≤ 0x1F then
    -- control pair; on field 1 an immediate repetition is the redundant copy
    if !field2 ∧ fs.last = some (c1, c2) then setF s { fs with last := none }
    else
      let fs := { fs with last := if field2 then none else some (c1, c2) }
      match decodeCmd c1 c2 with
      | none => setF s fs
      | some (k, cmd) =>
        let cls : Option Bool :=
          match cmd with
          | .rcl | .ru _ | .rdc | .eoc => some false
          | .tr | .rtd => some true
          -- EIA-608-B 7.7 / Annex B.7: EDM and ENM inside a Text Mode transmission "shall be acted upon as
          -- appropriate for caption processing without terminating the Text Mode data stream": they address
          -- the caption service of the data channel (field, channel bit), never a text service
          | .edm | .enm => some false
          | _ => fs.cur.map (·.1)
        match cls with
        | none => setF s fs
        | some isText =>
          let fs := match cmd with
            | .rcl | .ru _ | .rdc | .eoc | .tr | .rtd => { fs with cur := some (isText, k) }
            | _ => fs
          (setF s fs).modSvc (svcIndex field2 isText k) (fun v => v.exec cmd)
  else if c1 = 0 ∧ c2 = 0 then s
  else if c1 < 0x10 ∧ c1 ≠ 0 then setF s { fs with last := none }
  else
    let s := setF s { fs with last := none }
    match fs.cur with
    | none => s
    | some (isText, k) =>
      s.modSvc (svcIndex field2 isText k) (fun v =>
        let v := if 0x20 ≤ c1 then v.putChar (basicChar c1) else v
        if 0x20 ≤ c2 then v.putChar (basicChar c2) else v)

/-! ## rendering to libzvbi's 15 x 34 page -/

/-- cell as printed by the harness: (unicode, underline, italic, flash, opacity, fg, bg) -/
structure RCell where
  unicode : Nat
  underline : Bool
  italic : Bool
  flash : Bool
  opacity : Nat
  fg : Nat
  bg : Nat
deriving DecidableEq, Repr

def opaqueOf (p : Pen) : Nat := if p.semi then 2 else 3

def cellOf (x : SCell) : RCell :=
  { unicode := x.ch, underline := x.pen.underline, italic := x.pen.italic, flash := x.pen.flash,
    opacity := opaqueOf x.pen, fg := x.pen.fg, bg := x.pen.bg }

def isSpaceChar (x : SCell) : Bool := (x.ch &&& 0x7F) == 0x20

def inside (m : Mem) (r c : Nat) : Option SCell := if 1 ≤ c ∧ c ≤ 32 then m r c else none

/-- the cell libzvbi's page shows at row r, column c (0..33) for display memory `m` -/
def renderCell (isText : Bool) (m : Mem) (r c : Nat) : RCell :=
  let blank : RCell := { unicode := 0x20, underline := false, italic := false, flash := false,
                         opacity := if isText then 3 else 0, fg := 7, bg := 0 }
  match inside m r c with
  | some x => cellOf x
  | none =>
    if isText then blank else
    -- solid space: left neighbour's trailing space takes precedence over right neighbour's leading space
    match (if c = 0 then none else inside m r (c - 1)), inside m r (c + 1) with
    | some l, right =>
      if !isSpaceChar l then { cellOf l with unicode := 0x20 }
      else match right with
        | some x => if !isSpaceChar x then { cellOf x with unicode := 0x20 } else blank
        | none => blank
    | none, some x => if !isSpaceChar x then { cellOf x with unicode := 0x20 } else blank
    | none, none => blank

def render (isText : Bool) (m : Mem) : List RCell :=
  (List.range 15).flatMap (fun r => (List.range 34).map (fun c => renderCell isText m r c))

/-- the page a viewer of service `i` (0..7) sees -/
def St.visible (s : St) (i : Nat) : List RCell :=
  match s.svc[i]? with
  | some v => render v.isText v.disp
  | none => []

end Zvbi.Cc.Eia608
