import ZvbiModel.Cc.Refine10
/-!
# Refinement to `Eia608`, part 11: from byte pairs on field 1 / CC1 to the service-level operations (reference side)
-/
namespace Zvbi.Cc
open Zvbi.Gen.Cc Eia608
open Zvbi.Hamm (par8 unpar8)

/-- the reference decoder has service CC1 in state `v` and no pending repetition on field 1 -/
structure SLift (t : Eia608.St) (v : Service) : Prop where
  get : t.svc[0]? = some v
  last : t.f1.last = none

theorem modSvc_get {t : Eia608.St} {v : Service} (h : t.svc[0]? = some v) (f : Service → Service) :
    (t.modSvc 0 f).svc[0]? = some (f v) ∧ (t.modSvc 0 f).f1 = t.f1 := by
  unfold Eia608.St.modSvc
  rw [h]
  have hlt : 0 < t.svc.length := by
    rcases Nat.lt_or_ge 0 t.svc.length with hl | hl
    · exact hl
    · rw [List.getElem?_eq_none hl] at h; cases h
  exact ⟨by simp [List.getElem?_set_self hlt], rfl⟩

/-- a mode-setting control pair (RCL, RUx, RDC, EOC) for CC1, transmitted twice -/
theorem spec_mode_twice {t : Eia608.St} {v : Service} (L : SLift t v) {c1 c2 : Nat} (h1 : 0x10 ≤ c1) (h1' : c1 ≤ 0x1F)
    (h2 : c2 < 128) {cmd : Cmd} (hd : decodeCmd c1 c2 = some (0, cmd))
    (hmode : cmd = .rcl ∨ (∃ n, cmd = .ru n) ∨ cmd = .rdc ∨ cmd = .eoc) :
    SLift (Eia608.step (Eia608.step t false (par8 c1) (par8 c2)) false (par8 c1) (par8 c2)) (v.exec cmd) ∧
    (Eia608.step (Eia608.step t false (par8 c1) (par8 c2)) false (par8 c1) (par8 c2)).f1.cur = some (false, 0) := by
  obtain ⟨_, a1, _, _, _⟩ := par8_facts c1 (by omega)
  obtain ⟨_, a2, _, _, _⟩ := par8_facts c2 h2
  have hc : 0x10 ≤ c1 ∧ c1 ≤ 0x1F := ⟨h1, h1'⟩
  have first : Eia608.step t false (par8 c1) (par8 c2) =
      ({ t with f1 := { cur := some (false, 0), last := some (c1, c2) } } : Eia608.St).modSvc 0 (fun v => v.exec cmd) := by
    unfold Eia608.step
    simp only [a1, a2, hc, and_self, if_true, Bool.not_false, L.last, Bool.false_eq_true, if_false, hd]
    rcases hmode with rfl | ⟨n, rfl⟩ | rfl | rfl <;> simp [svcIndex]
  rw [first]
  have g := modSvc_get (t := ({ t with f1 := { cur := some (false, 0), last := some (c1, c2) } } : Eia608.St)) L.get
    (fun v => v.exec cmd)
  generalize (({ t with f1 := { cur := some (false, 0), last := some (c1, c2) } } : Eia608.St).modSvc 0 fun v => v.exec cmd) = t1 at g
  obtain ⟨g1, g2⟩ := g
  have second : Eia608.step t1 false (par8 c1) (par8 c2) = { t1 with f1 := { t1.f1 with last := none } } := by
    unfold Eia608.step
    simp only [a1, a2, hc, and_self, if_true, Bool.not_false, g2, Bool.false_eq_true, if_false]
  rw [second]
  exact ⟨⟨g1, rfl⟩, by show t1.f1.cur = _; rw [g2]⟩

/-- any other control pair of CC1 (PAC, ENM, CR) while CC1 is the current caption service, transmitted twice -/
theorem spec_cmd_twice {t : Eia608.St} {v : Service} (L : SLift t v) (hcur : t.f1.cur = some (false, 0)) {c1 c2 : Nat}
    (h1 : 0x10 ≤ c1) (h1' : c1 ≤ 0x1F) (h2 : c2 < 128) {cmd : Cmd} (hd : decodeCmd c1 c2 = some (0, cmd))
    (hother : (∃ r i c u, cmd = .pac r i c u) ∨ cmd = .enm ∨ cmd = .cr) :
    SLift (Eia608.step (Eia608.step t false (par8 c1) (par8 c2)) false (par8 c1) (par8 c2)) (v.exec cmd) ∧
    (Eia608.step (Eia608.step t false (par8 c1) (par8 c2)) false (par8 c1) (par8 c2)).f1.cur = some (false, 0) := by
  obtain ⟨_, a1, _, _, _⟩ := par8_facts c1 (by omega)
  obtain ⟨_, a2, _, _, _⟩ := par8_facts c2 h2
  have hc : 0x10 ≤ c1 ∧ c1 ≤ 0x1F := ⟨h1, h1'⟩
  have first : Eia608.step t false (par8 c1) (par8 c2) =
      ({ t with f1 := { cur := some (false, 0), last := some (c1, c2) } } : Eia608.St).modSvc 0 (fun v => v.exec cmd) := by
    unfold Eia608.step
    simp only [a1, a2, hc, and_self, if_true, Bool.not_false, L.last, Bool.false_eq_true, if_false, hd]
    rcases hother with ⟨r, i, c, u, rfl⟩ | rfl | rfl <;> simp [svcIndex, hcur]
  rw [first]
  have g := modSvc_get (t := ({ t with f1 := { cur := some (false, 0), last := some (c1, c2) } } : Eia608.St)) L.get
    (fun v => v.exec cmd)
  generalize (({ t with f1 := { cur := some (false, 0), last := some (c1, c2) } } : Eia608.St).modSvc 0 fun v => v.exec cmd) = t1 at g
  obtain ⟨g1, g2⟩ := g
  have second : Eia608.step t1 false (par8 c1) (par8 c2) = { t1 with f1 := { t1.f1 with last := none } } := by
    unfold Eia608.step
    simp only [a1, a2, hc, and_self, if_true, Bool.not_false, g2, Bool.false_eq_true, if_false]
  rw [second]
  exact ⟨⟨g1, rfl⟩, by show t1.f1.cur = _; rw [g2]⟩

/-- a text pair of field 1 while CC1 is the current caption service -/
theorem spec_text {t : Eia608.St} {v : Service} (L : SLift t v) (hcur : t.f1.cur = some (false, 0)) {a b : Nat}
    (ha : 0x20 ≤ a) (ha' : a < 0x80) (hb : b = 0 ∨ (0x20 ≤ b ∧ b < 0x80)) :
    SLift (Eia608.step t false (par8 a) (par8 b)) (specRun v (pairCodes a b)) ∧
    (Eia608.step t false (par8 a) (par8 b)).f1.cur = some (false, 0) := by
  obtain ⟨_, a1, _, _, _⟩ := par8_facts a ha'
  have hb128 : b < 128 := by rcases hb with h | h <;> omega
  obtain ⟨_, a2, _, _, _⟩ := par8_facts b hb128
  have e : Eia608.step t false (par8 a) (par8 b) =
      ({ t with f1 := { t.f1 with last := none } } : Eia608.St).modSvc 0 (fun v => specRun v (pairCodes a b)) := by
    unfold Eia608.step
    have n1 : ¬ (0x10 ≤ a ∧ a ≤ 0x1F) := by omega
    have n2 : ¬ (a = 0 ∧ b = 0) := by omega
    have n3 : ¬ (a < 0x10 ∧ a ≠ 0) := by omega
    simp only [a1, a2, n1, n2, n3, if_false, Bool.false_eq_true, hcur, svcIndex]
    congr 1
    funext w
    unfold pairCodes specRun
    have ha20 : 0x20 ≤ a := ha
    rcases hb with hb | hb
    · subst hb; simp [ha20]
    · have : b ≠ 0 := by omega
      simp [ha20, hb.1, this]
  rw [e]
  have g := modSvc_get (t := ({ t with f1 := { t.f1 with last := none } } : Eia608.St)) L.get
    (fun v => specRun v (pairCodes a b))
  exact ⟨⟨g.1, by rw [g.2]⟩, by rw [g.2]; exact hcur⟩

end Zvbi.Cc
